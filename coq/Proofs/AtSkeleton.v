(* Proofs about Model/AtSkeleton.v: the outcome analysis [run] is sound for the
   path semantics [exec]; hence line_ok s = true means that EVERY path through s
   writes exactly one final result code and ends normally. *)
From Coq Require Import List Bool Arith Lia.
From BV Require Import Model.AtSkeleton.
Import ListNotations.

(* path semantics: exec s n n' st  — started with n final result codes written, some
   path through s ends with n' written and status st *)
Inductive exec : sk -> nat -> nat -> status -> Prop :=
| E_skip n : exec Skip n n Norm
| E_final n : exec Final n (S n) Norm
| E_may_ok n : exec May n n Norm
| E_may_exc n : exec May n n Exc
| E_ret n : exec Ret n n Retd
| E_cont n : exec Cont n n Contd
| E_seq a b n m k st : exec a n m Norm -> exec b m k st -> exec (Seq a b) n k st
| E_seq_stop a b n m st : exec a n m st -> st <> Norm -> exec (Seq a b) n m st
| E_alt_l a b n m st : exec a n m st -> exec (Alt a b) n m st
| E_alt_r a b n m st : exec b n m st -> exec (Alt a b) n m st
| E_loop_done a n : exec (Loop a) n n Norm
| E_loop_next a n m k st : exec a n m Norm -> exec (Loop a) m k st -> exec (Loop a) n k st
| E_loop_cont a n m k st : exec a n m Contd -> exec (Loop a) m k st -> exec (Loop a) n k st
| E_loop_stop a n m st : exec a n m st -> st <> Norm -> st <> Contd -> exec (Loop a) n m st
| E_try_ok a h n m st : exec a n m st -> st <> Exc -> exec (Try a h) n m st
| E_try_exc a h n m k st : exec a n m Exc -> exec h m k st -> exec (Try a h) n k st
| E_fn a n m st : exec a n m st -> st <> Retd -> st <> Contd -> exec (Fn a) n m st
| E_fn_ret a n m : exec a n m Retd -> exec (Fn a) n m Norm
| E_reset : exec Reset 0 0 Norm      (* only meaningful before any final result code *)
| E_guard_none : exec FinalIfNone 0 1 Norm
| E_guard_some n : exec FinalIfNone (S n) (S n) Norm.

Lemma exec_not_unk s n m st : exec s n m st -> st <> Unk.
Proof. induction 1; congruence. Qed.

Lemma no_unk_In l o : no_unk l = true -> In o l -> snd o <> Unk.
Proof.
  unfold no_unk. rewrite forallb_forall. intros H Hi E. specialize (H o Hi).
  rewrite E in H. discriminate.
Qed.

Lemma no_unk_app a b : no_unk (a ++ b) = no_unk a && no_unk b.
Proof. unfold no_unk. apply forallb_app. Qed.

Lemma no_unk_flat_map {f : nat * status -> list (nat * status)} l :
  no_unk (flat_map f l) = true -> forall o, In o l -> no_unk (f o) = true.
Proof.
  induction l as [|x l IH]; cbn; intros H o Hi; [contradiction|].
  rewrite no_unk_app in H. apply andb_prop in H as [H1 H2].
  destruct Hi as [->|Hi]; auto.
Qed.

Definition fn_map (o : nat * status) : nat * status :=
  match snd o with Retd => (fst o, Norm) | Contd => (fst o, Unk) | _ => o end.

Lemma no_unk_fn l : no_unk (map fn_map l) = true -> no_unk l = true.
Proof.
  unfold no_unk. induction l as [|[k st] l IH]; cbn [map forallb]; [reflexivity|]. intros H.
  apply andb_prop in H as [H1 H2]. rewrite (IH H2), andb_true_r.
  destruct st; cbn in *; try reflexivity; discriminate.
Qed.

(* soundness of the analysis *)
Lemma run_sound : forall s n m st,
  exec s n m st -> no_unk (run s n) = true -> In (m, st) (run s n).
Proof.
  intros s n m st H. induction H; intros Hu; cbn [run] in *.
  - left; reflexivity.
  - left; reflexivity.
  - left; reflexivity.
  - right; left; reflexivity.
  - left; reflexivity.
  - left; reflexivity.
  - (* seq *)
    assert (Hua : no_unk (run a n) = true).
    { unfold no_unk. apply forallb_forall. intros o Ho. destruct (snd o) eqn:E; try reflexivity.
      exfalso. pose proof (no_unk_flat_map _ Hu o Ho) as H1. cbn in H1. rewrite E in H1.
      cbn in H1. rewrite E in H1. discriminate. }
    specialize (IHexec1 Hua). apply in_flat_map. exists (m, Norm). split; [exact IHexec1|].
    cbn. apply IHexec2. exact (no_unk_flat_map _ Hu (m, Norm) IHexec1).
  - assert (Hua : no_unk (run a n) = true).
    { unfold no_unk. apply forallb_forall. intros o Ho. destruct (snd o) eqn:E; try reflexivity.
      exfalso. pose proof (no_unk_flat_map _ Hu o Ho) as H1. cbn in H1. rewrite E in H1.
      cbn in H1. rewrite E in H1. discriminate. }
    specialize (IHexec Hua). apply in_flat_map. exists (m, st). split; [exact IHexec|].
    cbn. destruct st; try congruence; left; reflexivity.
  - rewrite no_unk_app in Hu. apply andb_prop in Hu as [H1 H2]. apply in_or_app. left; auto.
  - rewrite no_unk_app in Hu. apply andb_prop in Hu as [H1 H2]. apply in_or_app. right; auto.
  - (* loop done *)
    destruct (forallb _ (run a n)); [left; reflexivity|discriminate].
  - (* loop next *)
    destruct (forallb _ (run a n)) eqn:Ef; [|discriminate].
    pose proof Ef as Ef0. rewrite forallb_forall in Ef.
    assert (Hua : no_unk (run a n) = true).
    { unfold no_unk. apply forallb_forall. intros o Ho. specialize (Ef o Ho).
      destruct (snd o); try reflexivity. discriminate. }
    specialize (IHexec1 Hua). pose proof (Ef _ IHexec1) as Em. cbn in Em.
    apply Nat.eqb_eq in Em. subst m.
    rewrite Ef0 in IHexec2. apply IHexec2. exact Hu.
  - (* loop continue *)
    destruct (forallb _ (run a n)) eqn:Ef; [|discriminate].
    pose proof Ef as Ef0. rewrite forallb_forall in Ef.
    assert (Hua : no_unk (run a n) = true).
    { unfold no_unk. apply forallb_forall. intros o Ho. specialize (Ef o Ho).
      destruct (snd o); try reflexivity. discriminate. }
    specialize (IHexec1 Hua). pose proof (Ef _ IHexec1) as Em. cbn in Em.
    apply Nat.eqb_eq in Em. subst m.
    rewrite Ef0 in IHexec2. apply IHexec2. exact Hu.
  - (* loop stop *)
    destruct (forallb _ (run a n)) eqn:Ef; [|discriminate].
    rewrite forallb_forall in Ef.
    assert (Hua : no_unk (run a n) = true).
    { unfold no_unk. apply forallb_forall. intros o Ho. specialize (Ef o Ho).
      destruct (snd o); try reflexivity. discriminate. }
    specialize (IHexec Hua). right. apply filter_In. split; [exact IHexec|].
    cbn. destruct st; congruence.
  - (* try, no exception *)
    assert (Hua : no_unk (run a n) = true).
    { unfold no_unk. apply forallb_forall. intros o Ho. destruct (snd o) eqn:E; try reflexivity.
      exfalso. pose proof (no_unk_flat_map _ Hu o Ho) as H1. cbn in H1. rewrite E in H1.
      cbn in H1. rewrite E in H1. discriminate. }
    specialize (IHexec Hua). apply in_flat_map. exists (m, st). split; [exact IHexec|].
    cbn. destruct st; try congruence; left; reflexivity.
  - assert (Hua : no_unk (run a n) = true).
    { unfold no_unk. apply forallb_forall. intros o Ho. destruct (snd o) eqn:E; try reflexivity.
      exfalso. pose proof (no_unk_flat_map _ Hu o Ho) as H1. cbn in H1. rewrite E in H1.
      cbn in H1. rewrite E in H1. discriminate. }
    specialize (IHexec1 Hua). apply in_flat_map. exists (m, Exc). split; [exact IHexec1|].
    cbn. apply IHexec2. exact (no_unk_flat_map _ Hu (m, Exc) IHexec1).
  - (* fn *)
    assert (Hua : no_unk (run a n) = true) by (apply no_unk_fn; exact Hu).
    specialize (IHexec Hua). apply in_map_iff. exists (m, st). split; [|exact IHexec].
    cbn. destruct st; congruence.
  - assert (Hua : no_unk (run a n) = true) by (apply no_unk_fn; exact Hu).
    specialize (IHexec Hua). apply in_map_iff. exists (m, Retd). split; [reflexivity|exact IHexec].
  - left; reflexivity.
  - left; reflexivity.
  - left; reflexivity.
Qed.

Lemma line_ok_no_unk s : line_ok s = true -> no_unk (run s 0) = true.
Proof.
  unfold line_ok, no_unk. rewrite !forallb_forall. intros H o Ho. specialize (H o Ho).
  apply andb_prop in H as [_ H]. destruct (snd o); try discriminate; reflexivity.
Qed.

(* every path through a skeleton that passes line_ok writes exactly one final result
   code and ends normally (or with continue) *)
Lemma line_exactly_one s :
  line_ok s = true -> forall n st, exec s 0 n st -> n = 1 /\ (st = Norm \/ st = Contd).
Proof.
  intros Hok n st He.
  pose proof (run_sound s 0 n st He (line_ok_no_unk s Hok)) as Hi.
  unfold line_ok in Hok. rewrite forallb_forall in Hok. specialize (Hok _ Hi). cbn in Hok.
  apply andb_prop in Hok as [H1 H2]. apply Nat.eqb_eq in H1.
  split; [exact H1|]. destruct st; try discriminate; auto.
Qed.

Lemma table_exactly_one (line : sk -> sk) (hs : list handler) :
  forallb (fun h => line_ok (line (h_body h))) hs = true ->
  forall h, In h hs -> forall n st, exec (line (h_body h)) 0 n st -> n = 1 /\ (st = Norm \/ st = Contd).
Proof.
  intros H h Hh. rewrite forallb_forall in H. apply line_exactly_one. apply H. exact Hh.
Qed.
