(* C14 - end to end for the built-in back end, CMAC family: f4, f5, f6, g2, h6, h7 computed with
   builtin.aes_cmac equal the Core Vol 3 Part H formulas over RFC 4493 AES-CMAC over FIPS-197
   AES-128, for all arguments of the Security Manager sizes. *)
From Coq Require Import ZArith List Bool Lia ZifyBool ZifyNat.
From BV Require Import Gen.C14Tables Model.CryptoBytes Model.Aes Model.Cmac Model.SmToolbox Model.CryptoBuiltin.
From BV Require Import Proofs.CryptoBytes Proofs.Cmac Proofs.Aes Proofs.AesSpec Proofs.SmToolbox Proofs.BuiltinSpec.
Import ListNotations.
Open Scope Z_scope.

Ltac Zify.zify_post_hook ::= Z.div_mod_to_equations.

(* FIPS-197 AES-128 on one block, and RFC 4493 AES-CMAC over it *)
Definition cipher128 (k b : list Z) : list Z := cipher (round_keys_of (key_schedule_128 k)) b.
Definition cmac_fips (m k : list Z) : list Z := cmac_spec (cipher128 k) m.

Definition good_block (b : list Z) : Prop := length b = 16%nat /\ bytes_ok b = true.

(* ------------------------------------------------------------------ cmac_spec is extensional *)
Section Ext.
  Variables E1 E2 : list Z -> list Z.
  Hypothesis agree : forall b, good_block b -> E1 b = E2 b.
  Hypothesis shape : forall b, good_block b -> good_block (E1 b).

  Lemma chain_ext : forall bs X, good_block X -> Forall good_block bs ->
    spec_chain E1 X bs = spec_chain E2 X bs /\ good_block (spec_chain E1 X bs).
  Proof using agree shape.
    induction bs as [|b bs IH]; intros X HX Hbs; [split; [reflexivity|assumption]|].
    inversion Hbs as [|? ? Hb Hr]; subst. cbn [spec_chain].
    assert (Hx : good_block (xor_zip X b)).
    { destruct HX, Hb. split; [apply xor_zip_length_eq|apply xor_zip_ok]; assumption. }
    rewrite <- (agree _ Hx). apply IH; auto.
  Qed.

  Lemma subkey_good : forall l, good_block l -> good_block (spec_subkey l).
  Proof using agree shape.
    intros l [Hl Ho]. unfold spec_subkey, spec_shl1.
    assert (G : good_block (to_be 16 ((2 * be_int l) mod 2 ^ 128))) by (split; [apply to_be_length|apply to_be_ok]).
    destruct (spec_msb l); [|assumption].
    destruct G. split; [apply xor_zip_length_eq; auto|apply xor_zip_ok; auto].
  Qed.

  Lemma good_zeros : good_block (zeros 16).
  Proof using. split; reflexivity. Qed.

  Lemma chunks16_good : forall l q, length l = (16 * q)%nat -> bytes_ok l = true ->
    Forall good_block (chunks16 l).
  Proof using agree shape.
    intros l q Hl Ho. destruct (split_blocks l) as (bs & r & E & Hbs & Hr).
    assert (r = []).
    { apply (f_equal (@length Z)) in E. rewrite app_length, concat_blocks_length in E by assumption.
      destruct r; [reflexivity|]. simpl in *. lia. }
    subst r. rewrite app_nil_r in E. subst l. rewrite chunks16_concat by assumption.
    clear Hl Hr. induction bs as [|b bs IH]; [constructor|].
    inversion Hbs; subst. cbn [concat] in Ho. rewrite bytes_ok_app in Ho. apply andb_true_iff in Ho as [Hb1 Hb2].
    constructor; [split; assumption|apply IH; assumption].
  Qed.

  Lemma padding_good : forall r, (length r < 16)%nat -> bytes_ok r = true -> good_block (spec_padding r).
  Proof using agree shape.
    intros r Hr Ho. unfold spec_padding. split.
    - rewrite app_length. cbn [length]. rewrite length_zeros. lia.
    - rewrite bytes_ok_app, Ho. cbn [bytes_ok forallb andb]. apply bytes_ok_zeros.
  Qed.

  Theorem cmac_spec_ext : forall M, bytes_ok M = true ->
    cmac_spec E1 M = cmac_spec E2 M /\ good_block (cmac_spec E1 M).
  Proof using agree shape.
    intros M Ho. unfold cmac_spec.
    set (l := length M).
    set (n0 := ((l + 15) / 16)%nat).
    set (n := if Nat.eqb n0 0 then 1%nat else n0).
    set (flag := if Nat.eqb n0 0 then false else Nat.eqb (l mod 16) 0).
    assert (Hn : (16 * (n - 1) <= l)%nat /\ (l - 16 * (n - 1) <= 16)%nat /\
                 (flag = true -> (l - 16 * (n - 1) = 16)%nat) /\ (flag = false -> (l - 16 * (n - 1) < 16)%nat)).
    { unfold n, flag, n0. destruct (Nat.eqb ((l + 15) / 16) 0) eqn:E0.
      - apply Nat.eqb_eq in E0. repeat split; try lia; try discriminate.
      - apply Nat.eqb_neq in E0. destruct (Nat.eqb (l mod 16) 0) eqn:Em.
        + apply Nat.eqb_eq in Em. repeat split; try lia; try discriminate.
        + apply Nat.eqb_neq in Em. repeat split; try lia; try discriminate. }
    destruct Hn as (H1 & H2 & Hf1 & Hf0).
    (* sub-keys *)
    assert (HL : spec_L E1 = spec_L E2 /\ good_block (spec_L E1)).
    { unfold spec_L. split; [apply agree|apply shape]; apply good_zeros. }
    destruct HL as [HL HLg].
    assert (HK1 : spec_K1 E1 = spec_K1 E2 /\ good_block (spec_K1 E1)).
    { unfold spec_K1. rewrite <- HL. split; [reflexivity|apply subkey_good; assumption]. }
    destruct HK1 as [HK1 HK1g].
    assert (HK2 : spec_K2 E1 = spec_K2 E2 /\ good_block (spec_K2 E1)).
    { unfold spec_K2. rewrite <- HK1. split; [reflexivity|apply subkey_good; assumption]. }
    destruct HK2 as [HK2 HK2g].
    (* the chain over the first n-1 blocks *)
    assert (Hhead : Forall good_block (chunks16 (firstn (16 * (n - 1)) M))).
    { apply (chunks16_good _ (n - 1)); [rewrite firstn_length; fold l; lia|apply bytes_ok_firstn; assumption]. }
    destruct (chain_ext _ (zeros 16) good_zeros Hhead) as [Hc Hcg].
    rewrite <- Hc, <- HK1, <- HK2.
    (* the last block *)
    set (Mn := skipn (16 * (n - 1)) M).
    assert (HMn : length Mn = (l - 16 * (n - 1))%nat) by (unfold Mn; rewrite skipn_length; reflexivity).
    assert (HMo : bytes_ok Mn = true) by (apply bytes_ok_skipn; assumption).
    assert (Hlast : good_block (if flag then xor_zip Mn (spec_K1 E1) else xor_zip (spec_padding Mn) (spec_K2 E1))).
    { destruct flag.
      - destruct HK1g. split; [apply xor_zip_length_eq; auto; rewrite HMn; apply Hf1; reflexivity|apply xor_zip_ok; auto].
      - destruct HK2g. destruct (padding_good Mn) as [P1 P2]; auto.
        { rewrite HMn. apply Hf0. reflexivity. }
        split; [apply xor_zip_length_eq; auto|apply xor_zip_ok; auto]. }
    assert (Harg : good_block (xor_zip (if flag then xor_zip Mn (spec_K1 E1) else xor_zip (spec_padding Mn) (spec_K2 E1))
                                       (spec_chain E1 (zeros 16) (chunks16 (firstn (16 * (n - 1)) M))))).
    { destruct Hlast, Hcg. split; [apply xor_zip_length_eq; auto|apply xor_zip_ok; auto]. }
    split; [apply agree; assumption|apply shape; assumption].
  Qed.
End Ext.

(* ------------------------------------------------------------------ built-in aes_cmac = RFC 4493 over FIPS-197 *)
Lemma aes_block_is_cipher128 : forall k ke b, length k = 16%nat -> bytes_ok k = true ->
  aes_init k = Some ke -> good_block b ->
  aes_block ke b = cipher128 k b /\ good_block (aes_block ke b).
Proof.
  intros k ke b Hk Hko Hi [Hb Hbo].
  destruct (aes128_key_schedule_is_fips197 k Hk Hko) as (ke' & Hi' & Hr & Hlen).
  rewrite Hi in Hi'. inversion Hi'; subst ke'.
  split.
  - unfold aes_block, cipher128. rewrite aes_encrypt_is_fips197_cipher by (auto; lia). rewrite Hr. reflexivity.
  - destruct (aes_block_shape ke b) as [H1 H2]; [lia|assumption|]. split; assumption.
Qed.

Theorem cmac_total_is_fips : forall m k,
  length k = 16%nat -> bytes_ok k = true -> bytes_ok m = true -> len m <= max_size ->
  cmac_total m k = cmac_fips m k /\ good_block (cmac_total m k).
Proof.
  intros m k Hk Hko Hmo Hlen. unfold cmac_total.
  rewrite builtin_cmac_eq_rfc by assumption. unfold aes_cmac_rfc.
  destruct (aes128_key_schedule_is_fips197 k Hk Hko) as (ke & Hi & _ & _).
  rewrite Hi. cbn [unopt]. unfold cmac_fips.
  destruct (cmac_spec_ext (aes_block ke) (cipher128 k)) with (M := m) as [He Hg]; auto.
  - intros b Hb. apply (aes_block_is_cipher128 k ke b); assumption.
  - intros b Hb. apply (aes_block_is_cipher128 k ke b); assumption.
Qed.

Lemma cmac_total_eq : forall m k, good_block k -> bytes_ok m = true -> (length m <= 4096)%nat ->
  cmac_total m k = cmac_fips m k /\ good_block (cmac_fips m k).
Proof.
  intros m k [Hk Hko] Hm Hl.
  destruct (cmac_total_is_fips m k) as [He Hg]; auto.
  - change max_size with 4503599627370496. unfold len. lia.
  - split; [assumption|]. rewrite <- He. assumption.
Qed.

Lemma good_rev : forall b, good_block b -> good_block (rev b).
Proof. intros b [H1 H2]. split; [rewrite rev_length|rewrite bytes_ok_rev]; assumption. Qed.

Ltac ok_msg := repeat rewrite bytes_ok_app; repeat rewrite bytes_ok_rev; repeat (apply andb_true_iff; split); auto.
Ltac len_msg := repeat rewrite app_length; repeat rewrite rev_length; cbn [length f5_key_id]; lia.

(* 2.2.6 *)
Theorem builtin_f4_is_core_spec : forall u v x z,
  length u = 32%nat -> bytes_ok u = true -> length v = 32%nat -> bytes_ok v = true ->
  good_block x -> length z = 1%nat -> bytes_ok z = true ->
  rev (b_f4 u v x z) = spec_f4 cmac_fips (rev u) (rev v) (rev x) (rev z).
Proof.
  intros u v x z Hu Huo Hv Hvo Hx Hz Hzo. rewrite <- f4_spec by assumption. f_equal.
  unfold b_f4, f4. f_equal. apply cmac_total_eq; [apply good_rev; assumption|ok_msg|len_msg].
Qed.

(* 2.2.7 *)
Theorem builtin_f5_is_core_spec : forall w n1 n2 a1 a2,
  length w = 32%nat -> bytes_ok w = true -> good_block n1 -> good_block n2 ->
  length a1 = 7%nat -> bytes_ok a1 = true -> length a2 = 7%nat -> bytes_ok a2 = true ->
  (rev (fst (b_f5 w n1 n2 a1 a2)), rev (snd (b_f5 w n1 n2 a1 a2))) =
  spec_f5 cmac_fips (rev w) (rev n1) (rev n2) (rev a1) (rev a2).
Proof.
  intros w n1 n2 a1 a2 Hw Hwo [Hn1 Hn1o] [Hn2 Hn2o] Ha1 Ha1o Ha2 Ha2o.
  rewrite <- f5_spec. unfold b_f5, f5. cbn [fst snd].
  assert (Hsalt : good_block f5_salt) by (split; reflexivity).
  destruct (cmac_total_eq (rev w) f5_salt Hsalt) as [Ht Htg]; [ok_msg|len_msg|].
  rewrite Ht.
  assert (Hko : bytes_ok f5_key_id = true) by reflexivity.
  assert (H0 : bytes_ok [0] = true) by reflexivity. assert (H1 : bytes_ok [1] = true) by reflexivity.
  assert (H10 : bytes_ok [1; 0] = true) by reflexivity.
  destruct (cmac_total_eq ([0] ++ f5_key_id ++ rev n1 ++ rev n2 ++ rev a1 ++ rev a2 ++ [1; 0]) _ Htg) as [E0 _];
    [ok_msg|len_msg|].
  destruct (cmac_total_eq ([1] ++ f5_key_id ++ rev n1 ++ rev n2 ++ rev a1 ++ rev a2 ++ [1; 0]) _ Htg) as [E1 _];
    [ok_msg|len_msg|].
  rewrite E0, E1. reflexivity.
Qed.

(* 2.2.8 *)
Theorem builtin_f6_is_core_spec : forall w n1 n2 r io_cap a1 a2,
  good_block w -> good_block n1 -> good_block n2 -> good_block r ->
  length io_cap = 3%nat -> bytes_ok io_cap = true ->
  length a1 = 7%nat -> bytes_ok a1 = true -> length a2 = 7%nat -> bytes_ok a2 = true ->
  rev (b_f6 w n1 n2 r io_cap a1 a2) =
  spec_f6 cmac_fips (rev w) (rev n1) (rev n2) (rev r) (rev io_cap) (rev a1) (rev a2).
Proof.
  intros w n1 n2 r io a1 a2 Hw [Hn1 Hn1o] [Hn2 Hn2o] [Hr Hro] Hio Hioo Ha1 Ha1o Ha2 Ha2o.
  rewrite <- f6_spec. f_equal. unfold b_f6, f6. f_equal.
  apply cmac_total_eq; [apply good_rev; assumption|ok_msg|len_msg].
Qed.

(* 2.2.9 *)
Theorem builtin_g2_is_core_spec : forall u v x y,
  length u = 32%nat -> bytes_ok u = true -> length v = 32%nat -> bytes_ok v = true ->
  good_block x -> good_block y ->
  b_g2 u v x y = spec_g2 cmac_fips (rev u) (rev v) (rev x) (rev y).
Proof.
  intros u v x y Hu Huo Hv Hvo Hx [Hy Hyo].
  destruct (cmac_total_eq (rev u ++ rev v ++ rev y) (rev x)) as [He [Hl Ho]];
    [apply good_rev; assumption|ok_msg|len_msg|].
  rewrite <- g2_spec by assumption. unfold b_g2, g2. rewrite He. reflexivity.
Qed.

(* 2.2.10 *)
Theorem builtin_h6_is_core_spec : forall w key_id,
  good_block w -> length key_id = 4%nat -> bytes_ok key_id = true ->
  rev (b_h6 w key_id) = spec_h6 cmac_fips (rev w) key_id.
Proof.
  intros w kid Hw Hk Hko. rewrite <- h6_spec. f_equal. unfold b_h6, h6. f_equal.
  apply cmac_total_eq; [apply good_rev; assumption|assumption|lia].
Qed.

(* 2.2.11 *)
Theorem builtin_h7_is_core_spec : forall salt w,
  good_block salt -> good_block w ->
  rev (b_h7 salt w) = spec_h7 cmac_fips salt (rev w).
Proof.
  intros salt w Hs [Hw Hwo]. rewrite <- h7_spec. f_equal. unfold b_h7, h7. f_equal.
  apply cmac_total_eq; [assumption|ok_msg|len_msg].
Qed.
