(* C14 - the built-in ECDH (after fixes/D14.patch) never produces a shared secret from a pair
   of coordinates that is not a point of the curve; what validation means; shape of the result;
   the curve parameters in the source are those of NIST P-256; specification sample data. *)
From Coq Require Import ZArith List Bool Lia ZifyBool.
From BV Require Import Gen.C14Tables Model.CryptoBytes Model.P256 Proofs.CryptoBytes.
Import ListNotations.
Open Scope Z_scope.

(* ------------------------------------------------------------------ validation *)
Lemma on_curve_iff : forall c x y, 0 < cp c ->
  (on_curve c x y = true <->
   (y * y) mod cp c = (x * x * x + ca c * x + cb c) mod cp c).
Proof.
  intros c x y Hp. unfold on_curve. rewrite Z.eqb_eq.
  rewrite <- (Zminus_mod_idemp_l (y * y)), <- (Zminus_mod_idemp_r _ (x * x * x + ca c * x + cb c)).
  pose proof (Z.mod_pos_bound (y * y) (cp c) Hp) as B1.
  pose proof (Z.mod_pos_bound (x * x * x + ca c * x + cb c) (cp c) Hp) as B2.
  set (u := (y * y) mod cp c) in *. set (v := (x * x * x + ca c * x + cb c) mod cp c) in *.
  split.
  - intros Hd. destruct (Z.eq_dec u v) as [|Hne]; [assumption|exfalso].
    apply Z.mod_divide in Hd; [|lia]. destruct Hd as [k Hk].
    assert (k = 0) by nia. subst k. lia.
  - intros H. rewrite H, Z.sub_diag. apply Z.mod_0_l. lia.
Qed.

(* the validation does not depend on the representative of a coordinate modulo p *)
Lemma on_curve_mod : forall c x y, 0 < cp c ->
  on_curve c x y = on_curve c (x mod cp c) (y mod cp c).
Proof.
  intros c x y Hp.
  destruct (on_curve c x y) eqn:E1; destruct (on_curve c (x mod cp c) (y mod cp c)) eqn:E2; try reflexivity.
  - apply on_curve_iff in E1; [|assumption].
    assert (H : on_curve c (x mod cp c) (y mod cp c) = true).
    { apply on_curve_iff; [assumption|].
      rewrite <- Zmult_mod, E1.
      rewrite (Zplus_mod (x * x * x + ca c * x)), (Zplus_mod (x * x * x)), (Zmult_mod (x * x)), (Zmult_mod x x), (Zmult_mod (ca c) x).
      symmetry.
      rewrite (Zplus_mod (x mod cp c * (x mod cp c) * (x mod cp c) + ca c * (x mod cp c))),
              (Zplus_mod (x mod cp c * (x mod cp c) * (x mod cp c))),
              (Zmult_mod (x mod cp c * (x mod cp c))), (Zmult_mod (x mod cp c) (x mod cp c)), (Zmult_mod (ca c) (x mod cp c)).
      rewrite !Zmod_mod. reflexivity. }
    congruence.
  - apply on_curve_iff in E2; [|assumption].
    assert (H : on_curve c x y = true).
    { apply on_curve_iff; [assumption|].
      rewrite <- Zmult_mod in E2. rewrite E2.
      rewrite (Zplus_mod (x * x * x + ca c * x)), (Zplus_mod (x * x * x)), (Zmult_mod (x * x)), (Zmult_mod x x), (Zmult_mod (ca c) x).
      rewrite (Zplus_mod (x mod cp c * (x mod cp c) * (x mod cp c) + ca c * (x mod cp c))),
              (Zplus_mod (x mod cp c * (x mod cp c) * (x mod cp c))),
              (Zmult_mod (x mod cp c * (x mod cp c))), (Zmult_mod (x mod cp c) (x mod cp c)), (Zmult_mod (ca c) (x mod cp c)).
      rewrite !Zmod_mod. reflexivity. }
    congruence.
Qed.

(* every pair of coordinates that fails the validation is rejected, whatever the private key *)
Theorem ecdh_rejects_invalid : forall c d x y,
  on_curve c x y = false -> ecdh c d x y = InvalidKey.
Proof. intros c d x y H. unfold ecdh. rewrite H. reflexivity. Qed.

(* a shared secret is produced only for a valid point, and is 32 bytes *)
Theorem ecdh_secret_only_on_curve : forall c d x y s,
  ecdh c d x y = Secret s -> on_curve c x y = true /\ length s = 32%nat /\ bytes_ok s = true.
Proof.
  intros c d x y s. unfold ecdh. destruct (on_curve c x y); cbn [negb]; [|discriminate].
  destruct (to_affine c (jac_mul c (from_affine x y) d)); intros H; try discriminate.
  apply (f_equal (fun r => match r with Secret b => b | _ => [] end)) in H. cbv beta iota in H.
  rewrite <- H. split; [reflexivity|]. split; [apply to_be_length|apply to_be_ok].
Qed.

(* through EccKey.dh: the byte strings are read big-endian *)
Theorem dh_rejects_invalid : forall c d xb yb,
  on_curve c (be_int xb) (be_int yb) = false -> ecc_dh c d xb yb = InvalidKey.
Proof. intros. unfold ecc_dh. apply ecdh_rejects_invalid. assumption. Qed.

(* EccKey is stateless: in any sequence of dh() calls on one key object every result is the
   result of that call alone, so an invalid peer key is rejected whatever was computed before *)
Theorem dh_history_pure : forall c d calls i xb yb,
  nth_error calls i = Some (xb, yb) ->
  nth_error (ecc_dh_history c d calls) i = Some (ecc_dh c d xb yb).
Proof.
  intros c d calls i xb yb H. unfold ecc_dh_history.
  rewrite nth_error_map, H. reflexivity.
Qed.

Theorem dh_history_rejects_invalid : forall c d calls i xb yb,
  nth_error calls i = Some (xb, yb) -> on_curve c (be_int xb) (be_int yb) = false ->
  nth_error (ecc_dh_history c d calls) i = Some InvalidKey.
Proof.
  intros c d calls i xb yb H Hoff. rewrite (dh_history_pure c d calls i xb yb H).
  rewrite dh_rejects_invalid by assumption. reflexivity.
Qed.

(* what the defect was: without the validation the same arithmetic returns a "secret" for
   the off-curve pair (1,1) and for (0,0) (computed on small private keys to keep this cheap) *)
Lemma ecdh_unchecked_refuted :
  on_curve secp256r1 1 1 = false /\ (exists s, ecdh_unchecked secp256r1 5 1 1 = Secret s) /\
  on_curve secp256r1 0 0 = false /\ ecdh_unchecked secp256r1 5 0 0 = Secret (to_be 32 0).
Proof. split; [|split; [eexists|split]]; vm_compute; reflexivity. Qed.

(* ------------------------------------------------------------------ the curve is P-256 *)
(* FIPS 186-4 D.1.2.3 / SEC 2 secp256r1, transcribed by hand in hexadecimal *)
Definition nist_p : Z := 0xffffffff00000001000000000000000000000000ffffffffffffffffffffffff.
Definition nist_b : Z := 0x5ac635d8aa3a93e7b3ebbd55769886bc651d06b0cc53b0f63bce3c3e27d2604b.
Definition nist_n : Z := 0xffffffff00000000ffffffffffffffffbce6faada7179e84f3b9cac2fc632551.
Definition nist_gx : Z := 0x6b17d1f2e12c4247f8bce6e563a440f277037d812deb33a0f4a13945d898c296.
Definition nist_gy : Z := 0x4fe342e2fe1a7f9b8ee7eb4a7c0f9e162bce33576b315ececbb6406837bf51f5.

Lemma curve_is_p256 :
  secp256r1 = mk_curve nist_p (nist_p - 3) nist_b nist_n nist_gx nist_gy.
Proof. vm_compute. reflexivity. Qed.

Lemma p256_shape : nist_p = 2 ^ 256 - 2 ^ 224 + 2 ^ 192 + 2 ^ 96 - 1.
Proof. vm_compute. reflexivity. Qed.

Lemma generator_on_curve : on_curve secp256r1 (cgx secp256r1) (cgy secp256r1) = true.
Proof. vm_compute. reflexivity. Qed.

Theorem curve_is_p256_and_G_on_it :
  secp256r1 = mk_curve nist_p (nist_p - 3) nist_b nist_n nist_gx nist_gy /\
  on_curve secp256r1 (cgx secp256r1) (cgy secp256r1) = true.
Proof. exact (conj curve_is_p256 generator_on_curve). Qed.

(* ------------------------------------------------------------------ tests (vm_compute) *)
(* off-curve, out-of-range and twist points are rejected; small multiples of G *)
Example validation_examples :
  on_curve secp256r1 0 0 = false /\ on_curve secp256r1 1 1 = false /\
  on_curve secp256r1 (cgx secp256r1 + cp secp256r1) (cgy secp256r1) = true /\
  on_curve secp256r1 (cgx secp256r1 + cp secp256r1 + 1) (cgy secp256r1) = false /\
  on_curve secp256r1 (cgx secp256r1) (cgy secp256r1 + 1) = false /\
  on_curve secp256r1 (cgx secp256r1) (cp secp256r1 - cgy secp256r1) = true /\
  on_curve secp256r1 (cgx secp256r1) (- cgy secp256r1) = true /\
  on_curve secp256r1 (cgx secp256r1) 0 = false /\ on_curve secp256r1 (cp secp256r1) (cp secp256r1) = false.
Proof. vm_compute. repeat split. Qed.

Example small_multiples :
  public_key secp256r1 1 = Affine nist_gx nist_gy /\
  public_key secp256r1 2 =
    Affine 0x7cf27b188d034f7e8a52380304b51ac3c08969e277f21b35a60b48fc47669978
           0x07775510db8ed040293d9ac69f7430dbba7dade63ce982299e04b79d227873d1 /\
  public_key secp256r1 3 =
    Affine 0x5ecbe4d1a6330a44c8f7ef951d4bf165e6c6b721efada985fb41661bc6e7fd6c
           0x8734640c4998ff7e374b06ce1a64a2ecd82ab036384fb83d9a79b127a27d5032 /\
  public_key secp256r1 0 = Infinite.
Proof. vm_compute. repeat split. Qed.

(* The Core specification P-256 data sets (full-size private keys) are not evaluated in this
   file: one 256-bit scalar multiplication costs tens of seconds under vm_compute and far more
   under coqchk.  The harness evaluates them (thorough tier) against the implementation, whose
   result the oracle compares with the specification's DHKey. *)
