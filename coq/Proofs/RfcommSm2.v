(* Proofs about Model/RfcommSm2.v: with several data links on one multiplexer, set-up
   and teardown of one link never disturb the set-up of another, every open_dlc gets the
   right outcome, and whenever nothing is in flight both ends' DLC tables and states
   match.  By complete exploration of the reachable states inside the kernel (a hashed
   set for speed; soundness does not depend on the hash) and a closure lemma. *)
From Coq Require Import ZArith List Bool Lia PArith FMapPositive.
From BV Require Import Model.RfcommSm Model.RfcommSm2.
Import ListNotations.

Definition st2_eq_dec : forall a b : st2, {a = b} + {a <> b}.
Proof. repeat decide equality. Defined.

Definition st2_mem (s : st2) (l : list st2) : bool :=
  existsb (fun x => if st2_eq_dec s x then true else false) l.

Lemma st2_mem_In s l : st2_mem s l = true <-> In s l.
Proof.
  unfold st2_mem. rewrite existsb_exists. split.
  - intros (x & Hx & E). destruct (st2_eq_dec s x); [subst; exact Hx|discriminate].
  - intros H. exists s. split; [exact H|]. destruct (st2_eq_dec s s); [reflexivity|congruence].
Qed.

(* ---------- a hashed set of states: buckets in a positive-keyed map ---------- *)
Definition hset := PositiveMap.t (list st2).

Definition side_codes (s : side2) : list Z :=
  [mst_code (e_mux s); dst_code (e_s0 s) + 2; dst_code (e_s1 s) + 2; pend_code (e_pend s) + 2]%Z.

Definition hash (s : st2) : positive :=
  Z.to_pos (fold_left (fun acc c => acc * 256 + c)%Z
              (side_codes (t_a s) ++ side_codes (t_b s)
               ++ [if t_closed s then 1 else 0; if t_bad s then 1 else 0]%Z
               ++ map fr2_code (t_ab s) ++ [255%Z] ++ map fr2_code (t_ba s)) 1%Z).

Definition hmem (s : st2) (m : hset) : bool :=
  match PositiveMap.find (hash s) m with Some l => st2_mem s l | None => false end.

Definition hadd (s : st2) (m : hset) : hset :=
  match PositiveMap.find (hash s) m with
  | Some l => PositiveMap.add (hash s) (s :: l) m
  | None => PositiveMap.add (hash s) [s] m
  end.

Definition build (L : list st2) : hset := fold_right hadd (PositiveMap.empty _) L.

Lemma hmem_hadd s x m : hmem s (hadd x m) = true -> s = x \/ hmem s m = true.
Proof.
  unfold hmem, hadd. destruct (Pos.eq_dec (hash s) (hash x)) as [E|E].
  - rewrite E. destruct (PositiveMap.find (hash x) m) as [l|] eqn:F.
    + rewrite PositiveMap.gss. cbn [st2_mem existsb].
      destruct (st2_eq_dec s x); [left; assumption|]. cbn. intros H. right. exact H.
    + rewrite PositiveMap.gss. cbn [st2_mem existsb].
      destruct (st2_eq_dec s x); [left; assumption|]. cbn. discriminate.
  - destruct (PositiveMap.find (hash x) m) as [l|] eqn:F;
      rewrite PositiveMap.gso by exact E; intros H; right; exact H.
Qed.

Lemma hmem_build L s : hmem s (build L) = true -> In s L.
Proof.
  induction L as [|x L IH]; cbn [build fold_right].
  - unfold hmem. rewrite PositiveMap.gempty. discriminate.
  - intros H. apply hmem_hadd in H as [->|H]; [left; reflexivity|right; apply IH; exact H].
Qed.

(* worklist exploration on fuel; only its RESULT is checked (closed2), not the search *)
Fixpoint explore2 (fuel : nat) (seen : hset) (acc todo : list st2) : list st2 * bool :=
  match fuel with
  | O => (acc, match todo with [] => true | _ => false end)
  | S k =>
      match todo with
      | [] => (acc, true)
      | s :: rest =>
          if hmem s seen then explore2 k seen acc rest
          else explore2 k (hadd s seen) (s :: acc) (map (sm2_step s) all_labels2 ++ rest)
      end
  end.

Definition closed2 (R : list st2) : bool :=
  let m := build R in
  forallb (fun s => forallb (fun l => hmem (sm2_step s l) m) all_labels2) R.

(* a label is one of all_labels2, or (channel number out of range) a stutter *)
Lemma label2_covered l s : sm2_step s l = s \/ In l all_labels2.
Proof.
  destruct l as [|d|d|d| | | |]; try (right; cbn; tauto).
  - destruct d as [|[|[|[|[|[|d]]]]]]; try (right; cbn; tauto). left.
    unfold sm2_step, sm2_step_gen. destruct (t_closed s); [reflexivity|].
    replace (Nat.ltb (S (S (S (S (S (S d)))))) 6) with false by reflexivity.
    rewrite !andb_false_r. reflexivity.
  - destruct d as [|[|d]]; try (right; cbn; tauto). left.
    unfold sm2_step, sm2_step_gen. destruct (t_closed s); reflexivity.
  - destruct d as [|[|d]]; try (right; cbn; tauto). left.
    unfold sm2_step, sm2_step_gen. destruct (t_closed s); reflexivity.
Qed.

Lemma closed2_reach R :
  closed2 R = true -> forall ls s, In s R -> In (sm2_run s ls) R.
Proof.
  intros Hc. induction ls as [|l ls IH]; intros s Hs; cbn [sm2_run]; [exact Hs|].
  apply IH. destruct (label2_covered l s) as [E|Hl]; [rewrite E; exact Hs|].
  unfold closed2 in Hc. rewrite forallb_forall in Hc.
  specialize (Hc s Hs). rewrite forallb_forall in Hc.
  apply (hmem_build R). apply Hc. exact Hl.
Qed.

Lemma all_good2 R (Q : st2 -> bool) :
  closed2 R = true -> In sm2_init R -> forallb Q R = true ->
  forall ls, Q (sm2_run sm2_init ls) = true.
Proof.
  intros Hc Hi HQ ls. rewrite forallb_forall in HQ. apply HQ. apply closed2_reach; assumption.
Qed.

(* the reachable set, computed in the kernel *)
Definition reachable2 : list st2 :=
  fst (explore2 (Z.to_nat 200000) (PositiveMap.empty _) [] [sm2_init]).

Lemma reachable2_closed : closed2 reachable2 = true.
Proof. vm_compute. reflexivity. Qed.

Lemma reachable2_init_b : st2_mem sm2_init reachable2 = true.
Proof. vm_compute. reflexivity. Qed.

Lemma reachable2_init : In sm2_init reachable2.
Proof. exact (proj1 (st2_mem_In sm2_init reachable2) reachable2_init_b). Qed.

Lemma reachable2_good : forallb good2 reachable2 = true.
Proof. vm_compute. reflexivity. Qed.

(* no open_dlc is ever resolved with the wrong outcome, and whenever nothing is in flight:
   DLC tables and states match on both ends and no open_dlc is left pending *)
Lemma multi_setup_teardown ls :
  let s := sm2_run sm2_init ls in
  t_bad s = false /\ (quiescent2 s = true -> agree2 s = true).
Proof.
  cbn zeta.
  pose proof (all_good2 reachable2 good2 reachable2_closed reachable2_init reachable2_good ls) as H.
  unfold good2 in H. apply andb_prop in H as [H1 H2]. apply negb_true_iff in H1.
  split; [exact H1|]. intros Hq. rewrite Hq in H2. exact H2.
Qed.

(* from every reachable state, delivering what is in flight (nothing else) settles
   within 24 rounds: in particular a pending open_dlc always completes *)
Definition settles2 (s : st2) : bool := let s' := drain2 24 s in quiescent2 s' && agree2 s'.

Lemma reachable2_settles : forallb settles2 reachable2 = true.
Proof. vm_compute. reflexivity. Qed.

Lemma multi_setup_teardown_settles ls :
  let s' := drain2 24 (sm2_run sm2_init ls) in quiescent2 s' = true /\ agree2 s' = true.
Proof.
  pose proof (all_good2 reachable2 settles2 reachable2_closed reachable2_init reachable2_settles ls) as H.
  unfold settles2 in H. cbn zeta in *. apply andb_prop in H. exact H.
Qed.

(* an accepted open that is in flight ends with the link CONNECTED on both ends unless
   that very link is already being closed again (a DISC for it in flight): for every
   reachable state with an open pending, whatever else is in flight for OTHER links,
   delivering what is in flight ends with that link CONNECTED on both ends (refused
   channel: absent on both ends) and the multiplexer back in CONNECTED *)
Definition is_disc (d : nat) (f : fr2) : bool :=
  match f with G_DISC d' => Nat.eqb d d' | _ => false end.

Definition open_completes (s : st2) : bool :=
  match e_pend (t_a s) with
  | Some d =>
      let s' := drain2 24 s in
      if existsb (is_disc d) (t_ab s ++ t_ba s) || dlc_is (slot (t_b s) d) DDisconnecting
      then true       (* that very link is already being closed again *)
      else if accepted d && size_ok d
      then dlc_is (slot (t_a s') d) DConnected && dlc_is (slot (t_b s') d) DConnected
           && is_mst (e_mux (t_a s')) MConnected
      else match slot (t_a s') (chan_of d), slot (t_b s') (chan_of d) with None, None => is_mst (e_mux (t_a s')) MConnected | _, _ => false end
  | None => true
  end.

Lemma reachable2_open_completes : forallb open_completes reachable2 = true.
Proof. vm_compute. reflexivity. Qed.

Lemma open_in_flight_completes ls : open_completes (sm2_run sm2_init ls) = true.
Proof.
  exact (all_good2 reachable2 open_completes reachable2_closed reachable2_init reachable2_open_completes ls).
Qed.

(* the seeded clean-up in on_dlc_disconnection ("un-stick an OPENING multiplexer") breaks
   it: link 0 is closed while the open of link 1 is in flight *)
Definition seeded_witness : list lbl2 :=
  [L_Connect; L_DeliverAB; L_DeliverBA; L_Open 0; L_DeliverAB; L_DeliverBA; L_DeliverAB; L_DeliverBA;
   L_ADisc 0; L_Open 1; L_DeliverAB; L_DeliverAB; L_DeliverBA; L_DeliverBA; L_DeliverAB; L_DeliverBA].

Lemma seeded_unstick_refuted :
  let s := sm2_run_seeded sm2_init seeded_witness in
  quiescent2 s = true /\ agree2 s = false /\ t_bad s = true.
Proof. vm_compute. repeat split. Qed.

Lemma seeded_witness_ok :
  let s := sm2_run sm2_init seeded_witness in quiescent2 s = true /\ agree2 s = true.
Proof. vm_compute. split; reflexivity. Qed.

(* known finding D20j: the theorems above assume that only the initiator disconnects the
   multiplexer.  If the responder does so while an open_dlc is in flight, the initiator's
   multiplexer goes to DISCONNECTED with its open_result still pending (the call never
   returns) and the responder keeps a half-open DLC *)
Definition d20j_witness : list lbl2x :=
  [X L_Connect; X L_DeliverAB; X L_DeliverBA; X (L_Open 0); X_BMuxDisc;
   X L_DeliverAB; X L_DeliverBA; X L_DeliverAB; X L_DeliverBA; X L_DeliverAB; X L_DeliverBA].

Lemma responder_muxdisc_refuted :
  let s := sm2_runx sm2_init d20j_witness in
  quiescent2 s = true /\ agree2 s = false /\
  e_pend (t_a s) = Some 0 /\ slot (t_a s) 0 = None /\ slot (t_b s) 0 = Some DConnecting.
Proof. vm_compute. repeat split. Qed.

(* outside the property's range: a responder CONFIGURED with a maximum frame size outside
   23..32767 (Server.listen does not validate it) answers the PN command with that size; the
   initiator (fix D17i) treats the response as a refusal while the responder has already
   created its DLC, which stays in CONNECTING *)
Definition misconfigured_witness : list lbl2x :=
  [X L_Connect; X L_DeliverAB; X L_DeliverBA; X_OpenRB 0;
   X L_DeliverAB; X L_DeliverBA; X L_DeliverAB; X L_DeliverBA].

Lemma responder_misconfigured_refuted :
  let s := sm2_runx sm2_init misconfigured_witness in
  quiescent2 s = true /\ agree2 s = false /\
  e_pend (t_a s) = None /\ slot (t_a s) 0 = None /\ slot (t_b s) 0 = Some DConnecting.
Proof. vm_compute. repeat split. Qed.
