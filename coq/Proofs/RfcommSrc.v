(* The hand-written data-path functions of Model/Rfcomm.v ARE what the source of
   bumble/rfcomm.py (class DLC) computes: Gen/C20DataPath.v is compiled from the source on
   every run, and these lemmas - for ALL inputs - identify it with the model.  An edit of
   an operator, a bound, the order of two updates or a dropped statement in
   rx_credits_needed / process_tx / on_uih_frame / write makes one of them fail. *)
From Coq Require Import ZArith List Bool Lia.
From BV Require Import Gen.C20Consts Gen.C20DataPath Model.Rfcomm Model.RfcommRxQueue Proofs.Rfcomm.
Import ListNotations.
Open Scope Z_scope.

Lemma src_needed_ok P d :
  src_needed (p_max_credits P) (p_threshold P) (d_rx_credits d) = needed P d.
Proof. reflexivity. Qed.

Lemma skip_chunk_credit need (x buf : list Z) :
  skipn (Z.to_nat (Z.of_nat (length (need :: x)) - 1)) buf = skipn (length x) buf.
Proof. f_equal. cbn [length]. lia. Qed.

Lemma skip_chunk (x buf : list Z) :
  skipn (Z.to_nat (Z.of_nat (length x))) buf = skipn (length x) buf.
Proof. now rewrite Nat2Z.id. Qed.

(* one iteration of the while loop of process_tx: test and body *)
Lemma src_ptx_iter_ok d need drained :
  match ptx_iter d need with
  | None => src_ptx_cond (d_tx_credits d) need (d_tx_buf d) = false
  | Some (d', fr) =>
      src_ptx_cond (d_tx_credits d) need (d_tx_buf d) = true /\
      src_ptx_body (d_mtu d) (d_tx_credits d) (d_rx_credits d) need (d_tx_buf d) drained =
        (d_tx_credits d', d_rx_credits d', d_tx_buf d', 0, [fr],
         if is_nil (d_tx_buf d') then true else drained) /\
      d_mtu d' = d_mtu d
  end.
Proof.
  unfold ptx_iter, src_ptx_cond, src_ptx_body, take. rewrite !Z.gtb_ltb.
  destruct (negb (is_nil (d_tx_buf d)) && (0 <? d_tx_credits d)) eqn:Ec;
  destruct (0 <? need) eqn:En; cbn [orb andb].
  - split; [reflexivity|]. split; [|reflexivity]. cbn [d_tx_credits d_rx_credits d_tx_buf app].
    rewrite skip_chunk_credit. rewrite negb_involutive. reflexivity.
  - split; [reflexivity|]. split; [|reflexivity]. cbn [d_tx_credits d_rx_credits d_tx_buf app].
    rewrite skip_chunk. rewrite negb_involutive. reflexivity.
  - split; [reflexivity|]. split; [|reflexivity]. cbn [d_tx_credits d_rx_credits d_tx_buf app].
    rewrite negb_involutive. reflexivity.
  - reflexivity.
Qed.

(* on_uih_frame with a sink set: the values it hands to its final process_tx, and the
   bytes handed to the sink, are those of the model *)
Lemma src_on_uih_ok P d fr q :
  dlc_on_uih P d fr =
  let '(tx1, rx1, q', delivered) :=
    src_on_uih (f_pf fr) (f_info fr) (d_tx_credits d) (d_rx_credits d) true q in
  let '(d2, frs, ok) := process_tx P (mkDlc (d_mtu d) tx1 rx1 (d_tx_buf d)) in
  (d2, frs, delivered, ok).
Proof.
  unfold dlc_on_uih, src_on_uih. rewrite !Z.gtb_ltb.
  assert (Hs : forall l : list Z, skipn (Z.to_nat 1) l = tl l) by (intros [|x l]; reflexivity).
  destruct (f_pf fr) eqn:Ep; cbn [Z.eqb Pos.eqb].
  - rewrite Hs. destruct (is_nil (tl (f_info fr))) eqn:E; cbn [negb app].
    + destruct (process_tx P _) as [[d2 frs] ok] eqn:Ept.
      apply is_nil_true in E. rewrite E. reflexivity.
    + destruct (0 <? d_rx_credits d); destruct (process_tx P _) as [[d2 frs] ok]; reflexivity.
  - destruct (is_nil (f_info fr)) eqn:E; cbn [negb app].
    + destruct (process_tx P _) as [[d2 frs] ok] eqn:Ept.
      apply is_nil_true in E. rewrite E. reflexivity.
    + destruct (0 <? d_rx_credits d); destruct (process_tx P _) as [[d2 frs] ok]; reflexivity.
Qed.

(* on_uih_frame without a sink: same ledger updates, nothing reaches the sink, non-empty
   data goes through the bounded deque of Model/RfcommRxQueue.v *)
Lemma src_on_uih_nosink pf info tx rx q :
  let '(tx1, rx1, q', delivered) := src_on_uih pf info tx rx false q in
  let '(tx2, rx2, _, _) := src_on_uih pf info tx rx true q in
  tx1 = tx2 /\ rx1 = rx2 /\ delivered = [] /\
  q' = (let data := if pf then tl info else info in
        if is_nil data then q else dq_append rx_queue_size q data).
Proof.
  unfold src_on_uih.
  assert (Hs : forall l : list Z, skipn (Z.to_nat 1) l = tl l) by (intros [|x l]; reflexivity).
  destruct pf; cbn [Z.eqb Pos.eqb]; rewrite ?Hs.
  - destruct (is_nil (tl info)); cbn [negb]; [repeat split|].
    destruct (rx >? 0); repeat split.
  - destruct (is_nil info); cbn [negb]; [repeat split|].
    destruct (rx >? 0); repeat split.
Qed.

(* write: the buffer update of the model, and the drained event is cleared exactly when
   something is buffered (fix D20i) *)
Lemma src_write_ok buf data drained :
  src_write buf data drained = (buf ++ data, if is_nil (buf ++ data) then drained else false).
Proof. unfold src_write. destruct (is_nil (buf ++ data)); reflexivity. Qed.

Lemma src_write_model P d data :
  dlc_write P d data =
  process_tx P (mkDlc (d_mtu d) (d_tx_credits d) (d_rx_credits d) (fst (src_write (d_tx_buf d) data true))).
Proof. reflexivity. Qed.

(* "drained is set iff nothing is buffered" is kept by write and by every loop iteration *)
Lemma drained_inv_write buf data drained :
  drained = is_nil buf -> snd (src_write buf data drained) = is_nil (buf ++ data).
Proof.
  intros ->. rewrite src_write_ok. cbn [snd].
  destruct buf; cbn; [destruct data; reflexivity|reflexivity].
Qed.

Lemma drained_inv_iter d need drained d' fr :
  ptx_iter d need = Some (d', fr) -> drained = is_nil (d_tx_buf d) ->
  let '(_, _, buf', _, _, dr') :=
    src_ptx_body (d_mtu d) (d_tx_credits d) (d_rx_credits d) need (d_tx_buf d) drained in
  dr' = is_nil buf'.
Proof.
  intros Hi Hd. pose proof (src_ptx_iter_ok d need drained) as H. rewrite Hi in H.
  destruct H as (_ & -> & _).
  destruct (is_nil (d_tx_buf d')) eqn:E; [reflexivity|].
  (* the buffer only shrinks: if something is left, something was buffered before *)
  subst drained. unfold ptx_iter in Hi.
  destruct (negb (is_nil (d_tx_buf d)) && (0 <? d_tx_credits d)) eqn:Ec.
  - apply andb_prop in Ec as [Ec _]. apply negb_true_iff in Ec. exact Ec.
  - cbn [orb] in Hi. destruct (0 <? need); [|discriminate]. inversion Hi; subst d'. exact E.
Qed.

(* the sink setter hands the queued packets over in order (Model/RfcommRxQueue.v) *)
Lemma src_set_sink_ok s :
  rxq_set_sink s = mkRxq true (snd (src_set_sink (q_queue s))) (q_out s ++ fst (src_set_sink (q_queue s))).
Proof. reflexivity. Qed.

(* Multiplexer.acceptable_frame_size is the model's acceptance test *)
Lemma src_acceptable_ok n m : src_acceptable n m = acceptable n m.
Proof.
  unfold src_acceptable, acceptable, rfcomm_max_frame_size, rfcomm_min_frame_size.
  f_equal. rewrite Z.geb_leb. reflexivity.
Qed.

(* every data link the code lets come up - the responder's acceptable_frame_size test of the
   PN command and the initiator's test of the PN response both pass, on the 16-bit values
   that travel in the PN - satisfies the hypothesis of the data-path theorems, provided the
   two configured initial credit counts are in 1..7 and the configured frame sizes fit the
   16-bit field *)
Lemma accepted_links_wf ini rsp mtu_i mtu_r :
  credits_ok_b ini = true -> credits_ok_b rsp = true ->
  0 <= pn_mfs ini < 65536 -> 0 <= pn_mfs rsp < 65536 ->
  src_acceptable (pn_mfs (pn_wire ini)) mtu_i = true ->
  src_acceptable (pn_mfs (pn_wire rsp)) mtu_r = true ->
  wf_link_b ini rsp mtu_i mtu_r = true.
Proof.
  intros Hci Hcr Hi Hr Ai Ar. rewrite src_acceptable_ok in Ai, Ar.
  unfold pn_wire in Ai, Ar. cbn [pn_mfs] in Ai, Ar.
  rewrite Z.mod_small in Ai by lia. rewrite Z.mod_small in Ar by lia.
  unfold wf_link_b. rewrite Hci, Hcr, Ai, Ar. reflexivity.
Qed.

(* and the code refuses every other pair of frame sizes: pn_negotiate = 2 exactly then *)
Lemma pn_negotiate_up ini rsp mtu_i mtu_r :
  pn_negotiate ini rsp mtu_i mtu_r = 2 <->
  src_acceptable (pn_mfs (pn_wire ini)) mtu_i = true /\ src_acceptable (pn_mfs (pn_wire rsp)) mtu_r = true.
Proof.
  unfold pn_negotiate. rewrite !src_acceptable_ok.
  destruct (acceptable (pn_mfs (pn_wire ini)) mtu_i); destruct (acceptable (pn_mfs (pn_wire rsp)) mtu_r);
    cbn; split; try tauto; try discriminate; intros [? ?]; discriminate.
Qed.
