(* C17 - lemmas about Model/HostileAt.v (bumble/at.py). *)
From Coq Require Import ZArith List Bool Lia.
From BV Require Import Model.HostileAt.
Import ListNotations.
Open Scope Z_scope.

Definition size (toks : list (list Z)) : nat := fold_right (fun t n => (length t + n)%nat) 0%nat toks.

Lemma size_app : forall a b, size (a ++ b) = (size a + size b)%nat.
Proof. induction a; simpl; intros; [reflexivity | rewrite IHa; lia]. Qed.

Lemma size_rev : forall a, size (rev a) = size a.
Proof. induction a; simpl; [reflexivity | rewrite size_app, IHa; simpl; lia]. Qed.

Lemma size_filter : forall f a, (size (filter f a) <= size a)%nat.
Proof. induction a; simpl; [lia | destruct (f a); simpl; lia]. Qed.

Lemma length_filter_le : forall (f : list Z -> bool) a, (length (filter f a) <= length a)%nat.
Proof. induction a; simpl; [lia | destruct (f a); simpl; lia]. Qed.

Lemma removelast_length : forall (l : list Z), (length (removelast l) <= length l)%nat.
Proof. induction l; simpl; [lia | destruct l; simpl in *; lia]. Qed.

Lemma strip_ends_length : forall t, (length (strip_ends t) <= length t)%nat.
Proof.
  intros t. unfold strip_ends. pose proof (removelast_length (tl t)).
  destruct t; simpl in *; lia.
Qed.

(* The token list never holds more bytes than were read: every byte goes to at most one
   token, and there are at most two tokens per byte plus the final one. *)
Lemma tok_loop_bounded : forall buf tokens token inq toks,
  tok_loop buf tokens token inq = inr toks ->
  (size toks <= length buf + size tokens + length token)%nat /\
  (length toks <= 2 * length buf + length tokens + 1)%nat.
Proof.
  induction buf as [|b rest IH]; intros tokens token inq toks H; cbn [tok_loop] in H.
  - injection H as H. subst toks. split.
    + etransitivity; [apply size_filter|]. rewrite size_app, size_rev.
      cbn [size fold_right length]. lia.
    + etransitivity; [apply length_filter_le|]. rewrite app_length, rev_length. cbn [length]. lia.
  - destruct inq.
    + destruct (b =? c_quote).
      * apply IH in H. simpl in H. pose proof (strip_ends_length (token ++ [b])).
        rewrite app_length in H0. simpl in *. lia.
      * apply IH in H. rewrite app_length in H. simpl in *. lia.
    + destruct (b =? c_space).
      { apply IH in H. simpl. lia. }
      destruct ((b =? c_comma) || (b =? c_close)).
      { apply IH in H. simpl in *. lia. }
      destruct (b =? c_open).
      { destruct (nonempty token); [discriminate|]. apply IH in H. simpl in *. lia. }
      destruct (b =? c_quote).
      { destruct (nonempty token); [discriminate|]. apply IH in H. rewrite app_length in H. simpl in *. lia. }
      apply IH in H. rewrite app_length in H. simpl in *. lia.
Qed.

Lemma tokenize_bounded : forall buf toks,
  tokenize buf = inr toks ->
  (size toks <= length buf)%nat /\ (length toks <= 2 * length buf + 1)%nat.
Proof.
  intros buf toks H. apply tok_loop_bounded in H. simpl in H. lia.
Qed.

(* accumulator[-1] never indexes an empty stack *)
Lemma par_loop_no_empty_stack : forall tokens acc cur,
  acc <> [] -> par_loop tokens acc cur <> inl EmptyStack.
Proof.
  induction tokens as [|t rest IH]; intros acc cur Hne; simpl.
  - destruct acc as [|top [|n b]]; [congruence | discriminate | discriminate].
  - destruct (is_tok c_comma t).
    { destruct acc as [|top below]; [congruence|]. apply IH. discriminate. }
    destruct (is_tok c_open t).
    { apply IH. discriminate. }
    destruct (is_tok c_close t).
    { destruct acc as [|top [|next below]]; try discriminate. apply IH. discriminate. }
    apply IH. exact Hne.
Qed.

Lemma parse_parameters_no_empty_stack : forall buf, parse_parameters buf <> inl EmptyStack.
Proof.
  intros buf. unfold parse_parameters. destruct (tokenize buf) eqn:E.
  - intro H. inversion H; subst. clear H.
    (* tokenize never produces EmptyStack *)
    revert E. unfold tokenize. generalize (@nil (list Z)) (@nil Z) false.
    induction buf as [|b rest IH]; intros tokens token inq E; simpl in E; [discriminate|].
    destruct inq.
    + destruct (b =? c_quote); eapply IH; eauto.
    + destruct (b =? c_space); [eapply IH; eauto|].
      destruct ((b =? c_comma) || (b =? c_close)); [eapply IH; eauto|].
      destruct (b =? c_open).
      { destruct (nonempty token); [discriminate | eapply IH; eauto]. }
      destruct (b =? c_quote).
      { destruct (nonempty token); [discriminate | eapply IH; eauto]. }
      eapply IH; eauto.
  - apply par_loop_no_empty_stack. discriminate.
Qed.

(* A closing parenthesis without an opening one is always rejected, whatever follows. *)
Lemma par_loop_close_underflow : forall rest top cur,
  par_loop ([c_close] :: rest) [top] cur = inl CloseWithoutOpen.
Proof. intros. reflexivity. Qed.
