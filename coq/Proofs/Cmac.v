(* C14 - the built-in _CMAC (Model/Cmac.v) computes RFC 4493 AES-CMAC for every message
   length and every way of cutting the message into update() calls. *)
From Coq Require Import ZArith List Bool Lia ZifyBool ZifyNat.
From BV Require Import Model.CryptoBytes Model.Cmac Proofs.CryptoBytes.
Import ListNotations.
Open Scope Z_scope.

Ltac Zify.zify_post_hook ::= Z.div_mod_to_equations.

Section CmacProof.
  Variable E : list Z -> list Z.
  (* the block function maps 16-byte blocks to 16-byte blocks of bytes *)
  Hypothesis E_len : forall b, length b = 16%nat -> length (E b) = 16%nat.
  Hypothesis E_ok : forall b, length b = 16%nat -> bytes_ok (E b) = true.

  Notation chain := (spec_chain E).
  Notation Z16 := (zeros 16).

  (* ---------------------------------------------------------------- sub-keys *)
  Lemma ecb_block : forall pt, length pt = 16%nat -> ecb E pt = E pt.
  Proof.
    intros pt H. unfold ecb.
    assert (Hc : chunks16 pt = [pt]).
    { rewrite <- (app_nil_r pt) at 1. change (pt ++ []) with (concat [pt]).
      apply chunks16_concat. repeat constructor. assumption. }
    rewrite Hc. cbn [map concat]. rewrite app_nil_r. unfold ljust16. rewrite H.
    change (16 - 16)%nat with 0%nat. change (zeros 0) with (@nil Z). rewrite app_nil_r. reflexivity.
  Qed.

  Lemma land_128 : forall x, 0 <= x < 256 -> (Z.land x 128 =? 0) = (x <? 128).
  Proof.
    intros x Hx.
    apply (byte_cases (fun x => Bool.eqb (Z.land x 128 =? 0) (x <? 128))) in Hx.
    - apply Bool.eqb_prop. exact Hx.
    - vm_compute. reflexivity.
  Qed.

  Lemma hd_msb : forall l, length l = 16%nat -> bytes_ok l = true ->
    negb (Z.land (hd 0 l) 128 =? 0) = spec_msb l.
  Proof.
    intros [|x r] Hl Hok; [discriminate|]. cbn [hd].
    rewrite bytes_ok_cons in Hok. apply andb_true_iff in Hok as [Hx Hr].
    apply byte_ok_iff in Hx. rewrite land_128 by assumption.
    unfold spec_msb. rewrite be_int_cons.
    pose proof (be_int_bound r Hr) as Hb.
    assert (Hlen : len r = 15) by (unfold len; simpl in Hl; lia).
    rewrite Hlen in *.
    set (P := 256 ^ 15) in *.
    assert (HP : 2 ^ 127 = 128 * P) by reflexivity.
    assert (HP0 : 0 < P) by reflexivity.
    rewrite HP.
    destruct (x <? 128) eqn:E1; destruct (128 * P <=? x * P + be_int r) eqn:E2; simpl; try reflexivity; nia.
  Qed.

  Lemma shift_bytes_spec : forall l c, length l = 16%nat ->
    shift_bytes l c = to_be 16 (Z.lxor (2 * be_int l) c).
  Proof.
    intros l c Hl. unfold shift_bytes. rewrite Hl. change (16 + 1)%nat with 17%nat.
    rewrite py_from_nonneg by lia. change (Z.to_nat 1) with 1%nat.
    change (skipn 1 ?x) with (tl x). rewrite to_be_tail.
    rewrite Z.shiftl_mul_pow2 by lia. change (2 ^ 1) with 2. rewrite (Z.mul_comm _ 2). reflexivity.
  Qed.

  Lemma subkey_spec : forall l, length l = 16%nat -> bytes_ok l = true ->
    subkey_of l = spec_subkey l.
  Proof.
    intros l Hl Hok. unfold subkey_of, spec_subkey. rewrite hd_msb by assumption.
    unfold spec_shl1. change (2 ^ 128) with (256 ^ Z.of_nat 16). rewrite to_be_mod.
    destruct (spec_msb l).
    - rewrite shift_bytes_spec by assumption. rewrite to_be_lxor. reflexivity.
    - rewrite shift_bytes_spec by assumption. rewrite Z.lxor_0_r. reflexivity.
  Qed.

  Lemma subkey_len_ok : forall l, length l = 16%nat ->
    length (subkey_of l) = 16%nat /\ bytes_ok (subkey_of l) = true.
  Proof.
    intros l Hl. unfold subkey_of.
    destruct (negb _); rewrite shift_bytes_spec by assumption; split;
      try apply to_be_length; apply to_be_ok.
  Qed.

  Lemma Z16_len : length Z16 = 16%nat.
  Proof. reflexivity. Qed.

  Lemma key_L_spec : key_L E = spec_L E.
  Proof. unfold key_L, spec_L. apply ecb_block. reflexivity. Qed.

  Lemma key_k1_spec : key_k1 E = spec_K1 E.
  Proof.
    unfold key_k1, spec_K1. rewrite key_L_spec. unfold spec_L.
    apply subkey_spec; [apply E_len | apply E_ok]; reflexivity.
  Qed.

  Lemma key_k1_len_ok : length (key_k1 E) = 16%nat /\ bytes_ok (key_k1 E) = true.
  Proof.
    unfold key_k1. apply subkey_len_ok. rewrite key_L_spec. apply E_len. reflexivity.
  Qed.

  Lemma key_k2_spec : key_k2 E = spec_K2 E.
  Proof.
    unfold key_k2, spec_K2. rewrite <- key_k1_spec.
    destruct key_k1_len_ok. apply subkey_spec; assumption.
  Qed.

  Lemma key_k2_len : length (key_k2 E) = 16%nat.
  Proof. unfold key_k2. apply subkey_len_ok. apply key_k1_len_ok. Qed.

  (* ---------------------------------------------------------------- CBC chain *)
  Fixpoint scan (X : list Z) (bs : list (list Z)) : list (list Z) :=
    match bs with
    | [] => []
    | b :: r => let c := E (xor_zip X b) in c :: scan c r
    end.

  Lemma cbc_blocks_eq : forall bs X, cbc_blocks E X bs = (concat (scan X bs), chain X bs).
  Proof.
    induction bs as [|b bs IH]; intros X; [reflexivity|].
    cbn [cbc_blocks scan spec_chain concat]. rewrite (xor_zip_comm b X). rewrite IH. reflexivity.
  Qed.

  Lemma chain_app : forall a b X, chain X (a ++ b) = chain (chain X a) b.
  Proof. induction a; intros; simpl; auto. Qed.

  Lemma scan_snoc : forall bs b X, scan X (bs ++ [b]) = scan X bs ++ [E (xor_zip (chain X bs) b)].
  Proof.
    induction bs as [|a bs IH]; intros b X; [reflexivity|].
    cbn [app scan spec_chain]. rewrite IH. reflexivity.
  Qed.

  Lemma chain_len : forall bs X, length X = 16%nat -> blocks_ok bs -> length (chain X bs) = 16%nat.
  Proof.
    induction bs as [|b bs IH]; intros X HX Hok; [assumption|].
    inversion Hok; subst. cbn [spec_chain]. apply IH; auto.
    apply E_len. apply xor_zip_length_eq; assumption.
  Qed.

  Lemma len16 : forall l : list Z, length l = 16%nat -> len l = 16.
  Proof. intros. unfold len. lia. Qed.

  Lemma concat_snoc : forall (bs : list (list Z)) b, concat (bs ++ [b]) = concat bs ++ b.
  Proof. intros. rewrite concat_app. cbn [concat]. rewrite app_nil_r. reflexivity. Qed.

  Lemma update_aligned_snoc : forall s bs b X,
    c_cbc_last s = X -> c_last_ct s = X -> length X = 16%nat ->
    blocks_ok bs -> length b = 16%nat ->
    update_aligned E s (concat (bs ++ [b])) =
      mk_cmac (c_cache s) (c_cache_n s) (chain X (bs ++ [b]))
              (Some (xor_zip (chain X bs) b)) (c_data_size s) (chain X (bs ++ [b])).
  Proof.
    intros s bs b X Hc Hl HX Hok Hb.
    assert (Hokb : blocks_ok (bs ++ [b])).
    { apply blocks_ok_app. split; [assumption|]. repeat constructor. assumption. }
    unfold update_aligned.
    assert (Hlen : len (concat (bs ++ [b])) = 16 * (Z.of_nat (length bs) + 1)).
    { unfold len. rewrite concat_blocks_length by assumption. rewrite app_length. cbn [length]. lia. }
    rewrite Hlen.
    destruct (16 * (Z.of_nat (length bs) + 1) =? 0) eqn:E0; [lia|].
    unfold cbc_encrypt. rewrite chunks16_concat by assumption.
    rewrite Hc, cbc_blocks_eq. rewrite scan_snoc, !concat_snoc.
    set (c := E (xor_zip (chain X bs) b)).
    assert (Hcl : length c = 16%nat).
    { apply E_len. apply xor_zip_length_eq; [apply chain_len|]; assumption. }
    rewrite (py_from_neg_app _ c 16) by (try apply len16; auto; lia).
    rewrite (py_from_neg_app _ b 16) by (try apply len16; auto; lia).
    assert (Hch : chain X (bs ++ [b]) = c).
    { rewrite chain_app. reflexivity. }
    rewrite Hch.
    f_equal. f_equal. f_equal.
    destruct bs as [|b0 bs0] using rev_ind.
    - cbn [length]. change (16 * (Z.of_nat 0 + 1) =? 16) with true. cbv iota.
      rewrite Hl. reflexivity.
    - clear IHbs0. rewrite app_length. cbn [length].
      destruct (16 * (Z.of_nat (length bs0 + 1) + 1) =? 16) eqn:E1; [lia|].
      apply blocks_ok_app in Hok as [Hok0 Hb0]. inversion Hb0; subst.
      rewrite scan_snoc, concat_snoc, <- app_assoc.
      rewrite py_slice_second_last.
      + rewrite chain_app. reflexivity.
      + apply len16. apply E_len. apply xor_zip_length_eq; [apply chain_len|]; assumption.
      + apply len16. assumption.
  Qed.

  (* ---------------------------------------------------------------- the invariant *)
  (* the three fields that describe the blocks consumed so far *)
  Definition aligned3 (last_ct cbc_last : list Z) (last_pt : option (list Z)) (bs : list (list Z)) : Prop :=
    last_ct = chain Z16 bs /\ cbc_last = chain Z16 bs /\
    ((bs = [] /\ last_pt = None) \/
     (exists bs' b, bs = bs' ++ [b] /\ last_pt = Some (xor_zip (chain Z16 bs') b))).

  Definition aligned (s : cmac_state) (bs : list (list Z)) : Prop :=
    aligned3 (c_last_ct s) (c_cbc_last s) (c_last_pt s) bs.

  Definition inv (M : list Z) (s : cmac_state) : Prop :=
    exists bs r, M = concat bs ++ r /\ blocks_ok bs /\ (length r < 16)%nat /\
      aligned s bs /\ c_cache_n s = len r /\ length (c_cache s) = 16%nat /\
      firstn (length r) (c_cache s) = r /\ c_data_size s = len M.

  Ltac inv_split := refine (conj _ (conj _ (conj _ (conj _ (conj _ (conj _ (conj _ _))))))).

  Lemma init_inv : inv [] cmac_init.
  Proof.
    exists [], []. split; [reflexivity|]. split; [constructor|]. split; [simpl; lia|].
    split; [|repeat split; reflexivity].
    split; [reflexivity|]. split; [reflexivity|]. left. split; reflexivity.
  Qed.

  Lemma update_aligned_blocks : forall s bs bs2,
    aligned s bs -> blocks_ok bs -> blocks_ok bs2 ->
    let s' := update_aligned E s (concat bs2) in
    aligned s' (bs ++ bs2) /\ c_cache s' = c_cache s /\ c_cache_n s' = c_cache_n s /\
    c_data_size s' = c_data_size s.
  Proof.
    intros s bs bs2 Hal Hok Hok2.
    destruct bs2 as [|b bs2'] using rev_ind.
    - cbn zeta. unfold update_aligned. change (len (concat [])) with 0.
      change (0 =? 0) with true. cbv iota. rewrite app_nil_r. auto.
    - clear IHbs2'. apply blocks_ok_app in Hok2 as [Hok2 Hb]. inversion Hb; subst.
      destruct Hal as (Ha1 & Ha2 & Ha3).
      cbn zeta.
      rewrite (update_aligned_snoc s bs2' b (chain Z16 bs)); auto.
      2:{ apply chain_len; auto. }
      unfold aligned, aligned3. cbn [c_last_ct c_cbc_last c_last_pt c_cache c_cache_n c_data_size].
      rewrite <- !chain_app. repeat split; auto.
      right. exists (bs ++ bs2'), b. split; [apply app_assoc|reflexivity].
  Qed.

  Lemma len_concat_app : forall bs (r : list Z), blocks_ok bs ->
    len (concat bs ++ r) = 16 * Z.of_nat (length bs) + len r.
  Proof.
    intros. rewrite len_app. unfold len. rewrite concat_blocks_length by assumption. lia.
  Qed.

  Lemma update_tail_inv : forall s bs bs2 r2,
    aligned s bs -> blocks_ok bs -> length (c_cache s) = 16%nat ->
    blocks_ok bs2 -> (length r2 < 16)%nat ->
    let s' := update_tail E s (concat bs2 ++ r2) in
    aligned s' (bs ++ bs2) /\ c_cache_n s' = len r2 /\ length (c_cache s') = 16%nat /\
    firstn (length r2) (c_cache s') = r2 /\ c_data_size s' = c_data_size s.
  Proof.
    intros s bs bs2 r2 Hal Hok Hc Hok2 Hr2. cbn zeta. unfold update_tail.
    rewrite len_concat_app by assumption.
    assert (Hrem : (16 * Z.of_nat (length bs2) + len r2) mod 16 = len r2).
    { unfold len. lia. }
    rewrite Hrem.
    destruct (update_aligned_blocks s bs bs2 Hal Hok Hok2) as (A1 & A2 & A3 & A4).
    destruct (0 <? len r2) eqn:E0.
    - apply Z.ltb_lt in E0.
      rewrite (py_upto_neg_app _ r2 (len r2)) by auto.
      rewrite (py_from_neg_app _ r2 (len r2)) by auto.
      unfold set_cache. cbn [c_last_ct c_cbc_last c_last_pt c_cache c_cache_n c_data_size].
      split; [exact A1|]. split; [reflexivity|].
      unfold py_splice. rewrite A2. rewrite Z.max_r by lia.
      change (Z.to_nat 0) with 0%nat. cbn [firstn app].
      replace (Z.to_nat (len r2)) with (length r2) by (unfold len; lia).
      repeat split.
      + rewrite app_length, skipn_length. lia.
      + rewrite firstn_app, firstn_all, Nat.sub_diag, firstn_O. apply app_nil_r.
      + assumption.
    - assert (r2 = []) by (destruct r2; [reflexivity|unfold len in E0; simpl in E0; lia]). subst r2.
      rewrite app_nil_r.
      unfold set_cache. cbn [c_last_ct c_cbc_last c_last_pt c_cache c_cache_n c_data_size].
      split; [exact A1|]. rewrite A2. repeat split; auto.
  Qed.

  Lemma aligned_set : forall s bs c n d,
    aligned s bs ->
    aligned (mk_cmac c n (c_last_ct s) (c_last_pt s) d (c_cbc_last s)) bs.
  Proof. intros. exact H. Qed.

  Lemma update_inv : forall M s c, inv M s -> inv (M ++ c) (update E s c).
  Proof.
    intros M s c (bs & r & HM & Hok & Hr & Hal & Hn & Hcl & Hfr & Hds).
    unfold update. cbn [c_cache c_cache_n c_last_ct c_last_pt c_data_size c_cbc_last].
    set (s0 := mk_cmac (c_cache s) (c_cache_n s) (c_last_ct s) (c_last_pt s)
                       (c_data_size s + len c) (c_cbc_last s)).
    assert (Hal0 : aligned s0 bs) by exact Hal.
    assert (Hcache : c_cache s = r ++ skipn (length r) (c_cache s)).
    { rewrite <- Hfr at 1. symmetry. apply firstn_skipn. }
    destruct (0 <? c_cache_n s) eqn:E0.
    - (* bytes are waiting in the cache *)
      apply Z.ltb_lt in E0.
      set (filler := Z.min (16 - c_cache_n s) (len c)).
      assert (Hfill : 0 <= filler) by (unfold filler, len in *; lia).
      rewrite py_upto_nonneg by assumption.
      unfold py_splice. rewrite Z.max_r by lia.
      replace (Z.to_nat (c_cache_n s)) with (length r) by (unfold len in *; lia).
      rewrite Hfr.
      destruct (c_cache_n s + filler <? 16) eqn:E1.
      + (* still not a full block *)
        apply Z.ltb_lt in E1.
        assert (Hf : filler = len c) by (unfold filler in *; lia).
        exists bs, (r ++ c).
        assert (Hlc : Z.to_nat filler = length c) by (unfold len in *; lia).
        rewrite Hlc, firstn_all.
        unfold set_cache. cbn [c_cache c_cache_n c_last_ct c_last_pt c_data_size c_cbc_last].
        inv_split.
        * rewrite HM. apply app_assoc_reverse.
        * assumption.
        * rewrite app_length. unfold len in *. lia.
        * exact Hal.
        * rewrite len_app. unfold len in *. lia.
        * rewrite !app_length, skipn_length. unfold len in *. lia.
        * rewrite app_assoc. rewrite firstn_app.
          replace (length (r ++ c) - length (r ++ c))%nat with 0%nat by lia.
          rewrite firstn_O, app_nil_r. apply firstn_all.
        * unfold s0. cbn [c_data_size]. rewrite len_app. lia.
      + (* the cache fills up: one block is processed, then the rest of the chunk *)
        apply Z.ltb_ge in E1.
        assert (Hf : filler = 16 - len r) by (unfold filler in *; lia).
        assert (Hlc : Z.to_nat filler = (16 - length r)%nat) by (unfold len in *; lia).
        rewrite py_from_nonneg by assumption. rewrite Hlc.
        set (b := r ++ firstn (16 - length r) c).
        assert (Hcn : (16 - length r <= length c)%nat) by (unfold filler, len in *; lia).
        assert (Hb : length b = 16%nat).
        { unfold b. rewrite app_length, firstn_length. lia. }
        replace (Z.to_nat (c_cache_n s + filler)) with 16%nat by lia.
        rewrite (skipn_all2 (c_cache s)) by lia. rewrite app_nil_r.
        fold b.
        destruct (split_blocks (skipn (16 - length r) c)) as (bs2 & r2 & Hsp & Hok2 & Hr2).
        rewrite Hsp.
        (* first the cache block *)
        set (sa := set_cache s0 b (c_cache_n s + filler)).
        assert (Hala : aligned sa bs) by exact Hal.
        assert (Hokb : blocks_ok [b]) by (repeat constructor; assumption).
        destruct (update_aligned_blocks sa bs [b] Hala Hok Hokb) as (B1 & B2 & B3 & B4).
        cbn [concat] in B1, B2, B3, B4. rewrite app_nil_r in B1, B2, B3, B4.
        set (s1 := update_aligned E sa b) in *.
        set (sb := set_cache s1 (c_cache s1) 0).
        assert (Halb : aligned sb (bs ++ [b])) by exact B1.
        assert (Hokbb : blocks_ok (bs ++ [b])) by (apply blocks_ok_app; split; assumption).
        assert (Hcb : length (c_cache sb) = 16%nat).
        { unfold sb, set_cache. cbn [c_cache]. rewrite B2. unfold sa, set_cache. cbn [c_cache]. assumption. }
        destruct (update_tail_inv sb (bs ++ [b]) bs2 r2 Halb Hokbb Hcb Hok2 Hr2) as (C1 & C2 & C3 & C4 & C5).
        exists ((bs ++ [b]) ++ bs2), r2.
        inv_split; auto.
        * rewrite HM. rewrite !concat_app. cbn [concat]. rewrite app_nil_r.
          rewrite <- !app_assoc. f_equal. unfold b. rewrite <- app_assoc. f_equal.
          rewrite <- Hsp. symmetry. apply firstn_skipn.
        * apply blocks_ok_app. split; assumption.
        * rewrite C5. unfold sb, set_cache. cbn [c_data_size]. rewrite B4.
          unfold sa, set_cache, s0. cbn [c_data_size]. rewrite len_app. lia.
    - (* cache empty *)
      apply Z.ltb_ge in E0.
      assert (r = []) by (destruct r; [reflexivity|unfold len in *; simpl in *; lia]). subst r.
      destruct (split_blocks c) as (bs2 & r2 & Hsp & Hok2 & Hr2).
      subst c.
      assert (Hc0 : length (c_cache s0) = 16%nat) by exact Hcl.
      destruct (update_tail_inv s0 bs bs2 r2 Hal0 Hok Hc0 Hok2 Hr2) as (C1 & C2 & C3 & C4 & C5).
      exists (bs ++ bs2), r2. inv_split; auto.
      + rewrite HM. rewrite app_nil_r, concat_app. apply app_assoc.
      + apply blocks_ok_app. split; assumption.
      + rewrite C5. unfold s0. cbn [c_data_size]. rewrite !len_app. lia.
  Qed.

  Lemma fold_update_inv : forall cs M s, inv M s -> inv (M ++ concat cs) (fold_left (update E) cs s).
  Proof.
    induction cs as [|c cs IH]; intros M s H.
    - simpl. rewrite app_nil_r. assumption.
    - cbn [fold_left concat]. rewrite app_assoc. apply IH. apply update_inv. assumption.
  Qed.

  (* ---------------------------------------------------------------- digest *)
  Lemma padding_len : forall r : list Z, (length r < 16)%nat -> length (spec_padding r) = 16%nat.
  Proof. intros. unfold spec_padding. rewrite app_length. cbn [length]. rewrite length_zeros. lia. Qed.

  Lemma py_upto_16 : forall l : list Z, length l = 16%nat -> py_upto l 16 = l.
  Proof. intros. rewrite py_upto_nonneg by lia. apply firstn_all2. lia. Qed.

  Lemma xor3 : forall a b c, xor_zip (xor_zip a b) c = xor_zip (xor_zip b c) a.
  Proof. intros. rewrite xor_zip_assoc. apply xor_zip_comm. Qed.

  Lemma digest_inv : forall M s, inv M s -> len M <= max_size ->
    digest E s = Some (cmac_spec E M).
  Proof.
    intros M s (bs & r & HM & Hok & Hr & Hal & Hn & Hcl & Hfr & Hds) Hmax.
    unfold digest. rewrite Hds.
    destruct (max_size <? len M) eqn:Em; [lia|]. f_equal.
    destruct Hal as (H1 & H2 & H3).
    assert (HlenM : length M = (16 * length bs + length r)%nat).
    { rewrite HM, app_length, concat_blocks_length by assumption. reflexivity. }
    destruct key_k1_len_ok as [Hk1 _]. pose proof key_k2_len as Hk2.
    (* is the last block full? *)
    destruct H3 as [[Hbs Hlp] | (bs' & b & Hbs & Hlp)].
    - (* no full block seen yet *)
      subst bs. rewrite Hlp. cbn [truthy]. rewrite !andb_false_r.
      rewrite H1. cbn [spec_chain].
      assert (Hc : c_cache s = r ++ skipn (length r) (c_cache s)).
      { rewrite <- Hfr at 1. symmetry. apply firstn_skipn. }
      rewrite Hn. rewrite Hc at 1 2. rewrite py_splice_app by reflexivity.
      replace (Z.to_nat (16 - len r - 1)) with (15 - length r)%nat by (unfold len; lia).
      change (r ++ 128 :: zeros (15 - length r)) with (spec_padding r).
      rewrite key_k2_spec.
      assert (Hpt : length (xor_zip (xor_zip Z16 (spec_padding r)) (spec_K2 E)) = 16%nat).
      { rewrite <- key_k2_spec. repeat apply xor_zip_length_eq; auto using padding_len. }
      rewrite ecb_block by assumption. rewrite py_upto_16 by (apply E_len; assumption).
      unfold cmac_spec. rewrite HlenM. cbn [concat app] in HM. subst M.
      change (16 * length (@nil (list Z)) + length r)%nat with (length r).
      destruct r as [|x r'].
      + change ((length (@nil Z) + 15) / 16)%nat with 0%nat.
        cbn [Nat.eqb Nat.sub Nat.mul Nat.add firstn skipn].
        change (chunks16 []) with (@nil (list Z)). cbn [spec_chain].
        f_equal. apply xor3.
      + set (r := x :: r') in *.
        assert (Hr1 : (1 <= length r)%nat) by (unfold r; cbn [length]; lia).
        assert (Hn0 : ((length r + 15) / 16 = 1)%nat) by lia.
        rewrite Hn0.
        cbn [Nat.eqb Nat.sub Nat.mul Nat.add firstn skipn].
        assert (Hm : Nat.eqb (length r mod 16) 0 = false).
        { apply Nat.eqb_neq. rewrite Nat.mod_small by lia. lia. }
        rewrite Hm. change (chunks16 []) with (@nil (list Z)). cbn [spec_chain].
        f_equal. apply xor3.
    - (* at least one full block: bs = bs' ++ [b] *)
      subst bs. apply blocks_ok_app in Hok as [Hok' Hb].
      assert (Hb16 : length b = 16%nat) by (apply (Forall_inv Hb)).
      assert (Hch' : length (chain Z16 bs') = 16%nat) by (apply chain_len; auto).
      assert (Hch : length (chain Z16 (bs' ++ [b])) = 16%nat).
      { apply chain_len; auto. apply blocks_ok_app. split; auto. }
      rewrite Hlp. cbn [truthy opt_bytes].
      assert (Hlp16 : length (xor_zip (chain Z16 bs') b) = 16%nat) by (apply xor_zip_length_eq; auto).
      replace (len (xor_zip (chain Z16 bs') b) =? 0) with false by (unfold len; rewrite Hlp16; reflexivity).
      cbn [negb]. rewrite andb_true_r.
      assert (HlenZ : len M = 16 * (Z.of_nat (length bs') + 1) + len r).
      { unfold len. rewrite HlenM, app_length. cbn [length]. lia. }
      replace (0 <? len M) with true by (symmetry; apply Z.ltb_lt; unfold len in *; lia).
      rewrite andb_true_r. rewrite Hn.
      unfold cmac_spec. rewrite HlenM, app_length. cbn [length].
      destruct r as [|x r'].
      + (* the message ends on a block boundary *)
        change (len [] =? 0) with true. cbv iota.
        rewrite key_k1_spec.
        assert (Hpt : length (xor_zip (xor_zip (chain Z16 bs') b) (spec_K1 E)) = 16%nat).
        { rewrite <- key_k1_spec. apply xor_zip_length_eq; auto. }
        rewrite ecb_block by assumption. rewrite py_upto_16 by (apply E_len; assumption).
        cbn [length]. rewrite Nat.add_0_r.
        assert (Hn0 : ((16 * (length bs' + 1) + 15) / 16 = S (length bs'))%nat) by lia.
        rewrite Hn0. cbn [Nat.eqb].
        assert (Hm : Nat.eqb ((16 * (length bs' + 1)) mod 16) 0 = true) by (apply Nat.eqb_eq; lia).
        rewrite Hm. replace (S (length bs') - 1)%nat with (length bs') by lia.
        rewrite app_nil_r in HM. rewrite concat_snoc in HM. subst M.
        rewrite <- (concat_blocks_length bs') by assumption.
        rewrite firstn_app, firstn_all, Nat.sub_diag, firstn_O, app_nil_r.
        rewrite skipn_app, skipn_all, Nat.sub_diag. cbn [skipn app].
        rewrite chunks16_concat by assumption.
        f_equal. apply xor3.
      + (* a partial block follows the full ones *)
        replace (len (x :: r') =? 0) with false by (unfold len; cbn [length]; lia).
        cbv iota.
        assert (Hc : c_cache s = (x :: r') ++ skipn (length (x :: r')) (c_cache s)).
        { rewrite <- Hfr at 1. symmetry. apply firstn_skipn. }
        rewrite Hc at 1 2. rewrite py_splice_app by reflexivity.
        replace (Z.to_nat (16 - len (x :: r') - 1)) with (15 - length (x :: r'))%nat by (unfold len; lia).
        change ((x :: r') ++ 128 :: zeros (15 - length (x :: r'))) with (spec_padding (x :: r')).
        rewrite key_k2_spec, H1.
        assert (Hpt : length (xor_zip (xor_zip (chain Z16 (bs' ++ [b])) (spec_padding (x :: r'))) (spec_K2 E)) = 16%nat).
        { rewrite <- key_k2_spec. repeat apply xor_zip_length_eq; auto using padding_len. }
        rewrite ecb_block by assumption. rewrite py_upto_16 by (apply E_len; assumption).
        set (r := x :: r') in *.
        assert (Hr1 : (1 <= length r)%nat) by (unfold r; cbn [length]; lia).
        assert (Hn0 : ((16 * (length bs' + 1) + length r + 15) / 16 = S (S (length bs')))%nat) by lia.
        rewrite Hn0. cbn [Nat.eqb].
        assert (Hm : Nat.eqb ((16 * (length bs' + 1) + length r) mod 16) 0 = false).
        { apply Nat.eqb_neq. lia. }
        rewrite Hm. replace (S (S (length bs')) - 1)%nat with (length (bs' ++ [b])) by (rewrite app_length; cbn [length]; lia).
        assert (Hokb : blocks_ok (bs' ++ [b])) by (apply blocks_ok_app; split; auto).
        subst M.
        rewrite <- (concat_blocks_length (bs' ++ [b])) by assumption.
        rewrite firstn_app, firstn_all, Nat.sub_diag, firstn_O, app_nil_r.
        rewrite skipn_app, skipn_all, Nat.sub_diag. cbn [skipn app].
        rewrite chunks16_concat by assumption.
        f_equal. apply xor3.
  Qed.

  (* ---------------------------------------------------------------- theorems *)
  Theorem aes_cmac_code_is_rfc4493 : forall M, len M <= max_size ->
    aes_cmac_code E M = Some (cmac_spec E M).
  Proof.
    intros M Hmax. unfold aes_cmac_code, cmac_new.
    destruct (len M =? 0) eqn:E0.
    - assert (M = []) by (destruct M; [reflexivity|unfold len in E0; simpl in E0; lia]). subst M.
      apply digest_inv; [apply init_inv|assumption].
    - apply digest_inv; [|assumption].
      exact (update_inv [] cmac_init M init_inv).
  Qed.

  Theorem cmac_chunked_is_rfc4493 : forall chunks, len (concat chunks) <= max_size ->
    cmac_chunked E chunks = Some (cmac_spec E (concat chunks)).
  Proof.
    intros cs Hmax. unfold cmac_chunked. apply digest_inv; [|assumption].
    exact (fold_update_inv cs [] cmac_init init_inv).
  Qed.

  (* the tag has 16 bytes *)
  Lemma cmac_spec_len : forall M, length (cmac_spec E M) = 16%nat.
  Proof.
    intros M. destruct (split_blocks M) as (bs & r & HM & Hok & Hr).
    unfold cmac_spec. apply E_len.
    set (n := if Nat.eqb _ 0 then 1%nat else _).
    set (flag := if Nat.eqb _ 0 then false else _).
    assert (HlenM : length M = (16 * length bs + length r)%nat).
    { rewrite HM, app_length, concat_blocks_length by assumption. reflexivity. }
    assert (Hhead : exists hs, firstn (16 * (n - 1)) M = concat hs /\ blocks_ok hs /\
                               (flag = true -> length (skipn (16 * (n - 1)) M) = 16%nat) /\
                               (flag = false -> (length (skipn (16 * (n - 1)) M) < 16)%nat)).
    { unfold n, flag. rewrite HlenM.
      destruct r as [|x r'].
      - cbn [length]. rewrite Nat.add_0_r.
        destruct bs as [|b0 bs0] using rev_ind.
        + cbn [concat app] in HM. subst M. exists [].
          change ((16 * length (@nil (list Z)) + 15) / 16)%nat with 0%nat. cbn [Nat.eqb].
          rewrite firstn_nil, skipn_nil.
          split; [reflexivity|]. split; [constructor|]. split; [discriminate|].
          intros _. cbn [length]. lia.
        + clear IHbs0. apply blocks_ok_app in Hok as [Hok0 Hb0]. inversion Hb0; subst.
          exists bs0. rewrite app_length. cbn [length].
          replace ((16 * (length bs0 + 1) + 15) / 16)%nat with (S (length bs0)) by lia.
          cbn [Nat.eqb]. replace (S (length bs0) - 1)%nat with (length bs0) by lia.
          rewrite app_nil_r, concat_snoc.
          rewrite <- (concat_blocks_length bs0) by assumption.
          rewrite firstn_app, firstn_all, Nat.sub_diag, firstn_O, app_nil_r.
          rewrite skipn_app, skipn_all, Nat.sub_diag. cbn [skipn app].
          repeat split; auto. intros. lia.
      - exists bs. set (r := x :: r') in *.
        assert (Hr1 : (1 <= length r)%nat) by (unfold r; cbn [length]; lia).
        replace ((16 * length bs + length r + 15) / 16)%nat with (S (length bs)) by lia.
        cbn [Nat.eqb]. replace (S (length bs) - 1)%nat with (length bs) by lia.
        replace (Nat.eqb ((16 * length bs + length r) mod 16) 0) with false
          by (symmetry; apply Nat.eqb_neq; lia).
        subst M. rewrite <- (concat_blocks_length bs) by assumption.
        rewrite firstn_app, firstn_all, Nat.sub_diag, firstn_O, app_nil_r.
        rewrite skipn_app, skipn_all, Nat.sub_diag. cbn [skipn app].
        repeat split; auto. discriminate. }
    destruct Hhead as (hs & Hh & Hokh & Hf1 & Hf0).
    rewrite Hh, chunks16_concat by assumption.
    destruct key_k1_len_ok as [Hk1 _]. pose proof key_k2_len as Hk2.
    rewrite key_k1_spec in Hk1. rewrite key_k2_spec in Hk2.
    apply xor_zip_length_eq; [|apply chain_len; auto].
    destruct flag.
    - apply xor_zip_length_eq; auto.
    - apply xor_zip_length_eq; auto. apply padding_len. auto.
  Qed.
End CmacProof.
