(* C17 - lemmas about Model/HostileLoops.v. *)
From Coq Require Import ZArith List Bool Lia Arith.
From BV Require Import Model.HostileLoops.
Import ListNotations.
Open Scope Z_scope.

(* every iteration consumes at least the two header bytes *)
Lemma parse_capabilities_fuel_enough : forall fuel payload off,
  (1 <= fuel)%nat -> (length payload + 1 - off <= fuel)%nat -> parse_capabilities fuel payload off <> None.
Proof.
  induction fuel as [|f IH]; intros payload off H1 Hf; [lia|].
  cbn [parse_capabilities]. destruct (nth_error payload off) eqn:E; [|discriminate].
  assert (off < length payload)%nat by (apply nth_error_Some; congruence).
  destruct (nth_error payload (off + 1)); [|discriminate].
  specialize (IH payload (off + 2 + Z.to_nat z0)%nat ltac:(lia) ltac:(lia)).
  destruct (parse_capabilities f payload (off + 2 + Z.to_nat z0)) as [[e|items]|]; try discriminate. congruence.
Qed.

Theorem parse_capabilities_terminates : forall payload,
  parse_capabilities (tlv_fuel payload) payload 0 <> None.
Proof. intros. apply parse_capabilities_fuel_enough; unfold tlv_fuel; lia. Qed.

(* every iteration consumes at least the length byte, also when the length is 0 *)
Lemma parse_advertising_fuel_enough : forall fuel data off,
  (1 <= fuel)%nat -> (length data + 1 - off <= fuel)%nat -> parse_advertising fuel data off <> None.
Proof.
  induction fuel as [|f IH]; intros data off H1 Hf; [lia|].
  cbn [parse_advertising]. destruct (off + 1 <? length data)%nat eqn:G; [|discriminate].
  apply Nat.ltb_lt in G. destruct (nth_error data off); [|discriminate].
  specialize (IH data (off + 1 + Z.to_nat z)%nat ltac:(lia) ltac:(lia)).
  destruct (parse_advertising f data (off + 1 + Z.to_nat z)) as [items|]; [|congruence].
  destruct (0 <? z); [destruct (nth_error data (off + 1))|]; discriminate.
Qed.

Theorem parse_advertising_terminates : forall data,
  parse_advertising (tlv_fuel data) data 0 <> None.
Proof. intros. apply parse_advertising_fuel_enough; unfold tlv_fuel; lia. Qed.

(* the number of structures never exceeds the number of bytes *)
Lemma parse_advertising_count : forall fuel data off items,
  parse_advertising fuel data off = Some items -> (length items + off <= Nat.max (length data) off)%nat.
Proof.
  induction fuel as [|f IH]; intros data off items H; [discriminate|].
  cbn [parse_advertising] in H. destruct (off + 1 <? length data)%nat eqn:G.
  2:{ inversion H; subst. simpl. lia. }
  apply Nat.ltb_lt in G. destruct (nth_error data off) as [len|]; [|inversion H; subst; simpl; lia].
  destruct (parse_advertising f data (off + 1 + Z.to_nat len)) as [its|] eqn:P; [|discriminate].
  apply IH in P. destruct (0 <? len).
  - destruct (nth_error data (off + 1)); inversion H; subst; simpl; lia.
  - inversion H; subst. lia.
Qed.
