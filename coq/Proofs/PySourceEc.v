(* C14 - the P-256 models equal the denotation of the current source of
   bumble/crypto/builtin.py: _JacobianPoint.double / __add__ / to_affine / from_affine,
   _EllipticCurve.is_on_curve / ecdh_shared_secret / generate_public_key, EccKey.dh / x / y.
   (__mul__ contains a loop: it enters here as the model's jac_mul and its source is tied by a
   fingerprint and by correspondence.) *)
From Coq Require Import ZArith List Bool String Lia ZifyBool.
From BV Require Import Model.CryptoBytes Model.PyAst Model.P256 Gen.C14Source Proofs.CryptoBytes Proofs.P256Inv.
Import ListNotations.
Open Scope string_scope.
Open Scope list_scope.
Open Scope Z_scope.

Definition jacv (P : jac) : val := VTuple [VInt (fst (fst P)); VInt (snd (fst P)); VInt (snd P)].
Definition affv (a : affine) : val :=
  match a with
  | Infinite => VTuple [VInt 0; VInt 0; VBool true]
  | Affine x y => VTuple [VInt x; VInt y; VBool false]
  | NotInvertible => VErr
  end.
Definition dhv (r : ecdh_result) : val := match r with Secret bs => VBytes bs | _ => VErr end.

Section Ec.
  (* any curve with a positive modulus that fits in 32 bytes; the modulus is written Z.pos pp so
     that Python's "x % p" (ZeroDivisionError for p = 0) evaluates without a side condition *)
  Variable pp : positive.
  Variables ca0 cb0 cn0 cgx0 cgy0 : Z.
  Definition c : curve := mk_curve (Z.pos pp) ca0 cb0 cn0 cgx0 cgy0.
  Hypothesis p_small : Z.pos pp <= 2 ^ 256.        (* coordinates fit in 32 bytes *)
  Lemma p_pos : 0 < cp c.
  Proof using. reflexivity. Qed.

  Definition as_jac (v : val) : option jac :=
    match v with VTuple [VInt x; VInt y; VInt z] => Some (x, y, z) | _ => None end.

  Definition prim_ec (f : string) (args : list val) : val :=
    if any_err args then VErr else
    if String.eqb f "_JacobianPoint.point_at_infinity" then jacv jac_inf else
    if String.eqb f "_JacobianPoint" then match args with [_; VInt x; VInt y; VInt z] => jacv (x, y, z) | _ => VErr end else
    if String.eqb f "_Point" then match args with [_; VInt x; VInt y; VBool i] => VTuple [VInt x; VInt y; VBool i] | _ => VErr end else
    if String.eqb f "pow" then
      match args with [VInt z; VInt (-1); VInt p] => match modinv z p with Some i => VInt i | None => VErr end | _ => VErr end else
    if String.eqb f "self.double" then match args with [v] => match as_jac v with Some P => jacv (jac_double c P) | None => VErr end | _ => VErr end else
    if String.eqb f ".to_affine" then match args with [v] => match as_jac v with Some P => affv (to_affine c P) | None => VErr end | _ => VErr end else
    if String.eqb f "_JacobianPoint.from_affine" then
      match args with
      | [VTuple [VInt x; VInt y; VBool false]] => jacv (from_affine x y)
      | [VTuple [VInt x; VInt y; VBool true]] => jacv jac_inf
      | _ => VErr
      end else
    if String.eqb f "self.is_on_curve" then
      match args with
      | [_; VTuple [VInt x; VInt y; VBool false]] => VBool (on_curve c x y)
      | [_; VTuple [VInt x; VInt y; VBool true]] => VBool false
      | _ => VErr
      end else
    if String.eqb f ".to_bytes" then
      match args with
      | [VInt x; VInt n; VStr "big"] => if (0 <=? x) && (x <? 256 ^ n) then VBytes (to_be (Z.to_nat n) x) else VErr
      | _ => VErr
      end else
    if String.eqb f "int.from_bytes" then match args with [VBytes b; VStr "big"; VBool false] => VInt (be_int b) | _ => VErr end else
    if String.eqb f "self.private_key.curve.ecdh_shared_secret" then
      match args with [_; VInt d; VTuple [VInt x; VInt y; VBool false]] => dhv (ecdh c d x y) | _ => VErr end else
    if String.eqb f "self.private_key.curve.generate_public_key" then
      match args with [_; VInt d] => affv (public_key c d) | _ => VErr end else
    VErr.

  Definition attr_ec (name : string) (v : val) : val :=
    match v with
    | VTuple [VInt x; VInt y; VInt z] =>
        if String.eqb name "x" then VInt x else if String.eqb name "y" then VInt y else
        if String.eqb name "z" then VInt z else if String.eqb name "curve" then VStr "curve" else VErr
    | VTuple [VInt x; VInt y; VBool i] =>
        if String.eqb name "x" then VInt x else if String.eqb name "y" then VInt y else
        if String.eqb name "infinite" then VBool i else if String.eqb name "curve" then VStr "curve" else VErr
    | _ => VErr
    end.

  (* __mul__ / __add__ of _JacobianPoint *)
  Definition op_ec (op : binop) (a b : val) : val :=
    match op, as_jac a, b with
    | Mul, Some P, VInt k => jacv (jac_mul c P k)
    | Add, Some P, _ => match as_jac b with Some Q => jacv (jac_add c P Q) | None => VErr end
    | _, _, _ => VErr
    end.

  Definition no_meth (n : string) : option (list string * list stmt) := None.

  Definition run (init : env) (ps : list string) (body : list stmt) (args : list val) : val :=
    result_of (call prim_ec attr_ec op_ec no_meth 60 init ps body args).

  (* the attributes of a _JacobianPoint object / of the curve object / of an EccKey object *)
  Definition jac_env (P : jac) : env :=
    let '(x, y, z) := P in
    [("self.x", VInt x); ("self.y", VInt y); ("self.z", VInt z); ("self.curve", VStr "curve");
     ("self.curve.p", VInt (cp c)); ("self.curve.a", VInt (ca c))].
  Definition curve_env : env :=
    [("self.p", VInt (cp c)); ("self.a", VInt (ca c)); ("self.b", VInt (cb c));
     ("self._generator_jacobian", jacv (cgx c, cgy c, 1))].
  Definition key_env (d : Z) : env :=
    [("self.private_key.key", VInt d); ("self.private_key.curve", VStr "curve")].

  Ltac fold_consts :=
    repeat match goal with
    | |- context [Z.ltb ?a ?b] =>
        let v := eval vm_compute in (Z.ltb a b) in
        match v with true => change (Z.ltb a b) with true | false => change (Z.ltb a b) with false end
    | |- context [Z.leb ?a ?b] =>
        let v := eval vm_compute in (Z.leb a b) in
        match v with true => change (Z.leb a b) with true | false => change (Z.leb a b) with false end
    | |- context [Z.eqb ?a ?b] =>
        let v := eval vm_compute in (Z.eqb a b) in
        match v with true => change (Z.eqb a b) with true | false => change (Z.eqb a b) with false end
    end.
  Ltac py_step :=
    cbv -[Z.eqb Z.ltb Z.leb Z.add Z.sub Z.mul Z.pow Z.modulo Z.div Z.lxor Z.land Z.lor Z.shiftl Z.shiftr
          Z.min Z.max Z.to_nat Z.of_nat len be_int to_be modinv jac_double jac_add jac_mul to_affine on_curve
          ecdh public_key jac_inf fst snd];
    fold c;
    cbn [fst snd];
    fold_consts.

  Lemma jac_eta : forall P : jac, (fst (fst P), snd (fst P), snd P) = P.
  Proof using. intros [[x y] z]. reflexivity. Qed.

  Ltac py := unfold run, call; repeat progress (py_step; rewrite ?jac_eta).

  Theorem jac_double_matches_source : forall P,
    run (("self", jacv P) :: jac_env P) src_jac_double_params src_jac_double [jacv P] = jacv (jac_double c P).
  Proof using.
    intros [[x y] z]. unfold jac_double. py.
    destruct (z =? 0); [reflexivity|].
    destruct (y =? 0); reflexivity.
  Qed.

  Theorem jac_add_matches_source : forall P Q,
    run (("self", jacv P) :: jac_env P) src_jac_add_params src_jac_add [jacv P; jacv Q] = jacv (jac_add c P Q).
  Proof using.
    intros [[x1 y1] z1] [[x2 y2] z2]. unfold jac_add. py.
    destruct (z1 =? 0); destruct (z2 =? 0); try reflexivity.
    cbn [andb].
    destruct ((x1 * z2 ^ 2) mod Z.pos pp =? (x2 * z1 ^ 2) mod Z.pos pp); [|reflexivity].
    destruct ((y1 * z2 ^ 3) mod Z.pos pp =? (y2 * z1 ^ 3) mod Z.pos pp); reflexivity.
  Qed.

  Theorem jac_to_affine_matches_source : forall P,
    run (("self", jacv P) :: jac_env P) src_jac_to_affine_params src_jac_to_affine [jacv P] = affv (to_affine c P).
  Proof using.
    intros [[x y] z]. unfold to_affine. py.
    destruct (z =? 0); [reflexivity|].
    destruct (modinv z (Z.pos pp)); reflexivity.
  Qed.

  Theorem jac_from_affine_matches_source : forall x y,
    run [] src_jac_from_affine_params src_jac_from_affine [VStr "cls"; VTuple [VInt x; VInt y; VBool false]] =
    jacv (from_affine x y).
  Proof using. intros. py. reflexivity. Qed.

  Theorem is_on_curve_matches_source : forall x y,
    run (("self", VStr "curve") :: curve_env) src_is_on_curve_params src_is_on_curve
        [VStr "curve"; VTuple [VInt x; VInt y; VBool false]] = VBool (on_curve c x y).
  Proof using. intros. unfold on_curve. py. reflexivity. Qed.

  Lemma affine_coord_fits : forall P x y, to_affine c P = Affine x y ->
    ((0 <=? x) && (x <? 256 ^ 32)) = true /\ ((0 <=? y) && (y <? 256 ^ 32)) = true.
  Proof using p_small.
    intros [[X Y] Z0] x y E. destruct (to_affine_correct c _ _ _ _ _ p_pos E) as (_ & _ & Hx & Hy).
    change (cp c) with (Z.pos pp) in Hx, Hy. change (256 ^ 32) with (2 ^ 256). lia.
  Qed.

  Theorem ecdh_shared_secret_matches_source : forall d x y,
    run (("self", VStr "curve") :: curve_env) src_ecdh_shared_secret_params src_ecdh_shared_secret
        [VStr "curve"; VInt d; VTuple [VInt x; VInt y; VBool false]] = dhv (ecdh c d x y).
  Proof using p_small.
    intros. unfold ecdh, from_affine. py.
    destruct (on_curve c x y); [|reflexivity]. cbn [negb].
    destruct (to_affine c (jac_mul c (x, y, 1) d)) as [|sx sy|] eqn:E; try reflexivity.
    destruct (affine_coord_fits _ _ _ E) as [Hx _].
    cbn -[Z.leb Z.ltb Z.pow to_be Z.to_nat Z.eqb].
    change (if 0 <=? sx then sx <? 256 ^ 32 else false) with ((0 <=? sx) && (sx <? 256 ^ 32)).
    rewrite Hx. reflexivity.
  Qed.

  Theorem generate_public_key_matches_source : forall d,
    run (("self", VStr "curve") :: curve_env) src_generate_public_key_params src_generate_public_key
        [VStr "curve"; VInt d] = affv (public_key c d).
  Proof using.
    intros. unfold public_key. py.
    destruct (to_affine c (jac_mul c (cgx0, cgy0, 1) d)); reflexivity.
  Qed.

  Theorem ecc_dh_matches_source : forall d xb yb,
    run (("self", VStr "key") :: key_env d) src_ecc_dh_params src_ecc_dh [VStr "key"; VBytes xb; VBytes yb] =
    dhv (ecc_dh c d xb yb).
  Proof using.
    intros. unfold ecc_dh. py.
    destruct (ecdh c d (be_int xb) (be_int yb)); reflexivity.
  Qed.

  Theorem ecc_x_y_match_source : forall d,
    run (("self", VStr "key") :: key_env d) src_ecc_x_params src_ecc_x [VStr "key"] =
      match ecc_public c d with Some (xs, _) => VBytes xs | None => VErr end /\
    run (("self", VStr "key") :: key_env d) src_ecc_y_params src_ecc_y [VStr "key"] =
      match ecc_public c d with Some (_, ys) => VBytes ys | None => VErr end.
  Proof using p_small.
    intros d. unfold ecc_public. py.
    destruct (public_key c d) as [|x y|] eqn:E.
    - split; reflexivity.
    - unfold public_key in E. destruct (affine_coord_fits _ _ _ E) as [Hx Hy].
      cbn -[Z.leb Z.ltb Z.pow to_be Z.to_nat Z.eqb].
      change (if 0 <=? x then x <? 256 ^ 32 else false) with ((0 <=? x) && (x <? 256 ^ 32)).
      change (if 0 <=? y then y <? 256 ^ 32 else false) with ((0 <=? y) && (y <? 256 ^ 32)).
      rewrite Hx, Hy. split; reflexivity.
    - split; reflexivity.
  Qed.
End Ec.
