(* Proofs about Model/RfcommSm.v: set-up and teardown leave both ends in matching
   states, by complete exploration of the (finite) reachable state space inside the
   kernel, lifted to all schedules by a closure lemma. *)
From Coq Require Import ZArith List Bool Lia.
From BV Require Import Model.RfcommSm.
Import ListNotations.

Definition st_eq_dec : forall a b : st, {a = b} + {a <> b}.
Proof. repeat decide equality. Defined.

Definition st_mem (s : st) (l : list st) : bool :=
  existsb (fun x => if st_eq_dec s x then true else false) l.

Lemma st_mem_In s l : st_mem s l = true <-> In s l.
Proof.
  unfold st_mem. rewrite existsb_exists. split.
  - intros (x & Hx & E). destruct (st_eq_dec s x); [subst; exact Hx|discriminate].
  - intros H. exists s. split; [exact H|]. destruct (st_eq_dec s s); [reflexivity|congruence].
Qed.

Definition is_empty (l : list st) : bool := match l with [] => true | _ => false end.

(* worklist exploration on explicit fuel; the boolean says the worklist was exhausted *)
Fixpoint explore (fuel : nat) (seen todo : list st) : list st * bool :=
  match fuel with
  | O => (seen, is_empty todo)
  | S k =>
      match todo with
      | [] => (seen, true)
      | s :: rest =>
          if st_mem s seen then explore k seen rest
          else explore k (s :: seen) (map (sm_step s) all_labels ++ rest)
      end
  end.

Definition closed (R : list st) : bool :=
  forallb (fun s => forallb (fun l => st_mem (sm_step s l) R) all_labels) R.

(* every label is one of all_labels, or acts like one of them *)
Lemma label_listed l : In l all_labels.
Proof. destruct l as [| | | | |[|]| | |]; cbn; tauto. Qed.

(* closure lemma: a set that contains the initial state and is closed under every
   label contains every state reachable under any schedule *)
Lemma closed_reach R :
  closed R = true -> forall ls s, In s R -> In (sm_run s ls) R.
Proof.
  intros Hc. induction ls as [|l ls IH]; intros s Hs; cbn [sm_run]; [exact Hs|].
  apply IH. unfold closed in Hc. rewrite forallb_forall in Hc.
  specialize (Hc s Hs). rewrite forallb_forall in Hc.
  apply st_mem_In. apply Hc. apply label_listed.
Qed.

Lemma all_good R (Q : st -> bool) :
  closed R = true -> In sm_init R -> forallb Q R = true ->
  forall ls, Q (sm_run sm_init ls) = true.
Proof.
  intros Hc Hi HQ ls. rewrite forallb_forall in HQ. apply HQ. apply closed_reach; assumption.
Qed.

(* the reachable set, computed in the kernel *)
(* the reachable set, computed in the kernel *)
Definition reach_fuel : nat := Z.to_nat 20000.
Definition reachable : list st := fst (explore reach_fuel [] [sm_init]).

Lemma reachable_closed : closed reachable = true.
Proof. vm_compute. reflexivity. Qed.

Lemma reachable_init_b : st_mem sm_init reachable = true.
Proof. vm_compute. reflexivity. Qed.

Lemma reachable_init : In sm_init reachable.
Proof. exact (proj1 (st_mem_In sm_init reachable) reachable_init_b). Qed.

(* setup_teardown_agree: whenever nothing is in flight, both ends are in matching,
   settled states *)
Lemma reachable_good : forallb good reachable = true.
Proof. vm_compute. reflexivity. Qed.

Lemma setup_teardown_agree ls :
  let s := sm_run sm_init ls in quiescent s = true -> agree s = true.
Proof.
  cbn zeta. intros Hq.
  pose proof (all_good reachable good reachable_closed reachable_init reachable_good ls) as H.
  unfold good in H. rewrite Hq in H. exact H.
Qed.

(* and from every reachable state, delivering what is in flight settles within 16
   rounds, in a state where both ends agree *)
Definition settles (s : st) : bool := let s' := drain 16 s in quiescent s' && agree s'.

Lemma reachable_settles : forallb settles reachable = true.
Proof. vm_compute. reflexivity. Qed.

Lemma setup_teardown_settles ls :
  let s' := drain 16 (sm_run sm_init ls) in quiescent s' = true /\ agree s' = true.
Proof.
  pose proof (all_good reachable settles reachable_closed reachable_init reachable_settles ls) as H.
  unfold settles in H. cbn zeta in *. apply andb_prop in H. exact H.
Qed.

(* the schedule "connect, open, initiator disconnects the data link", everything
   delivered: matching states with fix D20d, mismatch (A has closed the link, B still
   holds it CONNECTED) without it *)
Definition d20d_witness : list lbl :=
  [AConnect; DeliverAB; DeliverBA; AOpen; DeliverAB; DeliverBA; DeliverAB; DeliverBA; DeliverBA;
   DeliverAB; DeliverAB; DeliverBA; ADlcDisc; DeliverAB; DeliverBA].

Lemma d20d_unfixed_refuted :
  let s := sm_run_unfixed sm_init d20d_witness in quiescent s = true /\ agree s = false.
Proof. vm_compute. split; reflexivity. Qed.

Lemma d20d_fixed_witness :
  let s := sm_run sm_init d20d_witness in quiescent s = true /\ agree s = true.
Proof. vm_compute. split; reflexivity. Qed.
