(* Proofs/Bytes.v — round-trip lemmas for Base/Bytes.v. *)
From Coq Require Import ZArith List Bool Lia.
From BV Require Import Base.Bytes.
Import ListNotations.
Open Scope Z_scope.

Lemma pow256_pos : forall n, 0 < pow256 n.
Proof. intro n. unfold pow256. apply Z.pow_pos_nonneg; lia. Qed.

Lemma pow256_S : forall n, pow256 (S n) = 256 * pow256 n.
Proof.
  intro n. unfold pow256. rewrite Nat2Z.inj_succ, Z.pow_succ_r by lia. reflexivity.
Qed.

Lemma pow256_0 : pow256 0 = 1.
Proof. reflexivity. Qed.

Lemma pow256_even : forall n, pow256 (S n) = 2 * (pow256 (S n) / 2).
Proof.
  intro n. rewrite pow256_S.
  replace (256 * pow256 n) with ((128 * pow256 n) * 2) by lia.
  rewrite Z.div_mul by lia. lia.
Qed.

Lemma byte_ok_iff : forall b, byte_ok b = true <-> 0 <= b < 256.
Proof. intro b. unfold byte_ok. rewrite andb_true_iff, Z.leb_le, Z.ltb_lt. tauto. Qed.

Lemma u_range_iff : forall n v, u_range n v = true <-> 0 <= v < pow256 n.
Proof. intros. unfold u_range. rewrite andb_true_iff, Z.leb_le, Z.ltb_lt. tauto. Qed.

Lemma s_range_iff : forall n v,
  s_range n v = true <-> - (pow256 n / 2) <= v < pow256 n / 2.
Proof. intros. unfold s_range. rewrite andb_true_iff, Z.leb_le, Z.ltb_lt. tauto. Qed.

Lemma bytes_ok_app : forall a b, bytes_ok (a ++ b) = bytes_ok a && bytes_ok b.
Proof. intros. unfold bytes_ok. apply forallb_app. Qed.

Lemma bytes_ok_cons : forall a b, bytes_ok (a :: b) = byte_ok a && bytes_ok b.
Proof. reflexivity. Qed.

Lemma bytes_ok_rev : forall a, bytes_ok (rev a) = bytes_ok a.
Proof.
  induction a as [|x a IH]; [reflexivity|].
  cbn [rev]. rewrite bytes_ok_app, IH. cbn. rewrite andb_true_r. apply andb_comm.
Qed.

Lemma bytes_ok_firstn : forall n a, bytes_ok a = true -> bytes_ok (firstn n a) = true.
Proof.
  induction n as [|n IH]; intros [|x a] H; try reflexivity.
  cbn in *. apply andb_true_iff in H as [H1 H2]. rewrite H1. cbn. auto.
Qed.

Lemma bytes_ok_skipn : forall n a, bytes_ok a = true -> bytes_ok (skipn n a) = true.
Proof.
  induction n as [|n IH]; intros [|x a] H; try reflexivity; try assumption.
  cbn in *. apply andb_true_iff in H as [H1 H2]. auto.
Qed.

Lemma bytes_ok_zeros : forall n, bytes_ok (zeros n) = true.
Proof. induction n; [reflexivity|]. cbn. assumption. Qed.

Lemma zeros_length : forall n, length (zeros n) = n.
Proof. intro n. apply repeat_length. Qed.

(* ---- little endian *)
Lemma le_encode_length : forall n v, length (le_encode n v) = n.
Proof. induction n; intro v; cbn; [reflexivity|]. rewrite IHn. reflexivity. Qed.

Lemma le_encode_ok : forall n v, bytes_ok (le_encode n v) = true.
Proof.
  induction n; intro v; [reflexivity|].
  cbn [le_encode]. rewrite bytes_ok_cons, IHn, andb_true_r.
  apply byte_ok_iff. apply Z.mod_pos_bound. lia.
Qed.

Lemma le_decode_range : forall bs,
  bytes_ok bs = true -> 0 <= le_decode bs < pow256 (length bs).
Proof.
  induction bs as [|b r IH]; intro H.
  - cbn [le_decode length]. rewrite pow256_0. lia.
  - rewrite bytes_ok_cons in H. apply andb_true_iff in H as [Hb Hr].
    apply byte_ok_iff in Hb. specialize (IH Hr).
    cbn [le_decode length]. rewrite pow256_S. lia.
Qed.

Theorem le_decode_encode : forall n v,
  0 <= v < pow256 n -> le_decode (le_encode n v) = v.
Proof.
  induction n; intros v Hv.
  - rewrite pow256_0 in Hv. cbn. lia.
  - rewrite pow256_S in Hv. cbn [le_encode le_decode].
    rewrite IHn.
    + pose proof (Z.div_mod v 256). lia.
    + split; [apply Z.div_pos; lia | apply Z.div_lt_upper_bound; lia].
Qed.

Theorem le_encode_decode : forall bs,
  bytes_ok bs = true -> le_encode (length bs) (le_decode bs) = bs.
Proof.
  induction bs as [|b r IH]; intro H; [reflexivity|].
  rewrite bytes_ok_cons in H. apply andb_true_iff in H as [Hb Hr].
  apply byte_ok_iff in Hb. cbn [length le_decode le_encode].
  replace (b + 256 * le_decode r) with (b + le_decode r * 256) by lia.
  rewrite Z.mod_add by lia. rewrite Z.div_add by lia.
  rewrite Z.mod_small by lia. rewrite Z.div_small by lia.
  rewrite Z.add_0_l. rewrite IH by assumption. reflexivity.
Qed.

(* encode n of a decoded n-byte string, stated with the width as a separate variable *)
Corollary le_encode_decode_n : forall n bs,
  length bs = n -> bytes_ok bs = true -> le_encode n (le_decode bs) = bs.
Proof. intros n bs <- H. apply le_encode_decode. assumption. Qed.

(* the encoder only looks at the value modulo 256^n *)
Lemma le_encode_mod : forall n v, le_encode n (v mod pow256 n) = le_encode n v.
Proof.
  induction n; intro v; [reflexivity|].
  cbn [le_encode]. rewrite pow256_S.
  pose proof (pow256_pos n) as Hp.
  f_equal.
  - rewrite Z.rem_mul_r by lia.
    replace (v mod 256 + 256 * ((v / 256) mod pow256 n))
      with (v mod 256 + (v / 256) mod pow256 n * 256) by lia.
    rewrite Z.mod_add by lia. apply Z.mod_mod. lia.
  - rewrite Z.rem_mul_r by lia.
    replace (v mod 256 + 256 * ((v / 256) mod pow256 n))
      with (v mod 256 + (v / 256) mod pow256 n * 256) by lia.
    rewrite Z.div_add by lia.
    rewrite (Z.div_small (v mod 256)) by (apply Z.mod_pos_bound; lia).
    rewrite Z.add_0_l. apply IHn.
Qed.

(* a wider little-endian encoding starts with the narrower one (used for the
   24-bit field, which the code writes as the first 3 bytes of a 32-bit pack) *)
Lemma le_encode_firstn : forall n m v, (n <= m)%nat ->
  firstn n (le_encode m v) = le_encode n v.
Proof.
  induction n; intros m v H; [reflexivity|].
  destruct m; [lia|]. cbn [le_encode firstn]. f_equal. apply IHn. lia.
Qed.

(* ---- big endian *)
Lemma be_encode_length : forall n v, length (be_encode n v) = n.
Proof. intros. unfold be_encode. rewrite rev_length. apply le_encode_length. Qed.

Lemma be_encode_ok : forall n v, bytes_ok (be_encode n v) = true.
Proof. intros. unfold be_encode. rewrite bytes_ok_rev. apply le_encode_ok. Qed.

Lemma be_decode_range : forall bs,
  bytes_ok bs = true -> 0 <= be_decode bs < pow256 (length bs).
Proof.
  intros bs H. unfold be_decode. rewrite <- (rev_length bs).
  apply le_decode_range. rewrite bytes_ok_rev. assumption.
Qed.

Theorem be_decode_encode : forall n v,
  0 <= v < pow256 n -> be_decode (be_encode n v) = v.
Proof.
  intros. unfold be_decode, be_encode. rewrite rev_involutive.
  apply le_decode_encode. assumption.
Qed.

Theorem be_encode_decode : forall bs,
  bytes_ok bs = true -> be_encode (length bs) (be_decode bs) = bs.
Proof.
  intros bs H. unfold be_decode, be_encode.
  rewrite <- (rev_length bs). rewrite le_encode_decode.
  - apply rev_involutive.
  - rewrite bytes_ok_rev. assumption.
Qed.

Corollary be_encode_decode_n : forall n bs,
  length bs = n -> bytes_ok bs = true -> be_encode n (be_decode bs) = bs.
Proof. intros n bs <- H. apply be_encode_decode. assumption. Qed.

(* ---- two's complement *)
Lemma of_signed_range : forall n v,
  s_range (S n) v = true -> 0 <= of_signed (S n) v < pow256 (S n).
Proof.
  intros n v H. apply s_range_iff in H. pose proof (pow256_even n) as He.
  pose proof (pow256_pos (S n)). unfold of_signed.
  destruct (v <? 0) eqn:E; [apply Z.ltb_lt in E | apply Z.ltb_ge in E]; lia.
Qed.

Theorem to_of_signed : forall n v,
  s_range (S n) v = true -> to_signed (S n) (of_signed (S n) v) = v.
Proof.
  intros n v H. apply s_range_iff in H. pose proof (pow256_even n) as He.
  pose proof (pow256_pos (S n)). unfold of_signed, to_signed.
  destruct (v <? 0) eqn:E; [apply Z.ltb_lt in E | apply Z.ltb_ge in E].
  - destruct (v + pow256 (S n) <? pow256 (S n) / 2) eqn:E2;
      [apply Z.ltb_lt in E2 | apply Z.ltb_ge in E2]; lia.
  - destruct (v <? pow256 (S n) / 2) eqn:E2;
      [apply Z.ltb_lt in E2 | apply Z.ltb_ge in E2]; lia.
Qed.

Theorem of_to_signed : forall n u,
  0 <= u < pow256 (S n) -> of_signed (S n) (to_signed (S n) u) = u.
Proof.
  intros n u H. pose proof (pow256_even n) as He. unfold of_signed, to_signed.
  destruct (u <? pow256 (S n) / 2) eqn:E; [apply Z.ltb_lt in E | apply Z.ltb_ge in E].
  - destruct (u <? 0) eqn:E2; [apply Z.ltb_lt in E2 | apply Z.ltb_ge in E2]; lia.
  - destruct (u - pow256 (S n) <? 0) eqn:E2; [apply Z.ltb_lt in E2 | apply Z.ltb_ge in E2]; lia.
Qed.

Lemma to_signed_range : forall n u,
  0 <= u < pow256 (S n) -> s_range (S n) (to_signed (S n) u) = true.
Proof.
  intros n u H. apply s_range_iff. pose proof (pow256_even n) as He. unfold to_signed.
  destruct (u <? pow256 (S n) / 2) eqn:E; [apply Z.ltb_lt in E | apply Z.ltb_ge in E]; lia.
Qed.

Lemma les_encode_length : forall n v, length (les_encode n v) = n.
Proof. intros. apply le_encode_length. Qed.

Lemma les_encode_ok : forall n v, bytes_ok (les_encode n v) = true.
Proof. intros. apply le_encode_ok. Qed.

Theorem les_decode_encode : forall n v,
  s_range (S n) v = true -> les_decode (les_encode (S n) v) = v.
Proof.
  intros n v H. unfold les_decode, les_encode. rewrite le_encode_length.
  rewrite le_decode_encode by (apply of_signed_range; assumption).
  apply to_of_signed. assumption.
Qed.

Theorem les_encode_decode : forall bs,
  bs <> [] -> bytes_ok bs = true -> les_encode (length bs) (les_decode bs) = bs.
Proof.
  intros bs Hne H. unfold les_decode, les_encode.
  destruct bs as [|b r]; [congruence|].
  set (l := b :: r) in *.
  assert (length l = S (length r)) as Hl by reflexivity.
  pose proof (le_decode_range l H) as Hr. rewrite Hl in *.
  rewrite of_to_signed by assumption. rewrite <- Hl. apply le_encode_decode. assumption.
Qed.

Lemma les_decode_range : forall bs,
  bs <> [] -> bytes_ok bs = true -> s_range (length bs) (les_decode bs) = true.
Proof.
  intros bs Hne H. unfold les_decode. destruct bs as [|b r]; [congruence|].
  set (l := b :: r) in *. assert (length l = S (length r)) as Hl by reflexivity.
  pose proof (le_decode_range l H) as Hr. rewrite Hl in *.
  apply to_signed_range. assumption.
Qed.

Lemma bes_encode_length : forall n v, length (bes_encode n v) = n.
Proof. intros. apply be_encode_length. Qed.

Theorem bes_decode_encode : forall n v,
  s_range (S n) v = true -> bes_decode (bes_encode (S n) v) = v.
Proof.
  intros n v H. unfold bes_decode, bes_encode. rewrite be_encode_length.
  rewrite be_decode_encode by (apply of_signed_range; assumption).
  apply to_of_signed. assumption.
Qed.

Theorem bes_encode_decode : forall bs,
  bs <> [] -> bytes_ok bs = true -> bes_encode (length bs) (bes_decode bs) = bs.
Proof.
  intros bs Hne H. unfold bes_decode, bes_encode.
  destruct bs as [|b r]; [congruence|].
  set (l := b :: r) in *.
  assert (length l = S (length r)) as Hl by reflexivity.
  pose proof (be_decode_range l H) as Hr. rewrite Hl in *.
  rewrite of_to_signed by assumption. rewrite <- Hl. apply be_encode_decode. assumption.
Qed.

(* ---- slicing *)
Lemma firstn_app_exact : forall (A : Type) (a b : list A), firstn (length a) (a ++ b) = a.
Proof.
  intros. rewrite firstn_app, Nat.sub_diag, firstn_all. cbn. apply app_nil_r.
Qed.

Lemma skipn_app_exact : forall (A : Type) (a b : list A), skipn (length a) (a ++ b) = b.
Proof.
  intros. rewrite skipn_app, Nat.sub_diag, skipn_all. reflexivity.
Qed.

(* ---- bit fields: shifts and masks as div / mod *)
Lemma bits_spec : forall x lo w, 0 <= lo -> 0 <= w ->
  bits x lo w = (x / 2 ^ lo) mod 2 ^ w.
Proof.
  intros. unfold bits. rewrite Z.land_ones by assumption.
  rewrite Z.shiftr_div_pow2 by assumption. reflexivity.
Qed.

Lemma testbit_small : forall a k n, 0 <= a < 2 ^ k -> k <= n -> Z.testbit a n = false.
Proof.
  intros a k n Ha Hn.
  destruct (Z.eq_dec a 0) as [->|Hz]; [apply Z.bits_0|].
  apply Z.bits_above_log2; [lia|].
  apply Z.lt_le_trans with k; [|assumption].
  apply Z.log2_lt_pow2; lia.
Qed.

Lemma land_shiftl_disjoint : forall a b k, 0 <= k -> 0 <= a < 2 ^ k ->
  Z.land a (Z.shiftl b k) = 0.
Proof.
  intros a b k Hk Ha.
  apply Z.bits_inj'. intros n Hn. rewrite Z.land_spec, Z.bits_0.
  destruct (Z.ltb_spec n k).
  - rewrite Z.shiftl_spec_low by assumption. apply andb_false_r.
  - rewrite (testbit_small a k n) by assumption. reflexivity.
Qed.

(* disjoint or = addition: a below bit k, b shifted to bit k *)
Lemma lor_shiftl_add : forall a b k, 0 <= k -> 0 <= a < 2 ^ k ->
  Z.lor a (Z.shiftl b k) = a + b * 2 ^ k.
Proof.
  intros a b k Hk Ha.
  pose proof (land_shiftl_disjoint a b k Hk Ha) as Hd.
  rewrite <- Z.lxor_lor by assumption.
  rewrite <- Z.add_nocarry_lxor by assumption.
  rewrite Z.shiftl_mul_pow2 by assumption. reflexivity.
Qed.
