(* AVCTP MessageAssembler: fragments in the layout the implementation accepts (PID in every
   packet) are reassembled byte-identically for ANY cut of the payload, from ANY assembler
   state; fragments laid out per the AVCTP specification (PID in the START packet only) are
   reassembled when the message is not fragmented, and NOT in general (finding D19d). *)
From Coq Require Import ZArith List Bool Lia.
From BV Require Import Model.C19Chunks Model.AvctpAsm Proofs.C19Chunks.
Import ListNotations.
Open Scope Z_scope.

Lemma chdr_decode : forall label pt cr ipid,
  0 <= label -> 0 <= pt < 4 -> 0 <= cr < 2 -> 0 <= ipid < 2 ->
  c_hdr label pt cr ipid / 16 = label /\ (c_hdr label pt cr ipid / 4) mod 4 = pt /\
  (c_hdr label pt cr ipid / 2) mod 2 = cr /\ c_hdr label pt cr ipid mod 2 = ipid.
Proof.
  intros. unfold c_hdr. repeat split; Z.div_mod_to_equations; lia.
Qed.

Lemma pid_join : forall pid, pid_hi pid * 256 + pid_lo pid = pid.
Proof. intros. unfold pid_hi, pid_lo. pose proof (Z.div_mod pid 256). lia. Qed.

Lemma c_on_pdu_cons : forall s b0 rest,
  c_on_pdu s (b0 :: rest) =
  c_on_frame (c_set_received s (c_received s + 1)) (b0 / 16) ((b0 / 4) mod 4) ((b0 / 2) mod 2) (b0 mod 2) rest.
Proof. reflexivity. Qed.

(* a header a peer may send: IPID only in responses *)
Definition chdr_ok (label cr ipid : Z) : bool :=
  (0 <=? label) && (label <? 16) && (0 <=? cr) && (cr <? 2) && (0 <=? ipid) && (ipid <? 2) &&
  negb ((cr =? 0) && negb (ipid =? 0)).

Lemma chdr_ok_inv : forall label cr ipid, chdr_ok label cr ipid = true ->
  0 <= label /\ 0 <= cr < 2 /\ 0 <= ipid < 2 /\ ((cr =? 0) && negb (ipid =? 0)) = false.
Proof.
  intros label cr ipid H. unfold chdr_ok in H. repeat rewrite andb_true_iff in H.
  destruct H as ((((((H1 & H2) & H3) & H4) & H5) & H6) & H7).
  apply Z.leb_le in H1, H3, H5. apply Z.ltb_lt in H2, H4, H6.
  apply negb_true_iff in H7. repeat split; try lia; try exact H7.
Qed.

(* ---- decoded frames ---- *)
Lemma cframe_single : forall s label cr ipid ph pl body,
  ((cr =? 0) && negb (ipid =? 0)) = false ->
  c_on_frame s label CT_SINGLE cr ipid (ph :: pl :: body) =
  (c_reset, [c_deliver label cr ipid (ph * 256 + pl) body]).
Proof. intros. unfold c_on_frame. rewrite H. reflexivity. Qed.

Lemma cframe_start : forall s label cr ipid n ph pl body,
  ((cr =? 0) && negb (ipid =? 0)) = false ->
  c_on_frame s label CT_START cr ipid (n :: ph :: pl :: body) =
  (mkC 1 label (ph * 256 + pl) cr ipid body n, []).
Proof. intros. unfold c_on_frame. rewrite H. reflexivity. Qed.

Lemma cframe_continue : forall label pid cr ipid ipid' acc n k ph pl body,
  ((cr =? 0) && negb (ipid' =? 0)) = false -> ph * 256 + pl = pid -> (n <? k) = false ->
  c_on_frame (mkC k label pid cr ipid acc n) label CT_CONTINUE cr ipid' (ph :: pl :: body) =
  (mkC k label pid cr ipid (acc ++ body) n, []).
Proof.
  intros label pid cr ipid ipid' acc n k ph pl body H Hp Hn. unfold c_on_frame. rewrite H.
  change (CT_CONTINUE =? CT_SINGLE) with false. change (CT_CONTINUE =? CT_START) with false.
  cbv iota. cbn [c_payload c_label c_pid c_cr c_nop c_received c_ipid].
  rewrite Hp, !Z.eqb_refl. cbn [negb]. rewrite Hn.
  change (CT_CONTINUE =? CT_END) with false. reflexivity.
Qed.

Lemma cframe_end : forall label pid cr ipid ipid' acc n ph pl body,
  ((cr =? 0) && negb (ipid' =? 0)) = false -> ph * 256 + pl = pid ->
  c_on_frame (mkC n label pid cr ipid acc n) label CT_END cr ipid' (ph :: pl :: body) =
  (c_reset, [c_deliver label cr ipid pid (acc ++ body)]).
Proof.
  intros label pid cr ipid ipid' acc n ph pl body H Hp. unfold c_on_frame. rewrite H.
  change (CT_END =? CT_SINGLE) with false. change (CT_END =? CT_START) with false.
  cbv iota. cbn [c_payload c_label c_pid c_cr c_nop c_received c_ipid].
  rewrite Hp, !Z.eqb_refl, Z.ltb_irrefl. cbn [negb].
  change (CT_END =? CT_END) with true. reflexivity.
Qed.

(* ---- runs ---- *)
Lemma c_run_app : forall p1 p2 s,
  c_run s (p1 ++ p2) =
  (fst (c_run (fst (c_run s p1)) p2), snd (c_run s p1) ++ snd (c_run (fst (c_run s p1)) p2)).
Proof.
  induction p1 as [|p p1 IH]; intros p2 s; simpl.
  - destruct (c_run s p2); reflexivity.
  - destruct (c_on_pdu s p) as [s1 o1]. rewrite IH.
    destruct (c_run s1 p1) as [s2 o2]. simpl.
    destruct (c_run s2 p2) as [s3 o3]. simpl. rewrite app_assoc. reflexivity.
Qed.

Lemma ctail_pid_run : forall cs label cr ipid pid acc n k,
  cs <> [] -> chdr_ok label cr ipid = true -> 0 <= k -> k + zlen cs = n ->
  c_run (mkC k label pid cr ipid acc n) (c_tail_pid label cr ipid pid cs) =
  (c_reset, [c_deliver label cr ipid pid (acc ++ concat cs)]).
Proof.
  induction cs as [|c cs IH]; intros label cr ipid pid acc n k Hne Hok Hk Hn; [congruence|].
  destruct (chdr_ok_inv _ _ _ Hok) as (Hl & Hc & Hi & Hv).
  destruct cs as [|c2 cs'].
  - cbn [c_tail_pid c_run]. rewrite zlen_cons, zlen_nil in Hn.
    destruct (chdr_decode label CT_END cr ipid Hl ltac:(unfold CT_END; lia) Hc Hi) as (E1 & E2 & E3 & E4).
    rewrite c_on_pdu_cons, E1, E2, E3, E4. unfold c_set_received.
    cbn [c_payload c_label c_pid c_cr c_nop c_received c_ipid].
    replace (k + 1) with n by lia.
    rewrite (cframe_end label pid cr ipid ipid acc n _ _ c Hv (pid_join pid)).
    cbn [concat app]. rewrite !app_nil_r. reflexivity.
  - change (c_tail_pid label cr ipid pid (c :: c2 :: cs'))
      with ((c_hdr label CT_CONTINUE cr ipid :: pid_hi pid :: pid_lo pid :: c)
            :: c_tail_pid label cr ipid pid (c2 :: cs')).
    rewrite zlen_cons in Hn.
    assert (1 <= zlen (c2 :: cs')) by (rewrite zlen_cons; pose proof (zlen_nonneg _ cs'); lia).
    cbn [c_run].
    destruct (chdr_decode label CT_CONTINUE cr ipid Hl ltac:(unfold CT_CONTINUE; lia) Hc Hi) as (E1 & E2 & E3 & E4).
    rewrite c_on_pdu_cons, E1, E2, E3, E4. unfold c_set_received.
    cbn [c_payload c_label c_pid c_cr c_nop c_received c_ipid].
    rewrite (cframe_continue label pid cr ipid ipid acc n (k + 1) _ _ c Hv (pid_join pid))
      by (apply Z.ltb_ge; lia).
    rewrite (IH label cr ipid pid (acc ++ c) n (k + 1) ltac:(discriminate) Hok ltac:(lia) ltac:(lia)).
    cbn [concat app]. rewrite <- !app_assoc. reflexivity.
Qed.

(* Main theorem, layout with the PID in every packet: any cut of the payload (first piece c0,
   further pieces cs), any header a peer may send, any 16-bit PID, from ANY assembler state. *)
Theorem pid_layout_reassembles : forall label cr ipid pid c0 cs s,
  chdr_ok label cr ipid = true ->
  c_run s (c_frag_pid label cr ipid pid c0 cs) =
  (c_reset, [CMsg label (cr =? 0) (negb (ipid =? 0)) pid (c0 ++ concat cs)]).
Proof.
  intros label cr ipid pid c0 cs s Hok.
  destruct (chdr_ok_inv _ _ _ Hok) as (Hl & Hc & Hi & Hv).
  unfold c_frag_pid. destruct cs as [|c cs'].
  - cbn [c_run].
    destruct (chdr_decode label CT_SINGLE cr ipid Hl ltac:(unfold CT_SINGLE; lia) Hc Hi) as (E1 & E2 & E3 & E4).
    rewrite c_on_pdu_cons, E1, E2, E3, E4, (cframe_single _ _ _ _ _ _ _ Hv), pid_join.
    cbn [concat app]. rewrite app_nil_r. reflexivity.
  - cbn [c_run].
    destruct (chdr_decode label CT_START cr ipid Hl ltac:(unfold CT_START; lia) Hc Hi) as (E1 & E2 & E3 & E4).
    rewrite c_on_pdu_cons, E1, E2, E3, E4, (cframe_start _ _ _ _ _ _ _ _ Hv), pid_join.
    rewrite (ctail_pid_run (c :: cs') label cr ipid pid c0 (1 + zlen (c :: cs')) 1
               ltac:(discriminate) Hok ltac:(lia) eq_refl).
    reflexivity.
Qed.

(* Resynchronisation: after ANY sequence of PDUs (including ones rejected with an exception),
   the next well-formed message is delivered intact. *)
Theorem c_resync : forall junk label cr ipid pid c0 cs s,
  chdr_ok label cr ipid = true ->
  c_run s (junk ++ c_frag_pid label cr ipid pid c0 cs) =
  (c_reset, snd (c_run s junk) ++ [CMsg label (cr =? 0) (negb (ipid =? 0)) pid (c0 ++ concat cs)]).
Proof.
  intros. rewrite c_run_app, pid_layout_reassembles by assumption. reflexivity.
Qed.

(* Specification layout, not fragmented: identical to the other layout, so it is delivered. *)
Theorem spec_layout_single : forall label cr ipid pid c0 s,
  chdr_ok label cr ipid = true ->
  c_run s (c_frag_spec label cr ipid pid c0 []) =
  (c_reset, [CMsg label (cr =? 0) (negb (ipid =? 0)) pid c0]).
Proof.
  intros. change (c_frag_spec label cr ipid pid c0 []) with (c_frag_pid label cr ipid pid c0 []).
  rewrite pid_layout_reassembles by assumption. cbn [concat]. rewrite app_nil_r. reflexivity.
Qed.

(* Specification layout, fragmented: the hypothesis "cs = []" above is needed (finding D19d).
   START(pid 0x110E, 3 bytes) + END(3 bytes) delivers nothing. *)
Lemma spec_layout_fragmented_refuted :
  ~ (forall label cr ipid pid c0 cs s, chdr_ok label cr ipid = true ->
       c_run s (c_frag_spec label cr ipid pid c0 cs) =
       (c_reset, [CMsg label (cr =? 0) (negb (ipid =? 0)) pid (c0 ++ concat cs)])).
Proof.
  intro H. specialize (H 1 0 0 4366 [1; 2; 3] [[4; 5; 6]] c_reset eq_refl).
  vm_compute in H. discriminate H.
Qed.
