(* Proofs about Model/ChanMgr.v: the invariant of the channel manager and the C09 theorems. *)
From Coq Require Import ZArith List Bool Lia.
From BV Require Import Gen.C09Tables Model.ChanMgr Proofs.ChanMgrLib.
Import ListNotations.
Open Scope Z_scope.

(* ================================================================== accessors of the primitives *)
(* every primitive is characterised by what it does to hget / wget / the five tables *)

Ltac prim :=
  unfold hupd, wres, wres_opt, hnew, wnew, next_id, with_heap, with_chs, with_le, with_reqs,
    with_pend, with_ids, with_w, hget, wget; cbn;
  repeat match goal with
         | |- context [if ?b <? 0 then _ else _] => destruct (b <? 0); cbn
         | |- context [match ?o with Some _ => _ | None => _ end] => destruct o; cbn
         end; auto.

(* --- fields untouched by heap updates *)
Lemma chs_hupd m u f : m_chs (hupd m u f) = m_chs m. Proof. prim. Qed.
Lemma le_hupd m u f : m_le (hupd m u f) = m_le m. Proof. prim. Qed.
Lemma reqs_hupd m u f : m_reqs (hupd m u f) = m_reqs m. Proof. prim. Qed.
Lemma pend_hupd m u f : m_pend (hupd m u f) = m_pend m. Proof. prim. Qed.
Lemma ids_hupd m u f : m_ids (hupd m u f) = m_ids m. Proof. prim. Qed.
Lemma wget_hupd m u f w : wget (hupd m u f) w = wget m w. Proof. prim. Qed.
Lemma lesrv_hupd m u f : m_lesrv (hupd m u f) = m_lesrv m. Proof. prim. Qed.
Lemma clsrv_hupd m u f : m_clsrv (hupd m u f) = m_clsrv m. Proof. prim. Qed.
Lemma wlen_hupd m u f : wuid (hupd m u f) = wuid m. Proof. unfold wuid. prim. Qed.
Lemma hlen_hupd m u f : huid (hupd m u f) = huid m.
Proof. unfold huid, hupd. destruct (u <? 0); cbn; [auto|]. now rewrite length_lupd. Qed.

Lemma chs_hnew m c : m_chs (hnew m c) = m_chs m. Proof. reflexivity. Qed.
Lemma le_hnew m c : m_le (hnew m c) = m_le m. Proof. reflexivity. Qed.
Lemma reqs_hnew m c : m_reqs (hnew m c) = m_reqs m. Proof. reflexivity. Qed.
Lemma pend_hnew m c : m_pend (hnew m c) = m_pend m. Proof. reflexivity. Qed.
Lemma ids_hnew m c : m_ids (hnew m c) = m_ids m. Proof. reflexivity. Qed.
Lemma wget_hnew m c w : wget (hnew m c) w = wget m w. Proof. reflexivity. Qed.
Lemma wlen_hnew m c : wuid (hnew m c) = wuid m. Proof. reflexivity. Qed.
Lemma hlen_hnew m c : huid (hnew m c) = huid m + 1.
Proof. unfold huid, hnew. cbn. rewrite app_length. cbn. lia. Qed.

(* --- fields untouched by waiter updates *)
Lemma chs_wres m w o : m_chs (wres m w o) = m_chs m. Proof. prim. Qed.
Lemma le_wres m w o : m_le (wres m w o) = m_le m. Proof. prim. Qed.
Lemma reqs_wres m w o : m_reqs (wres m w o) = m_reqs m. Proof. prim. Qed.
Lemma pend_wres m w o : m_pend (wres m w o) = m_pend m. Proof. prim. Qed.
Lemma ids_wres m w o : m_ids (wres m w o) = m_ids m. Proof. prim. Qed.
Lemma hget_wres m w o u : hget (wres m w o) u = hget m u. Proof. prim. Qed.
Lemma hlen_wres m w o : huid (wres m w o) = huid m. Proof. unfold huid. prim. Qed.
Lemma wlen_wres m w o : wuid (wres m w o) = wuid m.
Proof. unfold wuid, wres. destruct (w <? 0); cbn; [auto|]. now rewrite length_lupd. Qed.

Lemma chs_wres_opt m w o : m_chs (wres_opt m w o) = m_chs m. Proof. destruct w; cbn; auto using chs_wres. Qed.
Lemma le_wres_opt m w o : m_le (wres_opt m w o) = m_le m. Proof. destruct w; cbn; auto using le_wres. Qed.
Lemma reqs_wres_opt m w o : m_reqs (wres_opt m w o) = m_reqs m. Proof. destruct w; cbn; auto using reqs_wres. Qed.
Lemma pend_wres_opt m w o : m_pend (wres_opt m w o) = m_pend m. Proof. destruct w; cbn; auto using pend_wres. Qed.
Lemma ids_wres_opt m w o : m_ids (wres_opt m w o) = m_ids m. Proof. destruct w; cbn; auto using ids_wres. Qed.
Lemma hget_wres_opt m w o u : hget (wres_opt m w o) u = hget m u. Proof. destruct w; cbn; auto using hget_wres. Qed.
Lemma hlen_wres_opt m w o : huid (wres_opt m w o) = huid m. Proof. destruct w; cbn; auto using hlen_wres. Qed.
Lemma wlen_wres_opt m w o : wuid (wres_opt m w o) = wuid m. Proof. destruct w; cbn; auto using wlen_wres. Qed.
Lemma wget_wres_opt m w o w' :
  wget (wres_opt m w o) w' =
  match w with
  | Some x => if Z.eqb w' x then option_map (wres1 o) (wget m w') else wget m w'
  | None => wget m w' end.
Proof. destruct w; cbn; auto using wget_wres. Qed.

Lemma chs_wnew m o k h r : m_chs (wnew m o k h r) = m_chs m. Proof. reflexivity. Qed.
Lemma le_wnew m o k h r : m_le (wnew m o k h r) = m_le m. Proof. reflexivity. Qed.
Lemma reqs_wnew m o k h r : m_reqs (wnew m o k h r) = m_reqs m. Proof. reflexivity. Qed.
Lemma pend_wnew m o k h r : m_pend (wnew m o k h r) = m_pend m. Proof. reflexivity. Qed.
Lemma ids_wnew m o k h r : m_ids (wnew m o k h r) = m_ids m. Proof. reflexivity. Qed.
Lemma hget_wnew m o k h r u : hget (wnew m o k h r) u = hget m u. Proof. reflexivity. Qed.
Lemma hlen_wnew m o k h r : huid (wnew m o k h r) = huid m. Proof. reflexivity. Qed.
Lemma wlen_wnew m o k h r : wuid (wnew m o k h r) = wuid m + 1.
Proof. unfold wuid, wnew. cbn. rewrite app_length. cbn. lia. Qed.

(* --- next_id only touches identifiers *)
Lemma chs_next_id m h : m_chs (next_id m h) = m_chs m. Proof. reflexivity. Qed.
Lemma le_next_id m h : m_le (next_id m h) = m_le m. Proof. reflexivity. Qed.
Lemma reqs_next_id m h : m_reqs (next_id m h) = m_reqs m. Proof. reflexivity. Qed.
Lemma pend_next_id m h : m_pend (next_id m h) = m_pend m. Proof. reflexivity. Qed.
Lemma hget_next_id m h u : hget (next_id m h) u = hget m u. Proof. reflexivity. Qed.
Lemma wget_next_id m h w : wget (next_id m h) w = wget m w. Proof. reflexivity. Qed.
Lemma hlen_next_id m h : huid (next_id m h) = huid m. Proof. reflexivity. Qed.
Lemma wlen_next_id m h : wuid (next_id m h) = wuid m. Proof. reflexivity. Qed.

(* --- with_* *)
Lemma hget_with_chs m x u : hget (with_chs m x) u = hget m u. Proof. reflexivity. Qed.
Lemma hget_with_le m x u : hget (with_le m x) u = hget m u. Proof. reflexivity. Qed.
Lemma hget_with_reqs m x u : hget (with_reqs m x) u = hget m u. Proof. reflexivity. Qed.
Lemma hget_with_pend m x u : hget (with_pend m x) u = hget m u. Proof. reflexivity. Qed.
Lemma wget_with_chs m x w : wget (with_chs m x) w = wget m w. Proof. reflexivity. Qed.
Lemma wget_with_le m x w : wget (with_le m x) w = wget m w. Proof. reflexivity. Qed.
Lemma wget_with_reqs m x w : wget (with_reqs m x) w = wget m w. Proof. reflexivity. Qed.
Lemma wget_with_pend m x w : wget (with_pend m x) w = wget m w. Proof. reflexivity. Qed.

(* --- on_channel_closed *)
Lemma hget_occ m u c u' : hget (on_channel_closed m u c) u' = hget m u'.
Proof. unfold on_channel_closed. repeat destruct (is_uid _ _); reflexivity. Qed.
Lemma wget_occ m u c w : wget (on_channel_closed m u c) w = wget m w.
Proof. unfold on_channel_closed. repeat destruct (is_uid _ _); reflexivity. Qed.
Lemma reqs_occ m u c : m_reqs (on_channel_closed m u c) = m_reqs m.
Proof. unfold on_channel_closed. repeat destruct (is_uid _ _); reflexivity. Qed.
Lemma pend_occ m u c : m_pend (on_channel_closed m u c) = m_pend m.
Proof. unfold on_channel_closed. repeat destruct (is_uid _ _); reflexivity. Qed.
Lemma ids_occ m u c : m_ids (on_channel_closed m u c) = m_ids m.
Proof. unfold on_channel_closed. repeat destruct (is_uid _ _); reflexivity. Qed.
Lemma hlen_occ m u c : huid (on_channel_closed m u c) = huid m.
Proof. unfold on_channel_closed. repeat destruct (is_uid _ _); reflexivity. Qed.
Lemma wlen_occ m u c : wuid (on_channel_closed m u c) = wuid m.
Proof. unfold on_channel_closed. repeat destruct (is_uid _ _); reflexivity. Qed.
Lemma chs_occ m u c :
  m_chs (on_channel_closed m u c) =
  if is_uid (tget (c_conn c) (c_scid c) (m_chs m)) u then tdel (c_conn c) (c_scid c) (m_chs m) else m_chs m.
Proof. unfold on_channel_closed. repeat destruct (is_uid _ _); reflexivity. Qed.
Lemma le_occ m u c :
  m_le (on_channel_closed m u c) =
  if is_uid (tget (c_conn c) (c_dcid c) (m_le m)) u then tdel (c_conn c) (c_dcid c) (m_le m) else m_le m.
Proof.
  unfold on_channel_closed.
  destruct (is_uid (tget (c_conn c) (c_scid c) (m_chs m)) u); cbn;
    destruct (is_uid (tget (c_conn c) (c_dcid c) (m_le m)) u); reflexivity.
Qed.

Lemma is_uid_iff o u : is_uid o u = true <-> o = Some u.
Proof. destruct o; cbn; [rewrite Z.eqb_eq|]; split; congruence. Qed.

#[export] Hint Rewrite
  chs_hupd le_hupd reqs_hupd pend_hupd ids_hupd wget_hupd hlen_hupd wlen_hupd hget_hupd
  chs_hnew le_hnew reqs_hnew pend_hnew ids_hnew wget_hnew hlen_hnew wlen_hnew hget_hnew
  chs_wres le_wres reqs_wres pend_wres ids_wres hget_wres hlen_wres wlen_wres wget_wres
  chs_wres_opt le_wres_opt reqs_wres_opt pend_wres_opt ids_wres_opt hget_wres_opt hlen_wres_opt
  wlen_wres_opt wget_wres_opt
  chs_wnew le_wnew reqs_wnew pend_wnew ids_wnew hget_wnew hlen_wnew wlen_wnew wget_wnew
  chs_next_id le_next_id reqs_next_id pend_next_id hget_next_id wget_next_id hlen_next_id wlen_next_id
  hget_with_chs hget_with_le hget_with_reqs hget_with_pend
  wget_with_chs wget_with_le wget_with_reqs wget_with_pend
  hget_occ wget_occ reqs_occ pend_occ ids_occ hlen_occ wlen_occ chs_occ le_occ
  : acc.

#[export] Hint Rewrite @tget_tset @tget_tdel @tget_tdrop : acc.

(* ================================================================== the invariant *)
(* states in which a channel object is filed in `channels` whatever its waiters *)
Definition reg_st (s : cst) : bool :=
  match s with
  | SConnected | SDisconnecting | SWaitConfigReqRsp | SWaitConfigReq | SWaitConfigRsp
  | SOpen | SWaitDisconnect => true
  | _ => false
  end.

(* "the channel is in use": it is open or being opened / configured / closed on a connection
   that still exists.  This is the abstract set the `channels` table must equal. *)
Definition in_use (m : mgr) (u : Z) (c : chan) : bool :=
  c_live c &&
  match c_st c with
  | SConnecting | SWaitConnectRsp => match c_cw c with Some _ => true | None => false end
  | SInit => match tget (c_conn c) (c_ref c) (m_pend m) with
             | Some (_, us) => memz u us | None => false end
  | s => reg_st s
  end.

Definition cw_st (k : ckind) (s : cst) : bool :=
  match k, s with
  | KLe, SConnecting => true
  | KCl, SWaitConnectRsp | KCl, SWaitConfigReqRsp | KCl, SWaitConfigReq | KCl, SWaitConfigRsp => true
  | _, _ => false
  end.
Definition dw_st (k : ckind) (s : cst) : bool :=
  match k, s with KLe, SDisconnecting => true | KCl, SWaitDisconnect => true | _, _ => false end.

Definition waiter_is (m : mgr) (w : Z) (k : wkind) (h r : Z) : Prop :=
  exists x, wget m w = Some x /\ w_out x = O_PENDING /\ w_kind x = k /\ w_conn x = h /\ w_ref x = r.

Record Inv (m : mgr) : Prop := {
  nd_chs : NoDup (map fst (m_chs m));
  nd_le : NoDup (map fst (m_le m));
  nd_reqs : NoDup (map fst (m_reqs m));
  nd_pend : NoDup (map fst (m_pend m));
  chs_pt : forall h k u, tget h k (m_chs m) = Some u ->
           exists c, hget m u = Some c /\ c_conn c = h /\ c_scid c = k;
  le_pt : forall h k u, tget h k (m_le m) = Some u ->
          exists c, hget m u = Some c /\ c_conn c = h /\ c_dcid c = k /\ c_kind c = KLe /\
                    c_live c = true /\ le_open_st (c_st c) = true;
  ch_reg : forall u c, hget m u = Some c ->
           (tget (c_conn c) (c_scid c) (m_chs m) = Some u <-> in_use m u c = true);
  ch_le : forall u c, hget m u = Some c -> c_kind c = KLe -> c_live c = true ->
          le_open_st (c_st c) = true -> tget (c_conn c) (c_dcid c) (m_le m) = Some u;
  ch_cw : forall u c w, hget m u = Some c -> c_cw c = Some w ->
          c_live c = true /\ cw_st (c_kind c) (c_st c) = true /\ waiter_is m w WOpen (c_conn c) u;
  ch_dw : forall u c w, hget m u = Some c -> c_dw c = Some w ->
          c_live c = true /\ dw_st (c_kind c) (c_st c) = true /\ waiter_is m w WClose (c_conn c) u;
  ch_dr : forall u c, hget m u = Some c -> c_drained c = false ->
          c_kind c = KLe /\ c_live c = true /\ c_st c = SConnected;
  ch_dead : forall u c, hget m u = Some c -> c_live c = false ->
            le_open_st (c_st c) = false /\ cl_abortable_st (c_st c) = false;
  w_own : forall w x, wget m w = Some x -> w_out x = O_PENDING ->
          match w_kind x with
          | WOpen => exists c, hget m (w_ref x) = Some c /\ c_cw c = Some w
          | WClose => exists c, hget m (w_ref x) = Some c /\ c_dw c = Some w
          | WOpenEnh => exists us, tget (w_conn x) (w_ref x) (m_pend m) = Some (w, us)
          end;
  pend_ok : forall h id w us, tget h id (m_pend m) = Some (w, us) ->
            waiter_is m w WOpenEnh h id /\
            forall u, In u us ->
              exists c, hget m u = Some c /\ c_kind c = KLe /\ c_conn c = h /\ c_st c = SInit /\
                        c_ref c = id /\ c_live c = true /\ c_cw c = None /\ c_dw c = None;
  reqs_ok : forall h id k, tget h id (m_reqs m) = Some k ->
            exists u c, tget h k (m_chs m) = Some u /\ hget m u = Some c /\ c_kind c = KLe /\
                        c_st c = SConnecting /\ c_ref c = id
}.

Lemma hget_init lesrv clsrv u : hget (m_init lesrv clsrv) u = None.
Proof. unfold hget. cbn. destruct (u <? 0); [auto|]. now destruct (Z.to_nat u). Qed.
Lemma wget_init lesrv clsrv w : wget (m_init lesrv clsrv) w = None.
Proof. unfold wget. cbn. destruct (w <? 0); [auto|]. now destruct (Z.to_nat w). Qed.

Lemma inv_init lesrv clsrv : Inv (m_init lesrv clsrv).
Proof.
  constructor; try (cbn; apply NoDup_nil);
    intros *; rewrite ?hget_init, ?wget_init; cbn; discriminate.
Qed.

(* the invariant does not mention identifiers or servers *)
Lemma inv_ext m m' :
  (forall u, hget m' u = hget m u) -> (forall w, wget m' w = wget m w) ->
  m_chs m' = m_chs m -> m_le m' = m_le m -> m_reqs m' = m_reqs m -> m_pend m' = m_pend m ->
  Inv m -> Inv m'.
Proof.
  intros Hh Hw Hc Hl Hr Hp I.
  assert (Hiu : forall u c, in_use m' u c = in_use m u c) by (intros; unfold in_use; now rewrite Hp).
  assert (Hwi : forall w k h r, waiter_is m' w k h r <-> waiter_is m w k h r)
    by (intros; unfold waiter_is; now rewrite Hw).
  destruct I. constructor; rewrite ?Hc, ?Hl, ?Hr, ?Hp; try assumption.
  - intros h k u H. rewrite Hh. auto.
  - intros h k u H. rewrite Hh. auto.
  - intros u c H. rewrite Hh in H. rewrite Hiu. auto.
  - intros u c H. rewrite Hh in H. auto.
  - intros u c w H. rewrite Hh in H. rewrite Hwi. eauto.
  - intros u c w H. rewrite Hh in H. rewrite Hwi. eauto.
  - intros u c H. rewrite Hh in H. eauto.
  - intros u c H. rewrite Hh in H. eauto.
  - intros w x H Ho. rewrite Hw in H. specialize (w_own0 w x H Ho).
    destruct (w_kind x); try (destruct w_own0 as [c Hc']; exists c; now rewrite Hh). auto.
  - intros h id w us H. specialize (pend_ok0 h id w us H). destruct pend_ok0 as [A B].
    split; [now apply Hwi|]. intros u Hu. destruct (B u Hu) as [c Hc']. exists c. now rewrite Hh.
  - intros h id k H. destruct (reqs_ok0 h id k H) as [u [c Hc']]. exists u, c. now rewrite Hh.
Qed.

Lemma inv_next_id m h : Inv m -> Inv (next_id m h).
Proof. apply inv_ext; reflexivity. Qed.

(* ================================================================== a general frame lemma *)
(* m' is obtained from m by replacing the records of the channels on which chg is defined
   (new channels included) and changing tables / waiters accordingly; every premise is local
   to the changed channels. *)
Definition chan_facts (c : chan) : Prop :=
  (forall w, c_cw c = Some w -> c_live c = true /\ cw_st (c_kind c) (c_st c) = true) /\
  (forall w, c_dw c = Some w -> c_live c = true /\ dw_st (c_kind c) (c_st c) = true) /\
  (c_drained c = false -> c_kind c = KLe /\ c_live c = true /\ c_st c = SConnected) /\
  (c_live c = false -> le_open_st (c_st c) = false /\ cl_abortable_st (c_st c) = false).

Definition member_ok (c : chan) (h id : Z) : Prop :=
  c_kind c = KLe /\ c_conn c = h /\ c_st c = SInit /\ c_ref c = id /\ c_live c = true /\
  c_cw c = None /\ c_dw c = None.

Definition owner_ok (m : mgr) (w : Z) (x : waiter) : Prop :=
  match w_kind x with
  | WOpen => exists c, hget m (w_ref x) = Some c /\ c_cw c = Some w
  | WClose => exists c, hget m (w_ref x) = Some c /\ c_dw c = Some w
  | WOpenEnh => exists us, tget (w_conn x) (w_ref x) (m_pend m) = Some (w, us)
  end.

Section Frame.
  Variables (m m' : mgr) (chg : Z -> option chan).
  Hypothesis I : Inv m.
  (* heap *)
  Hypothesis Hheap : forall u, hget m' u = match chg u with Some c' => Some c' | None => hget m u end.
  Hypothesis Hfacts : forall u c', chg u = Some c' -> chan_facts c'.
  (* channels *)
  Hypothesis CH1 : NoDup (map fst (m_chs m')).
  Hypothesis CH2 : forall h k u, chg u = None -> (tget h k (m_chs m') = Some u <-> tget h k (m_chs m) = Some u).
  Hypothesis CH3 : forall h k u c', chg u = Some c' -> tget h k (m_chs m') = Some u -> h = c_conn c' /\ k = c_scid c'.
  Hypothesis CH4 : forall u c', chg u = Some c' ->
                   (tget (c_conn c') (c_scid c') (m_chs m') = Some u <-> in_use m' u c' = true).
  (* le_coc_channels *)
  Hypothesis LE1 : NoDup (map fst (m_le m')).
  Hypothesis LE2 : forall h k u, chg u = None -> (tget h k (m_le m') = Some u <-> tget h k (m_le m) = Some u).
  Hypothesis LE3 : forall h k u c', chg u = Some c' -> tget h k (m_le m') = Some u ->
                   h = c_conn c' /\ k = c_dcid c' /\ c_kind c' = KLe /\ c_live c' = true /\ le_open_st (c_st c') = true.
  Hypothesis LE4 : forall u c', chg u = Some c' -> c_kind c' = KLe -> c_live c' = true ->
                   le_open_st (c_st c') = true -> tget (c_conn c') (c_dcid c') (m_le m') = Some u.
  (* pending enhanced requests *)
  Hypothesis PE1 : NoDup (map fst (m_pend m')).
  Hypothesis PE2 : forall h id w us, tget h id (m_pend m') = Some (w, us) ->
                   (tget h id (m_pend m) = Some (w, us) /\ wget m' w = wget m w) \/
                   (waiter_is m' w WOpenEnh h id /\ forall u, In u us -> chg u <> None).
  Hypothesis PE3 : forall h id w us u c', tget h id (m_pend m') = Some (w, us) -> In u us ->
                   chg u = Some c' -> member_ok c' h id.
  Hypothesis PE4 : forall u c, chg u = None -> hget m u = Some c -> in_use m' u c = in_use m u c.
  (* le_coc_requests *)
  Hypothesis RQ1 : NoDup (map fst (m_reqs m')).
  Hypothesis RQ2 : forall h id k, tget h id (m_reqs m') = Some k ->
                   exists u c, tget h k (m_chs m') = Some u /\ hget m' u = Some c /\ c_kind c = KLe /\
                               c_st c = SConnecting /\ c_ref c = id.
  (* waiters *)
  Hypothesis W1 : forall w x, wget m w = Some x ->
                  wget m' w = Some x \/ exists x', wget m' w = Some x' /\ w_out x' <> O_PENDING.
  Hypothesis W2 : forall u c w, chg u = None -> hget m u = Some c ->
                  c_cw c = Some w \/ c_dw c = Some w -> wget m' w = wget m w.
  Hypothesis W4 : forall w x', wget m w = None -> wget m' w = Some x' -> w_out x' = O_PENDING -> owner_ok m' w x'.
  Hypothesis W5c : forall u c c' w x', chg u = Some c' -> hget m u = Some c -> c_cw c = Some w ->
                   wget m' w = Some x' -> w_out x' = O_PENDING -> c_cw c' = Some w.
  Hypothesis W5d : forall u c c' w x', chg u = Some c' -> hget m u = Some c -> c_dw c = Some w ->
                   wget m' w = Some x' -> w_out x' = O_PENDING -> c_dw c' = Some w.
  Hypothesis W5p : forall h id w us x', tget h id (m_pend m) = Some (w, us) ->
                   wget m' w = Some x' -> w_out x' = O_PENDING -> exists us', tget h id (m_pend m') = Some (w, us').
  Hypothesis W6c : forall u c' w, chg u = Some c' -> c_cw c' = Some w -> waiter_is m' w WOpen (c_conn c') u.
  Hypothesis W6d : forall u c' w, chg u = Some c' -> c_dw c' = Some w -> waiter_is m' w WClose (c_conn c') u.

  Lemma inv_frame : Inv m'.
  Proof.
    destruct I as [i1 i2 i3 i4 ichs ile ireg ilec icw idw idr idead iown ipend ireqs].
    constructor; auto.
    - (* chs_pt *) intros h k u H. rewrite Hheap. destruct (chg u) as [c'|] eqn:E.
      + exists c'. destruct (CH3 _ _ _ _ E H). subst. auto.
      + apply CH2 in H; [|auto]. auto.
    - (* le_pt *) intros h k u H. rewrite Hheap. destruct (chg u) as [c'|] eqn:E.
      + exists c'. destruct (LE3 _ _ _ _ E H) as (?&?&?&?&?). subst. repeat split; auto.
      + apply LE2 in H; [|auto]. auto.
    - (* ch_reg *) intros u c H. rewrite Hheap in H. destruct (chg u) as [c'|] eqn:E.
      + inversion H; subst. auto.
      + rewrite PE4 by auto. rewrite CH2 by auto. auto.
    - (* ch_le *) intros u c H Hk Hl Ho. rewrite Hheap in H. destruct (chg u) as [c'|] eqn:E.
      + inversion H; subst. eauto.
      + apply LE2; auto.
    - (* ch_cw *) intros u c w H Hc. rewrite Hheap in H. destruct (chg u) as [c'|] eqn:E.
      + inversion H; subst. destruct (Hfacts _ _ E) as (F1 & _ & _ & _). destruct (F1 _ Hc). eauto.
      + destruct (icw u c w H Hc) as (A & B & Wi). repeat split; auto.
        unfold waiter_is in *. rewrite (W2 u c w E H); auto.
    - (* ch_dw *) intros u c w H Hc. rewrite Hheap in H. destruct (chg u) as [c'|] eqn:E.
      + inversion H; subst. destruct (Hfacts _ _ E) as (_ & F1 & _ & _). destruct (F1 _ Hc). eauto.
      + destruct (idw u c w H Hc) as (A & B & Wi). repeat split; auto.
        unfold waiter_is in *. rewrite (W2 u c w E H); auto.
    - (* ch_dr *) intros u c H Hd. rewrite Hheap in H. destruct (chg u) as [c'|] eqn:E.
      + inversion H; subst. destruct (Hfacts _ _ E) as (_ & _ & F & _). auto.
      + eauto.
    - (* ch_dead *) intros u c H Hd. rewrite Hheap in H. destruct (chg u) as [c'|] eqn:E.
      + inversion H; subst. destruct (Hfacts _ _ E) as (_ & _ & _ & F). auto.
      + eauto.
    - (* w_own *) intros w x' H Ho. change (owner_ok m' w x').
      destruct (wget m w) as [x|] eqn:Ew; [|eauto].
      destruct (W1 w x Ew) as [Hs|[x'' [Hs Hn]]]; [|congruence].
      assert (x' = x) by congruence. subst x'.
      specialize (iown w x Ew Ho). unfold owner_ok.
      destruct (w_kind x).
      * destruct iown as [c [Hc Hcw]]. rewrite Hheap. destruct (chg (w_ref x)) as [c'|] eqn:E; eauto.
      * destruct iown as [us Hus]. eapply W5p; eauto.
      * destruct iown as [c [Hc Hcw]]. rewrite Hheap. destruct (chg (w_ref x)) as [c'|] eqn:E; eauto.
    - (* pend_ok *) intros h id w us H.
      assert (Hmem : forall u, In u us -> (exists c, hget m' u = Some c /\ member_ok c h id)).
      { intros u Hu. rewrite Hheap. destruct (chg u) as [c'|] eqn:E.
        - exists c'. split; auto. eapply PE3; eauto.
        - destruct (PE2 _ _ _ _ H) as [[Ho _]|[_ Hc]]; [|exfalso; eapply Hc; eauto].
          destruct (ipend _ _ _ _ Ho) as [_ B]. destruct (B u Hu) as [c Hc]. exists c. unfold member_ok. tauto. }
      split.
      + destruct (PE2 _ _ _ _ H) as [[Ho Hw]|[Hw _]]; auto.
        destruct (ipend _ _ _ _ Ho) as [A _]. unfold waiter_is in *. now rewrite Hw.
      + intros u Hu. destruct (Hmem u Hu) as [c [Hc M]]. exists c. unfold member_ok in M. tauto.
  Qed.
End Frame.
(* ------------------------------------------------------------------ one channel changes *)
Definition chg1 (u : Z) (c' : chan) : Z -> option chan := fun u' => if Z.eqb u' u then Some c' else None.

Lemma chg1_some u c' u0 c0 : chg1 u c' u0 = Some c0 -> u0 = u /\ c0 = c'.
Proof. unfold chg1. destruct (Z.eqb_spec u0 u); [intros [= <-]; auto|discriminate]. Qed.
Lemma chg1_none u c' u0 : chg1 u c' u0 = None -> u0 <> u.
Proof. unfold chg1. destruct (Z.eqb_spec u0 u); [discriminate|auto]. Qed.

Section Frame1.
  Variables (m m' : mgr) (u : Z) (c' : chan).
  Hypothesis I : Inv m.
  Hypothesis Hheap : forall u', hget m' u' = if Z.eqb u' u then Some c' else hget m u'.
  Hypothesis Hfacts : chan_facts c'.
  Hypothesis CH1 : NoDup (map fst (m_chs m')).
  Hypothesis CH2 : forall h k u', u' <> u -> (tget h k (m_chs m') = Some u' <-> tget h k (m_chs m) = Some u').
  Hypothesis CH3 : forall h k, tget h k (m_chs m') = Some u -> h = c_conn c' /\ k = c_scid c'.
  Hypothesis CH4 : tget (c_conn c') (c_scid c') (m_chs m') = Some u <-> in_use m' u c' = true.
  Hypothesis LE1 : NoDup (map fst (m_le m')).
  Hypothesis LE2 : forall h k u', u' <> u -> (tget h k (m_le m') = Some u' <-> tget h k (m_le m) = Some u').
  Hypothesis LE3 : forall h k, tget h k (m_le m') = Some u ->
                   h = c_conn c' /\ k = c_dcid c' /\ c_kind c' = KLe /\ c_live c' = true /\ le_open_st (c_st c') = true.
  Hypothesis LE4 : c_kind c' = KLe -> c_live c' = true -> le_open_st (c_st c') = true ->
                   tget (c_conn c') (c_dcid c') (m_le m') = Some u.
  Hypothesis PE : m_pend m' = m_pend m.
  Hypothesis PE3 : forall h id w us, tget h id (m_pend m) = Some (w, us) -> In u us -> member_ok c' h id.
  Hypothesis RQ1 : NoDup (map fst (m_reqs m')).
  Hypothesis RQ2 : forall h id k, tget h id (m_reqs m') = Some k ->
                   exists u0 c, tget h k (m_chs m') = Some u0 /\ hget m' u0 = Some c /\ c_kind c = KLe /\
                               c_st c = SConnecting /\ c_ref c = id.
  Hypothesis W1 : forall w x, wget m w = Some x ->
                  wget m' w = Some x \/ exists x', wget m' w = Some x' /\ w_out x' <> O_PENDING.
  (* only the waiters of the changed channel (and new ones) are touched *)
  Hypothesis W2 : forall w x, wget m w = Some x -> w_ref x <> u \/ w_kind x = WOpenEnh -> wget m' w = Some x.
  Hypothesis W4 : forall w x', wget m w = None -> wget m' w = Some x' -> w_out x' = O_PENDING -> owner_ok m' w x'.
  Hypothesis W5c : forall c w x', hget m u = Some c -> c_cw c = Some w ->
                   wget m' w = Some x' -> w_out x' = O_PENDING -> c_cw c' = Some w.
  Hypothesis W5d : forall c w x', hget m u = Some c -> c_dw c = Some w ->
                   wget m' w = Some x' -> w_out x' = O_PENDING -> c_dw c' = Some w.
  Hypothesis W6c : forall w, c_cw c' = Some w -> waiter_is m' w WOpen (c_conn c') u.
  Hypothesis W6d : forall w, c_dw c' = Some w -> waiter_is m' w WClose (c_conn c') u.

  Lemma inv_frame1 : Inv m'.
  Proof.
    apply (inv_frame m m' (chg1 u c') I).
    - (* heap *) intros u0. rewrite Hheap. unfold chg1. destruct (Z.eqb u0 u); auto.
    - (* facts *) intros u0 c0 E. apply chg1_some in E. destruct E; subst. auto.
    - exact CH1.
    - intros h k u0 E. apply chg1_none in E. auto.
    - intros h k u0 c0 E. apply chg1_some in E. destruct E; subst. auto.
    - intros u0 c0 E. apply chg1_some in E. destruct E; subst. auto.
    - exact LE1.
    - intros h k u0 E. apply chg1_none in E. auto.
    - intros h k u0 c0 E. apply chg1_some in E. destruct E; subst. auto.
    - intros u0 c0 E. apply chg1_some in E. destruct E; subst. auto.
    - (* PE1 *) rewrite PE. apply I.
    - (* PE2 *) intros h id w us H. rewrite PE in H. left. split; auto.
      destruct (pend_ok m I _ _ _ _ H) as [[x (Hx & _ & Hk & _)] _].
      rewrite Hx. apply W2; auto.
    - (* PE3 *) intros h id w us u0 c0 H Hu E. apply chg1_some in E. destruct E; subst. rewrite PE in H. eauto.
    - (* PE4 *) intros u0 c E Hc. unfold in_use. now rewrite PE.
    - exact RQ1.
    - exact RQ2.
    - exact W1.
    - (* W2 *) intros u0 c w E Hc Hw. apply chg1_none in E.
      destruct Hw as [Hw|Hw].
      + destruct (ch_cw m I _ _ _ Hc Hw) as (_ & _ & [x (Hx & _ & _ & _ & Hr)]).
        rewrite Hx. apply W2; auto. left. congruence.
      + destruct (ch_dw m I _ _ _ Hc Hw) as (_ & _ & [x (Hx & _ & _ & _ & Hr)]).
        rewrite Hx. apply W2; auto. left. congruence.
    - exact W4.
    - intros u0 c c0 w x' E. apply chg1_some in E. destruct E; subst. eauto.
    - intros u0 c c0 w x' E. apply chg1_some in E. destruct E; subst. eauto.
    - (* W5p *) intros h id w us x' H Hw Ho. rewrite PE. eauto.
    - intros u0 c0 w E. apply chg1_some in E. destruct E; subst. auto.
    - intros u0 c0 w E. apply chg1_some in E. destruct E; subst. auto.
  Qed.
End Frame1.

(* ================================================================== one existing channel makes a step *)
Ltac zeq :=
  repeat match goal with
         | |- context [Z.eqb ?a ?b] => destruct (Z.eqb_spec a b); subst; cbn [andb orb negb option_map] in *
         | H : context [Z.eqb ?a ?b] |- _ => destruct (Z.eqb_spec a b); subst; cbn [andb orb negb option_map] in *
         end.

(* relations between a table and its update, seen from the other values *)
Lemma rel_tdel (t : table Z) h0 k0 u :
  tget h0 k0 t = Some u ->
  forall h k u', u' <> u -> (tget h k (tdel h0 k0 t) = Some u' <-> tget h k t = Some u').
Proof.
  intros H h k u' Hn. rewrite tget_tdel. destruct (Z.eqb_spec h h0), (Z.eqb_spec k k0); subst; cbn; try tauto.
  rewrite H. split; congruence.
Qed.

Lemma rel_tset (t : table Z) h0 k0 u :
  (tget h0 k0 t = None \/ tget h0 k0 t = Some u) ->
  forall h k u', u' <> u -> (tget h k (tset h0 k0 u t) = Some u' <-> tget h k t = Some u').
Proof.
  intros H h k u' Hn. rewrite tget_tset, tget_tdel.
  destruct (Z.eqb_spec h h0), (Z.eqb_spec k k0); subst; cbn; try tauto.
  destruct H as [H|H]; rewrite H; split; congruence.
Qed.

Definition le_reg (c : chan) : bool :=
  match c_kind c with KLe => c_live c && le_open_st (c_st c) | KCl => false end.

Lemma le_reg_iff c : le_reg c = true <-> c_kind c = KLe /\ c_live c = true /\ le_open_st (c_st c) = true.
Proof.
  unfold le_reg. destruct (c_kind c).
  - rewrite andb_true_iff. tauto.
  - split; [discriminate|]. intros (H & _). discriminate.
Qed.

Lemma in_use_pend m m' u c : m_pend m' = m_pend m -> in_use m' u c = in_use m u c.
Proof. unfold in_use. now intros ->. Qed.

(* from the invariant: where a channel is filed *)
Lemma chs_self m u c h k : Inv m -> hget m u = Some c -> tget h k (m_chs m) = Some u -> h = c_conn c /\ k = c_scid c.
Proof. intros I Hu H. destruct (chs_pt m I _ _ _ H) as [c0 (H0 & <- & <-)]. rewrite Hu in H0. now inversion H0. Qed.
Lemma le_self m u c h k : Inv m -> hget m u = Some c -> tget h k (m_le m) = Some u ->
  h = c_conn c /\ k = c_dcid c /\ le_reg c = true.
Proof.
  intros I Hu H. destruct (le_pt m I _ _ _ H) as [c0 (H0 & <- & <- & A & B & C)]. rewrite Hu in H0. inversion H0; subst.
  repeat split; auto. apply le_reg_iff; auto.
Qed.
Lemma le_reg_tget m u c : Inv m -> hget m u = Some c ->
  (tget (c_conn c) (c_dcid c) (m_le m) = Some u <-> le_reg c = true).
Proof.
  intros I Hu. split.
  - intros H. eapply le_self; eauto.
  - intros H. apply le_reg_iff in H. destruct H as (A & B & C). eapply ch_le; eauto.
Qed.

Section ChanStep.
  Variables (m m' : mgr) (u : Z) (c c' : chan) (o1 o2 : Z) (keepreq : bool).
  Hypothesis I : Inv m.
  Hypothesis Hu : hget m u = Some c.
  Hypothesis Hheap : forall u', hget m' u' = if Z.eqb u' u then Some c' else hget m u'.
  Hypothesis Hk : c_kind c' = c_kind c.
  Hypothesis Hconn : c_conn c' = c_conn c.
  Hypothesis Hscid : c_scid c' = c_scid c.
  Hypothesis Hlive : c_live c' = c_live c.
  Hypothesis Hfacts : chan_facts c'.
  Hypothesis Hreg : in_use m u c' = true -> in_use m u c = true.
  Hypothesis Hchs : m_chs m' = if in_use m u c' then m_chs m
                               else if in_use m u c then tdel (c_conn c) (c_scid c) (m_chs m) else m_chs m.
  Hypothesis Hle : m_le m' = match le_reg c, le_reg c' with
                             | true, false => tdel (c_conn c) (c_dcid c) (m_le m)
                             | false, true => tset (c_conn c) (c_dcid c') u (m_le m)
                             | _, _ => m_le m end.
  Hypothesis Hdc : le_reg c = true -> le_reg c' = true -> c_dcid c' = c_dcid c.
  Hypothesis Hfresh : le_reg c = false -> le_reg c' = true -> tget (c_conn c) (c_dcid c') (m_le m) = None.
  Hypothesis Hpend : m_pend m' = m_pend m.
  Hypothesis Hinit : c_st c = SInit -> c_st c' = SInit /\ c_ref c' = c_ref c /\ c_live c' = c_live c /\
                                       c_cw c' = None /\ c_dw c' = None.
  Hypothesis Hreqs : m_reqs m' = if keepreq then m_reqs m else tdel (c_conn c) (c_ref c) (m_reqs m).
  Hypothesis Hkeep : keepreq = true -> c_kind c = KLe -> c_st c = SConnecting ->
                     c_st c' = SConnecting /\ c_ref c' = c_ref c /\ c_cw c' = c_cw c.
  Hypothesis Hw : forall w, wget m' w =
                    if is_uid (c_cw c) w && negb (is_uid (c_cw c') w) then option_map (wres1 o1) (wget m w)
                    else if is_uid (c_dw c) w && negb (is_uid (c_dw c') w) then option_map (wres1 o2) (wget m w)
                    else wget m w.
  Hypothesis Ho1 : o1 <> O_PENDING.
  Hypothesis Ho2 : o2 <> O_PENDING.
  Hypothesis Hcw : c_cw c' = None \/ c_cw c' = c_cw c.
  Hypothesis Hdw : c_dw c' = None \/ c_dw c' = c_dw c.

  Lemma wres1_done o x : o <> O_PENDING -> w_out x = O_PENDING -> w_out (wres1 o x) <> O_PENDING.
  Proof. intros Ho Hx. unfold wres1. rewrite Hx. cbn. auto. Qed.

  Lemma wres1_pending o x : w_out (wres1 o x) = O_PENDING -> o <> O_PENDING -> False.
  Proof. unfold wres1. destruct (Z.eqb_spec (w_out x) O_PENDING); cbn; congruence. Qed.

  Lemma inv_chan_step : Inv m'.
  Proof.
    assert (Hiu : forall u0 c0, in_use m' u0 c0 = in_use m u0 c0) by (intros; now apply in_use_pend).
    pose proof (ch_reg m I u c Hu) as Hregc.
    pose proof (le_reg_tget m u c I Hu) as Hlec.
    assert (CH2 : forall h k u', u' <> u -> (tget h k (m_chs m') = Some u' <-> tget h k (m_chs m) = Some u')).
    { intros h k u' Hn. rewrite Hchs. destruct (in_use m u c'); [tauto|].
      destruct (in_use m u c) eqn:E; [|tauto]. apply (rel_tdel _ _ _ u); auto. now apply Hregc. }
    assert (Wcw : forall w, c_cw c = Some w -> waiter_is m w WOpen (c_conn c) u) by (intros; eapply ch_cw; eauto).
    assert (Wdw : forall w, c_dw c = Some w -> waiter_is m w WClose (c_conn c) u) by (intros; eapply ch_dw; eauto).
    apply (inv_frame1 m m' u c' I); auto.
    - (* CH1 *) rewrite Hchs. destruct (in_use m u c'); [apply (nd_chs m I)|]. destruct (in_use m u c); [apply NoDup_tdel|]; apply (nd_chs m I).
    - (* CH3 *) intros h k. rewrite Hchs, Hconn, Hscid. destruct (in_use m u c').
      + intros H. eapply chs_self; eauto.
      + destruct (in_use m u c) eqn:E; [|intros H; eapply chs_self; eauto].
        rewrite tget_tdel. intros H. destruct (Z.eqb h (c_conn c) && Z.eqb k (c_scid c)); [discriminate|].
        eapply chs_self; eauto.
    - (* CH4 *) rewrite Hiu, Hchs, Hconn, Hscid. destruct (in_use m u c') eqn:E.
      + rewrite Hregc. tauto.
      + destruct (in_use m u c) eqn:E2.
        * rewrite tget_tdel, !Z.eqb_refl. cbn. split; discriminate.
        * rewrite Hregc. tauto.
    - (* LE1 *) rewrite Hle. destruct (le_reg c), (le_reg c'); try apply (nd_le m I); [apply NoDup_tdel|apply NoDup_tset]; apply (nd_le m I).
    - (* LE2 *) intros h k u' Hn. rewrite Hle. destruct (le_reg c) eqn:E1, (le_reg c') eqn:E2; try tauto.
      + apply (rel_tdel _ _ _ u); auto. now apply Hlec.
      + apply (rel_tset _ _ _ u); auto.
    - (* LE3 *) intros h k. rewrite Hle, Hconn. destruct (le_reg c) eqn:E1, (le_reg c') eqn:E2.
      + intros H. destruct (le_self m u c h k I Hu H) as (A & B & _). apply le_reg_iff in E2. rewrite Hdc by auto. tauto.
      + rewrite tget_tdel. intros H. destruct (Z.eqb h (c_conn c) && Z.eqb k (c_dcid c)) eqn:E; [discriminate|].
        destruct (le_self m u c h k I Hu H) as (A & B & _). subst. rewrite !Z.eqb_refl in E. discriminate.
      + rewrite tget_tset. apply le_reg_iff in E2.
        destruct (Z.eqb_spec h (c_conn c)), (Z.eqb_spec k (c_dcid c')); subst; cbn; try tauto;
          rewrite tget_tdel; intros H;
          match type of H with (if ?b then _ else _) = _ => destruct b; [discriminate|] end;
          destruct (le_self m u c _ _ I Hu H) as (_ & _ & F); congruence.
      + intros H. destruct (le_self m u c h k I Hu H) as (_ & _ & F). congruence.
    - (* LE4 *) intros A B C. assert (E2 : le_reg c' = true) by (apply le_reg_iff; auto).
      rewrite Hle, Hconn, E2. destruct (le_reg c) eqn:E1.
      + rewrite Hdc by auto. now apply Hlec.
      + rewrite tget_tset, !Z.eqb_refl. reflexivity.
    - (* PE3 *) intros h id w us H Hin. destruct (pend_ok m I _ _ _ _ H) as [_ B].
      destruct (B u Hin) as [c0 (H0 & M)]. rewrite Hu in H0. inversion H0; subst c0.
      destruct M as (M1 & M2 & M3 & M4 & M5 & M6 & M7). destruct (Hinit M3) as (N1 & N2 & N3 & N4 & N5).
      unfold member_ok. rewrite Hk, Hconn, N1, N2, N3. tauto.
    - (* RQ1 *) rewrite Hreqs. destruct keepreq; [|apply NoDup_tdel]; apply (nd_reqs m I).
    - (* RQ2 *) intros h id k H.
      assert (Ho : tget h id (m_reqs m) = Some k).
      { rewrite Hreqs in H. destruct keepreq; auto. rewrite tget_tdel in H.
        destruct (Z.eqb h (c_conn c) && Z.eqb id (c_ref c)); [discriminate|auto]. }
      destruct (reqs_ok m I _ _ _ Ho) as [u0 [c0 (R1 & R2 & R3 & R4 & R5)]].
      destruct (Z.eqb_spec u0 u) as [->|Hn].
      + rewrite Hu in R2. inversion R2; subst c0. destruct (chs_self m u c h k I Hu R1) as [-> ->].
        destruct keepreq eqn:Ek.
        * destruct (Hkeep eq_refl R3 R4) as (S1 & S2 & S3). exists u, c'. rewrite Hheap, Z.eqb_refl.
          assert (Hin : in_use m u c = true) by (apply Hregc; auto).
          assert (Hin' : in_use m u c' = true).
          { unfold in_use in *. rewrite S1, S3, Hlive. now rewrite R4 in Hin. }
          rewrite Hchs, Hin'. repeat split; auto; congruence.
        * rewrite Hreqs, tget_tdel in H. subst id. rewrite !Z.eqb_refl in H. discriminate.
      + exists u0, c0. rewrite Hheap. destruct (Z.eqb_spec u0 u); [congruence|]. repeat split; auto.
        now apply CH2.
    - (* W1 *) intros w x Hx. rewrite Hw, Hx. cbn.
      destruct (Z.eqb_spec (w_out x) O_PENDING) as [Hp|Hp].
      + destruct (is_uid (c_cw c) w && negb (is_uid (c_cw c') w)); [right; eexists; split; eauto using wres1_done|].
        destruct (is_uid (c_dw c) w && negb (is_uid (c_dw c') w)); [right; eexists; split; eauto using wres1_done|auto].
      + assert (forall o, wres1 o x = x) by (intros; unfold wres1; destruct (Z.eqb_spec (w_out x) O_PENDING); congruence).
        rewrite !H. repeat destruct (_ && _); auto.
    - (* W2 *) intros w x Hx Hr. rewrite Hw.
      destruct (is_uid (c_cw c) w) eqn:E1.
      { apply is_uid_iff in E1. destruct (Wcw w E1) as [x0 (A & _ & B & _ & D)].
        rewrite Hx in A. inversion A; subst. destruct Hr; congruence. }
      destruct (is_uid (c_dw c) w) eqn:E2.
      { apply is_uid_iff in E2. destruct (Wdw w E2) as [x0 (A & _ & B & _ & D)].
        rewrite Hx in A. inversion A; subst. destruct Hr; congruence. }
      cbn. auto.
    - (* W4 *) intros w x' Hn. rewrite Hw, Hn. cbn. repeat destruct (_ && _); discriminate.
    - (* W5c *) intros c0 w x' H0 Hc Hx Hp. rewrite Hu in H0. inversion H0; subst c0.
      destruct Hcw as [Hn|Hn]; [|congruence]. exfalso.
      rewrite Hw, Hc, Hn in Hx. cbn in Hx. rewrite Z.eqb_refl in Hx. cbn in Hx.
      destruct (wget m w); [|discriminate]. inversion Hx; subst. eapply wres1_pending; eauto.
    - (* W5d *) intros c0 w x' H0 Hc Hx Hp. rewrite Hu in H0. inversion H0; subst c0.
      destruct Hdw as [Hn|Hn]; [|congruence]. exfalso.
      rewrite Hw in Hx. rewrite Hc, Hn in Hx. cbn in Hx. rewrite Z.eqb_refl in Hx. cbn in Hx.
      destruct (is_uid (c_cw c) w && negb (is_uid (c_cw c') w));
        (destruct (wget m w); [|discriminate]); inversion Hx; subst; eapply wres1_pending; eauto.
    - (* W6c *) intros w Hc. destruct Hcw as [Hn|Hn]; [congruence|]. rewrite Hn in Hc.
      destruct (Wcw w Hc) as [x (A & B & C & D & E)]. exists x. rewrite Hconn. repeat split; auto.
      rewrite Hw, Hn, Hc. cbn. rewrite Z.eqb_refl. cbn.
      destruct (is_uid (c_dw c) w) eqn:E2; [|auto].
      apply is_uid_iff in E2. destruct (Wdw w E2) as [x0 (A' & _ & B' & _)]. rewrite A in A'. inversion A'; subst. congruence.
    - (* W6d *) intros w Hc. destruct Hdw as [Hn|Hn]; [congruence|]. rewrite Hn in Hc.
      destruct (Wdw w Hc) as [x (A & B & C & D & E)]. exists x. rewrite Hconn. repeat split; auto.
      rewrite Hw, Hn, Hc. cbn. rewrite Z.eqb_refl. cbn.
      destruct (is_uid (c_cw c) w) eqn:E2; [|cbn; auto].
      apply is_uid_iff in E2. destruct (Wcw w E2) as [x0 (A' & _ & B' & _)]. rewrite A in A'. inversion A'; subst. congruence.
  Qed.
End ChanStep.
(* facts about one channel drawn from the invariant *)
Lemma inv_chan_facts m u c : Inv m -> hget m u = Some c -> chan_facts c.
Proof.
  intros I Hu. repeat split.
  - eapply ch_cw; eauto.
  - eapply ch_cw; eauto.
  - eapply ch_dw; eauto.
  - eapply ch_dw; eauto.
  - eapply ch_dr; eauto.
  - eapply ch_dr; eauto.
  - eapply ch_dr; eauto.
  - eapply ch_dead; eauto.
  - eapply ch_dead; eauto.
Qed.

Lemma live_of_open m u c : Inv m -> hget m u = Some c ->
  le_open_st (c_st c) = true \/ cl_abortable_st (c_st c) = true -> c_live c = true.
Proof.
  intros I Hu H. destruct (c_live c) eqn:E; auto.
  destruct (ch_dead m I u c Hu E) as [A B]. destruct H; congruence.
Qed.

Lemma init_no_waiters c : chan_facts c -> c_st c = SInit -> c_cw c = None /\ c_dw c = None.
Proof.
  intros (F1 & F2 & _) E. split.
  - destruct (c_cw c) as [w|] eqn:Ec; auto. destruct (F1 w eq_refl) as [_ H]. rewrite E in H. destruct (c_kind c); discriminate.
  - destruct (c_dw c) as [w|] eqn:Ec; auto. destruct (F2 w eq_refl) as [_ H]. rewrite E in H. destruct (c_kind c); discriminate.
Qed.

Ltac t_heap Hu :=
  let u' := fresh "u'" in
  intros u'; autorewrite with acc;
  match goal with |- context [Z.eqb u' ?x] => destruct (Z.eqb_spec u' x) end;
  subst; rewrite ?Hu; cbn; try reflexivity.

Ltac t_wsame := let w := fresh "w" in intros w; autorewrite with acc; cbn; rewrite ?andb_negb_r; try reflexivity.

(* ---------------------------------------------------------------- write / credits *)
Lemma inv_out m u c cr pe d :
  Inv m -> hget m u = Some c ->
  (d = false -> c_kind c = KLe /\ c_st c = SConnected) ->
  Inv (hupd m u (fun _ => set_out c cr pe d)).
Proof.
  intros I Hu Hd. pose proof (inv_chan_facts m u c I Hu) as (F1 & F2 & F3 & F4).
  refine (inv_chan_step m _ u c (set_out c cr pe d) O_ERROR O_ERROR true I Hu _ _ _ _ _ _ _ _ _ _ _ _ _ _ _ _ _ _ _ _).
  - t_heap Hu.
  - reflexivity.
  - reflexivity.
  - reflexivity.
  - reflexivity.
  - unfold chan_facts; cbn. split; [exact F1|split; [exact F2|split; [|exact F4]]].
    intros ->. destruct Hd as [A B]; auto. repeat split; auto. eapply live_of_open; eauto. left. now rewrite B.
  - auto.
  - autorewrite with acc. change (in_use m u (set_out c cr pe d)) with (in_use m u c). destruct (in_use m u c); auto.
  - autorewrite with acc. change (le_reg (set_out c cr pe d)) with (le_reg c). destruct (le_reg c); auto.
  - auto.
  - change (le_reg (set_out c cr pe d)) with (le_reg c). congruence.
  - autorewrite with acc. reflexivity.
  - cbn. intros E. destruct (init_no_waiters c (inv_chan_facts m u c I Hu) E). auto.
  - autorewrite with acc. reflexivity.
  - cbn. auto.
  - t_wsame.
  - discriminate.
  - discriminate.
  - auto.
  - auto.
Qed.

Lemma bool_iff (a b : bool) : (a = true <-> b = true) -> a = b.
Proof. destruct a, b; intros [H1 H2]; auto. - symmetry. auto. Qed.

Lemma is_uid_chs m u c : Inv m -> hget m u = Some c ->
  is_uid (tget (c_conn c) (c_scid c) (m_chs m)) u = in_use m u c.
Proof. intros I Hu. apply bool_iff. rewrite is_uid_iff. now apply ch_reg. Qed.

Lemma is_uid_le m u c : Inv m -> hget m u = Some c ->
  is_uid (tget (c_conn c) (c_dcid c) (m_le m)) u = le_reg c.
Proof. intros I Hu. apply bool_iff. rewrite is_uid_iff. now apply le_reg_tget. Qed.

Lemma no_cw_unless c : chan_facts c -> cw_st (c_kind c) (c_st c) = false -> c_cw c = None.
Proof. intros (F1 & _) H. destruct (c_cw c) as [w|] eqn:E; auto. destruct (F1 w eq_refl). congruence. Qed.
Lemma no_dw_unless c : chan_facts c -> dw_st (c_kind c) (c_st c) = false -> c_dw c = None.
Proof. intros (_ & F2 & _) H. destruct (c_dw c) as [w|] eqn:E; auto. destruct (F2 w eq_refl). congruence. Qed.

(* the waiter part of a step that resolves the channel's disconnection_result *)
Lemma wget_res_dw m c c' o w :
  c_cw c' = c_cw c -> c_dw c' = None ->
  match c_dw c with
  | Some x => if Z.eqb w x then option_map (wres1 o) (wget m w) else wget m w
  | None => wget m w end =
  if is_uid (c_cw c) w && negb (is_uid (c_cw c') w) then option_map (wres1 O_ERROR) (wget m w)
  else if is_uid (c_dw c) w && negb (is_uid (c_dw c') w) then option_map (wres1 o) (wget m w)
  else wget m w.
Proof.
  intros -> ->. rewrite andb_negb_r. cbn. destruct (c_dw c); cbn; auto. rewrite andb_true_r, Z.eqb_sym. reflexivity.
Qed.

(* ---------------------------------------------------------------- LE channel closed by the peer / by a response *)
Lemma inv_le_closed m u c (fl : bool) :
  Inv m -> hget m u = Some c -> c_kind c = KLe ->
  tget (c_conn c) (c_scid c) (m_chs m) = Some u ->
  c_st c <> SInit -> c_st c <> SConnecting -> (fl = false -> c_st c <> SConnected) ->
  Inv (hupd (wres_opt (on_channel_closed (hupd m u (fun c => set_st c SDisconnected)) u c) (c_dw c) O_RESULT)
            u (fun c => if fl then flush_output (set_dw c None) else set_dw c None)).
Proof.
  intros I Hu Ek Hreg Hs1 Hs2 Hs3.
  pose proof (inv_chan_facts m u c I Hu) as F. pose proof F as (F1 & F2 & F3 & F4).
  assert (Hin : in_use m u c = true) by (apply (ch_reg m I u c Hu); auto).
  assert (Hcw : c_cw c = None).
  { apply no_cw_unless; auto. rewrite Ek. destruct (c_st c); auto; congruence. }
  set (c' := if fl then flush_output (set_dw (set_st c SDisconnected) None) else set_dw (set_st c SDisconnected) None).
  assert (Ec' : c_kind c' = c_kind c /\ c_conn c' = c_conn c /\ c_scid c' = c_scid c /\ c_live c' = c_live c /\
                c_st c' = SDisconnected /\ c_cw c' = c_cw c /\ c_dw c' = None /\ c_dcid c' = c_dcid c /\
                c_ref c' = c_ref c /\ (c_drained c' = false -> fl = false /\ c_drained c = false))
    by (subst c'; destruct fl; cbn; repeat split; auto; discriminate).
  destruct Ec' as (E1 & E2 & E3 & E4 & E5 & E6 & E7 & E8 & E9 & E10).
  assert (Hin' : in_use m u c' = false) by (unfold in_use; rewrite E5; cbn; apply andb_false_r).
  assert (Hle' : le_reg c' = false) by (unfold le_reg; rewrite E1, Ek, E5; cbn; apply andb_false_r).
  refine (inv_chan_step m _ u c c' O_ERROR O_RESULT true I Hu _ _ _ _ _ _ _ _ _ _ _ _ _ _ _ _ _ _ _ _).
  - t_heap Hu.
  - exact E1.
  - exact E2.
  - exact E3.
  - exact E4.
  - unfold chan_facts. rewrite E6, E7, E5, Hcw.
    split; [discriminate|split; [discriminate|split; [|cbn; auto]]].
    intros Hd; destruct (E10 Hd) as [Hf Hd']; destruct (F3 Hd') as (_ & _ & Hc); exfalso; now apply Hs3.
  - congruence.
  - autorewrite with acc. rewrite (is_uid_chs m u c I Hu), Hin, Hin'. reflexivity.
  - autorewrite with acc. rewrite (is_uid_le m u c I Hu), Hle'. destruct (le_reg c); reflexivity.
  - congruence.
  - congruence.
  - autorewrite with acc. reflexivity.
  - intros; congruence.
  - autorewrite with acc. reflexivity.
  - intros; congruence.
  - intros w. autorewrite with acc. apply wget_res_dw; auto.
  - discriminate.
  - discriminate.
  - auto.
  - auto.
Qed.
Lemma in_use_live m u c : in_use m u c = true -> c_live c = true.
Proof. unfold in_use. now intros [H _]%andb_true_iff. Qed.

(* transfer along equal accessors *)
Lemma inv_hupd_fun m u c f : hget m u = Some c -> Inv (hupd m u (fun _ => f c)) -> Inv (hupd m u f).
Proof.
  intros Hu. apply inv_ext; try (autorewrite with acc; reflexivity).
  - intros u'. autorewrite with acc. destruct (Z.eqb_spec u' u); subst; rewrite ?Hu; reflexivity.
  - intros w. now autorewrite with acc.
Qed.

(* a waiter that is already completed can always be added *)
Lemma inv_wnew_done m o k h r : o <> O_PENDING -> Inv m -> Inv (wnew m o k h r).
Proof.
  intros Ho I.
  assert (Hold : forall w x, wget m w = Some x -> wget (wnew m o k h r) w = Some x).
  { intros w x Hx. rewrite wget_wnew. destruct (Z.eqb_spec w (wuid m)); auto.
    apply wget_bound in Hx. unfold wuid in *. lia. }
  assert (Hwi : forall w k' h' r', waiter_is m w k' h' r' -> waiter_is (wnew m o k h r) w k' h' r').
  { intros w k' h' r' [x (A & B)]. exists x. split; auto. }
  destruct I as [i1 i2 i3 i4 ichs ile ireg ilec icw idw idr idead iown ipend ireqs]. constructor; try assumption.
  - intros u c w Hu Hc. destruct (icw u c w Hu Hc) as (A & B & C). auto.
  - intros u c w Hu Hc. destruct (idw u c w Hu Hc) as (A & B & C). auto.
  - intros w x Hx Hp. rewrite wget_wnew in Hx. destruct (Z.eqb_spec w (wuid m)).
    + inversion Hx; subst x. cbn in Hp. congruence.
    + apply (iown w x Hx Hp).
  - intros h' id w us Hp. destruct (ipend h' id w us Hp) as [A B]. split; auto.
Qed.

(* dropping a pending request entry *)
Lemma inv_reqs_del m h id : Inv m -> Inv (with_reqs m (tdel h id (m_reqs m))).
Proof.
  intros I. destruct I as [i1 i2 i3 i4 ichs ile ireg ilec icw idw idr idead iown ipend ireqs]. constructor; try assumption; cbn.
  - now apply NoDup_tdel.
  - intros h' id' k H. rewrite tget_tdel in H. destruct (Z.eqb h' h && Z.eqb id' id); [discriminate|].
    apply (ireqs h' id' k H).
Qed.

(* ------------------------------------------------------------------ same registration *)
Lemma inv_upd_same m u c c' :
  Inv m -> hget m u = Some c ->
  c_kind c' = c_kind c -> c_conn c' = c_conn c -> c_scid c' = c_scid c -> c_live c' = c_live c ->
  c_cw c' = c_cw c -> c_dw c' = c_dw c -> c_ref c' = c_ref c ->
  (le_reg c = true -> c_dcid c' = c_dcid c) ->
  in_use m u c' = in_use m u c -> le_reg c' = le_reg c ->
  chan_facts c' ->
  (c_st c = SInit -> c_st c' = SInit) ->
  (c_kind c = KLe -> c_st c = SConnecting -> c_st c' = SConnecting) ->
  Inv (hupd m u (fun _ => c')).
Proof.
  intros I Hu E1 E2 E3 E4 E5 E6 E7 E8 Hin Hle Hf Hi Hc.
  refine (inv_chan_step m _ u c c' O_ERROR O_ERROR true I Hu _ _ _ _ _ _ _ _ _ _ _ _ _ _ _ _ _ _ _ _).
  - t_heap Hu.
  - exact E1.
  - exact E2.
  - exact E3.
  - exact E4.
  - exact Hf.
  - congruence.
  - autorewrite with acc. rewrite Hin. destruct (in_use m u c); reflexivity.
  - autorewrite with acc. rewrite Hle. destruct (le_reg c); reflexivity.
  - auto.
  - congruence.
  - autorewrite with acc. reflexivity.
  - intros E. destruct (init_no_waiters c (inv_chan_facts m u c I Hu) E). repeat split; auto; congruence.
  - autorewrite with acc. reflexivity.
  - intros _ A B. auto.
  - intros w. autorewrite with acc. rewrite E5, E6, !andb_negb_r. reflexivity.
  - discriminate.
  - discriminate.
  - auto.
  - auto.
Qed.
Definition dead_st (s : cst) : bool :=
  match s with SDisconnected | SConnError | SClosed | SOrphan => true | _ => false end.

Lemma wres1_twice o1 o2 x : o1 <> O_PENDING -> wres1 o2 (wres1 o1 x) = wres1 o1 x.
Proof.
  intros H. unfold wres1. destruct (Z.eqb_spec (w_out x) O_PENDING) as [E|E]; cbn.
  - destruct (Z.eqb_spec o1 O_PENDING); [congruence|reflexivity].
  - destruct (Z.eqb_spec (w_out x) O_PENDING); [congruence|reflexivity].
Qed.

Lemma wget_res2 m cw dw o1 o2 w : o1 <> O_PENDING ->
  wget (wres_opt (wres_opt m cw o1) dw o2) w =
  if is_uid cw w then option_map (wres1 o1) (wget m w)
  else if is_uid dw w then option_map (wres1 o2) (wget m w) else wget m w.
Proof.
  intros Ho. autorewrite with acc. destruct cw as [x|], dw as [y|]; cbn; rewrite ?(Z.eqb_sym w); auto.
  destruct (Z.eqb_spec x w), (Z.eqb_spec y w); subst; auto.
  destruct (wget m w); cbn; auto. now rewrite wres1_twice.
Qed.

(* ------------------------------------------------------------------ a channel in use is closed *)
Section Closed.
  Variables (m m' : mgr) (u : Z) (c c' : chan) (o1 o2 : Z) (keepreq : bool).
  Hypothesis I : Inv m.
  Hypothesis Hu : hget m u = Some c.
  Hypothesis Hin : in_use m u c = true.
  Hypothesis Hheap : forall u', hget m' u' = if Z.eqb u' u then Some c' else hget m u'.
  Hypothesis Hk : c_kind c' = c_kind c.
  Hypothesis Hconn : c_conn c' = c_conn c.
  Hypothesis Hscid : c_scid c' = c_scid c.
  Hypothesis Hlive : c_live c' = c_live c.
  Hypothesis Hst : dead_st (c_st c') = true.
  Hypothesis Hcw' : c_cw c' = None.
  Hypothesis Hdw' : c_dw c' = None.
  Hypothesis Hdr : c_drained c' = false -> c_drained c = false /\ c_st c <> SConnected.
  Hypothesis Hchs : m_chs m' = tdel (c_conn c) (c_scid c) (m_chs m).
  Hypothesis Hle : m_le m' = if le_reg c then tdel (c_conn c) (c_dcid c) (m_le m) else m_le m.
  Hypothesis Hpend : m_pend m' = m_pend m.
  Hypothesis Hninit : c_st c <> SInit.
  Hypothesis Hreqs : m_reqs m' = if keepreq then m_reqs m else tdel (c_conn c) (c_ref c) (m_reqs m).
  Hypothesis Hkeep : keepreq = true -> c_kind c = KLe -> c_st c = SConnecting -> False.
  Hypothesis Hw : forall w, wget m' w =
                    if is_uid (c_cw c) w then option_map (wres1 o1) (wget m w)
                    else if is_uid (c_dw c) w then option_map (wres1 o2) (wget m w) else wget m w.
  Hypothesis Ho1 : o1 <> O_PENDING.
  Hypothesis Ho2 : o2 <> O_PENDING.

  Lemma inv_closed_gen : Inv m'.
  Proof.
    assert (Hin' : in_use m u c' = false).
    { unfold in_use. destruct (c_st c'); try discriminate; cbn; apply andb_false_r. }
    assert (Hle' : le_reg c' = false).
    { unfold le_reg. destruct (c_kind c'); auto. destruct (c_st c'); try discriminate; cbn; apply andb_false_r. }
    pose proof (inv_chan_facts m u c I Hu) as (F1 & F2 & F3 & F4).
    refine (inv_chan_step m m' u c c' o1 o2 keepreq I Hu Hheap Hk Hconn Hscid Hlive _ _ _ _ _ _ Hpend _ Hreqs _ _ Ho1 Ho2 _ _).
    - unfold chan_facts. rewrite Hcw', Hdw'.
      split; [discriminate|split; [discriminate|split]].
      + intros Hd. destruct (Hdr Hd) as [A B]. destruct (F3 A) as (_ & _ & C). congruence.
      + intros _. destruct (c_st c'); try discriminate; auto.
    - congruence.
    - rewrite Hin', Hin. exact Hchs.
    - rewrite Hle'. rewrite Hle. destruct (le_reg c); reflexivity.
    - congruence.
    - congruence.
    - intros E. congruence.
    - intros A B C. exfalso. auto.
    - intros w. rewrite Hw, Hcw', Hdw'. cbn. rewrite !andb_true_r. reflexivity.
    - auto.
    - auto.
  Qed.
End Closed.
#[export] Hint Rewrite wget_hupd wget_occ wget_with_chs wget_with_le wget_with_reqs wget_with_pend
  wget_next_id wget_hnew : accw.

Lemma wget_wres_opt' m w o w' :
  wget (wres_opt m w o) w' = if is_uid w w' then option_map (wres1 o) (wget m w') else wget m w'.
Proof. rewrite wget_wres_opt. destruct w; cbn; auto. now rewrite Z.eqb_sym. Qed.
#[export] Hint Rewrite wget_wres_opt' : accw.

Lemma res2_norm (a b : bool) o1 o2 (g : option waiter) : o1 <> O_PENDING ->
  (if b then option_map (wres1 o2) (if a then option_map (wres1 o1) g else g)
   else if a then option_map (wres1 o1) g else g) =
  (if a then option_map (wres1 o1) g else if b then option_map (wres1 o2) g else g).
Proof. intros H. destruct a, b, g; cbn; auto. now rewrite wres1_twice. Qed.

Lemma tdel_tdel {V} h k (t : table V) : tdel h k (tdel h k t) = tdel h k t.
Proof.
  unfold tdel. induction t as [|e t IH]; cbn; auto.
  destruct (key_is h k e) eqn:E; cbn; auto. rewrite E. cbn. now rewrite IH.
Qed.

Lemma wpending_cw m u c w : Inv m -> hget m u = Some c -> c_cw c = Some w -> wpending m (c_cw c) = true.
Proof.
  intros I Hu Hc. destruct (ch_cw m I u c w Hu Hc) as (_ & _ & [x (A & B & _)]).
  rewrite Hc. cbn. rewrite wout_wget, A, B. reflexivity.
Qed.

Lemma wpending_none m u c : Inv m -> hget m u = Some c -> wpending m (c_cw c) = false -> c_cw c = None.
Proof.
  intros I Hu H. destruct (c_cw c) as [w|] eqn:Hc; auto.
  pose proof (wpending_cw m u c w I Hu Hc) as P. rewrite Hc in P. congruence.
Qed.

Lemma reg_in_use m u c : Inv m -> hget m u = Some c -> tget (c_conn c) (c_scid c) (m_chs m) = Some u -> in_use m u c = true.
Proof. intros I Hu H. now apply (ch_reg m I u c Hu). Qed.

Lemma init_in_use_le m u c : Inv m -> hget m u = Some c -> c_st c = SInit -> in_use m u c = true -> c_kind c = KLe.
Proof.
  intros I Hu E H. unfold in_use in H. rewrite E in H. apply andb_true_iff in H. destruct H as [_ H].
  destruct (tget (c_conn c) (c_ref c) (m_pend m)) as [[w us]|] eqn:Ep; [|discriminate].
  apply memz_In in H. destruct (pend_ok m I _ _ _ _ Ep) as [_ B]. destruct (B u H) as [c0 (A & K & _)].
  rewrite Hu in A. now inversion A; subst.
Qed.

(* ---------------------------------------------------------------- classic: disconnection response *)
Lemma inv_cl_disc_rsp m u c :
  Inv m -> hget m u = Some c -> c_kind c = KCl -> c_st c = SWaitDisconnect ->
  Inv (on_channel_closed (hupd (wres_opt (hupd m u (fun c => set_st c SClosed)) (c_dw c) O_RESULT)
                               u (fun c => set_dw c None)) u c).
Proof.
  intros I Hu Ek Es.
  pose proof (inv_chan_facts m u c I Hu) as F. pose proof F as (F1 & F2 & F3 & F4).
  assert (El : c_live c = true) by (eapply live_of_open; eauto; right; now rewrite Es).
  assert (Hin : in_use m u c = true) by (unfold in_use; rewrite El, Es; reflexivity).
  assert (Hcw : c_cw c = None) by (apply no_cw_unless; auto; now rewrite Ek, Es).
  apply (inv_closed_gen m _ u c (set_dw (set_st c SClosed) None) O_ERROR O_RESULT true I Hu Hin); cbn; auto; try discriminate.
  - t_heap Hu.
  - intros Hd. destruct (F3 Hd) as (K & _). congruence.
  - autorewrite with acc. now rewrite (is_uid_chs m u c I Hu), Hin.
  - autorewrite with acc. rewrite (is_uid_le m u c I Hu). destruct (le_reg c); reflexivity.
  - autorewrite with acc. reflexivity.
  - congruence.
  - autorewrite with acc. reflexivity.
  - intros _ K. congruence.
  - intros w. autorewrite with accw. rewrite Hcw. reflexivity.
Qed.

(* ---------------------------------------------------------------- classic: disconnection request *)
Lemma inv_cl_disc_req m u c :
  Inv m -> hget m u = Some c -> c_kind c = KCl ->
  tget (c_conn c) (c_scid c) (m_chs m) = Some u ->
  let m4 := on_channel_closed
              (hupd (wres_opt (hupd (wres_opt m (c_cw c) O_ERROR) u (fun c => set_st c SClosed)) (c_dw c) O_RESULT)
                    u (fun c => set_dw c None)) u c in
  Inv (if wpending m (c_cw c) then cl_connect_failed m4 u c else m4).
Proof.
  intros I Hu Ek Hreg m4.
  pose proof (inv_chan_facts m u c I Hu) as F. pose proof F as (F1 & F2 & F3 & F4).
  assert (Hin : in_use m u c = true) by (eapply reg_in_use; eauto).
  destruct (wpending m (c_cw c)) eqn:Ew.
  - apply (inv_closed_gen m _ u c (set_cw (set_dw (set_st c SClosed) None) None) O_ERROR O_RESULT true I Hu Hin);
      subst m4; unfold cl_connect_failed; cbn; auto; try discriminate.
    + t_heap Hu.
    + intros Hd. destruct (F3 Hd) as (K & _). congruence.
    + autorewrite with acc. rewrite (is_uid_chs m u c I Hu), Hin. apply tdel_tdel.
    + autorewrite with acc. rewrite (is_uid_le m u c I Hu). destruct (le_reg c); reflexivity.
    + autorewrite with acc. reflexivity.
    + intros E. pose proof (init_in_use_le m u c I Hu E Hin). congruence.
    + autorewrite with acc. reflexivity.
    + intros _ K. congruence.
    + intros w. autorewrite with accw. apply res2_norm. discriminate.
  - assert (Hcw : c_cw c = None) by (eapply wpending_none; eauto).
    apply (inv_closed_gen m _ u c (set_dw (set_st c SClosed) None) O_ERROR O_RESULT true I Hu Hin);
      subst m4; cbn; auto; try discriminate.
    + t_heap Hu.
    + intros Hd. destruct (F3 Hd) as (K & _). congruence.
    + autorewrite with acc. now rewrite (is_uid_chs m u c I Hu), Hin.
    + autorewrite with acc. rewrite (is_uid_le m u c I Hu). destruct (le_reg c); reflexivity.
    + autorewrite with acc. reflexivity.
    + intros E. pose proof (init_in_use_le m u c I Hu E Hin). congruence.
    + autorewrite with acc. reflexivity.
    + intros _ K. congruence.
    + intros w. autorewrite with accw. apply res2_norm. discriminate.
Qed.

(* ---------------------------------------------------------------- abort() *)
Lemma set_same_cw c : c_cw c = None -> set_cw c None = c.
Proof. destruct c; cbn; intros ->; reflexivity. Qed.
Lemma set_same_dw c : c_dw c = None -> set_dw c None = c.
Proof. destruct c; cbn; intros ->; reflexivity. Qed.

Lemma inv_hupd_id m u c : hget m u = Some c -> Inv m -> Inv (hupd m u (fun _ => c)).
Proof.
  intros Hu. apply inv_ext; try (autorewrite with acc; reflexivity).
  - intros u'. autorewrite with acc. destruct (Z.eqb_spec u' u); subst; rewrite ?Hu; reflexivity.
  - intros w. now autorewrite with acc.
Qed.

Lemma inv_abort m u : Inv m -> ev_ok m (EAbort u) = true -> Inv (abort_chan m u).
Proof.
  intros I Hok. unfold abort_chan. cbn in Hok.
  destruct (hget m u) as [c|] eqn:Hu; [|auto].
  pose proof (inv_chan_facts m u c I Hu) as F. pose proof F as (F1 & F2 & F3 & F4).
  destruct (c_kind c) eqn:Ek.
  - (* LE *)
    assert (Hcw : c_cw c = None).
    { apply no_cw_unless; auto. rewrite Ek. destruct (c_st c); auto; discriminate. }
    rewrite Hcw. cbn [wres_opt].
    destruct (le_open_st (c_st c)) eqn:Eo.
    + (* closing *)
      assert (El : c_live c = true) by (eapply live_of_open; eauto).
      assert (Hin : in_use m u c = true) by (unfold in_use; rewrite El; destruct (c_st c); try discriminate; auto).
      replace (match c_st c with SConnected | SDisconnecting => true | _ => false end) with true
        by (destruct (c_st c); try discriminate; auto).
      apply (inv_closed_gen m _ u c (flush_output (set_dw (set_cw (set_st c SDisconnected) None) None))
                            O_CANCELLED O_RESULT true I Hu Hin); cbn; auto; try discriminate.
      * t_heap Hu.
      * autorewrite with acc. now rewrite (is_uid_chs m u c I Hu), Hin.
      * autorewrite with acc. rewrite (is_uid_le m u c I Hu). destruct (le_reg c); reflexivity.
      * autorewrite with acc. reflexivity.
      * intros E. rewrite E in Eo. discriminate.
      * autorewrite with acc. reflexivity.
      * intros _ _ E. rewrite E in Eo. discriminate.
      * intros w. autorewrite with accw. rewrite Hcw. reflexivity.
    + (* not open: only the output queue is flushed *)
      replace (match c_st c with SConnected | SDisconnecting => true | _ => false end) with false
        by (destruct (c_st c); try discriminate; auto).
      assert (Hdw : c_dw c = None).
      { apply no_dw_unless; auto. rewrite Ek. destruct (c_st c); auto; discriminate. }
      rewrite Hdw. cbn [wres_opt].
      apply (inv_hupd_fun m u c _ Hu). rewrite (set_same_cw c Hcw), (set_same_dw c Hdw).
      apply inv_out; auto. discriminate.
  - (* classic *)
    destruct (cl_abortable_st (c_st c)) eqn:Eo.
    + assert (El : c_live c = true) by (eapply live_of_open; eauto).
      assert (Hin : in_use m u c = true) by (unfold in_use; rewrite El; destruct (c_st c); try discriminate; auto).
      assert (Hcw : c_cw c = None).
      { apply no_cw_unless; auto. rewrite Ek. destruct (c_st c); auto; discriminate. }
      replace (match c_st c with SOpen | SWaitDisconnect => true | _ => false end) with true
        by (destruct (c_st c); try discriminate; auto).
      apply (inv_closed_gen m _ u c (set_dw (set_st c SClosed) None) O_ERROR O_RESULT true I Hu Hin);
        cbn; auto; try discriminate.
      * t_heap Hu.
      * intros Hd. destruct (F3 Hd) as (K & _). congruence.
      * autorewrite with acc. now rewrite (is_uid_chs m u c I Hu), Hin.
      * autorewrite with acc. rewrite (is_uid_le m u c I Hu). destruct (le_reg c); reflexivity.
      * autorewrite with acc. reflexivity.
      * intros E. rewrite E in Eo. discriminate.
      * autorewrite with acc. reflexivity.
      * intros _ K. congruence.
      * intros w. autorewrite with accw. rewrite Hcw. reflexivity.
    + replace (match c_st c with SOpen | SWaitDisconnect => true | _ => false end) with false
        by (destruct (c_st c); try discriminate; auto).
      assert (Hdw : c_dw c = None).
      { apply no_dw_unless; auto. rewrite Ek. destruct (c_st c); auto; discriminate. }
      rewrite Hdw. cbn [wres_opt].
      apply (inv_hupd_fun m u c _ Hu). rewrite (set_same_dw c Hdw).
      now apply inv_hupd_id.
Qed.
Lemma chs_with_chs m x : m_chs (with_chs m x) = x. Proof. reflexivity. Qed.
Lemma chs_with_le m x : m_chs (with_le m x) = m_chs m. Proof. reflexivity. Qed.
Lemma chs_with_reqs m x : m_chs (with_reqs m x) = m_chs m. Proof. reflexivity. Qed.
Lemma chs_with_pend m x : m_chs (with_pend m x) = m_chs m. Proof. reflexivity. Qed.
Lemma chs_with_ids m x : m_chs (with_ids m x) = m_chs m. Proof. reflexivity. Qed.
Lemma chs_with_heap m x : m_chs (with_heap m x) = m_chs m. Proof. reflexivity. Qed.
Lemma chs_with_w m x : m_chs (with_w m x) = m_chs m. Proof. reflexivity. Qed.
Lemma le_with_chs m x : m_le (with_chs m x) = m_le m. Proof. reflexivity. Qed.
Lemma le_with_le m x : m_le (with_le m x) = x. Proof. reflexivity. Qed.
Lemma le_with_reqs m x : m_le (with_reqs m x) = m_le m. Proof. reflexivity. Qed.
Lemma le_with_pend m x : m_le (with_pend m x) = m_le m. Proof. reflexivity. Qed.
Lemma le_with_ids m x : m_le (with_ids m x) = m_le m. Proof. reflexivity. Qed.
Lemma le_with_heap m x : m_le (with_heap m x) = m_le m. Proof. reflexivity. Qed.
Lemma le_with_w m x : m_le (with_w m x) = m_le m. Proof. reflexivity. Qed.
Lemma reqs_with_chs m x : m_reqs (with_chs m x) = m_reqs m. Proof. reflexivity. Qed.
Lemma reqs_with_le m x : m_reqs (with_le m x) = m_reqs m. Proof. reflexivity. Qed.
Lemma reqs_with_reqs m x : m_reqs (with_reqs m x) = x. Proof. reflexivity. Qed.
Lemma reqs_with_pend m x : m_reqs (with_pend m x) = m_reqs m. Proof. reflexivity. Qed.
Lemma reqs_with_ids m x : m_reqs (with_ids m x) = m_reqs m. Proof. reflexivity. Qed.
Lemma reqs_with_heap m x : m_reqs (with_heap m x) = m_reqs m. Proof. reflexivity. Qed.
Lemma reqs_with_w m x : m_reqs (with_w m x) = m_reqs m. Proof. reflexivity. Qed.
Lemma pend_with_chs m x : m_pend (with_chs m x) = m_pend m. Proof. reflexivity. Qed.
Lemma pend_with_le m x : m_pend (with_le m x) = m_pend m. Proof. reflexivity. Qed.
Lemma pend_with_reqs m x : m_pend (with_reqs m x) = m_pend m. Proof. reflexivity. Qed.
Lemma pend_with_pend m x : m_pend (with_pend m x) = x. Proof. reflexivity. Qed.
Lemma pend_with_ids m x : m_pend (with_ids m x) = m_pend m. Proof. reflexivity. Qed.
Lemma pend_with_heap m x : m_pend (with_heap m x) = m_pend m. Proof. reflexivity. Qed.
Lemma pend_with_w m x : m_pend (with_w m x) = m_pend m. Proof. reflexivity. Qed.
Lemma ids_with_chs m x : m_ids (with_chs m x) = m_ids m. Proof. reflexivity. Qed.
Lemma ids_with_le m x : m_ids (with_le m x) = m_ids m. Proof. reflexivity. Qed.
Lemma ids_with_reqs m x : m_ids (with_reqs m x) = m_ids m. Proof. reflexivity. Qed.
Lemma ids_with_pend m x : m_ids (with_pend m x) = m_ids m. Proof. reflexivity. Qed.
Lemma ids_with_ids m x : m_ids (with_ids m x) = x. Proof. reflexivity. Qed.
Lemma ids_with_heap m x : m_ids (with_heap m x) = m_ids m. Proof. reflexivity. Qed.
Lemma ids_with_w m x : m_ids (with_w m x) = m_ids m. Proof. reflexivity. Qed.
#[export] Hint Rewrite chs_with_chs chs_with_le chs_with_reqs chs_with_pend chs_with_ids chs_with_heap chs_with_w le_with_chs le_with_le le_with_reqs le_with_pend le_with_ids le_with_heap le_with_w reqs_with_chs reqs_with_le reqs_with_reqs reqs_with_pend reqs_with_ids reqs_with_heap reqs_with_w pend_with_chs pend_with_le pend_with_reqs pend_with_pend pend_with_ids pend_with_heap pend_with_w ids_with_chs ids_with_le ids_with_reqs ids_with_pend ids_with_ids ids_with_heap ids_with_w : acc.

(* ================================================================== received frames, existing channels *)
Lemma inv_recv_disc_req m h id dcid scid :
  Inv m -> frame_ok m h (FDiscReq id dcid scid) = true -> Inv (fst (recv_disc_req m h id dcid scid)).
Proof.
  intros I Hok. unfold recv_disc_req. cbn in Hok. unfold target_kind in Hok.
  destruct (tget h dcid (m_chs m)) as [u|] eqn:Et; [|auto].
  destruct (hget m u) as [c|] eqn:Hu; [|auto].
  destruct (chs_self m u c h dcid I Hu Et) as [-> ->].
  destruct (c_kind c) eqn:Ek; cbn [fst].
  - apply (inv_le_closed m u c true); auto; try discriminate; destruct (c_st c); congruence.
  - apply inv_cl_disc_req; auto.
Qed.

Lemma inv_recv_disc_rsp m h id dcid scid :
  Inv m -> frame_ok m h (FDiscRsp id dcid scid) = true -> Inv (fst (recv_disc_rsp m h id dcid scid)).
Proof.
  intros I Hok. unfold recv_disc_rsp. cbn in Hok. unfold target_kind in Hok.
  destruct (tget h scid (m_chs m)) as [u|] eqn:Et; [|auto].
  destruct (hget m u) as [c|] eqn:Hu; [|auto].
  destruct (chs_self m u c h scid I Hu Et) as [-> ->].
  destruct (c_kind c) eqn:Ek.
  - destruct (c_st c) eqn:Es; auto.
    destruct (Z.eqb dcid (c_dcid c) && Z.eqb (c_scid c) (c_scid c)); cbn [negb fst]; auto.
    apply (inv_le_closed m u c false); auto; congruence.
  - destruct (Z.eqb dcid (c_dcid c) && Z.eqb (c_scid c) (c_scid c)); cbn [negb fst] in *; auto.
    apply inv_cl_disc_rsp; auto. destruct (c_st c); auto; discriminate.
Qed.

Lemma inv_recv_credit m h cid n : Inv m -> Inv (fst (recv_credit m h cid n)).
Proof.
  intros I. unfold recv_credit.
  destruct (tget h cid (m_le m)) as [u|] eqn:Et; [|auto].
  destruct (hget m u) as [c|] eqn:Hu; [|auto]. cbn [fst].
  unfold process_output. cbn.
  pose proof (inv_chan_facts m u c I Hu) as (F1 & F2 & F3 & F4).
  replace (set_out (set_out c (c_credits c + n) (c_pending c) (c_drained c)) _ _ _)
    with (set_out c (c_credits c + n - po_sent (set_out c (c_credits c + n) (c_pending c) (c_drained c)))
                    (c_pending c - po_sent (set_out c (c_credits c + n) (c_pending c) (c_drained c)))
                    (if Z.eqb (c_pending c - po_sent (set_out c (c_credits c + n) (c_pending c) (c_drained c))) 0
                        && (0 <? c_credits c + n - po_sent (set_out c (c_credits c + n) (c_pending c) (c_drained c)))
                     then true else c_drained c)) by reflexivity.
  apply inv_out; auto.
  intros Hd. destruct (_ && _); [discriminate|]. destruct (F3 Hd) as (A & _ & B). auto.
Qed.

Lemma inv_write m u k : Inv m -> Inv (fst (do_write m u k)).
Proof.
  intros I. unfold do_write.
  destruct (hget m u) as [c|] eqn:Hu; [|auto].
  destruct (c_kind c) eqn:Ek; [|auto]. destruct (c_st c) eqn:Es; auto. cbn [fst].
  unfold process_output. cbn.
  match goal with |- Inv (hupd m u (fun _ => set_out _ ?a ?b ?d)) =>
    change (Inv (hupd m u (fun _ => set_out c a b d))) end.
  apply inv_out; auto.
Qed.

Lemma inv_grant m u n : Inv m -> Inv (fst (do_grant m u n)).
Proof.
  intros I. unfold do_grant. destruct (hget m u); cbn; auto using inv_next_id.
Qed.

(* ---------------------------------------------------------------- LE connection response *)
Lemma inv_recv_le_rsp m h id dcid credits result :
  Inv m -> frame_ok m h (FLeRsp id dcid credits result) = true ->
  Inv (fst (recv_le_rsp m h id dcid credits result)).
Proof.
  intros I Hok. unfold recv_le_rsp. cbn in Hok. unfold target_kind in Hok.
  destruct (tget h id (m_reqs m)) as [scid|] eqn:Er; [|auto].
  pose proof (inv_reqs_del m h id I) as I1.
  cbn [m_chs with_reqs].
  destruct (reqs_ok m I _ _ _ Er) as [u [c (R1 & Hu & Ek & Es & Eref)]].
  rewrite R1 in *. change (hget (with_reqs m (tdel h id (m_reqs m))) u) with (hget m u).
  rewrite Hu in *. rewrite Ek in Hok. cbn in Hok.
  destruct (chs_self m u c h scid I Hu R1) as [-> ->].
  pose proof (inv_chan_facts m u c I Hu) as F. pose proof F as (F1 & F2 & F3 & F4).
  assert (Hin : in_use m u c = true) by (eapply reg_in_use; eauto).
  assert (El : c_live c = true) by (eapply in_use_live; eauto).
  assert (Hdw : c_dw c = None) by (apply no_dw_unless; auto; now rewrite Ek, Es).
  destruct (c_cw c) as [w|] eqn:Hcw; [|auto].
  destruct (Z.eqb_spec result R_OK) as [->|Hr]; cbn [fst].
  - (* accepted *)
    cbn in Hok. apply negb_true_iff, memz_false in Hok.
    unfold le_register. autorewrite with acc. rewrite Hu, Z.eqb_refl. cbn [option_map].
    set (c' := set_cw (set_st (set_out (set_dcid c dcid) credits (c_pending c) (c_drained c)) SConnected) None).
    change (c_conn c') with (c_conn c). change (c_dcid c') with dcid.
    refine (inv_chan_step m _ u c c' O_RESULT O_ERROR false I Hu _ _ _ _ _ _ _ _ _ _ _ _ _ _ _ _ _ _ _ _);
      subst c'; cbn; auto; try discriminate.
    + t_heap Hu.
    + unfold chan_facts; cbn. rewrite Hdw, Ek, El.
      split; [discriminate|split; [discriminate|split; [auto|discriminate]]].
    + autorewrite with acc. unfold in_use; cbn. rewrite El. reflexivity.
    + autorewrite with acc. unfold le_reg; cbn. rewrite Ek, Es, El. reflexivity.
    + unfold le_reg. rewrite Ek, Es. cbn. rewrite andb_false_r. discriminate.
    + intros _ _. destruct (tget (c_conn c) dcid (m_le m)) eqn:Eg; auto.
      exfalso. apply Hok. apply tkeys_tget. congruence.
    + autorewrite with acc. reflexivity.
    + intros E. congruence.
    + autorewrite with acc. rewrite Eref. reflexivity.
    + intros w'. autorewrite with accw. rewrite Hcw, Hdw. cbn. rewrite wget_wres.
      rewrite andb_true_r, Z.eqb_sym. reflexivity.
  - (* refused *)
    apply (inv_closed_gen m _ u c (set_cw (set_st c SConnError) None) O_ERROR O_ERROR false I Hu Hin);
      cbn; auto; try discriminate.
    + t_heap Hu.
    + intros Hd. destruct (F3 Hd) as (_ & _ & B). congruence.
    + autorewrite with acc. reflexivity.
    + autorewrite with acc. unfold le_reg. rewrite Ek, Es. cbn. rewrite andb_false_r. reflexivity.
    + autorewrite with acc. reflexivity.
    + congruence.
    + autorewrite with acc. rewrite Eref. reflexivity.
    + intros w'. autorewrite with accw. rewrite Hcw, Hdw. cbn. rewrite wget_wres, Z.eqb_sym. reflexivity.
Qed.

(* ---------------------------------------------------------------- classic signalling *)
Lemma find_cl_spec m h cid u c : find_cl m h cid = Some (u, c) ->
  tget h cid (m_chs m) = Some u /\ hget m u = Some c /\ c_kind c = KCl.
Proof.
  unfold find_cl. destruct (tget h cid (m_chs m)) as [u0|]; [|discriminate].
  destruct (hget m u0) as [c0|] eqn:E; [|discriminate]. destruct (c_kind c0) eqn:K; [discriminate|].
  intros [= <- <-]. auto.
Qed.

(* a classic channel found through the table: what the invariant says about it *)
Lemma cl_found m h cid u c : Inv m -> find_cl m h cid = Some (u, c) ->
  hget m u = Some c /\ c_kind c = KCl /\ c_conn c = h /\ c_scid c = cid /\ in_use m u c = true /\ c_live c = true /\
  le_reg c = false.
Proof.
  intros I H. destruct (find_cl_spec _ _ _ _ _ H) as (A & B & C).
  destruct (chs_self m u c h cid I B A) as [-> ->].
  assert (in_use m u c = true) by (eapply reg_in_use; eauto).
  repeat split; auto. eapply in_use_live; eauto. unfold le_reg. now rewrite C.
Qed.

(* configuration finished: the channel is open and connect() returns *)
Lemma inv_cl_open m u c :
  Inv m -> hget m u = Some c -> c_kind c = KCl -> in_use m u c = true ->
  (c_st c = SWaitConfigReq \/ c_st c = SWaitConfigRsp) ->
  Inv (hupd (wres_opt m (c_cw c) O_RESULT) u (fun c => set_cw (set_st c SOpen) None)).
Proof.
  intros I Hu Ek Hin Es.
  pose proof (inv_chan_facts m u c I Hu) as F. pose proof F as (F1 & F2 & F3 & F4).
  assert (El : c_live c = true) by (eapply in_use_live; eauto).
  assert (Hdw : c_dw c = None) by (apply no_dw_unless; auto; rewrite Ek; destruct Es as [-> | ->]; reflexivity).
  refine (inv_chan_step m _ u c (set_cw (set_st c SOpen) None) O_RESULT O_ERROR true I Hu _ _ _ _ _ _ _ _ _ _ _ _ _ _ _ _ _ _ _ _);
    cbn; auto; try discriminate.
  - t_heap Hu.
  - unfold chan_facts; cbn. rewrite Hdw, El. split; [discriminate|split; [discriminate|split; [|discriminate]]].
    intros Hd. destruct (F3 Hd) as (K & _). congruence.
  - autorewrite with acc. unfold in_use at 1; cbn. rewrite El, Hin. reflexivity.
  - autorewrite with acc. unfold le_reg; cbn. rewrite Ek. reflexivity.
  - unfold le_reg; cbn. rewrite Ek. discriminate.
  - autorewrite with acc. reflexivity.
  - intros E. destruct Es; congruence.
  - autorewrite with acc. reflexivity.
  - intros _ K. congruence.
  - intros w. autorewrite with accw. rewrite Hdw. cbn. rewrite andb_true_r. reflexivity.
Qed.

(* a state change that keeps the channel registered and its waiters untouched *)
Lemma inv_cl_st m u c s d :
  Inv m -> hget m u = Some c -> c_kind c = KCl -> in_use m u c = true ->
  reg_st s = true ->
  (c_cw c <> None -> cw_st KCl s = true) -> (c_dw c <> None -> dw_st KCl s = true) ->
  Inv (hupd m u (fun c => set_st (set_dcid c d) s)).
Proof.
  intros I Hu Ek Hin Hs Hc Hd.
  pose proof (inv_chan_facts m u c I Hu) as F. pose proof F as (F1 & F2 & F3 & F4).
  assert (El : c_live c = true) by (eapply in_use_live; eauto).
  apply (inv_hupd_fun m u c _ Hu).
  apply inv_upd_same with (c := c); cbn; auto.
  - unfold le_reg. rewrite Ek. discriminate.
  - unfold in_use at 1; cbn. rewrite El, Hin. destruct s; try discriminate; reflexivity.
  - unfold le_reg; cbn. now rewrite Ek.
  - unfold chan_facts; cbn. rewrite Ek, El. split; [|split; [|split; [|discriminate]]].
    + intros w Hw. split; auto. apply Hc. congruence.
    + intros w Hw. split; auto. apply Hd. congruence.
    + intros Hdr. destruct (F3 Hdr) as (K & _). congruence.
  - intros E. pose proof (init_in_use_le m u c I Hu E Hin). congruence.
  - intros K. congruence.
Qed.

Lemma inv_recv_conn_rsp m h id dcid scid result :
  Inv m -> Inv (fst (recv_conn_rsp m h id dcid scid result)).
Proof.
  intros I. unfold recv_conn_rsp.
  destruct (find_cl m h scid) as [[u c]|] eqn:Ef; [|auto].
  destruct (cl_found m h scid u c I Ef) as (Hu & Ek & Ec & Esc & Hin & El & Hle).
  pose proof (inv_chan_facts m u c I Hu) as F. pose proof F as (F1 & F2 & F3 & F4).
  destruct (c_st c) eqn:Es; auto.
  assert (Hdw : c_dw c = None) by (apply no_dw_unless; auto; now rewrite Ek, Es).
  destruct (Z.eqb result R_OK); cbn [fst].
  - apply (inv_cl_st (next_id m h) u c SWaitConfigReqRsp dcid); auto using inv_next_id.
  - destruct (Z.eqb result R_PENDING); cbn [fst]; auto.
    assert (Hcw : exists w, c_cw c = Some w).
    { unfold in_use in Hin. rewrite Es in Hin. destruct (c_cw c); eauto. rewrite andb_false_r in Hin. discriminate. }
    destruct Hcw as [w Hcw].
    assert (Hp : wpending (hupd m u (fun c => set_st c SClosed)) (c_cw c) = true).
    { pose proof (wpending_cw m u c w I Hu Hcw) as P. rewrite Hcw in *. cbn in *.
      rewrite wout_wget in *. autorewrite with acc. exact P. }
    rewrite Hp. cbn [fst]. unfold cl_connect_failed.
    apply (inv_closed_gen m _ u c (set_cw (set_st c SClosed) None) O_ERROR O_ERROR true I Hu Hin);
      cbn; auto; try discriminate.
    + t_heap Hu.
    + intros Hd. destruct (F3 Hd) as (K & _). congruence.
    + autorewrite with acc. reflexivity.
    + autorewrite with acc. now rewrite Hle.
    + autorewrite with acc. reflexivity.
    + congruence.
    + autorewrite with acc. reflexivity.
    + intros _ K. congruence.
    + intros w'. autorewrite with accw. rewrite Hdw. cbn. destruct (is_uid (c_cw c) w'); reflexivity.
Qed.

Lemma inv_cl_st0 m u c s :
  Inv m -> hget m u = Some c -> c_kind c = KCl -> in_use m u c = true ->
  reg_st s = true ->
  (c_cw c <> None -> cw_st KCl s = true) -> (c_dw c <> None -> dw_st KCl s = true) ->
  Inv (hupd m u (fun c => set_st c s)).
Proof.
  intros I Hu Ek Hin Hs Hc Hd. apply (inv_hupd_fun m u c _ Hu).
  replace (set_st c s) with (set_st (set_dcid c (c_dcid c)) s) by (destruct c; reflexivity).
  pose proof (inv_cl_st m u c s (c_dcid c) I Hu Ek Hin Hs Hc Hd) as H.
  revert H. apply inv_ext; try (autorewrite with acc; reflexivity).
  - intros u'. autorewrite with acc. destruct (Z.eqb_spec u' u); subst; rewrite ?Hu; reflexivity.
  - intros w. now autorewrite with acc.
Qed.

Lemma cw_none_of_wpending m u c : Inv m -> hget m u = Some c -> wpending m (c_cw c) = false -> c_cw c = None.
Proof. apply wpending_none. Qed.

Lemma inv_recv_conf_rsp m h id scid result : Inv m -> Inv (fst (recv_conf_rsp m h id scid result)).
Proof.
  intros I. unfold recv_conf_rsp.
  destruct (find_cl m h scid) as [[u c]|] eqn:Ef; [|auto].
  destruct (cl_found m h scid u c I Ef) as (Hu & Ek & Ec & Esc & Hin & El & Hle).
  pose proof (inv_chan_facts m u c I Hu) as F.
  assert (Hdw : cl_abortable_st (c_st c) = false -> c_dw c = None).
  { intros E. apply no_dw_unless; auto. rewrite Ek. destruct (c_st c); auto; discriminate. }
  destruct (Z.eqb result 0).
  - destruct (c_st c) eqn:Es; cbn [fst]; auto.
    + apply (inv_cl_st0 m u c SWaitConfigReq); auto; rewrite Hdw by (now rewrite Es); congruence.
    + apply inv_cl_open; auto.
  - destruct (Z.eqb result CONF_UNACCEPTABLE); cbn [fst]; auto using inv_next_id.
Qed.

Lemma inv_recv_conf_req m h id dcid rfc bad : Inv m -> Inv (fst (recv_conf_req m h id dcid rfc bad)).
Proof.
  intros I. unfold recv_conf_req.
  destruct (find_cl m h dcid) as [[u c]|] eqn:Ef; [|auto].
  destruct (cl_found m h dcid u c I Ef) as (Hu & Ek & Ec & Esc & Hin & El & Hle).
  pose proof (inv_chan_facts m u c I Hu) as F. pose proof F as (F1 & F2 & F3 & F4).
  destruct (match c_st c with SWaitConfigReqRsp | SWaitConfigReq => true | _ => false end) eqn:Ecfg;
    cbn [negb fst]; [|auto].
  assert (Hdw : c_dw c = None).
  { apply no_dw_unless; auto. rewrite Ek. destruct (c_st c); auto; discriminate. }
  destruct ((0 <=? rfc) && negb (Z.eqb rfc (c_mode c))).
  - (* mode mismatch *)
    cbn [fst].
    destruct (wpending m (c_cw c)) eqn:Ew.
    + unfold cl_connect_failed.
      apply (inv_closed_gen m _ u c (set_st (set_cw (set_st c SWaitDisconnect) None) SOrphan)
                            O_ERROR O_ERROR true I Hu Hin); cbn; auto; try discriminate.
      * t_heap Hu.
      * intros Hd. destruct (F3 Hd) as (K & _). congruence.
      * autorewrite with acc. reflexivity.
      * autorewrite with acc. now rewrite Hle.
      * autorewrite with acc. reflexivity.
      * intros E. rewrite E in Ecfg. discriminate.
      * autorewrite with acc. reflexivity.
      * intros _ K. congruence.
      * intros w'. autorewrite with accw. rewrite Hdw. cbn. destruct (is_uid (c_cw c) w'); reflexivity.
    + assert (Hcw : c_cw c = None) by (eapply wpending_none; eauto).
      rewrite Hcw. cbn [wres_opt].
      apply (inv_cl_st0 (next_id m h) u c SWaitDisconnect); auto using inv_next_id; congruence.
  - destruct bad; cbn [fst]; auto.
    destruct (c_st c) eqn:Es; try discriminate; cbn [fst].
    + apply (inv_cl_st0 m u c SWaitConfigRsp); auto; congruence.
    + apply inv_cl_open; auto.
Qed.
Lemma wget_old m w x : wget m w = Some x -> Z.eqb w (wuid m) = false.
Proof. intros H. apply wget_bound in H. unfold wuid. destruct (Z.eqb_spec w (Z.of_nat (length (m_w m)))); auto. lia. Qed.
Lemma wget_wuid m : wget m (wuid m) = None.
Proof.
  unfold wget, wuid. destruct (Z.ltb_spec (Z.of_nat (length (m_w m))) 0); auto.
  rewrite Nat2Z.id. apply nth_error_None. lia.
Qed.
Lemma hget_huid m : hget m (huid m) = None.
Proof.
  unfold hget, huid. destruct (Z.ltb_spec (Z.of_nat (length (m_heap m))) 0); auto.
  rewrite Nat2Z.id. apply nth_error_None. lia.
Qed.
Lemma hget_old m u c : hget m u = Some c -> Z.eqb u (huid m) = false.
Proof. intros H. apply hget_bound in H. unfold huid. destruct (Z.eqb_spec u (Z.of_nat (length (m_heap m)))); auto. lia. Qed.

(* ------------------------------------------------------------------ disconnect() *)
Lemma inv_close m u : Inv m -> Inv (fst (do_close m u)).
Proof.
  intros I. unfold do_close.
  destruct (hget m u) as [c|] eqn:Hu; [|auto].
  destruct (negb _) eqn:Eok; cbn [fst].
  { apply inv_wnew_done; auto. discriminate. }
  apply negb_false_iff in Eok.
  pose proof (inv_chan_facts m u c I Hu) as F. pose proof F as (F1 & F2 & F3 & F4).
  set (w := wuid m).
  set (f := fun c0 : chan => match c_kind c0 with
                              | KLe => flush_output (set_st (set_dw c0 (Some w)) SDisconnecting)
                              | KCl => set_st (set_dw c0 (Some w)) SWaitDisconnect end).
  assert (Hopen : le_open_st (c_st c) = true \/ cl_abortable_st (c_st c) = true).
  { destruct (c_kind c), (c_st c); try discriminate; auto. }
  assert (El : c_live c = true) by (eapply live_of_open; eauto).
  assert (Hin : in_use m u c = true).
  { unfold in_use. rewrite El. destruct (c_kind c), (c_st c); try discriminate; auto. }
  assert (Hcw : c_cw c = None).
  { apply no_cw_unless; auto. destruct (c_kind c), (c_st c); try discriminate; auto. }
  assert (Hdw : c_dw c = None).
  { apply no_dw_unless; auto. destruct (c_kind c), (c_st c); try discriminate; auto. }
  assert (Ef : c_kind (f c) = c_kind c /\ c_conn (f c) = c_conn c /\ c_scid (f c) = c_scid c /\
               c_dcid (f c) = c_dcid c /\ c_live (f c) = true /\ c_cw (f c) = None /\ c_dw (f c) = Some w /\
               c_ref (f c) = c_ref c /\ dw_st (c_kind c) (c_st (f c)) = true /\ reg_st (c_st (f c)) = true /\
               le_reg (f c) = le_reg c /\ (c_drained (f c) = false -> c_kind c = KCl /\ c_drained c = false)).
  { subst f. cbn. unfold le_reg. destruct (c_kind c) eqn:Ek, (c_st c); try discriminate; cbn;
      rewrite ?Ek, ?El; repeat split; auto; try discriminate. }
  destruct Ef as (E1 & E2 & E3 & E4 & E5 & E6 & E7 & E8 & E9 & E10 & E11 & E12).
  assert (Hin' : in_use m u (f c) = true).
  { unfold in_use. rewrite E5. destruct (c_st (f c)); try discriminate; auto. }
  apply (inv_frame1 m _ u (f c) I).
  - t_heap Hu.
  - unfold chan_facts. rewrite E6, E7, E5, E1. split; [discriminate|split; [|split; [|discriminate]]].
    + intros w0 _. auto.
    + intros Hd. destruct (E12 Hd) as [K Hd']. destruct (F3 Hd') as (K' & _). congruence.
  - autorewrite with acc. apply (nd_chs m I).
  - intros h k u' _. autorewrite with acc. tauto.
  - intros h k. autorewrite with acc. rewrite E2, E3. apply (chs_self m u c h k I Hu).
  - autorewrite with acc. rewrite E2, E3. rewrite (in_use_pend m) by (autorewrite with acc; reflexivity).
    rewrite Hin'. split; auto. intros _. now apply (ch_reg m I u c Hu).
  - autorewrite with acc. apply (nd_le m I).
  - intros h k u' _. autorewrite with acc. tauto.
  - intros h k. autorewrite with acc. intros H. destruct (le_self m u c h k I Hu H) as (A & B & C).
    rewrite E2, E4, E1. rewrite <- E11 in C. apply le_reg_iff in C. rewrite E1 in C. tauto.
  - autorewrite with acc. intros A B C. rewrite E2, E4. apply (le_reg_tget m u c I Hu).
    rewrite <- E11. apply le_reg_iff. auto.
  - autorewrite with acc. reflexivity.
  - intros h id w0 us H Hm. destruct (pend_ok m I _ _ _ _ H) as [_ B]. destruct (B u Hm) as [c0 (A & _ & _ & S & _)].
    rewrite Hu in A. inversion A; subst c0. destruct (c_kind c), (c_st c); discriminate.
  - autorewrite with acc. apply (nd_reqs m I).
  - intros h id k H. autorewrite with acc in H. destruct (reqs_ok m I _ _ _ H) as [u0 [c0 (R1 & R2 & R3 & R4 & R5)]].
    exists u0, c0. autorewrite with acc. destruct (Z.eqb_spec u0 u); [|auto].
    subst. rewrite Hu in R2. inversion R2; subst c0. destruct (c_kind c), (c_st c); discriminate.
  - intros w0 x Hx. left. autorewrite with acc. now rewrite (wget_old m w0 x Hx).
  - intros w0 x Hx _. autorewrite with acc. now rewrite (wget_old m w0 x Hx).
  - intros w0 x' Hn Hx Hp. autorewrite with acc in Hx.
    destruct (Z.eqb_spec w0 (wuid m)); [|congruence]. inversion Hx; subst x' w0.
    unfold owner_ok. cbn. exists (f c). split; auto. autorewrite with acc. now rewrite Z.eqb_refl, Hu.
  - intros c0 w0 x' H0. rewrite Hu in H0. inversion H0; subst c0. congruence.
  - intros c0 w0 x' H0. rewrite Hu in H0. inversion H0; subst c0. congruence.
  - intros w0. rewrite E6. discriminate.
  - intros w0. rewrite E7. intros [= <-]. exists (mkW O_PENDING WClose (c_conn c) u).
    autorewrite with acc. subst w. rewrite Z.eqb_refl. rewrite E2. repeat split; auto.
Qed.

(* ------------------------------------------------------------------ a new channel object *)
Section NewChan.
  Variables (m m' : mgr) (c' : chan) (reg : bool) (newreq : option Z) (neww : option waiter).
  Let u := huid m.
  Let h := c_conn c'.
  Let k := c_scid c'.
  Hypothesis I : Inv m.
  Hypothesis Hheap : forall u', hget m' u' = if Z.eqb u' u then Some c' else hget m u'.
  Hypothesis Hfacts : chan_facts c'.
  Hypothesis Hlive : c_live c' = true.
  Hypothesis Hfresh : tget h k (m_chs m) = None.
  Hypothesis Hchs : m_chs m' = if reg then tset h k u (m_chs m) else m_chs m.
  Hypothesis Hpend : m_pend m' = m_pend m.
  Hypothesis Hreg : in_use m u c' = reg.
  Hypothesis Hle : m_le m' = if le_reg c' then tset h (c_dcid c') u (m_le m) else m_le m.
  Hypothesis Hlefresh : le_reg c' = true -> tget h (c_dcid c') (m_le m) = None.
  Hypothesis Hreqs : m_reqs m' = match newreq with Some id => tset h id k (m_reqs m) | None => m_reqs m end.
  Hypothesis Hnewreq : forall id, newreq = Some id ->
                       c_kind c' = KLe /\ c_st c' = SConnecting /\ c_ref c' = id /\ reg = true.
  Hypothesis Hw : forall w, wget m' w = if Z.eqb w (wuid m) then neww else wget m w.
  Hypothesis Hcw : forall w, c_cw c' = Some w -> w = wuid m /\ neww = Some (mkW O_PENDING WOpen h u).
  Hypothesis Hdw : c_dw c' = None.
  Hypothesis Hneww : forall x, neww = Some x -> w_out x = O_PENDING ->
                     x = mkW O_PENDING WOpen h u /\ c_cw c' = Some (wuid m).

  Lemma inv_new_chan : Inv m'.
  Proof.
    assert (Hnone : hget m u = None) by apply hget_huid.
    assert (Hiu : forall u0 c0, in_use m' u0 c0 = in_use m u0 c0) by (intros; now apply in_use_pend).
    assert (Hnochs : forall h1 k1, tget h1 k1 (m_chs m) = Some u -> False).
    { intros h1 k1 H. destruct (chs_pt m I _ _ _ H) as [c0 (A & _)]. congruence. }
    assert (Hnole : forall h1 k1, tget h1 k1 (m_le m) = Some u -> False).
    { intros h1 k1 H. destruct (le_pt m I _ _ _ H) as [c0 (A & _)]. congruence. }
    apply (inv_frame1 m m' u c' I); auto.
    - (* CH1 *) rewrite Hchs. destruct reg; [apply NoDup_tset|]; apply (nd_chs m I).
    - (* CH2 *) intros h1 k1 u' Hn. rewrite Hchs. destruct reg; [|tauto]. apply (rel_tset _ _ _ u); auto.
    - (* CH3 *) intros h1 k1. rewrite Hchs. destruct reg.
      + rewrite tget_tset. destruct (Z.eqb_spec h1 h), (Z.eqb_spec k1 k); subst; cbn; auto;
          rewrite tget_tdel; intros H; match type of H with (if ?b then _ else _) = _ => destruct b; [discriminate|] end;
          exfalso; eauto.
      + intros H. exfalso; eauto.
    - (* CH4 *) rewrite Hiu, Hreg, Hchs. destruct reg.
      + fold h k. rewrite tget_tset, !Z.eqb_refl. cbn. tauto.
      + fold h k. rewrite Hfresh. split; discriminate.
    - (* LE1 *) rewrite Hle. destruct (le_reg c'); [apply NoDup_tset|]; apply (nd_le m I).
    - (* LE2 *) intros h1 k1 u' Hn. rewrite Hle. destruct (le_reg c') eqn:E; [|tauto]. apply (rel_tset _ _ _ u); auto.
    - (* LE3 *) intros h1 k1. rewrite Hle. destruct (le_reg c') eqn:E.
      + apply le_reg_iff in E. rewrite tget_tset.
        destruct (Z.eqb_spec h1 h), (Z.eqb_spec k1 (c_dcid c')); subst; cbn; try tauto;
          rewrite tget_tdel; intros H; match type of H with (if ?b then _ else _) = _ => destruct b; [discriminate|] end;
          exfalso; eauto.
      + intros H. exfalso; eauto.
    - (* LE4 *) intros A B C. assert (E : le_reg c' = true) by (apply le_reg_iff; auto).
      rewrite Hle, E. fold h. rewrite tget_tset, !Z.eqb_refl. reflexivity.
    - (* PE3 *) intros h1 id w us H Hin. destruct (pend_ok m I _ _ _ _ H) as [_ B].
      destruct (B u Hin) as [c0 (A & _)]. congruence.
    - (* RQ1 *) rewrite Hreqs. destruct newreq; [apply NoDup_tset|]; apply (nd_reqs m I).
    - (* RQ2 *) intros h1 id k1 H. rewrite Hreqs in H.
      assert (Hold : tget h1 id (m_reqs m) = Some k1 ->
                     exists u0 c0, tget h1 k1 (m_chs m') = Some u0 /\ hget m' u0 = Some c0 /\ c_kind c0 = KLe /\
                                   c_st c0 = SConnecting /\ c_ref c0 = id).
      { intros Ho. destruct (reqs_ok m I _ _ _ Ho) as [u0 [c0 (R1 & R2 & R3 & R4 & R5)]].
        exists u0, c0. rewrite Hheap. assert (u0 <> u) by (intros ->; congruence).
        destruct (Z.eqb_spec u0 u); [congruence|]. repeat split; auto.
        rewrite Hchs. destruct reg; auto. apply (rel_tset _ _ _ u); auto. }
      destruct newreq as [id0|]; auto.
      rewrite tget_tset in H. destruct (Z.eqb_spec h1 h), (Z.eqb_spec id id0); subst; cbn in H.
      + inversion H; subst k1. destruct (Hnewreq id0 eq_refl) as (A & B & C & D).
        exists u, c'. rewrite Hheap, Z.eqb_refl, Hchs, D, tget_tset, !Z.eqb_refl. auto.
      + rewrite tget_tdel in H. match type of H with (if ?b then _ else _) = _ => destruct b; [discriminate|auto] end.
      + rewrite tget_tdel in H. match type of H with (if ?b then _ else _) = _ => destruct b; [discriminate|auto] end.
      + rewrite tget_tdel in H. match type of H with (if ?b then _ else _) = _ => destruct b; [discriminate|auto] end.
    - (* W1 *) intros w x Hx. left. now rewrite Hw, (wget_old m w x Hx).
    - (* W2 *) intros w x Hx _. now rewrite Hw, (wget_old m w x Hx).
    - (* W4 *) intros w x' Hn Hx Hp. rewrite Hw in Hx. destruct (Z.eqb_spec w (wuid m)); [|congruence]. subst w.
      destruct (Hneww x' Hx Hp) as [-> Hc]. unfold owner_ok. cbn. exists c'. now rewrite Hheap, Z.eqb_refl.
    - (* W5c *) intros c0 w x' H0. congruence.
    - (* W5d *) intros c0 w x' H0. congruence.
    - (* W6c *) intros w Hc. destruct (Hcw w Hc) as [-> Hn]. exists (mkW O_PENDING WOpen h u).
      rewrite Hw, Z.eqb_refl. repeat split; auto.
    - (* W6d *) intros w. rewrite Hdw. discriminate.
  Qed.
End NewChan.

Lemma tdel_absent {V} h k (t : table V) : tget h k t = None -> tdel h k t = t.
Proof.
  unfold tdel. induction t as [|e t IH]; cbn; auto.
  destruct (key_is h k e) eqn:E; [discriminate|]. intros H. cbn. now rewrite IH.
Qed.

Lemma tdel_tset {V} h k v (t : table V) : tdel h k (tset h k v t) = tdel h k t.
Proof.
  unfold tset. unfold tdel at 1. cbn [filter]. unfold key_is at 1. cbn. rewrite !Z.eqb_refl. cbn. apply tdel_tdel.
Qed.

Lemma free_fresh {V} h (t : table V) lo hi n x :
  In x (find_free_n lo hi (tkeys h t) n) -> tget h x t = None.
Proof.
  intros H. apply find_free_n_spec in H. destruct H as [_ H].
  destruct (tget h x t) eqn:E; auto. exfalso. apply H. apply tkeys_tget. congruence.
Qed.

Lemma find_free_bredr_fresh {V} h (t : table V) x : find_free_bredr (tkeys h t) = Some x -> tget h x t = None.
Proof.
  unfold find_free_bredr. destruct (find_free_n _ _ _ _) as [|y l] eqn:E; [discriminate|].
  intros [= <-]. eapply free_fresh. rewrite E. now left.
Qed.
Lemma find_free_le_fresh {V} h (t : table V) x : find_free_le (tkeys h t) = Some x -> tget h x t = None.
Proof.
  unfold find_free_le, find_free_le_n. destruct (find_free_n _ _ _ _) as [|y l] eqn:E; [discriminate|].
  intros [= <-]. eapply free_fresh. rewrite E. now left.
Qed.

(* a fresh uid is in no pending request *)
Lemma in_use_new_init m c0 : Inv m -> c_st c0 = SInit -> in_use m (huid m) c0 = false.
Proof.
  intros I E. unfold in_use. rewrite E.
  destruct (tget (c_conn c0) (c_ref c0) (m_pend m)) as [[w us]|] eqn:Ep; [|apply andb_false_r].
  destruct (memz (huid m) us) eqn:Em; [|apply andb_false_r].
  apply memz_In in Em. destruct (pend_ok m I _ _ _ _ Ep) as [_ B]. destruct (B _ Em) as [c1 (A & _)].
  rewrite hget_huid in A. discriminate.
Qed.

(* ------------------------------------------------------------------ create_classic_channel *)
Lemma inv_open_cl m h psm mode : Inv m -> Inv (fst (open_cl m h psm mode)).
Proof.
  intros I. unfold open_cl.
  destruct (find_free_bredr (tkeys h (m_chs m))) as [scid|] eqn:Ef; cbn [fst].
  2:{ apply inv_wnew_done; auto. discriminate. }
  apply find_free_bredr_fresh in Ef.
  set (c0 := mkChan KCl h scid 0 SClosed mode 0 0 true None None 0 true).
  set (c' := set_st (set_cw c0 (Some (wuid m))) SWaitConnectRsp).
  apply (inv_new_chan m _ c' true None (Some (mkW O_PENDING WOpen h (huid m))) I); cbn; auto.
  - intros u'. autorewrite with acc. destruct (Z.eqb_spec u' (huid m)); subst; cbn; reflexivity.
  - unfold chan_facts; cbn. split; [auto|split; [discriminate|split; discriminate]].
  - autorewrite with acc. reflexivity.
  - autorewrite with acc. reflexivity.
  - autorewrite with acc. reflexivity.
  - discriminate.
  - autorewrite with acc. reflexivity.
  - discriminate.
  - intros w. autorewrite with acc. reflexivity.
  - intros w [= <-]. auto.
  - intros x [= <-] _. auto.
Qed.

Arguments tset : simpl never.
Arguments tdel : simpl never.
Arguments tdrop : simpl never.
Arguments tget : simpl never.

(* ------------------------------------------------------------------ create_le_credit_based_channel *)
Lemma inv_open_le m h psm credits : Inv m -> Inv (fst (open_le m h psm credits)).
Proof.
  intros I. unfold open_le.
  destruct (find_free_le (tkeys h (m_chs m))) as [scid|] eqn:Ef; cbn [fst].
  2:{ apply inv_wnew_done; auto. discriminate. }
  apply find_free_le_fresh in Ef.
  set (c0 := mkChan KLe h scid 0 SInit 0 0 0 true None None 0 true).
  cbn [m_reqs next_id with_ids with_chs hnew with_heap].
  destruct (tget h (nid (with_chs (hnew m c0) (tset h scid (huid m) (m_chs (hnew m c0)))) h) (m_reqs m)) eqn:Er; cbn [fst].
  - (* identifier still in use: the channel object is created and dropped *)
    apply (inv_new_chan m _ c0 false None (Some (mkW O_ERROR WOpen h (huid m))) I); cbn; auto.
    + intros u'. autorewrite with acc. reflexivity.
    + unfold chan_facts; cbn. split; [discriminate|split; [discriminate|split; discriminate]].
    + rewrite tdel_tset. now apply tdel_absent.
    + change (in_use m (huid m) c0 = false). now apply in_use_new_init.
    + discriminate.
    + discriminate.
    + intros w. autorewrite with acc. reflexivity.
    + discriminate.
    + intros x [= <-]. discriminate.
  - set (i := nid (with_chs (hnew m c0) (tset h scid (huid m) (m_chs (hnew m c0)))) h) in *.
    set (c' := set_ref (set_st (set_cw c0 (Some (wuid m))) SConnecting) i).
    apply (inv_new_chan m _ c' true (Some i) (Some (mkW O_PENDING WOpen h (huid m))) I); cbn; auto.
    + intros u'. autorewrite with acc. destruct (Z.eqb_spec u' (huid m)); subst; cbn; reflexivity.
    + unfold chan_facts; cbn. split; [auto|split; [discriminate|split; discriminate]].
    + autorewrite with acc. reflexivity.
    + autorewrite with acc. reflexivity.
    + autorewrite with acc. reflexivity.
    + discriminate.
    + autorewrite with acc. reflexivity.
    + intros id [= <-]. auto.
    + intros w. autorewrite with acc. reflexivity.
    + intros w [= <-]. auto.
    + intros x [= <-] _. auto.
Qed.

(* ------------------------------------------------------------------ accepted channels *)
Lemma inv_accept_le m h local scid credits :
  Inv m -> tget h local (m_chs m) = None -> tget h scid (m_le m) = None ->
  let c' := mkChan KLe h local scid SConnected 0 credits 0 true None None 0 true in
  let m1 := hnew m c' in
  let m2 := with_chs m1 (tset h local (huid m) (m_chs m1)) in
  Inv (with_le m2 (tset h scid (huid m) (m_le m2))).
Proof.
  intros I Hc Hl c' m1 m2.
  apply (inv_new_chan m _ c' true None None I); subst m2 m1 c'; cbn; auto.
  - intros u'. autorewrite with acc. reflexivity.
  - unfold chan_facts; cbn. split; [discriminate|split; [discriminate|split; [auto|discriminate]]].
  - discriminate.
  - intros w. autorewrite with acc. destruct (Z.eqb_spec w (wuid m)); subst; auto using wget_wuid.
  - discriminate.
  - discriminate.
Qed.

Lemma inv_recv_conn_req m h id psm scid : Inv m -> Inv (fst (recv_conn_req m h id psm scid)).
Proof.
  intros I. unfold recv_conn_req.
  destruct (srv_get psm (m_clsrv m)) as [mode|]; [|auto].
  destruct (find_free_bredr (tkeys h (m_chs m))) as [local|] eqn:Ef; cbn [fst]; [|auto].
  apply find_free_bredr_fresh in Ef.
  set (c' := mkChan KCl h local scid SWaitConfigReqRsp mode 0 0 true None None 0 true).
  apply (inv_new_chan m _ c' true None None I); cbn; auto.
  - intros u'. autorewrite with acc. reflexivity.
  - unfold chan_facts; cbn. split; [discriminate|split; [discriminate|split; discriminate]].
  - discriminate.
  - discriminate.
  - intros w. autorewrite with acc. destruct (Z.eqb_spec w (wuid m)); subst; auto using wget_wuid.
  - discriminate.
  - discriminate.
Qed.
