(* Proofs about Model/ChanMgr.v: the invariant of the channel manager and the C09 theorems. *)
From Coq Require Import ZArith List Bool Lia.
From BV Require Import Gen.C09Tables Model.ChanMgr Proofs.ChanMgrLib.
Import ListNotations.
Open Scope Z_scope.

(* ================================================================== accessors of the primitives *)
(* every primitive is characterised by what it does to hget / wget / the five tables *)

Ltac prim :=
  unfold hupd, wres, wres_opt, hnew, wnew, next_id, with_heap, with_chs, with_le, with_reqs,
    with_pend, with_ids, with_w, hget, wget; cbn;
  repeat match goal with
         | |- context [if ?b <? 0 then _ else _] => destruct (b <? 0); cbn
         | |- context [match ?o with Some _ => _ | None => _ end] => destruct o; cbn
         end; auto.

(* --- fields untouched by heap updates *)
Lemma chs_hupd m u f : m_chs (hupd m u f) = m_chs m. Proof. prim. Qed.
Lemma le_hupd m u f : m_le (hupd m u f) = m_le m. Proof. prim. Qed.
Lemma reqs_hupd m u f : m_reqs (hupd m u f) = m_reqs m. Proof. prim. Qed.
Lemma pend_hupd m u f : m_pend (hupd m u f) = m_pend m. Proof. prim. Qed.
Lemma ids_hupd m u f : m_ids (hupd m u f) = m_ids m. Proof. prim. Qed.
Lemma wget_hupd m u f w : wget (hupd m u f) w = wget m w. Proof. prim. Qed.
Lemma lesrv_hupd m u f : m_lesrv (hupd m u f) = m_lesrv m. Proof. prim. Qed.
Lemma clsrv_hupd m u f : m_clsrv (hupd m u f) = m_clsrv m. Proof. prim. Qed.
Lemma wlen_hupd m u f : wuid (hupd m u f) = wuid m. Proof. unfold wuid. prim. Qed.
Lemma hlen_hupd m u f : huid (hupd m u f) = huid m.
Proof. unfold huid, hupd. destruct (u <? 0); cbn; [auto|]. now rewrite length_lupd. Qed.

Lemma chs_hnew m c : m_chs (hnew m c) = m_chs m. Proof. reflexivity. Qed.
Lemma le_hnew m c : m_le (hnew m c) = m_le m. Proof. reflexivity. Qed.
Lemma reqs_hnew m c : m_reqs (hnew m c) = m_reqs m. Proof. reflexivity. Qed.
Lemma pend_hnew m c : m_pend (hnew m c) = m_pend m. Proof. reflexivity. Qed.
Lemma ids_hnew m c : m_ids (hnew m c) = m_ids m. Proof. reflexivity. Qed.
Lemma wget_hnew m c w : wget (hnew m c) w = wget m w. Proof. reflexivity. Qed.
Lemma wlen_hnew m c : wuid (hnew m c) = wuid m. Proof. reflexivity. Qed.
Lemma hlen_hnew m c : huid (hnew m c) = huid m + 1.
Proof. unfold huid, hnew. cbn. rewrite app_length. cbn. lia. Qed.

(* --- fields untouched by waiter updates *)
Lemma chs_wres m w o : m_chs (wres m w o) = m_chs m. Proof. prim. Qed.
Lemma le_wres m w o : m_le (wres m w o) = m_le m. Proof. prim. Qed.
Lemma reqs_wres m w o : m_reqs (wres m w o) = m_reqs m. Proof. prim. Qed.
Lemma pend_wres m w o : m_pend (wres m w o) = m_pend m. Proof. prim. Qed.
Lemma ids_wres m w o : m_ids (wres m w o) = m_ids m. Proof. prim. Qed.
Lemma hget_wres m w o u : hget (wres m w o) u = hget m u. Proof. prim. Qed.
Lemma hlen_wres m w o : huid (wres m w o) = huid m. Proof. unfold huid. prim. Qed.
Lemma wlen_wres m w o : wuid (wres m w o) = wuid m.
Proof. unfold wuid, wres. destruct (w <? 0); cbn; [auto|]. now rewrite length_lupd. Qed.

Lemma chs_wres_opt m w o : m_chs (wres_opt m w o) = m_chs m. Proof. destruct w; cbn; auto using chs_wres. Qed.
Lemma le_wres_opt m w o : m_le (wres_opt m w o) = m_le m. Proof. destruct w; cbn; auto using le_wres. Qed.
Lemma reqs_wres_opt m w o : m_reqs (wres_opt m w o) = m_reqs m. Proof. destruct w; cbn; auto using reqs_wres. Qed.
Lemma pend_wres_opt m w o : m_pend (wres_opt m w o) = m_pend m. Proof. destruct w; cbn; auto using pend_wres. Qed.
Lemma ids_wres_opt m w o : m_ids (wres_opt m w o) = m_ids m. Proof. destruct w; cbn; auto using ids_wres. Qed.
Lemma hget_wres_opt m w o u : hget (wres_opt m w o) u = hget m u. Proof. destruct w; cbn; auto using hget_wres. Qed.
Lemma hlen_wres_opt m w o : huid (wres_opt m w o) = huid m. Proof. destruct w; cbn; auto using hlen_wres. Qed.
Lemma wlen_wres_opt m w o : wuid (wres_opt m w o) = wuid m. Proof. destruct w; cbn; auto using wlen_wres. Qed.
Lemma wget_wres_opt m w o w' :
  wget (wres_opt m w o) w' =
  match w with
  | Some x => if Z.eqb w' x then option_map (wres1 o) (wget m w') else wget m w'
  | None => wget m w' end.
Proof. destruct w; cbn; auto using wget_wres. Qed.

Lemma chs_wnew m o k h r : m_chs (wnew m o k h r) = m_chs m. Proof. reflexivity. Qed.
Lemma le_wnew m o k h r : m_le (wnew m o k h r) = m_le m. Proof. reflexivity. Qed.
Lemma reqs_wnew m o k h r : m_reqs (wnew m o k h r) = m_reqs m. Proof. reflexivity. Qed.
Lemma pend_wnew m o k h r : m_pend (wnew m o k h r) = m_pend m. Proof. reflexivity. Qed.
Lemma ids_wnew m o k h r : m_ids (wnew m o k h r) = m_ids m. Proof. reflexivity. Qed.
Lemma hget_wnew m o k h r u : hget (wnew m o k h r) u = hget m u. Proof. reflexivity. Qed.
Lemma hlen_wnew m o k h r : huid (wnew m o k h r) = huid m. Proof. reflexivity. Qed.
Lemma wlen_wnew m o k h r : wuid (wnew m o k h r) = wuid m + 1.
Proof. unfold wuid, wnew. cbn. rewrite app_length. cbn. lia. Qed.

(* --- next_id only touches identifiers *)
Lemma chs_next_id m h : m_chs (next_id m h) = m_chs m. Proof. reflexivity. Qed.
Lemma le_next_id m h : m_le (next_id m h) = m_le m. Proof. reflexivity. Qed.
Lemma reqs_next_id m h : m_reqs (next_id m h) = m_reqs m. Proof. reflexivity. Qed.
Lemma pend_next_id m h : m_pend (next_id m h) = m_pend m. Proof. reflexivity. Qed.
Lemma hget_next_id m h u : hget (next_id m h) u = hget m u. Proof. reflexivity. Qed.
Lemma wget_next_id m h w : wget (next_id m h) w = wget m w. Proof. reflexivity. Qed.
Lemma hlen_next_id m h : huid (next_id m h) = huid m. Proof. reflexivity. Qed.
Lemma wlen_next_id m h : wuid (next_id m h) = wuid m. Proof. reflexivity. Qed.

(* --- with_* *)
Lemma hget_with_chs m x u : hget (with_chs m x) u = hget m u. Proof. reflexivity. Qed.
Lemma hget_with_le m x u : hget (with_le m x) u = hget m u. Proof. reflexivity. Qed.
Lemma hget_with_reqs m x u : hget (with_reqs m x) u = hget m u. Proof. reflexivity. Qed.
Lemma hget_with_pend m x u : hget (with_pend m x) u = hget m u. Proof. reflexivity. Qed.
Lemma wget_with_chs m x w : wget (with_chs m x) w = wget m w. Proof. reflexivity. Qed.
Lemma wget_with_le m x w : wget (with_le m x) w = wget m w. Proof. reflexivity. Qed.
Lemma wget_with_reqs m x w : wget (with_reqs m x) w = wget m w. Proof. reflexivity. Qed.
Lemma wget_with_pend m x w : wget (with_pend m x) w = wget m w. Proof. reflexivity. Qed.

(* --- on_channel_closed *)
Lemma hget_occ m u c u' : hget (on_channel_closed m u c) u' = hget m u'.
Proof. unfold on_channel_closed. repeat destruct (is_uid _ _); reflexivity. Qed.
Lemma wget_occ m u c w : wget (on_channel_closed m u c) w = wget m w.
Proof. unfold on_channel_closed. repeat destruct (is_uid _ _); reflexivity. Qed.
Lemma reqs_occ m u c : m_reqs (on_channel_closed m u c) = m_reqs m.
Proof. unfold on_channel_closed. repeat destruct (is_uid _ _); reflexivity. Qed.
Lemma pend_occ m u c : m_pend (on_channel_closed m u c) = m_pend m.
Proof. unfold on_channel_closed. repeat destruct (is_uid _ _); reflexivity. Qed.
Lemma ids_occ m u c : m_ids (on_channel_closed m u c) = m_ids m.
Proof. unfold on_channel_closed. repeat destruct (is_uid _ _); reflexivity. Qed.
Lemma hlen_occ m u c : huid (on_channel_closed m u c) = huid m.
Proof. unfold on_channel_closed. repeat destruct (is_uid _ _); reflexivity. Qed.
Lemma wlen_occ m u c : wuid (on_channel_closed m u c) = wuid m.
Proof. unfold on_channel_closed. repeat destruct (is_uid _ _); reflexivity. Qed.
Lemma chs_occ m u c :
  m_chs (on_channel_closed m u c) =
  if is_uid (tget (c_conn c) (c_scid c) (m_chs m)) u then tdel (c_conn c) (c_scid c) (m_chs m) else m_chs m.
Proof. unfold on_channel_closed. repeat destruct (is_uid _ _); reflexivity. Qed.
Lemma le_occ m u c :
  m_le (on_channel_closed m u c) =
  if is_uid (tget (c_conn c) (c_dcid c) (m_le m)) u then tdel (c_conn c) (c_dcid c) (m_le m) else m_le m.
Proof.
  unfold on_channel_closed.
  destruct (is_uid (tget (c_conn c) (c_scid c) (m_chs m)) u); cbn;
    destruct (is_uid (tget (c_conn c) (c_dcid c) (m_le m)) u); reflexivity.
Qed.

Lemma is_uid_iff o u : is_uid o u = true <-> o = Some u.
Proof. destruct o; cbn; [rewrite Z.eqb_eq|]; split; congruence. Qed.

#[export] Hint Rewrite
  chs_hupd le_hupd reqs_hupd pend_hupd ids_hupd wget_hupd hlen_hupd wlen_hupd hget_hupd
  chs_hnew le_hnew reqs_hnew pend_hnew ids_hnew wget_hnew hlen_hnew wlen_hnew hget_hnew
  chs_wres le_wres reqs_wres pend_wres ids_wres hget_wres hlen_wres wlen_wres wget_wres
  chs_wres_opt le_wres_opt reqs_wres_opt pend_wres_opt ids_wres_opt hget_wres_opt hlen_wres_opt
  wlen_wres_opt wget_wres_opt
  chs_wnew le_wnew reqs_wnew pend_wnew ids_wnew hget_wnew hlen_wnew wlen_wnew wget_wnew
  chs_next_id le_next_id reqs_next_id pend_next_id hget_next_id wget_next_id hlen_next_id wlen_next_id
  hget_with_chs hget_with_le hget_with_reqs hget_with_pend
  wget_with_chs wget_with_le wget_with_reqs wget_with_pend
  hget_occ wget_occ reqs_occ pend_occ ids_occ hlen_occ wlen_occ chs_occ le_occ
  : acc.

#[export] Hint Rewrite @tget_tset @tget_tdel @tget_tdrop : acc.

(* ================================================================== the invariant *)
(* states in which a channel object is filed in `channels` whatever its waiters *)
Definition reg_st (s : cst) : bool :=
  match s with
  | SConnected | SDisconnecting | SWaitConfigReqRsp | SWaitConfigReq | SWaitConfigRsp
  | SOpen | SWaitDisconnect => true
  | _ => false
  end.

(* "the channel is in use": it is open or being opened / configured / closed on a connection
   that still exists.  This is the abstract set the `channels` table must equal. *)
Definition in_use (m : mgr) (u : Z) (c : chan) : bool :=
  c_live c &&
  match c_st c with
  | SConnecting | SWaitConnectRsp => match c_cw c with Some _ => true | None => false end
  | SInit => match tget (c_conn c) (c_ref c) (m_pend m) with
             | Some (_, us) => memz u us | None => false end
  | s => reg_st s
  end.

Definition cw_st (k : ckind) (s : cst) : bool :=
  match k, s with
  | KLe, SConnecting => true
  | KCl, SWaitConnectRsp | KCl, SWaitConfigReqRsp | KCl, SWaitConfigReq | KCl, SWaitConfigRsp => true
  | _, _ => false
  end.
Definition dw_st (k : ckind) (s : cst) : bool :=
  match k, s with KLe, SDisconnecting => true | KCl, SWaitDisconnect => true | _, _ => false end.

(* the two channel classes have different state types: an LE channel is never in a classic
   open state and vice versa *)
Definition kind_st (k : ckind) (s : cst) : bool :=
  match k with KLe => negb (cl_abortable_st s) | KCl => negb (le_open_st s) end.

Definition waiter_is (m : mgr) (w : Z) (k : wkind) (h r : Z) : Prop :=
  exists x, wget m w = Some x /\ w_out x = O_PENDING /\ w_kind x = k /\ w_conn x = h /\ w_ref x = r.

Record Inv (m : mgr) : Prop := {
  nd_chs : NoDup (map fst (m_chs m));
  nd_le : NoDup (map fst (m_le m));
  nd_reqs : NoDup (map fst (m_reqs m));
  nd_pend : NoDup (map fst (m_pend m));
  chs_pt : forall h k u, tget h k (m_chs m) = Some u ->
           exists c, hget m u = Some c /\ c_conn c = h /\ c_scid c = k;
  le_pt : forall h k u, tget h k (m_le m) = Some u ->
          exists c, hget m u = Some c /\ c_conn c = h /\ c_dcid c = k /\ c_kind c = KLe /\
                    c_live c = true /\ le_open_st (c_st c) = true;
  ch_reg : forall u c, hget m u = Some c ->
           (tget (c_conn c) (c_scid c) (m_chs m) = Some u <-> in_use m u c = true);
  ch_le : forall u c, hget m u = Some c -> c_kind c = KLe -> c_live c = true ->
          le_open_st (c_st c) = true -> tget (c_conn c) (c_dcid c) (m_le m) = Some u;
  ch_cw : forall u c w, hget m u = Some c -> c_cw c = Some w ->
          c_live c = true /\ cw_st (c_kind c) (c_st c) = true /\ waiter_is m w WOpen (c_conn c) u;
  ch_dw : forall u c w, hget m u = Some c -> c_dw c = Some w ->
          c_live c = true /\ dw_st (c_kind c) (c_st c) = true /\ waiter_is m w WClose (c_conn c) u;
  ch_dr : forall u c, hget m u = Some c -> c_drained c = false ->
          c_kind c = KLe /\ c_live c = true /\ c_st c = SConnected;
  ch_dead : forall u c, hget m u = Some c -> c_live c = false ->
            le_open_st (c_st c) = false /\ cl_abortable_st (c_st c) = false;
  ch_ks : forall u c, hget m u = Some c -> kind_st (c_kind c) (c_st c) = true;
  w_own : forall w x, wget m w = Some x -> w_out x = O_PENDING ->
          match w_kind x with
          | WOpen => exists c, hget m (w_ref x) = Some c /\ c_cw c = Some w
          | WClose => exists c, hget m (w_ref x) = Some c /\ c_dw c = Some w
          | WOpenEnh => exists us, tget (w_conn x) (w_ref x) (m_pend m) = Some (w, us)
          end;
  pend_ok : forall h id w us, tget h id (m_pend m) = Some (w, us) ->
            waiter_is m w WOpenEnh h id /\ NoDup us /\
            forall u, In u us ->
              exists c, hget m u = Some c /\ c_kind c = KLe /\ c_conn c = h /\ c_st c = SInit /\
                        c_ref c = id /\ c_live c = true /\ c_cw c = None /\ c_dw c = None;
  reqs_ok : forall h id k, tget h id (m_reqs m) = Some k ->
            exists u c, tget h k (m_chs m) = Some u /\ hget m u = Some c /\ c_kind c = KLe /\
                        c_st c = SConnecting /\ c_ref c = id
}.

Lemma hget_init lesrv clsrv u : hget (m_init lesrv clsrv) u = None.
Proof. unfold hget. cbn. destruct (u <? 0); [auto|]. now destruct (Z.to_nat u). Qed.
Lemma wget_init lesrv clsrv w : wget (m_init lesrv clsrv) w = None.
Proof. unfold wget. cbn. destruct (w <? 0); [auto|]. now destruct (Z.to_nat w). Qed.

Lemma inv_init lesrv clsrv : Inv (m_init lesrv clsrv).
Proof.
  constructor; try (cbn; apply NoDup_nil);
    intros *; rewrite ?hget_init, ?wget_init; cbn; discriminate.
Qed.

(* the invariant does not mention identifiers or servers *)
Lemma inv_ext m m' :
  (forall u, hget m' u = hget m u) -> (forall w, wget m' w = wget m w) ->
  m_chs m' = m_chs m -> m_le m' = m_le m -> m_reqs m' = m_reqs m -> m_pend m' = m_pend m ->
  Inv m -> Inv m'.
Proof.
  intros Hh Hw Hc Hl Hr Hp I.
  assert (Hiu : forall u c, in_use m' u c = in_use m u c) by (intros; unfold in_use; now rewrite Hp).
  assert (Hwi : forall w k h r, waiter_is m' w k h r <-> waiter_is m w k h r)
    by (intros; unfold waiter_is; now rewrite Hw).
  destruct I. constructor; rewrite ?Hc, ?Hl, ?Hr, ?Hp; try assumption.
  - intros h k u H. rewrite Hh. auto.
  - intros h k u H. rewrite Hh. auto.
  - intros u c H. rewrite Hh in H. rewrite Hiu. auto.
  - intros u c H. rewrite Hh in H. auto.
  - intros u c w H. rewrite Hh in H. rewrite Hwi. eauto.
  - intros u c w H. rewrite Hh in H. rewrite Hwi. eauto.
  - intros u c H. rewrite Hh in H. eauto.
  - intros u c H. rewrite Hh in H. eauto.
  - intros u c H. rewrite Hh in H. eauto.
  - intros w x H Ho. rewrite Hw in H. specialize (w_own0 w x H Ho).
    destruct (w_kind x); try (destruct w_own0 as [c Hc']; exists c; now rewrite Hh). auto.
  - intros h id w us H. specialize (pend_ok0 h id w us H). destruct pend_ok0 as (A & N & B).
    split; [now apply Hwi|split; [exact N|]]. intros u Hu. destruct (B u Hu) as [c Hc']. exists c. now rewrite Hh.
  - intros h id k H. destruct (reqs_ok0 h id k H) as [u [c Hc']]. exists u, c. now rewrite Hh.
Qed.

Lemma inv_next_id m h : Inv m -> Inv (next_id m h).
Proof. apply inv_ext; reflexivity. Qed.

(* ================================================================== a general frame lemma *)
(* m' is obtained from m by replacing the records of the channels on which chg is defined
   (new channels included) and changing tables / waiters accordingly; every premise is local
   to the changed channels. *)
Definition chan_facts (c : chan) : Prop :=
  (forall w, c_cw c = Some w -> c_live c = true /\ cw_st (c_kind c) (c_st c) = true) /\
  (forall w, c_dw c = Some w -> c_live c = true /\ dw_st (c_kind c) (c_st c) = true) /\
  (c_drained c = false -> c_kind c = KLe /\ c_live c = true /\ c_st c = SConnected) /\
  (c_live c = false -> le_open_st (c_st c) = false /\ cl_abortable_st (c_st c) = false) /\
  kind_st (c_kind c) (c_st c) = true.

Definition member_ok (c : chan) (h id : Z) : Prop :=
  c_kind c = KLe /\ c_conn c = h /\ c_st c = SInit /\ c_ref c = id /\ c_live c = true /\
  c_cw c = None /\ c_dw c = None.

Definition owner_ok (m : mgr) (w : Z) (x : waiter) : Prop :=
  match w_kind x with
  | WOpen => exists c, hget m (w_ref x) = Some c /\ c_cw c = Some w
  | WClose => exists c, hget m (w_ref x) = Some c /\ c_dw c = Some w
  | WOpenEnh => exists us, tget (w_conn x) (w_ref x) (m_pend m) = Some (w, us)
  end.

Section Frame.
  Variables (m m' : mgr) (chg : Z -> option chan).
  Hypothesis I : Inv m.
  (* heap *)
  Hypothesis Hheap : forall u, hget m' u = match chg u with Some c' => Some c' | None => hget m u end.
  Hypothesis Hfacts : forall u c', chg u = Some c' -> chan_facts c'.
  (* channels *)
  Hypothesis CH1 : NoDup (map fst (m_chs m')).
  Hypothesis CH2 : forall h k u, chg u = None -> (tget h k (m_chs m') = Some u <-> tget h k (m_chs m) = Some u).
  Hypothesis CH3 : forall h k u c', chg u = Some c' -> tget h k (m_chs m') = Some u -> h = c_conn c' /\ k = c_scid c'.
  Hypothesis CH4 : forall u c', chg u = Some c' ->
                   (tget (c_conn c') (c_scid c') (m_chs m') = Some u <-> in_use m' u c' = true).
  (* le_coc_channels *)
  Hypothesis LE1 : NoDup (map fst (m_le m')).
  Hypothesis LE2 : forall h k u, chg u = None -> (tget h k (m_le m') = Some u <-> tget h k (m_le m) = Some u).
  Hypothesis LE3 : forall h k u c', chg u = Some c' -> tget h k (m_le m') = Some u ->
                   h = c_conn c' /\ k = c_dcid c' /\ c_kind c' = KLe /\ c_live c' = true /\ le_open_st (c_st c') = true.
  Hypothesis LE4 : forall u c', chg u = Some c' -> c_kind c' = KLe -> c_live c' = true ->
                   le_open_st (c_st c') = true -> tget (c_conn c') (c_dcid c') (m_le m') = Some u.
  (* pending enhanced requests *)
  Hypothesis PE1 : NoDup (map fst (m_pend m')).
  Hypothesis PE2 : forall h id w us, tget h id (m_pend m') = Some (w, us) ->
                   (tget h id (m_pend m) = Some (w, us) /\ wget m' w = wget m w) \/
                   (waiter_is m' w WOpenEnh h id /\ NoDup us /\
                    forall u, In u us -> chg u = None -> exists c, hget m u = Some c /\ member_ok c h id).
  Hypothesis PE3 : forall h id w us u c', tget h id (m_pend m') = Some (w, us) -> In u us ->
                   chg u = Some c' -> member_ok c' h id.
  Hypothesis PE4 : forall u c, chg u = None -> hget m u = Some c -> in_use m' u c = in_use m u c.
  (* le_coc_requests *)
  Hypothesis RQ1 : NoDup (map fst (m_reqs m')).
  Hypothesis RQ2 : forall h id k, tget h id (m_reqs m') = Some k ->
                   exists u c, tget h k (m_chs m') = Some u /\ hget m' u = Some c /\ c_kind c = KLe /\
                               c_st c = SConnecting /\ c_ref c = id.
  (* waiters *)
  Hypothesis W1 : forall w x, wget m w = Some x ->
                  wget m' w = Some x \/ exists x', wget m' w = Some x' /\ w_out x' <> O_PENDING.
  Hypothesis W2 : forall u c w, chg u = None -> hget m u = Some c ->
                  c_cw c = Some w \/ c_dw c = Some w -> wget m' w = wget m w.
  Hypothesis W4 : forall w x', wget m w = None -> wget m' w = Some x' -> w_out x' = O_PENDING -> owner_ok m' w x'.
  Hypothesis W5c : forall u c c' w x', chg u = Some c' -> hget m u = Some c -> c_cw c = Some w ->
                   wget m' w = Some x' -> w_out x' = O_PENDING -> c_cw c' = Some w.
  Hypothesis W5d : forall u c c' w x', chg u = Some c' -> hget m u = Some c -> c_dw c = Some w ->
                   wget m' w = Some x' -> w_out x' = O_PENDING -> c_dw c' = Some w.
  Hypothesis W5p : forall h id w us x', tget h id (m_pend m) = Some (w, us) ->
                   wget m' w = Some x' -> w_out x' = O_PENDING -> exists us', tget h id (m_pend m') = Some (w, us').
  Hypothesis W6c : forall u c' w, chg u = Some c' -> c_cw c' = Some w -> waiter_is m' w WOpen (c_conn c') u.
  Hypothesis W6d : forall u c' w, chg u = Some c' -> c_dw c' = Some w -> waiter_is m' w WClose (c_conn c') u.

  Lemma inv_frame : Inv m'.
  Proof.
    destruct I as [i1 i2 i3 i4 ichs ile ireg ilec icw idw idr idead iks iown ipend ireqs].
    constructor; auto.
    - (* chs_pt *) intros h k u H. rewrite Hheap. destruct (chg u) as [c'|] eqn:E.
      + exists c'. destruct (CH3 _ _ _ _ E H). subst. auto.
      + apply CH2 in H; [|auto]. auto.
    - (* le_pt *) intros h k u H. rewrite Hheap. destruct (chg u) as [c'|] eqn:E.
      + exists c'. destruct (LE3 _ _ _ _ E H) as (?&?&?&?&?). subst. repeat split; auto.
      + apply LE2 in H; [|auto]. auto.
    - (* ch_reg *) intros u c H. rewrite Hheap in H. destruct (chg u) as [c'|] eqn:E.
      + inversion H; subst. auto.
      + rewrite PE4 by auto. rewrite CH2 by auto. auto.
    - (* ch_le *) intros u c H Hk Hl Ho. rewrite Hheap in H. destruct (chg u) as [c'|] eqn:E.
      + inversion H; subst. eauto.
      + apply LE2; auto.
    - (* ch_cw *) intros u c w H Hc. rewrite Hheap in H. destruct (chg u) as [c'|] eqn:E.
      + inversion H; subst. destruct (Hfacts _ _ E) as (F1 & _ & _ & _ & _). destruct (F1 _ Hc). eauto.
      + destruct (icw u c w H Hc) as (A & B & Wi). repeat split; auto.
        unfold waiter_is in *. rewrite (W2 u c w E H); auto.
    - (* ch_dw *) intros u c w H Hc. rewrite Hheap in H. destruct (chg u) as [c'|] eqn:E.
      + inversion H; subst. destruct (Hfacts _ _ E) as (_ & F1 & _ & _ & _). destruct (F1 _ Hc). eauto.
      + destruct (idw u c w H Hc) as (A & B & Wi). repeat split; auto.
        unfold waiter_is in *. rewrite (W2 u c w E H); auto.
    - (* ch_dr *) intros u c H Hd. rewrite Hheap in H. destruct (chg u) as [c'|] eqn:E.
      + inversion H; subst. destruct (Hfacts _ _ E) as (_ & _ & F & _ & _). auto.
      + eauto.
    - (* ch_dead *) intros u c H Hd. rewrite Hheap in H. destruct (chg u) as [c'|] eqn:E.
      + inversion H; subst. destruct (Hfacts _ _ E) as (_ & _ & _ & F & _). auto.
      + eauto.
    - (* ch_ks *) intros u c H. rewrite Hheap in H. destruct (chg u) as [c'|] eqn:E.
      + inversion H; subst. destruct (Hfacts _ _ E) as (_ & _ & _ & _ & F). auto.
      + eauto.
    - (* w_own *) intros w x' H Ho. change (owner_ok m' w x').
      destruct (wget m w) as [x|] eqn:Ew; [|eauto].
      destruct (W1 w x Ew) as [Hs|[x'' [Hs Hn]]]; [|congruence].
      assert (x' = x) by congruence. subst x'.
      specialize (iown w x Ew Ho). unfold owner_ok.
      destruct (w_kind x).
      * destruct iown as [c [Hc Hcw]]. rewrite Hheap. destruct (chg (w_ref x)) as [c'|] eqn:E; eauto.
      * destruct iown as [us Hus]. eapply W5p; eauto.
      * destruct iown as [c [Hc Hcw]]. rewrite Hheap. destruct (chg (w_ref x)) as [c'|] eqn:E; eauto.
    - (* pend_ok *) intros h id w us H.
      assert (Hmem : forall u, In u us -> (exists c, hget m' u = Some c /\ member_ok c h id)).
      { intros u Hu. rewrite Hheap. destruct (chg u) as [c'|] eqn:E.
        - exists c'. split; auto. eapply PE3; eauto.
        - destruct (PE2 _ _ _ _ H) as [[Ho _]|(_ & _ & Hc)]; [|eauto].
          destruct (ipend _ _ _ _ Ho) as (_ & _ & B). destruct (B u Hu) as [c Hc]. exists c. unfold member_ok. tauto. }
      split; [|split].
      + destruct (PE2 _ _ _ _ H) as [[Ho Hw]|[Hw _]]; auto.
        destruct (ipend _ _ _ _ Ho) as [A _]. unfold waiter_is in *. now rewrite Hw.
      + destruct (PE2 _ _ _ _ H) as [[Ho _]|(_ & N & _)]; auto.
        destruct (ipend _ _ _ _ Ho) as (_ & N & _). exact N.
      + intros u Hu. destruct (Hmem u Hu) as [c [Hc M]]. exists c. unfold member_ok in M. tauto.
  Qed.
End Frame.
(* ------------------------------------------------------------------ one channel changes *)
Definition chg1 (u : Z) (c' : chan) : Z -> option chan := fun u' => if Z.eqb u' u then Some c' else None.

Lemma chg1_some u c' u0 c0 : chg1 u c' u0 = Some c0 -> u0 = u /\ c0 = c'.
Proof. unfold chg1. destruct (Z.eqb_spec u0 u); [intros [= <-]; auto|discriminate]. Qed.
Lemma chg1_none u c' u0 : chg1 u c' u0 = None -> u0 <> u.
Proof. unfold chg1. destruct (Z.eqb_spec u0 u); [discriminate|auto]. Qed.

Section Frame1.
  Variables (m m' : mgr) (u : Z) (c' : chan).
  Hypothesis I : Inv m.
  Hypothesis Hheap : forall u', hget m' u' = if Z.eqb u' u then Some c' else hget m u'.
  Hypothesis Hfacts : chan_facts c'.
  Hypothesis CH1 : NoDup (map fst (m_chs m')).
  Hypothesis CH2 : forall h k u', u' <> u -> (tget h k (m_chs m') = Some u' <-> tget h k (m_chs m) = Some u').
  Hypothesis CH3 : forall h k, tget h k (m_chs m') = Some u -> h = c_conn c' /\ k = c_scid c'.
  Hypothesis CH4 : tget (c_conn c') (c_scid c') (m_chs m') = Some u <-> in_use m' u c' = true.
  Hypothesis LE1 : NoDup (map fst (m_le m')).
  Hypothesis LE2 : forall h k u', u' <> u -> (tget h k (m_le m') = Some u' <-> tget h k (m_le m) = Some u').
  Hypothesis LE3 : forall h k, tget h k (m_le m') = Some u ->
                   h = c_conn c' /\ k = c_dcid c' /\ c_kind c' = KLe /\ c_live c' = true /\ le_open_st (c_st c') = true.
  Hypothesis LE4 : c_kind c' = KLe -> c_live c' = true -> le_open_st (c_st c') = true ->
                   tget (c_conn c') (c_dcid c') (m_le m') = Some u.
  Hypothesis PE : m_pend m' = m_pend m.
  Hypothesis PE3 : forall h id w us, tget h id (m_pend m) = Some (w, us) -> In u us -> member_ok c' h id.
  Hypothesis RQ1 : NoDup (map fst (m_reqs m')).
  Hypothesis RQ2 : forall h id k, tget h id (m_reqs m') = Some k ->
                   exists u0 c, tget h k (m_chs m') = Some u0 /\ hget m' u0 = Some c /\ c_kind c = KLe /\
                               c_st c = SConnecting /\ c_ref c = id.
  Hypothesis W1 : forall w x, wget m w = Some x ->
                  wget m' w = Some x \/ exists x', wget m' w = Some x' /\ w_out x' <> O_PENDING.
  (* only the waiters of the changed channel (and new ones) are touched *)
  Hypothesis W2 : forall w x, wget m w = Some x -> w_ref x <> u \/ w_kind x = WOpenEnh -> wget m' w = Some x.
  Hypothesis W4 : forall w x', wget m w = None -> wget m' w = Some x' -> w_out x' = O_PENDING -> owner_ok m' w x'.
  Hypothesis W5c : forall c w x', hget m u = Some c -> c_cw c = Some w ->
                   wget m' w = Some x' -> w_out x' = O_PENDING -> c_cw c' = Some w.
  Hypothesis W5d : forall c w x', hget m u = Some c -> c_dw c = Some w ->
                   wget m' w = Some x' -> w_out x' = O_PENDING -> c_dw c' = Some w.
  Hypothesis W6c : forall w, c_cw c' = Some w -> waiter_is m' w WOpen (c_conn c') u.
  Hypothesis W6d : forall w, c_dw c' = Some w -> waiter_is m' w WClose (c_conn c') u.

  Lemma inv_frame1 : Inv m'.
  Proof.
    apply (inv_frame m m' (chg1 u c') I).
    - (* heap *) intros u0. rewrite Hheap. unfold chg1. destruct (Z.eqb u0 u); auto.
    - (* facts *) intros u0 c0 E. apply chg1_some in E. destruct E; subst. auto.
    - exact CH1.
    - intros h k u0 E. apply chg1_none in E. auto.
    - intros h k u0 c0 E. apply chg1_some in E. destruct E; subst. auto.
    - intros u0 c0 E. apply chg1_some in E. destruct E; subst. auto.
    - exact LE1.
    - intros h k u0 E. apply chg1_none in E. auto.
    - intros h k u0 c0 E. apply chg1_some in E. destruct E; subst. auto.
    - intros u0 c0 E. apply chg1_some in E. destruct E; subst. auto.
    - (* PE1 *) rewrite PE. apply I.
    - (* PE2 *) intros h id w us H. rewrite PE in H. left. split; auto.
      destruct (pend_ok m I _ _ _ _ H) as [[x (Hx & _ & Hk & _)] _].
      rewrite Hx. apply W2; auto.
    - (* PE3 *) intros h id w us u0 c0 H Hu E. apply chg1_some in E. destruct E; subst. rewrite PE in H. eauto.
    - (* PE4 *) intros u0 c E Hc. unfold in_use. now rewrite PE.
    - exact RQ1.
    - exact RQ2.
    - exact W1.
    - (* W2 *) intros u0 c w E Hc Hw. apply chg1_none in E.
      destruct Hw as [Hw|Hw].
      + destruct (ch_cw m I _ _ _ Hc Hw) as (_ & _ & [x (Hx & _ & _ & _ & Hr)]).
        rewrite Hx. apply W2; auto. left. congruence.
      + destruct (ch_dw m I _ _ _ Hc Hw) as (_ & _ & [x (Hx & _ & _ & _ & Hr)]).
        rewrite Hx. apply W2; auto. left. congruence.
    - exact W4.
    - intros u0 c c0 w x' E. apply chg1_some in E. destruct E; subst. eauto.
    - intros u0 c c0 w x' E. apply chg1_some in E. destruct E; subst. eauto.
    - (* W5p *) intros h id w us x' H Hw Ho. rewrite PE. eauto.
    - intros u0 c0 w E. apply chg1_some in E. destruct E; subst. auto.
    - intros u0 c0 w E. apply chg1_some in E. destruct E; subst. auto.
  Qed.
End Frame1.

(* ================================================================== one existing channel makes a step *)
Ltac zeq :=
  repeat match goal with
         | |- context [Z.eqb ?a ?b] => destruct (Z.eqb_spec a b); subst; cbn [andb orb negb option_map] in *
         | H : context [Z.eqb ?a ?b] |- _ => destruct (Z.eqb_spec a b); subst; cbn [andb orb negb option_map] in *
         end.

(* relations between a table and its update, seen from the other values *)
Lemma rel_tdel (t : table Z) h0 k0 u :
  tget h0 k0 t = Some u ->
  forall h k u', u' <> u -> (tget h k (tdel h0 k0 t) = Some u' <-> tget h k t = Some u').
Proof.
  intros H h k u' Hn. rewrite tget_tdel. destruct (Z.eqb_spec h h0), (Z.eqb_spec k k0); subst; cbn; try tauto.
  rewrite H. split; congruence.
Qed.

Lemma rel_tset (t : table Z) h0 k0 u :
  (tget h0 k0 t = None \/ tget h0 k0 t = Some u) ->
  forall h k u', u' <> u -> (tget h k (tset h0 k0 u t) = Some u' <-> tget h k t = Some u').
Proof.
  intros H h k u' Hn. rewrite tget_tset, tget_tdel.
  destruct (Z.eqb_spec h h0), (Z.eqb_spec k k0); subst; cbn; try tauto.
  destruct H as [H|H]; rewrite H; split; congruence.
Qed.

Definition le_reg (c : chan) : bool :=
  match c_kind c with KLe => c_live c && le_open_st (c_st c) | KCl => false end.

Lemma le_reg_iff c : le_reg c = true <-> c_kind c = KLe /\ c_live c = true /\ le_open_st (c_st c) = true.
Proof.
  unfold le_reg. destruct (c_kind c).
  - rewrite andb_true_iff. tauto.
  - split; [discriminate|]. intros (H & _). discriminate.
Qed.

Lemma in_use_pend m m' u c : m_pend m' = m_pend m -> in_use m' u c = in_use m u c.
Proof. unfold in_use. now intros ->. Qed.

(* from the invariant: where a channel is filed *)
Lemma chs_self m u c h k : Inv m -> hget m u = Some c -> tget h k (m_chs m) = Some u -> h = c_conn c /\ k = c_scid c.
Proof. intros I Hu H. destruct (chs_pt m I _ _ _ H) as [c0 (H0 & <- & <-)]. rewrite Hu in H0. now inversion H0. Qed.
Lemma le_self m u c h k : Inv m -> hget m u = Some c -> tget h k (m_le m) = Some u ->
  h = c_conn c /\ k = c_dcid c /\ le_reg c = true.
Proof.
  intros I Hu H. destruct (le_pt m I _ _ _ H) as [c0 (H0 & <- & <- & A & B & C)]. rewrite Hu in H0. inversion H0; subst.
  repeat split; auto. apply le_reg_iff; auto.
Qed.
Lemma le_reg_tget m u c : Inv m -> hget m u = Some c ->
  (tget (c_conn c) (c_dcid c) (m_le m) = Some u <-> le_reg c = true).
Proof.
  intros I Hu. split.
  - intros H. eapply le_self; eauto.
  - intros H. apply le_reg_iff in H. destruct H as (A & B & C). eapply ch_le; eauto.
Qed.

Section ChanStep.
  Variables (m m' : mgr) (u : Z) (c c' : chan) (o1 o2 : Z) (keepreq : bool).
  Hypothesis I : Inv m.
  Hypothesis Hu : hget m u = Some c.
  Hypothesis Hheap : forall u', hget m' u' = if Z.eqb u' u then Some c' else hget m u'.
  Hypothesis Hk : c_kind c' = c_kind c.
  Hypothesis Hconn : c_conn c' = c_conn c.
  Hypothesis Hscid : c_scid c' = c_scid c.
  Hypothesis Hlive : c_kind c = KLe -> c_st c = SConnecting -> c_live c' = c_live c.
  Hypothesis Hfacts : chan_facts c'.
  Hypothesis Hreg : in_use m u c' = true -> in_use m u c = true.
  Hypothesis Hchs : m_chs m' = if in_use m u c' then m_chs m
                               else if in_use m u c then tdel (c_conn c) (c_scid c) (m_chs m) else m_chs m.
  Hypothesis Hle : m_le m' = match le_reg c, le_reg c' with
                             | true, false => tdel (c_conn c) (c_dcid c) (m_le m)
                             | false, true => tset (c_conn c) (c_dcid c') u (m_le m)
                             | _, _ => m_le m end.
  Hypothesis Hdc : le_reg c = true -> le_reg c' = true -> c_dcid c' = c_dcid c.
  Hypothesis Hfresh : le_reg c = false -> le_reg c' = true -> tget (c_conn c) (c_dcid c') (m_le m) = None.
  Hypothesis Hpend : m_pend m' = m_pend m.
  Hypothesis Hinit : c_st c = SInit -> c_st c' = SInit /\ c_ref c' = c_ref c /\ c_live c' = c_live c /\
                                       c_cw c' = None /\ c_dw c' = None.
  Hypothesis Hreqs : m_reqs m' = if keepreq then m_reqs m else tdel (c_conn c) (c_ref c) (m_reqs m).
  Hypothesis Hkeep : keepreq = true -> c_kind c = KLe -> c_st c = SConnecting ->
                     tget (c_conn c) (c_ref c) (m_reqs m) = Some (c_scid c) ->
                     c_st c' = SConnecting /\ c_ref c' = c_ref c /\ c_cw c' = c_cw c.
  Hypothesis Hw : forall w, wget m' w =
                    if is_uid (c_cw c) w && negb (is_uid (c_cw c') w) then option_map (wres1 o1) (wget m w)
                    else if is_uid (c_dw c) w && negb (is_uid (c_dw c') w) then option_map (wres1 o2) (wget m w)
                    else wget m w.
  Hypothesis Ho1 : o1 <> O_PENDING.
  Hypothesis Ho2 : o2 <> O_PENDING.
  Hypothesis Hcw : c_cw c' = None \/ c_cw c' = c_cw c.
  Hypothesis Hdw : c_dw c' = None \/ c_dw c' = c_dw c.

  Lemma wres1_done o x : o <> O_PENDING -> w_out x = O_PENDING -> w_out (wres1 o x) <> O_PENDING.
  Proof. intros Ho Hx. unfold wres1. rewrite Hx. cbn. auto. Qed.

  Lemma wres1_pending o x : w_out (wres1 o x) = O_PENDING -> o <> O_PENDING -> False.
  Proof. unfold wres1. destruct (Z.eqb_spec (w_out x) O_PENDING); cbn; congruence. Qed.

  Lemma inv_chan_step : Inv m'.
  Proof.
    assert (Hiu : forall u0 c0, in_use m' u0 c0 = in_use m u0 c0) by (intros; now apply in_use_pend).
    pose proof (ch_reg m I u c Hu) as Hregc.
    pose proof (le_reg_tget m u c I Hu) as Hlec.
    assert (CH2 : forall h k u', u' <> u -> (tget h k (m_chs m') = Some u' <-> tget h k (m_chs m) = Some u')).
    { intros h k u' Hn. rewrite Hchs. destruct (in_use m u c'); [tauto|].
      destruct (in_use m u c) eqn:E; [|tauto]. apply (rel_tdel _ _ _ u); auto. now apply Hregc. }
    assert (Wcw : forall w, c_cw c = Some w -> waiter_is m w WOpen (c_conn c) u) by (intros; eapply ch_cw; eauto).
    assert (Wdw : forall w, c_dw c = Some w -> waiter_is m w WClose (c_conn c) u) by (intros; eapply ch_dw; eauto).
    apply (inv_frame1 m m' u c' I); auto.
    - (* CH1 *) rewrite Hchs. destruct (in_use m u c'); [apply (nd_chs m I)|]. destruct (in_use m u c); [apply NoDup_tdel|]; apply (nd_chs m I).
    - (* CH3 *) intros h k. rewrite Hchs, Hconn, Hscid. destruct (in_use m u c').
      + intros H. eapply chs_self; eauto.
      + destruct (in_use m u c) eqn:E; [|intros H; eapply chs_self; eauto].
        rewrite tget_tdel. intros H. destruct (Z.eqb h (c_conn c) && Z.eqb k (c_scid c)); [discriminate|].
        eapply chs_self; eauto.
    - (* CH4 *) rewrite Hiu, Hchs, Hconn, Hscid. destruct (in_use m u c') eqn:E.
      + rewrite Hregc. tauto.
      + destruct (in_use m u c) eqn:E2.
        * rewrite tget_tdel, !Z.eqb_refl. cbn. split; discriminate.
        * rewrite Hregc. tauto.
    - (* LE1 *) rewrite Hle. destruct (le_reg c), (le_reg c'); try apply (nd_le m I); [apply NoDup_tdel|apply NoDup_tset]; apply (nd_le m I).
    - (* LE2 *) intros h k u' Hn. rewrite Hle. destruct (le_reg c) eqn:E1, (le_reg c') eqn:E2; try tauto.
      + apply (rel_tdel _ _ _ u); auto. now apply Hlec.
      + apply (rel_tset _ _ _ u); auto.
    - (* LE3 *) intros h k. rewrite Hle, Hconn. destruct (le_reg c) eqn:E1, (le_reg c') eqn:E2.
      + intros H. destruct (le_self m u c h k I Hu H) as (A & B & _). apply le_reg_iff in E2. rewrite Hdc by auto. tauto.
      + rewrite tget_tdel. intros H. destruct (Z.eqb h (c_conn c) && Z.eqb k (c_dcid c)) eqn:E; [discriminate|].
        destruct (le_self m u c h k I Hu H) as (A & B & _). subst. rewrite !Z.eqb_refl in E. discriminate.
      + rewrite tget_tset. apply le_reg_iff in E2.
        destruct (Z.eqb_spec h (c_conn c)), (Z.eqb_spec k (c_dcid c')); subst; cbn; try tauto;
          rewrite tget_tdel; intros H;
          match type of H with (if ?b then _ else _) = _ => destruct b; [discriminate|] end;
          destruct (le_self m u c _ _ I Hu H) as (_ & _ & F); congruence.
      + intros H. destruct (le_self m u c h k I Hu H) as (_ & _ & F). congruence.
    - (* LE4 *) intros A B C. assert (E2 : le_reg c' = true) by (apply le_reg_iff; auto).
      rewrite Hle, Hconn, E2. destruct (le_reg c) eqn:E1.
      + rewrite Hdc by auto. now apply Hlec.
      + rewrite tget_tset, !Z.eqb_refl. reflexivity.
    - (* PE3 *) intros h id w us H Hin. destruct (pend_ok m I _ _ _ _ H) as (_ & _ & B).
      destruct (B u Hin) as [c0 (H0 & M)]. rewrite Hu in H0. inversion H0; subst c0.
      destruct M as (M1 & M2 & M3 & M4 & M5 & M6 & M7). destruct (Hinit M3) as (N1 & N2 & N3 & N4 & N5).
      unfold member_ok. rewrite Hk, Hconn, N1, N2, N3. tauto.
    - (* RQ1 *) rewrite Hreqs. destruct keepreq; [|apply NoDup_tdel]; apply (nd_reqs m I).
    - (* RQ2 *) intros h id k H.
      assert (Ho : tget h id (m_reqs m) = Some k).
      { rewrite Hreqs in H. destruct keepreq; auto. rewrite tget_tdel in H.
        destruct (Z.eqb h (c_conn c) && Z.eqb id (c_ref c)); [discriminate|auto]. }
      destruct (reqs_ok m I _ _ _ Ho) as [u0 [c0 (R1 & R2 & R3 & R4 & R5)]].
      destruct (Z.eqb_spec u0 u) as [->|Hn].
      + rewrite Hu in R2. inversion R2; subst c0. destruct (chs_self m u c h k I Hu R1) as [-> ->].
        destruct keepreq eqn:Ek.
        * assert (Hmine : tget (c_conn c) (c_ref c) (m_reqs m) = Some (c_scid c)) by (now rewrite R5).
          destruct (Hkeep eq_refl R3 R4 Hmine) as (S1 & S2 & S3). exists u, c'. rewrite Hheap, Z.eqb_refl.
          assert (Hin : in_use m u c = true) by (apply Hregc; auto).
          assert (Hin' : in_use m u c' = true).
          { unfold in_use in *. rewrite S1, S3, (Hlive R3 R4). now rewrite R4 in Hin. }
          rewrite Hchs, Hin'. repeat split; auto; congruence.
        * rewrite Hreqs, tget_tdel in H. subst id. rewrite !Z.eqb_refl in H. discriminate.
      + exists u0, c0. rewrite Hheap. destruct (Z.eqb_spec u0 u); [congruence|]. repeat split; auto.
        now apply CH2.
    - (* W1 *) intros w x Hx. rewrite Hw, Hx. cbn.
      destruct (Z.eqb_spec (w_out x) O_PENDING) as [Hp|Hp].
      + destruct (is_uid (c_cw c) w && negb (is_uid (c_cw c') w)); [right; eexists; split; eauto using wres1_done|].
        destruct (is_uid (c_dw c) w && negb (is_uid (c_dw c') w)); [right; eexists; split; eauto using wres1_done|auto].
      + assert (forall o, wres1 o x = x) by (intros; unfold wres1; destruct (Z.eqb_spec (w_out x) O_PENDING); congruence).
        rewrite !H. repeat destruct (_ && _); auto.
    - (* W2 *) intros w x Hx Hr. rewrite Hw.
      destruct (is_uid (c_cw c) w) eqn:E1.
      { apply is_uid_iff in E1. destruct (Wcw w E1) as [x0 (A & _ & B & _ & D)].
        rewrite Hx in A. inversion A; subst. destruct Hr; congruence. }
      destruct (is_uid (c_dw c) w) eqn:E2.
      { apply is_uid_iff in E2. destruct (Wdw w E2) as [x0 (A & _ & B & _ & D)].
        rewrite Hx in A. inversion A; subst. destruct Hr; congruence. }
      cbn. auto.
    - (* W4 *) intros w x' Hn. rewrite Hw, Hn. cbn. repeat destruct (_ && _); discriminate.
    - (* W5c *) intros c0 w x' H0 Hc Hx Hp. rewrite Hu in H0. inversion H0; subst c0.
      destruct Hcw as [Hn|Hn]; [|congruence]. exfalso.
      rewrite Hw, Hc, Hn in Hx. cbn in Hx. rewrite Z.eqb_refl in Hx. cbn in Hx.
      destruct (wget m w); [|discriminate]. inversion Hx; subst. eapply wres1_pending; eauto.
    - (* W5d *) intros c0 w x' H0 Hc Hx Hp. rewrite Hu in H0. inversion H0; subst c0.
      destruct Hdw as [Hn|Hn]; [|congruence]. exfalso.
      rewrite Hw in Hx. rewrite Hc, Hn in Hx. cbn in Hx. rewrite Z.eqb_refl in Hx. cbn in Hx.
      destruct (is_uid (c_cw c) w && negb (is_uid (c_cw c') w));
        (destruct (wget m w); [|discriminate]); inversion Hx; subst; eapply wres1_pending; eauto.
    - (* W6c *) intros w Hc. destruct Hcw as [Hn|Hn]; [congruence|]. rewrite Hn in Hc.
      destruct (Wcw w Hc) as [x (A & B & C & D & E)]. exists x. rewrite Hconn. repeat split; auto.
      rewrite Hw, Hn, Hc. cbn. rewrite Z.eqb_refl. cbn.
      destruct (is_uid (c_dw c) w) eqn:E2; [|auto].
      apply is_uid_iff in E2. destruct (Wdw w E2) as [x0 (A' & _ & B' & _)]. rewrite A in A'. inversion A'; subst. congruence.
    - (* W6d *) intros w Hc. destruct Hdw as [Hn|Hn]; [congruence|]. rewrite Hn in Hc.
      destruct (Wdw w Hc) as [x (A & B & C & D & E)]. exists x. rewrite Hconn. repeat split; auto.
      rewrite Hw, Hn, Hc. cbn. rewrite Z.eqb_refl. cbn.
      destruct (is_uid (c_cw c) w) eqn:E2; [|cbn; auto].
      apply is_uid_iff in E2. destruct (Wcw w E2) as [x0 (A' & _ & B' & _)]. rewrite A in A'. inversion A'; subst. congruence.
  Qed.
End ChanStep.
(* facts about one channel drawn from the invariant *)
Lemma inv_chan_facts m u c : Inv m -> hget m u = Some c -> chan_facts c.
Proof.
  intros I Hu. repeat split.
  - eapply ch_cw; eauto.
  - eapply ch_cw; eauto.
  - eapply ch_dw; eauto.
  - eapply ch_dw; eauto.
  - eapply ch_dr; eauto.
  - eapply ch_dr; eauto.
  - eapply ch_dr; eauto.
  - eapply ch_dead; eauto.
  - eapply ch_dead; eauto.
  - eapply ch_ks; eauto.
Qed.

Lemma live_of_open m u c : Inv m -> hget m u = Some c ->
  le_open_st (c_st c) = true \/ cl_abortable_st (c_st c) = true -> c_live c = true.
Proof.
  intros I Hu H. destruct (c_live c) eqn:E; auto.
  destruct (ch_dead m I u c Hu E) as [A B]. destruct H; congruence.
Qed.

Lemma init_no_waiters c : chan_facts c -> c_st c = SInit -> c_cw c = None /\ c_dw c = None.
Proof.
  intros (F1 & F2 & _) E. split.
  - destruct (c_cw c) as [w|] eqn:Ec; auto. destruct (F1 w eq_refl) as [_ H]. rewrite E in H. destruct (c_kind c); discriminate.
  - destruct (c_dw c) as [w|] eqn:Ec; auto. destruct (F2 w eq_refl) as [_ H]. rewrite E in H. destruct (c_kind c); discriminate.
Qed.

Ltac t_heap Hu :=
  let u' := fresh "u'" in
  intros u'; autorewrite with acc;
  match goal with |- context [Z.eqb u' ?x] => destruct (Z.eqb_spec u' x) end;
  subst; rewrite ?Hu; cbn; try reflexivity.

Ltac t_wsame := let w := fresh "w" in intros w; autorewrite with acc; cbn; rewrite ?andb_negb_r; try reflexivity.

(* ---------------------------------------------------------------- write / credits *)
Lemma inv_out m u c cr pe d :
  Inv m -> hget m u = Some c ->
  (d = false -> c_kind c = KLe /\ c_st c = SConnected) ->
  Inv (hupd m u (fun _ => set_out c cr pe d)).
Proof.
  intros I Hu Hd. pose proof (inv_chan_facts m u c I Hu) as (F1 & F2 & F3 & F4 & F5).
  refine (inv_chan_step m _ u c (set_out c cr pe d) O_ERROR O_ERROR true I Hu _ _ _ _ _ _ _ _ _ _ _ _ _ _ _ _ _ _ _ _).
  - t_heap Hu.
  - reflexivity.
  - reflexivity.
  - reflexivity.
  - intros _ _; reflexivity.
  - unfold chan_facts; cbn. split; [exact F1|split; [exact F2|split; [|split; [exact F4|exact F5]]]].
    intros ->. destruct Hd as [A B]; auto. repeat split; auto. eapply live_of_open; eauto. left. now rewrite B.
  - auto.
  - autorewrite with acc. change (in_use m u (set_out c cr pe d)) with (in_use m u c). destruct (in_use m u c); auto.
  - autorewrite with acc. change (le_reg (set_out c cr pe d)) with (le_reg c). destruct (le_reg c); auto.
  - auto.
  - change (le_reg (set_out c cr pe d)) with (le_reg c). congruence.
  - autorewrite with acc. reflexivity.
  - cbn. intros E. destruct (init_no_waiters c (inv_chan_facts m u c I Hu) E). auto.
  - autorewrite with acc. reflexivity.
  - cbn. auto.
  - t_wsame.
  - discriminate.
  - discriminate.
  - auto.
  - auto.
Qed.

Lemma bool_iff (a b : bool) : (a = true <-> b = true) -> a = b.
Proof. destruct a, b; intros [H1 H2]; auto. - symmetry. auto. Qed.

Lemma is_uid_chs m u c : Inv m -> hget m u = Some c ->
  is_uid (tget (c_conn c) (c_scid c) (m_chs m)) u = in_use m u c.
Proof. intros I Hu. apply bool_iff. rewrite is_uid_iff. now apply ch_reg. Qed.

Lemma is_uid_le m u c : Inv m -> hget m u = Some c ->
  is_uid (tget (c_conn c) (c_dcid c) (m_le m)) u = le_reg c.
Proof. intros I Hu. apply bool_iff. rewrite is_uid_iff. now apply le_reg_tget. Qed.

Lemma no_cw_unless c : chan_facts c -> cw_st (c_kind c) (c_st c) = false -> c_cw c = None.
Proof. intros (F1 & _) H. destruct (c_cw c) as [w|] eqn:E; auto. destruct (F1 w eq_refl). congruence. Qed.
Lemma no_dw_unless c : chan_facts c -> dw_st (c_kind c) (c_st c) = false -> c_dw c = None.
Proof. intros (_ & F2 & _) H. destruct (c_dw c) as [w|] eqn:E; auto. destruct (F2 w eq_refl). congruence. Qed.

(* the waiter part of a step that resolves the channel's disconnection_result *)
Lemma wget_res_dw m c c' o w :
  c_cw c' = c_cw c -> c_dw c' = None ->
  match c_dw c with
  | Some x => if Z.eqb w x then option_map (wres1 o) (wget m w) else wget m w
  | None => wget m w end =
  if is_uid (c_cw c) w && negb (is_uid (c_cw c') w) then option_map (wres1 O_ERROR) (wget m w)
  else if is_uid (c_dw c) w && negb (is_uid (c_dw c') w) then option_map (wres1 o) (wget m w)
  else wget m w.
Proof.
  intros -> ->. rewrite andb_negb_r. cbn. destruct (c_dw c); cbn; auto. rewrite andb_true_r, Z.eqb_sym. reflexivity.
Qed.

(* ---------------------------------------------------------------- LE channel closed by the peer / by a response *)
Lemma inv_le_closed m u c (fl : bool) :
  Inv m -> hget m u = Some c -> c_kind c = KLe ->
  tget (c_conn c) (c_scid c) (m_chs m) = Some u ->
  c_st c <> SInit -> c_st c <> SConnecting -> (fl = false -> c_st c <> SConnected) ->
  Inv (hupd (wres_opt (on_channel_closed (hupd m u (fun c => set_st c SDisconnected)) u c) (c_dw c) O_RESULT)
            u (fun c => if fl then flush_output (set_dw c None) else set_dw c None)).
Proof.
  intros I Hu Ek Hreg Hs1 Hs2 Hs3.
  pose proof (inv_chan_facts m u c I Hu) as F. pose proof F as (F1 & F2 & F3 & F4 & F5).
  assert (Hin : in_use m u c = true) by (apply (ch_reg m I u c Hu); auto).
  assert (Hcw : c_cw c = None).
  { apply no_cw_unless; auto. rewrite Ek. destruct (c_st c); auto; congruence. }
  set (c' := if fl then flush_output (set_dw (set_st c SDisconnected) None) else set_dw (set_st c SDisconnected) None).
  assert (Ec' : c_kind c' = c_kind c /\ c_conn c' = c_conn c /\ c_scid c' = c_scid c /\ c_live c' = c_live c /\
                c_st c' = SDisconnected /\ c_cw c' = c_cw c /\ c_dw c' = None /\ c_dcid c' = c_dcid c /\
                c_ref c' = c_ref c /\ (c_drained c' = false -> fl = false /\ c_drained c = false))
    by (subst c'; destruct fl; cbn; repeat split; auto; discriminate).
  destruct Ec' as (E1 & E2 & E3 & E4 & E5 & E6 & E7 & E8 & E9 & E10).
  assert (Hin' : in_use m u c' = false) by (unfold in_use; rewrite E5; cbn; apply andb_false_r).
  assert (Hle' : le_reg c' = false) by (unfold le_reg; rewrite E1, Ek, E5; cbn; apply andb_false_r).
  refine (inv_chan_step m _ u c c' O_ERROR O_RESULT true I Hu _ _ _ _ _ _ _ _ _ _ _ _ _ _ _ _ _ _ _ _).
  - t_heap Hu.
  - exact E1.
  - exact E2.
  - exact E3.
  - intros _ _; exact E4.
  - unfold chan_facts. rewrite E6, E7, E5, Hcw.
    split; [discriminate|split; [discriminate|split; [|split; [cbn; auto|rewrite E1, Ek; reflexivity]]]].
    intros Hd; destruct (E10 Hd) as [Hf Hd']; destruct (F3 Hd') as (_ & _ & Hc); exfalso; now apply Hs3.
  - congruence.
  - autorewrite with acc. rewrite (is_uid_chs m u c I Hu), Hin, Hin'. reflexivity.
  - autorewrite with acc. rewrite (is_uid_le m u c I Hu), Hle'. destruct (le_reg c); reflexivity.
  - congruence.
  - congruence.
  - autorewrite with acc. reflexivity.
  - intros; congruence.
  - autorewrite with acc. reflexivity.
  - intros; congruence.
  - intros w. autorewrite with acc. apply wget_res_dw; auto.
  - discriminate.
  - discriminate.
  - auto.
  - auto.
Qed.
Lemma in_use_live m u c : in_use m u c = true -> c_live c = true.
Proof. unfold in_use. now intros [H _]%andb_true_iff. Qed.

(* transfer along equal accessors *)
Lemma inv_hupd_fun m u c f : hget m u = Some c -> Inv (hupd m u (fun _ => f c)) -> Inv (hupd m u f).
Proof.
  intros Hu. apply inv_ext; try (autorewrite with acc; reflexivity).
  - intros u'. autorewrite with acc. destruct (Z.eqb_spec u' u); subst; rewrite ?Hu; reflexivity.
  - intros w. now autorewrite with acc.
Qed.

(* a waiter that is already completed can always be added *)
Lemma inv_wnew_done m o k h r : o <> O_PENDING -> Inv m -> Inv (wnew m o k h r).
Proof.
  intros Ho I.
  assert (Hold : forall w x, wget m w = Some x -> wget (wnew m o k h r) w = Some x).
  { intros w x Hx. rewrite wget_wnew. destruct (Z.eqb_spec w (wuid m)); auto.
    apply wget_bound in Hx. unfold wuid in *. lia. }
  assert (Hwi : forall w k' h' r', waiter_is m w k' h' r' -> waiter_is (wnew m o k h r) w k' h' r').
  { intros w k' h' r' [x (A & B)]. exists x. split; auto. }
  destruct I as [i1 i2 i3 i4 ichs ile ireg ilec icw idw idr idead iks iown ipend ireqs]. constructor; try assumption.
  - intros u c w Hu Hc. destruct (icw u c w Hu Hc) as (A & B & C). auto.
  - intros u c w Hu Hc. destruct (idw u c w Hu Hc) as (A & B & C). auto.
  - intros w x Hx Hp. rewrite wget_wnew in Hx. destruct (Z.eqb_spec w (wuid m)).
    + inversion Hx; subst x. cbn in Hp. congruence.
    + apply (iown w x Hx Hp).
  - intros h' id w us Hp. destruct (ipend h' id w us Hp) as (A & N & B). split; auto.
Qed.

(* dropping a pending request entry *)
Lemma inv_reqs_del m h id : Inv m -> Inv (with_reqs m (tdel h id (m_reqs m))).
Proof.
  intros I. destruct I as [i1 i2 i3 i4 ichs ile ireg ilec icw idw idr idead iks iown ipend ireqs]. constructor; try assumption; cbn.
  - now apply NoDup_tdel.
  - intros h' id' k H. rewrite tget_tdel in H. destruct (Z.eqb h' h && Z.eqb id' id); [discriminate|].
    apply (ireqs h' id' k H).
Qed.

(* ------------------------------------------------------------------ same registration *)
Lemma inv_upd_same m u c c' :
  Inv m -> hget m u = Some c ->
  c_kind c' = c_kind c -> c_conn c' = c_conn c -> c_scid c' = c_scid c -> c_live c' = c_live c ->
  c_cw c' = c_cw c -> c_dw c' = c_dw c -> c_ref c' = c_ref c ->
  (le_reg c = true -> c_dcid c' = c_dcid c) ->
  in_use m u c' = in_use m u c -> le_reg c' = le_reg c ->
  chan_facts c' ->
  (c_st c = SInit -> c_st c' = SInit) ->
  (c_kind c = KLe -> c_st c = SConnecting -> c_st c' = SConnecting) ->
  Inv (hupd m u (fun _ => c')).
Proof.
  intros I Hu E1 E2 E3 E4 E5 E6 E7 E8 Hin Hle Hf Hi Hc.
  refine (inv_chan_step m _ u c c' O_ERROR O_ERROR true I Hu _ _ _ _ _ _ _ _ _ _ _ _ _ _ _ _ _ _ _ _).
  - t_heap Hu.
  - exact E1.
  - exact E2.
  - exact E3.
  - intros _ _; exact E4.
  - exact Hf.
  - congruence.
  - autorewrite with acc. rewrite Hin. destruct (in_use m u c); reflexivity.
  - autorewrite with acc. rewrite Hle. destruct (le_reg c); reflexivity.
  - auto.
  - congruence.
  - autorewrite with acc. reflexivity.
  - intros E. destruct (init_no_waiters c (inv_chan_facts m u c I Hu) E). repeat split; auto; congruence.
  - autorewrite with acc. reflexivity.
  - intros _ A B. auto.
  - intros w. autorewrite with acc. rewrite E5, E6, !andb_negb_r. reflexivity.
  - discriminate.
  - discriminate.
  - auto.
  - auto.
Qed.
Definition dead_st (s : cst) : bool :=
  match s with SDisconnected | SConnError | SClosed | SOrphan => true | _ => false end.

Lemma wres1_twice o1 o2 x : o1 <> O_PENDING -> wres1 o2 (wres1 o1 x) = wres1 o1 x.
Proof.
  intros H. unfold wres1. destruct (Z.eqb_spec (w_out x) O_PENDING) as [E|E]; cbn.
  - destruct (Z.eqb_spec o1 O_PENDING); [congruence|reflexivity].
  - destruct (Z.eqb_spec (w_out x) O_PENDING); [congruence|reflexivity].
Qed.

Lemma wget_res2 m cw dw o1 o2 w : o1 <> O_PENDING ->
  wget (wres_opt (wres_opt m cw o1) dw o2) w =
  if is_uid cw w then option_map (wres1 o1) (wget m w)
  else if is_uid dw w then option_map (wres1 o2) (wget m w) else wget m w.
Proof.
  intros Ho. autorewrite with acc. destruct cw as [x|], dw as [y|]; cbn; rewrite ?(Z.eqb_sym w); auto.
  destruct (Z.eqb_spec x w), (Z.eqb_spec y w); subst; auto.
  destruct (wget m w); cbn; auto. now rewrite wres1_twice.
Qed.

(* ------------------------------------------------------------------ a channel in use is closed *)
Section Closed.
  Variables (m m' : mgr) (u : Z) (c c' : chan) (o1 o2 : Z) (keepreq : bool).
  Hypothesis I : Inv m.
  Hypothesis Hu : hget m u = Some c.
  Hypothesis Hin : in_use m u c = true.
  Hypothesis Hheap : forall u', hget m' u' = if Z.eqb u' u then Some c' else hget m u'.
  Hypothesis Hk : c_kind c' = c_kind c.
  Hypothesis Hconn : c_conn c' = c_conn c.
  Hypothesis Hscid : c_scid c' = c_scid c.
  Hypothesis Hlive : c_live c' = c_live c.
  Hypothesis Hst : dead_st (c_st c') = true.
  Hypothesis Hcw' : c_cw c' = None.
  Hypothesis Hdw' : c_dw c' = None.
  Hypothesis Hdr : c_drained c' = false -> c_drained c = false /\ c_st c <> SConnected.
  Hypothesis Hchs : m_chs m' = tdel (c_conn c) (c_scid c) (m_chs m).
  Hypothesis Hle : m_le m' = if le_reg c then tdel (c_conn c) (c_dcid c) (m_le m) else m_le m.
  Hypothesis Hpend : m_pend m' = m_pend m.
  Hypothesis Hninit : c_st c <> SInit.
  Hypothesis Hreqs : m_reqs m' = if keepreq then m_reqs m else tdel (c_conn c) (c_ref c) (m_reqs m).
  Hypothesis Hkeep : keepreq = true -> c_kind c = KLe -> c_st c = SConnecting -> False.
  Hypothesis Hw : forall w, wget m' w =
                    if is_uid (c_cw c) w then option_map (wres1 o1) (wget m w)
                    else if is_uid (c_dw c) w then option_map (wres1 o2) (wget m w) else wget m w.
  Hypothesis Ho1 : o1 <> O_PENDING.
  Hypothesis Ho2 : o2 <> O_PENDING.

  Lemma inv_closed_gen : Inv m'.
  Proof.
    assert (Hin' : in_use m u c' = false).
    { unfold in_use. destruct (c_st c'); try discriminate; cbn; apply andb_false_r. }
    assert (Hle' : le_reg c' = false).
    { unfold le_reg. destruct (c_kind c'); auto. destruct (c_st c'); try discriminate; cbn; apply andb_false_r. }
    pose proof (inv_chan_facts m u c I Hu) as (F1 & F2 & F3 & F4 & F5).
    refine (inv_chan_step m m' u c c' o1 o2 keepreq I Hu Hheap Hk Hconn Hscid (fun _ _ => Hlive) _ _ _ _ _ _ Hpend _ Hreqs _ _ Ho1 Ho2 _ _).
    - unfold chan_facts. rewrite Hcw', Hdw'.
      split; [discriminate|split; [discriminate|split; [|split]]].
      + intros Hd. destruct (Hdr Hd) as [A B]. destruct (F3 A) as (_ & _ & C). congruence.
      + intros _. destruct (c_st c'); try discriminate; auto.
      + destruct (c_kind c'), (c_st c'); try discriminate; reflexivity.
    - congruence.
    - rewrite Hin', Hin. exact Hchs.
    - rewrite Hle'. rewrite Hle. destruct (le_reg c); reflexivity.
    - congruence.
    - congruence.
    - intros E. congruence.
    - intros A B C. exfalso. auto.
    - intros w. rewrite Hw, Hcw', Hdw'. cbn. rewrite !andb_true_r. reflexivity.
    - auto.
    - auto.
  Qed.
End Closed.
#[export] Hint Rewrite wget_hupd wget_occ wget_with_chs wget_with_le wget_with_reqs wget_with_pend
  wget_next_id wget_hnew : accw.

Lemma wget_wres_opt' m w o w' :
  wget (wres_opt m w o) w' = if is_uid w w' then option_map (wres1 o) (wget m w') else wget m w'.
Proof. rewrite wget_wres_opt. destruct w; cbn; auto. now rewrite Z.eqb_sym. Qed.
#[export] Hint Rewrite wget_wres_opt' : accw.

Lemma res2_norm (a b : bool) o1 o2 (g : option waiter) : o1 <> O_PENDING ->
  (if b then option_map (wres1 o2) (if a then option_map (wres1 o1) g else g)
   else if a then option_map (wres1 o1) g else g) =
  (if a then option_map (wres1 o1) g else if b then option_map (wres1 o2) g else g).
Proof. intros H. destruct a, b, g; cbn; auto. now rewrite wres1_twice. Qed.

Lemma tdel_tdel {V} h k (t : table V) : tdel h k (tdel h k t) = tdel h k t.
Proof.
  unfold tdel. induction t as [|e t IH]; cbn; auto.
  destruct (key_is h k e) eqn:E; cbn; auto. rewrite E. cbn. now rewrite IH.
Qed.

Lemma wpending_cw m u c w : Inv m -> hget m u = Some c -> c_cw c = Some w -> wpending m (c_cw c) = true.
Proof.
  intros I Hu Hc. destruct (ch_cw m I u c w Hu Hc) as (_ & _ & [x (A & B & _)]).
  rewrite Hc. cbn. rewrite wout_wget, A, B. reflexivity.
Qed.

Lemma wpending_none m u c : Inv m -> hget m u = Some c -> wpending m (c_cw c) = false -> c_cw c = None.
Proof.
  intros I Hu H. destruct (c_cw c) as [w|] eqn:Hc; auto.
  pose proof (wpending_cw m u c w I Hu Hc) as P. rewrite Hc in P. congruence.
Qed.

Lemma reg_in_use m u c : Inv m -> hget m u = Some c -> tget (c_conn c) (c_scid c) (m_chs m) = Some u -> in_use m u c = true.
Proof. intros I Hu H. now apply (ch_reg m I u c Hu). Qed.

Lemma init_in_use_le m u c : Inv m -> hget m u = Some c -> c_st c = SInit -> in_use m u c = true -> c_kind c = KLe.
Proof.
  intros I Hu E H. unfold in_use in H. rewrite E in H. apply andb_true_iff in H. destruct H as [_ H].
  destruct (tget (c_conn c) (c_ref c) (m_pend m)) as [[w us]|] eqn:Ep; [|discriminate].
  apply memz_In in H. destruct (pend_ok m I _ _ _ _ Ep) as (_ & _ & B). destruct (B u H) as [c0 (A & K & _)].
  rewrite Hu in A. now inversion A; subst.
Qed.

(* ---------------------------------------------------------------- classic: disconnection response *)
Lemma inv_cl_disc_rsp m u c :
  Inv m -> hget m u = Some c -> c_kind c = KCl -> c_st c = SWaitDisconnect ->
  Inv (on_channel_closed (hupd (wres_opt (hupd m u (fun c => set_st c SClosed)) (c_dw c) O_RESULT)
                               u (fun c => set_dw c None)) u c).
Proof.
  intros I Hu Ek Es.
  pose proof (inv_chan_facts m u c I Hu) as F. pose proof F as (F1 & F2 & F3 & F4 & F5).
  assert (El : c_live c = true) by (eapply live_of_open; eauto; right; now rewrite Es).
  assert (Hin : in_use m u c = true) by (unfold in_use; rewrite El, Es; reflexivity).
  assert (Hcw : c_cw c = None) by (apply no_cw_unless; auto; now rewrite Ek, Es).
  apply (inv_closed_gen m _ u c (set_dw (set_st c SClosed) None) O_ERROR O_RESULT true I Hu Hin); cbn; auto; try discriminate.
  - t_heap Hu.
  - intros Hd. destruct (F3 Hd) as (K & _). congruence.
  - autorewrite with acc. now rewrite (is_uid_chs m u c I Hu), Hin.
  - autorewrite with acc. rewrite (is_uid_le m u c I Hu). destruct (le_reg c); reflexivity.
  - autorewrite with acc. reflexivity.
  - congruence.
  - autorewrite with acc. reflexivity.
  - intros _ K. congruence.
  - intros w. autorewrite with accw. rewrite Hcw. reflexivity.
Qed.

(* ---------------------------------------------------------------- classic: disconnection request *)
Lemma inv_cl_disc_req m u c :
  Inv m -> hget m u = Some c -> c_kind c = KCl ->
  tget (c_conn c) (c_scid c) (m_chs m) = Some u ->
  let m4 := on_channel_closed
              (hupd (wres_opt (hupd (wres_opt m (c_cw c) O_ERROR) u (fun c => set_st c SClosed)) (c_dw c) O_RESULT)
                    u (fun c => set_dw c None)) u c in
  Inv (if wpending m (c_cw c) then cl_connect_failed m4 u c else m4).
Proof.
  intros I Hu Ek Hreg m4.
  pose proof (inv_chan_facts m u c I Hu) as F. pose proof F as (F1 & F2 & F3 & F4 & F5).
  assert (Hin : in_use m u c = true) by (eapply reg_in_use; eauto).
  destruct (wpending m (c_cw c)) eqn:Ew.
  - apply (inv_closed_gen m _ u c (set_cw (set_dw (set_st c SClosed) None) None) O_ERROR O_RESULT true I Hu Hin);
      subst m4; unfold cl_connect_failed; cbn; auto; try discriminate.
    + t_heap Hu.
    + intros Hd. destruct (F3 Hd) as (K & _). congruence.
    + autorewrite with acc. rewrite (is_uid_chs m u c I Hu), Hin. apply tdel_tdel.
    + autorewrite with acc. rewrite (is_uid_le m u c I Hu). destruct (le_reg c); reflexivity.
    + autorewrite with acc. reflexivity.
    + intros E. pose proof (init_in_use_le m u c I Hu E Hin). congruence.
    + autorewrite with acc. reflexivity.
    + intros _ K. congruence.
    + intros w. autorewrite with accw. apply res2_norm. discriminate.
  - assert (Hcw : c_cw c = None) by (eapply wpending_none; eauto).
    apply (inv_closed_gen m _ u c (set_dw (set_st c SClosed) None) O_ERROR O_RESULT true I Hu Hin);
      subst m4; cbn; auto; try discriminate.
    + t_heap Hu.
    + intros Hd. destruct (F3 Hd) as (K & _). congruence.
    + autorewrite with acc. now rewrite (is_uid_chs m u c I Hu), Hin.
    + autorewrite with acc. rewrite (is_uid_le m u c I Hu). destruct (le_reg c); reflexivity.
    + autorewrite with acc. reflexivity.
    + intros E. pose proof (init_in_use_le m u c I Hu E Hin). congruence.
    + autorewrite with acc. reflexivity.
    + intros _ K. congruence.
    + intros w. autorewrite with accw. apply res2_norm. discriminate.
Qed.

(* ---------------------------------------------------------------- abort() *)
Lemma set_same_cw c : c_cw c = None -> set_cw c None = c.
Proof. destruct c; cbn; intros ->; reflexivity. Qed.
Lemma set_same_dw c : c_dw c = None -> set_dw c None = c.
Proof. destruct c; cbn; intros ->; reflexivity. Qed.

Lemma inv_hupd_id m u c : hget m u = Some c -> Inv m -> Inv (hupd m u (fun _ => c)).
Proof.
  intros Hu. apply inv_ext; try (autorewrite with acc; reflexivity).
  - intros u'. autorewrite with acc. destruct (Z.eqb_spec u' u); subst; rewrite ?Hu; reflexivity.
  - intros w. now autorewrite with acc.
Qed.

(* accessors of le_open_abandoned *)
Lemma hget_loa m u c u' : hget (le_open_abandoned m u c) u' = hget m u'.
Proof. unfold le_open_abandoned. repeat destruct (is_uid _ _); reflexivity. Qed.
Lemma wget_loa m u c w : wget (le_open_abandoned m u c) w = wget m w.
Proof. unfold le_open_abandoned. repeat destruct (is_uid _ _); reflexivity. Qed.
Lemma le_loa m u c : m_le (le_open_abandoned m u c) = m_le m.
Proof. unfold le_open_abandoned. repeat destruct (is_uid _ _); reflexivity. Qed.
Lemma pend_loa m u c : m_pend (le_open_abandoned m u c) = m_pend m.
Proof. unfold le_open_abandoned. repeat destruct (is_uid _ _); reflexivity. Qed.
Lemma ids_loa m u c : m_ids (le_open_abandoned m u c) = m_ids m.
Proof. unfold le_open_abandoned. repeat destruct (is_uid _ _); reflexivity. Qed.
Lemma reqs_loa m u c : m_reqs (le_open_abandoned m u c) =
  if is_uid (tget (c_conn c) (c_ref c) (m_reqs m)) (c_scid c) then tdel (c_conn c) (c_ref c) (m_reqs m) else m_reqs m.
Proof. unfold le_open_abandoned. repeat destruct (is_uid _ _); reflexivity. Qed.
Lemma chs_loa m u c : m_chs (le_open_abandoned m u c) =
  if is_uid (tget (c_conn c) (c_scid c) (m_chs m)) u then tdel (c_conn c) (c_scid c) (m_chs m) else m_chs m.
Proof.
  unfold le_open_abandoned.
  destruct (is_uid (tget (c_conn c) (c_ref c) (m_reqs m)) (c_scid c)); cbn;
    destruct (is_uid (tget (c_conn c) (c_scid c) (m_chs m)) u); reflexivity.
Qed.
#[export] Hint Rewrite hget_loa wget_loa le_loa pend_loa ids_loa reqs_loa chs_loa : acc.
#[export] Hint Rewrite wget_loa : accw.

(* a pending LE open is given up (abort() of the connecting channel, or the caller cancels the
   awaiting task): the channel is unregistered, its request forgotten, its future cancelled *)
Lemma inv_le_abandon m u c w f :
  Inv m -> hget m u = Some c -> c_kind c = KLe -> c_st c = SConnecting -> c_cw c = Some w ->
  c_kind (f c) = c_kind c -> c_conn (f c) = c_conn c -> c_scid (f c) = c_scid c -> c_dcid (f c) = c_dcid c ->
  c_live (f c) = c_live c -> c_st (f c) = c_st c -> c_ref (f c) = c_ref c -> c_cw (f c) = None ->
  c_dw (f c) = c_dw c -> (c_drained (f c) = false -> c_drained c = false) ->
  Inv (le_open_abandoned (hupd (wres m w O_CANCELLED) u f) u c).
Proof.
  intros I Hu Ek Es Hcw E1 E2 E3 E4 E5 E6 E7 E8 E9 E10.
  pose proof (inv_chan_facts m u c I Hu) as F. pose proof F as (F1 & F2 & F3 & F4 & F5).
  destruct (F1 w Hcw) as [El _].
  assert (Hin : in_use m u c = true) by (unfold in_use; now rewrite El, Es, Hcw).
  assert (Hin' : in_use m u (f c) = false) by (unfold in_use; rewrite E6, Es, E8; apply andb_false_r).
  assert (Hle : le_reg c = false) by (unfold le_reg; rewrite Ek, Es; apply andb_false_r).
  assert (Hle' : le_reg (f c) = false) by (unfold le_reg; rewrite E1, Ek, E6, Es; apply andb_false_r).
  assert (Hdw : c_dw c = None) by (apply no_dw_unless; auto; now rewrite Ek, Es).
  refine (inv_chan_step m _ u c (f c) O_CANCELLED O_ERROR
            (negb (is_uid (tget (c_conn c) (c_ref c) (m_reqs m)) (c_scid c))) I Hu _ E1 E2 E3 (fun _ _ => E5) _ _ _ _ _ _ _ _ _ _ _ _ _ _ _).
  - t_heap Hu.
  - unfold chan_facts. rewrite E8, E9, Hdw, E6, E1, E5.
    split; [discriminate|split; [discriminate|split; [|split; [exact F4|exact F5]]]].
    intros Hd. destruct (F3 (E10 Hd)) as (_ & _ & B). congruence.
  - congruence.
  - autorewrite with acc. now rewrite (is_uid_chs m u c I Hu), Hin, Hin'.
  - autorewrite with acc. now rewrite Hle, Hle'.
  - congruence.
  - congruence.
  - autorewrite with acc. reflexivity.
  - congruence.
  - autorewrite with acc. destruct (is_uid _ _); reflexivity.
  - intros Hk _ _ Hr. rewrite Hr in Hk. cbn in Hk. rewrite Z.eqb_refl in Hk. discriminate.
  - intros w0. autorewrite with accw. rewrite wget_wres, Hcw, E8, E9, Hdw. cbn. rewrite andb_true_r, Z.eqb_sym. reflexivity.
  - discriminate.
  - discriminate.
  - auto.
  - right. congruence.
Qed.

Lemma inv_abort m u : Inv m -> Inv (abort_chan m u).
Proof.
  intros I. unfold abort_chan.
  destruct (hget m u) as [c|] eqn:Hu; [|auto].
  pose proof (inv_chan_facts m u c I Hu) as F. pose proof F as (F1 & F2 & F3 & F4 & F5).
  destruct (c_kind c) eqn:Ek.
  - (* LE *)
    destruct (le_open_st (c_st c)) eqn:Eo.
    + (* closing *)
      assert (Hcw : c_cw c = None).
      { apply no_cw_unless; auto. rewrite Ek. destruct (c_st c); auto; discriminate. }
      rewrite Hcw. cbn [wres_opt wpending].
      assert (El : c_live c = true) by (eapply live_of_open; eauto).
      assert (Hin : in_use m u c = true) by (unfold in_use; rewrite El; destruct (c_st c); try discriminate; auto).
      replace (match c_st c with SConnected | SDisconnecting => true | _ => false end) with true
        by (destruct (c_st c); try discriminate; auto).
      apply (inv_closed_gen m _ u c (flush_output (set_dw (set_cw (set_st c SDisconnected) None) None))
                            O_CANCELLED O_RESULT true I Hu Hin); cbn; auto; try discriminate.
      * t_heap Hu.
      * autorewrite with acc. now rewrite (is_uid_chs m u c I Hu), Hin.
      * autorewrite with acc. rewrite (is_uid_le m u c I Hu). destruct (le_reg c); reflexivity.
      * autorewrite with acc. reflexivity.
      * intros E. rewrite E in Eo. discriminate.
      * autorewrite with acc. reflexivity.
      * intros _ _ E. rewrite E in Eo. discriminate.
      * intros w. autorewrite with accw. rewrite Hcw. reflexivity.
    + (* not open *)
      replace (match c_st c with SConnected | SDisconnecting => true | _ => false end) with false
        by (destruct (c_st c); try discriminate; auto).
      assert (Hdw : c_dw c = None).
      { apply no_dw_unless; auto. rewrite Ek. destruct (c_st c); auto; discriminate. }
      rewrite Hdw.
      destruct (c_cw c) as [w|] eqn:Hcw.
      * (* still connecting: the pending open is given up *)
        destruct (F1 w eq_refl) as [El Hs].
        assert (Es : c_st c = SConnecting) by (destruct (c_st c); try discriminate; auto).
        pose proof (wpending_cw m u c w I Hu Hcw) as Hp. rewrite Hcw in Hp. rewrite Hp. cbn [wres_opt].
        apply (inv_le_abandon m u c w (fun c => flush_output (set_dw (set_cw c None) None))); auto.
        discriminate.
      * (* only the output queue is flushed *)
        cbn [wres_opt wpending].
        apply (inv_hupd_fun m u c _ Hu). rewrite (set_same_cw c Hcw), (set_same_dw c Hdw).
        apply inv_out; auto. discriminate.
  - (* classic *)
    destruct (cl_abortable_st (c_st c)) eqn:Eo.
    + assert (El : c_live c = true) by (eapply live_of_open; eauto).
      assert (Hin : in_use m u c = true) by (unfold in_use; rewrite El; destruct (c_st c); try discriminate; auto).
      assert (Hcw : c_cw c = None).
      { apply no_cw_unless; auto. rewrite Ek. destruct (c_st c); auto; discriminate. }
      replace (match c_st c with SOpen | SWaitDisconnect | SOrphan => true | _ => false end) with true
        by (destruct (c_st c); try discriminate; auto).
      apply (inv_closed_gen m _ u c (set_dw (set_st c SClosed) None) O_ERROR O_RESULT true I Hu Hin);
        cbn; auto; try discriminate.
      * t_heap Hu.
      * intros Hd. destruct (F3 Hd) as (K & _). congruence.
      * autorewrite with acc. now rewrite (is_uid_chs m u c I Hu), Hin.
      * autorewrite with acc. rewrite (is_uid_le m u c I Hu). destruct (le_reg c); reflexivity.
      * autorewrite with acc. reflexivity.
      * intros E. rewrite E in Eo. discriminate.
      * autorewrite with acc. reflexivity.
      * intros _ K. congruence.
      * intros w. autorewrite with accw. rewrite Hcw. reflexivity.
    + assert (Hdw : c_dw c = None).
      { apply no_dw_unless; auto. rewrite Ek. destruct (c_st c); auto; discriminate. }
      rewrite Hdw. cbn [wres_opt].
      destruct (c_st c) eqn:Es; try discriminate;
        try (apply (inv_hupd_fun m u c _ Hu); rewrite (set_same_dw c Hdw); now apply inv_hupd_id).
      (* an orphaned initiator (mode mismatch): WAIT_DISCONNECT -> CLOSED, it is filed nowhere *)
      assert (Hcw : c_cw c = None) by (apply no_cw_unless; auto; now rewrite Ek, Es).
      assert (Hnu : in_use m u c = false) by (unfold in_use; rewrite Es; apply andb_false_r).
      assert (Hle : le_reg c = false) by (unfold le_reg; now rewrite Ek).
      assert (Ic : Inv (hupd m u (fun _ => set_dw (set_st c SClosed) None))).
      { apply inv_upd_same with (c := c); cbn; auto.
        - unfold in_use; cbn. rewrite Es. now rewrite !andb_false_r.
        - unfold le_reg; cbn. now rewrite Ek.
        - unfold chan_facts; cbn. rewrite Hcw, Ek.
          split; [discriminate|split; [discriminate|split; [|split; [auto|reflexivity]]]].
          intros Hd. destruct (F3 Hd) as (K & _). congruence.
        - intros E; congruence.
        - intros K; congruence. }
      revert Ic. apply inv_ext.
      * intros u'. autorewrite with acc. destruct (Z.eqb_spec u' u); subst; rewrite ?Hu; reflexivity.
      * intros w. now autorewrite with acc.
      * autorewrite with acc. now rewrite (is_uid_chs m u c I Hu), Hnu.
      * autorewrite with acc. now rewrite (is_uid_le m u c I Hu), Hle.
      * autorewrite with acc. reflexivity.
      * autorewrite with acc. reflexivity.
Qed.
Lemma chs_with_chs m x : m_chs (with_chs m x) = x. Proof. reflexivity. Qed.
Lemma chs_with_le m x : m_chs (with_le m x) = m_chs m. Proof. reflexivity. Qed.
Lemma chs_with_reqs m x : m_chs (with_reqs m x) = m_chs m. Proof. reflexivity. Qed.
Lemma chs_with_pend m x : m_chs (with_pend m x) = m_chs m. Proof. reflexivity. Qed.
Lemma chs_with_ids m x : m_chs (with_ids m x) = m_chs m. Proof. reflexivity. Qed.
Lemma chs_with_heap m x : m_chs (with_heap m x) = m_chs m. Proof. reflexivity. Qed.
Lemma chs_with_w m x : m_chs (with_w m x) = m_chs m. Proof. reflexivity. Qed.
Lemma le_with_chs m x : m_le (with_chs m x) = m_le m. Proof. reflexivity. Qed.
Lemma le_with_le m x : m_le (with_le m x) = x. Proof. reflexivity. Qed.
Lemma le_with_reqs m x : m_le (with_reqs m x) = m_le m. Proof. reflexivity. Qed.
Lemma le_with_pend m x : m_le (with_pend m x) = m_le m. Proof. reflexivity. Qed.
Lemma le_with_ids m x : m_le (with_ids m x) = m_le m. Proof. reflexivity. Qed.
Lemma le_with_heap m x : m_le (with_heap m x) = m_le m. Proof. reflexivity. Qed.
Lemma le_with_w m x : m_le (with_w m x) = m_le m. Proof. reflexivity. Qed.
Lemma reqs_with_chs m x : m_reqs (with_chs m x) = m_reqs m. Proof. reflexivity. Qed.
Lemma reqs_with_le m x : m_reqs (with_le m x) = m_reqs m. Proof. reflexivity. Qed.
Lemma reqs_with_reqs m x : m_reqs (with_reqs m x) = x. Proof. reflexivity. Qed.
Lemma reqs_with_pend m x : m_reqs (with_pend m x) = m_reqs m. Proof. reflexivity. Qed.
Lemma reqs_with_ids m x : m_reqs (with_ids m x) = m_reqs m. Proof. reflexivity. Qed.
Lemma reqs_with_heap m x : m_reqs (with_heap m x) = m_reqs m. Proof. reflexivity. Qed.
Lemma reqs_with_w m x : m_reqs (with_w m x) = m_reqs m. Proof. reflexivity. Qed.
Lemma pend_with_chs m x : m_pend (with_chs m x) = m_pend m. Proof. reflexivity. Qed.
Lemma pend_with_le m x : m_pend (with_le m x) = m_pend m. Proof. reflexivity. Qed.
Lemma pend_with_reqs m x : m_pend (with_reqs m x) = m_pend m. Proof. reflexivity. Qed.
Lemma pend_with_pend m x : m_pend (with_pend m x) = x. Proof. reflexivity. Qed.
Lemma pend_with_ids m x : m_pend (with_ids m x) = m_pend m. Proof. reflexivity. Qed.
Lemma pend_with_heap m x : m_pend (with_heap m x) = m_pend m. Proof. reflexivity. Qed.
Lemma pend_with_w m x : m_pend (with_w m x) = m_pend m. Proof. reflexivity. Qed.
Lemma ids_with_chs m x : m_ids (with_chs m x) = m_ids m. Proof. reflexivity. Qed.
Lemma ids_with_le m x : m_ids (with_le m x) = m_ids m. Proof. reflexivity. Qed.
Lemma ids_with_reqs m x : m_ids (with_reqs m x) = m_ids m. Proof. reflexivity. Qed.
Lemma ids_with_pend m x : m_ids (with_pend m x) = m_ids m. Proof. reflexivity. Qed.
Lemma ids_with_ids m x : m_ids (with_ids m x) = x. Proof. reflexivity. Qed.
Lemma ids_with_heap m x : m_ids (with_heap m x) = m_ids m. Proof. reflexivity. Qed.
Lemma ids_with_w m x : m_ids (with_w m x) = m_ids m. Proof. reflexivity. Qed.
#[export] Hint Rewrite chs_with_chs chs_with_le chs_with_reqs chs_with_pend chs_with_ids chs_with_heap chs_with_w le_with_chs le_with_le le_with_reqs le_with_pend le_with_ids le_with_heap le_with_w reqs_with_chs reqs_with_le reqs_with_reqs reqs_with_pend reqs_with_ids reqs_with_heap reqs_with_w pend_with_chs pend_with_le pend_with_reqs pend_with_pend pend_with_ids pend_with_heap pend_with_w ids_with_chs ids_with_le ids_with_reqs ids_with_pend ids_with_ids ids_with_heap ids_with_w : acc.

(* ================================================================== received frames, existing channels *)
Lemma inv_recv_disc_req m h id dcid scid :
  Inv m -> frame_ok m h (FDiscReq id dcid scid) = true -> Inv (fst (recv_disc_req m h id dcid scid)).
Proof.
  intros I Hok. unfold recv_disc_req. cbn in Hok. unfold target_kind in Hok.
  destruct (tget h dcid (m_chs m)) as [u|] eqn:Et; [|auto].
  destruct (hget m u) as [c|] eqn:Hu; [|auto].
  destruct (chs_self m u c h dcid I Hu Et) as [-> ->].
  destruct (Z.eqb_spec scid (c_dcid c)) as [->|Hne]; cbn [negb]; [|auto].
  destruct (c_kind c) eqn:Ek; cbn [fst].
  - apply (inv_le_closed m u c true); auto; try discriminate;
      intros Es; rewrite Es in Hok; rewrite ?Z.eqb_refl in Hok; discriminate.
  - apply inv_cl_disc_req; auto.
Qed.

Lemma inv_recv_disc_rsp m h id dcid scid :
  Inv m -> frame_ok m h (FDiscRsp id dcid scid) = true -> Inv (fst (recv_disc_rsp m h id dcid scid)).
Proof.
  intros I Hok. unfold recv_disc_rsp. cbn in Hok. unfold target_kind in Hok.
  destruct (tget h scid (m_chs m)) as [u|] eqn:Et; [|auto].
  destruct (hget m u) as [c|] eqn:Hu; [|auto].
  destruct (chs_self m u c h scid I Hu Et) as [-> ->].
  destruct (c_kind c) eqn:Ek.
  - destruct (c_st c) eqn:Es; auto.
    destruct (Z.eqb dcid (c_dcid c) && Z.eqb (c_scid c) (c_scid c)); cbn [negb fst]; auto.
    apply (inv_le_closed m u c false); auto; congruence.
  - destruct (c_st c) eqn:Es; auto.
    destruct (Z.eqb dcid (c_dcid c) && Z.eqb (c_scid c) (c_scid c)); cbn [negb fst] in *; auto.
    apply inv_cl_disc_rsp; auto.
Qed.

Lemma inv_recv_credit m h cid n : Inv m -> Inv (fst (recv_credit m h cid n)).
Proof.
  intros I. unfold recv_credit.
  destruct (tget h cid (m_le m)) as [u|] eqn:Et; [|auto].
  destruct (hget m u) as [c|] eqn:Hu; [|auto]. cbn [fst].
  unfold process_output. cbn.
  pose proof (inv_chan_facts m u c I Hu) as (F1 & F2 & F3 & F4 & F5).
  replace (set_out (set_out c (c_credits c + n) (c_pending c) (c_drained c)) _ _ _)
    with (set_out c (c_credits c + n - po_sent (set_out c (c_credits c + n) (c_pending c) (c_drained c)))
                    (c_pending c - po_sent (set_out c (c_credits c + n) (c_pending c) (c_drained c)))
                    (if Z.eqb (c_pending c - po_sent (set_out c (c_credits c + n) (c_pending c) (c_drained c))) 0
                        && (0 <? c_credits c + n - po_sent (set_out c (c_credits c + n) (c_pending c) (c_drained c)))
                     then true else c_drained c)) by reflexivity.
  apply inv_out; auto.
  intros Hd. destruct (_ && _); [discriminate|]. destruct (F3 Hd) as (A & _ & B). auto.
Qed.

Lemma inv_write m u k : Inv m -> Inv (fst (do_write m u k)).
Proof.
  intros I. unfold do_write.
  destruct (hget m u) as [c|] eqn:Hu; [|auto].
  destruct (c_kind c) eqn:Ek; [|auto]. destruct (c_st c) eqn:Es; auto. cbn [fst].
  unfold process_output. cbn.
  match goal with |- Inv (hupd m u (fun _ => set_out _ ?a ?b ?d)) =>
    change (Inv (hupd m u (fun _ => set_out c a b d))) end.
  apply inv_out; auto.
Qed.

Lemma inv_grant m u n : Inv m -> Inv (fst (do_grant m u n)).
Proof.
  intros I. unfold do_grant. destruct (hget m u); cbn; auto using inv_next_id.
Qed.

(* ---------------------------------------------------------------- LE connection response *)
Lemma inv_recv_le_rsp m h id dcid credits result :
  Inv m -> le_rsp_ok m h id dcid result = true ->
  Inv (fst (recv_le_rsp m h id dcid credits result)).
Proof.
  intros I Hok. unfold recv_le_rsp. unfold le_rsp_ok in Hok. cbn in Hok. unfold target_kind in Hok.
  destruct (tget h id (m_reqs m)) as [scid|] eqn:Er; [|auto].
  pose proof (inv_reqs_del m h id I) as I1.
  cbn [m_chs with_reqs].
  destruct (reqs_ok m I _ _ _ Er) as [u [c (R1 & Hu & Ek & Es & Eref)]].
  rewrite R1 in *. change (hget (with_reqs m (tdel h id (m_reqs m))) u) with (hget m u).
  rewrite Hu in *. rewrite Ek in Hok. cbn in Hok.
  destruct (chs_self m u c h scid I Hu R1) as [-> ->].
  pose proof (inv_chan_facts m u c I Hu) as F. pose proof F as (F1 & F2 & F3 & F4 & F5).
  assert (Hin : in_use m u c = true) by (eapply reg_in_use; eauto).
  assert (El : c_live c = true) by (eapply in_use_live; eauto).
  assert (Hdw : c_dw c = None) by (apply no_dw_unless; auto; now rewrite Ek, Es).
  destruct (c_cw c) as [w|] eqn:Hcw; [|auto].
  destruct (Z.eqb_spec result R_OK) as [->|Hr]; cbn [fst].
  - (* accepted *)
    cbn in Hok. apply negb_true_iff, memz_false in Hok.
    unfold le_register. autorewrite with acc. rewrite Hu, Z.eqb_refl. cbn [option_map].
    set (c' := set_cw (set_st (set_out (set_dcid c dcid) credits (c_pending c) (c_drained c)) SConnected) None).
    change (c_conn c') with (c_conn c). change (c_dcid c') with dcid.
    refine (inv_chan_step m _ u c c' O_RESULT O_ERROR false I Hu _ _ _ _ _ _ _ _ _ _ _ _ _ _ _ _ _ _ _ _);
      subst c'; cbn; auto; try discriminate.
    + t_heap Hu.
    + unfold chan_facts; cbn. rewrite Hdw, Ek, El.
      split; [discriminate|split; [discriminate|split; [auto|split; [discriminate|reflexivity]]]].
    + autorewrite with acc. unfold in_use; cbn. rewrite El. reflexivity.
    + autorewrite with acc. unfold le_reg; cbn. rewrite Ek, Es, El. reflexivity.
    + unfold le_reg. rewrite Ek, Es. cbn. rewrite andb_false_r. discriminate.
    + intros _ _. destruct (tget (c_conn c) dcid (m_le m)) eqn:Eg; auto.
      exfalso. apply Hok. apply tkeys_tget. congruence.
    + autorewrite with acc. reflexivity.
    + intros E. congruence.
    + autorewrite with acc. rewrite Eref. reflexivity.
    + intros w'. autorewrite with accw. rewrite Hcw, Hdw. cbn. rewrite wget_wres.
      rewrite andb_true_r, Z.eqb_sym. reflexivity.
  - (* refused *)
    apply (inv_closed_gen m _ u c (set_cw (set_st c SConnError) None) O_ERROR O_ERROR false I Hu Hin);
      cbn; auto; try discriminate.
    + t_heap Hu.
    + intros Hd. destruct (F3 Hd) as (_ & _ & B). congruence.
    + autorewrite with acc. reflexivity.
    + autorewrite with acc. unfold le_reg. rewrite Ek, Es. cbn. rewrite andb_false_r. reflexivity.
    + autorewrite with acc. reflexivity.
    + congruence.
    + autorewrite with acc. rewrite Eref. reflexivity.
    + intros w'. autorewrite with accw. rewrite Hcw, Hdw. cbn. rewrite wget_wres, Z.eqb_sym. reflexivity.
Qed.

(* ---------------------------------------------------------------- classic signalling *)
Lemma find_cl_spec m h cid u c : find_cl m h cid = Some (u, c) ->
  tget h cid (m_chs m) = Some u /\ hget m u = Some c /\ c_kind c = KCl.
Proof.
  unfold find_cl. destruct (tget h cid (m_chs m)) as [u0|]; [|discriminate].
  destruct (hget m u0) as [c0|] eqn:E; [|discriminate]. destruct (c_kind c0) eqn:K; [discriminate|].
  intros [= <- <-]. auto.
Qed.

(* a classic channel found through the table: what the invariant says about it *)
Lemma cl_found m h cid u c : Inv m -> find_cl m h cid = Some (u, c) ->
  hget m u = Some c /\ c_kind c = KCl /\ c_conn c = h /\ c_scid c = cid /\ in_use m u c = true /\ c_live c = true /\
  le_reg c = false.
Proof.
  intros I H. destruct (find_cl_spec _ _ _ _ _ H) as (A & B & C).
  destruct (chs_self m u c h cid I B A) as [-> ->].
  assert (in_use m u c = true) by (eapply reg_in_use; eauto).
  repeat split; auto. eapply in_use_live; eauto. unfold le_reg. now rewrite C.
Qed.

(* configuration finished: the channel is open and connect() returns *)
Lemma inv_cl_open m u c :
  Inv m -> hget m u = Some c -> c_kind c = KCl -> in_use m u c = true ->
  (c_st c = SWaitConfigReq \/ c_st c = SWaitConfigRsp) ->
  Inv (hupd (wres_opt m (c_cw c) O_RESULT) u (fun c => set_cw (set_st c SOpen) None)).
Proof.
  intros I Hu Ek Hin Es.
  pose proof (inv_chan_facts m u c I Hu) as F. pose proof F as (F1 & F2 & F3 & F4 & F5).
  assert (El : c_live c = true) by (eapply in_use_live; eauto).
  assert (Hdw : c_dw c = None) by (apply no_dw_unless; auto; rewrite Ek; destruct Es as [-> | ->]; reflexivity).
  refine (inv_chan_step m _ u c (set_cw (set_st c SOpen) None) O_RESULT O_ERROR true I Hu _ _ _ _ _ _ _ _ _ _ _ _ _ _ _ _ _ _ _ _);
    cbn; auto; try discriminate.
  - t_heap Hu.
  - unfold chan_facts; cbn. rewrite Hdw, El, Ek. split; [discriminate|split; [discriminate|split; [|split; [discriminate|reflexivity]]]].
    intros Hd. destruct (F3 Hd) as (K & _). congruence.
  - autorewrite with acc. unfold in_use at 1; cbn. rewrite El, Hin. reflexivity.
  - autorewrite with acc. unfold le_reg; cbn. rewrite Ek. reflexivity.
  - unfold le_reg; cbn. rewrite Ek. discriminate.
  - autorewrite with acc. reflexivity.
  - intros E. destruct Es; congruence.
  - autorewrite with acc. reflexivity.
  - intros _ K. congruence.
  - intros w. autorewrite with accw. rewrite Hdw. cbn. rewrite andb_true_r. reflexivity.
Qed.

(* a state change that keeps the channel registered and its waiters untouched *)
Lemma inv_cl_st m u c s d :
  Inv m -> hget m u = Some c -> c_kind c = KCl -> in_use m u c = true ->
  reg_st s = true -> le_open_st s = false ->
  (c_cw c <> None -> cw_st KCl s = true) -> (c_dw c <> None -> dw_st KCl s = true) ->
  Inv (hupd m u (fun c => set_st (set_dcid c d) s)).
Proof.
  intros I Hu Ek Hin Hs Hlo Hc Hd.
  pose proof (inv_chan_facts m u c I Hu) as F. pose proof F as (F1 & F2 & F3 & F4 & F5).
  assert (El : c_live c = true) by (eapply in_use_live; eauto).
  apply (inv_hupd_fun m u c _ Hu).
  apply inv_upd_same with (c := c); cbn; auto.
  - unfold le_reg. rewrite Ek. discriminate.
  - unfold in_use at 1; cbn. rewrite El, Hin. destruct s; try discriminate; reflexivity.
  - unfold le_reg; cbn. now rewrite Ek.
  - unfold chan_facts; cbn. rewrite Ek, El. split; [|split; [|split; [|split; [discriminate|cbn; now rewrite Hlo]]]].
    + intros w Hw. split; auto. apply Hc. congruence.
    + intros w Hw. split; auto. apply Hd. congruence.
    + intros Hdr. destruct (F3 Hdr) as (K & _). congruence.
  - intros E. pose proof (init_in_use_le m u c I Hu E Hin). congruence.
  - intros K. congruence.
Qed.

Lemma inv_recv_conn_rsp m h id dcid scid result :
  Inv m -> Inv (fst (recv_conn_rsp m h id dcid scid result)).
Proof.
  intros I. unfold recv_conn_rsp.
  destruct (find_cl m h scid) as [[u c]|] eqn:Ef; [|auto].
  destruct (cl_found m h scid u c I Ef) as (Hu & Ek & Ec & Esc & Hin & El & Hle).
  pose proof (inv_chan_facts m u c I Hu) as F. pose proof F as (F1 & F2 & F3 & F4 & F5).
  destruct (c_st c) eqn:Es; auto.
  assert (Hdw : c_dw c = None) by (apply no_dw_unless; auto; now rewrite Ek, Es).
  destruct (Z.eqb result R_OK); cbn [fst].
  - apply (inv_cl_st (next_id m h) u c SWaitConfigReqRsp dcid); auto using inv_next_id.
  - destruct (Z.eqb result R_PENDING); cbn [fst]; auto.
    assert (Hcw : exists w, c_cw c = Some w).
    { unfold in_use in Hin. rewrite Es in Hin. destruct (c_cw c); eauto. rewrite andb_false_r in Hin. discriminate. }
    destruct Hcw as [w Hcw].
    assert (Hp : wpending (hupd m u (fun c => set_st c SClosed)) (c_cw c) = true).
    { pose proof (wpending_cw m u c w I Hu Hcw) as P. rewrite Hcw in *. cbn in *.
      rewrite wout_wget in *. autorewrite with acc. exact P. }
    rewrite Hp. cbn [fst]. unfold cl_connect_failed.
    apply (inv_closed_gen m _ u c (set_cw (set_st c SClosed) None) O_ERROR O_ERROR true I Hu Hin);
      cbn; auto; try discriminate.
    + t_heap Hu.
    + intros Hd. destruct (F3 Hd) as (K & _). congruence.
    + autorewrite with acc. reflexivity.
    + autorewrite with acc. now rewrite Hle.
    + autorewrite with acc. reflexivity.
    + congruence.
    + autorewrite with acc. reflexivity.
    + intros _ K. congruence.
    + intros w'. autorewrite with accw. rewrite Hdw. cbn. destruct (is_uid (c_cw c) w'); reflexivity.
Qed.

Lemma inv_cl_st0 m u c s :
  Inv m -> hget m u = Some c -> c_kind c = KCl -> in_use m u c = true ->
  reg_st s = true -> le_open_st s = false ->
  (c_cw c <> None -> cw_st KCl s = true) -> (c_dw c <> None -> dw_st KCl s = true) ->
  Inv (hupd m u (fun c => set_st c s)).
Proof.
  intros I Hu Ek Hin Hs Hlo Hc Hd. apply (inv_hupd_fun m u c _ Hu).
  replace (set_st c s) with (set_st (set_dcid c (c_dcid c)) s) by (destruct c; reflexivity).
  pose proof (inv_cl_st m u c s (c_dcid c) I Hu Ek Hin Hs Hlo Hc Hd) as H.
  revert H. apply inv_ext; try (autorewrite with acc; reflexivity).
  - intros u'. autorewrite with acc. destruct (Z.eqb_spec u' u); subst; rewrite ?Hu; reflexivity.
  - intros w. now autorewrite with acc.
Qed.

Lemma cw_none_of_wpending m u c : Inv m -> hget m u = Some c -> wpending m (c_cw c) = false -> c_cw c = None.
Proof. apply wpending_none. Qed.

Lemma inv_recv_conf_rsp m h id scid result sugg : Inv m -> Inv (fst (recv_conf_rsp m h id scid result sugg)).
Proof.
  intros I. unfold recv_conf_rsp.
  destruct (find_cl m h scid) as [[u c]|] eqn:Ef; [|auto].
  destruct (cl_found m h scid u c I Ef) as (Hu & Ek & Ec & Esc & Hin & El & Hle).
  pose proof (inv_chan_facts m u c I Hu) as F.
  assert (Hdw : cl_abortable_st (c_st c) = false -> c_dw c = None).
  { intros E. apply no_dw_unless; auto. rewrite Ek. destruct (c_st c); auto; discriminate. }
  destruct (Z.eqb result 0).
  - destruct (c_st c) eqn:Es; cbn [fst]; auto.
    + apply (inv_cl_st0 m u c SWaitConfigReq); auto; rewrite Hdw by (now rewrite Es); congruence.
    + apply inv_cl_open; auto.
  - destruct (Z.eqb result CONF_UNACCEPTABLE); cbn [fst]; auto.
    destruct (Z.eqb sugg 0); cbn [fst]; auto using inv_next_id.
Qed.

Lemma inv_recv_conf_req m h id dcid rfc bad : Inv m -> Inv (fst (recv_conf_req m h id dcid rfc bad)).
Proof.
  intros I. unfold recv_conf_req.
  destruct (find_cl m h dcid) as [[u c]|] eqn:Ef; [|auto].
  destruct (cl_found m h dcid u c I Ef) as (Hu & Ek & Ec & Esc & Hin & El & Hle).
  pose proof (inv_chan_facts m u c I Hu) as F. pose proof F as (F1 & F2 & F3 & F4 & F5).
  destruct (match c_st c with SWaitConfigReqRsp | SWaitConfigReq => true | _ => false end) eqn:Ecfg;
    cbn [negb fst]; [|auto].
  assert (Hdw : c_dw c = None).
  { apply no_dw_unless; auto. rewrite Ek. destruct (c_st c); auto; discriminate. }
  destruct ((0 <=? rfc) && negb (Z.eqb rfc (c_mode c))).
  - (* mode mismatch *)
    cbn [fst].
    destruct (wpending m (c_cw c)) eqn:Ew.
    + unfold cl_connect_failed.
      apply (inv_closed_gen m _ u c (set_st (set_cw (set_st c SWaitDisconnect) None) SOrphan)
                            O_ERROR O_ERROR true I Hu Hin); cbn; auto; try discriminate.
      * t_heap Hu.
      * intros Hd. destruct (F3 Hd) as (K & _). congruence.
      * autorewrite with acc. reflexivity.
      * autorewrite with acc. now rewrite Hle.
      * autorewrite with acc. reflexivity.
      * intros E. rewrite E in Ecfg. discriminate.
      * autorewrite with acc. reflexivity.
      * intros _ K. congruence.
      * intros w'. autorewrite with accw. rewrite Hdw. cbn. destruct (is_uid (c_cw c) w'); reflexivity.
    + assert (Hcw : c_cw c = None) by (eapply wpending_none; eauto).
      rewrite Hcw. cbn [wres_opt].
      apply (inv_cl_st0 (next_id m h) u c SWaitDisconnect); auto using inv_next_id; congruence.
  - destruct bad; cbn [fst]; auto.
    destruct (c_st c) eqn:Es; try discriminate; cbn [fst].
    + apply (inv_cl_st0 m u c SWaitConfigRsp); auto; congruence.
    + apply inv_cl_open; auto.
Qed.
Lemma wget_old m w x : wget m w = Some x -> Z.eqb w (wuid m) = false.
Proof. intros H. apply wget_bound in H. unfold wuid. destruct (Z.eqb_spec w (Z.of_nat (length (m_w m)))); auto. lia. Qed.
Lemma wget_wuid m : wget m (wuid m) = None.
Proof.
  unfold wget, wuid. destruct (Z.ltb_spec (Z.of_nat (length (m_w m))) 0); auto.
  rewrite Nat2Z.id. apply nth_error_None. lia.
Qed.
Lemma hget_huid m : hget m (huid m) = None.
Proof.
  unfold hget, huid. destruct (Z.ltb_spec (Z.of_nat (length (m_heap m))) 0); auto.
  rewrite Nat2Z.id. apply nth_error_None. lia.
Qed.
Lemma hget_old m u c : hget m u = Some c -> Z.eqb u (huid m) = false.
Proof. intros H. apply hget_bound in H. unfold huid. destruct (Z.eqb_spec u (Z.of_nat (length (m_heap m)))); auto. lia. Qed.

(* ------------------------------------------------------------------ disconnect() *)
Lemma inv_close m u : Inv m -> Inv (fst (do_close m u)).
Proof.
  intros I. unfold do_close.
  destruct (hget m u) as [c|] eqn:Hu; [|auto].
  destruct (negb _) eqn:Eok; cbn [fst].
  { apply inv_wnew_done; auto. discriminate. }
  apply negb_false_iff in Eok.
  pose proof (inv_chan_facts m u c I Hu) as F. pose proof F as (F1 & F2 & F3 & F4 & F5).
  set (w := wuid m).
  set (f := fun c0 : chan => match c_kind c0 with
                              | KLe => flush_output (set_st (set_dw c0 (Some w)) SDisconnecting)
                              | KCl => set_st (set_dw c0 (Some w)) SWaitDisconnect end).
  assert (Hopen : le_open_st (c_st c) = true \/ cl_abortable_st (c_st c) = true).
  { destruct (c_kind c), (c_st c); try discriminate; auto. }
  assert (El : c_live c = true) by (eapply live_of_open; eauto).
  assert (Hin : in_use m u c = true).
  { unfold in_use. rewrite El. destruct (c_kind c), (c_st c); try discriminate; auto. }
  assert (Hcw : c_cw c = None).
  { apply no_cw_unless; auto. destruct (c_kind c), (c_st c); try discriminate; auto. }
  assert (Hdw : c_dw c = None).
  { apply no_dw_unless; auto. destruct (c_kind c), (c_st c); try discriminate; auto. }
  assert (Ef : c_kind (f c) = c_kind c /\ c_conn (f c) = c_conn c /\ c_scid (f c) = c_scid c /\
               c_dcid (f c) = c_dcid c /\ c_live (f c) = true /\ c_cw (f c) = None /\ c_dw (f c) = Some w /\
               c_ref (f c) = c_ref c /\ dw_st (c_kind c) (c_st (f c)) = true /\ reg_st (c_st (f c)) = true /\
               le_reg (f c) = le_reg c /\ (c_drained (f c) = false -> c_kind c = KCl /\ c_drained c = false) /\
               kind_st (c_kind c) (c_st (f c)) = true).
  { subst f. cbn. unfold le_reg. destruct (c_kind c) eqn:Ek, (c_st c); try discriminate; cbn;
      rewrite ?Ek, ?El; repeat split; auto; try discriminate. }
  destruct Ef as (E1 & E2 & E3 & E4 & E5 & E6 & E7 & E8 & E9 & E10 & E11 & E12 & E13).
  assert (Hin' : in_use m u (f c) = true).
  { unfold in_use. rewrite E5. destruct (c_st (f c)); try discriminate; auto. }
  apply (inv_frame1 m _ u (f c) I).
  - t_heap Hu.
  - unfold chan_facts. rewrite E6, E7, E5, E1. split; [discriminate|split; [|split; [|split; [discriminate|exact E13]]]].
    + intros w0 _. auto.
    + intros Hd. destruct (E12 Hd) as [K Hd']. destruct (F3 Hd') as (K' & _). congruence.
  - autorewrite with acc. apply (nd_chs m I).
  - intros h k u' _. autorewrite with acc. tauto.
  - intros h k. autorewrite with acc. rewrite E2, E3. apply (chs_self m u c h k I Hu).
  - autorewrite with acc. rewrite E2, E3. rewrite (in_use_pend m) by (autorewrite with acc; reflexivity).
    rewrite Hin'. split; auto. intros _. now apply (ch_reg m I u c Hu).
  - autorewrite with acc. apply (nd_le m I).
  - intros h k u' _. autorewrite with acc. tauto.
  - intros h k. autorewrite with acc. intros H. destruct (le_self m u c h k I Hu H) as (A & B & C).
    rewrite E2, E4, E1. rewrite <- E11 in C. apply le_reg_iff in C. rewrite E1 in C. tauto.
  - autorewrite with acc. intros A B C. rewrite E2, E4. apply (le_reg_tget m u c I Hu).
    rewrite <- E11. apply le_reg_iff. auto.
  - autorewrite with acc. reflexivity.
  - intros h id w0 us H Hm. destruct (pend_ok m I _ _ _ _ H) as (_ & _ & B). destruct (B u Hm) as [c0 (A & _ & _ & S & _)].
    rewrite Hu in A. inversion A; subst c0. destruct (c_kind c), (c_st c); discriminate.
  - autorewrite with acc. apply (nd_reqs m I).
  - intros h id k H. autorewrite with acc in H. destruct (reqs_ok m I _ _ _ H) as [u0 [c0 (R1 & R2 & R3 & R4 & R5)]].
    exists u0, c0. autorewrite with acc. destruct (Z.eqb_spec u0 u); [|auto].
    subst. rewrite Hu in R2. inversion R2; subst c0. destruct (c_kind c), (c_st c); discriminate.
  - intros w0 x Hx. left. autorewrite with acc. now rewrite (wget_old m w0 x Hx).
  - intros w0 x Hx _. autorewrite with acc. now rewrite (wget_old m w0 x Hx).
  - intros w0 x' Hn Hx Hp. autorewrite with acc in Hx.
    destruct (Z.eqb_spec w0 (wuid m)); [|congruence]. inversion Hx; subst x' w0.
    unfold owner_ok. cbn. exists (f c). split; auto. autorewrite with acc. now rewrite Z.eqb_refl, Hu.
  - intros c0 w0 x' H0. rewrite Hu in H0. inversion H0; subst c0. congruence.
  - intros c0 w0 x' H0. rewrite Hu in H0. inversion H0; subst c0. congruence.
  - intros w0. rewrite E6. discriminate.
  - intros w0. rewrite E7. intros [= <-]. exists (mkW O_PENDING WClose (c_conn c) u).
    autorewrite with acc. subst w. rewrite Z.eqb_refl. rewrite E2. repeat split; auto.
Qed.

(* ------------------------------------------------------------------ a new channel object *)
Section NewChan.
  Variables (m m' : mgr) (c' : chan) (reg : bool) (newreq : option Z) (neww : option waiter).
  Let u := huid m.
  Let h := c_conn c'.
  Let k := c_scid c'.
  Hypothesis I : Inv m.
  Hypothesis Hheap : forall u', hget m' u' = if Z.eqb u' u then Some c' else hget m u'.
  Hypothesis Hfacts : chan_facts c'.
  Hypothesis Hlive : c_live c' = true.
  Hypothesis Hfresh : tget h k (m_chs m) = None.
  Hypothesis Hchs : m_chs m' = if reg then tset h k u (m_chs m) else m_chs m.
  Hypothesis Hpend : m_pend m' = m_pend m.
  Hypothesis Hreg : in_use m u c' = reg.
  Hypothesis Hle : m_le m' = if le_reg c' then tset h (c_dcid c') u (m_le m) else m_le m.
  Hypothesis Hlefresh : le_reg c' = true -> tget h (c_dcid c') (m_le m) = None.
  Hypothesis Hreqs : m_reqs m' = match newreq with Some id => tset h id k (m_reqs m) | None => m_reqs m end.
  Hypothesis Hnewreq : forall id, newreq = Some id ->
                       c_kind c' = KLe /\ c_st c' = SConnecting /\ c_ref c' = id /\ reg = true.
  Hypothesis Hw : forall w, wget m' w = if Z.eqb w (wuid m) then neww else wget m w.
  Hypothesis Hcw : forall w, c_cw c' = Some w -> w = wuid m /\ neww = Some (mkW O_PENDING WOpen h u).
  Hypothesis Hdw : c_dw c' = None.
  Hypothesis Hneww : forall x, neww = Some x -> w_out x = O_PENDING ->
                     x = mkW O_PENDING WOpen h u /\ c_cw c' = Some (wuid m).

  Lemma inv_new_chan : Inv m'.
  Proof.
    assert (Hnone : hget m u = None) by apply hget_huid.
    assert (Hiu : forall u0 c0, in_use m' u0 c0 = in_use m u0 c0) by (intros; now apply in_use_pend).
    assert (Hnochs : forall h1 k1, tget h1 k1 (m_chs m) = Some u -> False).
    { intros h1 k1 H. destruct (chs_pt m I _ _ _ H) as [c0 (A & _)]. congruence. }
    assert (Hnole : forall h1 k1, tget h1 k1 (m_le m) = Some u -> False).
    { intros h1 k1 H. destruct (le_pt m I _ _ _ H) as [c0 (A & _)]. congruence. }
    apply (inv_frame1 m m' u c' I); auto.
    - (* CH1 *) rewrite Hchs. destruct reg; [apply NoDup_tset|]; apply (nd_chs m I).
    - (* CH2 *) intros h1 k1 u' Hn. rewrite Hchs. destruct reg; [|tauto]. apply (rel_tset _ _ _ u); auto.
    - (* CH3 *) intros h1 k1. rewrite Hchs. destruct reg.
      + rewrite tget_tset. destruct (Z.eqb_spec h1 h), (Z.eqb_spec k1 k); subst; cbn; auto;
          rewrite tget_tdel; intros H; match type of H with (if ?b then _ else _) = _ => destruct b; [discriminate|] end;
          exfalso; eauto.
      + intros H. exfalso; eauto.
    - (* CH4 *) rewrite Hiu, Hreg, Hchs. destruct reg.
      + fold h k. rewrite tget_tset, !Z.eqb_refl. cbn. tauto.
      + fold h k. rewrite Hfresh. split; discriminate.
    - (* LE1 *) rewrite Hle. destruct (le_reg c'); [apply NoDup_tset|]; apply (nd_le m I).
    - (* LE2 *) intros h1 k1 u' Hn. rewrite Hle. destruct (le_reg c') eqn:E; [|tauto]. apply (rel_tset _ _ _ u); auto.
    - (* LE3 *) intros h1 k1. rewrite Hle. destruct (le_reg c') eqn:E.
      + apply le_reg_iff in E. rewrite tget_tset.
        destruct (Z.eqb_spec h1 h), (Z.eqb_spec k1 (c_dcid c')); subst; cbn; try tauto;
          rewrite tget_tdel; intros H; match type of H with (if ?b then _ else _) = _ => destruct b; [discriminate|] end;
          exfalso; eauto.
      + intros H. exfalso; eauto.
    - (* LE4 *) intros A B C. assert (E : le_reg c' = true) by (apply le_reg_iff; auto).
      rewrite Hle, E. fold h. rewrite tget_tset, !Z.eqb_refl. reflexivity.
    - (* PE3 *) intros h1 id w us H Hin. destruct (pend_ok m I _ _ _ _ H) as (_ & _ & B).
      destruct (B u Hin) as [c0 (A & _)]. congruence.
    - (* RQ1 *) rewrite Hreqs. destruct newreq; [apply NoDup_tset|]; apply (nd_reqs m I).
    - (* RQ2 *) intros h1 id k1 H. rewrite Hreqs in H.
      assert (Hold : tget h1 id (m_reqs m) = Some k1 ->
                     exists u0 c0, tget h1 k1 (m_chs m') = Some u0 /\ hget m' u0 = Some c0 /\ c_kind c0 = KLe /\
                                   c_st c0 = SConnecting /\ c_ref c0 = id).
      { intros Ho. destruct (reqs_ok m I _ _ _ Ho) as [u0 [c0 (R1 & R2 & R3 & R4 & R5)]].
        exists u0, c0. rewrite Hheap. assert (u0 <> u) by (intros ->; congruence).
        destruct (Z.eqb_spec u0 u); [congruence|]. repeat split; auto.
        rewrite Hchs. destruct reg; auto. apply (rel_tset _ _ _ u); auto. }
      destruct newreq as [id0|]; auto.
      rewrite tget_tset in H. destruct (Z.eqb_spec h1 h), (Z.eqb_spec id id0); subst; cbn in H.
      + inversion H; subst k1. destruct (Hnewreq id0 eq_refl) as (A & B & C & D).
        exists u, c'. rewrite Hheap, Z.eqb_refl, Hchs, D, tget_tset, !Z.eqb_refl. auto.
      + rewrite tget_tdel in H. match type of H with (if ?b then _ else _) = _ => destruct b; [discriminate|auto] end.
      + rewrite tget_tdel in H. match type of H with (if ?b then _ else _) = _ => destruct b; [discriminate|auto] end.
      + rewrite tget_tdel in H. match type of H with (if ?b then _ else _) = _ => destruct b; [discriminate|auto] end.
    - (* W1 *) intros w x Hx. left. now rewrite Hw, (wget_old m w x Hx).
    - (* W2 *) intros w x Hx _. now rewrite Hw, (wget_old m w x Hx).
    - (* W4 *) intros w x' Hn Hx Hp. rewrite Hw in Hx. destruct (Z.eqb_spec w (wuid m)); [|congruence]. subst w.
      destruct (Hneww x' Hx Hp) as [-> Hc]. unfold owner_ok. cbn. exists c'. now rewrite Hheap, Z.eqb_refl.
    - (* W5c *) intros c0 w x' H0. congruence.
    - (* W5d *) intros c0 w x' H0. congruence.
    - (* W6c *) intros w Hc. destruct (Hcw w Hc) as [-> Hn]. exists (mkW O_PENDING WOpen h u).
      rewrite Hw, Z.eqb_refl. repeat split; auto.
    - (* W6d *) intros w. rewrite Hdw. discriminate.
  Qed.
End NewChan.

Lemma tdel_absent {V} h k (t : table V) : tget h k t = None -> tdel h k t = t.
Proof.
  unfold tdel. induction t as [|e t IH]; cbn; auto.
  destruct (key_is h k e) eqn:E; [discriminate|]. intros H. cbn. now rewrite IH.
Qed.

Lemma tdel_tset {V} h k v (t : table V) : tdel h k (tset h k v t) = tdel h k t.
Proof.
  unfold tset. unfold tdel at 1. cbn [filter]. unfold key_is at 1. cbn. rewrite !Z.eqb_refl. cbn. apply tdel_tdel.
Qed.

Lemma free_fresh {V} h (t : table V) lo hi n x :
  In x (find_free_n lo hi (tkeys h t) n) -> tget h x t = None.
Proof.
  intros H. apply find_free_n_spec in H. destruct H as [_ H].
  destruct (tget h x t) eqn:E; auto. exfalso. apply H. apply tkeys_tget. congruence.
Qed.

Lemma find_free_bredr_fresh {V} h (t : table V) x : find_free_bredr (tkeys h t) = Some x -> tget h x t = None.
Proof.
  unfold find_free_bredr. destruct (find_free_n _ _ _ _) as [|y l] eqn:E; [discriminate|].
  intros [= <-]. eapply free_fresh. rewrite E. now left.
Qed.
Lemma find_free_le_fresh {V} h (t : table V) x : find_free_le (tkeys h t) = Some x -> tget h x t = None.
Proof.
  unfold find_free_le, find_free_le_n. destruct (find_free_n _ _ _ _) as [|y l] eqn:E; [discriminate|].
  intros [= <-]. eapply free_fresh. rewrite E. now left.
Qed.

(* a fresh uid is in no pending request *)
Lemma in_use_new_init m c0 : Inv m -> c_st c0 = SInit -> in_use m (huid m) c0 = false.
Proof.
  intros I E. unfold in_use. rewrite E.
  destruct (tget (c_conn c0) (c_ref c0) (m_pend m)) as [[w us]|] eqn:Ep; [|apply andb_false_r].
  destruct (memz (huid m) us) eqn:Em; [|apply andb_false_r].
  apply memz_In in Em. destruct (pend_ok m I _ _ _ _ Ep) as (_ & _ & B). destruct (B _ Em) as [c1 (A & _)].
  rewrite hget_huid in A. discriminate.
Qed.

(* ------------------------------------------------------------------ create_classic_channel *)
Lemma inv_open_cl m h psm mode : Inv m -> Inv (fst (open_cl m h psm mode)).
Proof.
  intros I. unfold open_cl.
  destruct (find_free_bredr (tkeys h (m_chs m))) as [scid|] eqn:Ef; cbn [fst].
  2:{ apply inv_wnew_done; auto. discriminate. }
  apply find_free_bredr_fresh in Ef.
  set (c0 := mkChan KCl h scid 0 SClosed mode 0 0 true None None 0 true).
  set (c' := set_st (set_cw c0 (Some (wuid m))) SWaitConnectRsp).
  apply (inv_new_chan m _ c' true None (Some (mkW O_PENDING WOpen h (huid m))) I); cbn; auto.
  - intros u'. autorewrite with acc. destruct (Z.eqb_spec u' (huid m)); subst; cbn; reflexivity.
  - unfold chan_facts; cbn. split; [auto|split; [discriminate|split; [discriminate|split; [discriminate|reflexivity]]]].
  - autorewrite with acc. reflexivity.
  - autorewrite with acc. reflexivity.
  - autorewrite with acc. reflexivity.
  - discriminate.
  - autorewrite with acc. reflexivity.
  - discriminate.
  - intros w. autorewrite with acc. reflexivity.
  - intros w [= <-]. auto.
  - intros x [= <-] _. auto.
Qed.

Arguments tset : simpl never.
Arguments tdel : simpl never.
Arguments tdrop : simpl never.
Arguments tget : simpl never.

(* ------------------------------------------------------------------ create_le_credit_based_channel *)
Lemma inv_open_le m h psm credits : Inv m -> Inv (fst (open_le m h psm credits)).
Proof.
  intros I. unfold open_le.
  destruct (find_free_le (tkeys h (m_chs m))) as [scid|] eqn:Ef; cbn [fst].
  2:{ apply inv_wnew_done; auto. discriminate. }
  apply find_free_le_fresh in Ef.
  set (c0 := mkChan KLe h scid 0 SInit 0 0 0 true None None 0 true).
  cbn [m_reqs next_id with_ids with_chs hnew with_heap].
  destruct (tget h (nid (with_chs (hnew m c0) (tset h scid (huid m) (m_chs (hnew m c0)))) h) (m_reqs m)) eqn:Er; cbn [fst].
  - (* identifier still in use: the channel object is created and dropped *)
    apply (inv_new_chan m _ c0 false None (Some (mkW O_ERROR WOpen h (huid m))) I); cbn; auto.
    + intros u'. autorewrite with acc. reflexivity.
    + unfold chan_facts; cbn. split; [discriminate|split; [discriminate|split; [discriminate|split; [discriminate|reflexivity]]]].
    + rewrite tdel_tset. now apply tdel_absent.
    + change (in_use m (huid m) c0 = false). now apply in_use_new_init.
    + discriminate.
    + discriminate.
    + intros w. autorewrite with acc. reflexivity.
    + discriminate.
    + intros x [= <-]. discriminate.
  - set (i := nid (with_chs (hnew m c0) (tset h scid (huid m) (m_chs (hnew m c0)))) h) in *.
    set (c' := set_ref (set_st (set_cw c0 (Some (wuid m))) SConnecting) i).
    apply (inv_new_chan m _ c' true (Some i) (Some (mkW O_PENDING WOpen h (huid m))) I); cbn; auto.
    + intros u'. autorewrite with acc. destruct (Z.eqb_spec u' (huid m)); subst; cbn; reflexivity.
    + unfold chan_facts; cbn. split; [auto|split; [discriminate|split; [discriminate|split; [discriminate|reflexivity]]]].
    + autorewrite with acc. reflexivity.
    + autorewrite with acc. reflexivity.
    + autorewrite with acc. reflexivity.
    + discriminate.
    + autorewrite with acc. reflexivity.
    + intros id [= <-]. auto.
    + intros w. autorewrite with acc. reflexivity.
    + intros w [= <-]. auto.
    + intros x [= <-] _. auto.
Qed.

(* ------------------------------------------------------------------ accepted channels *)
Lemma inv_accept_le m h local scid credits :
  Inv m -> tget h local (m_chs m) = None -> tget h scid (m_le m) = None ->
  let c' := mkChan KLe h local scid SConnected 0 credits 0 true None None 0 true in
  let m1 := hnew m c' in
  let m2 := with_chs m1 (tset h local (huid m) (m_chs m1)) in
  Inv (with_le m2 (tset h scid (huid m) (m_le m2))).
Proof.
  intros I Hc Hl c' m1 m2.
  apply (inv_new_chan m _ c' true None None I); subst m2 m1 c'; cbn; auto.
  - intros u'. autorewrite with acc. reflexivity.
  - unfold chan_facts; cbn. split; [discriminate|split; [discriminate|split; [auto|split; [discriminate|reflexivity]]]].
  - discriminate.
  - intros w. autorewrite with acc. destruct (Z.eqb_spec w (wuid m)); subst; auto using wget_wuid.
  - discriminate.
  - discriminate.
Qed.

Lemma inv_recv_conn_req m h id psm scid : Inv m -> Inv (fst (recv_conn_req m h id psm scid)).
Proof.
  intros I. unfold recv_conn_req.
  destruct (srv_get psm (m_clsrv m)) as [mode|]; [|auto].
  destruct (find_free_bredr (tkeys h (m_chs m))) as [local|] eqn:Ef; cbn [fst]; [|auto].
  apply find_free_bredr_fresh in Ef.
  set (c' := mkChan KCl h local scid SWaitConfigReqRsp mode 0 0 true None None 0 true).
  apply (inv_new_chan m _ c' true None None I); cbn; auto.
  - intros u'. autorewrite with acc. reflexivity.
  - unfold chan_facts; cbn. split; [discriminate|split; [discriminate|split; [discriminate|split; [discriminate|reflexivity]]]].
  - discriminate.
  - discriminate.
  - intros w. autorewrite with acc. destruct (Z.eqb_spec w (wuid m)); subst; auto using wget_wuid.
  - discriminate.
  - discriminate.
Qed.
(* ------------------------------------------------------------------ accepted LE / enhanced requests *)
Lemma inv_accept_list h credits pairs : forall m,
  Inv m -> NoDup (map fst pairs) -> NoDup (map snd pairs) ->
  (forall s d, In (s, d) pairs -> tget h s (m_chs m) = None /\ tget h d (m_le m) = None) ->
  Inv (fst (new_le_chans m h SConnected credits 0 true pairs)).
Proof.
  induction pairs as [|[s d] ps IH]; intros m I N1 N2 Hf; cbn [new_le_chans fst]; auto.
  inversion N1 as [|? ? Hn1 N1']; subst. inversion N2 as [|? ? Hn2 N2']; subst.
  destruct (Hf s d (or_introl eq_refl)) as [Hs Hd].
  pose proof (inv_accept_le m h s d credits I Hs Hd) as I2. cbn zeta in I2.
  match goal with |- Inv (fst (let '(m3, us) := new_le_chans ?mm _ _ _ _ _ _ in _)) =>
    specialize (IH mm I2 N1' N2'); destruct (new_le_chans mm h SConnected credits 0 true ps) as [m3 us] eqn:E end.
  cbn [fst] in *. apply IH.
  intros s' d' Hin. destruct (Hf s' d' (or_intror Hin)) as [A B]. cbn.
  rewrite !tget_tset, !tget_tdel.
  assert (s' <> s) by (intros ->; apply Hn1; change s with (fst (s, d')); now apply in_map).
  assert (d' <> d) by (intros ->; apply Hn2; change d with (snd (s', d)); now apply in_map).
  rewrite !Z.eqb_refl. destruct (Z.eqb_spec s' s), (Z.eqb_spec d' d); try congruence. cbn. auto.
Qed.

Lemma inv_recv_le_req m h id psm scid credits okp : Inv m -> Inv (fst (recv_le_req m h id psm scid credits okp)).
Proof.
  intros I. unfold recv_le_req.
  destruct (srv_get psm (m_lesrv m)); [|auto].
  destruct (negb okp); [auto|].
  destruct (memz scid (tkeys h (m_le m))) eqn:Em; [auto|].
  destruct (find_free_le (tkeys h (m_chs m))) as [local|] eqn:Ef; [|auto]. cbn [fst].
  apply inv_accept_list; auto.
  - cbn. constructor; auto. constructor.
  - cbn. constructor; auto. constructor.
  - intros s d [[= <- <-]|[]]. split.
    + now apply find_free_le_fresh.
    + apply memz_false in Em. destruct (tget h scid (m_le m)) eqn:E; auto. exfalso. apply Em. apply tkeys_tget. congruence.
Qed.

Lemma in_combine_fst {A B} (l1 : list A) (l2 : list B) x : In x (map fst (combine l1 l2)) -> In x l1.
Proof. rewrite in_map_iff. intros [[a b] [<- H]]. eapply in_combine_l; eauto. Qed.
Lemma in_combine_snd {A B} (l1 : list A) (l2 : list B) x : In x (map snd (combine l1 l2)) -> In x l2.
Proof. rewrite in_map_iff. intros [[a b] [<- H]]. eapply in_combine_r; eauto. Qed.

Lemma NoDup_combine_fst {A B} (l1 : list A) (l2 : list B) : NoDup l1 -> NoDup (map fst (combine l1 l2)).
Proof.
  revert l2. induction l1 as [|a l1 IH]; intros [|b l2] H; cbn; try constructor.
  - inversion H; subst. intros Hi. apply in_combine_fst in Hi. auto.
  - inversion H; subst. auto.
Qed.
Lemma NoDup_combine_snd {A B} (l1 : list A) (l2 : list B) : NoDup l2 -> NoDup (map snd (combine l1 l2)).
Proof.
  revert l2. induction l1 as [|a l1 IH]; intros [|b l2] H; cbn; try constructor.
  - inversion H; subst. intros Hi. apply in_combine_snd in Hi. auto.
  - inversion H; subst. auto.
Qed.

Lemma inv_recv_enh_req m h id psm credits scids okp :
  Inv m -> frame_ok m h (FEnhReq id psm credits scids okp) = true ->
  Inv (fst (recv_enh_req m h id psm credits scids okp)).
Proof.
  intros I Hok. cbn in Hok. apply nodupz_NoDup in Hok. unfold recv_enh_req.
  destruct (srv_get psm (m_lesrv m)); [|auto].
  destruct (negb okp); [auto|].
  destruct (any_mem scids (tkeys h (m_le m))) eqn:Em; [auto|].
  destruct (find_free_le_n (tkeys h (m_chs m)) (length scids)) as [|l0 locals] eqn:Ef; [auto|]. cbn [fst].
  apply inv_accept_list; auto.
  - apply NoDup_combine_fst. rewrite <- Ef. unfold find_free_le_n. destruct (length scids); [constructor|].
    apply find_free_n_NoDup.
  - now apply NoDup_combine_snd.
  - intros s d Hin. split.
    + apply in_combine_l in Hin. rewrite <- Ef in Hin. unfold find_free_le_n in Hin.
      destruct (length scids); [destruct Hin|]. eapply free_fresh; eauto.
    + apply in_combine_r in Hin. rewrite any_mem_false in Em.
      destruct (tget h d (m_le m)) eqn:E; auto. exfalso. apply (Em d Hin). apply tkeys_tget. congruence.
Qed.
(* ================================================================== link loss *)
Definition down_us (m : mgr) (h : Z) : list Z :=
  map snd (tconn h (m_chs m)) ++ map snd (tconn h (m_le m)).

Lemma hget_map_from (f : Z -> chan -> chan) m u l :
  m_heap m = l ->
  (if u <? 0 then None else nth_error (map_from f 0 l) (Z.to_nat u)) = option_map (f u) (hget m u).
Proof.
  intros <-. unfold hget. destruct (Z.ltb_spec u 0); auto.
  rewrite nth_error_map_from. rewrite Z.add_0_l, Z2Nat.id by lia. reflexivity.
Qed.

Lemma hget_down m h u : hget (do_down m h) u = option_map (down_chan h (down_us m h) u) (hget m u).
Proof. unfold do_down, hget at 1. cbn [m_heap]. now apply hget_map_from. Qed.

Lemma wget_down m h w :
  wget (do_down m h) w =
  option_map (fun x => if memz w (down_cancels m h (down_us m h)) then wres1 O_CANCELLED x
                       else if memz w (down_results m (down_us m h)) then wres1 O_RESULT x else x) (wget m w).
Proof.
  unfold do_down, wget at 1. cbn [m_w]. unfold wget. destruct (Z.ltb_spec w 0); auto.
  rewrite nth_error_map_from. rewrite Z.add_0_l, Z2Nat.id by lia. reflexivity.
Qed.

Lemma nth_hget m n c : nth_error (m_heap m) n = Some c <-> hget m (Z.of_nat n) = Some c.
Proof. unfold hget. destruct (Z.ltb_spec (Z.of_nat n) 0); [lia|]. now rewrite Nat2Z.id. Qed.

Lemma hget_nth m u c : hget m u = Some c -> exists n, u = Z.of_nat n /\ nth_error (m_heap m) n = Some c.
Proof.
  intros H. pose proof (hget_bound m u c H). exists (Z.to_nat u). split; [lia|].
  unfold hget in H. destruct (Z.ltb_spec u 0); [lia|auto].
Qed.

Lemma In_opt_list o (w : Z) : In w (opt_list o) <-> o = Some w.
Proof. destruct o; cbn; split; intros H; try tauto; try discriminate; [destruct H as [<-|[]]; auto|inversion H; auto]. Qed.

Lemma down_cancels_spec m h us w :
  In w (down_cancels m h us) <->
  (exists u c, hget m u = Some c /\ c_cw c = Some w /\
               match c_kind c with KLe => In u us | KCl => c_conn c = h end) \/
  (exists id us', In (h, id, (w, us')) (m_pend m)).
Proof.
  unfold down_cancels. rewrite in_app_iff, In_flat_map_from, in_map_iff. split.
  - intros [[n [c [Hn Hi]]]|[[[h' id] [w' us']] [Hw Hi]]].
    + left. exists (Z.of_nat n), c. rewrite Z.add_0_l in Hi. split; [now apply nth_hget|].
      destruct (c_kind c).
      * destruct (memz (Z.of_nat n) us) eqn:E; [|destruct Hi]. apply memz_In in E. apply In_opt_list in Hi. auto.
      * destruct (Z.eqb_spec (c_conn c) h); [|destruct Hi]. apply In_opt_list in Hi. auto.
    + right. cbn in Hw. subst w'. apply In_tconn in Hi. cbn in Hi. destruct Hi as [Hi ->]. eauto.
  - intros [[u [c (Hu & Hc & Hk)]]|[id [us' Hi]]].
    + left. destruct (hget_nth m u c Hu) as [n [-> Hn]]. exists n, c. split; auto. rewrite Z.add_0_l.
      destruct (c_kind c).
      * apply memz_In in Hk. rewrite Hk. now apply In_opt_list.
      * subst h. rewrite Z.eqb_refl. now apply In_opt_list.
    + right. exists (h, id, (w, us')). split; auto. apply In_tconn. auto.
Qed.

Lemma down_results_spec m us w :
  In w (down_results m us) <-> exists u c, hget m u = Some c /\ c_dw c = Some w /\ In u us.
Proof.
  unfold down_results. rewrite In_flat_map_from. split.
  - intros [n [c [Hn Hi]]]. exists (Z.of_nat n), c. rewrite Z.add_0_l in Hi. split; [now apply nth_hget|].
    destruct (memz (Z.of_nat n) us) eqn:E; [|destruct Hi]. apply memz_In in E. apply In_opt_list in Hi. auto.
  - intros [u [c (Hu & Hc & Hk)]]. destruct (hget_nth m u c Hu) as [n [-> Hn]]. exists n, c. split; auto.
    rewrite Z.add_0_l. apply memz_In in Hk. rewrite Hk. now apply In_opt_list.
Qed.

Lemma in_use_le_open m u c : c_live c = true -> le_open_st (c_st c) = true -> in_use m u c = true.
Proof. intros A B. unfold in_use. rewrite A. destruct (c_st c); try discriminate; reflexivity. Qed.

Lemma down_us_spec m h u : Inv m ->
  (In u (down_us m h) <-> exists c, hget m u = Some c /\ c_conn c = h /\ in_use m u c = true).
Proof.
  intros I. unfold down_us. rewrite in_app_iff, !in_map_iff. split.
  - intros [[[[h' k] u'] [Hs Hi]]|[[[h' k] u'] [Hs Hi]]]; cbn in Hs; subst u'; apply In_tconn in Hi; cbn in Hi;
      destruct Hi as [Hi ->].
    + apply (In_tget _ _ _ _ (nd_chs m I)) in Hi. destruct (chs_pt m I _ _ _ Hi) as [c (A & B & C)].
      exists c. repeat split; auto. apply (ch_reg m I u c A). now rewrite B, C.
    + apply (In_tget _ _ _ _ (nd_le m I)) in Hi. destruct (le_pt m I _ _ _ Hi) as [c (A & B & C & D & E & F)].
      exists c. repeat split; auto. now apply in_use_le_open.
  - intros [c (A & B & C)]. left. apply (ch_reg m I u c A) in C. apply tget_In in C.
    exists (c_conn c, c_scid c, u). split; auto. apply In_tconn. auto.
Qed.

Lemma wres1_notpending o x : w_out x <> O_PENDING -> wres1 o x = x.
Proof. intros H. unfold wres1. destruct (Z.eqb_spec (w_out x) O_PENDING); congruence. Qed.
Lemma wres1_out o x : w_out x = O_PENDING -> w_out (wres1 o x) = o.
Proof. intros H. unfold wres1. rewrite H. reflexivity. Qed.

(* what abort()/cancellation leaves of a channel of the lost connection *)
Lemma down_chan_facts m h u c : Inv m -> hget m u = Some c -> c_conn c = h ->
  let c' := down_chan h (down_us m h) u c in
  c_kind c' = c_kind c /\ c_conn c' = c_conn c /\ c_scid c' = c_scid c /\ c_live c' = false /\
  c_cw c' = None /\ c_dw c' = None /\ c_drained c' = true /\
  le_open_st (c_st c') = false /\ cl_abortable_st (c_st c') = false.
Proof.
  intros I Hu Hc. pose proof (inv_chan_facts m u c I Hu) as (F1 & F2 & F3 & F4 & F5).
  pose proof (down_us_spec m h u I) as Hus.
  unfold down_chan. rewrite Hc, Z.eqb_refl.
  destruct (memz u (down_us m h)) eqn:Em.
  - (* filed under the handle: aborted *)
    unfold aborted. destruct (c_kind c) eqn:Ek; cbn; rewrite ?Ek; cbn.
    + unfold kind_st in F5. apply negb_true_iff in F5.
      destruct (le_open_st (c_st c)) eqn:Eo; cbn; repeat split; auto.
    + unfold kind_st in F5. apply negb_true_iff in F5.
      assert (Hd : c_drained c = true).
      { destruct (c_drained c) eqn:Ed; auto. destruct (F3 eq_refl) as (K & _). congruence. }
      destruct (cl_abortable_st (c_st c)) eqn:Eo; cbn; repeat split; auto.
  - (* not in use *)
    apply memz_false in Em.
    assert (Hnu : in_use m u c = false).
    { destruct (in_use m u c) eqn:E; auto. exfalso. apply Em. apply Hus. eauto. }
    assert (Hcw : c_kind c = KLe -> c_cw c = None).
    { intros Ek. destruct (c_cw c) as [w|] eqn:Ec; auto. destruct (F1 w eq_refl) as [A B].
      rewrite Ek in B. unfold in_use in Hnu. rewrite A, Ec in Hnu. destruct (c_st c); discriminate. }
    assert (Hdw : c_dw c = None).
    { destruct (c_dw c) as [w|] eqn:Ec; auto. destruct (F2 w eq_refl) as [A B].
      unfold in_use in Hnu. rewrite A in Hnu. destruct (c_kind c), (c_st c); discriminate. }
    assert (Hdr : c_drained c = true).
    { destruct (c_drained c) eqn:Ed; auto. destruct (F3 eq_refl) as (K & A & B).
      unfold in_use in Hnu. rewrite A, B in Hnu. discriminate. }
    assert (Hlo : le_open_st (c_st c) = false).
    { destruct (le_open_st (c_st c)) eqn:E; auto. assert (c_live c = true) by (eapply live_of_open; eauto).
      rewrite (in_use_le_open m u c) in Hnu; auto. }
    assert (Hca : cl_abortable_st (c_st c) = false).
    { destruct (cl_abortable_st (c_st c)) eqn:E; auto. assert (A : c_live c = true) by (eapply live_of_open; eauto).
      unfold in_use in Hnu. rewrite A in Hnu. destruct (c_st c); discriminate. }
    destruct (c_kind c) eqn:Ek; cbn; rewrite ?Ek; repeat split; auto.
Qed.

Lemma down_chan_other m h u c : Inv m -> hget m u = Some c -> c_conn c <> h ->
  down_chan h (down_us m h) u c = c.
Proof.
  intros I Hu Hc. unfold down_chan.
  destruct (Z.eqb_spec (c_conn c) h); [congruence|].
  assert (Em : memz u (down_us m h) = false).
  { apply memz_false. intros Hi. apply (down_us_spec m h u I) in Hi. destruct Hi as [c0 (A & B & _)]. congruence. }
  rewrite Em. destruct (c_kind c); reflexivity.
Qed.

Lemma inv_down m h : Inv m -> Inv (do_down m h).
Proof.
  intros I.
  set (chg := fun u => match hget m u with
                       | Some c => if Z.eqb (c_conn c) h then Some (down_chan h (down_us m h) u c) else None
                       | None => None end).
  assert (Hchg_some : forall u c', chg u = Some c' ->
            exists c, hget m u = Some c /\ c_conn c = h /\ c' = down_chan h (down_us m h) u c).
  { intros u c'. unfold chg. destruct (hget m u) as [c|]; [|discriminate].
    destruct (Z.eqb_spec (c_conn c) h); [|discriminate]. intros [= <-]. eauto. }
  assert (Hchg_none : forall u c, chg u = None -> hget m u = Some c -> c_conn c <> h).
  { intros u c. unfold chg. intros H Hu. rewrite Hu in H. destruct (Z.eqb_spec (c_conn c) h); [discriminate|auto]. }
  assert (Hmw : forall w x, wget m w = Some x ->
            wget (do_down m h) w = Some x \/
            (w_out x = O_PENDING /\ exists o, o <> O_PENDING /\ wget (do_down m h) w = Some (wres1 o x) /\
              (In w (down_cancels m h (down_us m h)) \/ In w (down_results m (down_us m h))))).
  { intros w x Hx. rewrite wget_down, Hx. cbn. 
    destruct (Z.eq_dec (w_out x) O_PENDING) as [Hp|Hp].
    - destruct (memz w (down_cancels m h (down_us m h))) eqn:E1.
      + right. split; auto. exists O_CANCELLED. repeat split; try discriminate; auto. left. now apply memz_In.
      + destruct (memz w (down_results m (down_us m h))) eqn:E2; [|auto].
        right. split; auto. exists O_RESULT. repeat split; try discriminate; auto. right. now apply memz_In.
    - left. rewrite !wres1_notpending by auto. repeat destruct (memz _ _); auto. }
  assert (Hkeepw : forall w x, wget m w = Some x ->
            ~ In w (down_cancels m h (down_us m h)) -> ~ In w (down_results m (down_us m h)) -> wget (do_down m h) w = Some x).
  { intros w x Hx N1 N2. rewrite wget_down, Hx. cbn. 
    apply memz_false in N1, N2. now rewrite N1, N2. }
  (* waiters of channels of other connections and of other connections' requests are not touched *)
  assert (Hnotouch : forall w x, wget m w = Some x -> w_conn x <> h ->
            ~ In w (down_cancels m h (down_us m h)) /\ ~ In w (down_results m (down_us m h))).
  { intros w x Hx Hn. split.
    - rewrite down_cancels_spec. intros [[u [c (Hu & Hc & Hk)]]|[id [us' Hi]]].
      + destruct (ch_cw m I u c w Hu Hc) as (_ & _ & [x0 (A & _ & _ & B & _)]).
        rewrite Hx in A. inversion A; subst x0.
        assert (c_conn c = h); [|congruence].
        destruct (c_kind c); auto. apply (down_us_spec m h u I) in Hk. destruct Hk as [c0 (A0 & B0 & _)]. congruence.
      + apply (In_tget _ _ _ _ (nd_pend m I)) in Hi. destruct (pend_ok m I _ _ _ _ Hi) as [[x0 (A & _ & _ & B & _)] _].
        congruence.
    - rewrite down_results_spec. intros [u [c (Hu & Hc & Hk)]].
      destruct (ch_dw m I u c w Hu Hc) as (_ & _ & [x0 (A & _ & _ & B & _)]).
      rewrite Hx in A. inversion A; subst x0.
      apply (down_us_spec m h u I) in Hk. destruct Hk as [c0 (A0 & B0 & _)]. congruence. }
  apply (inv_frame m (do_down m h) chg I).
  - (* heap *) intros u. rewrite hget_down.  unfold chg. destruct (hget m u) as [c|] eqn:Hu; cbn; auto.
    destruct (Z.eqb_spec (c_conn c) h); auto. f_equal. now apply down_chan_other.
  - (* facts *) intros u c' E. destruct (Hchg_some u c' E) as [c (Hu & Hc & ->)].
    destruct (down_chan_facts m h u c I Hu Hc) as (A1 & A2 & A3 & A4 & A5 & A6 & A7 & A8 & A9). 
    unfold chan_facts. rewrite A5, A6, A7, A8, A9.
    split; [discriminate|split; [discriminate|split; [discriminate|split; [auto|]]]].
    unfold kind_st. rewrite A8, A9. now destruct (c_kind _).
  - (* CH1 *) apply NoDup_tdrop, (nd_chs m I).
  - (* CH2 *) intros h' k u E. cbn [do_down m_chs]. rewrite tget_tdrop. destruct (Z.eqb_spec h' h); [|tauto].
    subst. split; [discriminate|]. intros H. exfalso. destruct (chs_pt m I _ _ _ H) as [c (A & B & _)].
    now apply (Hchg_none u c E A).
  - (* CH3 *) intros h' k u c' E. cbn [do_down m_chs]. rewrite tget_tdrop. destruct (Z.eqb_spec h' h); [discriminate|].
    intros H. exfalso. destruct (Hchg_some u c' E) as [c (Hu & Hc & _)].
    destruct (chs_self m u c h' k I Hu H). congruence.
  - (* CH4 *) intros u c' E. destruct (Hchg_some u c' E) as [c (Hu & Hc & ->)].
    destruct (down_chan_facts m h u c I Hu Hc) as (A1 & A2 & A3 & A4 & _). 
    cbn [do_down m_chs]. rewrite tget_tdrop, A2, Hc, Z.eqb_refl. unfold in_use. rewrite A4. cbn. split; discriminate.
  - (* LE1 *) apply NoDup_tdrop, (nd_le m I).
  - (* LE2 *) intros h' k u E. cbn [do_down m_le]. rewrite tget_tdrop. destruct (Z.eqb_spec h' h); [|tauto].
    subst. split; [discriminate|]. intros H. exfalso. destruct (le_pt m I _ _ _ H) as [c (A & B & _)].
    now apply (Hchg_none u c E A).
  - (* LE3 *) intros h' k u c' E. cbn [do_down m_le]. rewrite tget_tdrop. destruct (Z.eqb_spec h' h); [discriminate|].
    intros H. exfalso. destruct (Hchg_some u c' E) as [c (Hu & Hc & _)].
    destruct (le_self m u c h' k I Hu H) as (A & _). congruence.
  - (* LE4 *) intros u c' E _ Hl. destruct (Hchg_some u c' E) as [c (Hu & Hc & ->)].
    destruct (down_chan_facts m h u c I Hu Hc) as (A1 & A2 & A3 & A4 & _).  congruence.
  - (* PE1 *) apply NoDup_tdrop, (nd_pend m I).
  - (* PE2 *) intros h' id w us' H. cbn [do_down m_pend] in H. rewrite tget_tdrop in H.
    destruct (Z.eqb_spec h' h); [discriminate|]. left. split; auto.
    destruct (pend_ok m I _ _ _ _ H) as [[x (A & _ & _ & B & _)] _].
    rewrite A. destruct (Hnotouch w x A) as [N1 N2]; [congruence|]. now apply Hkeepw.
  - (* PE3 *) intros h' id w us' u c' H Hin E. cbn [do_down m_pend] in H. rewrite tget_tdrop in H.
    destruct (Z.eqb_spec h' h); [discriminate|]. exfalso.
    destruct (Hchg_some u c' E) as [c (Hu & Hc & _)].
    destruct (pend_ok m I _ _ _ _ H) as (_ & _ & B). destruct (B u Hin) as [c0 (A0 & _ & B0 & _)]. congruence.
  - (* PE4 *) intros u c E Hu. pose proof (Hchg_none u c E Hu) as Hn.
    unfold in_use. cbn [do_down m_pend]. rewrite tget_tdrop. destruct (Z.eqb_spec (c_conn c) h); [congruence|reflexivity].
  - (* RQ1 *) apply NoDup_tdrop, (nd_reqs m I).
  - (* RQ2 *) intros h' id k H. cbn [do_down m_reqs] in H. rewrite tget_tdrop in H.
    destruct (Z.eqb_spec h' h); [discriminate|].
    destruct (reqs_ok m I _ _ _ H) as [u0 [c0 (R1 & R2 & R3 & R4 & R5)]]. exists u0, c0.
    destruct (chs_self m u0 c0 h' k I R2 R1) as [Hc0 _].
    cbn [do_down m_chs]. rewrite tget_tdrop. destruct (Z.eqb_spec h' h); [congruence|].
    rewrite hget_down, R2. cbn.  rewrite (down_chan_other m h u0 c0 I R2) by congruence. auto.
  - (* W1 *) intros w x Hx. destruct (Hmw w x Hx) as [H|(Hp & o & Ho & H & _)]; auto.
    right. exists (wres1 o x). split; auto. rewrite wres1_out; auto.
  - (* W2 *) intros u c w E Hu Hw. pose proof (Hchg_none u c E Hu) as Hn.
    assert (Hx : exists x, wget m w = Some x /\ w_conn x = c_conn c).
    { destruct Hw as [Hw|Hw].
      - destruct (ch_cw m I u c w Hu Hw) as (_ & _ & [x (A & _ & _ & B & _)]). eauto.
      - destruct (ch_dw m I u c w Hu Hw) as (_ & _ & [x (A & _ & _ & B & _)]). eauto. }
    destruct Hx as [x [Hx Hcx]]. rewrite Hx. destruct (Hnotouch w x Hx) as [N1 N2]; [congruence|]. now apply Hkeepw.
  - (* W4 *) intros w x' Hn Hx. rewrite wget_down, Hn in Hx. discriminate.
  - (* W5c *) intros u c c' w x' E Hu Hc Hx Hp. exfalso.
    destruct (Hchg_some u c' E) as [c0 (Hu0 & Hconn & _)]. rewrite Hu in Hu0. inversion Hu0; subst c0.
    destruct (ch_cw m I u c w Hu Hc) as (Al & Ast & [x (A & B & _)]).
    assert (Hin : In w (down_cancels m h (down_us m h))).
    { apply down_cancels_spec. left. exists u, c. repeat split; auto.
      destruct (c_kind c) eqn:Ek; auto. apply (down_us_spec m h u I). exists c. repeat split; auto.
      unfold in_use. rewrite Al, Hc. destruct (c_st c); try discriminate; auto. }
    rewrite wget_down, A in Hx. cbn in Hx.  apply memz_In in Hin. rewrite Hin in Hx.
    inversion Hx; subst x'. rewrite wres1_out in Hp by auto. discriminate.
  - (* W5d *) intros u c c' w x' E Hu Hc Hx Hp. exfalso.
    destruct (Hchg_some u c' E) as [c0 (Hu0 & Hconn & _)]. rewrite Hu in Hu0. inversion Hu0; subst c0.
    destruct (ch_dw m I u c w Hu Hc) as (Al & Ast & [x (A & B & _)]).
    assert (Hin : In w (down_results m (down_us m h))).
    { apply down_results_spec. exists u, c. repeat split; auto.
      apply (down_us_spec m h u I). exists c. repeat split; auto.
      unfold in_use. rewrite Al. destruct (c_kind c), (c_st c); try discriminate; auto. }
    rewrite wget_down, A in Hx. cbn in Hx.  apply memz_In in Hin. rewrite Hin in Hx.
    destruct (memz w (down_cancels m h (down_us m h))); inversion Hx; subst x'; rewrite wres1_out in Hp by auto; discriminate.
  - (* W5p *) intros h' id w us' x' H Hx Hp. cbn [do_down m_pend]. rewrite tget_tdrop.
    destruct (Z.eqb_spec h' h); [|eauto]. exfalso. subst h'.
    destruct (pend_ok m I _ _ _ _ H) as [[x (A & B & _)] _].
    assert (Hin : In w (down_cancels m h (down_us m h))).
    { apply down_cancels_spec. right. exists id, us'. now apply tget_In. }
    rewrite wget_down, A in Hx. cbn in Hx.  apply memz_In in Hin. rewrite Hin in Hx.
    inversion Hx; subst x'. rewrite wres1_out in Hp by auto. discriminate.
  - (* W6c *) intros u c' w E Hc. destruct (Hchg_some u c' E) as [c (Hu & Hconn & ->)].
    destruct (down_chan_facts m h u c I Hu Hconn) as (_ & _ & _ & _ & A5 & _).  congruence.
  - (* W6d *) intros u c' w E Hc. destruct (Hchg_some u c' E) as [c (Hu & Hconn & ->)].
    destruct (down_chan_facts m h u c I Hu Hconn) as (_ & _ & _ & _ & _ & A6 & _).  congruence.
Qed.
(* ================================================================== enhanced credit-based: client side *)
Definition chg0 : Z -> option chan := fun _ => None.

(* S1: the future of a new enhanced request, with no channel yet *)
Lemma inv_pend_new m h i :
  Inv m -> tget h i (m_pend m) = None ->
  let m1 := wnew (next_id m h) O_PENDING WOpenEnh h i in
  Inv (with_pend m1 (tset h i (wuid m, []) (m_pend m1))).
Proof.
  intros I Hn m1. subst m1.
  apply (inv_frame m _ chg0 I);
    try (unfold chg0; intros; match goal with H : None = Some _ |- _ => discriminate H end).
  - (* heap *) intros u. reflexivity.
  - (* CH1 *) apply (nd_chs m I).
  - (* CH2 *) intros; tauto.
  - (* LE1 *) apply (nd_le m I).
  - (* LE2 *) intros; tauto.
  - apply NoDup_tset, (nd_pend m I).
  - intros h' id w us H. cbn [m_pend with_pend] in H. rewrite tget_tset in H.
    destruct (Z.eqb_spec h' h), (Z.eqb_spec id i); subst; cbn in H; rewrite ?tget_tdel in H;
      repeat match type of H with (if ?b then _ else _) = _ => let E := fresh in destruct b eqn:E; [discriminate|] end.
    + inversion H; subst. right. split; [|split; [constructor|intros u []]].
      exists (mkW O_PENDING WOpenEnh h i). autorewrite with acc. rewrite Z.eqb_refl. repeat split; auto.
    + left. split; auto. destruct (pend_ok m I _ _ _ _ H) as [[x (A & _)] _]. autorewrite with acc.
      now rewrite (wget_old m w x A).
    + left. split; auto. destruct (pend_ok m I _ _ _ _ H) as [[x (A & _)] _]. autorewrite with acc.
      now rewrite (wget_old m w x A).
    + left. split; auto. destruct (pend_ok m I _ _ _ _ H) as [[x (A & _)] _]. autorewrite with acc.
      now rewrite (wget_old m w x A).
  - intros u c _ Hu. unfold in_use. autorewrite with acc.
    destruct (Z.eqb_spec (c_conn c) h), (Z.eqb_spec (c_ref c) i); cbn; auto.
    rewrite e, e0, Hn. destruct (c_st c); reflexivity.
  - apply (nd_reqs m I).
  - intros h' id k H. destruct (reqs_ok m I _ _ _ H) as [u0 [c0 R]]. exists u0, c0. now autorewrite with acc.
  - intros w x Hx. left. autorewrite with acc. now rewrite (wget_old m w x Hx).
  - intros u c w _ Hu Hw. autorewrite with acc.
    assert (exists x, wget m w = Some x) as [x Hx].
    { destruct Hw as [Hw|Hw]; [destruct (ch_cw m I u c w Hu Hw) as (_ & _ & [x (A & _)])
                              |destruct (ch_dw m I u c w Hu Hw) as (_ & _ & [x (A & _)])]; eauto. }
    now rewrite (wget_old m w x Hx).
  - intros w x' Hnone Hx Hp. autorewrite with acc in Hx.
    destruct (Z.eqb_spec w (wuid m)); [|congruence]. inversion Hx; subst. unfold owner_ok. cbn.
    exists []. autorewrite with acc. now rewrite !Z.eqb_refl.
  - intros h' id w us x' H _ _. autorewrite with acc.
    destruct (Z.eqb_spec h' h), (Z.eqb_spec id i); subst; cbn; eauto. congruence.
Qed.

Lemma NoDup_snoc {A} (l : list A) x : NoDup l -> ~ In x l -> NoDup (l ++ [x]).
Proof.
  induction l as [|y l IH]; cbn; intros N Hn; [constructor; [intros []|constructor]|].
  inversion N; subst. constructor.
  - rewrite in_app_iff. cbn. intuition.
  - apply IH; auto.
Qed.

Ltac chg1_tac :=
  repeat match goal with
         | H : chg1 _ _ ?u0 = Some ?c0 |- _ =>
             apply chg1_some in H; let A := fresh in let B := fresh in destruct H as [A B]; subst u0; subst c0
         | H : chg1 _ _ _ = None |- _ => apply chg1_none in H
         end.

(* S2: one more channel of the pending request *)
Lemma inv_add_init m h i scid w us :
  Inv m -> tget h i (m_pend m) = Some (w, us) -> tget h scid (m_chs m) = None ->
  let c0 := mkChan KLe h scid 0 SInit 0 0 0 true None None i true in
  let m1 := hnew m c0 in
  let m2 := with_chs m1 (tset h scid (huid m) (m_chs m1)) in
  Inv (pend_add m2 h i (huid m)).
Proof.
  intros I Hp Hfresh c0 m1 m2. set (u := huid m).
  assert (Hnone : hget m u = None) by apply hget_huid.
  assert (Hnochs : forall h1 k1, tget h1 k1 (m_chs m) = Some u -> False).
  { intros h1 k1 H. destruct (chs_pt m I _ _ _ H) as [c1 (A & _)]. congruence. }
  assert (Hnole : forall h1 k1, tget h1 k1 (m_le m) = Some u -> False).
  { intros h1 k1 H. destruct (le_pt m I _ _ _ H) as [c1 (A & _)]. congruence. }
  destruct (pend_ok m I _ _ _ _ Hp) as (Wi & Nd & Mem).
  assert (Hnotin : ~ In u us).
  { intros Hi. destruct (Mem u Hi) as [c1 (A & _)]. congruence. }
  unfold pend_add. subst m2 m1. cbn [m_pend with_chs hnew with_heap]. rewrite Hp.
  apply (inv_frame m _ (chg1 u c0) I).
  - (* heap *) intros u'. unfold chg1. autorewrite with acc. fold u. destruct (Z.eqb u' u); reflexivity.
  - (* facts *) intros u0 c' E. chg1_tac. unfold chan_facts; cbn.
    split; [discriminate|split; [discriminate|split; [discriminate|split; [discriminate|reflexivity]]]].
  - (* CH1 *) autorewrite with acc. apply NoDup_tset, (nd_chs m I).
  - (* CH2 *) intros h' k u0 E. chg1_tac. cbn [m_chs with_pend with_chs hnew with_heap]. apply (rel_tset _ _ _ u); auto.
  - (* CH3 *) intros h' k u0 c' E H. chg1_tac. autorewrite with acc in H. cbn.
    destruct (Z.eqb_spec h' h), (Z.eqb_spec k scid); subst; cbn in H; auto;
      try match type of H with (if ?b then _ else _) = _ => destruct b; [discriminate|] end; exfalso; eauto.
  - (* CH4 *) intros u0 c' E. chg1_tac. cbn [c_conn c_scid c0]. autorewrite with acc. rewrite !Z.eqb_refl. cbn.
    unfold in_use. cbn [c_live c_st c_conn c_ref c0]. autorewrite with acc. rewrite !Z.eqb_refl. cbn.
    assert (memz u (us ++ [u]) = true) by (apply memz_In, in_or_app; right; now left). rewrite H. tauto.
  - (* LE1 *) autorewrite with acc. apply (nd_le m I).
  - (* LE2 *) intros h' k u0 E. autorewrite with acc. tauto.
  - (* LE3 *) intros h' k u0 c' E H. chg1_tac. autorewrite with acc in H. exfalso; eauto.
  - (* LE4 *) intros u0 c' E _ _ H. chg1_tac. discriminate.
  - (* PE1 *) autorewrite with acc. apply NoDup_tset, (nd_pend m I).
  - (* PE2 *) intros h' id w' us' H. autorewrite with acc in H.
    destruct (Z.eqb_spec h' h), (Z.eqb_spec id i); subst; cbn in H;
      repeat match type of H with (if ?b then _ else _) = _ => let E := fresh in destruct b eqn:E; [discriminate|] end.
    + inversion H; subst. right. split; [|split].
      * destruct Wi as [x Hx]. exists x. now autorewrite with acc.
      * apply NoDup_snoc; auto.
      * intros u0 Hin E. chg1_tac. apply in_app_or in Hin. destruct Hin as [Hin|[<-|[]]]; [|congruence].
        destruct (Mem u0 Hin) as [c1 Hc1]. exists c1. unfold member_ok. tauto.
    + left. split; auto.
    + left. split; auto.
    + left. split; auto.
  - (* PE3 *) intros h' id w' us' u0 c' H Hin E. chg1_tac. autorewrite with acc in H.
    destruct (Z.eqb_spec h' h), (Z.eqb_spec id i); subst; cbn in H;
      repeat match type of H with (if ?b then _ else _) = _ => let E := fresh in destruct b eqn:E; [discriminate|] end.
    + unfold member_ok. cbn. tauto.
    + exfalso. destruct (pend_ok m I _ _ _ _ H) as (_ & _ & B). destruct (B u Hin) as [c1 (A & _)]. congruence.
    + exfalso. destruct (pend_ok m I _ _ _ _ H) as (_ & _ & B). destruct (B u Hin) as [c1 (A & _)]. congruence.
    + exfalso. destruct (pend_ok m I _ _ _ _ H) as (_ & _ & B). destruct (B u Hin) as [c1 (A & _)]. congruence.
  - (* PE4 *) intros u0 c E Hu. chg1_tac. unfold in_use. autorewrite with acc.
    destruct (Z.eqb_spec (c_conn c) h), (Z.eqb_spec (c_ref c) i); cbn; auto.
    rewrite e, e0, Hp. destruct (c_st c); auto. f_equal.
    assert (memz u0 (us ++ [u]) = memz u0 us); [|auto].
    apply bool_iff. rewrite !memz_In, in_app_iff. cbn. intuition congruence.
  - (* RQ1 *) autorewrite with acc. apply (nd_reqs m I).
  - (* RQ2 *) intros h' id k H. autorewrite with acc in H.
    destruct (reqs_ok m I _ _ _ H) as [u1 [c1 (R1 & R2 & R3)]]. exists u1, c1.
    assert (u1 <> u) by (intros ->; congruence).
    rewrite hget_with_pend, hget_with_chs, hget_hnew. fold u.
    destruct (Z.eqb_spec u1 u); [congruence|]. repeat split; try tauto.
    cbn [m_chs with_pend with_chs hnew with_heap]. apply (rel_tset _ _ _ u); auto.
  - (* W1 *) intros w0 x Hx. left. now autorewrite with acc.
  - (* W2 *) intros u0 c w0 _ _ _. now autorewrite with acc.
  - (* W4 *) intros w0 x' Hn Hx. autorewrite with acc in Hx. congruence.
  - (* W5c *) intros u0 c c' w0 x' E Hu. chg1_tac. congruence.
  - (* W5d *) intros u0 c c' w0 x' E Hu. chg1_tac. congruence.
  - (* W5p *) intros h' id w0 us0 x' H _ _. autorewrite with acc.
    destruct (Z.eqb_spec h' h), (Z.eqb_spec id i); subst; cbn; eauto.
    rewrite Hp in H. inversion H; subst. eauto.
  - (* W6c *) intros u0 c' w0 E. chg1_tac. discriminate.
  - (* W6d *) intros u0 c' w0 E. chg1_tac. discriminate.
Qed.

Lemma inv_new_enh_chans h i scids : forall m w us,
  Inv m -> tget h i (m_pend m) = Some (w, us) -> NoDup scids ->
  (forall s, In s scids -> tget h s (m_chs m) = None) ->
  Inv (new_enh_chans m h i scids).
Proof.
  induction scids as [|s rest IH]; intros m w us I Hp Nd Hf; cbn [new_enh_chans]; auto.
  inversion Nd as [|? ? Hn Nd']; subst.
  pose proof (inv_add_init m h i s w us I Hp (Hf s (or_introl eq_refl))) as I2. cbn zeta in I2.
  eapply IH; eauto.
  - unfold pend_add. cbn [m_pend with_chs hnew with_heap]. rewrite Hp. cbn [m_pend with_pend].
    rewrite tget_tset, !Z.eqb_refl. reflexivity.
  - intros s' Hs'. unfold pend_add. cbn [m_pend with_chs hnew with_heap]. rewrite Hp. cbn [m_chs with_pend with_chs].
    rewrite tget_tset, tget_tdel. assert (s' <> s) by (intros ->; auto).
    destruct (Z.eqb_spec s' s); [congruence|]. rewrite andb_false_r. apply Hf. now right.
Qed.

Lemma inv_open_enh m h psm n credits :
  Inv m -> ev_ok m (EOpen h K_ENH psm n 0 credits) = true -> Inv (fst (open_enh m h psm n credits)).
Proof.
  intros I Hok. cbn in Hok. unfold open_enh.
  destruct (find_free_le_n (tkeys h (m_chs m)) (Z.to_nat n)) as [|s0 rest] eqn:Ef; cbn [fst].
  { apply inv_wnew_done; auto. discriminate. }
  destruct (tget h (nid m h) (m_pend m)) eqn:Ep; [discriminate|].
  pose proof (inv_pend_new m h (nid m h) I Ep) as I1. cbn zeta in I1.
  eapply inv_new_enh_chans; eauto.
  - cbn [m_pend with_pend]. rewrite tget_tset, !Z.eqb_refl. reflexivity.
  - rewrite <- Ef. unfold find_free_le_n. destruct (Z.to_nat n); [constructor|apply find_free_n_NoDup].
  - intros s Hs. cbn [m_chs with_pend wnew with_w next_id with_ids]. rewrite <- Ef in Hs. unfold find_free_le_n in Hs.
    destruct (Z.to_nat n); [destruct Hs|]. eapply free_fresh; eauto.
Qed.

(* S3/S4: the response reaches one channel of the request *)
Lemma member_facts m h i w us u : Inv m -> tget h i (m_pend m) = Some (w, us) -> In u us ->
  exists c, hget m u = Some c /\ member_ok c h i /\ in_use m u c = true /\
            tget h (c_scid c) (m_chs m) = Some u.
Proof.
  intros I Hp Hin. destruct (pend_ok m I _ _ _ _ Hp) as (_ & _ & B). destruct (B u Hin) as [c (A & M)].
  assert (Hiu : in_use m u c = true).
  { destruct M as (_ & M2 & M3 & M4 & M5 & _). unfold in_use. rewrite M5, M3, M2, M4, Hp. cbn. now apply memz_In. }
  exists c. repeat split; try tauto. destruct M as (_ & <- & _). now apply (ch_reg m I u c A).
Qed.

Lemma inv_enh_step m h i w u us' (ok : bool) d credits (hasd : bool) :
  Inv m -> tget h i (m_pend m) = Some (w, u :: us') ->
  (ok = true -> hasd = true /\ tget h d (m_le m) = None) ->
  let m1 := pend_set m h i us' in
  let f := fun c => if ok then set_st (set_out (set_dcid c d) credits (c_pending c) (c_drained c)) SConnected
                    else set_st c SConnError in
  let m2 := if hasd then hupd m1 u f else m1 in
  let m3 := if ok then le_register m2 [u] else chs_unregister m2 [u] in
  Inv m3 /\ m_pend m3 = tset h i (w, us') (m_pend m) /\
  m_le m3 = (if ok then tset h d u (m_le m) else m_le m).
Proof.
  intros I Hp Hok m1 f m2 m3.
  destruct (member_facts m h i w (u :: us') u I Hp (or_introl eq_refl)) as [c (Hu & M & Hin & Hreg)].
  destruct M as (Mk & Mc & Ms & Mr & Ml & Mcw & Mdw).
  destruct (pend_ok m I _ _ _ _ Hp) as (Wi & Nd & Mem). apply NoDup_cons_iff in Nd. destruct Nd as [Hnotin Nd'].
  pose proof (inv_chan_facts m u c I Hu) as (F1 & F2 & F3 & F4 & F5).
  set (c' := if hasd then f c else c).
  assert (Ec' : c_kind c' = KLe /\ c_conn c' = c_conn c /\ c_scid c' = c_scid c /\ c_live c' = true /\
                c_cw c' = None /\ c_dw c' = None /\ c_ref c' = c_ref c).
  { subst c' f. destruct hasd, ok; cbn; repeat split; auto. }
  destruct Ec' as (E1 & E2 & E3 & E4 & E5 & E6 & E7).
  assert (Hm2 : forall u', hget m2 u' = if Z.eqb u' u then Some c' else hget m u').
  { intros u'. subst m2 m1 c'. unfold pend_set. rewrite Hp. destruct hasd; autorewrite with acc;
      destruct (Z.eqb_spec u' u); subst; rewrite ?Hu; reflexivity. }
  assert (Hm3heap : forall u', hget m3 u' = if Z.eqb u' u then Some c' else hget m u').
  { intros u'. subst m3. destruct ok; cbn [le_register chs_unregister]; rewrite (Hm2 u), Z.eqb_refl;
      autorewrite with acc; apply Hm2. }
  assert (Hpend3 : m_pend m3 = tset h i (w, us') (m_pend m)).
  { subst m3. destruct ok; cbn [le_register chs_unregister]; rewrite (Hm2 u), Z.eqb_refl; autorewrite with acc;
      subst m2 m1; unfold pend_set; rewrite Hp; destruct hasd; autorewrite with acc; reflexivity. }
  assert (Hchs3 : m_chs m3 = if ok then m_chs m else tdel (c_conn c) (c_scid c) (m_chs m)).
  { subst m3. destruct ok; cbn [le_register chs_unregister]; rewrite (Hm2 u), Z.eqb_refl; autorewrite with acc;
      rewrite ?E2, ?E3; subst m2 m1; unfold pend_set; rewrite Hp; destruct hasd; autorewrite with acc; reflexivity. }
  assert (Hle3 : m_le m3 = if ok then tset (c_conn c) (c_dcid c') u (m_le m) else m_le m).
  { subst m3. destruct ok; cbn [le_register chs_unregister]; rewrite (Hm2 u), Z.eqb_refl; autorewrite with acc;
      rewrite ?E2; subst m2 m1; unfold pend_set; rewrite Hp; destruct hasd; autorewrite with acc; reflexivity. }
  assert (Hreqs3 : m_reqs m3 = m_reqs m).
  { subst m3. destruct ok; cbn [le_register chs_unregister]; rewrite (Hm2 u), Z.eqb_refl; autorewrite with acc;
      subst m2 m1; unfold pend_set; rewrite Hp; destruct hasd; autorewrite with acc; reflexivity. }
  assert (Hw3 : forall w0, wget m3 w0 = wget m w0).
  { intros w0. subst m3. destruct ok; cbn [le_register chs_unregister]; rewrite (Hm2 u), Z.eqb_refl; autorewrite with acc;
      subst m2 m1; unfold pend_set; rewrite Hp; destruct hasd; autorewrite with acc; reflexivity. }
  clearbody m3. clear m2 m1 Hm2.
  assert (Hst' : if ok then c_st c' = SConnected /\ c_dcid c' = d /\ c_drained c' = c_drained c
                 else (c_st c' = SConnError \/ c_st c' = SInit) /\ c_drained c' = c_drained c).
  { subst c' f. destruct ok.
    - destruct (Hok eq_refl) as [-> _]. cbn. auto.
    - destruct hasd; cbn; auto. }
  clearbody c'.
  assert (Hdr : c_drained c = true).
  { destruct (c_drained c) eqn:Ed; auto. destruct (F3 eq_refl) as (_ & _ & B). congruence. }
  assert (Hnole : forall h1 k1, tget h1 k1 (m_le m) = Some u -> False).
  { intros h1 k1 H. destruct (le_self m u c h1 k1 I Hu H) as (_ & _ & R). unfold le_reg in R.
    rewrite Mk, Ms in R. cbn in R. rewrite andb_false_r in R. discriminate. }
  split; [|split; [exact Hpend3|]].
  2:{ rewrite Hle3. destruct ok; auto. destruct Hst' as (_ & -> & _). now rewrite Mc. }
  apply (inv_frame m m3 (chg1 u c') I).
  - (* heap *) intros u'. rewrite Hm3heap. unfold chg1. destruct (Z.eqb u' u); reflexivity.
  - (* facts *) intros u0 c0 E. chg1_tac. unfold chan_facts. rewrite E5, E6, E4, E1.
    split; [discriminate|split; [discriminate|split; [|split; [discriminate|]]]].
    + destruct ok; [destruct Hst' as (A & _ & B)|destruct Hst' as (_ & B)]; rewrite B, Hdr; discriminate.
    + destruct ok; [destruct Hst' as (A & _)|destruct Hst' as ([A|A] & _)]; rewrite A; reflexivity.
  - (* CH1 *) rewrite Hchs3. destruct ok; [|apply NoDup_tdel]; apply (nd_chs m I).
  - (* CH2 *) intros h' k u0 E. chg1_tac. rewrite Hchs3. destruct ok; [tauto|].
    apply (rel_tdel _ _ _ u); auto. now rewrite Mc.
  - (* CH3 *) intros h' k u0 c0 E H. chg1_tac. rewrite Hchs3 in H. rewrite E2, E3. destruct ok.
    + eapply chs_self; eauto.
    + rewrite tget_tdel in H. destruct (Z.eqb h' (c_conn c) && Z.eqb k (c_scid c)); [discriminate|].
      eapply chs_self; eauto.
  - (* CH4 *) intros u0 c0 E. chg1_tac. rewrite Hchs3, E2, E3. unfold in_use. rewrite E4. destruct ok.
    + destruct Hst' as (A & _). rewrite A, Mc. cbn. tauto.
    + rewrite tget_tdel, !Z.eqb_refl. cbn. destruct Hst' as ([A|A] & _); rewrite A; cbn; [split; discriminate|].
      rewrite Hpend3, E2, E7, Mc, Mr, tget_tset, !Z.eqb_refl. cbn.
      apply memz_false in Hnotin. rewrite Hnotin. split; discriminate.
  - (* LE1 *) rewrite Hle3. destruct ok; [apply NoDup_tset|]; apply (nd_le m I).
  - (* LE2 *) intros h' k u0 E. chg1_tac. rewrite Hle3. destruct ok; [|tauto].
    apply (rel_tset _ _ _ u); auto. destruct Hst' as (_ & -> & _). destruct (Hok eq_refl) as [_ B]. rewrite Mc. auto.
  - (* LE3 *) intros h' k u0 c0 E H. chg1_tac. rewrite Hle3 in H. destruct ok; [|exfalso; eauto].
    destruct Hst' as (A & B & _). rewrite tget_tset in H.
    destruct (Z.eqb_spec h' (c_conn c)), (Z.eqb_spec k (c_dcid c')); subst; cbn in H.
    + rewrite A. repeat split; auto.
    + rewrite tget_tdel in H. match type of H with (if ?b then _ else _) = _ => destruct b; [discriminate|] end. exfalso; eauto.
    + rewrite tget_tdel in H. match type of H with (if ?b then _ else _) = _ => destruct b; [discriminate|] end. exfalso; eauto.
    + rewrite tget_tdel in H. match type of H with (if ?b then _ else _) = _ => destruct b; [discriminate|] end. exfalso; eauto.
  - (* LE4 *) intros u0 c0 E _ _ Ho. chg1_tac. rewrite Hle3. destruct ok.
    + rewrite E2, tget_tset, !Z.eqb_refl. reflexivity.
    + destruct Hst' as ([A|A] & _); rewrite A in Ho; discriminate.
  - (* PE1 *) rewrite Hpend3. apply NoDup_tset, (nd_pend m I).
  - (* PE2 *) intros h' id w' us0 H. rewrite Hpend3 in H. rewrite tget_tset in H. rewrite Hw3.
    destruct (Z.eqb_spec h' h), (Z.eqb_spec id i); subst; cbn in H;
      rewrite ?tget_tdel in H;
      repeat match type of H with (if ?b then _ else _) = _ => let E := fresh in destruct b eqn:E; [discriminate|] end;
      try (left; split; auto; fail).
    inversion H; subst. right. split; [|split; [exact Nd'|]].
    + destruct Wi as [x Hx]. exists x. now rewrite Hw3.
    + intros u0 Hi _. destruct (Mem u0 (or_intror Hi)) as [c1 Hc1]. exists c1. unfold member_ok. tauto.
  - (* PE3 *) intros h' id w' us0 u0 c0 H Hi E. chg1_tac. exfalso. rewrite Hpend3, tget_tset in H.
    destruct (Z.eqb_spec h' h), (Z.eqb_spec id i); subst; cbn in H;
      rewrite ?tget_tdel in H;
      repeat match type of H with (if ?b then _ else _) = _ => let E := fresh in destruct b eqn:E; [discriminate|] end.
    + inversion H; subst. auto.
    + destruct (pend_ok m I _ _ _ _ H) as (_ & _ & B). destruct (B u Hi) as [c1 (A & _ & _ & _ & R & _)]. congruence.
    + destruct (pend_ok m I _ _ _ _ H) as (_ & _ & B). destruct (B u Hi) as [c1 (A & _ & C & _)]. congruence.
    + destruct (pend_ok m I _ _ _ _ H) as (_ & _ & B). destruct (B u Hi) as [c1 (A & _ & C & _)]. congruence.
  - (* PE4 *) intros u0 c0 E Hu0. chg1_tac. unfold in_use. rewrite Hpend3, tget_tset, tget_tdel.
    destruct (Z.eqb_spec (c_conn c0) h), (Z.eqb_spec (c_ref c0) i); cbn; auto.
    rewrite e, e0, Hp. destruct (c_st c0); auto. cbn. destruct (Z.eqb_spec u0 u); [congruence|reflexivity].
  - (* RQ1 *) rewrite Hreqs3. apply (nd_reqs m I).
  - (* RQ2 *) intros h' id k H. rewrite Hreqs3 in H. destruct (reqs_ok m I _ _ _ H) as [u1 [c1 (R1 & R2 & R3 & R4 & R5)]].
    assert (u1 <> u) by (intros ->; congruence). exists u1, c1. rewrite Hm3heap.
    destruct (Z.eqb_spec u1 u); [congruence|]. repeat split; auto.
    rewrite Hchs3. destruct ok; auto. apply (rel_tdel _ _ _ u); auto. now rewrite Mc.
  - (* W1 *) intros w0 x Hx. left. now rewrite Hw3.
  - (* W2 *) intros. apply Hw3.
  - (* W4 *) intros w0 x' Hn Hx. rewrite Hw3 in Hx. congruence.
  - (* W5c *) intros u0 c0 c1 w0 x' E Hu0 Hc. chg1_tac. congruence.
  - (* W5d *) intros u0 c0 c1 w0 x' E Hu0 Hc. chg1_tac. congruence.
  - (* W5p *) intros h' id w0 us0 x' H _ _. rewrite Hpend3, tget_tset, tget_tdel.
    destruct (Z.eqb_spec h' h), (Z.eqb_spec id i); subst; cbn; eauto.
    rewrite Hp in H. inversion H; subst. eauto.
  - (* W6c *) intros u0 c0 w0 E Hc. chg1_tac. congruence.
  - (* W6d *) intros u0 c0 w0 E Hc. chg1_tac. congruence.
Qed.

(* S5: the request is answered: its entry is dropped and its future completed *)
Lemma inv_pend_done m h i w o :
  Inv m -> tget h i (m_pend m) = Some (w, []) -> o <> O_PENDING ->
  Inv (wres (with_pend m (tdel h i (m_pend m))) w o).
Proof.
  intros I Hp Ho.
  destruct (pend_ok m I _ _ _ _ Hp) as ([x (Hx & Hxp & Hxk & Hxc & Hxr)] & _ & _).
  assert (Hother : forall w0 x0, wget m w0 = Some x0 -> w_kind x0 <> WOpenEnh \/ w_conn x0 <> h \/ w_ref x0 <> i ->
                     wget (wres (with_pend m (tdel h i (m_pend m))) w o) w0 = Some x0).
  { intros w0 x0 H0 Hd. autorewrite with acc. destruct (Z.eqb_spec w0 w); auto. subst.
    rewrite Hx in H0. inversion H0; subst. intuition congruence. }
  apply (inv_frame m _ chg0 I);
    try (unfold chg0; intros; match goal with H : None = Some _ |- _ => discriminate H end).
  - intros u. now autorewrite with acc.
  - autorewrite with acc. apply (nd_chs m I).
  - intros; autorewrite with acc; tauto.
  - autorewrite with acc. apply (nd_le m I).
  - intros; autorewrite with acc; tauto.
  - autorewrite with acc. apply NoDup_tdel, (nd_pend m I).
  - intros h' id w' us H. autorewrite with acc in H.
    destruct (Z.eqb h' h && Z.eqb id i) eqn:E; [discriminate|]. left. split; auto.
    destruct (pend_ok m I _ _ _ _ H) as ([x0 (A & _ & _ & B & C)] & _). rewrite A. apply Hother; auto.
    apply andb_false_iff in E. rewrite !Z.eqb_neq in E. subst. intuition.
  - intros u c _ Hu. unfold in_use. autorewrite with acc.
    destruct (Z.eqb_spec (c_conn c) h), (Z.eqb_spec (c_ref c) i); cbn; auto.
    rewrite e, e0, Hp. destruct (c_st c); reflexivity.
  - autorewrite with acc. apply (nd_reqs m I).
  - intros h' id k H. autorewrite with acc in H. destruct (reqs_ok m I _ _ _ H) as [u0 [c0 R]]. exists u0, c0.
    now autorewrite with acc.
  - intros w0 x0 H0. autorewrite with acc. destruct (Z.eqb_spec w0 w); auto. subst. rewrite H0. cbn.
    right. eexists; split; eauto. rewrite Hx in H0. inversion H0; subst. rewrite wres1_out; auto.
  - intros u c w0 _ Hu Hw.
    assert (exists x0, wget m w0 = Some x0 /\ w_kind x0 <> WOpenEnh) as [x0 [H0 Hk]].
    { destruct Hw as [Hw|Hw]; [destruct (ch_cw m I u c w0 Hu Hw) as (_ & _ & [x0 (A & _ & B & _)])
                              |destruct (ch_dw m I u c w0 Hu Hw) as (_ & _ & [x0 (A & _ & B & _)])];
        exists x0; split; auto; congruence. }
    rewrite H0. apply Hother; auto.
  - intros w0 x' Hn H0. autorewrite with acc in H0. destruct (Z.eqb w0 w); rewrite Hn in H0; discriminate.
  - intros h' id w0 us x' H H0 Hp0. autorewrite with acc.
    destruct (Z.eqb_spec h' h), (Z.eqb_spec id i); subst; cbn; eauto.
    exfalso. rewrite Hp in H. inversion H; subst. autorewrite with acc in H0. rewrite Z.eqb_refl, Hx in H0.
    cbn in H0. inversion H0; subst. rewrite wres1_out in Hp0; auto.
Qed.

Lemma inv_enh_each h i ok credits : forall us m dcids w,
  Inv m -> tget h i (m_pend m) = Some (w, us) ->
  (ok = true -> length dcids = length us /\ NoDup dcids /\ forall d, In d dcids -> tget h d (m_le m) = None) ->
  Inv (enh_each m h i us dcids ok credits) /\
  tget h i (m_pend (enh_each m h i us dcids ok credits)) = Some (w, []).
Proof.
  induction us as [|u us' IH]; intros m dcids w I Hp Hok; cbn [enh_each]; [auto|].
  destruct dcids as [|d ds].
  - (* no CID for this channel *)
    assert (ok = false) by (destruct ok; auto; destruct (Hok eq_refl) as [L _]; discriminate). subst ok.
    destruct (inv_enh_step m h i w u us' false 0 credits false I Hp) as (I3 & P3 & L3); [discriminate|].
    cbn [tl]. apply IH; auto; [|discriminate]. cbn zeta in P3. rewrite P3, tget_tset, !Z.eqb_refl. reflexivity.
  - destruct (inv_enh_step m h i w u us' ok d credits true I Hp) as (I3 & P3 & L3).
    { intros E. destruct (Hok E) as (_ & _ & F). split; auto. apply F. now left. }
    cbn [tl]. cbn zeta in *. apply IH; auto.
    + rewrite P3, tget_tset, !Z.eqb_refl. reflexivity.
    + intros E. destruct (Hok E) as (L & N & F). inversion N; subst. cbn in L. split; [lia|split; [auto|]].
      intros d' Hd'. rewrite L3, tget_tset, tget_tdel. destruct (Z.eqb_spec d' d); [subst; tauto|].
      rewrite andb_false_r. apply F. now right.
Qed.

Lemma inv_recv_enh_rsp m h id credits result dcids :
  Inv m -> enh_rsp_ok m h id result dcids = true ->
  Inv (fst (recv_enh_rsp m h id credits result dcids)).
Proof.
  intros I Hok. unfold recv_enh_rsp. unfold enh_rsp_ok in Hok. cbn in Hok.
  destruct (tget h id (m_pend m)) as [[w us]|] eqn:Hp; [|auto]. cbn [fst].
  destruct (inv_enh_each h id (Z.eqb result R_OK) credits us m dcids w I Hp) as [I1 P1].
  { intros E. rewrite E in Hok. cbn in Hok. apply andb_true_iff in Hok. destruct Hok as [Hok H3].
    apply andb_true_iff in Hok. destruct Hok as [H1 H2].
    apply Nat.eqb_eq in H1. apply nodupz_NoDup in H2. apply negb_true_iff in H3. rewrite any_mem_false in H3.
    repeat split; auto. intros d Hd. destruct (tget h d (m_le m)) eqn:Eg; auto.
    exfalso. apply (H3 d Hd). apply tkeys_tget. congruence. }
  apply inv_pend_done; auto. destruct (Z.eqb result R_OK); discriminate.
Qed.

(* ================================================================== the caller cancels an awaited call *)
Lemma wget_m_eq m w : wget_m m w = wget m w.
Proof. reflexivity. Qed.

Lemma inv_cancel m w : Inv m -> Inv (do_cancel m w).
Proof.
  intros I. unfold do_cancel. rewrite wget_m_eq.
  destruct (wget m w) as [x|] eqn:Hx; [|auto].
  destruct (Z.eqb_spec (w_out x) O_PENDING) as [Hp|Hp]; cbn [negb]; [|auto].
  pose proof (w_own m I w x Hx Hp) as O.
  destruct (w_kind x) eqn:Ek.
  - (* create_le_credit_based_channel / create_classic_channel *)
    destruct O as [c [Hu Hcw]]. rewrite Hu, Hcw. cbn [is_uid]. rewrite Z.eqb_refl.
    pose proof (inv_chan_facts m (w_ref x) c I Hu) as F. pose proof F as (F1 & F2 & F3 & F4 & F5).
    destruct (F1 w Hcw) as [El Hs].
    destruct (c_kind c) eqn:Ekc.
    + assert (Es : c_st c = SConnecting) by (destruct (c_st c); try discriminate; auto).
      apply (inv_le_abandon m (w_ref x) c w (fun c => set_cw c None)); auto.
    + (* classic: the channel keeps its state and is no longer managed *)
      set (u := w_ref x) in *.
      assert (Hin : in_use m u c = true).
      { unfold in_use. rewrite El, Hcw. destruct (c_st c); try discriminate; reflexivity. }
      assert (Hdw : c_dw c = None).
      { apply no_dw_unless; auto. rewrite Ekc. destruct (c_st c); try discriminate; reflexivity. }
      assert (Hle : le_reg c = false) by (unfold le_reg; now rewrite Ekc).
      refine (inv_chan_step m _ u c (set_live (set_cw c None) false) O_CANCELLED O_ERROR true I Hu
                _ _ _ _ _ _ _ _ _ _ _ _ _ _ _ _ _ _ _ _); cbn; auto; try discriminate.
      * t_heap Hu.
      * intros K; congruence.
      * unfold chan_facts; cbn. rewrite Hdw, Ekc.
        split; [discriminate|split; [discriminate|split; [|split]]].
        -- intros Hd. destruct (F3 Hd) as (K & _). congruence.
        -- intros _. destruct (c_st c); try discriminate; auto.
        -- exact F5.
      * autorewrite with acc. now rewrite Hin.
      * autorewrite with acc. unfold le_reg; cbn. now rewrite Ekc.
      * unfold le_reg at 2; cbn. rewrite Ekc. discriminate.
      * autorewrite with acc. reflexivity.
      * intros E. rewrite E in Hs. discriminate.
      * autorewrite with acc. reflexivity.
      * intros _ K; congruence.
      * intros w0. autorewrite with accw. rewrite wget_wres, Hcw, Hdw. cbn. rewrite andb_true_r, Z.eqb_sym. reflexivity.
  - (* create_enhanced_credit_based_channels *)
    destruct O as [us Hus]. rewrite Hus, Z.eqb_refl. unfold enh_finish.
    destruct (inv_enh_each (w_conn x) (w_ref x) false 0 us m [] w I Hus) as [I1 P1]; [discriminate|].
    apply inv_pend_done; auto. discriminate.
  - (* disconnect() *)
    destruct O as [c [Hu Hdw]]. rewrite Hu, Hdw. cbn [is_uid]. rewrite Z.eqb_refl.
    pose proof (inv_chan_facts m (w_ref x) c I Hu) as F. pose proof F as (F1 & F2 & F3 & F4 & F5).
    destruct (F2 w Hdw) as [El Hs]. set (u := w_ref x) in *.
    assert (Hcw : c_cw c = None).
    { apply no_cw_unless; auto. destruct (c_kind c), (c_st c); try discriminate; reflexivity. }
    refine (inv_chan_step m _ u c (set_dw c None) O_ERROR O_CANCELLED true I Hu
              _ _ _ _ _ _ _ _ _ _ _ _ _ _ _ _ _ _ _ _); cbn; auto; try discriminate.
    + t_heap Hu.
    + unfold chan_facts; cbn. split; [exact F1|split; [discriminate|split; [exact F3|split; [exact F4|exact F5]]]].
    + autorewrite with acc. change (in_use m u (set_dw c None)) with (in_use m u c). destruct (in_use m u c); reflexivity.
    + autorewrite with acc. change (le_reg (set_dw c None)) with (le_reg c). destruct (le_reg c); reflexivity.
    + change (le_reg (set_dw c None)) with (le_reg c). congruence.
    + autorewrite with acc. reflexivity.
    + autorewrite with acc. reflexivity.
    + intros w0. autorewrite with accw. rewrite wget_wres, Hcw, Hdw. cbn. rewrite andb_true_r, Z.eqb_sym. reflexivity.
Qed.

(* ================================================================== every step preserves the invariant *)
Lemma step_inv m e : Inv m -> ev_ok m e = true -> Inv (fst (step m e)).
Proof.
  intros I Hok. destruct e as [h kind psm n mode credits|u|u|w|u k|u n|h f|h]; cbn [step].
  - destruct (Z.eqb_spec kind K_LE); [apply inv_open_le; auto|].
    destruct (Z.eqb_spec kind K_ENH).
    + apply inv_open_enh; auto. subst kind. cbn in *. exact Hok.
    + apply inv_open_cl; auto.
  - now apply inv_close.
  - now apply inv_abort.
  - now apply inv_cancel.
  - now apply inv_write.
  - now apply inv_grant.
  - destruct f; cbn [recv]; cbn [ev_ok] in Hok.
    + now apply inv_recv_conn_req.
    + now apply inv_recv_conn_rsp.
    + now apply inv_recv_conf_req.
    + now apply inv_recv_conf_rsp.
    + now apply inv_recv_disc_req.
    + now apply inv_recv_disc_rsp.
    + now apply inv_recv_le_req.
    + now apply inv_recv_le_rsp.
    + now apply inv_recv_enh_req.
    + now apply inv_recv_enh_rsp.
    + now apply inv_recv_credit.
    + auto.
    + auto.
  - now apply inv_down.
Qed.

Lemma run_inv es : forall m, Inv m -> evs_ok m es = true -> Inv (fst (run m es)).
Proof.
  induction es as [|e es IH]; intros m I Hok; cbn [run]; auto.
  cbn [evs_ok] in Hok. apply andb_true_iff in Hok. destruct Hok as [H1 H2].
  pose proof (step_inv m e I H1) as I1.
  destruct (step m e) as [m1 out] eqn:E. cbn [fst] in *.
  specialize (IH m1 I1 H2). destruct (run m1 es) as [m2 outs]. exact IH.
Qed.

(* every state reachable from the initial manager by events that satisfy ev_ok *)
Theorem reachable_inv lesrv clsrv es :
  evs_ok (m_init lesrv clsrv) es = true -> Inv (fst (run (m_init lesrv clsrv) es)).
Proof. apply run_inv, inv_init. Qed.
(* ================================================================== the C09 theorems *)
Definition reachable (m : mgr) : Prop :=
  exists lesrv clsrv es, evs_ok (m_init lesrv clsrv) es = true /\ m = fst (run (m_init lesrv clsrv) es).

Lemma reachable_Inv m : reachable m -> Inv m.
Proof. intros (l & c & es & Hok & ->). now apply reachable_inv. Qed.

Lemma reachable_step m e : reachable m -> ev_ok m e = true -> reachable (fst (step m e)).
Proof.
  intros (l & c & es & Hok & ->) He. exists l, c, (es ++ [e]). 
  assert (Hrun : forall es m0, fst (run m0 (es ++ [e])) = fst (step (fst (run m0 es)) e)).
  { clear. induction es as [|e0 es IH]; intros m0; cbn.
    - destruct (step m0 e); reflexivity.
    - destruct (step m0 e0) as [m1 o1]. specialize (IH m1).
      destruct (run m1 (es ++ [e])) as [m2 o2]. destruct (run m1 es) as [m3 o3]. cbn in *. exact IH. }
  assert (Hoks : forall es m0, evs_ok m0 (es ++ [e]) = evs_ok m0 es && ev_ok (fst (run m0 es)) e).
  { clear. induction es as [|e0 es IH]; intros m0; cbn.
    - now rewrite andb_true_r.
    - rewrite IH. destruct (step m0 e0) as [m1 o1]. cbn. destruct (run m1 es) as [m3 o3]. cbn.
      now rewrite andb_assoc. }
  split; [|symmetry; apply Hrun]. rewrite Hoks, Hok, He. reflexivity.
Qed.

(* ---------------------------------------------------------------- tables_exact *)
(* `channels` holds exactly the channel objects in use, each under its own connection
   and source CID *)
Theorem tables_exact_channels m : reachable m ->
  forall h k u, In (h, k, u) (m_chs m) <->
                exists c, hget m u = Some c /\ c_conn c = h /\ c_scid c = k /\ in_use m u c = true.
Proof.
  intros R. pose proof (reachable_Inv m R) as I. intros h k u. split.
  - intros Hi. apply (In_tget _ _ _ _ (nd_chs m I)) in Hi.
    destruct (chs_pt m I _ _ _ Hi) as [c (A & B & C)]. exists c. repeat split; auto.
    apply (ch_reg m I u c A). now rewrite B, C.
  - intros [c (A & B & C & D)]. apply (ch_reg m I u c A) in D. rewrite B, C in D. now apply tget_In.
Qed.

(* `le_coc_channels` holds exactly the connected LE credit-based channels of live
   connections, each under its connection and the peer's CID *)
Theorem tables_exact_le m : reachable m ->
  forall h k u, In (h, k, u) (m_le m) <->
                exists c, hget m u = Some c /\ c_conn c = h /\ c_dcid c = k /\ c_kind c = KLe /\
                          c_live c = true /\ le_open_st (c_st c) = true.
Proof.
  intros R. pose proof (reachable_Inv m R) as I. intros h k u. split.
  - intros Hi. apply (In_tget _ _ _ _ (nd_le m I)) in Hi. apply (le_pt m I _ _ _ Hi).
  - intros [c (A & B & C & D & E & F)]. pose proof (ch_le m I u c A D E F) as H. rewrite B, C in H. now apply tget_In.
Qed.

(* the pending-request tables hold only requests that are still awaited *)
Theorem tables_exact_requests m : reachable m ->
  (forall h id k, In (h, id, k) (m_reqs m) ->
     exists u c, In (h, k, u) (m_chs m) /\ hget m u = Some c /\ c_st c = SConnecting /\
                 exists w, c_cw c = Some w /\ wout m w = O_PENDING) /\
  (forall h id w us, In (h, id, (w, us)) (m_pend m) -> wout m w = O_PENDING).
Proof.
  intros R. pose proof (reachable_Inv m R) as I. split.
  - intros h id k Hi. apply (In_tget _ _ _ _ (nd_reqs m I)) in Hi.
    destruct (reqs_ok m I _ _ _ Hi) as [u [c (A & B & C & D & E)]]. exists u, c.
    destruct (chs_self m u c h k I B A) as [-> ->].
    repeat split; auto using tget_In.
    apply (ch_reg m I u c B) in A. unfold in_use in A. rewrite D in A.
    destruct (c_cw c) as [w|] eqn:Ec; [|rewrite andb_false_r in A; discriminate].
    exists w. split; auto. destruct (ch_cw m I u c w B Ec) as (_ & _ & [x (X1 & X2 & _)]).
    now rewrite wout_wget, X1.
  - intros h id w us Hi. apply (In_tget _ _ _ _ (nd_pend m I)) in Hi.
    destruct (pend_ok m I _ _ _ _ Hi) as ([x (X1 & X2 & _)] & _). now rewrite wout_wget, X1.
Qed.

(* ---------------------------------------------------------------- cids_unique *)
Theorem cids_unique m : reachable m ->
  NoDup (map fst (m_chs m)) /\ NoDup (map fst (m_le m)) /\
  (forall h k h' k' u, In (h, k, u) (m_chs m) -> In (h', k', u) (m_chs m) -> h = h' /\ k = k') /\
  (forall h k h' k' u, In (h, k, u) (m_le m) -> In (h', k', u) (m_le m) -> h = h' /\ k = k').
Proof.
  intros R. pose proof (reachable_Inv m R) as I.
  split; [apply (nd_chs m I)|split; [apply (nd_le m I)|split]].
  - intros h k h' k' u H1 H2. apply (In_tget _ _ _ _ (nd_chs m I)) in H1, H2.
    destruct (chs_pt m I _ _ _ H1) as [c (A & <- & <-)]. destruct (chs_pt m I _ _ _ H2) as [c' (A' & <- & <-)].
    rewrite A in A'. now inversion A'.
  - intros h k h' k' u H1 H2. apply (In_tget _ _ _ _ (nd_le m I)) in H1, H2.
    destruct (le_pt m I _ _ _ H1) as [c (A & <- & <- & _)]. destruct (le_pt m I _ _ _ H2) as [c' (A' & <- & <- & _)].
    rewrite A in A'. now inversion A'.
Qed.

Lemma aget_adel h l : aget h (adel h l) = None.
Proof.
  unfold adel. induction l as [|[k v] l IH]; cbn; auto.
  destruct (Z.eqb_spec k h); cbn; auto. destruct (Z.eqb_spec k h); [congruence|auto].
Qed.

(* ---------------------------------------------------------------- waiters_released *)
(* a pending future belongs to a channel that is still filed under its connection (or to a
   pending enhanced request of its connection): once the channel is gone nothing waits on it *)
Theorem waiters_released_channel m : reachable m ->
  forall w x, wget m w = Some x -> w_out x = O_PENDING ->
  match w_kind x with
  | WOpenEnh => exists us, In (w_conn x, w_ref x, (w, us)) (m_pend m)
  | _ => exists c k, hget m (w_ref x) = Some c /\ In (w_conn x, k, w_ref x) (m_chs m) /\ in_use m (w_ref x) c = true
  end.
Proof.
  intros R. pose proof (reachable_Inv m R) as I. intros w x Hx Hp.
  pose proof (w_own m I w x Hx Hp) as O.
  assert (Hc : forall c, hget m (w_ref x) = Some c -> c_live c = true -> reg_st (c_st c) = true \/ c_cw c <> None /\ (c_st c = SConnecting \/ c_st c = SWaitConnectRsp) ->
                         c_conn c = w_conn x ->
                         exists c0 k, hget m (w_ref x) = Some c0 /\ In (w_conn x, k, w_ref x) (m_chs m) /\ in_use m (w_ref x) c0 = true).
  { intros c Hu Hl Hs Hcn. assert (Hin : in_use m (w_ref x) c = true).
    { unfold in_use. rewrite Hl. destruct Hs as [Hs|[Hcw [Hs|Hs]]].
      - destruct (c_st c); try discriminate; auto.
      - rewrite Hs. destruct (c_cw c); [reflexivity|congruence].
      - rewrite Hs. destruct (c_cw c); [reflexivity|congruence]. }
    exists c, (c_scid c). repeat split; auto. rewrite <- Hcn. apply tget_In. now apply (ch_reg m I _ c Hu). }
  destruct (w_kind x) eqn:Ek.
  - destruct O as [c [Hu Hcw]]. destruct (ch_cw m I _ c w Hu Hcw) as (Hl & Hs & [x0 (X1 & _ & _ & X4 & _)]).
    rewrite Hx in X1. inversion X1; subst x0. apply (Hc c Hu Hl); auto.
    destruct (c_kind c), (c_st c); try discriminate; auto; right; split; auto; congruence.
  - destruct O as [us Hus]. exists us. now apply tget_In.
  - destruct O as [c [Hu Hdw]]. destruct (ch_dw m I _ c w Hu Hdw) as (Hl & Hs & [x0 (X1 & _ & _ & X4 & _)]).
    rewrite Hx in X1. inversion X1; subst x0. apply (Hc c Hu Hl); auto.
    left. destruct (c_kind c), (c_st c); try discriminate; auto.
Qed.

(* drain(): output is pending only on a connected channel of a live connection *)
Theorem waiters_released_drain m : reachable m ->
  forall u c, hget m u = Some c -> c_drained c = false ->
  c_st c = SConnected /\ c_live c = true /\ In (c_conn c, c_scid c, u) (m_chs m).
Proof.
  intros R. pose proof (reachable_Inv m R) as I. intros u c Hu Hd.
  destruct (ch_dr m I u c Hu Hd) as (A & B & C). repeat split; auto.
  apply tget_In. apply (ch_reg m I u c Hu). unfold in_use. now rewrite B, C.
Qed.

(* when the connection is lost nothing created for it is left pending, nothing of it
   stays in a table, and its identifier counter is forgotten *)
Theorem waiters_released_link m h : reachable m ->
  let m' := fst (step m (EDown h)) in
  (forall w x, wget m' w = Some x -> w_conn x = h -> w_out x <> O_PENDING) /\
  (forall u c, hget m' u = Some c -> c_conn c = h -> c_drained c = true /\ c_live c = false) /\
  tconn h (m_chs m') = [] /\ tconn h (m_le m') = [] /\ tconn h (m_reqs m') = [] /\ tconn h (m_pend m') = [] /\
  aget h (m_ids m') = None.
Proof.
  intros R. pose proof (reachable_Inv m R) as I.
  assert (R' : reachable (do_down m h)) by (apply (reachable_step m (EDown h)); auto).
  cbn [step fst]. cbv zeta.
  assert (Hc : tconn h (m_chs (do_down m h)) = []) by apply tconn_tdrop_same.
  assert (Hp : tconn h (m_pend (do_down m h)) = []) by apply tconn_tdrop_same.
  split; [|split; [|split; [exact Hc|split; [apply tconn_tdrop_same|split; [apply tconn_tdrop_same|split; [exact Hp|apply aget_adel]]]]]].
  - intros w x Hx Hcn Hpd. pose proof (waiters_released_channel _ R' w x Hx Hpd) as O.
    destruct (w_kind x).
    + destruct O as [c [k (_ & Hi & _)]].
      assert (H : In (w_conn x, k, w_ref x) (tconn h (m_chs (do_down m h)))) by (apply In_tconn; auto).
      rewrite Hc in H. destruct H.
    + destruct O as [us Hi].
      assert (H : In (w_conn x, w_ref x, (w, us)) (tconn h (m_pend (do_down m h)))) by (apply In_tconn; auto).
      rewrite Hp in H. destruct H.
    + destruct O as [c [k (_ & Hi & _)]].
      assert (H : In (w_conn x, k, w_ref x) (tconn h (m_chs (do_down m h)))) by (apply In_tconn; auto).
      rewrite Hc in H. destruct H.
  - intros u c Hu Hcn. rewrite hget_down in Hu.
    destruct (hget m u) as [c0|] eqn:Hu0; [|discriminate]. cbn in Hu. inversion Hu; subst c.
    assert (Hc0 : c_conn c0 = h).
    { destruct (Z.eq_dec (c_conn c0) h); auto. rewrite (down_chan_other m h u c0 I Hu0) in Hcn; auto. }
    destruct (down_chan_facts m h u c0 I Hu0 Hc0) as (_ & _ & _ & A & _ & _ & B & _). auto.
Qed.

(* ---------------------------------------------------------------- reopen_succeeds *)
(* Because the tables hold exactly the channels in use (tables_exact), a CID is free as soon
   as its channel is closed.  Opening then fails locally only for a real lack of resources:
   the whole CID range is used by channels in use on THIS connection, or (LE) the next
   signalling identifier of THIS connection belongs to a request that is still pending. *)
Definition le_capacity : Z := le_cid_hi - le_cid_lo + 1.
Definition bredr_capacity : Z := bredr_cid_hi - bredr_cid_lo + 1.

Lemma find_free_le_some used : Z.of_nat (length used) < le_capacity -> exists x, find_free_le used = Some x.
Proof.
  intros H. unfold find_free_le, find_free_le_n, le_capacity in *.
  pose proof (find_free_n_complete le_cid_lo le_cid_hi used 1) as L.
  destruct (find_free_n le_cid_lo le_cid_hi used 1) as [|x l] eqn:E.
  - assert (Hx : (0 = 1)%nat); [|lia]. apply L; [lia|]. change (Z.of_nat 1) with 1. lia.
  - exists x. reflexivity.
Qed.

Lemma find_free_bredr_some used : Z.of_nat (length used) < bredr_capacity -> exists x, find_free_bredr used = Some x.
Proof.
  intros H. unfold find_free_bredr, bredr_capacity in *.
  pose proof (find_free_n_complete bredr_cid_lo bredr_cid_hi used 1) as L.
  destruct (find_free_n bredr_cid_lo bredr_cid_hi used 1) as [|x l] eqn:E.
  - assert (Hx : (0 = 1)%nat); [|lia]. apply L; [lia|]. change (Z.of_nat 1) with 1. lia.
  - exists x. reflexivity.
Qed.

(* client side, LE credit-based: the request goes out with a CID no channel in use has *)
Theorem reopen_le_request m h psm credits : reachable m ->
  Z.of_nat (length (tkeys h (m_chs m))) < le_capacity ->
  tget h (nid m h) (m_reqs m) = None ->
  exists scid,
    snd (step m (EOpen h K_LE psm 1 0 credits)) = [FLeReq (nid m h) psm scid credits true] /\
    le_cid_lo <= scid <= le_cid_hi /\ tget h scid (m_chs m) = None /\
    let m1 := fst (step m (EOpen h K_LE psm 1 0 credits)) in
    wout m1 (wuid m) = O_PENDING /\ In (h, scid, huid m) (m_chs m1) /\
    tget h (nid m h) (m_reqs m1) = Some scid.
Proof.
  intros R Hcap Hid. destruct (find_free_le_some _ Hcap) as [scid Hs].
  exists scid. cbn [step]. rewrite Z.eqb_refl. unfold open_le. rewrite Hs.
  repeat match goal with |- context [nid (with_chs (hnew m ?c) ?t) h] =>
    change (nid (with_chs (hnew m c) t) h) with (nid m h) end.
  cbn [m_reqs next_id with_ids with_chs hnew with_heap]. rewrite Hid. cbn [fst snd].
  assert (Hfree : tget h scid (m_chs m) = None) by (eapply find_free_le_fresh; eauto).
  assert (Hrange : le_cid_lo <= scid <= le_cid_hi).
  { unfold find_free_le, find_free_le_n in Hs. destruct (find_free_n _ _ _ _) as [|y l] eqn:E; [discriminate|].
    inversion Hs; subst. eapply find_free_n_spec. rewrite E. now left. }
  repeat split; auto; try lia.
  - rewrite wout_wget. autorewrite with acc. now rewrite Z.eqb_refl.
  - apply tget_In. autorewrite with acc. now rewrite !Z.eqb_refl.
  - autorewrite with acc. now rewrite !Z.eqb_refl.
Qed.

(* ... and when the peer accepts, create_l2cap_channel returns and the channel is filed *)
Theorem reopen_le_completes m h psm credits dcid credits' : reachable m ->
  Z.of_nat (length (tkeys h (m_chs m))) < le_capacity ->
  tget h (nid m h) (m_reqs m) = None ->
  let m1 := fst (step m (EOpen h K_LE psm 1 0 credits)) in
  tget h dcid (m_le m1) = None ->
  let m2 := fst (step m1 (ERecv h (FLeRsp (nid m h) dcid credits' R_OK true))) in
  wout m2 (wuid m) = O_RESULT /\
  exists c, hget m2 (huid m) = Some c /\ c_st c = SConnected /\ c_dcid c = dcid /\
            In (h, c_scid c, huid m) (m_chs m2) /\ In (h, dcid, huid m) (m_le m2).
Proof.
  intros R Hcap Hid m1 Hd m2.
  destruct (reopen_le_request m h psm credits R Hcap Hid) as [scid (_ & _ & Hfree & Hw & Hin & Hreq)].
  fold m1 in Hw, Hin, Hreq.
  assert (R1 : reachable m1) by (apply reachable_step; auto).
  pose proof (reachable_Inv m1 R1) as I1.
  assert (Hu : exists c, hget m1 (huid m) = Some c /\ c_kind c = KLe /\ c_conn c = h /\ c_scid c = scid /\
                         c_st c = SConnecting /\ c_cw c = Some (wuid m) /\ c_dcid c = 0).
  { subst m1. cbn [step]. rewrite Z.eqb_refl. unfold open_le.
    destruct (find_free_le_some _ Hcap) as [s Hs]. rewrite Hs.
    repeat match goal with |- context [nid (with_chs (hnew m ?c) ?t) h] =>
    change (nid (with_chs (hnew m c) t) h) with (nid m h) end.
  cbn [m_reqs next_id with_ids with_chs hnew with_heap]. rewrite Hid. cbn [fst].
    assert (s = scid).
    { revert Hreq. cbn [step]. rewrite Z.eqb_refl. unfold open_le. rewrite Hs.
      repeat match goal with |- context [nid (with_chs (hnew m ?c) ?t) h] =>
    change (nid (with_chs (hnew m c) t) h) with (nid m h) end.
  cbn [m_reqs next_id with_ids with_chs hnew with_heap]. rewrite Hid. cbn [fst].
      autorewrite with acc. rewrite !Z.eqb_refl. cbn. congruence. }
    subst s. eexists. autorewrite with acc. rewrite !Z.eqb_refl. cbn. split; [reflexivity|]. cbn. repeat split; auto. }
  destruct Hu as [c (Hu & Ek & Ec & Es & Est & Ecw & Edc)].
  assert (Hchs : tget h scid (m_chs m1) = Some (huid m)) by (apply (In_tget _ _ _ _ (nd_chs m1 I1)); auto).
  subst m2. cbn [step recv]. change (eff_le R_OK true) with R_OK. unfold recv_le_rsp. rewrite Hreq. cbn [m_chs with_reqs].
  rewrite Hchs. change (hget (with_reqs m1 (tdel h (nid m h) (m_reqs m1))) (huid m)) with (hget m1 (huid m)).
  rewrite Hu, Ecw. rewrite Z.eqb_refl. cbn [fst]. unfold le_register. autorewrite with acc. rewrite Hu, Z.eqb_refl. cbn [option_map].
  split.
  - rewrite wout_wget. autorewrite with acc. rewrite Z.eqb_refl.
    rewrite wout_wget in Hw. destruct (wget m1 (wuid m)) as [x|] eqn:Ex; [|discriminate]. cbn.
    unfold wres1. rewrite Hw. reflexivity.
  - eexists. split; [autorewrite with acc; rewrite Z.eqb_refl, Hu; reflexivity|]. cbn. rewrite Es, Ec.
    repeat split; auto.
    + apply tget_In. now autorewrite with acc.
    + apply tget_In. autorewrite with acc. now rewrite !Z.eqb_refl.
Qed.

(* server side: a request whose source CID no connected channel of the connection uses is
   accepted as long as a local CID is free *)
Theorem reopen_le_accept m h id psm scid credits srv : reachable m ->
  srv_get psm (m_lesrv m) = Some srv ->
  tget h scid (m_le m) = None ->
  Z.of_nat (length (tkeys h (m_chs m))) < le_capacity ->
  exists local,
    snd (step m (ERecv h (FLeReq id psm scid credits true))) = [FLeRsp id local srv R_OK true] /\
    le_cid_lo <= local <= le_cid_hi /\ tget h local (m_chs m) = None /\
    let m1 := fst (step m (ERecv h (FLeReq id psm scid credits true))) in
    In (h, local, huid m) (m_chs m1) /\ In (h, scid, huid m) (m_le m1).
Proof.
  intros R Hsrv Hle Hcap. destruct (find_free_le_some _ Hcap) as [local Hs].
  exists local. cbn [step recv]. unfold recv_le_req. rewrite Hsrv. cbn [negb].
  assert (Hm : memz scid (tkeys h (m_le m)) = false).
  { apply memz_false. intros Hi. apply tkeys_tget in Hi. congruence. }
  rewrite Hm, Hs. cbn [fst snd new_le_chans].
  assert (Hfree : tget h local (m_chs m) = None) by (eapply find_free_le_fresh; eauto).
  assert (Hrange : le_cid_lo <= local <= le_cid_hi).
  { unfold find_free_le, find_free_le_n in Hs. destruct (find_free_n _ _ _ _) as [|y l] eqn:E; [discriminate|].
    inversion Hs; subst. eapply find_free_n_spec. rewrite E. now left. }
  repeat split; auto; try lia.
  - apply tget_In. autorewrite with acc. now rewrite !Z.eqb_refl.
  - apply tget_In. autorewrite with acc. now rewrite !Z.eqb_refl.
Qed.

(* classic: create_classic_channel sends its request whenever a CID of the range is free *)
Theorem reopen_classic_request m h psm mode : reachable m ->
  Z.of_nat (length (tkeys h (m_chs m))) < bredr_capacity ->
  exists scid,
    snd (step m (EOpen h K_CL psm 1 mode 0)) = [FConnReq (nid m h) psm scid] /\
    bredr_cid_lo <= scid <= bredr_cid_hi /\ tget h scid (m_chs m) = None /\
    let m1 := fst (step m (EOpen h K_CL psm 1 mode 0)) in
    wout m1 (wuid m) = O_PENDING /\ In (h, scid, huid m) (m_chs m1).
Proof.
  intros R Hcap. destruct (find_free_bredr_some _ Hcap) as [scid Hs].
  exists scid. cbn [step]. change (Z.eqb K_CL K_LE) with false. change (Z.eqb K_CL K_ENH) with false. cbn iota.
  unfold open_cl. rewrite Hs. cbn [fst snd].
  assert (Hfree : tget h scid (m_chs m) = None) by (eapply find_free_bredr_fresh; eauto).
  assert (Hrange : bredr_cid_lo <= scid <= bredr_cid_hi).
  { unfold find_free_bredr in Hs. destruct (find_free_n _ _ _ _) as [|y l] eqn:E; [discriminate|].
    inversion Hs; subst. eapply find_free_n_spec. rewrite E. now left. }
  repeat split; auto; try lia.
  - rewrite wout_wget. autorewrite with acc. now rewrite Z.eqb_refl.
  - apply tget_In. autorewrite with acc. now rewrite !Z.eqb_refl.
Qed.
(* ================================================================== links_independent *)
(* what belongs to connection b: its entries in the five tables, its channel objects, the
   futures created for it *)
Record same_conn (b : Z) (m m' : mgr) : Prop := {
  sc_chs : forall k, tget b k (m_chs m') = tget b k (m_chs m);
  sc_le : forall k, tget b k (m_le m') = tget b k (m_le m);
  sc_reqs : forall k, tget b k (m_reqs m') = tget b k (m_reqs m);
  sc_pend : forall k, tget b k (m_pend m') = tget b k (m_pend m);
  sc_ids : aget b (m_ids m') = aget b (m_ids m);
  sc_heap : forall u c, c_conn c = b -> (hget m' u = Some c <-> hget m u = Some c);
  sc_w : forall w x, w_conn x = b -> (wget m' w = Some x <-> wget m w = Some x)
}.

Lemma sc_refl b m : same_conn b m m.
Proof. constructor; intros; tauto. Qed.

Lemma sc_trans b m1 m2 m3 : same_conn b m1 m2 -> same_conn b m2 m3 -> same_conn b m1 m3.
Proof.
  intros [a1 a2 a3 a4 a5 a6 a7] [b1 b2 b3 b4 b5 b6 b7]. constructor.
  - intros k. now rewrite b1.
  - intros k. now rewrite b2.
  - intros k. now rewrite b3.
  - intros k. now rewrite b4.
  - congruence.
  - intros u c Hc. rewrite (b6 u c Hc). auto.
  - intros w x Hx. rewrite (b7 w x Hx). auto.
Qed.

(* a sufficient condition in terms of the accessors, used for every step: each channel
   object / future is unchanged, or is not of connection b before and after *)
Lemma sc_intro b m m' :
  (forall k, tget b k (m_chs m') = tget b k (m_chs m)) ->
  (forall k, tget b k (m_le m') = tget b k (m_le m)) ->
  (forall k, tget b k (m_reqs m') = tget b k (m_reqs m)) ->
  (forall k, tget b k (m_pend m') = tget b k (m_pend m)) ->
  aget b (m_ids m') = aget b (m_ids m) ->
  (forall u, hget m' u = hget m u \/
             ((forall c, hget m u = Some c -> c_conn c <> b) /\ (forall c, hget m' u = Some c -> c_conn c <> b))) ->
  (forall w, wget m' w = wget m w \/
             ((forall x, wget m w = Some x -> w_conn x <> b) /\ (forall x, wget m' w = Some x -> w_conn x <> b))) ->
  same_conn b m m'.
Proof.
  intros H1 H2 H3 H4 H5 H6 H7. constructor; auto.
  - intros u c Hc. destruct (H6 u) as [E|[A B]].
    + rewrite E. tauto.
    + split; intros H; exfalso; [apply (B c H)|apply (A c H)]; auto.
  - intros w x Hx. destruct (H7 w) as [E|[A B]].
    + rewrite E. tauto.
    + split; intros H; exfalso; [apply (B x H)|apply (A x H)]; auto.
Qed.

Lemma aget_adel_other b a l : b <> a -> aget b (adel a l) = aget b l.
Proof.
  intros Hn. unfold adel. induction l as [|[k v] l IH]; cbn; auto.
  destruct (Z.eqb_spec k a); cbn; subst.
  - destruct (Z.eqb_spec a b); [congruence|auto].
  - destruct (Z.eqb_spec k b); auto.
Qed.

Lemma ids_next_id_other m a b : b <> a -> aget b (m_ids (next_id m a)) = aget b (m_ids m).
Proof.
  intros Hn. unfold next_id. cbn. destruct (Z.eqb_spec a b); [congruence|]. now apply aget_adel_other.
Qed.

Lemma ids_occ' m u c : m_ids (on_channel_closed m u c) = m_ids m.
Proof. apply ids_occ. Qed.
#[export] Hint Rewrite ids_with_chs ids_with_le ids_with_reqs ids_with_pend ids_with_heap ids_with_w : acc.

(* tactics for the table goals: every table operation of a step concerns handle a <> b *)
Ltac sc_tab :=
  match goal with
  | |- forall _, tget _ _ _ = _ => idtac
  | |- aget _ _ = _ => idtac
  | |- forall _, _ <> _ -> hget _ _ = _ => idtac
  end;
  intros; autorewrite with acc; rewrite ?ids_next_id_other by congruence; autorewrite with acc;
  cbn [c_conn c_scid c_dcid set_cw set_dw set_st set_out set_dcid set_ref set_live flush_output process_output];
  repeat match goal with
         | |- context [if is_uid ?o ?u then _ else _] => destruct (is_uid o u)
         | |- context [match ?o with Some _ => _ | None => _ end] => destruct o
         end;
  autorewrite with acc;
  repeat match goal with
         | |- context [Z.eqb ?x ?y] => destruct (Z.eqb_spec x y); subst; cbn [andb]; try congruence
         end; auto.

(* one channel of connection a changes, futures of connection a are completed *)
Lemma sc_one b a m m' u c :
  b <> a -> hget m u = Some c -> c_conn c = a ->
  (forall k, tget b k (m_chs m') = tget b k (m_chs m)) ->
  (forall k, tget b k (m_le m') = tget b k (m_le m)) ->
  (forall k, tget b k (m_reqs m') = tget b k (m_reqs m)) ->
  (forall k, tget b k (m_pend m') = tget b k (m_pend m)) ->
  aget b (m_ids m') = aget b (m_ids m) ->
  (forall u', u' <> u -> hget m' u' = hget m u') ->
  (forall c', hget m' u = Some c' -> c_conn c' = a) ->
  (forall w, wget m' w = wget m w \/
             ((forall x, wget m w = Some x -> w_conn x = a) /\ (forall x, wget m' w = Some x -> w_conn x = a))) ->
  same_conn b m m'.
Proof.
  intros Hn Hu Hc H1 H2 H3 H4 H5 H6 H6u H7. apply sc_intro; auto.
  - intros u'. destruct (Z.eq_dec u' u) as [->|Hd]; [|left; auto].
    right. split.
    + intros c0 H0. rewrite Hu in H0. inversion H0; subst. congruence.
    + intros c0 H0. rewrite (H6u c0 H0). congruence.
  - intros w. destruct (H7 w) as [E|[A B]]; auto. right. split; intros x Hx; [rewrite (A x Hx)|rewrite (B x Hx)]; congruence.
Qed.

(* the changed channel stays on its connection *)
Ltac sc_self Hu :=
  intros;
  match goal with
  | H : hget _ _ = Some ?c' |- c_conn ?c' = _ =>
      autorewrite with acc in H; rewrite ?Z.eqb_refl, ?Hu in H; cbn [option_map] in H;
      repeat (autorewrite with acc in H; rewrite ?Z.eqb_refl, ?Hu in H; cbn [option_map] in H);
      injection H as <-; try reflexivity; cbn; auto
  end.

Lemma sc_write b m u k c : hget m u = Some c -> b <> c_conn c -> same_conn b m (fst (do_write m u k)).
Proof.
  intros Hu Hn. unfold do_write. rewrite Hu.
  destruct (c_kind c); [|apply sc_refl]. destruct (c_st c); try apply sc_refl. cbn [fst].
  apply (sc_one b (c_conn c) m _ u c); auto; try sc_tab; try sc_self Hu.
  intros w; left; autorewrite with acc; reflexivity.
Qed.

Lemma sc_grant b m u n c : hget m u = Some c -> b <> c_conn c -> same_conn b m (fst (do_grant m u n)).
Proof.
  intros Hu Hn. unfold do_grant. rewrite Hu. cbn [fst].
  apply sc_intro; try sc_tab; try (intros; left; autorewrite with acc; reflexivity).
Qed.

Lemma w_conn_wres1 o x : w_conn (wres1 o x) = w_conn x.
Proof. unfold wres1. destruct (Z.eqb _ _); reflexivity. Qed.

(* futures completed by a step on a channel of connection a are futures of connection a *)
Lemma sc_w_opt a m (o : option Z) r w (gw : option waiter) :
  (forall x, o = Some w -> wget m w = Some x -> w_conn x = a) ->
  (gw = wget m w \/
   ((forall x, wget m w = Some x -> w_conn x = a) /\ (forall x, gw = Some x -> w_conn x = a))) ->
  (if is_uid o w then option_map (wres1 r) gw else gw) = wget m w \/
  ((forall x, wget m w = Some x -> w_conn x = a) /\
   (forall x, (if is_uid o w then option_map (wres1 r) gw else gw) = Some x -> w_conn x = a)).
Proof.
  intros Ho Hg. destruct (is_uid o w) eqn:E; [|exact Hg].
  apply is_uid_iff in E. right. destruct Hg as [Eg|[A B]].
  - rewrite Eg. split; [intros x Hx; eapply Ho; eauto|].
    intros x Hx. destruct (wget m w) as [x0|] eqn:E0; [|discriminate]. cbn in Hx. inversion Hx; subst.
    rewrite w_conn_wres1. eapply Ho; eauto.
  - split; auto. intros x Hx. destruct gw as [x0|] eqn:E0; [|discriminate]. cbn in Hx. inversion Hx; subst.
    rewrite w_conn_wres1. auto.
Qed.

Lemma cw_conn m u c : Inv m -> hget m u = Some c -> forall w x, c_cw c = Some w -> wget m w = Some x -> w_conn x = c_conn c.
Proof. intros I Hu w x Hc Hx. destruct (ch_cw m I u c w Hu Hc) as (_ & _ & [x0 (A & _ & _ & B & _)]). congruence. Qed.
Lemma dw_conn m u c : Inv m -> hget m u = Some c -> forall w x, c_dw c = Some w -> wget m w = Some x -> w_conn x = c_conn c.
Proof. intros I Hu w x Hc Hx. destruct (ch_dw m I u c w Hu Hc) as (_ & _ & [x0 (A & _ & _ & B & _)]). congruence. Qed.

Ltac sc_wait I Hu :=
  match goal with |- forall _, wget _ _ = _ \/ _ => idtac end;
  let w := fresh "w" in
  intros w;
  match goal with |- ?L = _ \/ _ =>
    let X := fresh "X" in let EX := fresh "EX" in
    remember L as X eqn:EX; autorewrite with accw in EX; subst X end;
  repeat (apply sc_w_opt; [intros ? ?; first [solve [eapply cw_conn; eauto] | solve [eapply dw_conn; eauto]]|]);
  left; reflexivity.

Lemma sc_abort b m u c : Inv m -> hget m u = Some c -> b <> c_conn c -> same_conn b m (abort_chan m u).
Proof.
  intros I Hu Hn. unfold abort_chan. rewrite Hu.
  destruct (c_kind c).
  - destruct (match c_st c with SConnected | SDisconnecting => true | _ => false end);
      destruct (wpending m (c_cw c));
      apply (sc_one b (c_conn c) m _ u c); auto; try sc_wait I Hu; try sc_tab; try sc_self Hu.
  - destruct (match c_st c with SOpen | SWaitDisconnect | SOrphan => true | _ => false end);
      apply (sc_one b (c_conn c) m _ u c); auto; try sc_wait I Hu; try sc_tab; try sc_self Hu.
Qed.

(* futures created by the step: a new one for connection a *)
Ltac sc_wait_new I Hu :=
  match goal with |- forall _, wget _ _ = _ \/ _ => idtac end;
  let w := fresh "w" in
  intros w; autorewrite with acc;
  match goal with
  | |- context [Z.eqb w (wuid ?m)] =>
      destruct (Z.eqb_spec w (wuid m));
      [right; split; [intros x Hx; subst; rewrite wget_wuid in Hx; discriminate
                     |intros x Hx; injection Hx as <-; reflexivity]
      |left; reflexivity]
  end.

Lemma sc_close b m u c : Inv m -> hget m u = Some c -> b <> c_conn c -> same_conn b m (fst (do_close m u)).
Proof.
  intros I Hu Hn. unfold do_close. rewrite Hu.
  destruct (negb _); cbn [fst].
  - apply sc_intro; try sc_tab; try (intros; left; autorewrite with acc; reflexivity).
    intros w. autorewrite with acc. destruct (Z.eqb_spec w (wuid m)); [|left; reflexivity].
    right. split; [intros x Hx; subst; rewrite wget_wuid in Hx; discriminate|intros x Hx; injection Hx as <-; cbn; auto].
  - apply (sc_one b (c_conn c) m _ u c); auto; try sc_tab; try sc_wait_new I Hu.
    intros c' H. autorewrite with acc in H. rewrite Z.eqb_refl, Hu in H. cbn in H. injection H as <-.
    destruct (c_kind c); reflexivity.
Qed.

Lemma sc_recv_credit b m h cid n : Inv m -> b <> h -> same_conn b m (fst (recv_credit m h cid n)).
Proof.
  intros I Hn. unfold recv_credit.
  destruct (tget h cid (m_le m)) as [u|] eqn:Et; [|apply sc_refl].
  destruct (hget m u) as [c|] eqn:Hu; [|apply sc_refl]. cbn [fst].
  destruct (le_self m u c h cid I Hu Et) as (-> & _).
  apply (sc_one b (c_conn c) m _ u c); auto; try sc_tab; try sc_self Hu.
  intros w; left; autorewrite with acc; reflexivity.
Qed.

Lemma sc_recv_disc_req b m h id dcid scid : Inv m -> b <> h -> same_conn b m (fst (recv_disc_req m h id dcid scid)).
Proof.
  intros I Hn. unfold recv_disc_req.
  destruct (tget h dcid (m_chs m)) as [u|] eqn:Et; [|apply sc_refl].
  destruct (hget m u) as [c|] eqn:Hu; [|apply sc_refl].
  destruct (chs_self m u c h dcid I Hu Et) as [-> ->].
  destruct (negb _); [apply sc_refl|].
  destruct (c_kind c); cbn [fst].
  - apply (sc_one b (c_conn c) m _ u c); auto; try sc_wait I Hu; try sc_tab; try sc_self Hu.
  - destruct (wpending m (c_cw c)); unfold cl_connect_failed;
      apply (sc_one b (c_conn c) m _ u c); auto; try sc_wait I Hu; try sc_tab; try sc_self Hu.
Qed.

Lemma sc_recv_disc_rsp b m h id dcid scid : Inv m -> b <> h -> same_conn b m (fst (recv_disc_rsp m h id dcid scid)).
Proof.
  intros I Hn. unfold recv_disc_rsp.
  destruct (tget h scid (m_chs m)) as [u|] eqn:Et; [|apply sc_refl].
  destruct (hget m u) as [c|] eqn:Hu; [|apply sc_refl].
  destruct (chs_self m u c h scid I Hu Et) as [-> ->].
  destruct (c_kind c).
  - destruct (c_st c); try apply sc_refl. destruct (negb _); [apply sc_refl|]. cbn [fst].
    apply (sc_one b (c_conn c) m _ u c); auto; try sc_wait I Hu; try sc_tab; try sc_self Hu.
  - destruct (c_st c); try apply sc_refl. destruct (negb _); [apply sc_refl|]. cbn [fst].
    apply (sc_one b (c_conn c) m _ u c); auto; try sc_wait I Hu; try sc_tab; try sc_self Hu.
Qed.

Lemma sc_recv_le_rsp b m h id dcid credits result :
  Inv m -> b <> h -> same_conn b m (fst (recv_le_rsp m h id dcid credits result)).
Proof.
  intros I Hn. unfold recv_le_rsp.
  destruct (tget h id (m_reqs m)) as [scid|] eqn:Er; [|apply sc_refl].
  assert (S0 : same_conn b m (with_reqs m (tdel h id (m_reqs m)))).
  { apply sc_intro; try sc_tab; try (intros; left; autorewrite with acc; reflexivity). }
  cbn [m_chs with_reqs].
  destruct (tget h scid (m_chs m)) as [u|] eqn:Et; [|exact S0].
  change (hget (with_reqs m (tdel h id (m_reqs m))) u) with (hget m u).
  destruct (hget m u) as [c|] eqn:Hu; [|exact S0].
  destruct (chs_self m u c h scid I Hu Et) as [-> ->].
  destruct (c_cw c) as [w0|] eqn:Hcw; [|exact S0].
  assert (Hw0 : forall x, wget m w0 = Some x -> w_conn x = c_conn c) by (intros; eapply cw_conn; eauto).
  destruct (Z.eqb result R_OK); cbn [fst].
  - unfold le_register. autorewrite with acc. rewrite Hu, Z.eqb_refl. cbn [option_map].
    apply (sc_one b (c_conn c) m _ u c); auto; try sc_tab; try sc_self Hu.
    intros w. autorewrite with acc. destruct (Z.eqb_spec w w0); [|left; reflexivity]. subst.
    right. split; auto. intros x Hx. destruct (wget m w0) as [x0|] eqn:E0; [|discriminate].
    cbn in Hx. injection Hx as <-. rewrite w_conn_wres1. auto.
  - apply (sc_one b (c_conn c) m _ u c); auto; try sc_tab; try sc_self Hu.
    intros w. autorewrite with acc. destruct (Z.eqb_spec w w0); [|left; reflexivity]. subst.
    right. split; auto. intros x Hx. destruct (wget m w0) as [x0|] eqn:E0; [|discriminate].
    cbn in Hx. injection Hx as <-. rewrite w_conn_wres1. auto.
Qed.

Lemma cl_found_conn m h cid u c : Inv m -> find_cl m h cid = Some (u, c) -> hget m u = Some c /\ c_conn c = h.
Proof. intros I H. destruct (cl_found m h cid u c I H) as (A & _ & B & _). auto. Qed.

Lemma sc_recv_conn_rsp b m h id dcid scid result :
  Inv m -> b <> h -> same_conn b m (fst (recv_conn_rsp m h id dcid scid result)).
Proof.
  intros I Hn. unfold recv_conn_rsp.
  destruct (find_cl m h scid) as [[u c]|] eqn:Ef; [|apply sc_refl].
  destruct (cl_found_conn m h scid u c I Ef) as [Hu <-].
  destruct (c_st c); try apply sc_refl.
  destruct (Z.eqb result R_OK); cbn [fst].
  - apply (sc_one b (c_conn c) m _ u c); auto; try sc_tab; try sc_self Hu.
    intros w; left; autorewrite with acc; reflexivity.
  - destruct (Z.eqb result R_PENDING); [apply sc_refl|].
    destruct (wpending _ _); cbn [fst]; unfold cl_connect_failed;
      apply (sc_one b (c_conn c) m _ u c); auto; try sc_wait I Hu; try sc_tab; try sc_self Hu;
      try (intros w; left; autorewrite with acc; reflexivity).
Qed.

Lemma sc_recv_conf_rsp b m h id scid result sugg :
  Inv m -> b <> h -> same_conn b m (fst (recv_conf_rsp m h id scid result sugg)).
Proof.
  intros I Hn. unfold recv_conf_rsp.
  destruct (find_cl m h scid) as [[u c]|] eqn:Ef; [|apply sc_refl].
  destruct (cl_found_conn m h scid u c I Ef) as [Hu <-].
  destruct (Z.eqb result 0).
  - destruct (c_st c); try apply sc_refl; cbn [fst];
      apply (sc_one b (c_conn c) m _ u c); auto; try sc_wait I Hu; try sc_tab; try sc_self Hu;
      try (intros w; left; autorewrite with acc; reflexivity).
  - destruct (Z.eqb result CONF_UNACCEPTABLE); [|apply sc_refl].
    destruct (Z.eqb sugg 0); [apply sc_refl|]. cbn [fst].
    apply sc_intro; try sc_tab; try (intros; left; autorewrite with acc; reflexivity).
Qed.

Lemma sc_recv_conf_req b m h id dcid rfc bad :
  Inv m -> b <> h -> same_conn b m (fst (recv_conf_req m h id dcid rfc bad)).
Proof.
  intros I Hn. unfold recv_conf_req.
  destruct (find_cl m h dcid) as [[u c]|] eqn:Ef; [|apply sc_refl].
  destruct (cl_found_conn m h dcid u c I Ef) as [Hu <-].
  destruct (negb _); [apply sc_refl|].
  destruct (_ && _).
  - cbn [fst]. destruct (wpending m (c_cw c)); unfold cl_connect_failed;
      apply (sc_one b (c_conn c) m _ u c); auto; try sc_wait I Hu; try sc_tab; try sc_self Hu.
  - destruct bad; [apply sc_refl|].
    destruct (c_st c); cbn [fst];
      apply (sc_one b (c_conn c) m _ u c); auto; try sc_wait I Hu; try sc_tab; try sc_self Hu;
      try (intros w; left; autorewrite with acc; reflexivity).
Qed.

Lemma wlen_with_chs m x : wuid (with_chs m x) = wuid m. Proof. reflexivity. Qed.
Lemma hlen_with_chs m x : huid (with_chs m x) = huid m. Proof. reflexivity. Qed.
Lemma wlen_with_le m x : wuid (with_le m x) = wuid m. Proof. reflexivity. Qed.
Lemma hlen_with_le m x : huid (with_le m x) = huid m. Proof. reflexivity. Qed.
Lemma wlen_with_reqs m x : wuid (with_reqs m x) = wuid m. Proof. reflexivity. Qed.
Lemma hlen_with_reqs m x : huid (with_reqs m x) = huid m. Proof. reflexivity. Qed.
Lemma wlen_with_pend m x : wuid (with_pend m x) = wuid m. Proof. reflexivity. Qed.
Lemma hlen_with_pend m x : huid (with_pend m x) = huid m. Proof. reflexivity. Qed.
Lemma wlen_with_ids m x : wuid (with_ids m x) = wuid m. Proof. reflexivity. Qed.
Lemma hlen_with_ids m x : huid (with_ids m x) = huid m. Proof. reflexivity. Qed.
#[export] Hint Rewrite wlen_with_chs hlen_with_chs wlen_with_le hlen_with_le wlen_with_reqs hlen_with_reqs wlen_with_pend hlen_with_pend wlen_with_ids hlen_with_ids : acc.

(* ---------------------------------------------------------------- new channel objects *)
Ltac sc_heap_new :=
  match goal with |- forall _, hget _ _ = _ \/ _ => idtac end;
  let u' := fresh "u'" in
  intros u'; autorewrite with acc;
  repeat match goal with
         | |- context [Z.eqb u' (huid ?m)] =>
             destruct (Z.eqb_spec u' (huid m));
             [right; split; [intros c0 H0; subst; rewrite hget_huid in H0; discriminate
                            |intros c0 H0; cbn in H0; injection H0 as <-; cbn; congruence]|]
         end; left; reflexivity.

Ltac sc_w_new :=
  match goal with |- forall _, wget _ _ = _ \/ _ => idtac end;
  let w := fresh "w" in
  intros w; autorewrite with acc;
  repeat match goal with
         | |- context [Z.eqb w (wuid ?m)] =>
             destruct (Z.eqb_spec w (wuid m));
             [right; split; [intros x Hx; subst; rewrite wget_wuid in Hx; discriminate
                            |intros x Hx; injection Hx as <-; cbn; congruence]|]
         end; left; reflexivity.

Lemma sc_open_cl b m h psm mode : b <> h -> same_conn b m (fst (open_cl m h psm mode)).
Proof.
  intros Hn. unfold open_cl. destruct (find_free_bredr _); cbn [fst];
    apply sc_intro; try sc_tab; try sc_heap_new; try sc_w_new.
Qed.

Lemma sc_open_le b m h psm credits : b <> h -> same_conn b m (fst (open_le m h psm credits)).
Proof.
  intros Hn. unfold open_le. destruct (find_free_le _); cbn [fst].
  - destruct (tget _ _ _); cbn [fst]; apply sc_intro; try sc_tab; try sc_heap_new; try sc_w_new.
  - apply sc_intro; try sc_tab; try sc_heap_new; try sc_w_new.
Qed.

Lemma sc_recv_conn_req b m h id psm scid : b <> h -> same_conn b m (fst (recv_conn_req m h id psm scid)).
Proof.
  intros Hn. unfold recv_conn_req. destruct (srv_get _ _); [|apply sc_refl].
  destruct (find_free_bredr _); cbn [fst]; [|apply sc_refl].
  apply sc_intro; try sc_tab; try sc_heap_new; try sc_w_new.
Qed.

Lemma sc_new_le_chans b h st credits r regle pairs : forall m, b <> h ->
  same_conn b m (fst (new_le_chans m h st credits r regle pairs)).
Proof.
  induction pairs as [|[s d] ps IH]; intros m Hn; cbn [new_le_chans fst]; [apply sc_refl|].
  match goal with |- same_conn b m (fst (let '(m3, us) := new_le_chans ?mm _ _ _ _ _ _ in _)) =>
    specialize (IH mm Hn); destruct (new_le_chans mm h st credits r regle ps) as [m3 us] eqn:E end.
  cbn [fst] in *. eapply sc_trans; [|exact IH].
  destruct regle; apply sc_intro; try sc_tab; try sc_heap_new; try sc_w_new.
Qed.

Lemma sc_recv_le_req b m h id psm scid credits okp : b <> h -> same_conn b m (fst (recv_le_req m h id psm scid credits okp)).
Proof.
  intros Hn. unfold recv_le_req. destruct (srv_get _ _); [|apply sc_refl].
  destruct (negb okp); [apply sc_refl|].
  destruct (memz _ _); [apply sc_refl|]. destruct (find_free_le _); cbn [fst]; [|apply sc_refl].
  now apply sc_new_le_chans.
Qed.

Lemma sc_recv_enh_req b m h id psm credits scids okp : b <> h -> same_conn b m (fst (recv_enh_req m h id psm credits scids okp)).
Proof.
  intros Hn. unfold recv_enh_req. destruct (srv_get _ _); [|apply sc_refl].
  destruct (negb okp); [apply sc_refl|].
  destruct (any_mem _ _); [apply sc_refl|]. destruct (find_free_le_n _ _); cbn [fst]; [apply sc_refl|].
  now apply sc_new_le_chans.
Qed.

Lemma sc_new_enh_chans b h i scids : forall m, b <> h -> same_conn b m (new_enh_chans m h i scids).
Proof.
  induction scids as [|s rest IH]; intros m Hn; cbn [new_enh_chans]; [apply sc_refl|].
  eapply sc_trans; [|apply IH; auto].
  unfold pend_add. cbn [m_pend with_chs hnew with_heap].
  destruct (tget h i (m_pend m)) as [[w us]|]; apply sc_intro; try sc_tab; try sc_heap_new; try sc_w_new.
Qed.

Lemma sc_open_enh b m h psm n credits : b <> h -> same_conn b m (fst (open_enh m h psm n credits)).
Proof.
  intros Hn. unfold open_enh. destruct (find_free_le_n _ _); cbn [fst].
  - apply sc_intro; try sc_tab; try sc_heap_new; try sc_w_new.
  - eapply sc_trans; [|apply sc_new_enh_chans; auto].
    apply sc_intro; try sc_tab; try sc_heap_new; try sc_w_new.
Qed.

(* ---------------------------------------------------------------- enhanced response *)
Lemma sc_enh_each b h i ok credits : forall us m dcids w, b <> h ->
  Inv m -> tget h i (m_pend m) = Some (w, us) ->
  (ok = true -> length dcids = length us /\ NoDup dcids /\ forall d, In d dcids -> tget h d (m_le m) = None) ->
  same_conn b m (enh_each m h i us dcids ok credits).
Proof.
  induction us as [|u us' IH]; intros m dcids w Hn I Hp Hok; cbn [enh_each]; [apply sc_refl|].
  destruct (member_facts m h i w (u :: us') u I Hp (or_introl eq_refl)) as [c (Hu & M & _)].
  destruct M as (_ & Mc & _).
  assert (Hstep : forall (hasd : bool) d,
            (ok = true -> hasd = true /\ tget h d (m_le m) = None) ->
            let m1 := pend_set m h i us' in
            let f := fun c => if ok then set_st (set_out (set_dcid c d) credits (c_pending c) (c_drained c)) SConnected
                              else set_st c SConnError in
            let m2 := if hasd then hupd m1 u f else m1 in
            let m3 := if ok then le_register m2 [u] else chs_unregister m2 [u] in
            same_conn b m m3).
  { intros hasd d _ m1 f m2 m3. subst m3 m2 m1. unfold pend_set. rewrite Hp.
    assert (Hh : forall X, hget (if hasd then hupd (with_pend m X) u f else with_pend m X) u =
                           Some (if hasd then f c else c)).
    { intros X. destruct hasd; autorewrite with acc; rewrite ?Z.eqb_refl, ?Hu; reflexivity. }
    destruct ok; cbn [le_register chs_unregister]; rewrite Hh;
      destruct hasd; subst f; cbn [c_conn c_scid c_dcid set_st set_out set_dcid];
      apply (sc_one b h m _ u c); auto; try sc_tab;
      try (intros c' H; autorewrite with acc in H; rewrite ?Z.eqb_refl, ?Hu in H; cbn in H; injection H as <-; cbn; auto);
      try (intros w0; left; autorewrite with acc; reflexivity). }
  destruct dcids as [|d ds].
  - assert (ok = false) by (destruct ok; auto; destruct (Hok eq_refl) as [L _]; discriminate). subst ok.
    destruct (inv_enh_step m h i w u us' false 0 credits false I Hp) as (I3 & P3 & L3); [discriminate|].
    eapply sc_trans; [apply (Hstep false 0); discriminate|].
    cbn zeta in *. cbn [tl]. apply (IH _ [] w); auto; [|discriminate].
    rewrite P3, tget_tset, !Z.eqb_refl. reflexivity.
  - destruct (inv_enh_step m h i w u us' ok d credits true I Hp) as (I3 & P3 & L3).
    { intros E. destruct (Hok E) as (_ & _ & F). split; auto. apply F. now left. }
    eapply sc_trans; [apply (Hstep true d)|].
    { intros E. destruct (Hok E) as (_ & _ & F). split; auto. apply F. now left. }
    cbn zeta in *. cbn [tl]. apply (IH _ ds w); auto.
    + rewrite P3, tget_tset, !Z.eqb_refl. reflexivity.
    + intros E. destruct (Hok E) as (L & N & F). inversion N; subst. cbn in L. split; [lia|split; [auto|]].
      intros d' Hd'. rewrite L3, tget_tset, tget_tdel. destruct (Z.eqb_spec d' d); [subst; tauto|].
      rewrite andb_false_r. apply F. now right.
Qed.

Lemma sc_enh_finish b m h id w us dcids ok credits o : b <> h ->
  Inv m -> tget h id (m_pend m) = Some (w, us) ->
  (ok = true -> length dcids = length us /\ NoDup dcids /\ forall d, In d dcids -> tget h d (m_le m) = None) ->
  same_conn b m (enh_finish m h id w us dcids ok credits o).
Proof.
  intros Hn I Hp Hc. unfold enh_finish.
  pose proof (sc_enh_each b h id ok credits us m dcids w Hn I Hp Hc) as S1.
  destruct (inv_enh_each h id ok credits us m dcids w I Hp Hc) as [I1 P1].
  eapply sc_trans; [exact S1|].
  destruct (pend_ok _ I1 _ _ _ _ P1) as ([x (Hx & _ & _ & Hxc & _)] & _).
  apply sc_intro; try sc_tab; try (intros; left; autorewrite with acc; reflexivity).
  intros w0. autorewrite with acc. destruct (Z.eqb_spec w0 w); [|left; reflexivity]. subst.
  right. rewrite Hx. cbn. split; intros x0 H0; injection H0 as <-; rewrite ?w_conn_wres1; congruence.
Qed.

Lemma sc_recv_enh_rsp b m h id credits result dcids :
  Inv m -> enh_rsp_ok m h id result dcids = true -> b <> h ->
  same_conn b m (fst (recv_enh_rsp m h id credits result dcids)).
Proof.
  intros I Hok Hn. unfold recv_enh_rsp. unfold enh_rsp_ok in Hok. cbn in Hok.
  destruct (tget h id (m_pend m)) as [[w us]|] eqn:Hp; [|apply sc_refl]. cbn [fst].
  apply sc_enh_finish; auto.
  intros E. rewrite E in Hok. cbn in Hok. apply andb_true_iff in Hok. destruct Hok as [Hok H3].
  apply andb_true_iff in Hok. destruct Hok as [H1 H2].
  apply Nat.eqb_eq in H1. apply nodupz_NoDup in H2. apply negb_true_iff in H3. rewrite any_mem_false in H3.
  repeat split; auto. intros d Hd. destruct (tget h d (m_le m)) eqn:Eg; auto.
  exfalso. apply (H3 d Hd). apply tkeys_tget. congruence.
Qed.

(* ---------------------------------------------------------------- cancellation by the caller *)
Lemma sc_cancel b m w x : Inv m -> wget m w = Some x -> b <> w_conn x -> same_conn b m (do_cancel m w).
Proof.
  intros I Hx Hn. unfold do_cancel. rewrite wget_m_eq, Hx.
  destruct (Z.eqb_spec (w_out x) O_PENDING) as [Hp|Hp]; cbn [negb]; [|apply sc_refl].
  pose proof (w_own m I w x Hx Hp) as O.
  assert (Hwx : forall w0, wget (wres m w O_CANCELLED) w0 = wget m w0 \/
            ((forall x0, wget m w0 = Some x0 -> w_conn x0 = w_conn x) /\
             (forall x0, wget (wres m w O_CANCELLED) w0 = Some x0 -> w_conn x0 = w_conn x))).
  { intros w0. rewrite wget_wres. destruct (Z.eqb_spec w0 w); [|left; reflexivity]. subst.
    right. rewrite Hx. cbn. split; intros x0 H0; injection H0 as <-; rewrite ?w_conn_wres1; reflexivity. }
  destruct (w_kind x) eqn:Ek.
  - destruct O as [c [Hu Hcw]]. rewrite Hu, Hcw. cbn [is_uid]. rewrite Z.eqb_refl.
    destruct (ch_cw m I _ c w Hu Hcw) as (_ & _ & [x0 (A & _ & _ & B & _)]). rewrite Hx in A. inversion A; subst x0.
    destruct (c_kind c);
      apply (sc_one b (c_conn c) m _ (w_ref x) c); auto; try congruence; try sc_tab; try sc_self Hu;
      try (intros w0; autorewrite with accw; rewrite <- B; apply Hwx).
  - destruct O as [us Hus]. rewrite Hus, Z.eqb_refl. apply sc_enh_finish; auto. discriminate.
  - destruct O as [c [Hu Hdw]]. rewrite Hu, Hdw. cbn [is_uid]. rewrite Z.eqb_refl.
    destruct (ch_dw m I _ c w Hu Hdw) as (_ & _ & [x0 (A & _ & _ & B & _)]). rewrite Hx in A. inversion A; subst x0.
    apply (sc_one b (c_conn c) m _ (w_ref x) c); auto; try congruence; try sc_tab; try sc_self Hu;
      try (intros w0; autorewrite with accw; rewrite <- B; apply Hwx).
Qed.

(* ---------------------------------------------------------------- link loss *)
Lemma down_notouch m h w x : Inv m -> wget m w = Some x -> w_conn x <> h ->
  ~ In w (down_cancels m h (down_us m h)) /\ ~ In w (down_results m (down_us m h)).
Proof.
  intros I Hx Hn. split.
  - rewrite down_cancels_spec. intros [[u [c (Hu & Hc & Hk)]]|[id [us' Hi]]].
    + destruct (ch_cw m I u c w Hu Hc) as (_ & _ & [x0 (A & _ & _ & B & _)]).
      rewrite Hx in A. inversion A; subst x0.
      assert (c_conn c = h); [|congruence].
      destruct (c_kind c); auto. apply (down_us_spec m h u I) in Hk. destruct Hk as [c0 (A0 & B0 & _)]. congruence.
    + apply (In_tget _ _ _ _ (nd_pend m I)) in Hi. destruct (pend_ok m I _ _ _ _ Hi) as [[x0 (A & _ & _ & B & _)] _].
      congruence.
  - rewrite down_results_spec. intros [u [c (Hu & Hc & Hk)]].
    destruct (ch_dw m I u c w Hu Hc) as (_ & _ & [x0 (A & _ & _ & B & _)]).
    rewrite Hx in A. inversion A; subst x0.
    apply (down_us_spec m h u I) in Hk. destruct Hk as [c0 (A0 & B0 & _)]. congruence.
Qed.

Lemma sc_down b m h : Inv m -> b <> h -> same_conn b m (do_down m h).
Proof.
  intros I Hn. apply sc_intro.
  - intros k. cbn [do_down m_chs]. rewrite tget_tdrop. destruct (Z.eqb_spec b h); [congruence|auto].
  - intros k. cbn [do_down m_le]. rewrite tget_tdrop. destruct (Z.eqb_spec b h); [congruence|auto].
  - intros k. cbn [do_down m_reqs]. rewrite tget_tdrop. destruct (Z.eqb_spec b h); [congruence|auto].
  - intros k. cbn [do_down m_pend]. rewrite tget_tdrop. destruct (Z.eqb_spec b h); [congruence|auto].
  - cbn [do_down m_ids]. now apply aget_adel_other.
  - intros u. rewrite hget_down. destruct (hget m u) as [c|] eqn:Hu; [|left; reflexivity]. cbn.
    destruct (Z.eq_dec (c_conn c) h) as [Hc|Hc].
    + right. destruct (down_chan_facts m h u c I Hu Hc) as (_ & A & _). split; intros c0 [= <-]; congruence.
    + left. now rewrite (down_chan_other m h u c I Hu Hc).
  - intros w. rewrite wget_down. destruct (wget m w) as [x|] eqn:Hx; [|left; reflexivity]. cbn.
    destruct (Z.eq_dec (w_conn x) h) as [Hc|Hc].
    + right. split; intros x0 [= <-]; repeat destruct (memz _ _); rewrite ?w_conn_wres1; congruence.
    + left. destruct (down_notouch m h w x I Hx Hc) as [N1 N2]. apply memz_false in N1, N2. now rewrite N1, N2.
Qed.

(* ---------------------------------------------------------------- the theorem *)
(* the connection an event is about *)
Definition ev_conn (m : mgr) (e : event) : option Z :=
  match e with
  | EOpen h _ _ _ _ _ => Some h
  | ERecv h _ => Some h
  | EDown h => Some h
  | EClose u | EAbort u | EWrite u _ | EGrant u _ => option_map c_conn (hget m u)
  | ECancel w => option_map w_conn (wget m w)
  end.

Theorem links_independent m e a b : reachable m -> ev_ok m e = true ->
  ev_conn m e = Some a -> b <> a -> same_conn b m (fst (step m e)).
Proof.
  intros R Hok Ha Hn. pose proof (reachable_Inv m R) as I.
  destruct e as [h kind psm n mode credits|u|u|w|u k|u n|h f|h]; cbn [step ev_conn] in *.
  - injection Ha as ->. destruct (Z.eqb kind K_LE); [now apply sc_open_le|].
    destruct (Z.eqb kind K_ENH); [now apply sc_open_enh|now apply sc_open_cl].
  - destruct (hget m u) as [c|] eqn:Hu; [|discriminate]. injection Ha as <-. eapply sc_close; eauto.
  - destruct (hget m u) as [c|] eqn:Hu; [|discriminate]. injection Ha as <-. eapply sc_abort; eauto.
  - destruct (wget m w) as [x|] eqn:Hx; [|discriminate]. injection Ha as <-. eapply sc_cancel; eauto.
  - destruct (hget m u) as [c|] eqn:Hu; [|discriminate]. injection Ha as <-. eapply sc_write; eauto.
  - destruct (hget m u) as [c|] eqn:Hu; [|discriminate]. injection Ha as <-. eapply sc_grant; eauto.
  - injection Ha as ->. destruct f; cbn [recv].
    + now apply sc_recv_conn_req.
    + now apply sc_recv_conn_rsp.
    + now apply sc_recv_conf_req.
    + now apply sc_recv_conf_rsp.
    + now apply sc_recv_disc_req.
    + now apply sc_recv_disc_rsp.
    + now apply sc_recv_le_req.
    + now apply sc_recv_le_rsp.
    + now apply sc_recv_enh_req.
    + now apply sc_recv_enh_rsp.
    + now apply sc_recv_credit.
    + apply sc_refl.
    + apply sc_refl.
  - injection Ha as ->. now apply sc_down.
Qed.

(* an event that addresses no channel object changes nothing *)
Lemma ev_conn_none m e : ev_conn m e = None -> step m e = (m, []).
Proof.
  destruct e; cbn; try discriminate;
    try (destruct (hget m _) eqn:E; try discriminate; intros _;
         unfold do_close, abort_chan, do_write, do_grant; rewrite E; reflexivity).
  destruct (wget m w) eqn:E; try discriminate. intros _. unfold do_cancel. rewrite wget_m_eq, E. reflexivity.
Qed.
