(* Proofs about Model/Link.v (property C06). *)
From Coq Require Import ZArith List Bool Lia Arith FinFun.
From BV Require Import Model.Link.
Import ListNotations.
Open Scope Z_scope.

(* ================================================================== tables (Python dicts) *)
Definition keys_nodup (t : list conn) : Prop := NoDup (map k_peer t).

Lemma tbl_get_in : forall t p k, tbl_get t p = Some k -> In k t /\ k_peer k = p.
Proof.
  induction t as [|k0 t IH]; simpl; intros p k H; [discriminate|].
  destruct (k_peer k0 =? p) eqn:E.
  - inversion H; subst. split; [now left | now apply Z.eqb_eq].
  - destruct (IH _ _ H). split; [now right | assumption].
Qed.

Lemma tbl_get_none : forall t p, tbl_get t p = None -> forall k, In k t -> k_peer k <> p.
Proof.
  induction t as [|k0 t IH]; simpl; intros p H k Hin; [contradiction|].
  destruct (k_peer k0 =? p) eqn:E; [discriminate|].
  destruct Hin as [<-|Hin]; [now apply Z.eqb_neq | eauto].
Qed.

Lemma tbl_get_of_in : forall t k, keys_nodup t -> In k t -> tbl_get t (k_peer k) = Some k.
Proof.
  unfold keys_nodup. induction t as [|k0 t IH]; simpl; intros k Hnd Hin; [contradiction|].
  inversion Hnd as [|? ? Hni Hnd']; subst.
  destruct Hin as [->|Hin].
  - now rewrite Z.eqb_refl.
  - destruct (k_peer k0 =? k_peer k) eqn:E.
    + apply Z.eqb_eq in E. exfalso. apply Hni. rewrite E. now apply in_map.
    + auto.
Qed.

Lemma tbl_set_in_weak : forall t k x, In x (tbl_set t k) -> x = k \/ In x t.
Proof.
  induction t as [|k0 t IH]; simpl; intros k x H.
  - destruct H as [<-|[]]. now left.
  - destruct (k_peer k0 =? k_peer k).
    + destruct H as [<-|H]; [now left | right; now right].
    + destruct H as [<-|H]; [right; now left|]. destruct (IH _ _ H); [now left | right; now right].
Qed.

Lemma tbl_set_has : forall t k, In k (tbl_set t k).
Proof.
  induction t as [|k0 t IH]; simpl; intros k; [now left|].
  destruct (k_peer k0 =? k_peer k); [now left | right; apply IH].
Qed.

Lemma tbl_set_keeps : forall t k x, In x t -> k_peer x <> k_peer k -> In x (tbl_set t k).
Proof.
  induction t as [|k0 t IH]; simpl; intros k x H Hne; [contradiction|].
  destruct (k_peer k0 =? k_peer k) eqn:E.
  - destruct H as [<-|H]; [apply Z.eqb_eq in E; contradiction | now right].
  - destruct H as [<-|H]; [now left | right; now apply IH].
Qed.

Lemma tbl_set_keys : forall t k p, In p (map k_peer (tbl_set t k)) <-> p = k_peer k \/ In p (map k_peer t).
Proof.
  induction t as [|k0 t IH]; simpl; intros k p.
  - intuition.
  - destruct (k_peer k0 =? k_peer k) eqn:E; simpl.
    + apply Z.eqb_eq in E. rewrite E. intuition.
    + rewrite IH. intuition.
Qed.

Lemma tbl_set_nodup : forall t k, keys_nodup t -> keys_nodup (tbl_set t k).
Proof.
  unfold keys_nodup. induction t as [|k0 t IH]; simpl; intros k H.
  - constructor; [intros []|constructor].
  - inversion H as [|? ? Hni Hnd]; subst.
    destruct (k_peer k0 =? k_peer k) eqn:E; simpl.
    + apply Z.eqb_eq in E. constructor; [now rewrite <- E | assumption].
    + constructor; [|now apply IH].
      rewrite tbl_set_keys. intros [Heq|Hin]; [apply Z.eqb_neq in E; congruence | contradiction].
Qed.

Lemma tbl_set_in_nodup : forall t k x, keys_nodup t -> In x (tbl_set t k) ->
  x = k \/ (In x t /\ k_peer x <> k_peer k).
Proof.
  unfold keys_nodup. induction t as [|k0 t IH]; simpl; intros k x Hnd H.
  - destruct H as [<-|[]]. now left.
  - inversion Hnd as [|? ? Hni Hnd']; subst.
    destruct (k_peer k0 =? k_peer k) eqn:E.
    + apply Z.eqb_eq in E. destruct H as [<-|H]; [now left|].
      right. split; [now right|]. intro Heq. apply Hni. rewrite E, <- Heq. now apply in_map.
    + destruct H as [<-|H].
      * right. split; [now left | now apply Z.eqb_neq].
      * destruct (IH _ _ Hnd' H) as [->|[Hin Hne]]; [now left | right; split; [now right | assumption]].
Qed.

Lemma tbl_get_set_same : forall t k, tbl_get (tbl_set t k) (k_peer k) = Some k.
Proof.
  induction t as [|k0 t IH]; simpl; intros k.
  - now rewrite Z.eqb_refl.
  - destruct (k_peer k0 =? k_peer k) eqn:E; simpl.
    + now rewrite Z.eqb_refl.
    + now rewrite E.
Qed.

Lemma tbl_get_set_other : forall t k p, p <> k_peer k -> tbl_get (tbl_set t k) p = tbl_get t p.
Proof.
  induction t as [|k0 t IH]; simpl; intros k p Hne.
  - destruct (k_peer k =? p) eqn:E; [apply Z.eqb_eq in E; congruence | reflexivity].
  - destruct (k_peer k0 =? k_peer k) eqn:E; simpl.
    + apply Z.eqb_eq in E. destruct (k_peer k =? p) eqn:E1; [apply Z.eqb_eq in E1; congruence|].
      destruct (k_peer k0 =? p) eqn:E2; [apply Z.eqb_eq in E2; congruence | reflexivity].
    + destruct (k_peer k0 =? p); [reflexivity | now apply IH].
Qed.

Lemma tbl_del_in : forall t p x, In x (tbl_del t p) -> In x t.
Proof.
  induction t as [|k0 t IH]; simpl; intros p x H; [contradiction|].
  destruct (k_peer k0 =? p); [now right|]. destruct H as [<-|H]; [now left | right; eauto].
Qed.

Lemma tbl_del_nodup : forall t p, keys_nodup t -> keys_nodup (tbl_del t p).
Proof.
  unfold keys_nodup. induction t as [|k0 t IH]; simpl; intros p H; [constructor|].
  inversion H as [|? ? Hni Hnd]; subst.
  destruct (k_peer k0 =? p); [assumption|]. simpl. constructor; [|now apply IH].
  intro Hin. apply Hni. apply in_map_iff in Hin. destruct Hin as [x [Hx Hin]].
  apply in_map_iff. exists x. split; [assumption | eapply tbl_del_in; eassumption].
Qed.

Lemma tbl_del_gone : forall t p, keys_nodup t -> tbl_get (tbl_del t p) p = None.
Proof.
  unfold keys_nodup. induction t as [|k0 t IH]; simpl; intros p H; [reflexivity|].
  inversion H as [|? ? Hni Hnd]; subst.
  destruct (k_peer k0 =? p) eqn:E.
  - apply Z.eqb_eq in E. subst p.
    destruct (tbl_get t (k_peer k0)) eqn:G; [|reflexivity].
    apply tbl_get_in in G. destruct G as [Hin Hk]. exfalso. apply Hni. rewrite <- Hk. now apply in_map.
  - simpl. rewrite E. now apply IH.
Qed.

Lemma tbl_del_other : forall t p q, q <> p -> tbl_get (tbl_del t p) q = tbl_get t q.
Proof.
  induction t as [|k0 t IH]; simpl; intros p q Hne; [reflexivity|].
  destruct (k_peer k0 =? p) eqn:E.
  - apply Z.eqb_eq in E. destruct (k_peer k0 =? q) eqn:E1; [apply Z.eqb_eq in E1; congruence | reflexivity].
  - simpl. destruct (k_peer k0 =? q); [reflexivity | now apply IH].
Qed.

Lemma tbl_del_keeps : forall t p x, In x t -> k_peer x <> p -> In x (tbl_del t p).
Proof.
  induction t as [|k0 t IH]; simpl; intros p x H Hne; [contradiction|].
  destruct (k_peer k0 =? p) eqn:E.
  - destruct H as [<-|H]; [apply Z.eqb_eq in E; contradiction | assumption].
  - destruct H as [<-|H]; [now left | right; now apply IH].
Qed.

Lemma by_handle_in : forall t h k, by_handle t h = Some k -> In k t /\ k_handle k = h.
Proof.
  induction t as [|k0 t IH]; simpl; intros h k H; [discriminate|].
  destruct (k_handle k0 =? h) eqn:E.
  - inversion H; subst. split; [now left | now apply Z.eqb_eq].
  - destruct (IH _ _ H). split; [now right | assumption].
Qed.

Lemma by_handle_none : forall t h, by_handle t h = None -> forall k, In k t -> k_handle k <> h.
Proof.
  induction t as [|k0 t IH]; simpl; intros h H k Hin; [contradiction|].
  destruct (k_handle k0 =? h) eqn:E; [discriminate|].
  destruct Hin as [<-|Hin]; [now apply Z.eqb_neq | eauto].
Qed.

(* ================================================================== handle allocation *)
Lemma zmem_in : forall x l, zmem x l = true <-> In x l.
Proof.
  unfold zmem. intros x l. rewrite existsb_exists. split.
  - intros [y [Hin E]]. apply Z.eqb_eq in E. now subst.
  - intros H. exists x. split; [assumption | apply Z.eqb_refl].
Qed.

Lemma first_free_spec : forall fuel h used r,
  first_free fuel h used = Some r ->
  ~ In r used /\ h <= r < h + Z.of_nat fuel /\ (forall x, h <= x < r -> In x used).
Proof.
  induction fuel as [|f IH]; simpl; intros h used r H; [discriminate|].
  destruct (zmem h used) eqn:E.
  - apply IH in H. destruct H as [Hni [Hr Hall]]. split; [assumption|]. split; [lia|].
    intros x Hx. destruct (Z.eq_dec x h) as [->|Hne]; [now apply zmem_in | apply Hall; lia].
  - inversion H; subst. split; [intro Hin; apply zmem_in in Hin; congruence|]. split; [lia|]. intros x Hx. lia.
Qed.

(* Controller.allocate_connection_handle returns the smallest handle in 1..0xEFF that no
   LE or classic connection of this controller uses. *)
Theorem alloc_spec : forall c h, alloc c = Some h ->
  ~ In h (handles c) /\ 1 <= h <= max_handle /\ (forall x, 1 <= x < h -> In x (handles c)).
Proof.
  unfold alloc. intros c h H. apply first_free_spec in H. destruct H as [H1 [H2 H3]].
  split; [assumption|]. split; [|assumption].
  rewrite Z2Nat.id in H2 by (unfold max_handle; lia). lia.
Qed.

(* ================================================================== lists of controllers *)
Lemma upd_length : forall cs i c, length (upd cs i c) = length cs.
Proof. induction cs as [|c0 cs IH]; destruct i; simpl; intros; auto. Qed.

Lemma nth_upd_same : forall cs i c, (i < length cs)%nat -> nth_error (upd cs i c) i = Some c.
Proof.
  induction cs as [|c0 cs IH]; destruct i; simpl; intros c H; try lia; [reflexivity|].
  apply IH. lia.
Qed.

Lemma nth_upd_other : forall cs i j c, i <> j -> nth_error (upd cs i c) j = nth_error cs j.
Proof.
  induction cs as [|c0 cs IH]; destruct i, j; simpl; intros c H; try reflexivity; try congruence.
  apply IH. congruence.
Qed.

Lemma nth_error_lt : forall {A} (l : list A) i x, nth_error l i = Some x -> (i < length l)%nat.
Proof. intros A l i x H. apply nth_error_Some. congruence. Qed.

Lemma nth_upd : forall cs i j c c0, nth_error cs i = Some c0 ->
  nth_error (upd cs i c) j = if Nat.eqb i j then Some c else nth_error cs j.
Proof.
  intros cs i j c c0 H. destruct (Nat.eqb i j) eqn:E.
  - apply Nat.eqb_eq in E. subst j. apply nth_upd_same. eapply nth_error_lt; eassumption.
  - apply Nat.eqb_neq in E. now apply nth_upd_other.
Qed.

(* ================================================================== shape of a step *)
Inductive step_kind (s : state) (l : label) (s' : state) (evs : list (nat * ev)) (out : list packet) : Prop :=
| SkStutter : s' = s -> evs = [] -> out = [] -> step_kind s l s' evs out
| SkLocal : forall i c c' e,
    label_ctrl l = Some i -> nth_error (st_cs s) i = Some c ->
    local (st_cs s) (length (st_cs s)) i c l = (c', e, out) ->
    s' = mkState (upd (st_cs s) i c') (st_net s ++ out) -> evs = tag i e ->
    step_kind s l s' evs out
| SkDeliver : forall k src dst m c c' e,
    l = LDeliver k -> nth_error (st_net s) k = Some (src, dst, m) ->
    existsb (same_pair src dst) (firstn k (st_net s)) = false ->
    nth_error (st_cs s) dst = Some c ->
    on_message (st_cs s) (length (st_cs s)) dst c m = (c', e, out) ->
    s' = mkState (upd (st_cs s) dst c') (remove_nth k (st_net s) ++ out) -> evs = tag dst e ->
    step_kind s l s' evs out
| SkLost : forall k src dst m,
    l = LDeliver k -> nth_error (st_net s) k = Some (src, dst, m) ->
    nth_error (st_cs s) dst = None ->
    s' = mkState (st_cs s) (remove_nth k (st_net s)) -> evs = [] -> out = [] ->
    step_kind s l s' evs out.

Lemma step_shape : forall s l s' evs out, step s l = (s', evs, out) -> step_kind s l s' evs out.
Proof.
  intros s l s' evs out H.
  assert (Hloc : forall i, label_ctrl l = Some i ->
            match nth_error (st_cs s) i with
            | None => (s, [], [])
            | Some c => let '(c', e, o) := local (st_cs s) (length (st_cs s)) i c l in
                        (mkState (upd (st_cs s) i c') (st_net s ++ o), tag i e, o)
            end = (s', evs, out) -> step_kind s l s' evs out).
  { intros i Hi Hm. destruct (nth_error (st_cs s) i) as [c|] eqn:Hc.
    - destruct (local (st_cs s) (length (st_cs s)) i c l) as [[c' e] o] eqn:Hl.
      inversion Hm; subst. eapply SkLocal; eauto.
    - inversion Hm; subst. now apply SkStutter. }
  destruct l; try (unfold step in H; simpl label_ctrl in H; apply (Hloc i); [reflexivity | exact H]).
  unfold step in H.
  destruct (nth_error (st_net s) k) as [[[src dst] m]|] eqn:Hk.
  - destruct (existsb (same_pair src dst) (firstn k (st_net s))) eqn:Hb.
    + inversion H; subst. now apply SkStutter.
    + destruct (nth_error (st_cs s) dst) as [c|] eqn:Hc.
      * destruct (on_message (st_cs s) (length (st_cs s)) dst c m) as [[c' e] o] eqn:Hm.
        inversion H; subst. eapply SkDeliver; eauto.
      * inversion H; subst. eapply SkLost; eauto.
  - inversion H; subst. now apply SkStutter.
Qed.

(* ================================================================== per-controller invariant *)
Fixpoint count (h : Z) (l : list Z) : nat :=
  match l with
  | [] => O
  | x :: l' => ((if Z.eqb x h then 1 else 0) + count h l')%nat
  end.

Lemma count_app : forall h l1 l2, count h (l1 ++ l2) = (count h l1 + count h l2)%nat.
Proof. induction l1; simpl; intros; [reflexivity | rewrite IHl1; lia]. Qed.

Lemma count_zero_notin : forall h l, ~ In h l -> count h l = O.
Proof.
  induction l as [|x l IH]; simpl; intros H; [reflexivity|].
  destruct (x =? h) eqn:E; [apply Z.eqb_eq in E; exfalso; apply H; now left|].
  rewrite IH; [reflexivity | intro; apply H; now right].
Qed.

Lemma count_pos_in : forall h l, In h l -> (1 <= count h l)%nat.
Proof.
  induction l as [|x l IH]; simpl; intros H; [contradiction|].
  destruct H as [->|H]; [rewrite Z.eqb_refl; lia | specialize (IH H); lia].
Qed.

Lemma count_set : forall t k h,
  (count h (map k_handle (tbl_set t k)) <= count h (map k_handle t) + (if Z.eqb (k_handle k) h then 1 else 0))%nat.
Proof.
  induction t as [|k0 t IH]; simpl; intros k h; [lia|].
  destruct (k_peer k0 =? k_peer k); simpl; [lia|]. specialize (IH k h). lia.
Qed.

Lemma count_del : forall t p h, (count h (map k_handle (tbl_del t p)) <= count h (map k_handle t))%nat.
Proof.
  induction t as [|k0 t IH]; simpl; intros p h; [lia|].
  destruct (k_peer k0 =? p); simpl; [lia|]. specialize (IH p h). lia.
Qed.

Lemma count_two : forall t k1 k2, In k1 t -> In k2 t -> k1 <> k2 -> k_handle k1 = k_handle k2 ->
  (2 <= count (k_handle k1) (map k_handle t))%nat.
Proof.
  induction t as [|k0 t IH]; simpl; intros k1 k2 H1 H2 Hne Hh; [contradiction|].
  destruct H1 as [->|H1], H2 as [->|H2].
  - congruence.
  - rewrite Z.eqb_refl. assert (1 <= count (k_handle k1) (map k_handle t))%nat; [|lia].
    apply count_pos_in. rewrite Hh. now apply in_map.
  - rewrite Hh, Z.eqb_refl. assert (1 <= count (k_handle k2) (map k_handle t))%nat; [|lia].
    apply count_pos_in. rewrite <- Hh. now apply in_map.
  - specialize (IH _ _ H1 H2 Hne Hh). lia.
Qed.

Record cinv (c : ctrl) : Prop := mkCinv {
  ci_le_keys : keys_nodup (c_le c);
  ci_cl_keys : keys_nodup (c_cl c);
  ci_le_pos : forall k, In k (c_le c) -> 1 <= k_handle k;
  ci_cl_nonneg : forall k, In k (c_cl c) -> 0 <= k_handle k;
  ci_sco_keys : keys_nodup (c_sco c);
  ci_sco_nonneg : forall k, In k (c_sco c) -> 0 <= k_handle k;
  ci_cis_pos : forall x, In x (c_cis c) -> 1 <= cis_handle x;
  ci_distinct : forall h, h <> 0 -> (count h (handles c) <= 1)%nat
}.

Lemma cinv_new : forall p r x, cinv (new_ctrl p r x).
Proof.
  intros. constructor; simpl; try (intros; contradiction); try constructor.
  intros; unfold handles; simpl; lia.
Qed.

Ltac split_counts H := unfold handles in H; simpl in H; rewrite ?count_app in H.

(* adding / replacing an entry of one of the three connection tables with a freshly allocated
   handle (or, for tables that allow it, the placeholder 0) *)
Lemma cinv_set_le : forall c k h, cinv c -> alloc c = Some h -> k_handle k = h ->
  cinv (set_le c (tbl_set (c_le c) k)).
Proof.
  intros c k h I Ha Hk. apply alloc_spec in Ha. destruct Ha as [Hfresh [Hr _]]. destruct I.
  constructor; simpl; auto.
  - now apply tbl_set_nodup.
  - intros x Hx. apply tbl_set_in_weak in Hx. destruct Hx as [->|Hx]; [lia | auto].
  - intros h0 Hh0. specialize (ci_distinct0 h0 Hh0). unfold handles in *. simpl. rewrite ?count_app in *.
    pose proof (count_set (c_le c) k h0) as Hs.
    destruct (k_handle k =? h0) eqn:E; [|lia].
    apply Z.eqb_eq in E. subst h0. rewrite Hk in *.
    pose proof (count_zero_notin _ _ Hfresh) as H0. rewrite ?count_app in H0. lia.
Qed.

Lemma cinv_set_cl : forall c k, cinv c -> (k_handle k = 0 \/ alloc c = Some (k_handle k)) ->
  cinv (set_cl c (tbl_set (c_cl c) k)).
Proof.
  intros c k I Hk. destruct I.
  constructor; simpl; auto.
  - now apply tbl_set_nodup.
  - intros x Hx. apply tbl_set_in_weak in Hx. destruct Hx as [->|Hx]; [|auto].
    destruct Hk as [->|Ha]; [lia|]. apply alloc_spec in Ha. lia.
  - intros h0 Hh0. specialize (ci_distinct0 h0 Hh0). unfold handles in *. simpl. rewrite ?count_app in *.
    pose proof (count_set (c_cl c) k h0) as Hs.
    destruct (k_handle k =? h0) eqn:E; [|lia].
    apply Z.eqb_eq in E. subst h0. destruct Hk as [Hz|Ha]; [congruence|].
    apply alloc_spec in Ha. destruct Ha as [Hfresh _].
    pose proof (count_zero_notin _ _ Hfresh) as H0. unfold handles in H0. rewrite ?count_app in H0. lia.
Qed.

Lemma cinv_set_sco : forall c k, cinv c -> (k_handle k = 0 \/ alloc c = Some (k_handle k)) ->
  cinv (set_sco c (tbl_set (c_sco c) k)).
Proof.
  intros c k I Hk. destruct I.
  constructor; simpl; auto.
  - now apply tbl_set_nodup.
  - intros x Hx. apply tbl_set_in_weak in Hx. destruct Hx as [->|Hx]; [|auto].
    destruct Hk as [->|Ha]; [lia|]. apply alloc_spec in Ha. lia.
  - intros h0 Hh0. specialize (ci_distinct0 h0 Hh0). unfold handles in *. simpl. rewrite ?count_app in *.
    pose proof (count_set (c_sco c) k h0) as Hs.
    destruct (k_handle k =? h0) eqn:E; [|lia].
    apply Z.eqb_eq in E. subst h0. destruct Hk as [Hz|Ha]; [congruence|].
    apply alloc_spec in Ha. destruct Ha as [Hfresh _].
    pose proof (count_zero_notin _ _ Hfresh) as H0. unfold handles in H0. rewrite ?count_app in H0. lia.
Qed.

Lemma cinv_del_le : forall c p, cinv c -> cinv (set_le c (tbl_del (c_le c) p)).
Proof.
  intros c p I. destruct I. constructor; simpl; auto.
  - now apply tbl_del_nodup.
  - intros x Hx. apply tbl_del_in in Hx. auto.
  - intros h0 Hh0. specialize (ci_distinct0 h0 Hh0). unfold handles in *. simpl. rewrite ?count_app in *.
    pose proof (count_del (c_le c) p h0). lia.
Qed.

Lemma cinv_del_cl : forall c p, cinv c -> cinv (set_cl c (tbl_del (c_cl c) p)).
Proof.
  intros c p I. destruct I. constructor; simpl; auto.
  - now apply tbl_del_nodup.
  - intros x Hx. apply tbl_del_in in Hx. auto.
  - intros h0 Hh0. specialize (ci_distinct0 h0 Hh0). unfold handles in *. simpl. rewrite ?count_app in *.
    pose proof (count_del (c_cl c) p h0). lia.
Qed.

Lemma cinv_del_sco : forall c p, cinv c -> cinv (set_sco c (tbl_del (c_sco c) p)).
Proof.
  intros c p I. destruct I. constructor; simpl; auto.
  - now apply tbl_del_nodup.
  - intros x Hx. apply tbl_del_in in Hx. auto.
  - intros h0 Hh0. specialize (ci_distinct0 h0 Hh0). unfold handles in *. simpl. rewrite ?count_app in *.
    pose proof (count_del (c_sco c) p h0). lia.
Qed.

(* CIS links: removing a CIG, adding a CIS with a fresh handle *)
Lemma count_filter_le : forall (f : Z * Z * Z -> bool) l h,
  (count h (map cis_handle (filter f l)) <= count h (map cis_handle l))%nat.
Proof.
  induction l as [|x l IH]; simpl; intros h; [lia|]. specialize (IH h).
  destruct (f x); simpl; lia.
Qed.

Lemma cinv_cis_filter : forall c f, cinv c -> cinv (set_cis c (filter f (c_cis c))).
Proof.
  intros c f I. destruct I. constructor; simpl; auto.
  - intros x Hx. apply filter_In in Hx. destruct Hx. auto.
  - intros h0 Hh0. specialize (ci_distinct0 h0 Hh0). unfold handles in *. simpl. rewrite ?count_app in *.
    pose proof (count_filter_le f (c_cis c) h0). lia.
Qed.

Lemma cinv_cis_add : forall c h cig x, cinv c -> alloc c = Some h -> cinv (set_cis c (c_cis c ++ [(h, cig, x)])).
Proof.
  intros c h cig x I Ha. apply alloc_spec in Ha. destruct Ha as [Hfresh [Hr _]]. destruct I.
  constructor; simpl; auto.
  - intros y Hy. apply in_app_or in Hy. destruct Hy as [Hy|[<-|[]]]; [auto|]. unfold cis_handle. simpl. lia.
  - intros h0 Hh0. specialize (ci_distinct0 h0 Hh0). unfold handles in *. simpl. rewrite map_app, ?count_app in *.
    simpl. unfold cis_handle at 2. simpl.
    destruct (h =? h0) eqn:E; [|lia].
    apply Z.eqb_eq in E. subst h0.
    pose proof (count_zero_notin _ _ Hfresh) as H0. rewrite ?count_app in H0. lia.
Qed.

Lemma cinv_add_cis : forall cis c cig c' hs ok, cinv c -> add_cis c cig cis = (c', hs, ok) -> cinv c'.
Proof.
  induction cis as [|x cis IH]; simpl; intros c cig c' hs ok I H.
  - inversion H; subst. assumption.
  - destruct (alloc c) as [h|] eqn:Ha; [|inversion H; subst; assumption].
    destruct (add_cis (set_cis c (c_cis c ++ [(h, cig, x)])) cig cis) as [[c1 hs1] ok1] eqn:Hr.
    inversion H; subst. eapply IH; [|exact Hr]. now apply cinv_cis_add.
Qed.

(* updates that leave all link tables alone *)
Lemma cinv_same_tables : forall c c', c_le c' = c_le c -> c_cl c' = c_cl c -> c_sco c' = c_sco c ->
  c_cis c' = c_cis c -> cinv c -> cinv c'.
Proof.
  intros c c' H1 H2 H3 H4 I. destruct I. constructor; unfold handles in *; rewrite ?H1, ?H2, ?H3, ?H4; auto.
Qed.

Ltac same_tables := (eapply cinv_same_tables; [| | | | eassumption]; reflexivity).

Lemma cinv_classic_complete : forall c p c' e, cinv c -> classic_complete c p = (c', e) -> cinv c'.
Proof.
  unfold classic_complete. intros c p c' e I H.
  destruct (alloc c) as [h|] eqn:Ha; [|inversion H; subst; assumption].
  destruct (tbl_get (c_cl c) p) as [k|]; inversion H; subst; apply cinv_set_cl; auto.
Qed.

Lemma cinv_sco_complete : forall c p c' e, cinv c -> sco_complete c p = (c', e) -> cinv c'.
Proof.
  unfold sco_complete. intros c p c' e I H.
  destruct (alloc c) as [h|] eqn:Ha; inversion H; subst; [|assumption].
  apply cinv_set_sco; auto.
Qed.

Lemma cinv_message : forall cs n j c m c' e o, cinv c -> on_message cs n j c m = (c', e, o) -> cinv c'.
Proof.
  intros cs n j c m c' e o I H. destruct m; simpl in H.
  - (* MAdv *) unfold on_adv in H.
    destruct (c_pending c) as [[peer own]|]; [|inversion H; subst; assumption].
    destruct (peer =? adv); [|inversion H; subst; assumption].
    unfold create_le_connection in H.
    destruct (tbl_get (c_le c) adv); [inversion H; subst; assumption|].
    destruct (alloc c) as [h|] eqn:Ha; [|inversion H; subst; assumption].
    inversion H; subst.
    eapply cinv_same_tables with (c := set_le c (tbl_set (c_le c) (mkConn adv (if own then c_public c else c_random c) h true)));
      [reflexivity | reflexivity | reflexivity | reflexivity |]. eapply cinv_set_le; eauto.
  - (* MConnInd *) unfold on_connect_ind in H.
    destruct (andb (leg_address c =? adv) (c_leg_enabled c)).
    + destruct (alloc c) as [h|] eqn:Ha; [|inversion H; subst; assumption]. inversion H; subst.
      eapply cinv_same_tables with (c := set_le c (tbl_set (c_le c) (mkConn init adv h false)));
        [reflexivity | reflexivity | reflexivity | reflexivity |]. eapply cinv_set_le; eauto.
    + destruct (find_set c (c_sets c) adv); [|inversion H; subst; assumption].
      destruct (alloc c) as [h|] eqn:Ha; [|inversion H; subst; assumption]. inversion H; subst.
      eapply cinv_same_tables with (c := set_le c (tbl_set (c_le c) (mkConn init adv h false)));
        [reflexivity | reflexivity | reflexivity | reflexivity |]. eapply cinv_set_le; eauto.
  - (* MTerm *) unfold on_terminate in H.
    destruct (tbl_get (c_le c) sender); inversion H; subst; [now apply cinv_del_le | assumption].
  - (* MAcl *) unfold on_acl in H.
    destruct (tbl_get (if le then c_le c else c_cl c) src); inversion H; subst; assumption.
  - (* MLmpConnReq *) unfold on_lmp_conn_req in H. inversion H; subst. apply cinv_set_cl; auto.
  - (* MLmpAccepted *) unfold on_lmp_accepted in H.
    destruct (lmp_get (c_lmp c) sender) as [[|]|]; try (inversion H; subst; assumption).
    destruct (classic_complete (set_lmp c (lmp_set (c_lmp c) sender true)) sender) as [c1 e1] eqn:Hc.
    inversion H; subst. eapply cinv_classic_complete; [|eassumption]. same_tables.
  - (* MLmpDetach *) unfold on_lmp_detach in H.
    destruct (tbl_get (c_cl c) sender); inversion H; subst; [now apply cinv_del_cl | assumption].
  - (* MLmpEscoReq *) unfold on_lmp_esco_req in H. inversion H; subst. apply cinv_set_sco; auto.
  - (* MLmpAcceptedEsco *) unfold on_lmp_accepted_esco in H.
    destruct (lmp_get (c_lmp_sco c) sender) as [[|]|]; try (inversion H; subst; assumption).
    destruct (sco_complete (set_lmp_sco c (lmp_set (c_lmp_sco c) sender true)) sender) as [c1 e1] eqn:Hc.
    inversion H; subst. eapply cinv_sco_complete; [|eassumption]. same_tables.
  - (* MLmpRemoveSco *) unfold on_lmp_remove_sco in H.
    destruct (tbl_get (c_sco c) sender); inversion H; subst; [now apply cinv_del_sco | assumption].
Qed.

Lemma disconnect_cases : forall cs i c h r c' e o, disconnect cs i c h r = (c', e, o) ->
  c' = c \/ (exists k, c' = set_cl c (tbl_del (c_cl c) (k_peer k)))
  \/ (exists k, c' = set_le c (tbl_del (c_le c) (k_peer k)))
  \/ (exists k, c' = set_sco c (tbl_del (c_sco c) (k_peer k))).
Proof.
  intros cs i c h r c' e o H. unfold disconnect in H.
  destruct (conn_by_handle c h); destruct (by_handle (c_cl c) h); destruct (by_handle (c_le c) h);
    destruct (by_handle (c_sco c) h); inversion H; subst; eauto 6.
Qed.

Lemma cinv_local : forall cs n i c l c' e o, cinv c -> local cs n i c l = (c', e, o) -> cinv c'.
Proof.
  intros cs n i c l c' e o I H.
  destruct l; simpl in H; try (inversion H; subst; first [assumption | same_tables]).
  - (* LExtData *) destruct (set_get (c_sets c) h); inversion H; subst; first [assumption | same_tables].
  - (* LExtSrsp *) destruct (set_get (c_sets c) h); inversion H; subst; first [assumption | same_tables].
  - (* LExtEnable *) destruct b, hs; inversion H; subst; same_tables.
  - (* LTick *) unfold tick in H. destruct (andb (c_leg_enabled c) (c_leg_advind c)); inversion H; subst; assumption.
  - (* LExtTick *) unfold ext_tick in H. destruct (set_get (c_sets c) h) as [s|]; [|inversion H; subst; assumption].
    destruct (a_enabled s); [|inversion H; subst; assumption].
    destruct (set_address c s); inversion H; subst; assumption.
  - (* LScanParams *) destruct (c_scan c); inversion H; subst; first [assumption | same_tables].
  - (* LConnect *) destruct (c_pending c); inversion H; subst; first [assumption | same_tables].
  - (* LCancel *) destruct (c_pending c) as [[pp po]|]; inversion H; subst; first [assumption | same_tables].
  - (* LAcl *) unfold send_acl in H. destruct (conn_by_handle c h) as [[[|] k]|]; [| |inversion H; subst; assumption].
    + destruct (find_le cs (k_peer k)); inversion H; subst; assumption.
    + destruct (find_classic cs (k_peer k)); inversion H; subst; assumption.
  - (* LDisconnect *) destruct (disconnect_cases _ _ _ _ _ _ _ _ H) as [->|[[k ->]|[[k ->]|[k ->]]]];
      [assumption | now apply cinv_del_cl | now apply cinv_del_le | now apply cinv_del_sco].
  - (* LClConnect *) unfold cl_connect in H. destruct (c_pending c); [inversion H; subst; assumption|].
    match type of H with (if ?b then _ else _) = _ => destruct b end; [inversion H; subst; assumption|].
    assert (I1 : cinv (set_cl c (tbl_set (c_cl c) (mkConn peer (c_public c) 0 true)))) by (apply cinv_set_cl; auto).
    destruct (find_classic cs peer); inversion H; subst.
    + eapply cinv_same_tables with (c := set_cl c (tbl_set (c_cl c) (mkConn peer (c_public c) 0 true)));
        [reflexivity | reflexivity | reflexivity | reflexivity | exact I1].
    + apply (cinv_del_cl _ peer) in I1. eapply cinv_same_tables; [| | | | exact I1]; reflexivity.
  - (* LClAccept *) unfold cl_accept in H. destruct (tbl_get (c_cl c) peer); [|inversion H; subst; assumption].
    destruct (classic_complete c peer) as [c1 e1] eqn:Hc. inversion H; subst.
    eapply cinv_classic_complete; eassumption.
  - (* LScoSetup *) unfold sco_setup in H. destruct (conn_by_handle c h) as [[b k]|]; inversion H; subst;
      [same_tables | assumption].
  - (* LScoAccept *) unfold sco_accept in H. destruct (tbl_get (c_cl c) peer); [|inversion H; subst; assumption].
    destruct (sco_complete c peer) as [c1 e1] eqn:Hc. inversion H; subst.
    eapply cinv_sco_complete; eassumption.
  - (* LSetCig *) unfold set_cig in H.
    destruct (add_cis (set_cis c (filter (not_cig cig) (c_cis c))) cig cis) as [[c1 hs] ok] eqn:Ha.
    inversion H; subst. eapply cinv_add_cis; [|exact Ha]. now apply cinv_cis_filter.
  - (* LRemoveCig *) inversion H; subst. now apply cinv_cis_filter.
Qed.

(* ================================================================== address discipline *)
Definition owns (c : ctrl) (a : Z) : Prop := a = c_public c \/ a = c_random c.

Record ainv (c : ctrl) : Prop := mkAinv {
  ai_self : forall k, In k (c_le c) -> owns c (k_self k);
  ai_sets : forall s, In s (c_sets c) -> a_random s = None \/ a_random s = Some (c_random c)
}.

Definition addr_same (c c' : ctrl) : Prop := c_public c' = c_public c /\ c_random c' = c_random c.

Lemma owns_same : forall c c' a, addr_same c c' -> (owns c' a <-> owns c a).
Proof. unfold addr_same, owns. intros c c' a [-> ->]. tauto. Qed.

Definition msg_ok (c : ctrl) (m : msg) : Prop :=
  match m with
  | MAdv a _ _ | MConnInd a _ | MTerm a _ | MAcl a true _ => owns c a
  | MAcl a false _ | MLmpConnReq a | MLmpAccepted a | MLmpDetach a _
  | MLmpEscoReq a | MLmpAcceptedEsco a | MLmpRemoveSco a _ => a = c_public c
  end.

Lemma msg_ok_same : forall c c' m, addr_same c c' -> msg_ok c m -> msg_ok c' m.
Proof.
  intros c c' m H. pose proof (fun a => owns_same c c' a H) as Ho. destruct H as [Hp Hr].
  destruct m; simpl; try (intros; apply Ho; assumption); try (intros ->; congruence).
  destruct le; [intros; apply Ho; assumption | intros ->; congruence].
Qed.

Lemma set_get_in : forall l h s, set_get l h = Some s -> In s l /\ a_handle s = h.
Proof.
  induction l as [|s0 l IH]; simpl; intros h s H; [discriminate|].
  destruct (a_handle s0 =? h) eqn:E.
  - inversion H; subst. split; [now left | now apply Z.eqb_eq].
  - destruct (IH _ _ H). split; [now right | assumption].
Qed.

Lemma set_put_in : forall l s x, In x (set_put l s) -> x = s \/ In x l.
Proof.
  induction l as [|s0 l IH]; simpl; intros s x H.
  - destruct H as [<-|[]]. now left.
  - destruct (a_handle s0 =? a_handle s).
    + destruct H as [<-|H]; [now left | right; now right].
    + destruct H as [<-|H]; [right; now left|]. destruct (IH _ _ H); [now left | right; now right].
Qed.

Lemma set_del_in : forall l h x, In x (set_del l h) -> In x l.
Proof.
  induction l as [|s0 l IH]; simpl; intros h x H; [contradiction|].
  destruct (a_handle s0 =? h); [now right|]. destruct H as [<-|H]; [now left | right; eauto].
Qed.

Lemma find_set_in : forall c l adv s, find_set c l adv = Some s ->
  In s l /\ set_address c s = Some adv /\ a_enabled s = true.
Proof.
  induction l as [|s0 l IH]; simpl; intros adv s H; [discriminate|].
  destruct (andb (opt_eqb (set_address c s0) adv) (a_enabled s0)) eqn:E.
  - inversion H; subst. apply andb_true_iff in E. destruct E as [E1 E2].
    split; [now left|]. split; [|assumption].
    unfold opt_eqb in E1. destruct (set_address c s); [|discriminate]. apply Z.eqb_eq in E1. now subst.
  - destruct (IH _ _ H) as [? ?]. split; [now right | assumption].
Qed.

Definition rand_ok (r : Z) (s : advset) : Prop := a_random s = None \/ a_random s = Some r.

Lemma enable_sets_ok : forall r hs l b, (forall s, In s l -> rand_ok r s) ->
  forall s, In s (enable_sets l b hs) -> rand_ok r s.
Proof.
  induction hs as [|h hs IH]; simpl; intros l b H s Hs; [auto|].
  destruct (set_get l h) as [s0|] eqn:G; [|eapply IH; eauto].
  eapply IH; [|eassumption]. intros x Hx. apply set_put_in in Hx. destruct Hx as [->|Hx]; [|auto].
  apply set_get_in in G. destruct G as [G _]. specialize (H _ G). destruct b; exact H.
Qed.

Lemma set_address_owns : forall c s a, ainv c -> In s (c_sets c) -> set_address c s = Some a -> owns c a.
Proof.
  unfold set_address. intros c s a I Hs H. destruct (a_params s) as [[|]|]; [| |discriminate].
  - inversion H. now left.
  - destruct (ai_sets c I s Hs) as [E|E]; rewrite E in H; [discriminate|]. inversion H. now right.
Qed.

Lemma ainv_same_le_sets : forall c c', c_le c' = c_le c -> c_sets c' = c_sets c -> addr_same c c' ->
  ainv c -> ainv c'.
Proof.
  intros c c' H1 H2 Hs I. destruct I. constructor.
  - rewrite H1. intros k Hk. apply (owns_same c c' _ Hs). auto.
  - rewrite H2. destruct Hs as [_ ->]. auto.
Qed.

Lemma ainv_sets : forall c sets, ainv c -> (forall s, In s sets -> rand_ok (c_random c) s) -> ainv (set_sets c sets).
Proof. intros c sets I H. destruct I. constructor; simpl; auto. Qed.

Lemma ainv_le_set : forall c k, ainv c -> owns c (k_self k) -> ainv (set_le c (tbl_set (c_le c) k)).
Proof.
  intros c k I Ho. destruct I. constructor; simpl; auto.
  intros x Hx. apply tbl_set_in_weak in Hx. destruct Hx as [->|Hx]; [exact Ho | exact (ai_self0 x Hx)].
Qed.

Lemma ainv_le_del : forall c p, ainv c -> ainv (set_le c (tbl_del (c_le c) p)).
Proof.
  intros c p I. destruct I. constructor; simpl; auto.
  intros x Hx. apply tbl_del_in in Hx. exact (ai_self0 x Hx).
Qed.

Lemma addr_same_refl : forall c, addr_same c c.
Proof. split; reflexivity. Qed.
#[export] Hint Resolve addr_same_refl : core.

Lemma classic_complete_addr : forall c p c' e, classic_complete c p = (c', e) ->
  addr_same c c' /\ c_le c' = c_le c /\ c_sets c' = c_sets c.
Proof.
  unfold classic_complete. intros c p c' e H.
  destruct (alloc c); [|inversion H; subst; repeat split; reflexivity].
  destruct (tbl_get (c_cl c) p); inversion H; subst; repeat split; reflexivity.
Qed.

Ltac keep_ainv := (eapply ainv_same_le_sets; [| | | eassumption]; [reflexivity | reflexivity | split; reflexivity]).

Lemma own_address_owns : forall c a, ainv c -> own_address c a = true -> owns c a.
Proof.
  unfold own_address. intros c a I H. apply orb_true_iff in H. destruct H as [H|H].
  - apply orb_true_iff in H. destruct H as [H|H]; apply Z.eqb_eq in H; [now left | now right].
  - apply existsb_exists in H. destruct H as [s [Hs Ha]]. unfold opt_eqb in Ha.
    destruct (set_address c s) as [x|] eqn:E; [|discriminate]. apply Z.eqb_eq in Ha. subst x.
    eapply set_address_owns; eauto.
Qed.

Lemma refuse_ok : forall cs j c init adv s d x, ainv c -> In (s, d, x) (refuse cs j c init adv) ->
  s = j /\ msg_ok c x.
Proof.
  unfold refuse. intros cs j c init adv s d x I H.
  destruct (own_address c adv) eqn:E; [|contradiction].
  destruct (find_le cs init); [|contradiction]. destruct H as [H|[]]. inversion H; subst.
  split; [reflexivity|]. simpl. now apply own_address_owns.
Qed.

Ltac trivial_msg := (split; [split; reflexivity|]; split; [assumption | intros ? ? ? []]).

(* what one message delivery does to addresses, to the address invariant and what it sends *)
Lemma message_ainv : forall cs n j c m c' e o, ainv c -> on_message cs n j c m = (c', e, o) ->
  addr_same c c' /\ ainv c' /\ (forall s d x, In (s, d, x) o -> s = j /\ msg_ok c x).
Proof.
  intros cs n j c m c' e o I H. destruct m; simpl in H.
  - (* MAdv *) unfold on_adv in H.
    destruct (c_pending c) as [[peer own]|]; [|inversion H; subst; trivial_msg].
    destruct (peer =? adv); [|inversion H; subst; trivial_msg].
    unfold create_le_connection in H.
    destruct (tbl_get (c_le c) adv); [inversion H; subst; trivial_msg|].
    destruct (alloc c) as [h|]; [|inversion H; subst; trivial_msg].
    inversion H; subst. split; [split; reflexivity|].
    assert (Ho : owns c (if own then c_public c else c_random c)) by (destruct own; [now left | now right]).
    split.
    + eapply ainv_same_le_sets with (c := set_le c (tbl_set (c_le c) (mkConn adv (if own then c_public c else c_random c) h true)));
        [reflexivity | reflexivity | split; reflexivity |]. now apply ainv_le_set.
    + intros s d x Hin. unfold broadcast in Hin. apply in_map_iff in Hin. destruct Hin as [y [Hy _]].
      inversion Hy; subst. split; [reflexivity | exact Ho].
  - (* MConnInd *) unfold on_connect_ind in H.
    destruct (andb (leg_address c =? adv) (c_leg_enabled c)) eqn:E.
    + destruct (alloc c) as [h|]; [|inversion H; subst; trivial_msg]. inversion H; subst.
      split; [split; reflexivity|]. split; [|intros s d x []].
      apply andb_true_iff in E. destruct E as [E _]. apply Z.eqb_eq in E.
      eapply ainv_same_le_sets with (c := set_le c (tbl_set (c_le c) (mkConn init adv h false)));
        [reflexivity | reflexivity | split; reflexivity |]. apply ainv_le_set; [assumption|].
      simpl. rewrite <- E. unfold leg_address. destruct (c_leg_pub c); [now left | now right].
    + destruct (find_set c (c_sets c) adv) as [s0|] eqn:F;
        [|inversion H; subst; split; [split; reflexivity|]; split; [assumption|];
          intros ps pd px Hin; eapply refuse_ok; eauto].
      destruct (alloc c) as [h|]; [|inversion H; subst; trivial_msg]. inversion H; subst.
      apply find_set_in in F. destruct F as [F1 [F2 F3]].
      split; [split; reflexivity|]. split; [|intros s d x []].
      assert (I1 : ainv (set_le c (tbl_set (c_le c) (mkConn init adv h false)))).
      { apply ainv_le_set; [assumption|]. simpl. eapply set_address_owns; eauto. }
      apply ainv_sets with (sets := set_put (c_sets c) (disable_set s0)) in I1; [exact I1|].
      simpl. intros s Hs. apply set_put_in in Hs. destruct Hs as [->|Hs]; [|apply (ai_sets c I); assumption].
      unfold rand_ok, disable_set; simpl. apply (ai_sets c I); assumption.
  - (* MTerm *) unfold on_terminate in H.
    destruct (tbl_get (c_le c) sender); inversion H; subst; (split; [split; reflexivity|]); (split; [|intros s d x []]);
      [now apply ainv_le_del | assumption].
  - (* MAcl *) unfold on_acl in H.
    destruct (tbl_get (if le then c_le c else c_cl c) src); inversion H; subst; trivial_msg.
  - (* MLmpConnReq *) unfold on_lmp_conn_req in H. inversion H; subst. split; [split; reflexivity|].
    split; [keep_ainv | intros s d x []].
  - (* MLmpAccepted *) unfold on_lmp_accepted in H.
    destruct (lmp_get (c_lmp c) sender) as [[|]|]; try (inversion H; subst; trivial_msg).
    destruct (classic_complete (set_lmp c (lmp_set (c_lmp c) sender true)) sender) as [c1 e1] eqn:Hc.
    inversion H; subst. apply classic_complete_addr in Hc. destruct Hc as [Ha [Hle Hse]].
    split; [exact Ha|]. split; [|intros s d x []].
    eapply ainv_same_le_sets; [exact Hle | exact Hse | exact Ha |]. keep_ainv.
  - (* MLmpDetach *) unfold on_lmp_detach in H.
    destruct (tbl_get (c_cl c) sender); inversion H; subst; (split; [split; reflexivity|]); (split; [|intros s d x []]);
      [keep_ainv | assumption].
  - (* MLmpEscoReq *) unfold on_lmp_esco_req in H. inversion H; subst. split; [split; reflexivity|].
    split; [keep_ainv | intros s d x []].
  - (* MLmpAcceptedEsco *) unfold on_lmp_accepted_esco in H.
    destruct (lmp_get (c_lmp_sco c) sender) as [[|]|]; try (inversion H; subst; trivial_msg).
    unfold sco_complete in H. destruct (alloc _); inversion H; subst; (split; [split; reflexivity|]);
      (split; [keep_ainv | intros s d x []]).
  - (* MLmpRemoveSco *) unfold on_lmp_remove_sco in H.
    destruct (tbl_get (c_sco c) sender); inversion H; subst; (split; [split; reflexivity|]); (split; [|intros s d x []]);
      [keep_ainv | assumption].
Qed.

Definition static_c (c : ctrl) (l : label) : Prop :=
  match l with
  | LSetRandom _ a | LExtRandom _ _ a => a = c_random c
  | _ => True
  end.

Lemma get_or_new_rand : forall c h, ainv c -> rand_ok (c_random c) (get_or_new_set c h).
Proof.
  unfold get_or_new_set. intros c h I. destruct (set_get (c_sets c) h) eqn:G.
  - apply set_get_in in G. destruct G as [G _]. exact (ai_sets c I _ G).
  - now left.
Qed.

Lemma broadcast_src : forall n i m s d x, In (s, d, x) (broadcast n i m) -> s = i /\ x = m.
Proof.
  unfold broadcast. intros n i m s d x H. apply in_map_iff in H. destruct H as [y [Hy _]].
  inversion Hy; subst. split; reflexivity.
Qed.

Ltac put_set I :=
  apply ainv_sets; [exact I|]; simpl; intros ? Hs_; apply set_put_in in Hs_; destruct Hs_ as [->|Hs_];
  [| exact (ai_sets _ I _ Hs_)].

Lemma add_cis_same : forall cis c cig c' hs ok, add_cis c cig cis = (c', hs, ok) ->
  addr_same c c' /\ c_le c' = c_le c /\ c_sets c' = c_sets c.
Proof.
  induction cis as [|x cis IH]; simpl; intros c cig c' hs ok H.
  - inversion H; subst. repeat split; reflexivity.
  - destruct (alloc c) as [h|]; [|inversion H; subst; repeat split; reflexivity].
    destruct (add_cis (set_cis c (c_cis c ++ [(h, cig, x)])) cig cis) as [[c1 hs1] ok1] eqn:Hr.
    inversion H; subst. apply IH in Hr. exact Hr.
Qed.

Lemma local_ainv : forall cs n i c l c' e o, ainv c -> static_c c l -> local cs n i c l = (c', e, o) ->
  addr_same c c' /\ ainv c' /\ (forall s d x, In (s, d, x) o -> s = i /\ msg_ok c x).
Proof.
  intros cs n i c l c' e o I G H.
  destruct l; simpl in H, G.
  - (* LSetRandom *) inversion H; subst. split; [split; reflexivity|]. split; [|intros ? ? ? []].
    destruct I. constructor; simpl; auto.
  - inversion H; subst. split; [split; reflexivity|]. split; [keep_ainv | intros ? ? ? []].
  - inversion H; subst. split; [split; reflexivity|]. split; [keep_ainv | intros ? ? ? []].
  - inversion H; subst. split; [split; reflexivity|]. split; [keep_ainv | intros ? ? ? []].
  - inversion H; subst. split; [split; reflexivity|]. split; [keep_ainv | intros ? ? ? []].
  - (* LExtRandom *) inversion H; subst. split; [split; reflexivity|]. split; [|intros ? ? ? []].
    put_set I. right. reflexivity.
  - (* LExtParams *) inversion H; subst. split; [split; reflexivity|]. split; [|intros ? ? ? []].
    put_set I. exact (get_or_new_rand c h I).
  - (* LExtData *) destruct (set_get (c_sets c) h) as [s0|] eqn:Gs; inversion H; subst; [|trivial_msg].
    split; [split; reflexivity|]. split; [|intros ? ? ? []].
    put_set I. apply set_get_in in Gs. exact (ai_sets c I _ (proj1 Gs)).
  - (* LExtSrsp *) destruct (set_get (c_sets c) h) as [s0|] eqn:Gs; inversion H; subst; [|trivial_msg].
    split; [split; reflexivity|]. split; [|intros ? ? ? []].
    put_set I. apply set_get_in in Gs. exact (ai_sets c I _ (proj1 Gs)).
  - (* LExtEnable *)
    assert (Hd : ainv (set_sets c (map disable_set (c_sets c)))).
    { apply ainv_sets; [exact I|]. intros s Hs. apply in_map_iff in Hs. destruct Hs as [s0 [<- Hs0]].
      exact (ai_sets c I _ Hs0). }
    assert (He : forall b' hs', ainv (set_sets c (enable_sets (c_sets c) b' hs'))).
    { intros. apply ainv_sets; [exact I|]. apply enable_sets_ok. exact (ai_sets c I). }
    destruct b, hs; inversion H; subst; (split; [split; reflexivity|]); (split; [|intros ? ? ? []]);
      first [exact Hd | exact (He true []) | exact (He true (z :: hs)) | exact (He false (z :: hs))].
  - (* LExtRemove *) inversion H; subst. split; [split; reflexivity|]. split; [|intros ? ? ? []].
    apply ainv_sets; [exact I|]. intros s Hs. apply set_del_in in Hs. exact (ai_sets c I _ Hs).
  - (* LExtClear *) inversion H; subst. split; [split; reflexivity|]. split; [|intros ? ? ? []].
    apply ainv_sets; [exact I|]. intros s [].
  - (* LTick *) unfold tick in H. destruct (andb (c_leg_enabled c) (c_leg_advind c)); inversion H; subst; [|trivial_msg].
    split; [split; reflexivity|]. split; [assumption|].
    intros ps pd px Hin. apply broadcast_src in Hin. destruct Hin as [-> ->]. split; [reflexivity|].
    simpl. unfold leg_address. destruct (c_leg_pub _); [now left | now right].
  - (* LExtTick *) unfold ext_tick in H. destruct (set_get (c_sets c) h) as [s0|] eqn:Gs; [|inversion H; subst; trivial_msg].
    destruct (a_enabled s0); [|inversion H; subst; trivial_msg].
    destruct (set_address c s0) as [a|] eqn:Ea; inversion H; subst; [|trivial_msg].
    split; [split; reflexivity|]. split; [assumption|].
    intros ps pd px Hin. apply broadcast_src in Hin. destruct Hin as [-> ->]. split; [reflexivity|].
    simpl. apply set_get_in in Gs. eapply set_address_owns; [exact I | exact (proj1 Gs) | exact Ea].
  - (* LScanParams *) destruct (c_scan c); inversion H; subst; [trivial_msg|].
    split; [split; reflexivity|]. split; [keep_ainv | intros ? ? ? []].
  - inversion H; subst. split; [split; reflexivity|]. split; [keep_ainv | intros ? ? ? []].
  - (* LConnect *) destruct (c_pending c); inversion H; subst; [trivial_msg|].
    split; [split; reflexivity|]. split; [keep_ainv | intros ? ? ? []].
  - (* LCancel *) destruct (c_pending c) as [[pp po]|]; inversion H; subst; [|trivial_msg].
    split; [split; reflexivity|]. split; [keep_ainv | intros ? ? ? []].
  - (* LAcl *) unfold send_acl in H. destruct (conn_by_handle c h) as [[[|] k]|]; [| |inversion H; subst; trivial_msg].
    + destruct (find_le cs (k_peer k)); inversion H; subst; [|trivial_msg].
      split; [split; reflexivity|]. split; [assumption|].
      intros ps pd px [Hin|[]]. inversion Hin; subst. split; [reflexivity|]. simpl.
      destruct (tbl_get (c_le c') (k_peer k)) as [k'|] eqn:Gk; [|now right].
      apply tbl_get_in in Gk. exact (ai_self c' I _ (proj1 Gk)).
    + destruct (find_classic cs (k_peer k)); inversion H; subst; [|trivial_msg].
      split; [split; reflexivity|]. split; [assumption|].
      intros ps pd px [Hin|[]]. inversion Hin; subst. split; reflexivity.
  - (* LDisconnect *) unfold disconnect in H.
    destruct (conn_by_handle c h); destruct (by_handle (c_cl c) h) as [k1|]; destruct (by_handle (c_le c) h) as [k2|] eqn:Bh;
      destruct (by_handle (c_sco c) h) as [k3|]; inversion H; subst; try trivial_msg;
      (split; [split; reflexivity|]); (split; [first [keep_ainv | now apply ainv_le_del]|]);
      intros ps pd px Hin;
      try (destruct (find_classic cs (k_peer k1)); [|contradiction]; destruct Hin as [Hin|[]]; inversion Hin; subst; split; reflexivity);
      try (destruct (find_classic cs (k_peer k3)); [|contradiction]; destruct Hin as [Hin|[]]; inversion Hin; subst; split; reflexivity);
      (destruct (find_le cs (k_peer k2)); [|contradiction]; destruct Hin as [Hin|[]]; inversion Hin; subst;
       split; [reflexivity|]; simpl; apply by_handle_in in Bh; exact (ai_self c I _ (proj1 Bh))).
  - (* LClConnect *) unfold cl_connect in H. destruct (c_pending c); [inversion H; subst; trivial_msg|].
    match type of H with (if ?b then _ else _) = _ => destruct b end; [inversion H; subst; trivial_msg|].
    destruct (find_classic cs peer); inversion H; subst.
    + split; [split; reflexivity|]. split; [keep_ainv|].
      intros ps pd px [Hin|[]]. inversion Hin; subst. split; reflexivity.
    + split; [split; reflexivity|]. split; [keep_ainv | intros ? ? ? []].
  - (* LClAccept *) unfold cl_accept in H. destruct (tbl_get (c_cl c) peer); [|inversion H; subst; trivial_msg].
    destruct (classic_complete c peer) as [c1 e1] eqn:Hc. inversion H; subst.
    apply classic_complete_addr in Hc. destruct Hc as [Ha [Hle Hse]].
    split; [exact Ha|]. split; [eapply ainv_same_le_sets; eauto|].
    intros ps pd px Hin. destruct (find_classic cs peer); [|contradiction].
    destruct Hin as [Hin|[]]. inversion Hin; subst. split; reflexivity.
  - (* LScoSetup *) unfold sco_setup in H. destruct (conn_by_handle c h) as [[b k]|]; inversion H; subst; [|trivial_msg].
    split; [split; reflexivity|]. split; [keep_ainv|].
    intros ps pd px Hin. destruct (find_classic cs (k_peer k)); [|contradiction].
    destruct Hin as [Hin|[]]. inversion Hin; subst. split; reflexivity.
  - (* LScoAccept *) unfold sco_accept in H. destruct (tbl_get (c_cl c) peer); [|inversion H; subst; trivial_msg].
    unfold sco_complete in H. destruct (alloc c); inversion H; subst; (split; [split; reflexivity|]);
      (split; [first [keep_ainv | assumption]|]);
      intros ps pd px Hin; (destruct (find_classic cs peer); [|contradiction]);
      destruct Hin as [Hin|[]]; inversion Hin; subst; split; reflexivity.
  - (* LSetCig *) unfold set_cig in H.
    destruct (add_cis (set_cis c (filter (not_cig cig) (c_cis c))) cig cis) as [[c1 hs] ok] eqn:Ha.
    inversion H; subst. apply add_cis_same in Ha. destruct Ha as [Ha [Hle Hse]].
    split; [exact Ha|]. split; [eapply ainv_same_le_sets; eauto; keep_ainv | intros ? ? ? []].
  - (* LRemoveCig *) inversion H; subst. split; [split; reflexivity|]. split; [keep_ainv | intros ? ? ? []].
  - (* LDeliver *) inversion H; subst. trivial_msg.
Qed.

(* ================================================================== global invariant *)
Definition addr_unique (cs : list ctrl) : Prop :=
  forall i j ci cj a, nth_error cs i = Some ci -> nth_error cs j = Some cj ->
                      owns ci a -> owns cj a -> i = j.

Record ginv (s : state) : Prop := mkGinv {
  g_c : forall i c, nth_error (st_cs s) i = Some c -> cinv c /\ ainv c;
  g_net : forall src dst m, In (src, dst, m) (st_net s) ->
          exists c, nth_error (st_cs s) src = Some c /\ msg_ok c m;
  g_uniq : addr_unique (st_cs s)
}.

Lemma remove_nth_in : forall {A} k (l : list A) x, In x (remove_nth k l) -> In x l.
Proof.
  induction k as [|k IH]; destruct l as [|y l]; simpl; intros x H; try contradiction.
  - now right.
  - destruct H as [<-|H]; [now left | right; eauto].
Qed.

(* a step that replaces controller i by c' with the same addresses, removes messages and
   appends messages of i that are well-formed, preserves the invariant *)
Lemma ginv_update : forall s i c c' net' out,
  ginv s -> nth_error (st_cs s) i = Some c -> addr_same c c' -> cinv c' -> ainv c' ->
  (forall x, In x net' -> In x (st_net s)) ->
  (forall sr d x, In (sr, d, x) out -> sr = i /\ msg_ok c x) ->
  ginv (mkState (upd (st_cs s) i c') (net' ++ out)).
Proof.
  intros s i c c' net' out [Gc Gn Gu] Hi Hs Hci Hai Hsub Hout. constructor; simpl.
  - intros j cj Hj. rewrite (nth_upd _ _ _ _ _ Hi) in Hj. destruct (Nat.eqb i j); [inversion Hj; subst; auto | eauto].
  - intros src dst m Hin. apply in_app_or in Hin. destruct Hin as [Hin|Hin].
    + apply Hsub in Hin. destruct (Gn _ _ _ Hin) as [c0 [H0 Hm]].
      rewrite (nth_upd _ _ _ _ _ Hi). destruct (Nat.eqb i src) eqn:E.
      * apply Nat.eqb_eq in E. subst src. exists c'. split; [reflexivity|].
        rewrite Hi in H0. inversion H0; subst. eapply msg_ok_same; eauto.
      * exists c0. auto.
    + destruct (Hout _ _ _ Hin) as [-> Hm]. exists c'. split.
      * rewrite (nth_upd _ _ _ _ _ Hi), Nat.eqb_refl. reflexivity.
      * eapply msg_ok_same; eauto.
  - intros a b ca cb x Ha Hb Hoa Hob.
    rewrite (nth_upd _ _ a _ _ Hi) in Ha. rewrite (nth_upd _ _ b _ _ Hi) in Hb.
    assert (Hfix : forall j cj, (if Nat.eqb i j then Some c' else nth_error (st_cs s) j) = Some cj ->
                    exists c0, nth_error (st_cs s) j = Some c0 /\ (forall y, owns cj y -> owns c0 y)).
    { intros j cj Hj. destruct (Nat.eqb i j) eqn:E.
      - apply Nat.eqb_eq in E. subst j. inversion Hj; subst. exists c. split; [assumption|].
        intros y. apply (owns_same c cj y Hs).
      - exists cj. auto. }
    destruct (Hfix _ _ Ha) as [a0 [Ha0 Hoa0]]. destruct (Hfix _ _ Hb) as [b0 [Hb0 Hob0]].
    eapply Gu; eauto.
Qed.

Definition guard_static (s : state) (l : label) : bool := label_static (st_cs s) l.

Lemma guard_static_c : forall s l i c, guard_static s l = true -> label_ctrl l = Some i ->
  nth_error (st_cs s) i = Some c -> static_c c l.
Proof.
  unfold guard_static, label_static, static_c. intros s l i c G Hl Hc.
  destruct l; simpl in Hl; inversion Hl; subst; try exact Logic.I;
    rewrite Hc in G; apply Z.eqb_eq in G; now symmetry.
Qed.

Lemma ginv_step : forall s l s' evs out, ginv s -> guard_static s l = true ->
  step s l = (s', evs, out) -> ginv s'.
Proof.
  intros s l s' evs out I G H. apply step_shape in H. destruct H.
  - now subst.
  - subst s'. destruct (g_c s I _ _ H0) as [Hc Ha].
    pose proof (guard_static_c _ _ _ _ G H H0) as Hst.
    destruct (local_ainv _ _ _ _ _ _ _ _ Ha Hst H1) as [Hs [Ha' Hout]].
    eapply ginv_update; eauto. eapply cinv_local; eauto.
  - subst s'. destruct (g_c s I _ _ H2) as [Hc Ha].
    destruct (message_ainv _ _ _ _ _ _ _ _ Ha H3) as [Hs [Ha' Hout]].
    eapply ginv_update; eauto; [eapply cinv_message; eauto | intros x; apply remove_nth_in].
  - subst s'. destruct I as [Gc Gn Gu]. constructor; simpl; auto.
    intros sr d x Hin. apply remove_nth_in in Hin. exact (Gn _ _ _ Hin).
Qed.

Lemma run_state_cons : forall s l ls, run_state s (l :: ls) = run_state (fst (fst (step s l))) ls.
Proof.
  unfold run_state. intros s l ls. simpl. destruct (step s l) as [[s1 e] o]. simpl.
  destruct (run s1 ls). reflexivity.
Qed.

Lemma ginv_run : forall ls s, ginv s -> run_ok guard_static s ls = true -> ginv (run_state s ls).
Proof.
  induction ls as [|l ls IH]; intros s I H.
  - exact I.
  - rewrite run_state_cons. simpl in H. apply andb_true_iff in H. destruct H as [G H].
    apply IH; [|exact H]. destruct (step s l) as [[s1 e] o] eqn:Hs. simpl. eapply ginv_step; eauto.
Qed.

(* initial states: configurations whose addresses are pairwise distinct *)
Definition cfg_addrs (cfg : list (Z * Z * bool)) : list Z :=
  flat_map (fun '(p, r, _) => [p; r]) cfg.

Definition cfg_ok (cfg : list (Z * Z * bool)) : bool := zs_nodup (cfg_addrs cfg).

Lemma zs_nodup_NoDup : forall l, zs_nodup l = true -> NoDup l.
Proof.
  induction l as [|x l IH]; simpl; intros H; [constructor|].
  apply andb_true_iff in H. destruct H as [H1 H2]. constructor; [|auto].
  intro Hin. apply zmem_in in Hin. rewrite Hin in H1. discriminate.
Qed.

Lemma nodup_app_disjoint : forall (l1 l2 : list Z) x, NoDup (l1 ++ l2) -> In x l1 -> In x l2 -> False.
Proof.
  induction l1 as [|y l1 IH]; simpl; intros l2 x H H1 H2; [contradiction|].
  inversion H as [|? ? Hni Hnd]; subst. destruct H1 as [->|H1].
  - apply Hni. apply in_or_app. now right.
  - eauto.
Qed.

Lemma cfg_unique : forall cfg, NoDup (cfg_addrs cfg) ->
  forall i j pi ri xi pj rj xj a,
    nth_error cfg i = Some (pi, ri, xi) -> nth_error cfg j = Some (pj, rj, xj) ->
    (a = pi \/ a = ri) -> (a = pj \/ a = rj) -> i = j.
Proof.
  induction cfg as [|[[p r] x] cfg IH]; intros Hnd i j pi ri xi pj rj xj a Hi Hj Hai Haj.
  - destruct i; discriminate.
  - unfold cfg_addrs in Hnd. simpl in Hnd. fold (cfg_addrs cfg) in Hnd.
    assert (Htail : forall k pk rk xk, nth_error cfg k = Some (pk, rk, xk) -> (a = pk \/ a = rk) -> In a (cfg_addrs cfg)).
    { intros k pk rk xk Hk Hak. unfold cfg_addrs. apply in_flat_map. exists (pk, rk, xk).
      split; [eapply nth_error_In; eauto|]. simpl. destruct Hak; subst; auto. }
    inversion Hnd as [|? ? Hp Hnd1]; subst. inversion Hnd1 as [|? ? Hr Hnd2]; subst.
    destruct i as [|i], j as [|j]; simpl in Hi, Hj.
    + reflexivity.
    + inversion Hi; subst. exfalso. pose proof (Htail _ _ _ _ Hj Haj) as Hin.
      destruct Hai; subst; [apply Hp; now right | now apply Hr].
    + inversion Hj; subst. exfalso. pose proof (Htail _ _ _ _ Hi Hai) as Hin.
      destruct Haj; subst; [apply Hp; now right | now apply Hr].
    + f_equal. eapply IH; eauto.
Qed.

Lemma ginv_init : forall cfg, cfg_ok cfg = true -> ginv (init cfg).
Proof.
  intros cfg H. apply zs_nodup_NoDup in H.
  assert (Hnth : forall i c, nth_error (st_cs (init cfg)) i = Some c ->
            exists p r x, nth_error cfg i = Some (p, r, x) /\ c = new_ctrl p r x).
  { unfold init; simpl. intros i c Hc. rewrite nth_error_map in Hc.
    destruct (nth_error cfg i) as [[[p r] x]|]; [|discriminate]. simpl in Hc. inversion Hc; subst. eauto. }
  constructor.
  - intros i c Hc. destruct (Hnth _ _ Hc) as [p [r [x [_ ->]]]]. split; [apply cinv_new|].
    constructor; simpl; intros ? [].
  - simpl. intros ? ? ? [].
  - intros i j ci cj a Hi Hj Hoi Hoj.
    destruct (Hnth _ _ Hi) as [pi [ri [xi [Ei ->]]]]. destruct (Hnth _ _ Hj) as [pj [rj [xj [Ej ->]]]].
    eapply cfg_unique; eauto.
Qed.

(* Every state reachable from a configuration with pairwise distinct addresses, by any
   schedule in which no controller changes its addresses, satisfies the invariant. *)
Theorem reachable_ginv : forall cfg ls, cfg_ok cfg = true ->
  run_ok guard_static (init cfg) ls = true -> ginv (run_state (init cfg) ls).
Proof. intros. apply ginv_run; [now apply ginv_init | assumption]. Qed.

(* ================================================================== link routing *)
Lemma upd_id : forall cs i c, nth_error cs i = Some c -> upd cs i c = cs.
Proof.
  induction cs as [|c0 cs IH]; destruct i; simpl; intros c H; try discriminate.
  - now inversion H.
  - f_equal. now apply IH.
Qed.

Lemma find_index_unique : forall f cs j cj n,
  nth_error cs j = Some cj -> f cj = true ->
  (forall i ci, nth_error cs i = Some ci -> f ci = true -> i = j) ->
  find_index f cs n = Some (n + j)%nat.
Proof.
  induction cs as [|c0 cs IH]; intros j cj n Hj Hf Hu; [destruct j; discriminate|].
  simpl. destruct j as [|j]; simpl in Hj.
  - inversion Hj; subst. rewrite Hf. f_equal. lia.
  - destruct (f c0) eqn:E.
    + specialize (Hu O c0 eq_refl E). discriminate.
    + rewrite (IH j cj (S n) Hj Hf); [f_equal; lia|].
      intros i ci Hi Hfi. specialize (Hu (S i) ci Hi Hfi). now inversion Hu.
Qed.

Lemma find_index_some : forall f cs n j, find_index f cs n = Some j ->
  exists cj, nth_error cs (j - n) = Some cj /\ f cj = true /\ (n <= j)%nat.
Proof.
  induction cs as [|c0 cs IH]; simpl; intros n j H; [discriminate|].
  destruct (f c0) eqn:E.
  - inversion H; subst. exists c0. rewrite Nat.sub_diag. auto.
  - apply IH in H. destruct H as [cj [H1 [H2 H3]]]. exists cj.
    replace (j - n)%nat with (S (j - S n)) by lia. simpl. split; [assumption|]. split; [assumption | lia].
Qed.

Lemma has_self_in : forall a c, has_self a c = true <-> exists k, In k (c_le c) /\ k_self k = a.
Proof.
  unfold has_self. intros a c. rewrite existsb_exists. split; intros [k [H1 H2]]; exists k; (split; [assumption|]).
  - now apply Z.eqb_eq. - now apply Z.eqb_eq.
Qed.

(* LocalLink.find_le_controller finds the one controller that holds a connection with
   that self address: the owner of the address *)
Lemma find_le_holder : forall s j cj k, ginv s -> nth_error (st_cs s) j = Some cj ->
  In k (c_le cj) -> find_le (st_cs s) (k_self k) = Some j.
Proof.
  intros s j cj k I Hj Hk. unfold find_le.
  rewrite (find_index_unique _ _ j cj 0%nat Hj); [reflexivity | | ].
  - apply has_self_in. eauto.
  - intros i ci Hi Hf. apply has_self_in in Hf. destruct Hf as [k0 [Hk0 Hs0]].
    eapply (g_uniq s I i j ci cj (k_self k)); eauto.
    + rewrite <- Hs0. apply (ai_self ci (proj2 (g_c s I _ _ Hi))). assumption.
    + apply (ai_self cj (proj2 (g_c s I _ _ Hj))). assumption.
Qed.

Lemma find_le_is_owner : forall s a j, ginv s -> find_le (st_cs s) a = Some j ->
  exists cj, nth_error (st_cs s) j = Some cj /\ owns cj a.
Proof.
  intros s a j I H. apply find_index_some in H. destruct H as [cj [H1 [H2 _]]].
  rewrite Nat.sub_0_r in H1. exists cj. split; [assumption|].
  apply has_self_in in H2. destruct H2 as [k [Hk <-]].
  apply (ai_self cj (proj2 (g_c s I _ _ H1))). assumption.
Qed.

Lemma find_classic_owner : forall s j cj, ginv s -> nth_error (st_cs s) j = Some cj ->
  find_classic (st_cs s) (c_public cj) = Some j.
Proof.
  intros s j cj I Hj. unfold find_classic.
  rewrite (find_index_unique _ _ j cj 0%nat Hj); [reflexivity | apply Z.eqb_refl |].
  intros i ci Hi Hf. apply Z.eqb_eq in Hf.
  eapply (g_uniq s I i j ci cj (c_public cj)); eauto; [rewrite <- Hf|]; now left.
Qed.

(* handles identify one connection of a controller *)
Lemma le_handle_not_classic : forall c k h, cinv c -> In k (c_le c) -> k_handle k = h -> by_handle (c_cl c) h = None.
Proof.
  intros c k h I Hk Hh. destruct (by_handle (c_cl c) h) as [k2|] eqn:B; [|reflexivity].
  apply by_handle_in in B. destruct B as [B1 B2]. exfalso.
  pose proof (ci_le_pos c I k Hk) as Hpos.
  assert (Hne : h <> 0) by lia. pose proof (ci_distinct c I h Hne) as Hd.
  unfold handles in Hd. rewrite !count_app in Hd.
  assert (1 <= count h (map k_handle (c_le c)))%nat by (apply count_pos_in; rewrite <- Hh; now apply in_map).
  assert (1 <= count h (map k_handle (c_cl c)))%nat by (apply count_pos_in; rewrite <- B2; now apply in_map).
  lia.
Qed.

Lemma conn_eq_dec : forall k1 k2 : conn, {k1 = k2} + {k1 <> k2}.
Proof. decide equality; try apply Z.eq_dec; apply bool_dec. Qed.

Lemma by_handle_of_in : forall c k, cinv c -> In k (c_le c) -> by_handle (c_le c) (k_handle k) = Some k.
Proof.
  intros c k I Hk. destruct (by_handle (c_le c) (k_handle k)) as [k2|] eqn:B.
  - apply by_handle_in in B. destruct B as [B1 B2].
    destruct (conn_eq_dec k2 k) as [->|Hne]; [reflexivity|]. exfalso.
    pose proof (count_two _ _ _ B1 Hk Hne B2) as H2.
    pose proof (ci_le_pos c I k Hk) as Hpos.
    assert (Hnz : k_handle k2 <> 0) by lia.
    pose proof (ci_distinct c I _ Hnz) as Hd. unfold handles in Hd. rewrite !count_app in Hd. lia.
  - exfalso. eapply by_handle_none; eauto.
Qed.

(* ------------------------------------------------------------------ ACL data *)
(* A PDU handed to controller i on the handle of an LE connection e whose peer address is
   held (as self address) by controller j: exactly one message is put on the link, it goes to
   j, and it is labelled with the address the connection was made with (D06a). *)
Theorem acl_le_send : forall s i j ci cj e e' d, ginv s ->
  nth_error (st_cs s) i = Some ci -> In e (c_le ci) ->
  nth_error (st_cs s) j = Some cj -> In e' (c_le cj) -> k_self e' = k_peer e ->
  step s (LAcl i (k_handle e) d) =
    (mkState (st_cs s) (st_net s ++ [(i, j, MAcl (k_self e) true d)]),
     [(i, ECompleted (k_handle e))], [(i, j, MAcl (k_self e) true d)]).
Proof.
  intros s i j ci cj e e' d I Hi He Hj He' Hm.
  destruct (g_c s I _ _ Hi) as [Ci Ai].
  unfold step. simpl label_ctrl. cbv iota. rewrite Hi. simpl local. unfold send_acl, conn_by_handle.
  rewrite (by_handle_of_in ci e Ci He).
  rewrite (tbl_get_of_in _ _ (ci_le_keys ci Ci) He).
  rewrite <- Hm. rewrite (find_le_holder s j cj e' I Hj He').
  rewrite (upd_id _ _ _ Hi). reflexivity.
Qed.

(* Delivery of that message: the receiving controller hands the bytes to its host on the
   handle of its connection with that peer, and nothing else happens. *)
Theorem acl_le_deliver : forall s k i j cj a d e', nth_error (st_net s) k = Some (i, j, MAcl a true d) ->
  existsb (same_pair i j) (firstn k (st_net s)) = false ->
  nth_error (st_cs s) j = Some cj -> tbl_get (c_le cj) a = Some e' ->
  step s (LDeliver k) = (mkState (st_cs s) (remove_nth k (st_net s)), [(j, EAcl (k_handle e') d)], []).
Proof.
  intros s k i j cj a d e' Hk Hf Hj He. unfold step. rewrite Hk, Hf, Hj. simpl. unfold on_acl. rewrite He.
  simpl. rewrite (upd_id _ _ _ Hj), app_nil_r. reflexivity.
Qed.

(* BR/EDR: the destination is the controller whose public address is the peer address *)
Theorem acl_classic_send : forall s i j ci cj e d, ginv s ->
  nth_error (st_cs s) i = Some ci -> In e (c_cl ci) -> k_handle e <> 0 ->
  nth_error (st_cs s) j = Some cj -> c_public cj = k_peer e ->
  step s (LAcl i (k_handle e) d) =
    (mkState (st_cs s) (st_net s ++ [(i, j, MAcl (c_public ci) false d)]),
     [(i, ECompleted (k_handle e))], [(i, j, MAcl (c_public ci) false d)]).
Proof.
  intros s i j ci cj e d I Hi He Hnz Hj Hm.
  destruct (g_c s I _ _ Hi) as [Ci Ai].
  unfold step. simpl label_ctrl. cbv iota. rewrite Hi. simpl local. unfold send_acl, conn_by_handle.
  assert (Hle : by_handle (c_le ci) (k_handle e) = None).
  { destruct (by_handle (c_le ci) (k_handle e)) as [k2|] eqn:B; [|reflexivity]. exfalso.
    apply by_handle_in in B. destruct B as [B1 B2].
    pose proof (ci_distinct ci Ci _ Hnz) as Hd. unfold handles in Hd. rewrite !count_app in Hd.
    assert (1 <= count (k_handle e) (map k_handle (c_le ci)))%nat by (apply count_pos_in; rewrite <- B2; now apply in_map).
    assert (1 <= count (k_handle e) (map k_handle (c_cl ci)))%nat by (apply count_pos_in; now apply in_map).
    lia. }
  rewrite Hle.
  assert (Hcl : by_handle (c_cl ci) (k_handle e) = Some e).
  { destruct (by_handle (c_cl ci) (k_handle e)) as [k2|] eqn:B; [|exfalso; eapply by_handle_none; eauto].
    apply by_handle_in in B. destruct B as [B1 B2].
    destruct (conn_eq_dec k2 e) as [->|Hne]; [reflexivity|]. exfalso.
    pose proof (count_two _ _ _ B1 He Hne B2) as H2. rewrite B2 in H2.
    pose proof (ci_distinct ci Ci _ Hnz) as Hd. unfold handles in Hd. rewrite !count_app in Hd. lia. }
  rewrite Hcl. rewrite <- Hm. rewrite (find_classic_owner s j cj I Hj).
  rewrite (upd_id _ _ _ Hi). reflexivity.
Qed.

Theorem acl_classic_deliver : forall s k i j cj a d e', nth_error (st_net s) k = Some (i, j, MAcl a false d) ->
  existsb (same_pair i j) (firstn k (st_net s)) = false ->
  nth_error (st_cs s) j = Some cj -> tbl_get (c_cl cj) a = Some e' ->
  step s (LDeliver k) = (mkState (st_cs s) (remove_nth k (st_net s)), [(j, EAcl (k_handle e') d)], []).
Proof.
  intros s k i j cj a d e' Hk Hf Hj He. unfold step. rewrite Hk, Hf, Hj. simpl. unfold on_acl. rewrite He.
  simpl. rewrite (upd_id _ _ _ Hj), app_nil_r. reflexivity.
Qed.

Ltac break_match H :=
  repeat match type of H with context [match ?x with _ => _ end] => destruct x eqn:? end.
Ltac break_all :=
  repeat match goal with
  | H : context [match ?x with _ => _ end] |- _ => destruct x eqn:?
  end.
Ltac inv_pairs :=
  repeat match goal with
  | H : (_, _) = (_, _) |- _ => inversion H; subst; clear H
  end.
Ltac no_ev Hin :=
  simpl in Hin; repeat (destruct Hin as [Hin|Hin]; [try discriminate|]); try contradiction.
Ltac unfold_handlers H :=
  unfold tick, ext_tick, send_acl, conn_by_handle, disconnect, cl_connect, cl_accept, classic_complete,
         on_adv, create_le_connection, on_connect_ind, on_terminate, on_acl, on_lmp_conn_req,
         on_lmp_accepted, on_lmp_detach, classic_complete, sco_setup, sco_accept, sco_complete, set_cig,
         on_lmp_esco_req, on_lmp_accepted_esco, on_lmp_remove_sco in H;
  unfold sco_complete, classic_complete, refuse in H.

Lemma local_no_acl : forall cs n i c l c' e o h d, local cs n i c l = (c', e, o) -> ~ In (EAcl h d) e.
Proof.
  intros cs n i c l c' e o h d H Hin.
  destruct l; simpl in H; unfold_handlers H; break_all; inv_pairs; no_ev Hin.
Qed.

Lemma message_acl : forall cs n j c m c' e o h d, on_message cs n j c m = (c', e, o) -> In (EAcl h d) e ->
  exists a le, m = MAcl a le d.
Proof.
  intros cs n j c m c' e o h d H Hin.
  destruct m; simpl in H; unfold_handlers H; break_all; inv_pairs; no_ev Hin.
  all: inversion Hin; subst; eauto.
Qed.

(* nobody but the addressed controller is handed ACL data in a step, and only a delivered
   ACL message produces it *)
Theorem acl_only_from_delivery : forall s l s' evs out j h d, step s l = (s', evs, out) ->
  In (j, EAcl h d) evs ->
  exists k i a le, l = LDeliver k /\ nth_error (st_net s) k = Some (i, j, MAcl a le d).
Proof.
  intros s l s' evs out j h d H Hin. apply step_shape in H. destruct H; subst; try contradiction.
  - exfalso. unfold tag in Hin. apply in_map_iff in Hin. destruct Hin as [x [Hx Hin]]. inversion Hx; subst.
    eapply local_no_acl; eauto.
  - unfold tag in Hin. apply in_map_iff in Hin. destruct Hin as [x [Hx Hin]]. inversion Hx; subst.
    destruct (message_acl _ _ _ _ _ _ _ _ _ _ H3 Hin) as [a [le ->]]. eauto 8.
Qed.

(* ------------------------------------------------------------------ connection establishment *)
(* A ConnectInd(initiator a, advertiser b) delivered to a controller that does not own b
   changes nothing and tells its host nothing.  A controller that reports a connection for
   it owns b, files the connection under the initiator's address a with own address b and
   a freshly allocated handle, in the peripheral role.  Nothing is sent. *)
Theorem connect_ind_effect : forall cs n j c a b c' e o, ainv c ->
  on_message cs n j c (MConnInd a b) = (c', e, o) ->
  (~ owns c b -> c' = c /\ e = [] /\ o = []) /\
  (forall h ce p, In (ELeConn h ce p) e ->
     ce = false /\ p = a /\ owns c b /\ alloc c = Some h /\ o = [] /\
     tbl_get (c_le c') a = Some (mkConn a b h false)) /\
  (o = [] \/ (c' = c /\ e = [] /\ owns c b /\ exists i, find_le cs a = Some i /\ o = [(j, i, MTerm b 62)])).
Proof.
  intros cs n j c a b c' e o I H. simpl in H. unfold on_connect_ind in H.
  destruct (andb (leg_address c =? b) (c_leg_enabled c)) eqn:E.
  - apply andb_true_iff in E. destruct E as [E _]. apply Z.eqb_eq in E.
    assert (Ho : owns c b) by (rewrite <- E; unfold leg_address; destruct (c_leg_pub c); [now left | now right]).
    destruct (alloc c) as [h|] eqn:Ha; inversion H; subst; (split; [intros Hn; contradiction|]); (split; [|now left]).
    + intros h0 ce p [Hin|[]]. inversion Hin; subst. repeat split; auto. simpl.
      apply (tbl_get_set_same (c_le c) (mkConn p (leg_address c) h0 false)).
    + intros h0 ce p [Hin|[]]. discriminate.
  - destruct (find_set c (c_sets c) b) as [s0|] eqn:F.
    + apply find_set_in in F. destruct F as [F1 [F2 F3]].
      assert (Ho : owns c b) by (eapply set_address_owns; eauto).
      destruct (alloc c) as [h|] eqn:Ha; inversion H; subst; (split; [intros Hn; contradiction|]); (split; [|now left]).
      * intros h0 ce p [Hin|[Hin|[]]]; [|discriminate]. inversion Hin; subst. repeat split; auto. simpl.
        apply (tbl_get_set_same (c_le c) (mkConn p b h0 false)).
      * intros h0 ce p [Hin|[]]. discriminate.
    + inversion H; subst. unfold refuse.
      destruct (own_address c' b) eqn:Eo.
      * pose proof (own_address_owns _ _ I Eo) as Ho.
        split; [intros Hn; contradiction|]. split; [intros h ce p []|].
        destruct (find_le cs a) as [i|]; [right; repeat split; eauto | now left].
      * split; [auto|]. split; [intros h ce p []| now left].
Qed.

Definition is_report (e : ev) : bool := match e with EAdvReport _ _ _ _ => true | _ => false end.

(* An advertisement (advertiser address b, data, scan response) delivered to a controller:
   - a scanning controller reports exactly the advertising data and, when scanning
     actively, exactly the scan-response data (D06b); a controller that does not scan
     reports nothing;
   - a central connection is reported only when a connection to b was pending; it is to b,
     under the own address the host asked for, with a fresh handle, and the ConnectInd is
     broadcast; otherwise nothing is sent and the LE table is unchanged. *)
Theorem adv_effect : forall cs n i c b data srsp c' e o,
  on_message cs n i c (MAdv b data srsp) = (c', e, o) ->
  filter is_report e =
    (if c_scan c then EAdvReport (c_extrep c) false b data ::
                      (if c_active c then [EAdvReport (c_extrep c) true b srsp] else []) else []) /\
  (forall h ce p, In (ELeConn h ce p) e ->
     ce = true /\ p = b /\ exists own, c_pending c = Some (b, own) /\ tbl_get (c_le c) b = None /\
       alloc c = Some h /\
       tbl_get (c_le c') b = Some (mkConn b (if own then c_public c else c_random c) h true) /\
       o = broadcast n i (MConnInd (if own then c_public c else c_random c) b) /\ c_pending c' = None) /\
  ((forall h ce p, ~ In (ELeConn h ce p) e) -> o = [] /\ c_le c' = c_le c).
Proof.
  intros cs n i c b data srsp c' e o H. simpl in H. unfold on_adv, create_le_connection in H.
  set (reports := if c_scan c then EAdvReport (c_extrep c) false b data ::
                      (if c_active c then [EAdvReport (c_extrep c) true b srsp] else []) else []) in *.
  assert (Hr : filter is_report reports = reports).
  { unfold reports. destruct (c_scan c); [|reflexivity]. destruct (c_active c); reflexivity. }
  assert (Hnr : forall h ce p, ~ In (ELeConn h ce p) reports).
  { unfold reports. intros h ce p Hin. destruct (c_scan c); [|contradiction].
    destruct Hin as [Hin|Hin]; [discriminate|]. destruct (c_active c); [destruct Hin as [Hin|[]]; discriminate | contradiction]. }
  destruct (c_pending c) as [[peer own]|] eqn:Hp.
  2:{ inversion H; subst. split; [assumption|]. split; [intros h ce p Hin; exfalso; eapply Hnr; eauto | auto]. }
  destruct (peer =? b) eqn:Epb.
  2:{ inversion H; subst. split; [assumption|]. split; [intros h ce p Hin; exfalso; eapply Hnr; eauto | auto]. }
  apply Z.eqb_eq in Epb. subst peer.
  destruct (tbl_get (c_le c) b) eqn:Hg.
  { inversion H; subst. rewrite app_nil_r. split; [assumption|].
    split; [intros h ce p Hin; exfalso; eapply Hnr; eauto | auto]. }
  destruct (alloc c) as [h|] eqn:Ha; inversion H; subst.
  - split; [rewrite filter_app, Hr; simpl; now rewrite app_nil_r|]. split.
    + intros h0 ce p Hin. apply in_app_or in Hin. destruct Hin as [Hin|[Hin|[]]]; [exfalso; eapply Hnr; eauto|].
      inversion Hin; subst. split; [reflexivity|]. split; [reflexivity|]. exists own. repeat split; auto. simpl.
      apply (tbl_get_set_same (c_le c) (mkConn p (if own then c_public c else c_random c) h0 true)).
    + intros Hno. exfalso. apply (Hno h true b). apply in_or_app. right. now left.
  - split; [rewrite filter_app, Hr; simpl; now rewrite app_nil_r|]. split.
    + intros h0 ce p Hin. apply in_app_or in Hin. destruct Hin as [Hin|[Hin|[]]]; [exfalso; eapply Hnr; eauto | discriminate].
    + auto.
Qed.

(* LocalLink.send_advertising_pdu reaches every other controller exactly once *)
Lemma broadcast_spec : forall n i m s d x,
  In (s, d, x) (broadcast n i m) <-> s = i /\ (d < n)%nat /\ d <> i /\ x = m.
Proof.
  unfold broadcast. intros n i m s d x. rewrite in_map_iff. split.
  - intros [y [Hy Hin]]. inversion Hy; subst. apply filter_In in Hin. destruct Hin as [Hin Hne].
    apply in_seq in Hin. apply negb_true_iff, Nat.eqb_neq in Hne. repeat split; auto; lia.
  - intros [-> [Hd [Hne ->]]]. exists d. split; [reflexivity|]. apply filter_In. split.
    + apply in_seq. lia.
    + apply negb_true_iff, Nat.eqb_neq. assumption.
Qed.

Lemma broadcast_nodup : forall n i m, NoDup (broadcast n i m).
Proof.
  unfold broadcast. intros n i m. apply Injective_map_NoDup.
  - intros x y H. now inversion H.
  - apply NoDup_filter. apply seq_NoDup.
Qed.

(* an advertising event carries the advertiser's current address, data and scan response *)
Theorem tick_effect : forall n i c, c_leg_enabled c = true -> c_leg_advind c = true ->
  tick n i c = (c, [], broadcast n i (MAdv (leg_address c) (c_leg_data c) (c_leg_srsp c))).
Proof. intros n i c H1 H2. unfold tick. now rewrite H1, H2. Qed.

Theorem ext_tick_effect : forall n i c h s a, set_get (c_sets c) h = Some s -> a_enabled s = true ->
  set_address c s = Some a -> ext_tick n i c h = (c, [], broadcast n i (MAdv a (a_data s) (a_srsp s))).
Proof. intros n i c h s a H1 H2 H3. unfold ext_tick. now rewrite H1, H2, H3. Qed.

(* ------------------------------------------------------------------ disconnection *)
Theorem disconnect_le : forall s i j ci cj e e' r, ginv s ->
  nth_error (st_cs s) i = Some ci -> In e (c_le ci) ->
  nth_error (st_cs s) j = Some cj -> In e' (c_le cj) -> k_self e' = k_peer e ->
  step s (LDisconnect i (k_handle e) r) =
    (mkState (upd (st_cs s) i (set_le ci (tbl_del (c_le ci) (k_peer e))))
             (st_net s ++ [(i, j, MTerm (k_self e) r)]),
     [(i, EStatus 0); (i, EDisc (k_handle e) r)], [(i, j, MTerm (k_self e) r)]).
Proof.
  intros s i j ci cj e e' r I Hi He Hj He' Hm.
  destruct (g_c s I _ _ Hi) as [Ci Ai].
  unfold step. simpl label_ctrl. cbv iota. rewrite Hi. simpl local. unfold disconnect, conn_by_handle.
  rewrite (le_handle_not_classic ci e _ Ci He eq_refl).
  rewrite (by_handle_of_in ci e Ci He).
  rewrite <- Hm. rewrite (find_le_holder s j cj e' I Hj He'). rewrite Hm. reflexivity.
Qed.

Theorem terminate_deliver : forall s k i j cj a r e', nth_error (st_net s) k = Some (i, j, MTerm a r) ->
  existsb (same_pair i j) (firstn k (st_net s)) = false ->
  nth_error (st_cs s) j = Some cj -> tbl_get (c_le cj) a = Some e' ->
  step s (LDeliver k) =
    (mkState (upd (st_cs s) j (set_le cj (tbl_del (c_le cj) a))) (remove_nth k (st_net s)),
     [(j, EDisc (k_handle e') r)], []).
Proof.
  intros s k i j cj a r e' Hk Hf Hj He. unfold step. rewrite Hk, Hf, Hj. simpl. unfold on_terminate. rewrite He.
  simpl. rewrite app_nil_r. reflexivity.
Qed.

Theorem disconnect_classic : forall s i j ci cj e r, ginv s ->
  nth_error (st_cs s) i = Some ci -> In e (c_cl ci) -> k_handle e <> 0 ->
  nth_error (st_cs s) j = Some cj -> c_public cj = k_peer e ->
  step s (LDisconnect i (k_handle e) r) =
    (mkState (upd (st_cs s) i (set_cl ci (tbl_del (c_cl ci) (k_peer e))))
             (st_net s ++ [(i, j, MLmpDetach (c_public ci) r)]),
     [(i, EStatus 0); (i, EDisc (k_handle e) r)], [(i, j, MLmpDetach (c_public ci) r)]).
Proof.
  intros s i j ci cj e r I Hi He Hnz Hj Hm.
  destruct (g_c s I _ _ Hi) as [Ci Ai].
  unfold step. simpl label_ctrl. cbv iota. rewrite Hi. simpl local. unfold disconnect, conn_by_handle.
  assert (Hle0 : by_handle (c_le ci) (k_handle e) = None).
  { destruct (by_handle (c_le ci) (k_handle e)) as [k2|] eqn:B; [|reflexivity]. exfalso.
    apply by_handle_in in B. destruct B as [B1 B2].
    pose proof (ci_distinct ci Ci _ Hnz) as Hd. unfold handles in Hd. rewrite !count_app in Hd.
    assert (1 <= count (k_handle e) (map k_handle (c_le ci)))%nat by (apply count_pos_in; rewrite <- B2; now apply in_map).
    assert (1 <= count (k_handle e) (map k_handle (c_cl ci)))%nat by (apply count_pos_in; now apply in_map).
    lia. }
  rewrite Hle0.
  assert (Hcl : by_handle (c_cl ci) (k_handle e) = Some e).
  { destruct (by_handle (c_cl ci) (k_handle e)) as [k2|] eqn:B; [|exfalso; eapply by_handle_none; eauto].
    apply by_handle_in in B. destruct B as [B1 B2].
    destruct (conn_eq_dec k2 e) as [->|Hne]; [reflexivity|]. exfalso.
    pose proof (count_two _ _ _ B1 He Hne B2) as H2. rewrite B2 in H2.
    pose proof (ci_distinct ci Ci _ Hnz) as Hd. unfold handles in Hd. rewrite !count_app in Hd. lia. }
  rewrite Hcl. rewrite <- Hm. rewrite (find_classic_owner s j cj I Hj). rewrite Hm. reflexivity.
Qed.

Theorem detach_deliver : forall s k i j cj a r e', nth_error (st_net s) k = Some (i, j, MLmpDetach a r) ->
  existsb (same_pair i j) (firstn k (st_net s)) = false ->
  nth_error (st_cs s) j = Some cj -> tbl_get (c_cl cj) a = Some e' ->
  step s (LDeliver k) =
    (mkState (upd (st_cs s) j (set_cl cj (tbl_del (c_cl cj) a))) (remove_nth k (st_net s)),
     [(j, EDisc (k_handle e') 19)], []).
Proof.
  intros s k i j cj a r e' Hk Hf Hj He. unfold step. rewrite Hk, Hf, Hj. simpl. unfold on_lmp_detach. rewrite He.
  simpl. rewrite app_nil_r. reflexivity.
Qed.

(* ------------------------------------------------------------------ SCO / eSCO links *)
(* a non-zero handle belongs to exactly one link of the controller, whatever its kind *)
Lemma sco_handle_owner : forall c k, cinv c -> In k (c_sco c) -> k_handle k <> 0 ->
  by_handle (c_le c) (k_handle k) = None /\ by_handle (c_cl c) (k_handle k) = None /\
  by_handle (c_sco c) (k_handle k) = Some k.
Proof.
  intros c k I Hk Hnz. pose proof (ci_distinct c I _ Hnz) as Hd. unfold handles in Hd. rewrite !count_app in Hd.
  assert (Hs : (1 <= count (k_handle k) (map k_handle (c_sco c)))%nat) by (apply count_pos_in; now apply in_map).
  repeat split.
  - destruct (by_handle (c_le c) (k_handle k)) as [k2|] eqn:B; [|reflexivity]. exfalso.
    apply by_handle_in in B. destruct B as [B1 B2].
    assert (1 <= count (k_handle k) (map k_handle (c_le c)))%nat by (apply count_pos_in; rewrite <- B2; now apply in_map). lia.
  - destruct (by_handle (c_cl c) (k_handle k)) as [k2|] eqn:B; [|reflexivity]. exfalso.
    apply by_handle_in in B. destruct B as [B1 B2].
    assert (1 <= count (k_handle k) (map k_handle (c_cl c)))%nat by (apply count_pos_in; rewrite <- B2; now apply in_map). lia.
  - destruct (by_handle (c_sco c) (k_handle k)) as [k2|] eqn:B; [|exfalso; eapply by_handle_none; eauto].
    apply by_handle_in in B. destruct B as [B1 B2].
    destruct (conn_eq_dec k2 k) as [->|Hne]; [reflexivity|]. exfalso.
    pose proof (count_two _ _ _ B1 Hk Hne B2) as H2. rewrite B2 in H2. lia.
Qed.

(* Disconnect on the handle of an established SCO / eSCO link concludes that link and no
   other: the local host is told, the entry leaves sco_links (the ACL and LE tables and the CIS
   links are untouched), one LMP remove request goes to the peer's controller. *)
Theorem disconnect_sco : forall s i j ci cj e r, ginv s ->
  nth_error (st_cs s) i = Some ci -> In e (c_sco ci) -> k_handle e <> 0 ->
  nth_error (st_cs s) j = Some cj -> c_public cj = k_peer e ->
  step s (LDisconnect i (k_handle e) r) =
    (mkState (upd (st_cs s) i (set_sco ci (tbl_del (c_sco ci) (k_peer e))))
             (st_net s ++ [(i, j, MLmpRemoveSco (c_public ci) r)]),
     [(i, EStatus 0); (i, EDisc (k_handle e) r)], [(i, j, MLmpRemoveSco (c_public ci) r)]).
Proof.
  intros s i j ci cj e r I Hi He Hnz Hj Hm.
  destruct (g_c s I _ _ Hi) as [Ci Ai].
  destruct (sco_handle_owner ci e Ci He Hnz) as [H1 [H2 H3]].
  unfold step. simpl label_ctrl. cbv iota. rewrite Hi. simpl local. unfold disconnect, conn_by_handle.
  rewrite H1, H2, H3. rewrite <- Hm. rewrite (find_classic_owner s j cj I Hj). rewrite Hm. reflexivity.
Qed.

Theorem remove_sco_deliver : forall s k i j cj a r e', nth_error (st_net s) k = Some (i, j, MLmpRemoveSco a r) ->
  existsb (same_pair i j) (firstn k (st_net s)) = false ->
  nth_error (st_cs s) j = Some cj -> tbl_get (c_sco cj) a = Some e' ->
  step s (LDeliver k) =
    (mkState (upd (st_cs s) j (set_sco cj (tbl_del (c_sco cj) a))) (remove_nth k (st_net s)),
     [(j, EDisc (k_handle e') r)], []).
Proof.
  intros s k i j cj a r e' Hk Hf Hj He. unfold step. rewrite Hk, Hf, Hj. simpl. unfold on_lmp_remove_sco. rewrite He.
  simpl. rewrite app_nil_r. reflexivity.
Qed.

(* deleting the entry of k removes k and nothing else *)
Lemma tbl_del_only : forall t k x, keys_nodup t -> In k t ->
  (In x (tbl_del t (k_peer k)) <-> In x t /\ x <> k).
Proof.
  unfold keys_nodup. induction t as [|k0 t IH]; simpl; intros k x Hnd Hk; [contradiction|].
  inversion Hnd as [|? ? Hni Hnd']; subst.
  destruct (k_peer k0 =? k_peer k) eqn:E.
  - apply Z.eqb_eq in E. destruct Hk as [->|Hk].
    + split.
      * intros Hx. split; [now right|]. intros ->. apply Hni. now apply in_map.
      * intros [[->|Hx] Hne]; [congruence | assumption].
    + exfalso. apply Hni. rewrite E. now apply in_map.
  - apply Z.eqb_neq in E. destruct Hk as [->|Hk]; [congruence|]. simpl. rewrite (IH k x Hnd' Hk).
    split.
    + intros [->|[Hx Hne]]; [split; [now left | intros ->; congruence] | split; [now right | assumption]].
    + intros [[->|Hx] Hne]; [now left | right; auto].
Qed.

(* ------------------------------------------------------------------ the caller is handed that connection *)
Lemma local_no_leconn : forall cs n i c l c' e o h ce p, local cs n i c l = (c', e, o) -> ~ In (ELeConn h ce p) e.
Proof.
  intros cs n i c l c' e o h ce p H Hin.
  destruct l; simpl in H; unfold_handlers H; break_all; inv_pairs; no_ev Hin.
Qed.

Lemma message_central_conn : forall cs n j c m c' e o h p, on_message cs n j c m = (c', e, o) ->
  In (ELeConn h true p) e -> exists d sr, m = MAdv p d sr.
Proof.
  intros cs n j c m c' e o h p H Hin.
  destruct m; simpl in H.
  - destruct (adv_effect cs _ _ _ _ _ _ _ _ _ H) as [_ [Hc _]]. destruct (Hc _ _ _ Hin) as [_ [-> _]]. eauto.
  - exfalso. unfold_handlers H; break_all; inv_pairs; no_ev Hin.
  - exfalso. unfold_handlers H; break_all; inv_pairs; no_ev Hin.
  - exfalso. unfold_handlers H; break_all; inv_pairs; no_ev Hin.
  - exfalso. unfold_handlers H; break_all; inv_pairs; no_ev Hin.
  - exfalso. unfold_handlers H; break_all; inv_pairs; no_ev Hin.
  - exfalso. unfold_handlers H; break_all; inv_pairs; no_ev Hin.
  - exfalso. unfold_handlers H; break_all; inv_pairs; no_ev Hin.
  - exfalso. unfold_handlers H; break_all; inv_pairs; no_ev Hin.
  - exfalso. unfold_handlers H; break_all; inv_pairs; no_ev Hin.
Qed.

(* Whatever event completes the pending LE connect() of device i (Device.connect_le's matching
   rule) is the connection to the address that connect() asked for: it is reported only while
   that very connection is pending in the controller, it is filed under that address with the
   own address asked for, and it ends the pending state, so no second event can complete the
   same call.  A connection accepted as a peripheral while the call is pending never matches. *)
Theorem connect_le_handed : forall s l s' evs out i e, step s l = (s', evs, out) ->
  In (i, e) evs -> completes_le e = true ->
  exists h t own c c', e = ELeConn h true t /\
    nth_error (st_cs s) i = Some c /\ c_pending c = Some (t, own) /\
    nth_error (st_cs s') i = Some c' /\ c_pending c' = None /\
    tbl_get (c_le c') t = Some (mkConn t (if own then c_public c else c_random c) h true).
Proof.
  intros s l s' evs out i e H Hin Hc.
  destruct e; try discriminate. destruct central; [|discriminate]. clear Hc.
  apply step_shape in H. destruct H; subst; try contradiction.
  - exfalso. unfold tag in Hin. apply in_map_iff in Hin. destruct Hin as [x [Hx Hin]]. inversion Hx; subst.
    eapply local_no_leconn; eauto.
  - unfold tag in Hin. apply in_map_iff in Hin. destruct Hin as [x [Hx Hin]]. inversion Hx; subst.
    destruct (message_central_conn _ _ _ _ _ _ _ _ _ _ H3 Hin) as [d [sr ->]].
    destruct (adv_effect _ _ _ _ _ _ _ _ _ _ H3) as [_ [Hce _]].
    destruct (Hce _ _ _ Hin) as [_ [_ [own [Hp [_ [_ [Hg [_ Hn]]]]]]]].
    exists handle, peer, own, c, c'. repeat split; auto.
    simpl. apply nth_upd_same. eapply nth_error_lt; eauto.
Qed.

Lemma completes_le_not_peripheral : forall h p, completes_le (ELeConn h false p) = false.
Proof. reflexivity. Qed.

(* BR/EDR: the matching rule compares the peer address; the connection handed over is the
   entry of the classic table filed under that address *)
Lemma local_clconn : forall cs n i c l c' e o h p, local cs n i c l = (c', e, o) -> In (EClConn h p) e ->
  exists k, tbl_get (c_cl c') p = Some k /\ k_handle k = h.
Proof.
  intros cs n i c l c' e o h p H Hin.
  destruct l; simpl in H; unfold_handlers H; break_all; inv_pairs; no_ev Hin.
  all: inversion Hin; subst; eexists; split; [apply tbl_get_set_same | reflexivity].
Qed.

Lemma message_clconn : forall cs n j c m c' e o h p, on_message cs n j c m = (c', e, o) -> In (EClConn h p) e ->
  exists k, tbl_get (c_cl c') p = Some k /\ k_handle k = h.
Proof.
  intros cs n j c m c' e o h p H Hin.
  destruct m; simpl in H; unfold_handlers H; break_all; inv_pairs; no_ev Hin.
  all: inversion Hin; subst; eexists; split; [apply tbl_get_set_same | reflexivity].
Qed.

Theorem connect_classic_handed : forall s l s' evs out i e t, step s l = (s', evs, out) ->
  In (i, e) evs -> completes_classic t e = true ->
  exists h c' k, e = EClConn h t /\ nth_error (st_cs s') i = Some c' /\
    tbl_get (c_cl c') t = Some k /\ k_handle k = h.
Proof.
  intros s l s' evs out i e t H Hin Hc.
  destruct e; try discriminate. simpl in Hc. apply Z.eqb_eq in Hc. subst peer.
  apply step_shape in H. destruct H; subst; try contradiction.
  - unfold tag in Hin. apply in_map_iff in Hin. destruct Hin as [x [Hx Hin]]. inversion Hx; subst.
    destruct (local_clconn _ _ _ _ _ _ _ _ _ _ H1 Hin) as [k [Hk Hh]].
    exists handle, c', k. repeat split; auto. simpl. apply nth_upd_same. eapply nth_error_lt; eauto.
  - unfold tag in Hin. apply in_map_iff in Hin. destruct Hin as [x [Hx Hin]]. inversion Hx; subst.
    destruct (message_clconn _ _ _ _ _ _ _ _ _ _ H3 Hin) as [k0 [Hk Hh]].
    exists handle, c', k0. repeat split; auto. simpl. apply nth_upd_same. eapply nth_error_lt; eauto.
Qed.

(* ================================================================== the link is FIFO per pair *)
Definition chan (a b : nat) (net : list packet) : list packet := filter (same_pair a b) net.

Lemma filter_remove_first : forall {A} (f : A -> bool) k l p,
  nth_error l k = Some p -> f p = true -> existsb f (firstn k l) = false ->
  filter f l = p :: filter f (remove_nth k l).
Proof.
  induction k as [|k IH]; destruct l as [|x l]; simpl; intros p Hn Hf He; try discriminate.
  - inversion Hn; subst. now rewrite Hf.
  - apply orb_false_iff in He. destruct He as [Hx He]. rewrite Hx. now apply IH.
Qed.

Lemma filter_remove_other : forall {A} (f : A -> bool) k l p,
  nth_error l k = Some p -> f p = false -> filter f (remove_nth k l) = filter f l.
Proof.
  induction k as [|k IH]; destruct l as [|x l]; simpl; intros p Hn Hf; try discriminate.
  - inversion Hn; subst. now rewrite Hf.
  - destruct (f x); [f_equal|]; eapply IH; eauto.
Qed.

Lemma same_pair_eq : forall a b s d m, same_pair a b (s, d, m) = true <-> a = s /\ b = d.
Proof.
  intros. simpl. rewrite andb_true_iff, !Nat.eqb_eq. tauto.
Qed.

Lemma existsb_ext_false : forall {A} (f g : A -> bool) l, (forall x, g x = true -> f x = true) ->
  existsb f l = false -> existsb g l = false.
Proof.
  induction l as [|x l IH]; simpl; intros H He; [reflexivity|].
  apply orb_false_iff in He. destruct He as [Hx He]. rewrite (IH H He), orb_false_r.
  destruct (g x) eqn:G; [rewrite (H _ G) in Hx; discriminate | reflexivity].
Qed.

(* the message (if any) that a label takes off the link *)
Definition taken (s : state) (l : label) : list packet :=
  match l with
  | LDeliver k =>
      match nth_error (st_net s) k with
      | Some (src, dst, m) =>
          if existsb (same_pair src dst) (firstn k (st_net s)) then [] else [(src, dst, m)]
      | None => []
      end
  | _ => []
  end.

(* One step, seen on the channel from a to b: the message taken (if it is of this pair) was
   the oldest one of the pair, and what the step sends is appended behind everything else. *)
Theorem link_fifo_step : forall s l s' evs out a b, step s l = (s', evs, out) ->
  chan a b (taken s l) ++ chan a b (st_net s') = chan a b (st_net s) ++ chan a b out.
Proof.
  intros s l s' evs out a b H.
  assert (Hloc : (forall k, l <> LDeliver k) -> chan a b (taken s l) ++ chan a b (st_net s') = chan a b (st_net s) ++ chan a b out).
  { intros Hl. assert (Ht : taken s l = []) by (destruct l; try reflexivity; exfalso; eapply Hl; reflexivity).
    rewrite Ht. apply step_shape in H. destruct H; subst; try (exfalso; eapply Hl; reflexivity).
    - unfold chan. simpl. now rewrite app_nil_r.
    - unfold chan. simpl. now rewrite filter_app. }
  destruct l; try (apply Hloc; intros; discriminate). clear Hloc.
  unfold step in H. unfold taken.
  destruct (nth_error (st_net s) k) as [[[src dst] m]|] eqn:Hk.
  2:{ inversion H; subst. unfold chan. simpl. now rewrite app_nil_r. }
  destruct (existsb (same_pair src dst) (firstn k (st_net s))) eqn:Hb.
  { inversion H; subst. unfold chan. simpl. now rewrite app_nil_r. }
  assert (Hrem : chan a b [(src, dst, m)] ++ chan a b (remove_nth k (st_net s)) = chan a b (st_net s)).
  { unfold chan.
    change (filter (same_pair a b) [(src, dst, m)])
      with (if same_pair a b (src, dst, m) then [(src, dst, m)] else []).
    destruct (same_pair a b (src, dst, m)) eqn:E.
    - apply same_pair_eq in E. destruct E as [-> ->].
      rewrite (filter_remove_first _ _ _ _ Hk); [reflexivity | apply same_pair_eq; auto | assumption].
    - simpl. now rewrite (filter_remove_other _ _ _ _ Hk E). }
  destruct (nth_error (st_cs s) dst) as [c|].
  - destruct (on_message (st_cs s) (length (st_cs s)) dst c m) as [[c' e] o]. inversion H; subst. simpl st_net.
    unfold chan in *. rewrite filter_app, app_assoc, Hrem. reflexivity.
  - inversion H; subst. simpl st_net. unfold chan in *. simpl. now rewrite app_nil_r.
Qed.

(* Whole runs: per ordered pair of controllers, the messages delivered so far followed by
   those still in flight are exactly those that were in flight at the start followed by
   those sent since, in that order: nothing is lost, duplicated, reordered or invented. *)
Fixpoint run_taken (s : state) (ls : list label) : list packet :=
  match ls with
  | [] => []
  | l :: ls' => taken s l ++ run_taken (fst (fst (step s l))) ls'
  end.

Fixpoint run_sent (s : state) (ls : list label) : list packet :=
  match ls with
  | [] => []
  | l :: ls' => snd (step s l) ++ run_sent (fst (fst (step s l))) ls'
  end.

Theorem link_fifo_run : forall ls s a b,
  chan a b (run_taken s ls) ++ chan a b (st_net (run_state s ls)) =
  chan a b (st_net s) ++ chan a b (run_sent s ls).
Proof.
  induction ls as [|l ls IH]; intros s a b.
  - unfold run_state, chan. simpl. now rewrite app_nil_r.
  - rewrite run_state_cons. simpl. destruct (step s l) as [[s1 e] o] eqn:Hs. simpl.
    unfold chan in *. rewrite !filter_app. rewrite <- app_assoc. rewrite IH.
    rewrite app_assoc. pose proof (link_fifo_step _ _ _ _ _ a b Hs) as H. unfold chan in H. rewrite H.
    now rewrite <- app_assoc.
Qed.
