(* Symmetry of the LE connection tables (property C06, tables_symmetric):
   an inductive invariant over the n-controller system of Model/Link.v. *)
From Coq Require Import ZArith List Bool Lia Arith.
From BV Require Import Model.Link Proofs.Link.
Import ListNotations.
Open Scope Z_scope.

(* ------------------------------------------------------------------ reflection *)
Lemma owns_b_iff : forall c a, owns_b c a = true <-> owns c a.
Proof. unfold owns_b, owns. intros c a. rewrite orb_true_iff, !Z.eqb_eq. tauto. Qed.

Lemma owns_b_false : forall c a, owns_b c a = false <-> ~ owns c a.
Proof.
  intros c a. rewrite <- owns_b_iff. destruct (owns_b c a); split; intros H; congruence.
Qed.

Lemma nil_b_iff : forall {A} (l : list A), nil_b l = true <-> l = [].
Proof. intros A [|x l]; simpl; split; intros; try reflexivity; discriminate. Qed.

Lemma owns_b_same : forall c c' a, addr_same c c' -> owns_b c' a = owns_b c a.
Proof. unfold addr_same, owns_b. intros c c' a [-> ->]. reflexivity. Qed.

(* ------------------------------------------------------------------ the pair protocol *)
Definition mirror (e e' : conn) : Prop :=
  k_peer e' = k_self e /\ k_self e' = k_peer e /\ k_central e' = negb (k_central e).

(* i has begun something towards j that j has not seen yet: a connection being made
   (ConnectInd in flight) or torn down (TerminateInd in flight) *)
Definition half (tij tji : list conn) (rij rji : list packet) (i j : nat) : Prop :=
  (exists e, tij = [e] /\ k_central e = true /\ tji = [] /\
             rij = [(i, j, MConnInd (k_self e) (k_peer e))] /\ rji = [])
  \/ (exists e' r, tij = [] /\ tji = [e'] /\ rij = [(i, j, MTerm (k_peer e') r)] /\ rji = []).

Definition pair_state (tij tji : list conn) (rij rji : list packet) (i j : nat) : Prop :=
  (tij = [] /\ tji = [] /\ rij = [] /\ rji = [])
  \/ (exists e e', tij = [e] /\ tji = [e'] /\ mirror e e' /\ rij = [] /\ rji = [])
  \/ half tij tji rij rji i j \/ half tji tij rji rij j i.

Definition pair_ok (s : state) (i j : nat) (ci cj : ctrl) : Prop :=
  pair_state (towards cj ci) (towards ci cj) (rel s i j) (rel s j i) i j.

Definition is_bcast (m : msg) : bool :=
  match m with MAdv _ _ _ | MConnInd _ _ => true | _ => false end.

Definition is_ctl (m : msg) : bool :=
  match m with MConnInd _ _ | MTerm _ _ => true | _ => false end.

Record sinv (s : state) : Prop := mkSinv {
  si_g : ginv s;
  si_bc : forall src dst m, In (src, dst, m) (st_net s) -> is_bcast m = true \/ is_ctl m = true -> src <> dst;
  si_peer : forall i ci e, nth_error (st_cs s) i = Some ci -> In e (c_le ci) ->
            exists j cj, j <> i /\ nth_error (st_cs s) j = Some cj /\ owns cj (k_peer e);
  si_pair : forall i j ci cj, i <> j -> nth_error (st_cs s) i = Some ci ->
            nth_error (st_cs s) j = Some cj -> pair_ok s i j ci cj
}.

Lemma pair_state_sym : forall tij tji rij rji i j,
  pair_state tij tji rij rji i j -> pair_state tji tij rji rij j i.
Proof.
  unfold pair_state. intros tij tji rij rji i j [H|[H|[H|H]]].
  - left. tauto.
  - right. left. destruct H as [e [e' [H1 [H2 [[M1 [M2 M3]] [H3 H4]]]]]]. exists e', e.
    repeat split; auto. rewrite M3. now rewrite negb_involutive.
  - right. right. now right.
  - right. right. now left.
Qed.

(* ------------------------------------------------------------------ list lemmas *)
Lemma tbl_set_app : forall t k, tbl_get t (k_peer k) = None -> tbl_set t k = t ++ [k].
Proof.
  induction t as [|k0 t IH]; simpl; intros k H; [reflexivity|].
  destruct (k_peer k0 =? k_peer k); [discriminate|]. now rewrite IH.
Qed.

Lemma filter_filter : forall {A} (f g : A -> bool) l,
  filter (fun x => andb (f x) (g x)) l = filter g (filter f l).
Proof.
  induction l as [|x l IH]; simpl; [reflexivity|].
  destruct (f x); simpl; [destruct (g x); now rewrite IH | assumption].
Qed.

Lemma filter_ext_in : forall {A} (f g : A -> bool) l, (forall x, In x l -> f x = g x) -> filter f l = filter g l.
Proof.
  induction l as [|x l IH]; simpl; intros H; [reflexivity|].
  rewrite (H x (or_introl eq_refl)). rewrite IH; [reflexivity|]. intros; apply H; now right.
Qed.

Lemma filter_del : forall (f : conn -> bool) t p, keys_nodup t ->
  filter f (tbl_del t p) = filter (fun e => andb (f e) (negb (k_peer e =? p))) t.
Proof.
  unfold keys_nodup. induction t as [|k0 t IH]; simpl; intros p H; [reflexivity|].
  inversion H as [|? ? Hni Hnd]; subst.
  destruct (k_peer k0 =? p) eqn:E.
  - simpl. rewrite andb_false_r. apply Z.eqb_eq in E. subst p.
    apply filter_ext_in. intros x Hx.
    destruct (k_peer x =? k_peer k0) eqn:E2; [|now rewrite andb_true_r].
    apply Z.eqb_eq in E2. exfalso. apply Hni. rewrite <- E2. now apply in_map.
  - simpl. rewrite andb_true_r. destruct (f k0); [f_equal|]; now apply IH.
Qed.

Lemma filter_single_remove : forall {A} (g : A -> bool) k l p,
  nth_error l k = Some p -> g p = true -> filter g l = [p] -> filter g (remove_nth k l) = [].
Proof.
  induction k as [|k IH]; destruct l as [|x l]; simpl; intros p Hn Hg Hf; try discriminate.
  - inversion Hn; subst. rewrite Hg in Hf. now inversion Hf.
  - destruct (g x) eqn:E.
    + (* x is the single element, so p = x occurs later too: impossible *)
      inversion Hf; subst. exfalso.
      assert (In p (filter g l)) by (apply filter_In; split; [eapply nth_error_In; eauto | assumption]).
      rewrite H1 in H. contradiction.
    + eapply IH; eauto.
Qed.

Lemma filter_none : forall {A} (g : A -> bool) l, (forall x, In x l -> g x = false) -> filter g l = [].
Proof.
  induction l as [|x l IH]; simpl; intros H; [reflexivity|].
  rewrite (H x (or_introl eq_refl)). apply IH. intros; apply H; now right.
Qed.

(* ------------------------------------------------------------------ frames *)
(* controllers keep their addresses *)
Definition same_addrs (cs cs' : list ctrl) : Prop :=
  forall y, match nth_error cs y, nth_error cs' y with
            | Some c, Some c' => addr_same c c'
            | None, None => True
            | _, _ => False
            end.

Lemma same_addrs_upd : forall cs i c c', nth_error cs i = Some c -> addr_same c c' -> same_addrs cs (upd cs i c').
Proof.
  intros cs i c c' Hi Hs y. rewrite (nth_upd _ _ _ _ _ Hi). destruct (Nat.eqb i y) eqn:E.
  - apply Nat.eqb_eq in E. subst y. now rewrite Hi.
  - destruct (nth_error cs y); [apply addr_same_refl | exact I].
Qed.

Lemma rel_pkt_same : forall cs cs' x y p, same_addrs cs cs' -> rel_pkt cs' x y p = rel_pkt cs x y p.
Proof.
  intros cs cs' x y [[s d] m] H. unfold rel_pkt. f_equal. specialize (H y).
  destruct (nth_error cs y) as [c|], (nth_error cs' y) as [c'|]; try contradiction; [|reflexivity].
  unfold rel_msg. destruct m; try reflexivity. now apply owns_b_same.
Qed.

Lemma rel_pkt_true : forall cs x y s d m, rel_pkt cs x y (s, d, m) = true ->
  s = x /\ d = y /\ exists cy, nth_error cs y = Some cy /\ rel_msg cy m = true.
Proof.
  intros cs x y s d m H. unfold rel_pkt in H. apply andb_true_iff in H. destruct H as [H1 H2].
  apply andb_true_iff in H1. destruct H1 as [H0 H1]. apply Nat.eqb_eq in H0, H1. subst.
  destruct (nth_error cs y) as [cy|]; [|discriminate]. eauto.
Qed.

Lemma rel_msg_ctl : forall c m, rel_msg c m = true -> is_ctl m = true.
Proof. intros c m. destruct m; simpl; intros; try discriminate; reflexivity. Qed.

Lemma towards_same : forall cy cy' cx cx', c_le cx' = c_le cx -> addr_same cy cy' -> towards cy' cx' = towards cy cx.
Proof.
  intros cy cy' cx cx' H1 H2. unfold towards. rewrite H1. apply filter_ext_in. intros e _. now apply owns_b_same.
Qed.

(* the part of the net a pair (x,y) sees is unchanged by taking a packet that is not theirs
   and adding packets that are not theirs *)
Lemma rel_frame_remove : forall cs x y k net out p,
  nth_error net k = Some p -> rel_pkt cs x y p = false ->
  (forall q, In q out -> rel_pkt cs x y q = false) ->
  filter (rel_pkt cs x y) (remove_nth k net ++ out) = filter (rel_pkt cs x y) net.
Proof.
  intros cs x y k net out p Hk Hp Hout. rewrite filter_app, (filter_remove_other _ _ _ _ Hk Hp).
  rewrite (filter_none _ out Hout). apply app_nil_r.
Qed.

Lemma rel_frame_add : forall cs x y net out,
  (forall q, In q out -> rel_pkt cs x y q = false) ->
  filter (rel_pkt cs x y) (net ++ out) = filter (rel_pkt cs x y) net.
Proof.
  intros cs x y net out Hout. rewrite filter_app, (filter_none _ out Hout). apply app_nil_r.
Qed.

(* ------------------------------------------------------------------ what a step does to the LE table *)
Definition no_ctl (o : list packet) : Prop := forall s d m, In (s, d, m) o -> is_ctl m = false.

Ltac solve_no_ctl :=
  let Hin := fresh "Hin" in
  intros ? ? ? Hin;
  first [ contradiction
        | apply broadcast_src in Hin; destruct Hin as [_ ->]; reflexivity
        | destruct Hin as [Hin|[]]; inversion Hin; reflexivity ].

Lemma local_le_effect : forall cs n i c l c' e o, local cs n i c l = (c', e, o) ->
  (c_le c' = c_le c /\ no_ctl o)
  \/ (exists i0 h r ent, l = LDisconnect i0 h r /\ by_handle (c_cl c) h = None /\
        by_handle (c_le c) h = Some ent /\ c_le c' = tbl_del (c_le c) (k_peer ent) /\
        ((exists j, find_le cs (k_peer ent) = Some j /\ o = [(i, j, MTerm (k_self ent) r)])
         \/ (find_le cs (k_peer ent) = None /\ o = []))).
Proof.
  intros cs n i c l c' e o H.
  assert (Hcig : forall cig cis, set_cig c cig cis = (c', e, o) -> c_le c' = c_le c /\ no_ctl o).
  { unfold set_cig. intros cig cis Hc.
    destruct (add_cis (set_cis c (filter (not_cig cig) (c_cis c))) cig cis) as [[c1 hs] ok] eqn:Ha.
    inversion Hc; subst. apply add_cis_same in Ha. destruct Ha as [_ [Hle _]]. split; [exact Hle | intros ? ? ? []]. }
  destruct l; simpl in H; try (left; eapply Hcig; eassumption); clear Hcig;
    unfold_handlers H; break_all; inv_pairs;
    try (left; split; [reflexivity | solve_no_ctl]).
  all: right; match goal with
       | Hb : by_handle (c_le _) ?hh = Some ?ent |- _ => exists i0, hh, reason, ent
       end; repeat split; auto; first [left; eexists; split; [eassumption | reflexivity] | right; split; [assumption | reflexivity]].
Qed.

Lemma adv_le_effect : forall cs n j c b d sr c' e o, on_message cs n j c (MAdv b d sr) = (c', e, o) ->
  (c_le c' = c_le c /\ o = [])
  \/ (creates c b = true /\ exists own h, c_pending c = Some (b, own) /\ tbl_get (c_le c) b = None /\
        c_le c' = c_le c ++ [mkConn b (if own then c_public c else c_random c) h true] /\
        o = broadcast n j (MConnInd (if own then c_public c else c_random c) b)).
Proof.
  intros cs n j c b d sr c' e o H. simpl in H. unfold on_adv, create_le_connection in H.
  destruct (c_pending c) as [[peer own]|] eqn:Hp; [|inversion H; subst; now left].
  destruct (peer =? b) eqn:Epb; [|inversion H; subst; now left].
  apply Z.eqb_eq in Epb. subst peer.
  destruct (tbl_get (c_le c) b) eqn:Hg; [inversion H; subst; now left|].
  destruct (alloc c) as [h|]; inversion H; subst; [|now left].
  right. split.
  - unfold creates. now rewrite Hp, Z.eqb_refl, Hg.
  - exists own, h. repeat split; auto. simpl. now apply tbl_set_app.
Qed.

Lemma connind_le_effect : forall cs n j c a b c' e o, on_message cs n j c (MConnInd a b) = (c', e, o) ->
  if accepts c b then o = [] /\ exists h, c_le c' = tbl_set (c_le c) (mkConn a b h false)
  else c_le c' = c_le c /\ (o = [] \/ o = refuse cs j c a b).
Proof.
  intros cs n j c a b c' e o H. simpl in H. unfold on_connect_ind in H. unfold accepts.
  destruct (andb (leg_address c =? b) (c_leg_enabled c)).
  - destruct (alloc c) as [h|]; inversion H; subst; simpl; split; auto. now exists h.
  - destruct (find_set c (c_sets c) b); [|inversion H; subst; simpl; split; auto].
    destruct (alloc c) as [h|]; inversion H; subst; simpl; split; auto. now exists h.
Qed.

Lemma connind_refused : forall cs n j c a b c' e o, alloc c <> None -> accepts c b = false ->
  on_message cs n j c (MConnInd a b) = (c', e, o) -> c' = c /\ e = [] /\ o = refuse cs j c a b.
Proof.
  intros cs n j c a b c' e o Hal Hacc H. simpl in H. unfold on_connect_ind in H. unfold accepts in Hacc.
  destruct (alloc c) as [h|]; [|congruence]. rewrite andb_true_r in Hacc.
  apply orb_false_iff in Hacc. destruct Hacc as [H1 H2]. rewrite H1 in H.
  destruct (find_set c (c_sets c) b); [discriminate|]. inversion H; subst. auto.
Qed.

Lemma term_le_effect : forall cs n j c a r c' e o, on_message cs n j c (MTerm a r) = (c', e, o) ->
  o = [] /\ c_le c' = match tbl_get (c_le c) a with Some _ => tbl_del (c_le c) a | None => c_le c end.
Proof.
  intros cs n j c a r c' e o H. simpl in H. unfold on_terminate in H.
  destruct (tbl_get (c_le c) a); inversion H; subst; auto.
Qed.

Lemma other_le_effect : forall cs n j c m c' e o, on_message cs n j c m = (c', e, o) ->
  is_ctl m = false -> is_bcast m = false -> c_le c' = c_le c /\ o = [].
Proof.
  intros cs n j c m c' e o H H1 H2.
  destruct m; simpl in H1, H2; try discriminate; simpl in H; unfold_handlers H; break_all; inv_pairs; auto.
Qed.

(* broadcast and control messages are never sent to oneself *)
Definition not_self (o : list packet) : Prop :=
  forall s d m, In (s, d, m) o -> is_bcast m = true -> s <> d.

Lemma broadcast_not_self : forall n i m, not_self (broadcast n i m).
Proof. intros n i m s d x Hin _. apply broadcast_spec in Hin. destruct Hin as [-> [_ [Hne _]]]. auto. Qed.

Ltac solve_not_self :=
  first [ apply broadcast_not_self
        | let Hin := fresh "Hin" in let Hb := fresh "Hb" in
          intros ? ? ? Hin Hb; simpl in Hin;
          repeat (destruct Hin as [Hin|Hin]; [inversion Hin; subst; discriminate|]); contradiction ].

Lemma local_not_self : forall cs n i c l c' e o, local cs n i c l = (c', e, o) -> not_self o.
Proof.
  intros cs n i c l c' e o H.
  destruct l; simpl in H; unfold_handlers H; break_all; inv_pairs; solve_not_self.
Qed.

Lemma message_not_self : forall cs n j c m c' e o, on_message cs n j c m = (c', e, o) -> not_self o.
Proof.
  intros cs n j c m c' e o H.
  destruct m; simpl in H; unfold_handlers H; break_all; inv_pairs; solve_not_self.
Qed.

(* ================================================================== the invariant is inductive *)
(* a list with no duplicates filtered by a predicate that singles out x *)
Lemma filter_unique : forall {A} (g : A -> bool) l x, NoDup l -> In x l -> g x = true ->
  (forall y, In y l -> g y = true -> y = x) -> filter g l = [x].
Proof.
  induction l as [|y l IH]; simpl; intros x Hnd Hin Hg Hu; [contradiction|].
  inversion Hnd as [|? ? Hni Hnd']; subst.
  destruct (g y) eqn:E.
  - assert (y = x) by (apply Hu; auto). subst y. f_equal.
    apply filter_none. intros z Hz. destruct (g z) eqn:Ez; [|reflexivity].
    assert (z = x) by (apply Hu; auto). subst z. contradiction.
  - destruct Hin as [->|Hin]; [congruence|]. apply IH; auto.
Qed.

Lemma rel_broadcast_target : forall cs n i j m, rel_pkt cs i j (i, j, m) = true -> (j < n)%nat -> j <> i ->
  filter (rel_pkt cs i j) (broadcast n i m) = [(i, j, m)].
Proof.
  intros cs n i j m Hr Hj Hne. apply filter_unique.
  - apply broadcast_nodup.
  - apply broadcast_spec. auto.
  - assumption.
  - intros [[s d] x] Hin Hg. apply broadcast_spec in Hin. destruct Hin as [-> [_ [_ ->]]].
    apply rel_pkt_true in Hg. destruct Hg as [_ [-> _]]. reflexivity.
Qed.

Lemma rel_broadcast_other : forall cs n i x y m,
  (x <> i \/ (forall cy, nth_error cs y = Some cy -> rel_msg cy m = false)) ->
  filter (rel_pkt cs x y) (broadcast n i m) = [].
Proof.
  intros cs n i x y m H. apply filter_none. intros [[s d] z] Hin.
  apply broadcast_spec in Hin. destruct Hin as [-> [_ [_ ->]]].
  destruct (rel_pkt cs x y (i, d, m)) eqn:E; [|reflexivity]. exfalso.
  apply rel_pkt_true in E. destruct E as [-> [-> [cy [Hy Hm]]]].
  destruct H as [H|H]; [congruence|]. rewrite (H _ Hy) in Hm. discriminate.
Qed.

Lemma owner_unique : forall s i j ci cj a, ginv s -> nth_error (st_cs s) i = Some ci ->
  nth_error (st_cs s) j = Some cj -> owns ci a -> owns cj a -> i = j.
Proof. intros s i j ci cj a I. exact (g_uniq s I i j ci cj a). Qed.

Lemma towards_in : forall cj c e, In e (towards cj c) <-> In e (c_le c) /\ owns cj (k_peer e).
Proof. unfold towards. intros. rewrite filter_In, owns_b_iff. tauto. Qed.

Lemma towards_app : forall cj t k, filter (fun e => owns_b cj (k_peer e)) (t ++ [k]) =
  filter (fun e => owns_b cj (k_peer e)) t ++ (if owns_b cj (k_peer k) then [k] else []).
Proof. intros. rewrite filter_app. reflexivity. Qed.

Lemma guard_sym_static : forall s l, guard_sym s l = true -> guard_static s l = true.
Proof. unfold guard_sym. intros s l H. apply andb_true_iff in H. tauto. Qed.

Lemma rel_same : forall cs cs' x y net, same_addrs cs cs' ->
  filter (rel_pkt cs' x y) net = filter (rel_pkt cs x y) net.
Proof. intros. apply filter_ext_in. intros p _. now apply rel_pkt_same. Qed.

(* the generic re-establishment of the invariant after controller i0 took a step *)
Lemma sinv_update : forall s i0 c c' net',
  sinv s -> ginv (mkState (upd (st_cs s) i0 c') net') ->
  nth_error (st_cs s) i0 = Some c -> addr_same c c' ->
  (forall src dst m, In (src, dst, m) net' -> is_bcast m = true \/ is_ctl m = true -> src <> dst) ->
  (forall e, In e (c_le c') -> In e (c_le c) \/
        exists j cj, j <> i0 /\ nth_error (st_cs s) j = Some cj /\ owns cj (k_peer e)) ->
  (forall y cy, y <> i0 -> nth_error (st_cs s) y = Some cy ->
        pair_state (towards cy c') (towards c' cy)
                   (filter (rel_pkt (st_cs s) i0 y) net') (filter (rel_pkt (st_cs s) y i0) net') i0 y) ->
  (forall x y, x <> i0 -> y <> i0 ->
        filter (rel_pkt (st_cs s) x y) net' = filter (rel_pkt (st_cs s) x y) (st_net s)) ->
  sinv (mkState (upd (st_cs s) i0 c') net').
Proof.
  intros s i0 c c' net' S G' Hi Hs Hbc Hpeer Hp0 Hframe.
  pose proof (same_addrs_upd _ _ _ _ Hi Hs) as Hsa.
  assert (Hnth : forall y cy', nth_error (upd (st_cs s) i0 c') y = Some cy' ->
            (y = i0 /\ cy' = c') \/ (y <> i0 /\ nth_error (st_cs s) y = Some cy')).
  { intros y cy' Hy. rewrite (nth_upd _ _ _ _ _ Hi) in Hy. destruct (Nat.eqb i0 y) eqn:E.
    - apply Nat.eqb_eq in E. inversion Hy; subst. now left.
    - apply Nat.eqb_neq in E. right. split; [congruence | assumption]. }
  assert (Hown : forall j cj, nth_error (st_cs s) j = Some cj ->
            exists cj', nth_error (upd (st_cs s) i0 c') j = Some cj' /\ (forall a, owns cj a -> owns cj' a)).
  { intros j cj Hj. rewrite (nth_upd _ _ _ _ _ Hi). destruct (Nat.eqb i0 j) eqn:E.
    - apply Nat.eqb_eq in E. subst j. rewrite Hi in Hj. inversion Hj; subst. exists c'. split; [reflexivity|].
      intros a. apply (owns_same cj c' a Hs).
    - exists cj. auto. }
  constructor; simpl.
  - exact G'.
  - exact Hbc.
  - intros i ci e Hci He. destruct (Hnth _ _ Hci) as [[-> ->]|[Hne Hci0]].
    + destruct (Hpeer e He) as [Hold|[j [cj [Hj1 [Hj2 Hj3]]]]].
      * destruct (si_peer s S _ _ _ Hi Hold) as [j [cj [Hj1 [Hj2 Hj3]]]].
        destruct (Hown _ _ Hj2) as [cj' [Hj' Ho]]. exists j, cj'. auto.
      * destruct (Hown _ _ Hj2) as [cj' [Hj' Ho]]. exists j, cj'. auto.
    + destruct (si_peer s S _ _ _ Hci0 He) as [j [cj [Hj1 [Hj2 Hj3]]]].
      destruct (Hown _ _ Hj2) as [cj' [Hj' Ho]]. exists j, cj'. auto.
  - intros i j ci cj Hij Hci Hcj. unfold pair_ok, rel. simpl.
    rewrite !(rel_same _ _ _ _ _ Hsa).
    destruct (Hnth _ _ Hci) as [[-> ->]|[Hni Hci0]]; destruct (Hnth _ _ Hcj) as [[-> ->]|[Hnj Hcj0]].
    + congruence.
    + apply Hp0; auto.
    + apply pair_state_sym. apply Hp0; auto.
    + rewrite !Hframe by auto. exact (si_pair s S _ _ _ _ Hij Hci0 Hcj0).
Qed.

Lemma no_ctl_rel : forall cs x y out, no_ctl out -> forall q, In q out -> rel_pkt cs x y q = false.
Proof.
  intros cs x y out H [[s d] m] Hin. destruct (rel_pkt cs x y (s, d, m)) eqn:E; [|reflexivity].
  apply rel_pkt_true in E. destruct E as [_ [_ [cy [_ Hm]]]]. apply rel_msg_ctl in Hm.
  rewrite (H _ _ _ Hin) in Hm. discriminate.
Qed.

Lemma sinv_neutral : forall s i0 c c' net' out,
  sinv s -> ginv (mkState (upd (st_cs s) i0 c') (net' ++ out)) ->
  nth_error (st_cs s) i0 = Some c -> addr_same c c' -> c_le c' = c_le c ->
  no_ctl out -> not_self out ->
  (forall p, In p net' -> In p (st_net s)) ->
  (forall x y, filter (rel_pkt (st_cs s) x y) net' = filter (rel_pkt (st_cs s) x y) (st_net s)) ->
  sinv (mkState (upd (st_cs s) i0 c') (net' ++ out)).
Proof.
  intros s i0 c c' net' out S G' Hi Hs Hle Hnc Hns Hsub Hrel.
  assert (Hf : forall x y, filter (rel_pkt (st_cs s) x y) (net' ++ out) = filter (rel_pkt (st_cs s) x y) (st_net s)).
  { intros x y. rewrite rel_frame_add; [apply Hrel | apply no_ctl_rel; assumption]. }
  eapply sinv_update; eauto.
  - intros src dst m Hin Hk. apply in_app_or in Hin. destruct Hin as [Hin|Hin].
    + eapply (si_bc s S); eauto.
    + destruct Hk as [Hk|Hk]; [eapply Hns; eauto | rewrite (Hnc _ _ _ Hin) in Hk; discriminate].
  - intros e He. left. now rewrite <- Hle.
  - intros y cy Hy Hcy. rewrite !Hf.
    rewrite (towards_same cy cy c c' Hle (addr_same_refl cy)).
    rewrite (towards_same c c' cy cy eq_refl Hs).
    exact (si_pair s S _ _ _ _ (not_eq_sym Hy) Hi Hcy).
Qed.

Lemma pair_idle_lists : forall s i j ci cj, nth_error (st_cs s) i = Some ci -> nth_error (st_cs s) j = Some cj ->
  pair_idle s i j = true ->
  towards cj ci = [] /\ towards ci cj = [] /\ rel s i j = [] /\ rel s j i = [].
Proof.
  unfold pair_idle. intros s i j ci cj Hi Hj H. rewrite Hi, Hj in H.
  apply andb_true_iff in H. destruct H as [H1 H2].
  apply andb_true_iff in H1. destruct H1 as [H0 H1]. apply andb_true_iff in H2. destruct H2 as [H2 H3].
  apply nil_b_iff in H0, H1, H2, H3. auto.
Qed.

(* ---- case A: an advertisement makes controller i0 create a connection towards j1 *)
Lemma sinv_create : forall s k j1 i0 b d sr c c' (own : bool) h,
  sinv s -> ginv (mkState (upd (st_cs s) i0 c')
                   (remove_nth k (st_net s) ++ broadcast (length (st_cs s)) i0 (MConnInd (if own then c_public c else c_random c) b))) ->
  nth_error (st_net s) k = Some (j1, i0, MAdv b d sr) ->
  nth_error (st_cs s) i0 = Some c -> addr_same c c' ->
  c_le c' = c_le c ++ [mkConn b (if own then c_public c else c_random c) h true] ->
  pair_idle s i0 j1 = true ->
  sinv (mkState (upd (st_cs s) i0 c')
          (remove_nth k (st_net s) ++ broadcast (length (st_cs s)) i0 (MConnInd (if own then c_public c else c_random c) b))).
Proof.
  intros s k j1 i0 b d sr c c' own h S G' Hk Hi Hs Hle Hidle.
  set (self := if own then c_public c else c_random c) in *.
  set (new := mkConn b self h true) in *.
  pose proof (nth_error_In _ _ Hk) as Hkin.
  destruct (g_net s (si_g s S) _ _ _ Hkin) as [cj1 [Hj1 Hob]]. simpl in Hob.
  assert (Hne : j1 <> i0) by (eapply (si_bc s S); eauto).
  assert (Hrm : forall x y, filter (rel_pkt (st_cs s) x y) (remove_nth k (st_net s)) = filter (rel_pkt (st_cs s) x y) (st_net s)).
  { intros x y. apply (filter_remove_other _ _ _ _ Hk). unfold rel_pkt. simpl.
    destruct (nth_error (st_cs s) y); now rewrite ?andb_false_r. }
  eapply sinv_update; eauto.
  - intros src dst m Hin Hm. apply in_app_or in Hin. destruct Hin as [Hin|Hin].
    + apply remove_nth_in in Hin. eapply (si_bc s S); eauto.
    + apply broadcast_spec in Hin. destruct Hin as [-> [_ [Hd _]]]. auto.
  - intros e He. rewrite Hle in He. apply in_app_or in He. destruct He as [He|[<-|[]]]; [now left|].
    right. exists j1, cj1. auto.
  - intros y cy Hy Hcy. rewrite !filter_app, !Hrm.
    unfold towards at 1. rewrite Hle, towards_app. fold (towards cy c).
    rewrite (towards_same c c' cy cy eq_refl Hs).
    assert (Hback : filter (rel_pkt (st_cs s) y i0) (broadcast (length (st_cs s)) i0 (MConnInd self b)) = []).
    { apply rel_broadcast_other. left. exact Hy. }
    rewrite Hback, app_nil_r.
    destruct (Nat.eq_dec y j1) as [->|Hyj].
    + rewrite Hcy in Hj1. inversion Hj1; subst cj1.
      destruct (pair_idle_lists _ _ _ _ _ Hi Hcy Hidle) as [T1 [T2 [R1 R2]]].
      unfold rel in R1, R2. rewrite T1, T2, R1, R2. simpl new.
      assert (Hb : owns_b cy b = true) by now apply owns_b_iff.
      simpl k_peer. rewrite Hb.
      rewrite rel_broadcast_target; [| | eapply nth_error_lt; eauto | assumption].
      * right. right. left. left. exists new. simpl. repeat split; reflexivity.
      * unfold rel_pkt. rewrite !Nat.eqb_refl, Hcy. simpl. exact Hb.
    + assert (Hnb : owns_b cy b = false).
      { apply owns_b_false. intro Ho. apply Hyj. eapply (owner_unique s y j1); eauto. exact (si_g s S). }
      simpl k_peer. rewrite Hnb, app_nil_r.
      rewrite rel_broadcast_other, app_nil_r.
      * exact (si_pair s S _ _ _ _ (not_eq_sym Hy) Hi Hcy).
      * right. intros cy0 Hcy0. rewrite Hcy in Hcy0. inversion Hcy0; subst. exact Hnb.
  - intros x y Hx Hy. rewrite filter_app, Hrm. rewrite rel_broadcast_other; [apply app_nil_r | now left].
Qed.

(* in which protocol state can a relevant message from i to j be in flight? *)
Lemma state_with_connind : forall tij tji rij rji i j a b,
  pair_state tij tji rij rji i j -> In (i, j, MConnInd a b) rij ->
  exists e, tij = [e] /\ k_central e = true /\ k_self e = a /\ k_peer e = b /\ tji = [] /\
            rij = [(i, j, MConnInd a b)] /\ rji = [].
Proof.
  intros tij tji rij rji i j a b [H|[H|[H|H]]] Hin.
  - destruct H as [_ [_ [-> _]]]. contradiction.
  - destruct H as [e [e' [_ [_ [_ [-> _]]]]]]. contradiction.
  - destruct H as [[e [H1 [H2 [H3 [H4 H5]]]]]|[e' [r [H1 [H2 [H3 H4]]]]]].
    + rewrite H4 in Hin. destruct Hin as [Hin|[]]. inversion Hin; subst. exists e. repeat split; auto.
    + rewrite H3 in Hin. destruct Hin as [Hin|[]]. discriminate.
  - destruct H as [[e [H1 [H2 [H3 [H4 H5]]]]]|[e' [r [H1 [H2 [H3 H4]]]]]].
    + rewrite H5 in Hin. contradiction.
    + rewrite H4 in Hin. contradiction.
Qed.

Lemma state_with_term : forall tij tji rij rji i j a r,
  pair_state tij tji rij rji i j -> In (i, j, MTerm a r) rij ->
  exists e', tij = [] /\ tji = [e'] /\ k_peer e' = a /\ rij = [(i, j, MTerm a r)] /\ rji = [].
Proof.
  intros tij tji rij rji i j a r [H|[H|[H|H]]] Hin.
  - destruct H as [_ [_ [-> _]]]. contradiction.
  - destruct H as [e [e' [_ [_ [_ [-> _]]]]]]. contradiction.
  - destruct H as [[e [H1 [H2 [H3 [H4 H5]]]]]|[e' [r' [H1 [H2 [H3 H4]]]]]].
    + rewrite H4 in Hin. destruct Hin as [Hin|[]]. discriminate.
    + rewrite H3 in Hin. destruct Hin as [Hin|[]]. inversion Hin; subst. exists e'. repeat split; auto.
  - destruct H as [[e [H1 [H2 [H3 [H4 H5]]]]]|[e' [r' [H1 [H2 [H3 H4]]]]]].
    + rewrite H5 in Hin. contradiction.
    + rewrite H4 in Hin. contradiction.
Qed.

(* ---- case B: the addressee j0 of a ConnectInd(a, b) from i1 accepts it *)
Lemma sinv_accept : forall s k i1 j0 a b c c' h,
  sinv s -> ginv (mkState (upd (st_cs s) j0 c') (remove_nth k (st_net s) ++ [])) ->
  nth_error (st_net s) k = Some (i1, j0, MConnInd a b) ->
  nth_error (st_cs s) j0 = Some c -> addr_same c c' -> owns c b ->
  c_le c' = tbl_set (c_le c) (mkConn a b h false) ->
  sinv (mkState (upd (st_cs s) j0 c') (remove_nth k (st_net s) ++ [])).
Proof.
  intros s k i1 j0 a b c c' h S G' Hk Hj Hs Hob Hle.
  pose proof (nth_error_In _ _ Hk) as Hkin.
  destruct (g_net s (si_g s S) _ _ _ Hkin) as [ci1 [Hi1 Hoa]]. simpl in Hoa.
  assert (Hne : i1 <> j0) by (eapply (si_bc s S); eauto).
  assert (Hrelp : rel_pkt (st_cs s) i1 j0 (i1, j0, MConnInd a b) = true).
  { unfold rel_pkt. rewrite !Nat.eqb_refl, Hj. simpl. now apply owns_b_iff. }
  (* the pair (i1, j0) is in the connecting state *)
  pose proof (si_pair s S _ _ _ _ Hne Hi1 Hj) as Hp. unfold pair_ok in Hp.
  assert (Hin : In (i1, j0, MConnInd a b) (rel s i1 j0)) by (apply filter_In; auto).
  destruct (state_with_connind _ _ _ _ _ _ _ _ Hp Hin) as [e [T1 [E1 [E2 [E3 [T2 [R1 R2]]]]]]].
  (* the addressee holds nothing towards the initiator, in particular nothing filed under a *)
  assert (Hnone : tbl_get (c_le c) a = None).
  { destruct (tbl_get (c_le c) a) as [k0|] eqn:Eg; [|reflexivity]. exfalso.
    apply tbl_get_in in Eg. destruct Eg as [Hk0 Hp0].
    assert (Hin0 : In k0 (towards ci1 c)) by (apply towards_in; split; [assumption | now rewrite Hp0]).
    rewrite T2 in Hin0. contradiction. }
  rewrite (tbl_set_app (c_le c) (mkConn a b h false) Hnone) in Hle. set (new := mkConn a b h false) in *.
  rewrite app_nil_r in *.
  assert (Hother : forall x y, (x <> i1 \/ y <> j0) ->
            filter (rel_pkt (st_cs s) x y) (remove_nth k (st_net s)) = filter (rel_pkt (st_cs s) x y) (st_net s)).
  { intros x y Hxy. apply (filter_remove_other _ _ _ _ Hk).
    destruct (rel_pkt (st_cs s) x y (i1, j0, MConnInd a b)) eqn:E; [|reflexivity].
    apply rel_pkt_true in E. destruct E as [-> [-> _]]. destruct Hxy; congruence. }
  eapply sinv_update; eauto.
  - intros src dst m Hin' Hm. apply remove_nth_in in Hin'. eapply (si_bc s S); eauto.
  - intros e0 He0. rewrite Hle in He0. apply in_app_or in He0. destruct He0 as [He0|[<-|[]]]; [now left|].
    right. exists i1, ci1. auto.
  - intros y cy Hy Hcy.
    unfold towards at 1. rewrite Hle, towards_app. fold (towards cy c).
    rewrite (towards_same c c' cy cy eq_refl Hs).
    rewrite (Hother j0 y) by (left; auto).
    destruct (Nat.eq_dec y i1) as [->|Hyi].
    + rewrite Hcy in Hi1. inversion Hi1; subst ci1.
      rewrite (filter_single_remove _ _ _ _ Hk Hrelp R1).
      unfold rel in R2. rewrite R2, T1, T2. simpl k_peer.
      assert (Ha : owns_b cy a = true) by now apply owns_b_iff. rewrite Ha. simpl.
      right. left. exists new, e. unfold mirror. simpl. repeat split; auto.
    + assert (Hna : owns_b cy a = false).
      { apply owns_b_false. intro Ho. apply Hyi. eapply (owner_unique s y i1); eauto. exact (si_g s S). }
      simpl k_peer. rewrite Hna, app_nil_r.
      rewrite (Hother y j0) by (left; auto).
      exact (si_pair s S _ _ _ _ (not_eq_sym Hy) Hj Hcy).
Qed.

Lemma filter_one : forall {A} (g : A -> bool) p, filter g [p] = if g p then [p] else [].
Proof. reflexivity. Qed.

Lemma owns_own_address : forall c a, owns c a -> own_address c a = true.
Proof.
  unfold owns, own_address. intros c a [->| ->]; rewrite Z.eqb_refl; [reflexivity | now rewrite orb_true_r].
Qed.

(* ---- case B'': the addressee j0 of a ConnectInd(a, b) from i1 no longer advertises b and refuses (D06d) *)
Lemma sinv_refuse : forall s k i1 j0 a b c,
  sinv s -> ginv (mkState (upd (st_cs s) j0 c) (remove_nth k (st_net s) ++ refuse (st_cs s) j0 c a b)) ->
  nth_error (st_net s) k = Some (i1, j0, MConnInd a b) ->
  nth_error (st_cs s) j0 = Some c -> owns c b ->
  sinv (mkState (upd (st_cs s) j0 c) (remove_nth k (st_net s) ++ refuse (st_cs s) j0 c a b)).
Proof.
  intros s k i1 j0 a b c S G' Hk Hj Hob.
  pose proof (si_g s S) as G.
  pose proof (nth_error_In _ _ Hk) as Hkin.
  destruct (g_net s G _ _ _ Hkin) as [ci1 [Hi1 Hoa]]. simpl in Hoa.
  assert (Hne : i1 <> j0) by (eapply (si_bc s S); eauto).
  assert (Hrelp : rel_pkt (st_cs s) i1 j0 (i1, j0, MConnInd a b) = true).
  { unfold rel_pkt. rewrite !Nat.eqb_refl, Hj. simpl. now apply owns_b_iff. }
  pose proof (si_pair s S _ _ _ _ Hne Hi1 Hj) as Hp. unfold pair_ok in Hp.
  assert (Hin : In (i1, j0, MConnInd a b) (rel s i1 j0)) by (apply filter_In; auto).
  destruct (state_with_connind _ _ _ _ _ _ _ _ Hp Hin) as [e [T1 [E1 [E2 [E3 [T2 [R1 R2]]]]]]].
  assert (He : In e (c_le ci1)) by (apply (proj1 (towards_in c ci1 e)); rewrite T1; now left).
  assert (Hfind : find_le (st_cs s) a = Some i1) by (rewrite <- E2; eapply find_le_holder; eauto).
  unfold refuse in *. rewrite (owns_own_address _ _ Hob), Hfind in *.
  set (pkt := (j0, i1, MTerm b 62)) in *.
  assert (Hrelt : rel_pkt (st_cs s) j0 i1 pkt = true).
  { unfold pkt, rel_pkt. now rewrite !Nat.eqb_refl, Hi1. }
  assert (Hpo : forall x y, (x <> j0 \/ y <> i1) -> rel_pkt (st_cs s) x y pkt = false).
  { intros x y Hxy. destruct (rel_pkt (st_cs s) x y pkt) eqn:E; [|reflexivity].
    apply rel_pkt_true in E. destruct E as [-> [-> _]]. destruct Hxy; congruence. }
  assert (Hother : forall x y, (x <> i1 \/ y <> j0) ->
            filter (rel_pkt (st_cs s) x y) (remove_nth k (st_net s)) = filter (rel_pkt (st_cs s) x y) (st_net s)).
  { intros x y Hxy. apply (filter_remove_other _ _ _ _ Hk).
    destruct (rel_pkt (st_cs s) x y (i1, j0, MConnInd a b)) eqn:E; [|reflexivity].
    apply rel_pkt_true in E. destruct E as [-> [-> _]]. destruct Hxy; congruence. }
  eapply sinv_update; eauto.
  - intros src dst m Hin' Hm. apply in_app_or in Hin'. destruct Hin' as [Hin'|[Hin'|[]]].
    + apply remove_nth_in in Hin'. eapply (si_bc s S); eauto.
    + inversion Hin'; subst. auto.
  - intros y cy Hy Hcy. rewrite !filter_app, !filter_one.
    rewrite (Hother j0 y) by (left; auto).
    destruct (Nat.eq_dec y i1) as [->|Hyi].
    + rewrite Hcy in Hi1. inversion Hi1; subst ci1.
      rewrite (filter_single_remove _ _ _ _ Hk Hrelp R1).
      rewrite Hrelt, (Hpo i1 j0) by (left; auto).
      unfold rel in R2. rewrite R2, T1, T2. simpl.
      right. right. left. right. exists e, 62. unfold pkt. rewrite E3. auto.
    + rewrite (Hother y j0) by (left; auto).
      rewrite (Hpo j0 y) by (right; auto). rewrite (Hpo y j0) by (left; auto). rewrite !app_nil_r.
      exact (si_pair s S _ _ _ _ (not_eq_sym Hy) Hj Hcy).
  - intros x y Hx Hy. rewrite filter_app, filter_one, (Hpo x y) by (left; auto). rewrite app_nil_r.
    apply Hother. right. exact Hy.
Qed.

(* ---- case B': a ConnectInd delivered to a controller that does not own the address *)
Lemma sinv_ignore : forall s k i1 j0 a b c,
  sinv s -> ginv (mkState (upd (st_cs s) j0 c) (remove_nth k (st_net s) ++ [])) ->
  nth_error (st_net s) k = Some (i1, j0, MConnInd a b) ->
  nth_error (st_cs s) j0 = Some c -> ~ owns c b ->
  sinv (mkState (upd (st_cs s) j0 c) (remove_nth k (st_net s) ++ [])).
Proof.
  intros s k i1 j0 a b c S G' Hk Hj Hnob.
  eapply sinv_neutral; eauto.
  - intros ? ? ? [].
  - intros ? ? ? [].
  - intros p. apply remove_nth_in.
  - intros x y. apply (filter_remove_other _ _ _ _ Hk).
    destruct (rel_pkt (st_cs s) x y (i1, j0, MConnInd a b)) eqn:E; [|reflexivity].
    apply rel_pkt_true in E. destruct E as [-> [-> [cy [Hcy Hm]]]].
    rewrite Hj in Hcy. inversion Hcy; subst. simpl in Hm. apply owns_b_iff in Hm. contradiction.
Qed.

Lemma towards_del_other : forall cy c p, keys_nodup (c_le c) ->
  (forall e, In e (c_le c) -> owns cy (k_peer e) -> k_peer e <> p) ->
  filter (fun e => owns_b cy (k_peer e)) (tbl_del (c_le c) p) = towards cy c.
Proof.
  intros cy c p Hk H. rewrite filter_del by assumption. unfold towards. apply filter_ext_in.
  intros e He. destruct (owns_b cy (k_peer e)) eqn:E; [|reflexivity]. simpl.
  apply owns_b_iff in E. apply negb_true_iff, Z.eqb_neq. auto.
Qed.

Lemma towards_del_single : forall cy c e, keys_nodup (c_le c) -> towards cy c = [e] ->
  filter (fun x => owns_b cy (k_peer x)) (tbl_del (c_le c) (k_peer e)) = [].
Proof.
  intros cy c e Hk H. rewrite filter_del by assumption. rewrite filter_filter. fold (towards cy c). rewrite H.
  simpl. now rewrite Z.eqb_refl.
Qed.

(* when nothing is in flight between i and the owner j of the peer address of one of i's
   connections, j holds the mirror connection, so the link finds j for that address *)
Lemma disconnect_finds_peer : forall s i j c cj ent, sinv s ->
  nth_error (st_cs s) i = Some c -> nth_error (st_cs s) j = Some cj -> j <> i ->
  In ent (c_le c) -> owns cj (k_peer ent) -> pair_quiet s i j = true ->
  find_le (st_cs s) (k_peer ent) = Some j.
Proof.
  intros s i j c cj ent S Hi Hj Hji Hent Hoj Hq.
  unfold pair_quiet in Hq. apply andb_true_iff in Hq. destruct Hq as [Q1 Q2]. apply nil_b_iff in Q1, Q2.
  pose proof (si_pair s S _ _ _ _ (not_eq_sym Hji) Hi Hj) as Hp. unfold pair_ok in Hp.
  assert (Hin : In ent (towards cj c)) by (apply towards_in; auto).
  destruct Hp as [H|[H|[H|H]]].
  - destruct H as [T1 _]. rewrite T1 in Hin. contradiction.
  - destruct H as [e [e' [T1 [T2 [[M1 [M2 M3]] _]]]]]. rewrite T1 in Hin. destruct Hin as [->|[]].
    assert (He' : In e' (c_le cj)) by (apply (proj1 (towards_in c cj e')); rewrite T2; now left).
    rewrite <- M2. eapply find_le_holder; eauto. exact (si_g s S).
  - destruct H as [[e [_ [_ [_ [R1 _]]]]]|[e' [r' [_ [_ [R1 _]]]]]]; rewrite Q1 in R1; discriminate.
  - destruct H as [[e [_ [_ [_ [R1 _]]]]]|[e' [r' [_ [_ [R1 _]]]]]]; rewrite Q2 in R1; discriminate.
Qed.

(* ---- case C: controller i0 disconnects an established LE connection with j1 *)
Lemma sinv_disconnect : forall s i0 j1 c c' ent r,
  sinv s -> ginv (mkState (upd (st_cs s) i0 c') (st_net s ++ [(i0, j1, MTerm (k_self ent) r)])) ->
  nth_error (st_cs s) i0 = Some c -> addr_same c c' -> In ent (c_le c) ->
  find_le (st_cs s) (k_peer ent) = Some j1 -> c_le c' = tbl_del (c_le c) (k_peer ent) ->
  pair_quiet s i0 j1 = true ->
  sinv (mkState (upd (st_cs s) i0 c') (st_net s ++ [(i0, j1, MTerm (k_self ent) r)])).
Proof.
  intros s i0 j1 c c' ent r S G' Hi Hs Hent Hfind Hle Hq.
  pose proof (si_g s S) as G.
  destruct (find_le_is_owner s _ _ G Hfind) as [cj1 [Hj1 Hob]].
  destruct (si_peer s S _ _ _ Hi Hent) as [j [cj [Hji [Hj Hoj]]]].
  assert (j = j1) by (eapply (owner_unique s j j1); eauto). subst j.
  rewrite Hj1 in Hj. inversion Hj; subst cj. clear Hj.
  pose proof (ci_le_keys c (proj1 (g_c s G _ _ Hi))) as Hkeys.
  (* the pair is connected *)
  unfold pair_quiet in Hq. apply andb_true_iff in Hq. destruct Hq as [Q1 Q2]. apply nil_b_iff in Q1, Q2.
  pose proof (si_pair s S _ _ _ _ (not_eq_sym Hji) Hi Hj1) as Hp. unfold pair_ok in Hp.
  assert (Hin : In ent (towards cj1 c)) by (apply towards_in; auto).
  assert (Hconn : exists e', towards cj1 c = [ent] /\ towards c cj1 = [e'] /\ mirror ent e').
  { destruct Hp as [H|[H|[H|H]]].
    - destruct H as [T1 _]. rewrite T1 in Hin. contradiction.
    - destruct H as [e [e' [T1 [T2 [M _]]]]]. rewrite T1 in Hin. destruct Hin as [->|[]]. eauto.
    - destruct H as [[e [_ [_ [_ [R1 _]]]]]|[e' [r' [_ [_ [R1 _]]]]]]; rewrite Q1 in R1; discriminate.
    - destruct H as [[e [_ [_ [_ [R1 _]]]]]|[e' [r' [_ [_ [R1 _]]]]]]; rewrite Q2 in R1; discriminate. }
  destruct Hconn as [e' [T1 [T2 [M1 [M2 M3]]]]].
  set (pkt := (i0, j1, MTerm (k_self ent) r)) in *.
  assert (Hrelp : rel_pkt (st_cs s) i0 j1 pkt = true).
  { unfold pkt, rel_pkt. now rewrite !Nat.eqb_refl, Hj1. }
  assert (Hother : forall x y, (x <> i0 \/ y <> j1) -> rel_pkt (st_cs s) x y pkt = false).
  { intros x y Hxy. destruct (rel_pkt (st_cs s) x y pkt) eqn:E; [|reflexivity].
    apply rel_pkt_true in E. destruct E as [-> [-> _]]. destruct Hxy; congruence. }
  eapply sinv_update; eauto.
  - intros src dst m Hin' Hm. apply in_app_or in Hin'. destruct Hin' as [Hin'|[Hin'|[]]].
    + eapply (si_bc s S); eauto.
    + inversion Hin'; subst. auto.
  - intros e He. rewrite Hle in He. left. eapply tbl_del_in; eauto.
  - intros y cy Hy Hcy. rewrite !filter_app.
    rewrite (towards_same c c' cy cy eq_refl Hs).
    unfold towards at 1. rewrite Hle.
    assert (Hback : filter (rel_pkt (st_cs s) y i0) [pkt] = []).
    { rewrite filter_one, Hother; [reflexivity | left; auto]. }
    rewrite Hback, app_nil_r.
    destruct (Nat.eq_dec y j1) as [->|Hyj].
    + rewrite Hcy in Hj1. inversion Hj1; subst cj1.
      rewrite (towards_del_single cy c ent Hkeys T1). rewrite T2.
      unfold rel in Q1, Q2. rewrite Q1, Q2. rewrite filter_one, Hrelp. simpl.
      right. right. left. right. exists e', r. unfold pkt. rewrite M1. auto.
    + rewrite towards_del_other; [| assumption |].
      * rewrite filter_one, Hother by (right; auto). rewrite app_nil_r.
        exact (si_pair s S _ _ _ _ (not_eq_sym Hy) Hi Hcy).
      * intros e He Hoe Heq. apply Hyj. rewrite Heq in Hoe. eapply (owner_unique s y j1); eauto.
  - intros x y Hx Hy. rewrite filter_app, filter_one, Hother by (left; auto). apply app_nil_r.
Qed.

(* ---- case D: a TerminateInd from i1 reaches j0 *)
Lemma sinv_terminate : forall s k i1 j0 a r c c',
  sinv s -> ginv (mkState (upd (st_cs s) j0 c') (remove_nth k (st_net s) ++ [])) ->
  nth_error (st_net s) k = Some (i1, j0, MTerm a r) ->
  nth_error (st_cs s) j0 = Some c -> addr_same c c' ->
  c_le c' = match tbl_get (c_le c) a with Some _ => tbl_del (c_le c) a | None => c_le c end ->
  sinv (mkState (upd (st_cs s) j0 c') (remove_nth k (st_net s) ++ [])).
Proof.
  intros s k i1 j0 a r c c' S G' Hk Hj Hs Hle.
  pose proof (si_g s S) as G.
  pose proof (nth_error_In _ _ Hk) as Hkin.
  destruct (g_net s G _ _ _ Hkin) as [ci1 [Hi1 Hoa]]. simpl in Hoa.
  assert (Hne : i1 <> j0) by (eapply (si_bc s S); eauto).
  pose proof (ci_le_keys c (proj1 (g_c s G _ _ Hj))) as Hkeys.
  assert (Hrelp : rel_pkt (st_cs s) i1 j0 (i1, j0, MTerm a r) = true).
  { unfold rel_pkt. now rewrite !Nat.eqb_refl, Hj. }
  pose proof (si_pair s S _ _ _ _ Hne Hi1 Hj) as Hp. unfold pair_ok in Hp.
  assert (Hin : In (i1, j0, MTerm a r) (rel s i1 j0)) by (apply filter_In; auto).
  destruct (state_with_term _ _ _ _ _ _ _ _ Hp Hin) as [e' [T1 [T2 [E1 [R1 R2]]]]].
  assert (He' : In e' (c_le c)) by (apply (proj1 (towards_in ci1 c e')); rewrite T2; now left).
  assert (Hget : tbl_get (c_le c) a = Some e') by (rewrite <- E1; now apply tbl_get_of_in).
  rewrite Hget in Hle. rewrite app_nil_r in *.
  assert (Hother : forall x y, (x <> i1 \/ y <> j0) ->
            filter (rel_pkt (st_cs s) x y) (remove_nth k (st_net s)) = filter (rel_pkt (st_cs s) x y) (st_net s)).
  { intros x y Hxy. apply (filter_remove_other _ _ _ _ Hk).
    destruct (rel_pkt (st_cs s) x y (i1, j0, MTerm a r)) eqn:E; [|reflexivity].
    apply rel_pkt_true in E. destruct E as [-> [-> _]]. destruct Hxy; congruence. }
  eapply sinv_update; eauto.
  - intros src dst m Hin' Hm. apply remove_nth_in in Hin'. eapply (si_bc s S); eauto.
  - intros e He. rewrite Hle in He. left. eapply tbl_del_in; eauto.
  - intros y cy Hy Hcy.
    rewrite (towards_same c c' cy cy eq_refl Hs).
    unfold towards at 1. rewrite Hle.
    rewrite (Hother j0 y) by (left; auto).
    destruct (Nat.eq_dec y i1) as [->|Hyi].
    + rewrite Hcy in Hi1. inversion Hi1; subst ci1.
      rewrite (filter_single_remove _ _ _ _ Hk Hrelp R1).
      rewrite <- E1. rewrite (towards_del_single cy c e' Hkeys T2).
      unfold rel in R2. rewrite R2, T1. left. auto.
    + rewrite towards_del_other; [| assumption |].
      * rewrite (Hother y j0) by (left; auto).
        exact (si_pair s S _ _ _ _ (not_eq_sym Hy) Hj Hcy).
      * intros e He Hoe Heq. apply Hyi. rewrite Heq in Hoe. eapply (owner_unique s y i1); eauto.
Qed.

Lemma owner_of_unique : forall s j cj a, ginv s -> nth_error (st_cs s) j = Some cj -> owns cj a ->
  owner_of (st_cs s) a = Some j.
Proof.
  intros s j cj a G Hj Ho. unfold owner_of.
  rewrite (find_index_unique _ _ j cj 0%nat Hj); [reflexivity | now apply owns_b_iff |].
  intros i ci Hi Hf. apply owns_b_iff in Hf. eapply (g_uniq s G); eauto.
Qed.

(* ------------------------------------------------------------------ the invariant is inductive *)
Theorem sinv_step : forall s l s' evs out, sinv s -> guard_sym s l = true ->
  step s l = (s', evs, out) -> sinv s'.
Proof.
  intros s l s' evs out S Gd H.
  pose proof (si_g s S) as G.
  assert (G' : ginv s') by (eapply ginv_step; eauto using guard_sym_static).
  pose proof H as Hstep. apply step_shape in H. destruct H.
  - now subst.
  - (* a host command or timer at controller i *)
    subst s' evs. destruct (g_c s G _ _ H0) as [Ci Ai].
    pose proof (guard_static_c _ _ _ _ (guard_sym_static _ _ Gd) H H0) as Hst.
    destruct (local_ainv _ _ _ _ _ _ _ _ Ai Hst H1) as [Hs [_ _]].
    destruct (local_le_effect _ _ _ _ _ _ _ _ H1) as [[Hle Hnc]|[i0 [h [r [ent [-> [Hcl [Hb [Hle Hfo]]]]]]]]].
    + eapply sinv_neutral; eauto. eapply local_not_self; eauto.
    + simpl in H. inversion H; subst i0.
      apply by_handle_in in Hb as Hent. destruct Hent as [Hent _].
      destruct (si_peer s S _ _ _ H0 Hent) as [j [cj [Hji [Hj Hoj]]]].
      unfold guard_sym in Gd. apply andb_true_iff in Gd. destruct Gd as [_ Gd].
      rewrite H0, Hcl, Hb, (owner_of_unique s j cj _ G Hj Hoj) in Gd.
      pose proof (disconnect_finds_peer s i j c cj ent S H0 Hj Hji Hent Hoj Gd) as Hfind.
      destruct Hfo as [[j' [Hf ->]]|[Hf _]]; [|congruence].
      rewrite Hfind in Hf. inversion Hf; subst j'.
      eapply sinv_disconnect; eauto.
  - (* delivery of message m from src to dst *)
    subst s' evs. destruct (g_c s G _ _ H2) as [Cd Ad].
    destruct (message_ainv _ _ _ _ _ _ _ _ Ad H3) as [Hs [_ _]].
    unfold guard_sym in Gd. apply andb_true_iff in Gd. destruct Gd as [_ Gd]. subst l. rewrite H0, H2 in Gd.
    assert (Hneutral : is_ctl m = false -> c_le c' = c_le c -> out = [] ->
              sinv (mkState (upd (st_cs s) dst c') (remove_nth k (st_net s) ++ out))).
    { intros Hm Hle ->. eapply sinv_neutral; eauto.
      - intros ? ? ? [].
      - intros ? ? ? [].
      - intros p. apply remove_nth_in.
      - intros x y. apply (filter_remove_other _ _ _ _ H0).
        destruct (rel_pkt (st_cs s) x y (src, dst, m)) eqn:E; [|reflexivity].
        apply rel_pkt_true in E. destruct E as [_ [_ [cy [_ Hr]]]]. apply rel_msg_ctl in Hr. congruence. }
    destruct m.
    + (* MAdv *)
      destruct (adv_le_effect _ _ _ _ _ _ _ _ _ _ H3) as [[Hle ->]|[Hcr [own [h [Hp [Hn [Hle ->]]]]]]].
      * apply Hneutral; auto.
      * rewrite Hcr in Gd. eapply sinv_create; eauto.
    + (* MConnInd *)
      pose proof (connind_le_effect _ _ _ _ _ _ _ _ _ H3) as Hacc.
      destruct (owns_b c adv) eqn:Eo.
      * apply owns_b_iff in Eo. destruct (accepts c adv) eqn:Ea.
        -- destruct Hacc as [-> [h Hle]]. eapply sinv_accept; eauto.
        -- destruct (alloc c) as [h0|] eqn:Hal; [|discriminate].
           assert (Hal' : alloc c <> None) by congruence.
           destruct (connind_refused _ _ _ _ _ _ _ _ _ Hal' Ea H3) as [-> [_ ->]].
           eapply sinv_refuse; eauto.
      * apply owns_b_false in Eo.
        destruct (connect_ind_effect _ _ _ _ _ _ _ _ _ Ad H3) as [Hign _].
        destruct (Hign Eo) as [-> [_ ->]]. eapply sinv_ignore; eauto.
    + (* MTerm *)
      destruct (term_le_effect _ _ _ _ _ _ _ _ _ H3) as [-> Hle]. eapply sinv_terminate; eauto.
    + destruct (other_le_effect _ _ _ _ _ _ _ _ H3 eq_refl eq_refl) as [Hle Ho]. apply Hneutral; auto.
    + destruct (other_le_effect _ _ _ _ _ _ _ _ H3 eq_refl eq_refl) as [Hle Ho]. apply Hneutral; auto.
    + destruct (other_le_effect _ _ _ _ _ _ _ _ H3 eq_refl eq_refl) as [Hle Ho]. apply Hneutral; auto.
    + destruct (other_le_effect _ _ _ _ _ _ _ _ H3 eq_refl eq_refl) as [Hle Ho]. apply Hneutral; auto.
    + destruct (other_le_effect _ _ _ _ _ _ _ _ H3 eq_refl eq_refl) as [Hle Ho]. apply Hneutral; auto.
    + destruct (other_le_effect _ _ _ _ _ _ _ _ H3 eq_refl eq_refl) as [Hle Ho]. apply Hneutral; auto.
    + destruct (other_le_effect _ _ _ _ _ _ _ _ H3 eq_refl eq_refl) as [Hle Ho]. apply Hneutral; auto.
  - (* a message to a controller that does not exist is dropped *)
    subst s' evs out. destruct S as [_ Sbc Speer Spair]. constructor; simpl; auto.
    + intros src0 dst0 m0 Hin Hm. apply remove_nth_in in Hin. eauto.
    + intros i j ci cj Hij Hi Hj. specialize (Spair i j ci cj Hij Hi Hj). unfold pair_ok, rel in *. simpl.
      assert (Hrm : forall x y cy, nth_error (st_cs s) y = Some cy ->
                filter (rel_pkt (st_cs s) x y) (remove_nth k (st_net s)) = filter (rel_pkt (st_cs s) x y) (st_net s)).
      { intros x y cy Hy. apply (filter_remove_other _ _ _ _ H0).
        destruct (rel_pkt (st_cs s) x y (src, dst, m)) eqn:E; [|reflexivity].
        apply rel_pkt_true in E. destruct E as [_ [-> [cy0 [Hy0 _]]]]. congruence. }
      rewrite (Hrm i j cj Hj), (Hrm j i ci Hi). exact Spair.
Qed.

Lemma sinv_run : forall ls s, sinv s -> run_ok guard_sym s ls = true -> sinv (run_state s ls).
Proof.
  induction ls as [|l ls IH]; intros s I H.
  - exact I.
  - rewrite run_state_cons. simpl in H. apply andb_true_iff in H. destruct H as [Gd H].
    apply IH; [|exact H]. destruct (step s l) as [[s1 e] o] eqn:Hs. simpl. eapply sinv_step; eauto.
Qed.

Lemma sinv_init : forall cfg, cfg_ok cfg = true -> sinv (init cfg).
Proof.
  intros cfg H. pose proof (ginv_init cfg H) as G.
  assert (Hle : forall i c, nth_error (st_cs (init cfg)) i = Some c -> c_le c = []).
  { unfold init; simpl. intros i c Hc. rewrite nth_error_map in Hc.
    destruct (nth_error cfg i) as [[[p r] x]|]; [|discriminate]. simpl in Hc. inversion Hc; subst. reflexivity. }
  constructor; auto.
  - intros i ci e Hi He. rewrite (Hle _ _ Hi) in He. contradiction.
  - intros i j ci cj Hij Hi Hj. unfold pair_ok, towards, rel. rewrite (Hle _ _ Hi), (Hle _ _ Hj). simpl.
    left. auto.
Qed.

(* tables_symmetric: in every state reachable by a schedule satisfying the guard, for any two
   controllers i and j with no link-layer control message in flight between them, i holds a
   connection to an address b of j with own address a exactly when j holds one to a with own
   address b, in the opposite role (and each side holds at most one towards the other). *)
Theorem tables_symmetric : forall cfg ls i j ci cj, cfg_ok cfg = true ->
  run_ok guard_sym (init cfg) ls = true ->
  let s := run_state (init cfg) ls in
  i <> j -> nth_error (st_cs s) i = Some ci -> nth_error (st_cs s) j = Some cj ->
  pair_quiet s i j = true ->
  (towards cj ci = [] /\ towards ci cj = []) \/
  (exists e e', towards cj ci = [e] /\ towards ci cj = [e'] /\ mirror e e').
Proof.
  intros cfg ls i j ci cj Hc Hr s Hij Hi Hj Hq.
  pose proof (sinv_run ls (init cfg) (sinv_init cfg Hc) Hr) as S. fold s in S.
  pose proof (si_pair s S _ _ _ _ Hij Hi Hj) as Hp. unfold pair_ok in Hp.
  unfold pair_quiet in Hq. apply andb_true_iff in Hq. destruct Hq as [Q1 Q2]. apply nil_b_iff in Q1, Q2.
  destruct Hp as [H|[H|[H|H]]].
  - left. tauto.
  - right. destruct H as [e [e' [T1 [T2 [M _]]]]]. eauto.
  - destruct H as [[e [_ [_ [_ [R1 _]]]]]|[e' [r' [_ [_ [R1 _]]]]]]; rewrite Q1 in R1; discriminate.
  - destruct H as [[e [_ [_ [_ [R1 _]]]]]|[e' [r' [_ [_ [R1 _]]]]]]; rewrite Q2 in R1; discriminate.
Qed.

(* every LE connection is towards an address of exactly one other controller *)
Theorem peer_is_other_controller : forall cfg ls i ci e, cfg_ok cfg = true ->
  run_ok guard_sym (init cfg) ls = true ->
  let s := run_state (init cfg) ls in
  nth_error (st_cs s) i = Some ci -> In e (c_le ci) ->
  exists j cj, j <> i /\ nth_error (st_cs s) j = Some cj /\ In e (towards cj ci).
Proof.
  intros cfg ls i ci e Hc Hr s Hi He.
  pose proof (sinv_run ls (init cfg) (sinv_init cfg Hc) Hr) as S. fold s in S.
  destruct (si_peer s S _ _ _ Hi He) as [j [cj [H1 [H2 H3]]]]. exists j, cj. repeat split; auto.
  apply towards_in. auto.
Qed.

(* The guard is needed: two controllers that advertise and connect to each other at the same
   time, each using the address it advertises as its own address.  The second creation happens
   while the first ConnectInd is in flight (pair not idle); both tables are keyed by peer address,
   so each accepted ConnectInd overwrites the central connection: the schedule satisfies the
   address hypotheses but not the guard, and ends, with nothing in flight, with two peripheral
   entries facing each other. *)
Lemma tables_symmetric_refuted_without_guard : exists cfg ls,
  cfg_ok cfg = true /\ run_ok guard_static (init cfg) ls = true /\ run_ok guard_sym (init cfg) ls = false /\
  let s := run_state (init cfg) ls in
  pair_quiet s 0 1 = true /\
  match nth_error (st_cs s) 0, nth_error (st_cs s) 1 with
  | Some c0, Some c1 =>
      match towards c1 c0, towards c0 c1 with
      | [e], [e'] => Bool.eqb (k_central e) (k_central e')
      | _, _ => false
      end
  | _, _ => false
  end = true.
Proof.
  exists [(10, 11, false); (20, 21, false)].
  exists [LAdvParams 0 false true; LAdvEnable 0 true; LAdvParams 1 false true; LAdvEnable 1 true;
          LConnect 0 21 false; LConnect 1 11 false; LTick 0; LTick 1;
          LDeliver 0; LDeliver 0; LDeliver 0; LDeliver 0].
  vm_compute. repeat split.
Qed.

(* the race of finding D06d (two centrals, one advertiser) is inside the guard since D06d.patch:
   the loser is refused and both tables end up symmetric *)
Lemma race_is_symmetric :
  let cfg := [(10, 11, false); (20, 21, false); (30, 31, false)] in
  let ls := [LConnect 0 31 false; LConnect 1 31 false; LAdvParams 2 false true; LAdvEnable 2 true; LTick 2;
             LDeliver 0; LDeliver 0; LDeliver 0; LDeliver 0; LDeliver 0; LDeliver 0; LDeliver 0] in
  cfg_ok cfg = true /\ run_ok guard_sym (init cfg) ls = true /\
  let '(s, tr) := run (init cfg) ls in
  st_net s = [] /\ map (fun c => map conn_obs (c_le c)) (st_cs s) = [[(31, 11, 1, true)]; []; [(11, 31, 1, false)]] /\
  In [(1%nat, EDisc 1 62)] (map fst tr).
Proof. vm_compute. repeat split. do 11 right. left. reflexivity. Qed.
