(* C17 - lemmas about Model/HostileSdp.v (sdp.py DataElementParser). *)
From Coq Require Import ZArith List Bool Lia.
From BV Require Import Model.HostileSdp.
Import ListNotations.
Open Scope Z_scope.

Definition bytes_ok (data : list Z) : bool := forallb (fun b => (0 <=? b) && (b <? 256)) data.

Lemma bytes_ok_In : forall data b, bytes_ok data = true -> In b data -> 0 <= b < 256.
Proof.
  intros data b H Hin. unfold bytes_ok in H. rewrite forallb_forall in H.
  apply H in Hin. apply andb_true_iff in Hin. destruct Hin as [H1 H2].
  apply Z.leb_le in H1. apply Z.ltb_lt in H2. lia.
Qed.

Lemma In_firstn' : forall (A : Type) n (l : list A) x, In x (firstn n l) -> In x l.
Proof.
  induction n; intros l x H; [destruct H|]. destruct l; [destruct H|].
  destruct H as [H|H]; [left; exact H | right; apply IHn; exact H].
Qed.

Lemma bytes_ok_firstn : forall n data, bytes_ok data = true -> bytes_ok (firstn n data) = true.
Proof.
  intros n data H. unfold bytes_ok in *. rewrite forallb_forall in *.
  intros x Hx. apply H. eapply In_firstn'; eauto.
Qed.

Lemma In_skipn : forall (A : Type) n (l : list A) x, In x (skipn n l) -> In x l.
Proof.
  induction n; intros l x H; [exact H|]. destruct l; [exact H|]. right. apply IHn. exact H.
Qed.

Lemma bytes_ok_skipn : forall n data, bytes_ok data = true -> bytes_ok (skipn n data) = true.
Proof.
  intros n data H. unfold bytes_ok in *. rewrite forallb_forall in *.
  intros x Hx. apply H. eapply In_skipn; eauto.
Qed.

Lemma bytes_ok_slice : forall data off n, bytes_ok data = true -> bytes_ok (slice data off n) = true.
Proof. intros. unfold slice. apply bytes_ok_firstn, bytes_ok_skipn. assumption. Qed.

Lemma be_int_acc_nonneg : forall bs acc, bytes_ok bs = true -> 0 <= acc ->
  0 <= fold_left (fun a b => a * 256 + b) bs acc.
Proof.
  induction bs as [|b rest IH]; intros acc H Hacc; simpl; [assumption|].
  simpl in H. apply andb_true_iff in H. destruct H as [Hb Hr].
  apply andb_true_iff in Hb. destruct Hb as [H1 H2]. apply Z.leb_le in H1.
  apply IH; [assumption | lia].
Qed.

Lemma be_int_nonneg : forall bs, bytes_ok bs = true -> 0 <= be_int bs.
Proof. intros. unfold be_int. apply be_int_acc_nonneg; [assumption | lia]. Qed.

Lemma byte_at_some : forall data off b, 0 <= off -> byte_at data off = Some b ->
  off < zlen data /\ In b data.
Proof.
  intros data off b Hoff H. unfold byte_at in H.
  destruct (off <? zlen data) eqn:E; [|discriminate]. apply Z.ltb_lt in E.
  split; [assumption|]. eapply nth_error_In; eauto.
Qed.

(* a decoded size descriptor lies inside the data and the value size is not negative *)
Lemma value_size_bounds : forall data off etype si vsize szlen,
  bytes_ok data = true -> 0 <= off -> off <= zlen data ->
  value_size data off etype si = inr (vsize, szlen) ->
  0 <= vsize /\ 0 <= szlen /\ off + szlen <= zlen data.
Proof.
  intros data off etype si vsize szlen Hok Hoff Hlen H. unfold value_size in H.
  destruct si as [|p|p].
  - inversion H; subst. destruct (etype =? 0); lia.
  - assert (Hpos : forall v, @inr serr (Z * Z) (v, 0) = inr (vsize, szlen) -> 0 <= v -> 0 <= vsize /\ 0 <= szlen /\ off + szlen <= zlen data)
      by (intros v Hv Hv0; inversion Hv; subst; lia).
    destruct p as [p|p|]; try destruct p as [p|p|]; try destruct p as [p|p|];
      try (eapply Hpos; [exact H | lia]).
    all: try (destruct (off + 4 <=? zlen data) eqn:E; [|discriminate]; apply Z.leb_le in E;
              inversion H; subst; split; [apply be_int_nonneg, bytes_ok_slice; assumption | lia]).
    + (* 5 *) destruct (byte_at data off) as [b|] eqn:B; [|discriminate].
      apply byte_at_some in B; [|assumption]. destruct B as [B1 B2].
      pose proof (bytes_ok_In data b Hok B2). inversion H; subst. lia.
    + (* 6 *) destruct (off + 2 <=? zlen data) eqn:E; [|discriminate]. apply Z.leb_le in E.
      inversion H; subst. split; [apply be_int_nonneg, bytes_ok_slice; assumption | lia].
  - destruct (off + 4 <=? zlen data) eqn:E; [|discriminate]. apply Z.leb_le in E.
    inversion H; subst. split; [apply be_int_nonneg, bytes_ok_slice; assumption | lia].
Qed.

Section Proofs.
  Variable strict : bool.
  Variable maxd : Z.
  Variable data : list Z.
  Hypothesis Hok : bytes_ok data = true.

  Let L := zlen data.
  Let D := Z.max maxd 0.

  Notation pn := (parse_next strict maxd data).
  Notation ll := (list_loop strict maxd data).

  Lemma L_nonneg : 0 <= L.
  Proof. unfold L, zlen. lia. Qed.

  Lemma pn_eq : forall f off depth, pn (S f) off depth = parse_body maxd data (ll f) off depth.
  Proof. reflexivity. Qed.

  Lemma ll_eq : forall f off end_off depth,
    ll (S f) off end_off depth = loop_body strict (pn f) (ll f) off end_off depth.
  Proof. reflexivity. Qed.

  (* One unfolding of parse_next, with the header facts every proof needs. *)
  Lemma parse_next_unfold : forall f off depth, 0 <= off ->
    (byte_at data off = None /\ pn (S f) off depth = SErr SOffsetBeyond 1) \/
    (exists hd, byte_at data off = Some hd /\ off < L /\
      ((exists e0, value_size data (off + 1) (hd / 8) (hd mod 8) = inl e0 /\
                   pn (S f) off depth = SErr e0 1) \/
       (exists vsize szlen, value_size data (off + 1) (hd / 8) (hd mod 8) = inr (vsize, szlen) /\
          0 <= vsize /\ 0 <= szlen /\ off + 1 + szlen <= L))).
  Proof.
    intros f off depth Hoff. rewrite pn_eq. unfold parse_body.
    destruct (byte_at data off) as [hd|] eqn:B; [right | left; auto].
    apply byte_at_some in B; [|assumption]. destruct B as [B1 _].
    exists hd. split; [reflexivity|]. split; [exact B1|].
    destruct (value_size data (off + 1) (hd / 8) (hd mod 8)) as [e0|[vsize szlen]] eqn:V.
    - left. exists e0. auto.
    - right. exists vsize, szlen. split; [reflexivity|].
      apply value_size_bounds in V; [|assumption|lia|unfold L in *; lia]. unfold L. lia.
  Qed.

  (* ---------------------------------------------------------------- shape of a success *)
  Lemma parse_next_ok_shape : forall fuel off depth e off' n,
    0 <= off -> pn fuel off depth = SOk e off' n -> off < L /\ off < off'.
  Proof.
    intros fuel off depth e off' n Hoff H. destruct fuel as [|f]; [discriminate|].
    destruct (parse_next_unfold f off depth Hoff)
      as [[_ E]|[hd [B [B1 [[e0 [V E]]|[vsize [szlen [V [V1 [V2 V3]]]]]]]]]].
    - rewrite E in H. discriminate.
    - rewrite E in H. discriminate.
    - split; [exact B1|]. rewrite pn_eq in H. unfold parse_body in H. rewrite B, V in H.
      assert (Hend : off < off + 1 + szlen + vsize) by lia.
      repeat match type of H with
      | (if ?c then _ else _) = _ => destruct c
      | match int_from_bytes ?s ?d ?a ?b with _ => _ end = _ => destruct (int_from_bytes s d a b)
      | match byte_at ?d ?o with _ => _ end = _ => destruct (byte_at d o)
      | match ll ?f ?o ?e ?dd with _ => _ end = _ => destruct (ll f o e dd)
      end; try discriminate; inversion H; subst; exact Hend.
  Qed.

  (* ---------------------------------------------------------------- fuel is never used up *)
  Definition m (off : Z) : Z := L + 2 - Z.min off (L + 1).
  Definition Mp (off depth : Z) : Z := (D + 1 - depth) * (L + 4) + m off.

  Lemma m_bounds : forall off, 0 <= off -> 1 <= m off <= L + 2.
  Proof. intros. unfold m. pose proof L_nonneg. lia. Qed.

  Lemma m_decr : forall off off', 0 <= off -> off < L -> off < off' -> m off' <= m off - 1.
  Proof. intros. unfold m. lia. Qed.

  Lemma fuel_enough : forall fuel,
    (forall off depth, 0 <= off -> 0 <= depth <= D -> Mp off depth <= Z.of_nat fuel ->
       pn fuel off depth <> SOutOfFuel) /\
    (forall off end_off depth, 0 <= off -> 0 <= depth <= D -> Mp off depth + 1 <= Z.of_nat fuel ->
       ll fuel off end_off depth <> LOutOfFuel).
  Proof.
    pose proof L_nonneg as HL.
    induction fuel as [|f [IHp IHl]].
    - split; intros; exfalso.
      + pose proof (m_bounds off H). unfold Mp in H1. nia.
      + pose proof (m_bounds off H). unfold Mp in H1. nia.
    - split.
      + intros off depth Hoff Hd Hf.
        destruct (parse_next_unfold f off depth Hoff)
          as [[_ E]|[hd [B [B1 [[e0 [V E]]|[vsize [szlen [V [V1 [V2 V3]]]]]]]]]].
        * rewrite E. discriminate.
        * rewrite E. discriminate.
        * rewrite pn_eq. unfold parse_body. rewrite B, V.
          repeat match goal with
          | |- (if maxd <=? depth then _ else _) <> _ => fail 1
          | |- (if ?c then _ else _) <> _ => destruct c
          | |- match int_from_bytes ?s ?d ?a ?b with _ => _ end <> _ => destruct (int_from_bytes s d a b)
          | |- match byte_at ?d ?o with _ => _ end <> _ => destruct (byte_at d o)
          end; try discriminate.
          destruct (maxd <=? depth) eqn:E; [discriminate|]. apply Z.leb_gt in E.
          assert (Hne : ll f (off + 1 + szlen) (off + 1 + szlen + vsize) (depth + 1) <> LOutOfFuel).
          { apply IHl; [lia | unfold D in *; lia |].
            pose proof (m_bounds off Hoff). pose proof (m_bounds (off + 1 + szlen) ltac:(lia)).
            unfold Mp in *. rewrite Nat2Z.inj_succ in Hf. nia. }
          destruct (ll f (off + 1 + szlen) (off + 1 + szlen + vsize) (depth + 1)); [discriminate | discriminate | congruence].
      + intros off end_off depth Hoff Hd Hf. rewrite ll_eq. unfold loop_body.
        destruct (off <? end_off); [|discriminate].
        rewrite Nat2Z.inj_succ in Hf.
        assert (Hp : pn f off depth <> SOutOfFuel) by (apply IHp; [assumption | assumption | lia]).
        destruct (pn f off depth) as [e off' n| |] eqn:P; [|discriminate|congruence].
        destruct (strict && (end_off <? off')); [discriminate|].
        apply parse_next_ok_shape in P; [|assumption]. destruct P as [P1 P2].
        assert (Hl : ll f off' end_off depth <> LOutOfFuel).
        { apply IHl; [lia | assumption |]. pose proof (m_decr off off' Hoff P1 P2). unfold Mp in *. lia. }
        destruct (ll f off' end_off depth); [discriminate | discriminate | congruence].
  Qed.

  Theorem element_from_bytes_terminates : element_from_bytes strict maxd data <> SOutOfFuel.
  Proof.
    unfold element_from_bytes. apply (proj1 (fuel_enough (sdp_fuel maxd data))); [lia | unfold D; lia |].
    unfold sdp_fuel. fold L. fold D. pose proof L_nonneg as HL.
    assert (HD : 0 <= D) by (unfold D; lia).
    rewrite Z2Nat.id by nia. unfold Mp, m. rewrite Z.min_l by lia. nia.
  Qed.

  (* ---------------------------------------------------------------- work bound (strict) *)
  Definition ok_bound (off off' n : Z) : Prop := off < L /\ off < off' /\ 1 <= n <= Z.min off' L - off.
  Definition err_bound (off n : Z) : Prop := 0 <= n <= Z.max (L + 1 - off) 1.

  Definition pn_spec (fuel : nat) : Prop := forall off depth, 0 <= off ->
    match pn fuel off depth with
    | SOk _ off' n => ok_bound off off' n
    | SErr _ n => 1 <= n /\ err_bound off n
    | SOutOfFuel => True
    end.

  Definition ll_spec (fuel : nat) : Prop := forall off end_off depth, 0 <= off ->
    match ll fuel off end_off depth with
    | LOk _ off' n =>
        (off < end_off -> off < L /\ off < off' /\ off' <= end_off /\ 0 <= n <= Z.min off' L - off) /\
        (end_off <= off -> off' = off /\ n = 0)
    | LErr _ n => err_bound off n
    | LOutOfFuel => True
    end.

  Lemma leaf_ok : forall off vend, off < L -> off < vend -> ok_bound off vend 1.
  Proof. intros. unfold ok_bound. lia. Qed.

  Lemma leaf_err : forall off, off < L -> 1 <= 1 /\ err_bound off 1.
  Proof. intros. unfold err_bound. lia. Qed.

  Lemma work_spec : strict = true -> forall fuel, pn_spec fuel /\ ll_spec fuel.
  Proof.
    intros Hstrict. pose proof L_nonneg as HL.
    induction fuel as [|f [IHp IHl]].
    - split; intros off; intros; exact I.
    - split.
      + intros off depth Hoff.
        destruct (parse_next_unfold f off depth Hoff) as [[_ E]|[hd [B [B1 [[e0 [V E]]|[vsize [szlen [V [V1 [V2 V3]]]]]]]]]].
        * rewrite E. unfold err_bound. lia.
        * rewrite E. apply leaf_err. assumption.
        * rewrite pn_eq. unfold parse_body. rewrite B, V.
          assert (Hend : off < off + 1 + szlen + vsize) by lia.
          destruct (hd / 8 =? 0); [apply leaf_ok; assumption|].
          destruct (hd / 8 =? 1).
          { destruct (int_from_bytes false data (off + 1 + szlen) vsize); [apply leaf_err | apply leaf_ok]; assumption. }
          destruct (hd / 8 =? 2).
          { destruct (int_from_bytes true data (off + 1 + szlen) vsize); [apply leaf_err | apply leaf_ok]; assumption. }
          destruct (hd / 8 =? 3).
          { match goal with |- context [if ?c then _ else _] => destruct c end; [apply leaf_ok | apply leaf_err]; assumption. }
          destruct (hd / 8 =? 4); [apply leaf_ok; assumption|].
          destruct (hd / 8 =? 5).
          { destruct (byte_at data (off + 1 + szlen)); [apply leaf_ok | apply leaf_err]; assumption. }
          destruct ((hd / 8 =? 6) || (hd / 8 =? 7)).
          { destruct (maxd <=? depth); [apply leaf_err; assumption|].
            specialize (IHl (off + 1 + szlen) (off + 1 + szlen + vsize) (depth + 1) ltac:(lia)).
            destruct (ll f (off + 1 + szlen) (off + 1 + szlen + vsize) (depth + 1)) as [l off'' n|e n|]; [| |exact I].
            - destruct IHl as [I1 I2]. unfold ok_bound.
              destruct (Z.lt_ge_cases (off + 1 + szlen) (off + 1 + szlen + vsize)) as [Hlt|Hge].
              + specialize (I1 Hlt). lia.
              + specialize (I2 Hge). lia.
            - unfold err_bound in *. lia. }
          destruct (hd / 8 =? 8).
          { destruct (all_ascii (slice data (off + 1 + szlen) vsize)); [apply leaf_ok | apply leaf_err]; assumption. }
          apply leaf_ok; assumption.
      + intros off end_off depth Hoff. rewrite ll_eq. unfold loop_body.
        destruct (off <? end_off) eqn:E.
        * apply Z.ltb_lt in E. specialize (IHp off depth Hoff).
          destruct (pn f off depth) as [e off' n|e n|]; [| |exact I].
          -- destruct IHp as [P1 [P2 P3]].
             replace (strict && (end_off <? off')) with (end_off <? off') by (rewrite Hstrict; reflexivity).
             destruct (end_off <? off') eqn:E2.
             ++ apply Z.ltb_lt in E2. unfold err_bound. lia.
             ++ apply Z.ltb_ge in E2.
                specialize (IHl off' end_off depth ltac:(lia)).
                destruct (ll f off' end_off depth) as [l off'' n'|e' n'|]; [| |exact I].
                ** destruct IHl as [I1 I2]. split; [|lia]. intros _.
                   destruct (Z.lt_ge_cases off' end_off) as [Hlt|Hge].
                   --- specialize (I1 Hlt). lia.
                   --- specialize (I2 Hge). lia.
                ** unfold err_bound in *. lia.
          -- unfold err_bound in *. lia.
        * apply Z.ltb_ge in E. split; [lia|]. intros _. split; reflexivity.
  Qed.

  (* with D17b.patch the parser never makes more parse_next calls than there are bytes (+1) *)
  Theorem element_work_linear : strict = true -> forall fuel off depth, 0 <= off ->
    0 <= steps_of (pn fuel off depth) <= Z.max (L + 1 - off) 1.
  Proof.
    intros Hstrict fuel off depth Hoff. pose proof L_nonneg as HL.
    pose proof (proj1 (work_spec Hstrict fuel) off depth Hoff) as H.
    destruct (pn fuel off depth) as [e off' n|e n|]; cbn [steps_of].
    - unfold ok_bound in H. lia.
    - unfold err_bound in H. lia.
    - lia.
  Qed.

  (* a container is rejected as soon as the nesting limit is reached *)
  Lemma nesting_limit : forall f off depth hd vsize szlen,
    0 <= off -> byte_at data off = Some hd -> (hd / 8 =? 6) || (hd / 8 =? 7) = true ->
    value_size data (off + 1) (hd / 8) (hd mod 8) = inr (vsize, szlen) ->
    maxd <= depth -> pn (S f) off depth = SErr SNesting 1.
  Proof.
    intros f off depth hd vsize szlen Hoff B T V Hd. rewrite pn_eq. unfold parse_body. rewrite B, V.
    apply orb_true_iff in T.
    assert (N0 : hd / 8 =? 0 = false) by (destruct T as [T|T]; apply Z.eqb_eq in T; rewrite T; reflexivity).
    assert (N1 : hd / 8 =? 1 = false) by (destruct T as [T|T]; apply Z.eqb_eq in T; rewrite T; reflexivity).
    assert (N2 : hd / 8 =? 2 = false) by (destruct T as [T|T]; apply Z.eqb_eq in T; rewrite T; reflexivity).
    assert (N3 : hd / 8 =? 3 = false) by (destruct T as [T|T]; apply Z.eqb_eq in T; rewrite T; reflexivity).
    assert (N4 : hd / 8 =? 4 = false) by (destruct T as [T|T]; apply Z.eqb_eq in T; rewrite T; reflexivity).
    assert (N5 : hd / 8 =? 5 = false) by (destruct T as [T|T]; apply Z.eqb_eq in T; rewrite T; reflexivity).
    rewrite N0, N1, N2, N3, N4, N5.
    replace ((hd / 8 =? 6) || (hd / 8 =? 7)) with true by (symmetry; apply orb_true_iff; exact T).
    apply Z.leb_le in Hd. rewrite Hd. reflexivity.
  Qed.
End Proofs.

(* the unpatched parser does work that is not linear in the input *)
Lemma sdp_work_linear_refuted :
  exists data, bytes_ok data = true /\
    steps_of (element_from_bytes false 32 data) > 30 * zlen data.
Proof.
  exists (overrun_witness 6 (repeat 0 50)). split; vm_compute; reflexivity.
Qed.

(* DataElement.from_bytes with D17b.patch: at most len + 1 parse_next calls *)
Lemma element_from_bytes_work_linear : forall maxd data, bytes_ok data = true ->
  0 <= steps_of (element_from_bytes true maxd data) <= zlen data + 1.
Proof.
  intros maxd data H. unfold element_from_bytes.
  pose proof (element_work_linear true maxd data H eq_refl (sdp_fuel maxd data) 0 0 (Z.le_refl 0)) as B.
  assert (0 <= zlen data) by (unfold zlen; lia). cbv zeta in B. lia.
Qed.
