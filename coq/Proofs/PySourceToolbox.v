(* C14 - the toolbox models equal the denotation of the current source of
   bumble/crypto/__init__.py (Gen/C14Source.v, regenerated on every run). *)
From Coq Require Import ZArith List Bool String Lia ZifyBool.
From BV Require Import Model.CryptoBytes Model.PyAst Model.SmToolbox Gen.C14Source Proofs.CryptoBytes.
Import ListNotations.
Open Scope string_scope.
Open Scope list_scope.
Open Scope Z_scope.

Fixpoint ints_of (l : list val) : option (list Z) :=
  match l with
  | [] => Some []
  | VInt z :: r => match ints_of r with Some zs => Some (z :: zs) | None => None end
  | _ => None
  end.

Section Toolbox.
  Variable e : list Z -> list Z -> list Z.
  Variable aes_cmac : list Z -> list Z -> list Z.
  Variable tokens : list Z.          (* what secrets.token_bytes returns *)

  (* builtins and module-level names used by crypto/__init__.py *)
  Definition prim_tb (f : string) (args : list val) : val :=
    if any_err args then VErr else
    if String.eqb f "e" then match args with [VBytes k; VBytes d] => VBytes (e k d) | _ => VErr end else
    if String.eqb f "aes_cmac" then match args with [VBytes m; VBytes k] => VBytes (aes_cmac m k) | _ => VErr end else
    if String.eqb f "reverse" then match args with [VBytes b] => VBytes (rev b) | _ => VErr end else
    if String.eqb f "[::-1]" then match args with [VBytes b] => VBytes (rev b) | _ => VErr end else
    if String.eqb f "xor" then
      match args with [VBytes x; VBytes y] => match xor_assert x y with Some r => VBytes r | None => VErr end | _ => VErr end else
    if String.eqb f "bytes(map(operator.xor))" then match args with [VBytes x; VBytes y] => VBytes (xor_zip x y) | _ => VErr end else
    if String.eqb f "bytes" then
      match args with
      | [VInt n] => match n with Zneg _ => VErr | _ => VBytes (zeros (Z.to_nat n)) end
      | [VTuple l] => match ints_of l with Some zs => match bytes_of zs with Some b => VBytes b | None => VErr end | None => VErr end
      | _ => VErr
      end else
    if String.eqb f "len" then match args with [VBytes b] => VInt (len b) | _ => VErr end else
    if String.eqb f "int.from_bytes" then match args with [VBytes b; VStr "big"; VBool false] => VInt (be_int b) | _ => VErr end else
    if String.eqb f "secrets.token_bytes" then match args with [VInt n] => if len tokens =? n then VBytes tokens else VErr | _ => VErr end else
    VErr.

  Definition no_attr (n : string) (v : val) : val := VErr.
  Definition no_op (op : binop) (a b : val) : val := VErr.
  Definition no_meth (n : string) : option (list string * list stmt) := None.

  Definition run (ps : list string) (body : list stmt) (args : list val) : val :=
    result_of (call prim_tb no_attr no_op no_meth 40 [] ps body args).

  Ltac fold_consts :=
    repeat match goal with
    | |- context [Z.ltb ?a ?b] =>
        let v := eval vm_compute in (Z.ltb a b) in
        match v with true => change (Z.ltb a b) with true | false => change (Z.ltb a b) with false end
    | |- context [Z.leb ?a ?b] =>
        let v := eval vm_compute in (Z.leb a b) in
        match v with true => change (Z.leb a b) with true | false => change (Z.leb a b) with false end
    | |- context [bytes_of ?l] =>
        let v := eval vm_compute in (bytes_of l) in
        match v with Some _ => change (bytes_of l) with v end
    | |- context [Z.eqb ?a ?b] =>
        let v := eval vm_compute in (Z.eqb a b) in
        match v with true => change (Z.eqb a b) with true | false => change (Z.eqb a b) with false end
    end.
  Ltac py_step :=
    cbv -[Z.eqb Z.ltb Z.leb Z.add Z.sub Z.mul Z.pow Z.modulo Z.div Z.lxor Z.land Z.lor Z.shiftl Z.shiftr
          Z.min Z.max Z.to_nat Z.of_nat len xor_zip py_slice py_splice rev app zeros be_int to_be
          bytes_ok bytes_of xor_assert nth];
    fold_consts.
  Ltac py := unfold run, call; repeat progress py_step.
  (* the same, also computing bytes([...]) of literals (kept folded in [py] for symbolic lists) *)
  Ltac py_step' :=
    cbv -[Z.eqb Z.ltb Z.leb Z.add Z.sub Z.mul Z.pow Z.modulo Z.div Z.lxor Z.land Z.lor Z.shiftl Z.shiftr
          Z.min Z.max Z.to_nat Z.of_nat len xor_zip py_slice py_splice rev app zeros be_int to_be
          xor_assert nth];
    fold_consts.
  Ltac py' := unfold run, call; repeat progress py_step'.

  Theorem reverse_matches_source : forall b,
    run src_reverse_params src_reverse [VBytes b] = VBytes (rev b).
  Proof. reflexivity. Qed.

  Theorem xor_matches_source : forall x y,
    run src_xor_params src_xor [VBytes x; VBytes y] =
    match xor_assert x y with Some r => VBytes r | None => VErr end.
  Proof. intros x y. unfold xor_assert. py. destruct (len x =? len y); reflexivity. Qed.

  Theorem ah_matches_source : forall k r,
    run src_ah_params src_ah [VBytes k; VBytes r] = VBytes (ah e k r).
  Proof. intros. py'. reflexivity. Qed.

  Theorem c1_matches_source : forall k r preq pres iat rat ia ra,
    run src_c1_params src_c1 [VBytes k; VBytes r; VBytes preq; VBytes pres; VInt iat; VInt rat; VBytes ia; VBytes ra] =
    match c1 e k r preq pres iat rat ia ra with Some o => VBytes o | None => VErr end.
  Proof.
    intros. unfold c1. py.
    destruct (bytes_of [iat; rat]) as [h|]; [|reflexivity]. py.
    destruct (xor_assert r (h ++ preq ++ pres)) as [x1|] eqn:E1.
    - rewrite <- !app_assoc. rewrite E1. py.
      destruct (xor_assert (e k x1) (ra ++ ia ++ [0; 0; 0; 0])); reflexivity.
    - rewrite <- !app_assoc. rewrite E1. reflexivity.
  Qed.

  Theorem s1_matches_source : forall k r1 r2,
    run src_s1_params src_s1 [VBytes k; VBytes r1; VBytes r2] = VBytes (s1 e k r1 r2).
  Proof. intros. py'. reflexivity. Qed.

  Theorem f4_matches_source : forall u v x z,
    run src_f4_params src_f4 [VBytes u; VBytes v; VBytes x; VBytes z] = VBytes (f4 aes_cmac u v x z).
  Proof. intros. py'. unfold f4. rewrite <- app_assoc. reflexivity. Qed.

  Theorem f5_matches_source : forall w n1 n2 a1 a2,
    run src_f5_params src_f5 [VBytes w; VBytes n1; VBytes n2; VBytes a1; VBytes a2] =
    VTuple [VBytes (fst (f5 aes_cmac w n1 n2 a1 a2)); VBytes (snd (f5 aes_cmac w n1 n2 a1 a2))].
  Proof. intros. py'. unfold f5. cbn [fst snd]. rewrite <- !app_assoc. reflexivity. Qed.

  Theorem f6_matches_source : forall w n1 n2 r io_cap a1 a2,
    run src_f6_params src_f6 [VBytes w; VBytes n1; VBytes n2; VBytes r; VBytes io_cap; VBytes a1; VBytes a2] =
    VBytes (f6 aes_cmac w n1 n2 r io_cap a1 a2).
  Proof. intros. py'. unfold f6. rewrite <- !app_assoc. reflexivity. Qed.

  Theorem g2_matches_source : forall u v x y,
    run src_g2_params src_g2 [VBytes u; VBytes v; VBytes x; VBytes y] = VInt (g2 aes_cmac u v x y).
  Proof. intros. py'. unfold g2. rewrite <- !app_assoc. reflexivity. Qed.

  Theorem h6_matches_source : forall w key_id,
    run src_h6_params src_h6 [VBytes w; VBytes key_id] = VBytes (h6 aes_cmac w key_id).
  Proof. intros. py'. reflexivity. Qed.

  Theorem h7_matches_source : forall salt w,
    run src_h7_params src_h7 [VBytes salt; VBytes w] = VBytes (h7 aes_cmac salt w).
  Proof. intros. py'. reflexivity. Qed.

  Lemma prand_byte_ok : forall b, byte_ok (Z.lor (Z.land b 127) 64) = true.
  Proof.
    intros b. apply byte_ok_iff. change 127 with (Z.ones 7). rewrite Z.land_ones by lia. change (2 ^ 7) with 128.
    assert (Hm : 0 <= b mod 128 < 128) by (apply Z.mod_pos_bound; lia).
    set (v := b mod 128) in *. assert (Hv : 0 <= v < 256) by lia.
    apply (byte_cases (fun v => (128 <=? v) || ((0 <=? Z.lor v 64) && (Z.lor v 64 <? 256)))) in Hv.
    - apply orb_true_iff in Hv as [Hv|Hv]; lia.
    - vm_compute. reflexivity.
  Qed.

  Theorem generate_prand_matches_source : List.length tokens = 6%nat ->
    run src_generate_prand_params src_generate_prand [] = VBytes (prand_of tokens).
  Proof.
    intros H. py. replace (len tokens =? 6) with true by (unfold len; lia). py.
    replace (2 <? len tokens) with true by (unfold len; lia). py.
    unfold bytes_of. cbn [bytes_ok forallb]. rewrite prand_byte_ok. reflexivity.
  Qed.

  Theorem toolbox_matches_source :
    (forall k r, run src_ah_params src_ah [VBytes k; VBytes r] = VBytes (ah e k r)) /\
    (forall k r preq pres iat rat ia ra,
       run src_c1_params src_c1 [VBytes k; VBytes r; VBytes preq; VBytes pres; VInt iat; VInt rat; VBytes ia; VBytes ra] =
       match c1 e k r preq pres iat rat ia ra with Some o => VBytes o | None => VErr end) /\
    (forall k r1 r2, run src_s1_params src_s1 [VBytes k; VBytes r1; VBytes r2] = VBytes (s1 e k r1 r2)) /\
    (forall u v x z, run src_f4_params src_f4 [VBytes u; VBytes v; VBytes x; VBytes z] = VBytes (f4 aes_cmac u v x z)) /\
    (forall w n1 n2 a1 a2, run src_f5_params src_f5 [VBytes w; VBytes n1; VBytes n2; VBytes a1; VBytes a2] =
       VTuple [VBytes (fst (f5 aes_cmac w n1 n2 a1 a2)); VBytes (snd (f5 aes_cmac w n1 n2 a1 a2))]) /\
    (forall w n1 n2 r io_cap a1 a2,
       run src_f6_params src_f6 [VBytes w; VBytes n1; VBytes n2; VBytes r; VBytes io_cap; VBytes a1; VBytes a2] =
       VBytes (f6 aes_cmac w n1 n2 r io_cap a1 a2)) /\
    (forall u v x y, run src_g2_params src_g2 [VBytes u; VBytes v; VBytes x; VBytes y] = VInt (g2 aes_cmac u v x y)) /\
    (forall w key_id, run src_h6_params src_h6 [VBytes w; VBytes key_id] = VBytes (h6 aes_cmac w key_id)) /\
    (forall salt w, run src_h7_params src_h7 [VBytes salt; VBytes w] = VBytes (h7 aes_cmac salt w)) /\
    (forall x y, run src_xor_params src_xor [VBytes x; VBytes y] =
       match xor_assert x y with Some r => VBytes r | None => VErr end) /\
    (forall b, run src_reverse_params src_reverse [VBytes b] = VBytes (rev b)).
  Proof.
    exact (conj ah_matches_source (conj c1_matches_source (conj s1_matches_source (conj f4_matches_source
          (conj f5_matches_source (conj f6_matches_source (conj g2_matches_source (conj h6_matches_source
          (conj h7_matches_source (conj xor_matches_source reverse_matches_source)))))))))).
  Qed.
End Toolbox.
