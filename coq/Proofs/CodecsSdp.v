(* Proofs/CodecsSdp.v — round-trip theorems for Model/CodecsSdp.v (SDP DataElement). *)
From Coq Require Import ZArith List Bool Lia.
From BV Require Import Base.Bytes Proofs.Bytes Model.CodecsBase Proofs.CodecsBase Model.CodecsSdp Gen.C18Tables.
Import ListNotations.
Open Scope Z_scope.

(* ---------------------------------------------------------------- induction principle *)
Section ElemInd.
  Variable P : elem -> Prop.
  Hypothesis HNil : P ENil.
  Hypothesis HUInt : forall s v, P (EUInt s v).
  Hypothesis HSInt : forall s v, P (ESInt s v).
  Hypothesis HUuid : forall b, P (EUuid b).
  Hypothesis HText : forall b, P (EText b).
  Hypothesis HBool : forall b, P (EBool b).
  Hypothesis HSeq : forall l, Forall P l -> P (ESeq l).
  Hypothesis HAlt : forall l, Forall P l -> P (EAlt l).
  Hypothesis HUrl : forall b, P (EUrl b).
  Hypothesis HOther : forall t b, P (EOther t b).
  Fixpoint elem_ind2 (e : elem) : P e :=
    match e with
    | ENil => HNil
    | EUInt s v => HUInt s v
    | ESInt s v => HSInt s v
    | EUuid b => HUuid b
    | EText b => HText b
    | EBool b => HBool b
    | ESeq l => HSeq l ((fix go (l : list elem) : Forall P l :=
                           match l with
                           | [] => Forall_nil P
                           | x :: r => Forall_cons x (elem_ind2 x) (go r)
                           end) l)
    | EAlt l => HAlt l ((fix go (l : list elem) : Forall P l :=
                           match l with
                           | [] => Forall_nil P
                           | x :: r => Forall_cons x (elem_ind2 x) (go r)
                           end) l)
    | EUrl b => HUrl b
    | EOther t b => HOther t b
    end.
End ElemInd.

(* ---------------------------------------------------------------- unfolding the local fixes *)
Lemma encode_seq : forall l,
  encode (ESeq l) = match encode_list l with Some d => var_header 6 d | None => None end.
Proof. intro l. reflexivity. Qed.
Lemma encode_alt : forall l,
  encode (EAlt l) = match encode_list l with Some d => var_header 7 d | None => None end.
Proof. intro l. reflexivity. Qed.
Lemma elem_depth_seq : forall l, elem_depth (ESeq l) = S (list_depth l).
Proof. intro l. reflexivity. Qed.
Lemma elem_depth_alt : forall l, elem_depth (EAlt l) = S (list_depth l).
Proof. intro l. reflexivity. Qed.
Lemma elem_bytes_ok_seq : forall l, elem_bytes_ok (ESeq l) = list_bytes_ok l.
Proof. intro l. reflexivity. Qed.
Lemma elem_bytes_ok_alt : forall l, elem_bytes_ok (EAlt l) = list_bytes_ok l.
Proof. intro l. reflexivity. Qed.

Lemma takeZ_firstn : forall z d, takeZ z d = firstn (Z.to_nat z) d.
Proof.
  intros z d. unfold takeZ, lenZ. destruct (Z_le_gt_dec z (Z.of_nat (length d))) as [H|H].
  - rewrite Z.min_l by lia. reflexivity.
  - rewrite Z.min_r by lia. rewrite Nat2Z.id. rewrite firstn_all. symmetry. apply firstn_all2. lia.
Qed.
Lemma dropZ_skipn : forall z d, dropZ z d = skipn (Z.to_nat z) d.
Proof.
  intros z d. unfold dropZ, lenZ. destruct (Z_le_gt_dec z (Z.of_nat (length d))) as [H|H].
  - rewrite Z.min_l by lia. reflexivity.
  - rewrite Z.min_r by lia. rewrite Nat2Z.id. rewrite skipn_all. symmetry. apply skipn_all2. lia.
Qed.
Lemma whole_nat : forall vs (body : list Z), (vs <=? lenZ body) = (Z.to_nat vs <=? length body)%nat.
Proof.
  intros vs body. unfold lenZ. destruct (Z.leb_spec vs (Z.of_nat (length body))); symmetry;
    [apply Nat.leb_le|apply Nat.leb_gt]; lia.
Qed.
Lemma consumed_nat : forall hs vs, Z.to_nat (1 + Z.of_nat hs + Z.max 0 vs) = S (hs + Z.to_nat vs).
Proof. intros. lia. Qed.

(* parse_next on a container, with the list loop as the top-level [parse_list] *)
Lemma parse_next_unfold : forall k depth b d1,
  parse_next (S k) depth (b :: d1) =
  let d := b :: d1 in
  let ty := Z.shiftr b 3 in
  let idx := Z.land b 7 in
  match size_of_header ty idx d1 with
  | None => PErr
  | Some (hs, vs) =>
      let body := skipn hs d1 in
      let n := Z.to_nat vs in
      let consumed := 1 + Z.of_nat hs + Z.max 0 vs in
      let raw := firstn (S (hs + n)) d in
      let value := firstn n body in
      let whole := (n <=? length body)%nat in
      if ty =? 0 then POk ENil consumed raw ((idx =? 0))
      else if ty =? 1 then
        if int_size_ok vs && whole then POk (EUInt vs (be_decode value)) consumed raw (idx <=? 3) else PErr
      else if ty =? 2 then
        if int_size_ok vs && whole then POk (ESInt vs (bes_decode value)) consumed raw (idx <=? 3) else PErr
      else if ty =? 3 then
        let m := lenZ value in
        if (m =? 2) || (m =? 4) || (m =? 16)
        then POk (EUuid (rev value)) consumed raw (whole && ((idx =? 1) || (idx =? 2) || (idx =? 4)))
        else PErr
      else if ty =? 4 then POk (EText value) consumed raw (whole && var_canon idx vs)
      else if ty =? 5 then
        match body with
        | [] => PErr
        | x :: _ => POk (EBool (x =? 1)) consumed raw ((idx =? 0) && ((x =? 0) || (x =? 1)))
        end
      else if (ty =? 6) || (ty =? 7) then
        match depth with
        | O => PErr
        | S dep =>
            match parse_list k dep k body vs with
            | LOk l used cn =>
                POk (if ty =? 6 then ESeq l else EAlt l) consumed raw
                    (whole && var_canon idx vs && cn && (used =? vs))
            | LErr => PErr
            | LFuel => PFuel
            end
        end
      else if ty =? 8 then POk (EUrl value) consumed raw (whole && var_canon idx vs)
      else POk (EOther ty value) consumed raw false
  end.
Proof.
  intros k depth b d1. cbn [parse_next]. cbv zeta.
  destruct (size_of_header (Z.shiftr b 3) (Z.land b 7) d1) as [[hs vs]|]; [|reflexivity].
  rewrite !takeZ_firstn, !whole_nat, !consumed_nat.
  destruct (Z.shiftr b 3 =? 0); [reflexivity|].
  destruct (Z.shiftr b 3 =? 1); [reflexivity|].
  destruct (Z.shiftr b 3 =? 2); [reflexivity|].
  destruct (Z.shiftr b 3 =? 3); [reflexivity|].
  destruct (Z.shiftr b 3 =? 4); [reflexivity|].
  destruct (Z.shiftr b 3 =? 5); [reflexivity|].
  destruct ((Z.shiftr b 3 =? 6) || (Z.shiftr b 3 =? 7)); [|reflexivity].
  destruct depth as [|dep]; [reflexivity|].
  match goal with
  | |- match ?F ?a1 ?a2 ?a3 with _ => _ end = match parse_list k dep k ?bd ?bg with _ => _ end =>
      assert (E : forall fuel body budget, F fuel body budget = parse_list k dep fuel body budget)
  end.
  { induction fuel as [|k' IH]; intros body budget.
    - reflexivity.
    - cbn [parse_list]. destruct (budget <=? 0); [reflexivity|].
      destruct (parse_next k dep body) as [e c raw cn| |]; try reflexivity.
      destruct (budget - c <? 0); [reflexivity|].
      rewrite IH. reflexivity. }
  rewrite E. reflexivity.
Qed.

(* ---------------------------------------------------------------- header octet *)
Definition hdr_fwd_chk (ty idx : Z) : bool :=
  byte_ok (hdr ty idx) && (Z.shiftr (hdr ty idx) 3 =? ty) && (Z.land (hdr ty idx) 7 =? idx).
Lemma hdr_fwd_all : forall2b (zrange 32) (zrange 8) hdr_fwd_chk = true.
Proof. vm_compute. reflexivity. Qed.
Lemma hdr_fwd : forall ty idx, 0 <= ty < 32 -> 0 <= idx < 8 ->
  byte_ok (hdr ty idx) = true /\ Z.shiftr (hdr ty idx) 3 = ty /\ Z.land (hdr ty idx) 7 = idx.
Proof.
  intros ty idx Ht Hi.
  pose proof (forall2_range 32 8 _ hdr_fwd_all ty idx ltac:(cbn; lia) ltac:(cbn; lia)) as H.
  unfold hdr_fwd_chk in H. rewrite !andb_true_iff in H. destruct H as [[H1 H2] H3].
  apply Z.eqb_eq in H2. apply Z.eqb_eq in H3. auto.
Qed.
Definition hdr_back_chk (b : Z) : bool :=
  (hdr (Z.shiftr b 3) (Z.land b 7) =? b) && zlt 32 (Z.shiftr b 3) && zlt 8 (Z.land b 7).
Lemma hdr_back_all : forallb hdr_back_chk (zrange 256) = true.
Proof. vm_compute. reflexivity. Qed.
Lemma hdr_back : forall b, byte_ok b = true ->
  hdr (Z.shiftr b 3) (Z.land b 7) = b /\ 0 <= Z.shiftr b 3 < 32 /\ 0 <= Z.land b 7 < 8.
Proof.
  intros b Hb. pose proof (forall_range 256 _ hdr_back_all b ltac:(apply byte_range; exact Hb)) as H.
  unfold hdr_back_chk in H. rewrite !andb_true_iff in H. destruct H as [[H1 H2] H3].
  apply Z.eqb_eq in H1. apply zlt_iff in H2. apply zlt_iff in H3. auto.
Qed.

(* ---------------------------------------------------------------- small list facts *)
Lemma firstn_S_cons : forall (A : Type) n (x : A) l, firstn (S n) (x :: l) = x :: firstn n l.
Proof. reflexivity. Qed.
Lemma firstn_len_app : forall (A : Type) (a b : list A) n, n = length a -> firstn n (a ++ b) = a.
Proof. intros. subst. apply firstn_app_exact. Qed.
Lemma skipn_len_app : forall (A : Type) (a b : list A) n, n = length a -> skipn n (a ++ b) = b.
Proof. intros. subst. apply skipn_app_exact. Qed.
Lemma leb_len_app : forall (A : Type) (a b : list A), (length a <=? length (a ++ b))%nat = true.
Proof. intros. apply Nat.leb_le. rewrite app_length. lia. Qed.
Lemma be_encode_2_shape : forall n, exists b0 b1, be_encode 2 n = [b0; b1].
Proof.
  intro n. pose proof (be_encode_length 2 n) as H.
  destruct (be_encode 2 n) as [|b0 [|b1 [|? ?]]]; try discriminate. eauto.
Qed.
Lemma be_encode_4_shape : forall n, exists b0 b1 b2 b3, be_encode 4 n = [b0; b1; b2; b3].
Proof.
  intro n. pose proof (be_encode_length 4 n) as H.
  destruct (be_encode 4 n) as [|b0 [|b1 [|b2 [|b3 [|? ?]]]]]; try discriminate. eauto 6.
Qed.

(* ---------------------------------------------------------------- variable-length headers *)
Lemma var_header_shape : forall ty data b rest,
  var_header ty data = Some b ->
  exists idx sz,
    b = hdr ty idx :: sz ++ data /\ 5 <= idx <= 7 /\ bytes_ok sz = true /\
    size_of_header ty idx (sz ++ data ++ rest) = Some (length sz, lenZ data) /\
    var_canon idx (lenZ data) = true.
Proof.
  intros ty data b rest H. unfold var_header in H.
  pose proof (lenZ_nonneg _ data) as Hn.
  destruct (lenZ data <=? 255) eqn:E1.
  - apply some_inv in H. subst b. apply Z.leb_le in E1.
    exists 5, [lenZ data]. repeat split; try lia.
    cbn [bytes_ok forallb]. rewrite andb_true_r. apply byte_ok_iff. lia.
  - apply Z.leb_gt in E1. destruct (lenZ data <=? 65535) eqn:E2.
    + apply some_inv in H. subst b. apply Z.leb_le in E2.
      exists 6, (be_encode 2 (lenZ data)). repeat split; try lia.
      * apply be_encode_ok.
      * destruct (be_encode_2_shape (lenZ data)) as [b0 [b1 Eb]].
        pose proof (be_decode_encode 2 (lenZ data) ltac:(unfold pow256; cbn; lia)) as D.
        rewrite Eb in *. cbn [app length size_of_header Z.eqb]. cbn. f_equal. f_equal. exact D.
      * unfold var_canon. replace (255 <? lenZ data) with true by (symmetry; apply Z.ltb_lt; lia).
        reflexivity.
    + apply Z.leb_gt in E2. destruct (lenZ data <=? 4294967295) eqn:E3; [|discriminate].
      apply some_inv in H. subst b. apply Z.leb_le in E3.
      exists 7, (be_encode 4 (lenZ data)). repeat split; try lia.
      * apply be_encode_ok.
      * destruct (be_encode_4_shape (lenZ data)) as [b0 [b1 [b2 [b3 Eb]]]].
        pose proof (be_decode_encode 4 (lenZ data) ltac:(unfold pow256; cbn; lia)) as D.
        rewrite Eb in *. cbn [app length size_of_header Z.eqb]. cbn. f_equal. f_equal. exact D.
      * unfold var_canon. replace (65535 <? lenZ data) with true by (symmetry; apply Z.ltb_lt; lia).
        reflexivity.
Qed.

(* parsing a variable-length leaf (TEXT_STRING, URL) that was just encoded *)
Lemma lenZ_to_nat : forall (A : Type) (l : list A), Z.to_nat (lenZ l) = length l.
Proof. intros. unfold lenZ. apply Nat2Z.id. Qed.

Lemma consumed_lenZ : forall (h : Z) (sz data : list Z),
  1 + Z.of_nat (length sz) + Z.max 0 (lenZ data) = lenZ (h :: sz ++ data).
Proof. intros. unfold lenZ. cbn [length]. rewrite app_length. lia. Qed.

Lemma parse_var_leaf : forall ty data b tail k depth mk,
  var_header ty data = Some b -> (ty = 4 \/ ty = 8) ->
  mk = (if ty =? 4 then EText data else EUrl data) ->
  parse_next (S k) depth (b ++ tail) = POk mk (lenZ b) b true.
Proof.
  intros ty data b tail k depth mk H Hty Hmk.
  destruct (var_header_shape ty data b tail H) as [idx [sz [Hb [Hidx [Hsz [Hsoh Hcan]]]]]].
  destruct (hdr_fwd ty idx ltac:(lia) ltac:(lia)) as [Hh1 [Hh2 Hh3]].
  subst b. cbn [app]. rewrite <- app_assoc. rewrite parse_next_unfold. cbv zeta.
  rewrite Hh2, Hh3, Hsoh.
  rewrite (skipn_len_app _ sz (data ++ tail) (length sz) eq_refl).
  rewrite !lenZ_to_nat.
  rewrite (firstn_len_app _ data tail (length data) eq_refl).
  rewrite leb_len_app. rewrite Hcan. cbn [andb].
  assert (Hraw : firstn (S (length sz + length data)) (hdr ty idx :: sz ++ data ++ tail)
                 = hdr ty idx :: sz ++ data).
  { rewrite firstn_S_cons. f_equal. rewrite app_assoc. apply firstn_len_app. rewrite app_length. reflexivity. }
  rewrite Hraw. rewrite (consumed_lenZ (hdr ty idx)).
  subst mk. destruct Hty as [-> | ->]; reflexivity.
Qed.

(* ---------------------------------------------------------------- fixed-size leaves *)
Lemma int_size_cases : forall s, int_size_ok s = true -> s = 1 \/ s = 2 \/ s = 4 \/ s = 8.
Proof.
  intros s H. unfold int_size_ok in H. rewrite !orb_true_iff, !Z.eqb_eq in H. tauto.
Qed.

(* a fixed-size element [hdr ty idx :: value] followed by anything *)
Lemma parse_fixed : forall ty idx s value tail k depth,
  0 <= ty < 32 -> 0 <= idx < 5 ->
  size_of_header ty idx (value ++ tail) = Some (O, s) -> Z.to_nat s = length value ->
  parse_next (S k) depth (hdr ty idx :: value ++ tail) =
  (let consumed := lenZ (hdr ty idx :: value) in
   let raw := hdr ty idx :: value in
   if ty =? 0 then POk ENil consumed raw ((idx =? 0))
   else if ty =? 1 then
     if int_size_ok s then POk (EUInt s (be_decode value)) consumed raw (idx <=? 3) else PErr
   else if ty =? 2 then
     if int_size_ok s then POk (ESInt s (bes_decode value)) consumed raw (idx <=? 3) else PErr
   else if ty =? 3 then
     let m := lenZ value in
     if (m =? 2) || (m =? 4) || (m =? 16)
     then POk (EUuid (rev value)) consumed raw ((idx =? 1) || (idx =? 2) || (idx =? 4))
     else PErr
   else if ty =? 4 then POk (EText value) consumed raw (var_canon idx s)
   else if ty =? 5 then
     match value ++ tail with
     | [] => PErr
     | x :: _ => POk (EBool (x =? 1)) consumed raw ((idx =? 0) && ((x =? 0) || (x =? 1)))
     end
   else if (ty =? 6) || (ty =? 7) then
     match depth with
     | O => PErr
     | S dep =>
         match parse_list k dep k (value ++ tail) s with
         | LOk l used cn =>
             POk (if ty =? 6 then ESeq l else EAlt l) consumed raw (var_canon idx s && cn && (used =? s))
         | LErr => PErr
         | LFuel => PFuel
         end
     end
   else if ty =? 8 then POk (EUrl value) consumed raw (var_canon idx s)
   else POk (EOther ty value) consumed raw false).
Proof.
  intros ty idx s value tail k depth Hty Hidx Hsoh Hlen.
  destruct (hdr_fwd ty idx ltac:(lia) ltac:(lia)) as [Hh1 [Hh2 Hh3]].
  rewrite parse_next_unfold. cbv zeta. rewrite Hh2, Hh3, Hsoh. cbn [skipn Nat.add].
  rewrite Hlen. rewrite (firstn_len_app _ value tail (length value) eq_refl).
  rewrite leb_len_app. rewrite firstn_S_cons.
  rewrite (firstn_len_app _ value tail (length value) eq_refl).
  assert (Hc : 1 + Z.of_nat 0 + Z.max 0 s = lenZ (hdr ty idx :: value)).
  { unfold lenZ. cbn [length]. lia. }
  rewrite Hc. cbn [andb]. rewrite !andb_true_r. reflexivity.
Qed.

Lemma encode_parse_nil : forall tail k depth,
  parse_next (S k) depth ([hdr 0 0] ++ tail) = POk ENil 1 [hdr 0 0] true.
Proof.
  intros. change ([hdr 0 0] ++ tail) with (hdr 0 0 :: [] ++ tail).
  rewrite (parse_fixed 0 0 0 [] tail k depth); [reflexivity|lia|lia|reflexivity|reflexivity].
Qed.

Lemma encode_parse_bool : forall v tail k depth,
  parse_next (S k) depth ([hdr 5 0; bool_z v] ++ tail) = POk (EBool v) 2 [hdr 5 0; bool_z v] true.
Proof.
  intros. change ([hdr 5 0; bool_z v] ++ tail) with (hdr 5 0 :: [bool_z v] ++ tail).
  rewrite (parse_fixed 5 0 1 [bool_z v] tail k depth); [|lia|lia|reflexivity|reflexivity].
  destruct v; reflexivity.
Qed.

Lemma encode_parse_uint : forall s v b tail k depth,
  encode (EUInt s v) = Some b ->
  parse_next (S k) depth (b ++ tail) = POk (EUInt s v) (lenZ b) b true.
Proof.
  intros s v b tail k depth H. cbn [encode] in H.
  destruct ((0 <=? v) && int_size_ok s && u_range (Z.to_nat s) v) eqn:E; [|discriminate].
  rewrite !andb_true_iff in E. destruct E as [[Hv Hs] Hr]. apply u_range_iff in Hr.
  destruct (int_size_cases s Hs) as [-> | [-> | [-> | ->]]]; cbn [fixed_index Z.leb Z.eqb Z.compare Pos.compare Pos.compare_cont Pos.eqb] in H;
    apply some_inv in H; subst b; cbn [app].
  - rewrite (parse_fixed 1 0 1 (be_encode (Z.to_nat 1) v) tail k depth);
      [|lia|lia|reflexivity|rewrite be_encode_length; reflexivity].
    cbv zeta. rewrite be_decode_encode by exact Hr. reflexivity.
  - rewrite (parse_fixed 1 1 2 (be_encode (Z.to_nat 2) v) tail k depth);
      [|lia|lia|reflexivity|rewrite be_encode_length; reflexivity].
    cbv zeta. rewrite be_decode_encode by exact Hr. reflexivity.
  - rewrite (parse_fixed 1 2 4 (be_encode (Z.to_nat 4) v) tail k depth);
      [|lia|lia|reflexivity|rewrite be_encode_length; reflexivity].
    cbv zeta. rewrite be_decode_encode by exact Hr. reflexivity.
  - rewrite (parse_fixed 1 3 8 (be_encode (Z.to_nat 8) v) tail k depth);
      [|lia|lia|reflexivity|rewrite be_encode_length; reflexivity].
    cbv zeta. rewrite be_decode_encode by exact Hr. reflexivity.
Qed.

Lemma encode_parse_sint : forall s v b tail k depth,
  encode (ESInt s v) = Some b ->
  parse_next (S k) depth (b ++ tail) = POk (ESInt s v) (lenZ b) b true.
Proof.
  intros s v b tail k depth H. cbn [encode] in H.
  destruct (int_size_ok s && s_range (Z.to_nat s) v) eqn:E; [|discriminate].
  rewrite !andb_true_iff in E. destruct E as [Hs Hr].
  destruct (int_size_cases s Hs) as [-> | [-> | [-> | ->]]]; cbn [fixed_index Z.leb Z.eqb Z.compare Pos.compare Pos.compare_cont Pos.eqb] in H;
    apply some_inv in H; subst b; cbn [app].
  - rewrite (parse_fixed 2 0 1 (bes_encode (Z.to_nat 1) v) tail k depth);
      [|lia|lia|reflexivity|rewrite bes_encode_length; reflexivity].
    cbv zeta. change (Z.to_nat 1) with 1%nat in *. rewrite bes_decode_encode by exact Hr.
    reflexivity.
  - rewrite (parse_fixed 2 1 2 (bes_encode (Z.to_nat 2) v) tail k depth);
      [|lia|lia|reflexivity|rewrite bes_encode_length; reflexivity].
    cbv zeta. change (Z.to_nat 2) with 2%nat in *. rewrite bes_decode_encode by exact Hr.
    reflexivity.
  - rewrite (parse_fixed 2 2 4 (bes_encode (Z.to_nat 4) v) tail k depth);
      [|lia|lia|reflexivity|rewrite bes_encode_length; reflexivity].
    cbv zeta. change (Z.to_nat 4) with 4%nat in *. rewrite bes_decode_encode by exact Hr.
    reflexivity.
  - rewrite (parse_fixed 2 3 8 (bes_encode (Z.to_nat 8) v) tail k depth);
      [|lia|lia|reflexivity|rewrite bes_encode_length; reflexivity].
    cbv zeta. change (Z.to_nat 8) with 8%nat in *. rewrite bes_decode_encode by exact Hr.
    reflexivity.
Qed.

Lemma encode_parse_uuid : forall u b tail k depth,
  encode (EUuid u) = Some b ->
  parse_next (S k) depth (b ++ tail) = POk (EUuid u) (lenZ b) b true.
Proof.
  intros u b tail k depth H. cbn [encode] in H.
  destruct ((lenZ u =? 2) || (lenZ u =? 4) || (lenZ u =? 16)) eqn:E; [|discriminate].
  rewrite !orb_true_iff, !Z.eqb_eq in E.
  assert (Hrl : lenZ (rev u) = lenZ u) by (unfold lenZ; rewrite rev_length; reflexivity).
  assert (Hnat : forall n, lenZ u = n -> Z.to_nat n = length (rev u)).
  { intros n Hn. rewrite <- Hn. unfold lenZ. rewrite Nat2Z.id, rev_length. reflexivity. }
  destruct E as [[E | E] | E]; rewrite E in H;
    cbn [fixed_index Z.leb Z.eqb Z.compare Pos.compare Pos.compare_cont Pos.eqb] in H;
    apply some_inv in H; subst b; cbn [app].
  - rewrite (parse_fixed 3 1 2 (rev u) tail k depth); [|lia|lia|reflexivity|apply Hnat; exact E].
    cbv zeta. rewrite Hrl, E, rev_involutive. reflexivity.
  - rewrite (parse_fixed 3 2 4 (rev u) tail k depth); [|lia|lia|reflexivity|apply Hnat; exact E].
    cbv zeta. rewrite Hrl, E, rev_involutive. reflexivity.
  - rewrite (parse_fixed 3 4 16 (rev u) tail k depth); [|lia|lia|reflexivity|apply Hnat; exact E].
    cbv zeta. rewrite Hrl, E, rev_involutive. reflexivity.
Qed.

(* ---------------------------------------------------------------- containers *)
Lemma encode_list_app_len : forall l d, encode_list l = Some d -> True.
Proof. trivial. Qed.

(* the list loop over the concatenated encodings of [l], given the element-level
   statement for every member of [l] *)
Lemma parse_list_encoded : forall l,
  Forall (fun e => forall fuel depth tail b,
            encode e = Some b -> elem_bytes_ok e = true -> (elem_depth e <= depth)%nat ->
            (length (b ++ tail) < fuel)%nat ->
            parse_next fuel depth (b ++ tail) = POk e (lenZ b) b true) l ->
  forall pn dep fuel tail d,
    encode_list l = Some d -> list_bytes_ok l = true -> (list_depth l <= dep)%nat ->
    (length (d ++ tail) < pn)%nat -> (length l < fuel)%nat \/ (length d < fuel)%nat ->
    parse_list pn dep fuel (d ++ tail) (lenZ d) = LOk l (lenZ d) true.
Proof.
  induction l as [|x r IH]; intros HF pn dep fuel tail d He Hok Hdep Hpn Hfuel.
  - cbn in He. apply some_inv in He. subst d. destruct fuel; reflexivity.
  - inversion HF as [|? ? Hx Hr]; subst.
    cbn [encode_list] in He.
    destruct (encode x) as [a|] eqn:Ea; [|discriminate].
    destruct (encode_list r) as [b|] eqn:Eb; [|discriminate].
    apply some_inv in He. subst d.
    cbn [list_bytes_ok] in Hok. apply andb_true_iff in Hok as [Hokx Hokr].
    cbn [list_depth] in Hdep.
    assert (Hane : (0 < length a)%nat).
    { destruct a; [|cbn; lia]. exfalso.
      destruct x; cbn [encode] in Ea; try discriminate;
        repeat match type of Ea with
               | (if ?c then _ else _) = _ => destruct c; try discriminate
               | match ?c with _ => _ end = _ => destruct c; try discriminate
               end;
        try (unfold var_header in Ea;
             repeat match type of Ea with
                    | (if ?c then _ else _) = _ => destruct c; try discriminate
                    end). }
    destruct fuel as [|k']; [destruct Hfuel; lia|].
    cbn [parse_list].
    replace (lenZ (a ++ b) <=? 0) with false.
    2:{ symmetry. apply Z.leb_gt. rewrite lenZ_app. unfold lenZ. lia. }
    rewrite <- app_assoc.
    rewrite (Hx pn dep (b ++ tail) a eq_refl Hokx ltac:(lia)).
    2:{ rewrite <- app_assoc in Hpn. exact Hpn. }
    rewrite dropZ_skipn, lenZ_to_nat.
    rewrite (skipn_len_app _ a (b ++ tail) (length a) eq_refl).
    replace (lenZ (a ++ b) - lenZ a) with (lenZ b) by (rewrite lenZ_app; lia).
    replace (lenZ b <? 0) with false by (symmetry; apply Z.ltb_ge; apply lenZ_nonneg).
    rewrite (IH Hr pn dep k' tail b eq_refl Hokr ltac:(lia)).
    + cbn [andb]. f_equal. rewrite lenZ_app. reflexivity.
    + rewrite !app_length in *. lia.
    + destruct Hfuel as [Hf | Hf]; [left; cbn [length] in Hf; lia|right; rewrite app_length in Hf; lia].
Qed.

Lemma parse_container : forall ty l data b tail k dep,
  (ty = 6 \/ ty = 7) -> var_header ty data = Some b ->
  parse_list k dep k (data ++ tail) (lenZ data) = LOk l (lenZ data) true ->
  parse_next (S k) (S dep) (b ++ tail) =
  POk (if ty =? 6 then ESeq l else EAlt l) (lenZ b) b true.
Proof.
  intros ty l data b tail k dep Hty H HL.
  destruct (var_header_shape ty data b tail H) as [idx [sz [Hb [Hidx [Hsz [Hsoh Hcan]]]]]].
  destruct (hdr_fwd ty idx ltac:(lia) ltac:(lia)) as [Hh1 [Hh2 Hh3]].
  subst b. cbn [app]. rewrite <- app_assoc. rewrite parse_next_unfold. cbv zeta.
  rewrite Hh2, Hh3, Hsoh.
  rewrite (skipn_len_app _ sz (data ++ tail) (length sz) eq_refl).
  rewrite HL.
  assert (Hn : Z.to_nat (lenZ data) = length data) by (unfold lenZ; apply Nat2Z.id).
  rewrite !Hn. rewrite leb_len_app. rewrite Hcan, Z.eqb_refl. cbn [andb].
  assert (Hraw : firstn (S (length sz + length data)) (hdr ty idx :: sz ++ data ++ tail)
                 = hdr ty idx :: sz ++ data).
  { rewrite firstn_S_cons. f_equal. rewrite app_assoc. apply firstn_len_app. rewrite app_length. reflexivity. }
  rewrite Hraw. rewrite (consumed_lenZ (hdr ty idx)).
  destruct Hty as [-> | ->]; reflexivity.
Qed.

Lemma var_header_length : forall ty data b, var_header ty data = Some b -> (length data < length b)%nat.
Proof.
  intros ty data b H. destruct (var_header_shape ty data b [] H) as [idx [sz [Hb _]]].
  subst b. cbn [length]. rewrite app_length. lia.
Qed.

(* value -> bytes -> value, any fuel above the input length, any nesting budget that
   covers the value, any trailing data *)
Theorem encode_parse : forall e fuel depth tail b,
  encode e = Some b -> elem_bytes_ok e = true -> (elem_depth e <= depth)%nat ->
  (length (b ++ tail) < fuel)%nat ->
  parse_next fuel depth (b ++ tail) = POk e (lenZ b) b true.
Proof.
  induction e using elem_ind2; intros fuel depth tail b0 He Hok Hdep Hfuel;
    (destruct fuel as [|k]; [lia|]).
  - cbn [encode] in He. apply some_inv in He. subst b0. apply encode_parse_nil.
  - apply encode_parse_uint. exact He.
  - apply encode_parse_sint. exact He.
  - apply encode_parse_uuid. exact He.
  - cbn [encode] in He. apply (parse_var_leaf 4 b b0 tail k depth _ He); [left|]; reflexivity.
  - cbn [encode] in He. apply some_inv in He. subst b0. apply encode_parse_bool.
  - rewrite encode_seq in He. destruct (encode_list l) as [data|] eqn:El; [|discriminate].
    rewrite elem_depth_seq in Hdep. destruct depth as [|dep]; [lia|].
    rewrite elem_bytes_ok_seq in Hok.
    apply (parse_container 6 l data b0 tail k dep (or_introl eq_refl) He).
    pose proof (var_header_length _ _ _ He) as Hl.
    apply (parse_list_encoded l H k dep k tail data El Hok ltac:(lia)).
    + rewrite app_length in *. cbn [length] in Hfuel. lia.
    + right. rewrite app_length in Hfuel. cbn [length] in Hfuel. lia.
  - rewrite encode_alt in He. destruct (encode_list l) as [data|] eqn:El; [|discriminate].
    rewrite elem_depth_alt in Hdep. destruct depth as [|dep]; [lia|].
    rewrite elem_bytes_ok_alt in Hok.
    apply (parse_container 7 l data b0 tail k dep (or_intror eq_refl) He).
    pose proof (var_header_length _ _ _ He) as Hl.
    apply (parse_list_encoded l H k dep k tail data El Hok ltac:(lia)).
    + rewrite app_length in *. cbn [length] in Hfuel. lia.
    + right. rewrite app_length in Hfuel. cbn [length] in Hfuel. lia.
  - cbn [encode] in He. apply (parse_var_leaf 8 b b0 tail k depth _ He); [right|]; reflexivity.
  - discriminate.
Qed.

Corollary sdp_value_roundtrip : forall max_depth e b,
  elem_ok max_depth e = true -> encode e = Some b ->
  from_bytes max_depth b = POk e (lenZ b) b true.
Proof.
  intros max_depth e b Hok He. unfold elem_ok in Hok. rewrite !andb_true_iff in Hok.
  destruct Hok as [[Hb Hd] _]. apply Nat.leb_le in Hd.
  unfold from_bytes, sdp_fuel.
  rewrite <- (app_nil_r b) at 2. apply encode_parse; try assumption.
  rewrite app_nil_r. lia.
Qed.

(* ---------------------------------------------------------------- bytes -> value -> bytes *)
Lemma idx_cases : forall i, 0 <= i < 8 -> i = 0 \/ i = 1 \/ i = 2 \/ i = 3 \/ i = 4 \/ i = 5 \/ i = 6 \/ i = 7.
Proof. intros. lia. Qed.

Lemma bytes_ok_length_firstn : forall n (d : list Z), (n <= length d)%nat -> length (firstn n d) = n.
Proof. intros. apply firstn_length_le. assumption. Qed.

(* a canonical variable-length header re-encodes to itself *)
Lemma var_header_back : forall ty idx d1 hs vs,
  0 <= ty < 32 -> 0 <= idx < 8 -> bytes_ok d1 = true ->
  size_of_header ty idx d1 = Some (hs, vs) -> var_canon idx vs = true ->
  (Z.to_nat vs <= length (skipn hs d1))%nat ->
  var_header ty (firstn (Z.to_nat vs) (skipn hs d1)) = Some (hdr ty idx :: firstn (hs + Z.to_nat vs) d1)
  /\ 0 <= vs /\ (hs <= length d1)%nat.
Proof.
  intros ty idx d1 hs vs Hty Hidx Hok Hsoh Hcan Hwhole.
  unfold var_canon in Hcan.
  assert (Hlen : forall n (body : list Z), (n <= length body)%nat -> lenZ (firstn n body) = Z.of_nat n).
  { intros n body Hn. unfold lenZ. rewrite firstn_length_le by exact Hn. reflexivity. }
  destruct (idx_cases idx Hidx) as [-> | [-> | [-> | [-> | [-> | [-> | [-> | ->]]]]]]];
    try (cbn in Hcan; discriminate).
  - (* 8-bit size *)
    clear Hcan. destruct d1 as [|s rest]; [discriminate|].
    change (size_of_header ty 5 (s :: rest)) with (Some (1%nat, s)) in Hsoh. apply some_pair_inv in Hsoh as [<- <-].
    rewrite bytes_ok_cons in Hok. apply andb_true_iff in Hok as [Hs _]. apply byte_ok_iff in Hs.
    cbn [skipn] in *. split; [|split; [lia|cbn [length]; lia]]. unfold var_header. rewrite (Hlen _ _ Hwhole). rewrite Z2Nat.id by lia.
    replace (s <=? 255) with true by (symmetry; apply Z.leb_le; lia).
    cbn [Nat.add firstn]. reflexivity.
  - (* 16-bit size *)
    assert (Hgt : 255 < vs).
    { destruct (255 <? vs) eqn:E; [apply Z.ltb_lt; exact E|]. try rewrite E in Hcan. cbn in Hcan. discriminate. }
    clear Hcan.
    destruct d1 as [|b0 [|b1 rest]]; try discriminate.
    change (size_of_header ty 6 (b0 :: b1 :: rest)) with (Some (2%nat, be_decode [b0; b1])) in Hsoh.
    apply some_pair_inv in Hsoh as [<- <-].
    rewrite !bytes_ok_cons in Hok. rewrite !andb_true_iff in Hok. destruct Hok as [H0 [H1 _]].
    assert (Hb : bytes_ok [b0; b1] = true) by (cbn; rewrite H0, H1; reflexivity).
    pose proof (be_decode_range _ Hb) as R. cbn [length] in R. change (pow256 2) with 65536 in R.
    cbn [skipn] in *. split; [|split; [lia|cbn [length]; lia]]. unfold var_header. rewrite (Hlen _ _ Hwhole). rewrite Z2Nat.id by lia.
    replace (be_decode [b0; b1] <=? 255) with false by (symmetry; apply Z.leb_gt; lia).
    replace (be_decode [b0; b1] <=? 65535) with true by (symmetry; apply Z.leb_le; lia).
    rewrite (be_encode_decode_n 2 [b0; b1] eq_refl Hb). reflexivity.
  - (* 32-bit size *)
    assert (Hgt : 65535 < vs).
    { destruct (65535 <? vs) eqn:E; [apply Z.ltb_lt; exact E|]. try rewrite E in Hcan. cbn in Hcan. discriminate. }
    clear Hcan.
    destruct d1 as [|b0 [|b1 [|b2 [|b3 rest]]]]; try discriminate.
    change (size_of_header ty 7 (b0 :: b1 :: b2 :: b3 :: rest)) with (Some (4%nat, be_decode [b0; b1; b2; b3])) in Hsoh.
    apply some_pair_inv in Hsoh as [<- <-].
    rewrite !bytes_ok_cons in Hok. rewrite !andb_true_iff in Hok. destruct Hok as [H0 [H1 [H2 [H3 _]]]].
    assert (Hb : bytes_ok [b0; b1; b2; b3] = true) by (cbn; rewrite H0, H1, H2, H3; reflexivity).
    pose proof (be_decode_range _ Hb) as R. cbn [length] in R. change (pow256 4) with 4294967296 in R.
    cbn [skipn] in *. split; [|split; [lia|cbn [length]; lia]]. unfold var_header. rewrite (Hlen _ _ Hwhole). rewrite Z2Nat.id by lia.
    replace (be_decode [b0; b1; b2; b3] <=? 255) with false by (symmetry; apply Z.leb_gt; lia).
    replace (be_decode [b0; b1; b2; b3] <=? 65535) with false by (symmetry; apply Z.leb_gt; lia).
    replace (be_decode [b0; b1; b2; b3] <=? 4294967295) with true by (symmetry; apply Z.leb_le; lia).
    rewrite (be_encode_decode_n 4 [b0; b1; b2; b3] eq_refl Hb). reflexivity.
Qed.

Lemma firstn_add_skipn : forall (A : Type) a b (d : list A),
  firstn (a + b) d = firstn a d ++ firstn b (skipn a d).
Proof.
  induction a as [|a IH]; intros b d; [reflexivity|].
  destruct d as [|x d]; [cbn; rewrite firstn_nil; reflexivity|].
  cbn [Nat.add firstn skipn app]. rewrite IH. reflexivity.
Qed.

Lemma fixed_header_inv : forall ty idx d1 hs vs,
  0 <= idx <= 4 -> size_of_header ty idx d1 = Some (hs, vs) ->
  hs = O /\ vs = (if idx =? 0 then (if ty =? 0 then 0 else 1) else if idx =? 1 then 2
                  else if idx =? 2 then 4 else if idx =? 3 then 8 else 16).
Proof.
  intros ty idx d1 hs vs Hidx H.
  assert (C : idx = 0 \/ idx = 1 \/ idx = 2 \/ idx = 3 \/ idx = 4) by lia.
  destruct C as [-> | [-> | [-> | [-> | ->]]]]; cbn [size_of_header Z.eqb Pos.eqb] in H;
    apply some_pair_inv in H as [<- <-]; split; reflexivity.
Qed.

Lemma uint_back : forall idx vs value,
  ((idx = 0 /\ vs = 1) \/ (idx = 1 /\ vs = 2) \/ (idx = 2 /\ vs = 4) \/ (idx = 3 /\ vs = 8)) ->
  bytes_ok value = true -> length value = Z.to_nat vs ->
  encode (EUInt vs (be_decode value)) = Some (hdr 1 idx :: value).
Proof.
  intros idx vs value C Hok Hlen.
  pose proof (be_decode_range value Hok) as R. rewrite Hlen in R.
  cbn [encode].
  replace (0 <=? be_decode value) with true by (symmetry; apply Z.leb_le; lia).
  replace (u_range (Z.to_nat vs) (be_decode value)) with true by (symmetry; apply u_range_iff; exact R).
  rewrite <- Hlen. rewrite be_encode_decode by exact Hok.
  destruct C as [[-> ->] | [[-> ->] | [[-> ->] | [-> ->]]]]; reflexivity.
Qed.

Lemma bes_decode_range' : forall bs,
  bs <> [] -> bytes_ok bs = true -> s_range (length bs) (bes_decode bs) = true.
Proof.
  intros bs Hne H. unfold bes_decode. destruct bs as [|b r]; [congruence|].
  set (l := b :: r) in *. assert (length l = S (length r)) as Hl by reflexivity.
  pose proof (be_decode_range l H) as Hr. rewrite Hl in *.
  apply to_signed_range. assumption.
Qed.

Lemma sint_back : forall idx vs value,
  ((idx = 0 /\ vs = 1) \/ (idx = 1 /\ vs = 2) \/ (idx = 2 /\ vs = 4) \/ (idx = 3 /\ vs = 8)) ->
  bytes_ok value = true -> length value = Z.to_nat vs ->
  encode (ESInt vs (bes_decode value)) = Some (hdr 2 idx :: value).
Proof.
  intros idx vs value C Hok Hlen.
  assert (Hne : value <> []).
  { intro E. subst value. cbn in Hlen. destruct C as [[_ ->] | [[_ ->] | [[_ ->] | [_ ->]]]]; discriminate. }
  pose proof (bes_encode_decode value Hne Hok) as B.
  assert (R : s_range (Z.to_nat vs) (bes_decode value) = true).
  { rewrite <- Hlen. apply bes_decode_range'; assumption. }
  cbn [encode]. rewrite R. rewrite <- Hlen, B.
  destruct C as [[-> ->] | [[-> ->] | [[-> ->] | [-> ->]]]]; reflexivity.
Qed.

Lemma POk_inv : forall e c r cn e' c' r' cn',
  POk e c r cn = POk e' c' r' cn' -> e = e' /\ c = c' /\ r = r' /\ cn = cn'.
Proof. intros. repeat split; congruence. Qed.

Definition pn_prop (pn : nat) : Prop :=
  forall depth d e c raw, bytes_ok d = true -> parse_next pn depth d = POk e c raw true ->
    encode e = Some raw /\ c = lenZ raw /\ raw = firstn (Z.to_nat c) d /\ c <= lenZ d /\
    elem_bytes_ok e = true /\ (elem_depth e <= depth)%nat.
Definition pl_prop (pn : nat) : Prop :=
  forall dep fuel d budget l used, bytes_ok d = true ->
    parse_list pn dep fuel d budget = LOk l used true ->
    0 <= used /\ (Z.to_nat used <= length d)%nat /\
    encode_list l = Some (firstn (Z.to_nat used) d) /\
    list_bytes_ok l = true /\ (list_depth l <= dep)%nat.

Lemma pl_from_pn : forall pn, pn_prop pn -> pl_prop pn.
Proof.
  intros pn Hpn dep fuel. induction fuel as [|k' IH]; intros d budget l used Hok H.
  - cbn [parse_list] in H. destruct (budget <=? 0); [|discriminate].
    inversion H; subst. repeat split; try reflexivity; cbn; lia.
  - cbn [parse_list] in H. destruct (budget <=? 0).
    { inversion H; subst. repeat split; try reflexivity; cbn; lia. }
    destruct (parse_next pn dep d) as [e c raw cn| |] eqn:Ep; try discriminate.
    destruct (budget - c <? 0); [discriminate|].
    rewrite dropZ_skipn in H.
    destruct (parse_list pn dep k' (skipn (Z.to_nat c) d) (budget - c)) as [l' used' cn'| |] eqn:El; try discriminate.
    inversion H; subst l used. clear H.
    match goal with H : cn && cn' = true |- _ => apply andb_true_iff in H as [-> ->] end.
    destruct (Hpn dep d e c raw Hok Ep) as [He [Hc [Hraw [Hcl [Hbe Hde]]]]].
    destruct (IH (skipn (Z.to_nat c) d) _ l' used' (bytes_ok_skipn _ _ Hok) El) as [Hu [Hul [Hel [Hbl Hdl]]]].
    rewrite skipn_length in Hul.
    assert (Hc0 : 0 <= c) by (rewrite Hc; apply lenZ_nonneg).
    unfold lenZ in Hcl.
    split; [lia|]. split; [rewrite Z2Nat.inj_add by lia; lia|].
    split; [|split].
    + cbn [encode_list]. rewrite He, Hel. rewrite Z2Nat.inj_add by lia.
      rewrite firstn_add_skipn. rewrite <- Hraw. reflexivity.
    + cbn [list_bytes_ok]. rewrite Hbe, Hbl. reflexivity.
    + cbn [list_depth]. lia.
Qed.

Lemma size_of_header_nonneg : forall ty idx d1 hs vs,
  bytes_ok d1 = true -> 0 <= idx < 8 -> size_of_header ty idx d1 = Some (hs, vs) -> 0 <= vs.
Proof.
  intros ty idx d1 hs vs Hok Hidx H.
  destruct (idx_cases idx Hidx) as [-> | [-> | [-> | [-> | [-> | [-> | [-> | ->]]]]]]].
  - cbn [size_of_header Z.eqb] in H. apply some_pair_inv in H as [_ <-]. destruct (ty =? 0); lia.
  - cbn [size_of_header Z.eqb Pos.eqb] in H. apply some_pair_inv in H as [_ <-]. lia.
  - cbn [size_of_header Z.eqb Pos.eqb] in H. apply some_pair_inv in H as [_ <-]. lia.
  - cbn [size_of_header Z.eqb Pos.eqb] in H. apply some_pair_inv in H as [_ <-]. lia.
  - cbn [size_of_header Z.eqb Pos.eqb] in H. apply some_pair_inv in H as [_ <-]. lia.
  - destruct d1 as [|s rest]; [discriminate|].
    change (size_of_header ty 5 (s :: rest)) with (Some (1%nat, s)) in H. apply some_pair_inv in H as [_ <-].
    rewrite bytes_ok_cons in Hok. apply andb_true_iff in Hok as [Hs _]. apply byte_ok_iff in Hs. lia.
  - destruct d1 as [|b0 [|b1 rest]]; try discriminate.
    change (size_of_header ty 6 (b0 :: b1 :: rest)) with (Some (2%nat, be_decode [b0; b1])) in H.
    apply some_pair_inv in H as [_ <-].
    rewrite !bytes_ok_cons in Hok. rewrite !andb_true_iff in Hok. destruct Hok as [H0 [H1 _]].
    assert (Hb : bytes_ok [b0; b1] = true) by (cbn; rewrite H0, H1; reflexivity).
    pose proof (be_decode_range _ Hb). lia.
  - destruct d1 as [|b0 [|b1 [|b2 [|b3 rest]]]]; try discriminate.
    change (size_of_header ty 7 (b0 :: b1 :: b2 :: b3 :: rest)) with (Some (4%nat, be_decode [b0; b1; b2; b3])) in H.
    apply some_pair_inv in H as [_ <-].
    rewrite !bytes_ok_cons in Hok. rewrite !andb_true_iff in Hok. destruct Hok as [H0 [H1 [H2 [H3 _]]]].
    assert (Hb : bytes_ok [b0; b1; b2; b3] = true) by (cbn; rewrite H0, H1, H2, H3; reflexivity).
    pose proof (be_decode_range _ Hb). lia.
Qed.

Lemma pn_step : forall k, pl_prop k -> pn_prop (S k).
Proof.
  intros k Hpl depth d e c raw Hok H.
  destruct d as [|b d1]; [discriminate|].
  rewrite parse_next_unfold in H. cbv zeta in H.
  rewrite bytes_ok_cons in Hok. apply andb_true_iff in Hok as [Hb Hd1].
  destruct (hdr_back b Hb) as [Hhdr [Hty Hidx]].
  set (ty := Z.shiftr b 3) in *. set (idx := Z.land b 7) in *.
  destruct (size_of_header ty idx d1) as [[hs vs]|] eqn:Hsoh; [|discriminate].
  set (body := skipn hs d1) in *. set (n := Z.to_nat vs) in *.
  assert (Hbody : bytes_ok body = true) by (apply bytes_ok_skipn; exact Hd1).
  assert (Hval : bytes_ok (firstn n body) = true) by (apply bytes_ok_firstn; exact Hbody).
  assert (Hraw1 : firstn (S (hs + n)) (b :: d1) = b :: firstn (hs + n) d1) by reflexivity.
  assert (Hvs0 : 0 <= vs) by (apply (size_of_header_nonneg ty idx d1 hs vs Hd1 Hidx Hsoh)).
  assert (Hcons : Z.to_nat (1 + Z.of_nat hs + Z.max 0 vs) = S (hs + n)) by (subst n; lia).
  (* common closing argument for elements whose raw form is b :: firstn (hs + n) d1 *)
  assert (Hclose : forall el, (hs <= length d1)%nat -> (n <= length body)%nat ->
            encode el = Some (b :: firstn (hs + n) d1) ->
            elem_bytes_ok el = true -> (elem_depth el <= depth)%nat ->
            encode el = Some (firstn (S (hs + n)) (b :: d1)) /\
            1 + Z.of_nat hs + Z.max 0 vs = lenZ (firstn (S (hs + n)) (b :: d1)) /\
            firstn (S (hs + n)) (b :: d1) = firstn (Z.to_nat (1 + Z.of_nat hs + Z.max 0 vs)) (b :: d1) /\
            1 + Z.of_nat hs + Z.max 0 vs <= lenZ (b :: d1) /\ elem_bytes_ok el = true /\ (elem_depth el <= depth)%nat).
  { intros el Hhs Hn He Hbo Hde. unfold body in Hn. rewrite skipn_length in Hn.
    rewrite Hcons. rewrite Hraw1. repeat split; auto.
    - unfold lenZ. cbn [length]. rewrite firstn_length_le by lia. subst n. lia.
    - unfold lenZ. cbn [length]. subst n. lia. }
  destruct (ty =? 0) eqn:T0.
  { (* NIL *)
    apply Z.eqb_eq in T0. apply POk_inv in H as [<- [<- [<- Hcn]]].
    apply Z.eqb_eq in Hcn; rename Hcn into I0.
    destruct (fixed_header_inv ty idx d1 hs vs ltac:(lia) Hsoh) as [Hhs Hvs].
    rewrite I0, T0 in Hvs. cbn in Hvs.
    apply Hclose; [lia|subst n vs; cbn; lia| |reflexivity|cbn; lia].
    subst n hs vs. cbn [encode Z.to_nat Nat.add firstn]. rewrite <- Hhdr, T0, I0. reflexivity. }
  destruct (ty =? 1) eqn:T1.
  { (* UNSIGNED_INTEGER *)
    apply Z.eqb_eq in T1.
    destruct (int_size_ok vs && (n <=? length body)%nat) eqn:Eg; [|discriminate].
    apply andb_true_iff in Eg as [Hs Hw]. apply Nat.leb_le in Hw.
    apply POk_inv in H as [<- [<- [<- Hcn]]].
    apply Z.leb_le in Hcn; rename Hcn into I3.
    destruct (fixed_header_inv ty idx d1 hs vs ltac:(lia) Hsoh) as [Hhs Hvs].
    subst hs. cbn [skipn] in body. subst body.
    assert (Hlen : length (firstn n d1) = Z.to_nat vs) by (apply firstn_length_le; exact Hw).
    apply Hclose; [lia|exact Hw| |reflexivity|cbn; lia].
    rewrite <- Hhdr, T1. cbn [Nat.add]. apply uint_back; try assumption.
    replace (ty =? 0) with false in Hvs by (symmetry; apply Z.eqb_neq; lia).
    assert (C : idx = 0 \/ idx = 1 \/ idx = 2 \/ idx = 3) by lia.
    destruct C as [-> | [-> | [-> | ->]]]; cbn in Hvs; subst vs; tauto. }
  destruct (ty =? 2) eqn:T2.
  { (* SIGNED_INTEGER *)
    apply Z.eqb_eq in T2.
    destruct (int_size_ok vs && (n <=? length body)%nat) eqn:Eg; [|discriminate].
    apply andb_true_iff in Eg as [Hs Hw]. apply Nat.leb_le in Hw.
    apply POk_inv in H as [<- [<- [<- Hcn]]].
    apply Z.leb_le in Hcn; rename Hcn into I3.
    destruct (fixed_header_inv ty idx d1 hs vs ltac:(lia) Hsoh) as [Hhs Hvs].
    subst hs. cbn [skipn] in body. subst body.
    assert (Hlen : length (firstn n d1) = Z.to_nat vs) by (apply firstn_length_le; exact Hw).
    apply Hclose; [lia|exact Hw| |reflexivity|cbn; lia].
    rewrite <- Hhdr, T2. cbn [Nat.add]. apply sint_back; try assumption.
    replace (ty =? 0) with false in Hvs by (symmetry; apply Z.eqb_neq; lia).
    assert (C : idx = 0 \/ idx = 1 \/ idx = 2 \/ idx = 3) by lia.
    destruct C as [-> | [-> | [-> | ->]]]; cbn in Hvs; subst vs; tauto. }
  destruct (ty =? 3) eqn:T3.
  { (* UUID *)
    apply Z.eqb_eq in T3. cbv zeta in H.
    destruct ((lenZ (firstn n body) =? 2) || (lenZ (firstn n body) =? 4) || (lenZ (firstn n body) =? 16)) eqn:Em;
      [|discriminate].
    apply POk_inv in H as [<- [<- [<- Hcn]]].
    apply andb_true_iff in Hcn as [Hw Hi].
    apply Nat.leb_le in Hw.
    assert (C : idx = 1 \/ idx = 2 \/ idx = 4).
    { rewrite !orb_true_iff, !Z.eqb_eq in Hi. tauto. }
    destruct (fixed_header_inv ty idx d1 hs vs ltac:(lia) Hsoh) as [Hhs Hvs].
    subst hs. cbn [skipn] in body. subst body.
    assert (Hlen : length (firstn n d1) = Z.to_nat vs) by (apply firstn_length_le; exact Hw).
    apply Hclose; [lia|exact Hw| |cbn [elem_bytes_ok]; rewrite bytes_ok_rev; exact Hval|cbn; lia].
    rewrite <- Hhdr, T3. cbn [Nat.add encode].
    assert (Hrl : lenZ (rev (firstn n d1)) = vs).
    { unfold lenZ. rewrite rev_length, Hlen. rewrite Z2Nat.id; [reflexivity|].
      destruct C as [-> | [-> | ->]]; cbn in Hvs; subst vs; lia. }
    rewrite Hrl, rev_involutive.
    destruct C as [-> | [-> | ->]]; cbn in Hvs; subst vs; reflexivity. }
  destruct (ty =? 4) eqn:T4.
  { (* TEXT_STRING *)
    apply Z.eqb_eq in T4. apply POk_inv in H as [<- [<- [<- Hcn]]].
    apply andb_true_iff in Hcn as [Hw Hcan].
    apply Nat.leb_le in Hw.
    destruct (var_header_back ty idx d1 hs vs Hty Hidx Hd1 Hsoh Hcan Hw) as [Hvh [_ Hhs]].
    apply Hclose; [exact Hhs|exact Hw| |exact Hval|cbn; lia].
    cbn [encode]. rewrite <- T4, <- Hhdr. exact Hvh. }
  destruct (ty =? 5) eqn:T5.
  { (* BOOLEAN *)
    apply Z.eqb_eq in T5.
    destruct body as [|x body'] eqn:Eb; [discriminate|].
    apply POk_inv in H as [<- [<- [<- Hcn]]].
    apply andb_true_iff in Hcn as [I0 Hx].
    apply Z.eqb_eq in I0.
    destruct (fixed_header_inv ty idx d1 hs vs ltac:(lia) Hsoh) as [Hhs Hvs].
    rewrite I0 in Hvs. replace (ty =? 0) with false in Hvs by (symmetry; apply Z.eqb_neq; lia).
    cbn in Hvs.
    assert (Hxx : bool_z (x =? 1) = x).
    { rewrite orb_true_iff, !Z.eqb_eq in Hx. destruct Hx as [-> | ->]; reflexivity. }
    assert (Hd1x : d1 = x :: body') by (subst hs; exact Eb).
    apply Hclose; [lia|subst n vs; cbn; lia| |reflexivity|cbn; lia].
    subst n hs vs. rewrite Hd1x. cbn [encode Z.to_nat Pos.to_nat Pos.iter_op Nat.add firstn].
    rewrite Hxx. rewrite <- Hhdr, T5, I0. reflexivity. }
  destruct ((ty =? 6) || (ty =? 7)) eqn:T67.
  { (* SEQUENCE / ALTERNATIVE *)
    destruct depth as [|dep]; [discriminate|].
    destruct (parse_list k dep k body vs) as [l used cn| |] eqn:El; try discriminate.
    apply POk_inv in H as [<- [<- [<- Hcn]]].
    rewrite !andb_true_iff in Hcn; destruct Hcn as [[[Hw Hcan] Hcn'] Hu].
    apply Nat.leb_le in Hw. apply Z.eqb_eq in Hu. subst cn used.
    destruct (var_header_back ty idx d1 hs vs Hty Hidx Hd1 Hsoh Hcan Hw) as [Hvh [_ Hhs]].
    destruct (Hpl dep k body vs l vs Hbody El) as [_ [_ [Hel [Hbl Hdl]]]].
    fold n in Hel.
    destruct (ty =? 6) eqn:T6.
    - apply Z.eqb_eq in T6. apply Hclose; [exact Hhs|exact Hw| | |].
      + rewrite encode_seq, Hel. rewrite <- T6, <- Hhdr. exact Hvh.
      + rewrite elem_bytes_ok_seq. exact Hbl.
      + rewrite elem_depth_seq. lia.
    - cbn [orb] in T67. apply Z.eqb_eq in T67. apply Hclose; [exact Hhs|exact Hw| | |].
      + rewrite encode_alt, Hel. rewrite <- T67, <- Hhdr. exact Hvh.
      + rewrite elem_bytes_ok_alt. exact Hbl.
      + rewrite elem_depth_alt. lia. }
  destruct (ty =? 8) eqn:T8.
  { (* URL *)
    apply Z.eqb_eq in T8. apply POk_inv in H as [<- [<- [<- Hcn]]].
    apply andb_true_iff in Hcn as [Hw Hcan].
    apply Nat.leb_le in Hw.
    destruct (var_header_back ty idx d1 hs vs Hty Hidx Hd1 Hsoh Hcan Hw) as [Hvh [_ Hhs]].
    apply Hclose; [exact Hhs|exact Hw| |exact Hval|cbn; lia].
    cbn [encode]. rewrite <- T8, <- Hhdr. exact Hvh. }
  discriminate.
Qed.

Lemma pn_all : forall pn, pn_prop pn.
Proof.
  induction pn as [|k IH].
  - intros depth d e c raw _ H. discriminate.
  - apply pn_step. apply pl_from_pn. exact IH.
Qed.

(* bytes -> value -> bytes: a parse that met only canonical encodings yields an element
   whose (uncached) serialisation is exactly the bytes consumed *)
Theorem parse_encode : forall fuel depth d e c raw,
  bytes_ok d = true -> parse_next fuel depth d = POk e c raw true ->
  encode e = Some raw /\ c = lenZ raw /\ raw = firstn (Z.to_nat c) d /\ c <= lenZ d /\
  elem_bytes_ok e = true /\ (elem_depth e <= depth)%nat.
Proof. intros fuel. exact (pn_all fuel). Qed.

(* with the _bytes cache the re-serialisation is the consumed slice in every case *)
Theorem parse_cache : forall fuel depth d e c raw cn,
  parse_next fuel depth d = POk e c raw cn -> raw = firstn (Z.to_nat c) d.
Proof.
  intros fuel depth d e c raw cn H. destruct fuel as [|k]; [discriminate|].
  destruct d as [|b d1]; [discriminate|].
  rewrite parse_next_unfold in H. cbv zeta in H.
  destruct (size_of_header _ _ d1) as [[hs vs]|]; [|discriminate].
  repeat match type of H with
         | (if ?c then _ else _) = _ => destruct c
         | match ?c with _ => _ end = _ => destruct c
         end; try discriminate; apply POk_inv in H as [_ [<- [<- _]]]; rewrite consumed_nat; reflexivity.
Qed.

(* fuel: S (length d) is always enough (never PFuel) *)
Lemma fuel_enough_aux : forall pn,
  (forall depth d, (length d < pn)%nat -> parse_next pn depth d <> PFuel) /\
  (forall dep fuel d budget, (length d < pn)%nat -> (length d < fuel)%nat ->
     parse_list pn dep fuel d budget <> LFuel).
Proof.
  induction pn as [|k [IHn IHl]].
  - split; intros; lia.
  - assert (A : forall depth d, (length d < S k)%nat -> parse_next (S k) depth d <> PFuel).
    { intros depth d Hl. destruct d as [|b d1]; [discriminate|].
      rewrite parse_next_unfold. cbv zeta.
      destruct (size_of_header _ _ d1) as [[hs vs]|]; [|discriminate].
      destruct depth as [|dep];
      repeat match goal with
             | |- (if ?c then _ else _) <> _ => destruct c
             | |- match ?c with _ :: _ => _ | [] => _ end <> _ => destruct c
             end; try discriminate.
      destruct (parse_list k dep k (skipn hs d1) vs) eqn:E; try discriminate.
      exfalso. apply (IHl dep k (skipn hs d1) vs); [| |exact E];
        rewrite skipn_length; cbn [length] in Hl; lia. }
    split; [exact A|].
    intros dep fuel. induction fuel as [|k' IHf]; intros d budget Hl Hf; [lia|].
    cbn [parse_list]. destruct (budget <=? 0); [discriminate|].
    destruct (parse_next (S k) dep d) as [e c raw cn| |] eqn:Ep; try discriminate.
    + destruct (budget - c <? 0); [discriminate|].
      rewrite dropZ_skipn.
      destruct (parse_list (S k) dep k' (skipn (Z.to_nat c) d) (budget - c)) eqn:El; try discriminate.
      exfalso.
      assert (Hc : (0 < Z.to_nat c)%nat).
      { destruct d as [|b d1]; [discriminate|]. rewrite parse_next_unfold in Ep. cbv zeta in Ep.
        destruct (size_of_header _ _ d1) as [[hs vs]|]; [|discriminate].
        repeat match type of Ep with
               | (if ?c then _ else _) = _ => destruct c
               | match ?c with _ => _ end = _ => destruct c
               end; try discriminate; apply POk_inv in Ep as [_ [<- _]]; lia. }
      assert (Hd : (0 < length d)%nat) by (destruct d; [discriminate|cbn; lia]).
      apply (IHf (skipn (Z.to_nat c) d) (budget - c)); [| |exact El]; rewrite skipn_length; lia.
    + exfalso. exact (A dep d Hl Ep).
Qed.

Theorem from_bytes_never_out_of_fuel : forall max_depth d, from_bytes max_depth d <> PFuel.
Proof.
  intros max_depth d. unfold from_bytes, sdp_fuel.
  apply (proj1 (fuel_enough_aux (S (length d)))). lia.
Qed.

(* nesting deeper than the parser's limit is rejected, not mis-parsed: the value side
   of the round trip needs elem_depth <= max_depth *)
Lemma sdp_depth_refuted :
  exists e b, encode e = Some b /\ from_bytes 1 b = PErr.
Proof.
  exists (ESeq [ESeq [ENil]]). eexists. split; [vm_compute; reflexivity|]. vm_compute. reflexivity.
Qed.

(* the element type codes hard-wired in the model are those of the regenerated enum *)
Lemma sdp_type_codes_checked : sdp_type_codes = [0; 1; 2; 3; 4; 5; 6; 7; 8].
Proof. reflexivity. Qed.

(* an element that ends beyond the declared end of its container is rejected (D17b), never
   silently cut back to the container's end *)
Lemma parse_list_overrun_rejected : forall pn dep k' d budget e c raw cn,
  0 < budget -> parse_next pn dep d = POk e c raw cn -> budget < c ->
  parse_list pn dep (S k') d budget = LErr.
Proof.
  intros pn dep k' d budget e c raw cn Hb Hp Hc. cbn [parse_list].
  replace (budget <=? 0) with false by (symmetry; apply Z.leb_gt; lia).
  rewrite Hp. replace (budget - c <? 0) with true by (symmetry; apply Z.ltb_lt; lia). reflexivity.
Qed.
