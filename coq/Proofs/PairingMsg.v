(* Lemmas about the message-level model Model/PairingMsg.v (property C13): every schedule of
   deliveries and user answers keeps the invariant [minv]; the exploration that establishes it is
   a verified reachability check. *)
From Coq Require Import ZArith List Bool Lia.
From BV Require Import Gen.C13Tables Model.Pairing Model.PairingMsg.
Import ListNotations.
Open Scope Z_scope.

(* ---------------------------------------------------------------- equality of states *)
Lemma zl_eqb_eq : forall a b, zl_eqb a b = true -> a = b.
Proof.
  induction a as [|x a IH]; destruct b as [|y b]; simpl; try discriminate; auto.
  intro H. apply andb_true_iff in H. destruct H as [H1 H2].
  apply Z.eqb_eq in H1. subst. f_equal. auto.
Qed.

Lemma mside_eqb_eq : forall a b, mside_eqb a b = true -> a = b.
Proof.
  intros a b H. unfold mside_eqb in H.
  repeat match goal with
  | H : _ && _ = true |- _ => apply andb_true_iff in H; destruct H
  end.
  repeat match goal with
  | H : (_ =? _) = true |- _ => apply Z.eqb_eq in H
  | H : Bool.eqb _ _ = true |- _ => apply eqb_prop in H
  | H : zl_eqb _ _ = true |- _ => apply zl_eqb_eq in H
  end.
  destruct a, b; simpl in *; subst; reflexivity.
Qed.

Lemma mstate_eqb_forget : forall a b, mstate_eqb a b = true -> forget a = forget b.
Proof.
  intros a b H. unfold mstate_eqb in H.
  apply andb_true_iff in H. destruct H as [H H4].
  apply andb_true_iff in H. destruct H as [H H3].
  apply andb_true_iff in H. destruct H as [H1 H2].
  apply mside_eqb_eq in H1. apply mside_eqb_eq in H2. apply zl_eqb_eq in H3. apply zl_eqb_eq in H4.
  destruct a, b; simpl in *; subst; reflexivity.
Qed.

Lemma forget_idem : forall s, forget (forget s) = forget s.
Proof. destruct s; reflexivity. Qed.

Lemma enabled_forget : forall l s, enabled l (forget s) = enabled l s.
Proof. destruct l, s; reflexivity. Qed.

Lemma minv_forget : forall c s, minv c (forget s) = minv c s.
Proof. destruct s; reflexivity. Qed.

Lemma deliver_forget : forall c me s, forget (deliver c me (forget s)) = forget (deliver c me s).
Proof.
  intros c me s. unfold deliver. change (clear_sent (forget s)) with (clear_sent s).
  destruct s as [mi mr qi qr si sr]; destruct me; cbn [clear_sent forget q_i q_r m_i m_r];
    [destruct qi|destruct qr]; reflexivity.
Qed.

Lemma user_forget : forall c me s, forget (user c me (forget s)) = forget (user c me s).
Proof.
  intros c me s. unfold user. change (clear_sent (forget s)) with (clear_sent s).
  destruct s as [mi mr qi qr si sr]; destruct me;
    cbn [clear_sent forget get m_i m_r]; [destruct (d_prompt mi =? P_NONE)|destruct (d_prompt mr =? P_NONE)];
    reflexivity.
Qed.

Lemma mstep_forget : forall c s l, forget (mstep c (forget s) l) = forget (mstep c s l).
Proof.
  intros c s l. unfold mstep. rewrite enabled_forget.
  destruct (enabled l s); [|apply forget_idem].
  destruct l; auto using deliver_forget, user_forget.
Qed.

Lemma smem_spec : forall t l, smem t l = true -> exists x, In x l /\ mstate_eqb t x = true.
Proof.
  induction l as [|x l IH]; simpl; intro H; [discriminate|].
  apply orb_true_iff in H. destruct H as [H|H]; [exists x; auto|].
  destruct (IH H) as (y & Hy & E). exists y; auto.
Qed.

(* ---------------------------------------------------------------- soundness of the exploration *)
(* the state is (up to the output fields) in the first layer of a closed suffix of the layers *)
Definition closed_from (c : mcfg) (ls : list (list mstate)) (s : mstate) : Prop :=
  match ls with
  | [] => False
  | l0 :: _ => smem (forget s) l0 = true /\ layers_closed c ls = true
  end.

Lemma closed_minv : forall c ls s, closed_from c ls s -> minv c s = true.
Proof.
  intros c [|l0 rest] s H; [contradiction|]. destruct H as [Hm Hc].
  cbn [layers_closed] in Hc. apply andb_true_iff in Hc. destruct Hc as [Hc _].
  apply andb_true_iff in Hc. destruct Hc as [Hinv _].
  destruct (smem_spec _ _ Hm) as (x & Hx & E).
  rewrite forallb_forall in Hinv. specialize (Hinv x Hx).
  apply mstate_eqb_forget in E. rewrite forget_idem in E.
  rewrite <- minv_forget, E, minv_forget. assumption.
Qed.

Lemma closed_step : forall c ls s l,
  closed_from c ls s -> enabled l s = true ->
  exists ls', closed_from c ls' (mstep c s l) /\ (length ls' < length ls)%nat.
Proof.
  intros c [|l0 rest] s l H He; [contradiction|]. destruct H as [Hm Hc].
  cbn [layers_closed] in Hc. apply andb_true_iff in Hc. destruct Hc as [Hc Hrest].
  apply andb_true_iff in Hc. destruct Hc as [_ Hsucc].
  destruct (smem_spec _ _ Hm) as (x & Hx & E).
  apply mstate_eqb_forget in E. rewrite forget_idem in E.
  rewrite forallb_forall in Hsucc. specialize (Hsucc x Hx).
  rewrite forallb_forall in Hsucc.
  assert (Hen : enabled l x = true) by (rewrite <- enabled_forget, <- E, enabled_forget; assumption).
  assert (Hin : In (forget (mstep c x l)) (successors c x)).
  { unfold successors. apply in_flat_map. exists l. split; [destruct l; simpl; auto|].
    rewrite Hen. simpl. auto. }
  specialize (Hsucc _ Hin).
  destruct rest as [|l1 rest']; [discriminate|].
  exists (l1 :: rest'). split; [|simpl; lia].
  split; [|assumption].
  rewrite <- mstep_forget, E, mstep_forget. assumption.
Qed.

(* number of labels of a schedule that were enabled when their turn came *)
Fixpoint effective (c : mcfg) (s : mstate) (sched : list label) : nat :=
  match sched with
  | [] => O
  | l :: rest => (if enabled l s then 1 else 0) + effective c (mstep c s l) rest
  end.

Lemma closed_run : forall c sched ls s,
  closed_from c ls s ->
  minv c (fold_left (mstep c) sched s) = true /\ (effective c s sched < length ls)%nat.
Proof.
  intros c sched. induction sched as [|l rest IH]; intros ls s H.
  - split; [exact (closed_minv _ _ _ H)|]. destruct ls; [contradiction|simpl; lia].
  - cbn [fold_left effective]. destruct (enabled l s) eqn:He.
    + destruct (closed_step _ _ _ _ H He) as (ls' & H' & Hlen).
      destruct (IH ls' _ H') as (A & B). split; [assumption|]. lia.
    + assert (Hs : mstep c s l = s) by (unfold mstep; rewrite He; reflexivity).
      rewrite Hs. destruct (IH ls s H) as (A & B). split; [assumption|]. lia.
Qed.

Lemma layers_length : forall c fuel fr ls, layers c fuel fr = Some ls -> (length ls <= fuel)%nat.
Proof.
  intros c fuel. induction fuel as [|f IH]; intros fr ls H.
  - destruct fr; simpl in H; [injection H as <-; simpl; lia|discriminate].
  - destruct fr as [|x fr'].
    + simpl in H. injection H as <-. simpl. lia.
    + cbn [layers] in H.
      destruct (layers c f (add_all (flat_map (successors c) (x :: fr')) [])) as [ls'|] eqn:E; [|discriminate].
      injection H as <-. simpl. specialize (IH _ _ E). lia.
Qed.

Lemma layers_head : forall c fuel fr ls,
  layers c fuel fr = Some ls -> fr <> [] -> exists rest, ls = fr :: rest.
Proof.
  intros c fuel fr ls H Hne. destruct fr as [|x fr']; [congruence|].
  destruct fuel as [|f]; [discriminate|]. cbn [layers] in H.
  destruct (layers c f (add_all (flat_map (successors c) (x :: fr')) [])) as [ls'|]; [|discriminate].
  injection H as <-. eauto.
Qed.

Lemma check_layers_inv : forall c o, check_layers c o = true ->
  exists ls, o = Some ls /\ layers_closed c ls = true.
Proof. intros c [ls|] H; [eauto|discriminate]. Qed.

(* Every schedule - any interleaving of deliveries and user answers, any length - keeps the
   invariant, and takes fewer than FUEL = 400 effective steps. *)
Lemma explore_fuel_sound : forall fuel c, explore_fuel fuel c = true ->
  forall sched, minv c (mrun c sched) = true /\ (effective c minit sched < fuel)%nat.
Proof.
  intros fuel c H sched. unfold explore_fuel in H.
  destruct (check_layers_inv _ _ H) as (ls & E & H').
  assert (Hc : closed_from c ls minit).
  { destruct (layers_head _ _ _ _ E ltac:(discriminate)) as (rest & ->).
    split; [|assumption]. vm_compute. reflexivity. }
  destruct (closed_run c sched ls minit Hc) as (A & B). split; [exact A|].
  exact (Nat.lt_le_trans _ _ _ B (layers_length _ _ _ _ E)).
Qed.

Lemma explore_sound : forall c, explore_ok c = true ->
  forall sched, minv c (mrun c sched) = true /\ (effective c minit sched < FUEL)%nat.
Proof. intros c H. exact (explore_fuel_sound FUEL c H). Qed.

(* ---------------------------------------------------------------- the families *)
Lemma family_explored : forallb explore_ok family = true.
Proof. vm_cast_no_check (eq_refl true). Qed.

Lemma concrete_checked : forallb concrete_ok concrete = true.
Proof. vm_cast_no_check (eq_refl true). Qed.

(* what the invariant says, unpacked *)
Lemma minv_unpack : forall c s, minv c s = true ->
  d_err (m_i s) = false /\ d_err (m_r s) = false /\
  ~ (d_out (m_i s) = 1 /\ d_out (m_r s) = 2) /\ ~ (d_out (m_i s) = 2 /\ d_out (m_r s) = 1) /\
  (quiescent s = true -> d_out (m_i s) <> 0 /\ d_out (m_r s) <> 0) /\
  (must_fail c = true -> d_out (m_i s) <> 1 /\ d_out (m_r s) <> 1) /\
  (must_fail c = false -> d_out (m_i s) <> 2 /\ d_out (m_r s) <> 2) /\
  (d_out (m_i s) = 2 -> d_out (m_r s) = 2 -> d_reason (m_i s) = d_reason (m_r s)).
Proof.
  intros c s H. unfold minv in H.
  repeat match goal with
  | H : _ && _ = true |- _ => apply andb_true_iff in H; destruct H
  end.
  repeat match goal with
  | H : negb _ = true |- _ => apply negb_true_iff in H
  end.
  split; [assumption|]. split; [assumption|].
  split. { intros [A B]. rewrite A, B in *. discriminate. }
  split. { intros [A B]. rewrite A, B in *. discriminate. }
  split.
  { intro Q. rewrite Q in *. unfold ended, running in *.
    match goal with H : negb _ && negb _ = true |- _ => apply andb_true_iff in H; destruct H as [A B] end.
    apply negb_true_iff in A. apply negb_true_iff in B. apply Z.eqb_neq in A. apply Z.eqb_neq in B. auto. }
  split.
  { intro M. rewrite M in *.
    match goal with H : negb _ && negb _ = true |- _ => apply andb_true_iff in H; destruct H as [A B] end.
    apply negb_true_iff in A. apply negb_true_iff in B. apply Z.eqb_neq in A. apply Z.eqb_neq in B. auto. }
  split.
  { intro M. rewrite M in *.
    match goal with H : negb _ && negb _ = true |- _ => apply andb_true_iff in H; destruct H as [A B] end.
    apply negb_true_iff in A. apply negb_true_iff in B. apply Z.eqb_neq in A. apply Z.eqb_neq in B. auto. }
  intros A B. rewrite A, B in *. cbn in *.
  match goal with H : (_ =? _) = true |- _ => apply Z.eqb_eq in H; exact H end.
Qed.

(* For every configuration of the family and EVERY schedule: no model assumption is violated,
   never one side completed and the other failed, whenever nothing is enabled both sides have
   ended (no deadlock), a run that must fail never completes and one that need not never fails,
   two failures carry the same reason, and the run has fewer than 400 effective steps. *)
Lemma schedules_ok : forall c, In c family -> forall sched,
  let s := mrun c sched in
  d_err (m_i s) = false /\ d_err (m_r s) = false /\
  ~ (d_out (m_i s) = 1 /\ d_out (m_r s) = 2) /\ ~ (d_out (m_i s) = 2 /\ d_out (m_r s) = 1) /\
  (quiescent s = true -> d_out (m_i s) <> 0 /\ d_out (m_r s) <> 0) /\
  (must_fail c = true -> d_out (m_i s) <> 1 /\ d_out (m_r s) <> 1) /\
  (must_fail c = false -> d_out (m_i s) <> 2 /\ d_out (m_r s) <> 2) /\
  (d_out (m_i s) = 2 -> d_out (m_r s) = 2 -> d_reason (m_i s) = d_reason (m_r s)) /\
  (effective c minit sched < FUEL)%nat.
Proof.
  intros c Hin sched s.
  pose proof family_explored as F. rewrite forallb_forall in F. specialize (F c Hin).
  destruct (explore_sound c F sched) as (A & B).
  pose proof (minv_unpack c s A) as U. intuition.
Qed.

(* The concrete family (all capability pairs x SC x MITM on each side x 18 environments): the
   value-level model (Model/Pairing.v) ends exactly as the message-level model does, and the
   message-level configuration it maps to keeps the invariant under every schedule. *)
Lemma concrete_agrees : forall ci cr e, In (ci, cr, e) concrete ->
  agrees ci cr e = true /\
  forall c, abs_of ci cr e = Some c -> forall sched, minv c (mrun c sched) = true.
Proof.
  intros ci cr e Hin. pose proof concrete_checked as F. rewrite forallb_forall in F.
  specialize (F _ Hin). unfold concrete_ok in F. apply andb_true_iff in F. destruct F as [A B].
  split; [assumption|]. intros c Hc sched. rewrite Hc in B. exact (proj1 (explore_sound c B sched)).
Qed.

(* the honest shapes are in the family (non-vacuity of [In c family]) *)
Lemma family_nonempty : In (honest (true, PM_PASSKEY, true, false) 7 5) family.
Proof.
  unfold family. apply in_flat_map. exists (true, PM_PASSKEY, true, false). split.
  - unfold shapes. simpl. auto 10.
  - apply in_or_app. left. unfold honest_all. apply in_flat_map. exists 7. split.
    + unfold masks16. simpl. auto 20.
    + apply in_map_iff. exists 5. split; [reflexivity|]. unfold masks16. simpl. auto 20.
Qed.

(* ---------------------------------------------------------------- Manager.sessions over connections *)
Lemma find_drop : forall h l, find_session h (drop_session h l) = None.
Proof.
  induction l as [|s l IH]; simpl; [reflexivity|].
  destruct (ms_handle s =? h) eqn:E; [assumption|]. simpl. rewrite E. assumption.
Qed.

Lemma forallb_drop : forall f h l, forallb f l = true -> forallb f (drop_session h l) = true.
Proof.
  induction l as [|s l IH]; simpl; intro H; [reflexivity|].
  apply andb_true_iff in H. destruct H as [H1 H2].
  destruct (ms_handle s =? h); [auto|]. simpl. rewrite H1. auto.
Qed.

Lemma drop_other : forall f h l,
  (forall s, ms_handle s <> h -> f s = true -> True) ->
  forallb f (drop_session h l) = true -> True.
Proof. auto. Qed.

(* after the connection went down no session is registered under its handle *)
Lemma disconnect_ends_session : forall g h,
  find_session h (mg_sessions (mgr_step g (OpDisconnect h))) = None.
Proof. intros g h. cbn [mgr_step mg_sessions]. apply find_drop. Qed.

Lemma epoch_after_disconnect : forall g h h',
  epoch_of (mgr_step g (OpDisconnect h)) h' = if h' =? h then epoch_of g h + 1 else epoch_of g h'.
Proof.
  intros g h h'. unfold epoch_of at 1. cbn [mgr_step mg_epochs assoc].
  destruct (h' =? h) eqn:E; [reflexivity|]. reflexivity.
Qed.

Lemma forallb_drop_epoch : forall g h e l,
  forallb (fun s => ms_epoch s =? epoch_of g (ms_handle s)) l = true ->
  forallb (fun s => ms_epoch s =? (if ms_handle s =? h then e else epoch_of g (ms_handle s)))
          (drop_session h l) = true.
Proof.
  induction l as [|s l IH]; simpl; intro H; [reflexivity|].
  apply andb_true_iff in H. destruct H as [H1 H2].
  destruct (ms_handle s =? h) eqn:E; [auto|]. simpl. rewrite E, H1. auto.
Qed.

Lemma forallb_ext' : forall (A : Type) (f g : A -> bool) l,
  (forall x, f x = g x) -> forallb f l = forallb g l.
Proof. intros A f g l H. induction l as [|x l IH]; simpl; [reflexivity|]. rewrite H, IH. reflexivity. Qed.

(* no sequence of pairings, ends and disconnections leaves a session bound to a closed connection *)
Lemma mgr_step_ok : forall g o, mgr_ok g = true -> mgr_ok (mgr_step g o) = true.
Proof.
  intros g o H. unfold mgr_ok in *. destruct o as [h|h req|h failed|h].
  - cbn [mgr_step new_session mg_sessions forallb ms_epoch ms_handle].
    change (epoch_of (mkMgr _ (mg_epochs g) _) ?x) with (epoch_of g x).
    rewrite Z.eqb_refl. cbn [andb]. apply forallb_drop. assumption.
  - cbn [mgr_step]. destruct (find_session h (mg_sessions g)); [assumption|].
    destruct req; [|assumption].
    cbn [new_session mg_sessions forallb ms_epoch ms_handle].
    change (epoch_of (mkMgr _ (mg_epochs g) _) ?x) with (epoch_of g x).
    rewrite Z.eqb_refl. cbn [andb]. apply forallb_drop. assumption.
  - cbn [mgr_step]. destruct (find_session h (mg_sessions g)) as [s|] eqn:F; [|assumption].
    assert (Hs : ms_epoch s =? epoch_of g h = true).
    { clear - H F. induction (mg_sessions g) as [|x l IH]; simpl in *; [discriminate|].
      apply andb_true_iff in H. destruct H as [H1 H2].
      destruct (ms_handle x =? h) eqn:E; [|auto]. injection F as <-. apply Z.eqb_eq in E. rewrite <- E. assumption. }
    destruct failed; cbn [mg_sessions forallb ms_epoch ms_handle];
      change (epoch_of (mkMgr _ (mg_epochs g) _) ?x) with (epoch_of g x).
    + apply forallb_drop. assumption.
    + rewrite Hs. cbn [andb]. apply forallb_drop. assumption.
  - change (mg_sessions (mgr_step g (OpDisconnect h))) with (drop_session h (mg_sessions g)).
    rewrite (forallb_ext' _ _ (fun s => ms_epoch s =? (if ms_handle s =? h then epoch_of g h + 1 else epoch_of g (ms_handle s)))).
    + apply (forallb_drop_epoch g h (epoch_of g h + 1)). exact H.
    + intro s. rewrite epoch_after_disconnect. reflexivity.
Qed.

Lemma mgr_always_ok : forall ops, mgr_ok (mgr_run ops) = true.
Proof.
  intro ops. unfold mgr_run.
  assert (G : forall g, mgr_ok g = true -> mgr_ok (fold_left mgr_step ops g) = true).
  { induction ops as [|o ops IH]; intros g H; [exact H|]. simpl. apply IH. apply mgr_step_ok. exact H. }
  apply G. reflexivity.
Qed.

(* a pairing on a reused handle starts from a fresh session: after a disconnection the next
   Manager.pair or Pairing Request registers a session that did not exist before *)
Lemma fresh_session_after_disconnect : forall g h,
  (forall s, In s (mg_sessions g) -> ms_id s < mg_next g) ->
  let g1 := mgr_step g (OpDisconnect h) in
  (exists s, find_session h (mg_sessions (mgr_step g1 (OpPair h))) = Some s /\ ms_id s = mg_next g /\ ms_completed s = false) /\
  (exists s, find_session h (mg_sessions (mgr_step g1 (OpPdu h true))) = Some s /\ ms_id s = mg_next g /\ ms_completed s = false).
Proof.
  intros g h _ g1. split.
  - cbn [g1 mgr_step new_session mg_sessions find_session ms_handle mg_next]. rewrite Z.eqb_refl. eauto.
  - change (mgr_step g1 (OpPdu h true)) with
      (match find_session h (mg_sessions g1) with Some _ => g1 | None => new_session g1 h end).
    unfold g1 at 1. rewrite disconnect_ends_session.
    cbn [g1 mgr_step new_session mg_sessions find_session ms_handle mg_next]. rewrite Z.eqb_refl. eauto.
Qed.

(* seeded change C13-e: sparing completed sessions at disconnection breaks the invariant, and the
   next Pairing Request on the reused handle is handed to the stale session *)
Lemma spare_completed_refuted :
  let g := fold_left mgr_step_spare [OpPdu 1 true; OpEnded 1 false; OpDisconnect 1] mgr0 in
  mgr_ok g = false /\
  exists s, find_session 1 (mg_sessions (mgr_step_spare g (OpPdu 1 true))) = Some s /\ ms_completed s = true.
Proof. vm_compute. split; [reflexivity|eauto]. Qed.
