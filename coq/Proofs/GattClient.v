(* Proofs about Model/GattClient.v *)
From Coq Require Import ZArith List Bool Lia ZifyBool.
From BV Require Import Model.GattClient.
Import ListNotations.
Open Scope Z_scope.

(* ================================================================== termination *)
Section Termination.
  Variable cond : Z -> bool.
  Variable proc : Z -> list entry -> step_res.
  Variable raise_other : bool.
  Variable r : nat -> Z -> resp.
  Hypothesis cond_bound : forall s, cond s = true -> s <= 0xFFFF.
  Hypothesis proc_progress : forall s es a s', es <> [] -> proc s es = Next a s' -> s < s'.

  (* with fuel 0x10000 - start the loop never runs out of fuel, and it issues at most
     0x10000 - start requests: the measure 0x10000 - starting_handle strictly decreases *)
  Lemma loop_terminates : forall fuel n start acc,
    (Z.to_nat (0x10000 - start) <= fuel)%nat ->
    fst (loop cond proc raise_other r fuel n start acc) <> OutOfFuel /\
    (snd (loop cond proc raise_other r fuel n start acc) <= n + Z.to_nat (0x10000 - start))%nat.
  Proof.
    induction fuel as [|f IH]; intros n start acc Hf; cbn [loop];
      destruct (cond start) eqn:C; cbn [negb fst snd].
    - apply cond_bound in C. lia.
    - split; [discriminate|lia].
    - pose proof (cond_bound _ C) as Hb.
      destruct (r n start) as [|c|es]; cbn [fst snd].
      + split; [discriminate|lia].
      + destruct (c =? ATT_NOT_FOUND); [|destruct raise_other]; cbn [fst snd]; (split; [discriminate|lia]).
      + destruct es as [|e es]; cbn [fst snd]; [split; [discriminate|lia]|].
        destruct (proc start (e :: es)) as [|c|a|a s'] eqn:P; cbn [fst snd];
          try (split; [discriminate|lia]).
        assert (start < s') by (eapply proc_progress; [|exact P]; discriminate).
        destruct (IH (S n) s' (acc ++ a)) as [H1 H2]; [lia|].
        split; [exact H1|lia].
    - split; [discriminate|lia].
  Qed.
End Termination.

Lemma proc_group_progress parse stop start : forall es acc le a s',
  start <= le -> proc_group parse stop start es acc le = Next a s' -> start < s'.
Proof.
  induction es as [|e es IH]; intros acc le a s' Hle H; cbn [proc_group] in H.
  - inversion H. lia.
  - destruct (orb _ _) eqn:B; [discriminate|].
    destruct (andb parse _); [discriminate|].
    destruct (andb stop _); [discriminate|].
    eapply IH; [|exact H]. lia.
Qed.

Lemma proc_group_progress0 parse stop start es a s' :
  es <> [] -> proc_group parse stop start es [] 0 = Next a s' -> start < s'.
Proof.
  destruct es as [|e es]; [congruence|]. intros _ H. cbn [proc_group] in H.
  destruct (orb _ _) eqn:B; [discriminate|].
  destruct (andb parse _); [discriminate|].
  destruct (andb stop _); [discriminate|].
  eapply proc_group_progress; [|exact H]. lia.
Qed.

Lemma proc_plain_progress start : forall es acc lh a s',
  start <= lh -> proc_plain start es acc lh = Next a s' -> start < s'.
Proof.
  induction es as [|e es IH]; intros acc lh a s' Hle H; cbn [proc_plain] in H.
  - inversion H. lia.
  - destruct (e_h e <? start) eqn:B; [discriminate|].
    destruct (e_bad e); [discriminate|].
    eapply IH; [|exact H]. lia.
Qed.

Lemma proc_plain_progress0 start es a s' :
  es <> [] -> proc_plain start es [] 0 = Next a s' -> start < s'.
Proof.
  destruct es as [|e es]; [congruence|]. intros _ H. cbn [proc_plain] in H.
  destruct (e_h e <? start) eqn:B; [discriminate|].
  destruct (e_bad e); [discriminate|].
  eapply proc_plain_progress; [|exact H]. lia.
Qed.

Lemma cond_lt_ffff_bound s : cond_lt_ffff s = true -> s <= 0xFFFF.
Proof. unfold cond_lt_ffff. lia. Qed.

Lemma cond_le_bound ending s : ending <= 0xFFFF -> cond_le ending s = true -> s <= 0xFFFF.
Proof. unfold cond_le. lia. Qed.

(* --- the six procedures, for EVERY peer *)
Definition finishes (o : outcome * nat) (bound : Z) : Prop :=
  fst o <> OutOfFuel /\ Z.of_nat (snd o) <= bound.

Lemma discover_services_terminates : forall r, finishes (discover_services (fuel_for 1) r) 65535.
Proof.
  intros r. unfold discover_services, finishes, fuel_for.
  destruct (loop_terminates cond_lt_ffff (fun s es => proc_group true false s es [] 0) true r
              cond_lt_ffff_bound (fun s es a s' => proc_group_progress0 true false s es a s')
              (Z.to_nat (0x10000 - 1)) 0%nat 1 []) as [H1 H2]; [lia|].
  split; [exact H1|lia].
Qed.

Lemma discover_service_terminates : forall r, finishes (discover_service (fuel_for 1) r) 65535.
Proof.
  intros r. unfold discover_service, finishes, fuel_for.
  destruct (loop_terminates cond_lt_ffff (fun s es => proc_group false true s es [] 0) false r
              cond_lt_ffff_bound (fun s es a s' => proc_group_progress0 false true s es a s')
              (Z.to_nat (0x10000 - 1)) 0%nat 1 []) as [H1 H2]; [lia|].
  split; [exact H1|lia].
Qed.

Lemma plain_loop_terminates : forall raise r ending start,
  ending <= 0xFFFF ->
  let o := loop (cond_le ending) (fun s es => proc_plain s es [] 0) raise r (fuel_for start) 0 start [] in
  fst o <> OutOfFuel /\ Z.of_nat (snd o) <= Z.max 0 (0x10000 - start).
Proof.
  intros raise r ending start He. cbv zeta. unfold fuel_for.
  destruct (loop_terminates (cond_le ending) (fun s es => proc_plain s es [] 0) raise r
              (fun s => cond_le_bound ending s He) (fun s es a s' => proc_plain_progress0 s es a s')
              (Z.to_nat (0x10000 - start)) 0%nat start []) as [H1 H2]; [lia|].
  split; [exact H1|lia].
Qed.

Lemma proc_included_progress rd start : forall es acc lh a s',
  start <= lh -> proc_included rd start es acc lh = Next a s' -> start < s'.
Proof.
  induction es as [|e es IH]; intros acc lh a s' Hle H; cbn [proc_included] in H.
  - inversion H. lia.
  - destruct (e_h e <? start) eqn:B; [discriminate|].
    destruct (e_bad e); [discriminate|].
    destruct (e_data e) as [|s [|en [|x t]]].
    + eapply IH; [|exact H]. lia.
    + eapply IH; [|exact H]. lia.
    + destruct (rd s) as [|c|l i]; try discriminate.
      destruct (uuid_len_ok l); [|discriminate]. eapply IH; [|exact H]. lia.
    + eapply IH; [|exact H]. lia.
Qed.

Lemma proc_included_progress0 rd start es a s' :
  es <> [] -> proc_included rd start es [] 0 = Next a s' -> start < s'.
Proof.
  destruct es as [|e es]; [congruence|]. intros _ H. cbn [proc_included] in H.
  destruct (e_h e <? start) eqn:B; [discriminate|].
  destruct (e_bad e); [discriminate|].
  destruct (e_data e) as [|s [|en [|x t]]].
  - eapply proc_included_progress; [|exact H]. lia.
  - eapply proc_included_progress; [|exact H]. lia.
  - destruct (rd s) as [|c|l i]; try discriminate.
    destruct (uuid_len_ok l); [|discriminate]. eapply proc_included_progress; [|exact H]. lia.
  - eapply proc_included_progress; [|exact H]. lia.
Qed.

(* for every peer AND every way the nested reads of service declarations are answered *)
Lemma discover_included_terminates : forall r rd sh se, 0 <= sh -> se <= 0xFFFF ->
  finishes (discover_included (fuel_for sh) r rd sh se) 65536.
Proof.
  intros r rd sh se H0 He. unfold discover_included, finishes, fuel_for.
  destruct (loop_terminates (cond_le se) (fun s es => proc_included rd s es [] 0) true r
              (fun s => cond_le_bound se s He) (fun s es a s' => proc_included_progress0 rd s es a s')
              (Z.to_nat (0x10000 - sh)) 0%nat sh []) as [H1 H2]; [lia|].
  split; [exact H1|lia].
Qed.

Lemma discover_characteristics_terminates : forall r sh se, 0 <= sh -> se <= 0xFFFF ->
  finishes (discover_characteristics (fuel_for sh) r sh se) 65536.
Proof.
  intros r sh se H0 He. unfold discover_characteristics, discover_chars_loop, finishes.
  destruct (plain_loop_terminates true r se sh He) as [H1 H2].
  destruct (loop _ _ _ _ _ _ _ _) as [[es| |c|] n]; cbn [fst snd] in *; (split; [congruence|lia]).
Qed.

Lemma discover_descriptors_terminates : forall r vh ce, 0 <= vh -> ce <= 0xFFFF ->
  finishes (discover_descriptors (fuel_for (vh + 1)) r vh ce) 65535.
Proof.
  intros r vh ce H0 He. unfold discover_descriptors, finishes.
  destruct (plain_loop_terminates false r ce (vh + 1) He) as [H1 H2]. split; [exact H1|lia].
Qed.

Lemma discover_attributes_terminates : forall r, finishes (discover_attributes (fuel_for 1) r) 65535.
Proof.
  intros r. unfold discover_attributes, finishes.
  destruct (plain_loop_terminates false r 0xFFFF 1 ltac:(lia)) as [H1 H2]. split; [exact H1|lia].
Qed.

(* --- why D12a and D12c are needed: the loops before the fixes, against one scripted peer *)
Definition peer_empty_info : nat -> Z -> resp :=
  scripted [RList [mkE 1 1 false [2; 0x2800]; mkE 2 2 false [2; 0x2803]]; RList []].

Lemma attributes_unfixed_stuck : forall fuel n acc,
  (1 <= n)%nat -> acc <> [] ->
  fst (attributes_unfixed fuel peer_empty_info n (e_h (last acc (mkE 0 0 false [])) + 1) acc) = OutOfFuel.
Proof.
  induction fuel as [|f IH]; intros n acc Hn Ha; [reflexivity|].
  cbn [attributes_unfixed].
  assert (R : peer_empty_info n (e_h (last acc (mkE 0 0 false [])) + 1) = RList []).
  { unfold peer_empty_info, scripted. destruct n as [|[|n]]; [lia|reflexivity|].
    cbn [nth]. destruct n; reflexivity. }
  rewrite R. cbn [proc_plain]. rewrite app_nil_r.
  destruct (rev acc) as [|l t] eqn:E.
  - apply (f_equal (@rev entry)) in E. rewrite rev_involutive in E. cbn in E. congruence.
  - assert (L : last acc (mkE 0 0 false []) = l).
    { apply (f_equal (@rev entry)) in E. rewrite rev_involutive in E. cbn [rev] in E.
      rewrite E. apply last_last. }
    rewrite <- L. apply IH; [lia|exact Ha].
Qed.

Lemma discover_attributes_unfixed_refuted :
  forall fuel, fst (attributes_unfixed (S (S fuel)) peer_empty_info 0 1 []) = OutOfFuel.
Proof.
  intros fuel. cbn [attributes_unfixed]. cbn.
  exact (attributes_unfixed_stuck fuel 2 [mkE 1 1 false [2; 10240]; mkE 2 2 false [2; 10243]]
           ltac:(lia) ltac:(discriminate)).
Qed.

Definition peer_back_step : nat -> Z -> resp :=
  fun _ _ => RList [mkE 5 0xFFFF false []; mkE 1 1 false []].

Lemma service_unfixed_stuck : forall fuel n acc start, 1 <= start <= 2 ->
  fst (loop cond_lt_ffff (fun s es => proc_service_unfixed s es es []) false peer_back_step fuel n start acc)
  = OutOfFuel \/ False.
Proof.
  induction fuel as [|f IH]; intros n acc start Hs; cbn [loop].
  - assert (C : cond_lt_ffff start = true) by (unfold cond_lt_ffff; lia). rewrite C. now left.
  - assert (C : cond_lt_ffff start = true) by (unfold cond_lt_ffff; lia). rewrite C. cbn [negb].
    unfold peer_back_step at 1. cbn [proc_service_unfixed e_h e_end].
    assert (B : (5 <? start) = false) by lia. rewrite B. cbn [orb].
    assert (B2 : (65535 <? 5) = false) by reflexivity. rewrite B2. cbn.
    apply IH. lia.
Qed.

Lemma discover_service_unfixed_refuted :
  forall fuel, fst (discover_service_unfixed fuel peer_back_step) = OutOfFuel.
Proof.
  intros fuel. unfold discover_service_unfixed.
  destruct (service_unfixed_stuck fuel 0%nat [] 1 ltac:(lia)) as [H|[]]. exact H.
Qed.

(* ================================================================== exactness: generic part *)
Section Chain.
  Context {A : Type}.
  Variables h key : A -> Z.

  Lemma chain_weaken : forall l lo lo', lo' <= lo -> chainG h key lo l = true -> chainG h key lo' l = true.
  Proof. destruct l as [|x l]; intros lo lo' Hl H; cbn [chainG] in *; [reflexivity|]. lia. Qed.

  Lemma chain_filter f : forall l lo, chainG h key lo l = true -> chainG h key lo (filter f l) = true.
  Proof.
    induction l as [|x l IH]; intros lo H; cbn [filter chainG] in *; [reflexivity|].
    apply andb_prop in H. destruct H as [H1 H2]. specialize (IH _ H2).
    destruct (f x); cbn [chainG].
    - rewrite H1, IH. reflexivity.
    - eapply chain_weaken; [|exact IH]. lia.
  Qed.

  Lemma chain_raise : forall l lo m, chainG h key lo l = true -> Forall (fun x => m <= h x) l ->
    chainG h key m l = true.
  Proof.
    destruct l as [|x l]; intros lo m H F; cbn [chainG] in *; [reflexivity|].
    inversion F; subst. lia.
  Qed.

  Lemma chain_all_ge : forall l lo, chainG h key lo l = true -> Forall (fun x => lo <= h x) l.
  Proof.
    induction l as [|x l IH]; intros lo H; constructor; cbn [chainG] in H.
    - lia.
    - apply andb_prop in H. destruct H as [H1 H2]. specialize (IH _ H2).
      eapply Forall_impl; [|exact IH]. cbn. intros. lia.
  Qed.

  Lemma chain_app_l : forall p q lo, chainG h key lo (p ++ q) = true -> chainG h key lo p = true.
  Proof.
    induction p as [|x p IH]; intros q lo H; cbn [app chainG] in *; [reflexivity|].
    apply andb_prop in H. destruct H as [H1 H2]. rewrite H1, (IH _ _ H2). reflexivity.
  Qed.

  Lemma chain_app_r : forall p q lo d, p <> [] -> chainG h key lo (p ++ q) = true ->
    chainG h key (key (last p d) + 1) q = true /\ lo <= key (last p d) /\
    Forall (fun x => h x <= key (last p d)) p.
  Proof.
    induction p as [|x p IH]; intros q lo d Hp H; [congruence|].
    cbn [app chainG] in H. apply andb_prop in H. destruct H as [H1 H2].
    destruct p as [|y p].
    - cbn [last app] in *. repeat split; [exact H2|lia|]. constructor; [lia|constructor].
    - destruct (IH q (key x + 1) d ltac:(discriminate) H2) as [I1 [I2 I3]].
      change (last (x :: y :: p) d) with (last (y :: p) d).
      repeat split; [exact I1|lia|]. constructor; [lia|exact I3].
  Qed.
End Chain.

Lemma filter_all_false {A} (f : A -> bool) l : Forall (fun x => f x = false) l -> filter f l = [].
Proof. induction 1; cbn; [reflexivity|]. rewrite H. assumption. Qed.

Lemma filter_all_true {A} (f : A -> bool) l : Forall (fun x => f x = true) l -> filter f l = l.
Proof. induction 1; cbn; [reflexivity|]. rewrite H. congruence. Qed.

Section Exact.
  Variable key : entry -> Z.
  Variable cond : Z -> bool.
  Variable proc : Z -> list entry -> step_res.
  Variable raise_other : bool.
  Variable r : nat -> Z -> resp.
  Variable L : list entry.          (* everything the server holds for this procedure, in order *)
  Variable s0 : Z.
  Variable clean : entry -> bool.   (* what the procedure needs of an honest entry *)

  Hypothesis Lclean : forallb clean L = true.
  (* an honest response list is taken as it is, and the next request starts after its last key *)
  Hypothesis proc_ok : forall start p d, p <> [] -> chainG e_h key start p = true ->
    forallb clean p = true -> proc start p = Next p (key (last p d) + 1).
  (* the server answers with a prefix of what remains from [s] on, empty only if nothing remains *)
  Hypothesis srv : forall n s, s0 <= s -> cond s = true ->
    exists p q, filter (fun e => s <=? e_h e) L = p ++ q /\ (p = [] -> q = []) /\
                r n s = match p with [] => RErr ATT_NOT_FOUND | _ => RList p end.
  Hypothesis cond_end : forall s, s0 <= s -> cond s = false -> filter (fun e => s <=? e_h e) L = [].

  Lemma loop_exact_inv : forall fuel n start acc R,
    s0 <= start -> L = acc ++ R -> Forall (fun e => e_h e < start) acc ->
    chainG e_h key start R = true ->
    fst (loop cond proc raise_other r fuel n start acc) = OutOfFuel \/
    fst (loop cond proc raise_other r fuel n start acc) = Done L.
  Proof.
    induction fuel as [|f IH]; intros n start acc R Hs HL Hacc Hch.
    - cbn [loop]. destruct (cond start) eqn:C; cbn [negb fst]; [now left|]. right.
      assert (HR : filter (fun e => start <=? e_h e) L = R).
      { rewrite HL, filter_app, filter_all_false, filter_all_true; [reflexivity| |].
        - eapply Forall_impl; [|apply (chain_all_ge _ _ _ _ Hch)]. cbn. intros. lia.
        - eapply Forall_impl; [|exact Hacc]. cbn. intros. lia. }
      rewrite (cond_end _ Hs C) in HR. subst R. rewrite app_nil_r in HL. congruence.
    - assert (HR : filter (fun e => start <=? e_h e) L = R).
      { rewrite HL, filter_app, filter_all_false, filter_all_true; [reflexivity| |].
        - eapply Forall_impl; [|apply (chain_all_ge _ _ _ _ Hch)]. cbn. intros. lia.
        - eapply Forall_impl; [|exact Hacc]. cbn. intros. lia. }
      cbn [loop]. destruct (cond start) eqn:C; cbn [negb].
      + destruct (srv n start Hs C) as [p [q [Hpq [Hnil Hr]]]]. rewrite Hr.
        destruct p as [|e p].
        * right. rewrite (Hnil eq_refl) in Hpq. cbn in Hpq. rewrite Hpq in HR. subst R.
          rewrite app_nil_r in HL. cbn. congruence.
        * rewrite HR in Hpq. clear HR. subst R.
          assert (Hcl : forallb clean (e :: p) = true).
          { rewrite HL in Lclean. rewrite !forallb_app in Lclean.
            apply andb_prop in Lclean. destruct Lclean as [_ H2].
            apply andb_prop in H2. tauto. }
          rewrite (proc_ok start (e :: p) e ltac:(discriminate) (chain_app_l _ _ _ _ _ Hch) Hcl).
          destruct (chain_app_r e_h key (e :: p) q start e ltac:(discriminate) Hch) as [C1 [C2 C3]].
          pose proof (chain_all_ge _ _ _ _ (chain_app_l _ _ _ _ _ Hch)) as Hge.
          assert (Hlast : start <= key (last (e :: p) e)) by exact C2.
          apply (IH (S n) (key (last (e :: p) e) + 1) (acc ++ e :: p) q).
          -- lia.
          -- rewrite <- app_assoc. exact HL.
          -- apply Forall_app. split.
             ++ eapply Forall_impl; [|exact Hacc]. intros x Hx. cbv beta in Hx |- *. lia.
             ++ eapply Forall_impl; [|exact C3]. intros x Hx. cbv beta in Hx |- *. lia.
          -- exact C1.
      + right. rewrite (cond_end _ Hs C) in HR. subst R. rewrite app_nil_r in HL. cbn. congruence.
  Qed.

  Lemma loop_exact : forall fuel, chainG e_h key s0 L = true ->
    fst (loop cond proc raise_other r fuel 0 s0 []) = OutOfFuel \/
    fst (loop cond proc raise_other r fuel 0 s0 []) = Done L.
  Proof.
    intros fuel H. apply (loop_exact_inv fuel 0%nat s0 [] L); [lia|reflexivity|constructor|exact H].
  Qed.
End Exact.

(* ================================================================== exactness: what the procedures accept *)
Lemma proc_plain_ok start : forall p acc lh d,
  Forall (fun e => start <= e_h e) p -> forallb (fun e => negb (e_bad e)) p = true ->
  proc_plain start p acc lh = Next (acc ++ p) (match p with [] => lh | _ => e_h (last p d) end + 1).
Proof.
  induction p as [|e p IH]; intros acc lh d F C; cbn [proc_plain].
  - now rewrite app_nil_r.
  - inversion F; subst. cbn [forallb] in C. apply andb_prop in C. destruct C as [C1 C2].
    assert (B : (e_h e <? start) = false) by lia. rewrite B.
    destruct (e_bad e); [discriminate|].
    rewrite (IH (acc ++ [e]) (e_h e) d H2 C2), <- app_assoc. cbn [app].
    destruct p; reflexivity.
Qed.

Definition clean_group (parse stop : bool) (e : entry) : bool :=
  andb (negb (andb parse (e_bad e))) (negb (andb stop (e_end e =? 0xFFFF))).

Lemma proc_group_ok parse stop start : forall p acc le d,
  Forall (fun e => start <= e_h e /\ e_h e <= e_end e) p -> forallb (clean_group parse stop) p = true ->
  proc_group parse stop start p acc le = Next (acc ++ p) (match p with [] => le | _ => e_end (last p d) end + 1).
Proof.
  induction p as [|e p IH]; intros acc le d F C; cbn [proc_group].
  - now rewrite app_nil_r.
  - inversion F; subst. cbn [forallb] in C. apply andb_prop in C. destruct C as [C1 C2].
    unfold clean_group in C1. apply andb_prop in C1. destruct C1 as [C1a C1b].
    assert (B : orb (e_h e <? start) (e_end e <? e_h e) = false) by lia. rewrite B.
    destruct (andb parse (e_bad e)); [discriminate|].
    destruct (andb stop (e_end e =? 65535)); [discriminate|].
    rewrite (IH (acc ++ [e]) (e_end e) d H2 C2), <- app_assoc. cbn [app].
    destruct p; reflexivity.
Qed.

Lemma chain_all_valid {A} (h key : A -> Z) : forall l lo, chainG h key lo l = true ->
  Forall (fun x => lo <= h x /\ h x <= key x) l.
Proof.
  induction l as [|x l IH]; intros lo H; constructor; cbn [chainG] in H.
  - lia.
  - apply andb_prop in H. destruct H as [H1 H2]. specialize (IH _ H2).
    eapply Forall_impl; [|exact IH]. intros y Hy. cbv beta in Hy |- *. lia.
Qed.

Lemma plain_proc_ok : forall start p d, p <> [] -> chainG e_h e_h start p = true ->
  forallb (fun e => negb (e_bad e)) p = true ->
  proc_plain start p [] 0 = Next p (e_h (last p d) + 1).
Proof.
  intros start p d Hp Hc Hb.
  rewrite (proc_plain_ok start p [] 0 d (chain_all_ge _ _ _ _ Hc) Hb).
  destruct p; [congruence|reflexivity].
Qed.

Lemma group_proc_ok parse stop : forall start p d, p <> [] -> chainG e_h e_end start p = true ->
  forallb (clean_group parse stop) p = true ->
  proc_group parse stop start p [] 0 = Next p (e_end (last p d) + 1).
Proof.
  intros start p d Hp Hc Hb.
  rewrite (proc_group_ok parse stop start p [] 0 d (chain_all_valid _ _ _ _ Hc) Hb).
  destruct p; [congruence|reflexivity].
Qed.

(* ================================================================== exactness: the server's pagination *)
Lemma take_run_prefix hdr chk0 sz : forall cands space first,
  exists q, cands = take_run hdr chk0 sz space first cands ++ q.
Proof.
  induction cands as [|a cs IH]; intros space first; cbn [take_run].
  - exists []. reflexivity.
  - destruct (andb chk0 (space =? 0)); [exists (a :: cs); reflexivity|].
    destruct (negb _); [exists (a :: cs); reflexivity|].
    destruct (space <? hdr + sz a); [exists (a :: cs); reflexivity|].
    destruct (IH (space - (hdr + sz a)) (Some (match first with Some f => f | None => sz a end))) as [q Hq].
    exists q. cbn [app]. congruence.
Qed.

(* the first candidate always goes in when it fits an empty PDU *)
Lemma take_run_first hdr chk0 sz a cs space :
  space <> 0 -> hdr + sz a <= space ->
  exists t, take_run hdr chk0 sz space None (a :: cs) = a :: t.
Proof.
  intros H0 Hfit. cbn [take_run].
  assert (B0 : andb chk0 (space =? 0) = false) by (destruct chk0; cbn; lia). rewrite B0. cbn [negb].
  assert (B1 : (space <? hdr + sz a) = false) by lia. rewrite B1. eexists. reflexivity.
Qed.

(* every entry of a response has the same size as the first and the response fits the PDU *)
Lemma take_run_sizes hdr chk0 sz : forall cands space first,
  0 <= hdr -> (forall a, 0 <= sz a) -> 0 <= space ->
  let sel := take_run hdr chk0 sz space first cands in
  Z.of_nat (length sel) * (hdr + match first with Some f => f | None => match sel with a :: _ => sz a | [] => 0 end end) <= space /\
  Forall (fun a => sz a = match first with Some f => f | None => match sel with a' :: _ => sz a' | [] => 0 end end) sel.
Proof.
  intros cands space first Hh Hsz. revert space first.
  induction cands as [|a cs IH]; intros space first Hs; cbn [take_run].
  - cbn. split; [lia|constructor].
  - destruct (andb chk0 (space =? 0)); [cbn; split; [lia|constructor]|].
    destruct first as [f|]; cbn [negb].
    + destruct (f =? sz a) eqn:E; cbn [negb]; [|cbn; split; [lia|constructor]].
      destruct (space <? hdr + sz a) eqn:F; [cbn; split; [lia|constructor]|].
      destruct (IH (space - (hdr + sz a)) (Some f) ltac:(lia)) as [I1 I2]. cbv zeta in I1, I2.
      split.
      * cbn [length]. rewrite Nat2Z.inj_succ. nia.
      * constructor; [lia|exact I2].
    + destruct (space <? hdr + sz a) eqn:F; [cbn; split; [lia|constructor]|].
      destruct (IH (space - (hdr + sz a)) (Some (sz a)) ltac:(lia)) as [I1 I2]. cbv zeta in I1, I2.
      split.
      * cbn [length]. rewrite Nat2Z.inj_succ. nia.
      * constructor; [reflexivity|exact I2].
Qed.

Lemma filter_map_comm {A B} (f : B -> bool) (g : A -> B) l :
  filter f (map g l) = map g (filter (fun x => f (g x)) l).
Proof. induction l as [|x l IH]; cbn; [reflexivity|]. destruct (f (g x)); cbn; congruence. Qed.

Lemma filter_filter {A} (f g : A -> bool) l :
  filter f (filter g l) = filter (fun x => andb (f x) (g x)) l.
Proof.
  induction l as [|x l IH]; cbn; [reflexivity|].
  destruct (g x); cbn; destruct (f x); cbn; congruence.
Qed.

Section Srv.
  Variable db : list attr.
  Variable sel : attr -> bool.
  Variables ending s0 : Z.
  Variables mk mk' : attr -> entry.
  Hypothesis mk_h : forall a, e_h (mk a) = a_handle a.

  Definition cands (s : Z) : list attr := filter (fun a => andb (sel a) (in_range s ending a)) db.

  Lemma cands_shift s : s0 <= s ->
    filter (fun e => s <=? e_h e) (map mk (cands s0)) = map mk (cands s).
  Proof.
    intros Hs. rewrite filter_map_comm. f_equal. unfold cands. rewrite filter_filter.
    apply filter_ext. intros a. rewrite mk_h. unfold in_range. lia.
  Qed.

  Variables hdr space : Z.
  Variable chk0 : bool.
  Variable sz : attr -> Z.
  Hypothesis space_pos : space <> 0.
  Hypothesis fits : forall a, In a (cands s0) -> hdr + sz a <= space.
  Hypothesis mk_same : forall a, In a (cands s0) -> mk' a = mk a.

  Lemma cands_sub s a : s0 <= s -> In a (cands s) -> In a (cands s0).
  Proof.
    unfold cands. rewrite !filter_In. unfold in_range. intros Hs [H1 H2]. split; [exact H1|]. lia.
  Qed.

  Lemma srv_generic s : s0 <= s ->
    exists p q, filter (fun e => s <=? e_h e) (map mk (cands s0)) = p ++ q /\ (p = [] -> q = []) /\
      reply (map mk' (take_run hdr chk0 sz space None (cands s)))
      = match p with [] => RErr ATT_NOT_FOUND | _ => RList p end.
  Proof.
    intros Hs. rewrite (cands_shift s Hs).
    destruct (take_run_prefix hdr chk0 sz (cands s) space None) as [q Hq].
    set (t := take_run hdr chk0 sz space None (cands s)) in *.
    exists (map mk t), (map mk q). split; [|split].
    - rewrite <- map_app. congruence.
    - intros Hnil. destruct (cands s) as [|a cs] eqn:E.
      + destruct t; [|discriminate]. cbn in Hq. subst q. reflexivity.
      + assert (Ha : In a (cands s0)) by (apply (cands_sub s a Hs); rewrite E; left; reflexivity).
        destruct (take_run_first hdr chk0 sz a cs space space_pos (fits a Ha)) as [t' Ht'].
        subst t. rewrite Ht' in Hnil. discriminate.
    - assert (M : map mk' t = map mk t).
      { apply map_ext_in. intros a Ha. apply mk_same. apply (cands_sub s a Hs).
        rewrite Hq. apply in_or_app. now left. }
      rewrite M. unfold reply. reflexivity.
  Qed.
End Srv.

(* ================================================================== exactness: the procedures against the server *)
Lemma chain_map {A B} (f : A -> B) (h key : B -> Z) : forall l lo,
  chainG h key lo (map f l) = chainG (fun x => h (f x)) (fun x => key (f x)) lo l.
Proof. induction l as [|x l IH]; intros lo; cbn [map chainG]; [reflexivity|]. now rewrite IH. Qed.

Lemma cands_in db sel ending s a : In a (cands db sel ending s) ->
  In a db /\ sel a = true /\ s <= a_handle a <= ending.
Proof.
  unfold cands. rewrite filter_In. unfold in_range. intros [H1 H2]. repeat split; try assumption; lia.
Qed.

Lemma cands_chain db sel ending s key :
  chainG a_handle key 1 (filter sel db) = true ->
  chainG a_handle key s (cands db sel ending s) = true.
Proof.
  intros H. apply (chain_raise a_handle key _ 1).
  - unfold cands.
    rewrite (filter_ext _ (fun a => andb (in_range s ending a) (sel a))) by (intros; apply andb_comm).
    rewrite <- (filter_filter (fun a => in_range s ending a) sel).
    apply chain_filter. exact H.
  - apply Forall_forall. intros a Ha. apply cands_in in Ha. lia.
Qed.

(* --- procedures that page by attribute handle (included services, characteristics,
       descriptors, all attributes) *)
Lemma plain_exact : forall raise r db sel ending s0 mk,
  (forall a, e_h (mk a) = a_handle a) -> (forall a, e_bad (mk a) = false) ->
  ending <= 0xFFFF ->
  chainG a_handle a_handle 1 db = true ->
  (forall n s, s0 <= s -> s <= ending ->
     exists p q, filter (fun e => s <=? e_h e) (map mk (cands db sel ending s0)) = p ++ q /\
       (p = [] -> q = []) /\ r n s = match p with [] => RErr ATT_NOT_FOUND | _ => RList p end) ->
  fst (loop (cond_le ending) (fun s es => proc_plain s es [] 0) raise r (fuel_for s0) 0 s0 [])
  = Done (map mk (cands db sel ending s0)).
Proof.
  intros raise r db sel ending s0 mk Hh Hb He Hs Hsrv.
  destruct (plain_loop_terminates raise r ending s0 He) as [T _]. cbv zeta in T.
  destruct (loop_exact e_h (cond_le ending) (fun s es => proc_plain s es [] 0) raise r
              (map mk (cands db sel ending s0)) s0 (fun e => negb (e_bad e))) with (fuel := fuel_for s0)
    as [O|D]; [| | | | |contradiction|exact D].
  - apply forallb_forall. intros e He'. apply in_map_iff in He'. destruct He' as [a [<- _]]. now rewrite Hb.
  - intros start p d Hp Hc Hcl. apply plain_proc_ok; assumption.
  - intros n s Hs0 C. apply Hsrv; [exact Hs0|]. unfold cond_le in C. lia.
  - intros s Hs0 C. unfold cond_le in C. apply filter_all_false. apply Forall_forall.
    intros e He'. apply in_map_iff in He'. destruct He' as [a [<- Ha]]. rewrite Hh.
    apply cands_in in Ha. lia.
  - rewrite chain_map.
    assert (E : chainG (fun x => e_h (mk x)) (fun x => e_h (mk x)) s0 (cands db sel ending s0)
                = chainG a_handle a_handle s0 (cands db sel ending s0)).
    { clear - Hh. generalize s0 at 1 3. induction (cands db sel ending s0) as [|x l IH]; intros lo; cbn [chainG]; [reflexivity|].
      rewrite !Hh. now rewrite IH. }
    rewrite E. apply cands_chain. apply chain_filter. exact Hs.
Qed.

Lemma fix_ends_id se : forall decls, char_ends_ok se decls = true ->
  fix_ends se (map to_entry decls) = map to_entry decls.
Proof.
  induction decls as [|a l IH]; intros H; cbn [map fix_ends char_ends_ok] in *; [reflexivity|].
  apply andb_prop in H. destruct H as [H1 H2]. rewrite (IH H2). f_equal.
  unfold to_entry at 1 2 3. cbn [e_h e_bad e_data]. unfold to_entry at 2. f_equal.
  destruct l as [|b l']; cbn [map e_h to_entry]; lia.
Qed.

Lemma forallb_In {A} (f : A -> bool) l a : forallb f l = true -> In a l -> f a = true.
Proof. intros H Ha. rewrite forallb_forall in H. now apply H. Qed.

Lemma trunc_same lim a : disc_vlen a <= lim -> to_entry_trunc lim a = to_entry a.
Proof. intros H. unfold to_entry_trunc, to_entry. f_equal. lia. Qed.

(* the Read By Type server, for include / characteristic declarations *)
Lemma read_by_type_srv db mtu atype sh se :
  23 <= mtu -> 1 <= sh -> decl_sizes_ok db = true ->
  orb (uuid_eqb atype UUID_INCLUDE) (uuid_eqb atype UUID_CHARACTERISTIC) = true ->
  forall (n : nat) s, sh <= s -> s <= se ->
  exists p q, filter (fun e => s <=? e_h e) (map to_entry (cands db (is_type atype) se sh)) = p ++ q /\
    (p = [] -> q = []) /\
    srv_read_by_type mtu db atype s se = match p with [] => RErr ATT_NOT_FOUND | _ => RList p end.
Proof.
  intros Hm Hsh Hd Ht n s Hs He. unfold srv_read_by_type.
  assert (B : orb (s =? 0) (se <? s) = false) by lia. rewrite B.
  apply (srv_generic db (is_type atype) se sh to_entry (to_entry_trunc (Z.min (mtu - 4) 253))
           (fun a => eq_refl) 2 (mtu - 2) true (fun a => Z.min (disc_vlen a) (Z.min (mtu - 4) 253)));
    [lia| | |exact Hs].
  - intros a _. lia.
  - intros a Ha. apply cands_in in Ha. destruct Ha as [Hin [Hty _]].
    apply trunc_same. pose proof (forallb_In _ _ _ Hd Hin) as Ha. cbv beta in Ha.
    apply andb_prop in Ha. destruct Ha as [_ Ha].
    unfold is_type in *.
    assert (E : orb (uuid_eqb (a_type a) UUID_INCLUDE) (uuid_eqb (a_type a) UUID_CHARACTERISTIC) = true).
    { unfold uuid_eqb in *. cbn [u_len u_id UUID_INCLUDE UUID_CHARACTERISTIC U16] in *. lia. }
    rewrite E in Ha. lia.
Qed.

Theorem discover_characteristics_exact : forall db mtu sh se,
  23 <= mtu -> 1 <= sh -> se <= 0xFFFF ->
  db_sorted db = true -> decl_sizes_ok db = true ->
  char_ends_ok se (chars_of db sh se) = true ->
  fst (client_discover_characteristics mtu db sh se) = Done (map to_entry (chars_of db sh se)).
Proof.
  intros db mtu sh se Hm Hsh Hse Hs Hd Hc.
  apply andb_prop in Hs. destruct Hs as [Hs _].
  unfold client_discover_characteristics, discover_characteristics, discover_chars_loop.
  pose proof (plain_exact true (fun _ s => srv_read_by_type mtu db UUID_CHARACTERISTIC s se) db
                (is_type UUID_CHARACTERISTIC) se sh to_entry (fun a => eq_refl) (fun a => eq_refl) Hse Hs
                (read_by_type_srv db mtu UUID_CHARACTERISTIC sh se Hm Hsh Hd eq_refl)) as E.
  destruct (loop _ _ _ _ _ _ _ _) as [o n]. cbn [fst] in *. subst o.
  change (cands db (is_type UUID_CHARACTERISTIC) se sh) with (chars_of db sh se).
  rewrite (fix_ends_id se _ Hc). reflexivity.
Qed.

(* --- included services: the client resolves UUID-less declarations with nested reads *)
Section ExactTr.
  Variable tr : entry -> entry.
  Variable cond : Z -> bool.
  Variable proc : Z -> list entry -> step_res.
  Variable raise_other : bool.
  Variable r : nat -> Z -> resp.
  Variable L : list entry.
  Variable s0 : Z.
  Variable clean : entry -> bool.

  Hypothesis Lclean : forallb clean L = true.
  Hypothesis proc_ok : forall start p d, p <> [] -> chainG e_h e_h start p = true ->
    forallb clean p = true -> proc start p = Next (map tr p) (e_h (last p d) + 1).
  Hypothesis srv : forall n s, s0 <= s -> cond s = true ->
    exists p q, filter (fun e => s <=? e_h e) L = p ++ q /\ (p = [] -> q = []) /\
                r n s = match p with [] => RErr ATT_NOT_FOUND | _ => RList p end.
  Hypothesis cond_end : forall s, s0 <= s -> cond s = false -> filter (fun e => s <=? e_h e) L = [].

  Lemma loop_exact_tr_inv : forall fuel n start accr R,
    s0 <= start -> L = accr ++ R -> Forall (fun e => e_h e < start) accr ->
    chainG e_h e_h start R = true ->
    fst (loop cond proc raise_other r fuel n start (map tr accr)) = OutOfFuel \/
    fst (loop cond proc raise_other r fuel n start (map tr accr)) = Done (map tr L).
  Proof.
    induction fuel as [|f IH]; intros n start accr R Hs HL Hacc Hch.
    - cbn [loop]. destruct (cond start) eqn:C; cbn [negb fst]; [now left|]. right.
      assert (HR : filter (fun e => start <=? e_h e) L = R).
      { rewrite HL, filter_app, filter_all_false, filter_all_true; [reflexivity| |].
        - eapply Forall_impl; [|apply (chain_all_ge _ _ _ _ Hch)]. cbn. intros. lia.
        - eapply Forall_impl; [|exact Hacc]. cbn. intros. lia. }
      rewrite (cond_end _ Hs C) in HR. subst R. rewrite app_nil_r in HL. congruence.
    - assert (HR : filter (fun e => start <=? e_h e) L = R).
      { rewrite HL, filter_app, filter_all_false, filter_all_true; [reflexivity| |].
        - eapply Forall_impl; [|apply (chain_all_ge _ _ _ _ Hch)]. cbn. intros. lia.
        - eapply Forall_impl; [|exact Hacc]. cbn. intros. lia. }
      cbn [loop]. destruct (cond start) eqn:C; cbn [negb].
      + destruct (srv n start Hs C) as [p [q [Hpq [Hnil Hr]]]]. rewrite Hr.
        destruct p as [|e p].
        * right. rewrite (Hnil eq_refl) in Hpq. cbn in Hpq. rewrite Hpq in HR. subst R.
          rewrite app_nil_r in HL. cbn. congruence.
        * rewrite HR in Hpq. clear HR. subst R.
          assert (Hcl : forallb clean (e :: p) = true).
          { rewrite HL in Lclean. rewrite !forallb_app in Lclean.
            apply andb_prop in Lclean. destruct Lclean as [_ H2].
            apply andb_prop in H2. tauto. }
          rewrite (proc_ok start (e :: p) e ltac:(discriminate) (chain_app_l _ _ _ _ _ Hch) Hcl).
          destruct (chain_app_r e_h e_h (e :: p) q start e ltac:(discriminate) Hch) as [C1 [C2 C3]].
          rewrite <- map_app.
          apply (IH (S n) (e_h (last (e :: p) e) + 1) (accr ++ e :: p) q).
          -- lia.
          -- rewrite <- app_assoc. exact HL.
          -- apply Forall_app. split.
             ++ eapply Forall_impl; [|exact Hacc]. intros x Hx. cbv beta in Hx |- *. lia.
             ++ eapply Forall_impl; [|exact C3]. intros x Hx. cbv beta in Hx |- *. lia.
          -- exact C1.
      + right. rewrite (cond_end _ Hs C) in HR. subst R. rewrite app_nil_r in HL. cbn. congruence.
  Qed.
End ExactTr.

Definition resolvable (rd : Z -> uresp) (e : entry) : bool :=
  andb (negb (e_bad e))
       (match e_data e with
        | [s; _] => match rd s with UVal l _ => uuid_len_ok l | _ => false end
        | _ => true
        end).

Lemma proc_included_ok rd start : forall p acc lh d,
  Forall (fun e => start <= e_h e) p -> forallb (resolvable rd) p = true ->
  proc_included rd start p acc lh
  = Next (acc ++ map (resolve_entry rd) p) (match p with [] => lh | _ => e_h (last p d) end + 1).
Proof.
  induction p as [|e p IH]; intros acc lh d F C; cbn [proc_included map].
  - now rewrite app_nil_r.
  - inversion F; subst. cbn [forallb] in C. apply andb_prop in C. destruct C as [C1 C2].
    unfold resolvable in C1. apply andb_prop in C1. destruct C1 as [C1a C1b].
    assert (B : (e_h e <? start) = false) by lia. rewrite B.
    destruct (e_bad e); [discriminate|].
    assert (Hl : match (e :: p) with [] => lh | _ => e_h (last (e :: p) d) end
                 = match p with [] => e_h e | _ => e_h (last p d) end) by (destruct p; reflexivity).
    rewrite Hl. unfold resolve_entry at 1.
    destruct (e_data e) as [|s [|en [|x t]]].
    + rewrite (IH (acc ++ [e]) (e_h e) d H2 C2), <- app_assoc. reflexivity.
    + rewrite (IH (acc ++ [e]) (e_h e) d H2 C2), <- app_assoc. reflexivity.
    + destruct (rd s) as [|c|l i]; try discriminate. rewrite C1b.
      rewrite (IH _ (e_h e) d H2 C2), <- app_assoc. reflexivity.
    + rewrite (IH (acc ++ [e]) (e_h e) d H2 C2), <- app_assoc. reflexivity.
Qed.

Definition includes_of (db : list attr) (sh se : Z) : list attr :=
  filter (fun a => andb (is_type UUID_INCLUDE a) (in_range sh se a)) db.

(* exact, as the client resolves them *)
Theorem discover_included_exact : forall db mtu sh se,
  23 <= mtu -> 1 <= sh -> se <= 0xFFFF ->
  db_sorted db = true -> decl_sizes_ok db = true ->
  forallb (resolvable (srv_read_uuid db)) (map to_entry (includes_of db sh se)) = true ->
  fst (client_discover_included mtu db sh se)
  = Done (map (resolve_entry (srv_read_uuid db)) (map to_entry (includes_of db sh se))).
Proof.
  intros db mtu sh se Hm Hsh Hse Hs Hd Hres.
  apply andb_prop in Hs. destruct Hs as [Hs _].
  unfold client_discover_included, discover_included.
  set (rd := srv_read_uuid db) in *.
  set (r := fun (_ : nat) s => srv_read_by_type mtu db UUID_INCLUDE s se).
  destruct (loop_terminates (cond_le se) (fun s es => proc_included rd s es [] 0) true r
              (fun s => cond_le_bound se s Hse) (fun s es a s' => proc_included_progress0 rd s es a s')
              (fuel_for sh) 0%nat sh []) as [T _]; [unfold fuel_for; lia|].
  assert (X : fst (loop (cond_le se) (fun s es => proc_included rd s es [] 0) true r (fuel_for sh) 0 sh
                     (map (resolve_entry rd) [])) = OutOfFuel \/
              fst (loop (cond_le se) (fun s es => proc_included rd s es [] 0) true r (fuel_for sh) 0 sh
                     (map (resolve_entry rd) []))
              = Done (map (resolve_entry rd) (map to_entry (cands db (is_type UUID_INCLUDE) se sh)))).
  { apply (loop_exact_tr_inv (resolve_entry rd) (cond_le se) (fun s es => proc_included rd s es [] 0) true r
             (map to_entry (cands db (is_type UUID_INCLUDE) se sh)) sh (resolvable rd)) with
        (R := map to_entry (cands db (is_type UUID_INCLUDE) se sh)); [exact Hres| | | | | | |].
    - intros start p d Hp Hc Hcl.
      rewrite (proc_included_ok rd start p [] 0 d (chain_all_ge _ _ _ _ Hc) Hcl).
      destruct p; [congruence|reflexivity].
    - intros n s Hs0 C. unfold r.
      apply (read_by_type_srv db mtu UUID_INCLUDE sh se Hm Hsh Hd eq_refl n s Hs0).
      unfold cond_le in C. lia.
    - intros s Hs0 C. unfold cond_le in C. apply filter_all_false. apply Forall_forall.
      intros e He'. apply in_map_iff in He'. destruct He' as [a [<- Ha]]. cbn [to_entry e_h].
      apply cands_in in Ha. lia.
    - lia.
    - reflexivity.
    - constructor.
    - rewrite chain_map. cbn [to_entry e_h]. apply cands_chain. apply chain_filter. exact Hs.
  }
  cbn [map] in X. destruct X as [O|D]; [contradiction|exact D].
Qed.


Lemma consistent_resolves db : includes_consistent db = true ->
  forall a, In a db -> is_type UUID_INCLUDE a = true ->
  resolvable (srv_read_uuid db) (to_entry a) = true /\
  resolve_entry (srv_read_uuid db) (to_entry a) = declared_include a.
Proof.
  intros Hc a Ha Ht. pose proof (forallb_In _ _ _ Hc Ha) as H. cbv beta in H.
  unfold is_type in Ht. rewrite Ht in H.
  unfold resolvable, resolve_entry, declared_include, to_entry. cbn [e_bad e_data e_h e_end negb andb].
  destruct (a_body a) as [u|s e u|p vh u|v|] eqn:B; try discriminate.
  apply andb_prop in H. destruct H as [Hu Hf]. unfold disc_data. rewrite B.
  destruct (u_len u =? 2) eqn:E2.
  - split; [reflexivity|]. f_equal. f_equal. f_equal. f_equal. lia.
  - unfold srv_read_uuid.
    destruct (find (fun b => a_handle b =? s) db) as [b|]; [|discriminate].
    destruct (a_body b) as [u'| | | |]; try discriminate.
    unfold uuid_eqb in Hf. apply andb_prop in Hf. destruct Hf as [Hl Hi].
    assert (El : u_len u' = u_len u) by lia. assert (Ei : u_id u' = u_id u) by lia.
    rewrite El, Ei. split.
    + unfold uuid_len_ok. lia.
    + reflexivity.
Qed.

(* exact, as declared: start handle, end handle and UUID of every included service *)
Theorem discover_included_exact_declared : forall db mtu sh se,
  23 <= mtu -> 1 <= sh -> se <= 0xFFFF ->
  db_sorted db = true -> decl_sizes_ok db = true -> includes_consistent db = true ->
  fst (client_discover_included mtu db sh se) = Done (map declared_include (includes_of db sh se)).
Proof.
  intros db mtu sh se Hm Hsh Hse Hs Hd Hc.
  assert (Hall : forall a, In a (includes_of db sh se) -> In a db /\ is_type UUID_INCLUDE a = true).
  { intros a Ha. unfold includes_of in Ha. apply filter_In in Ha. destruct Ha as [Hin Hp].
    apply andb_prop in Hp. tauto. }
  rewrite discover_included_exact; try assumption.
  - f_equal. rewrite map_map. apply map_ext_in. intros a Ha. destruct (Hall a Ha) as [Hin Ht].
    exact (proj2 (consistent_resolves db Hc a Hin Ht)).
  - apply forallb_forall. intros e He. apply in_map_iff in He. destruct He as [a [<- Ha]].
    destruct (Hall a Ha) as [Hin Ht]. exact (proj1 (consistent_resolves db Hc a Hin Ht)).
Qed.

(* the Find Information server *)
Lemma find_information_srv db mtu sh se :
  23 <= mtu -> 1 <= sh -> types_ok db = true ->
  forall (n : nat) s, sh <= s -> s <= se ->
  exists p q, filter (fun e => s <=? e_h e) (map info_entry (cands db (fun _ => true) se sh)) = p ++ q /\
    (p = [] -> q = []) /\
    srv_find_information mtu db s se = match p with [] => RErr ATT_NOT_FOUND | _ => RList p end.
Proof.
  intros Hm Hsh Ht n s Hs He. unfold srv_find_information.
  assert (B : orb (s =? 0) (se <? s) = false) by lia. rewrite B.
  apply (srv_generic db (fun _ => true) se sh info_entry info_entry
           (fun a => eq_refl) 2 (mtu - 2) false (fun a => u_len (a_type a)));
    [lia| | |exact Hs].
  - intros a Ha. apply cands_in in Ha. destruct Ha as [Hin _].
    pose proof (forallb_In _ _ _ Ht Hin) as Ha. cbv beta in Ha. lia.
  - reflexivity.
Qed.

Definition attrs_in (db : list attr) (lo hi : Z) : list attr := filter (in_range lo hi) db.

Theorem discover_descriptors_exact : forall db mtu vh ce,
  23 <= mtu -> 0 <= vh -> ce <= 0xFFFF ->
  db_sorted db = true -> types_ok db = true ->
  fst (client_discover_descriptors mtu db vh ce) = Done (map info_entry (attrs_in db (vh + 1) ce)).
Proof.
  intros db mtu vh ce Hm Hv Hce Hs Ht.
  apply andb_prop in Hs. destruct Hs as [Hs _].
  unfold client_discover_descriptors, discover_descriptors.
  exact (plain_exact false (fun _ s => srv_find_information mtu db s ce) db
           (fun _ => true) ce (vh + 1) info_entry (fun a => eq_refl) (fun a => eq_refl) Hce Hs
           (find_information_srv db mtu (vh + 1) ce Hm ltac:(lia) Ht)).
Qed.

Lemma filter_true_in {A} (f : A -> bool) l : (forall a, In a l -> f a = true) -> filter f l = l.
Proof. intros H. apply filter_all_true. apply Forall_forall. exact H. Qed.

Theorem discover_attributes_exact : forall db mtu,
  23 <= mtu -> db_sorted db = true -> types_ok db = true ->
  fst (client_discover_attributes mtu db) = Done (map info_entry db).
Proof.
  intros db mtu Hm Hs Ht.
  apply andb_prop in Hs. destruct Hs as [Hs Hh].
  unfold client_discover_attributes, discover_attributes.
  pose proof (plain_exact false (fun _ s => srv_find_information mtu db s 0xFFFF) db
           (fun _ => true) 0xFFFF 1 info_entry (fun a => eq_refl) (fun a => eq_refl) ltac:(lia) Hs
           (find_information_srv db mtu 1 0xFFFF Hm ltac:(lia) Ht)) as E.
  rewrite E. do 2 f_equal. unfold cands. apply filter_true_in. intros a Ha.
  pose proof (forallb_In _ _ _ Hh Ha) as H1. cbv beta in H1.
  pose proof (chain_all_ge _ _ _ _ Hs) as G. rewrite Forall_forall in G. specialize (G a Ha).
  unfold in_range. cbn. lia.
Qed.

(* --- procedures that page by end group handle (services) *)
Lemma group_exact : forall parse stop raise r db sel mk,
  (forall a, e_h (mk a) = a_handle a) -> (forall a, e_end (mk a) = a_end a) ->
  (forall a, e_bad (mk a) = false) ->
  chainG a_handle a_end 1 (filter sel db) = true ->
  forallb (fun a => a_end a <=? 0xFFFE) (filter sel db) = true ->
  (forall n s, 1 <= s -> s < 0xFFFF ->
     exists p q, filter (fun e => s <=? e_h e) (map mk (cands db sel 0xFFFF 1)) = p ++ q /\
       (p = [] -> q = []) /\ r n s = match p with [] => RErr ATT_NOT_FOUND | _ => RList p end) ->
  fst (loop cond_lt_ffff (fun s es => proc_group parse stop s es [] 0) raise r (fuel_for 1) 0 1 [])
  = Done (map mk (cands db sel 0xFFFF 1)).
Proof.
  intros parse stop raise r db sel mk Hh Hen Hb Hc Hle Hsrv.
  destruct (loop_terminates cond_lt_ffff (fun s es => proc_group parse stop s es [] 0) raise r
              cond_lt_ffff_bound (fun s es a s' => proc_group_progress0 parse stop s es a s')
              (fuel_for 1) 0%nat 1 []) as [T _]; [unfold fuel_for; lia|].
  assert (Hends : forall a, In a (cands db sel 0xFFFF 1) -> a_handle a <= a_end a <= 0xFFFE).
  { intros a Ha. apply cands_in in Ha. destruct Ha as [Hin [Hsel _]].
    assert (Hf : In a (filter sel db)) by (apply filter_In; tauto).
    pose proof (forallb_In _ _ _ Hle Hf) as H1. cbv beta in H1.
    pose proof (chain_all_valid _ _ _ _ Hc) as G. rewrite Forall_forall in G. specialize (G a Hf). lia. }
  destruct (loop_exact e_end cond_lt_ffff (fun s es => proc_group parse stop s es [] 0) raise r
              (map mk (cands db sel 0xFFFF 1)) 1 (clean_group parse stop)) with (fuel := fuel_for 1)
    as [O|D]; [| | | | |contradiction|exact D].
  - apply forallb_forall. intros e He'. apply in_map_iff in He'. destruct He' as [a [<- Ha]].
    unfold clean_group. rewrite Hb, Hen. specialize (Hends a Ha).
    assert (B : (a_end a =? 65535) = false) by lia. rewrite B.
    destruct parse, stop; reflexivity.
  - intros start p d Hp Hch Hcl. apply group_proc_ok; assumption.
  - intros n s Hs0 C. apply Hsrv; [exact Hs0|]. unfold cond_lt_ffff in C. lia.
  - intros s Hs0 C. unfold cond_lt_ffff in C. apply filter_all_false. apply Forall_forall.
    intros e He'. apply in_map_iff in He'. destruct He' as [a [<- Ha]]. rewrite Hh.
    specialize (Hends a Ha). lia.
  - rewrite chain_map.
    assert (E : forall l lo, chainG (fun x => e_h (mk x)) (fun x => e_end (mk x)) lo l
                = chainG a_handle a_end lo l).
    { induction l as [|x l IH]; intros lo; cbn [chainG]; [reflexivity|]. rewrite !Hh, !Hen. now rewrite IH. }
    rewrite E. apply cands_chain. exact Hc.
Qed.

Definition primary_services (db : list attr) : list attr := filter (is_type UUID_PRIMARY) db.

Lemma cands_all db sel :
  chainG a_handle a_end 1 (filter sel db) = true ->
  forallb (fun a => a_end a <=? 0xFFFE) (filter sel db) = true ->
  cands db sel 0xFFFF 1 = filter sel db.
Proof.
  intros Hc Hle. unfold cands. apply filter_ext_in. intros a Ha.
  destruct (sel a) eqn:S; [|reflexivity]. cbn [andb].
  assert (Hf : In a (filter sel db)) by (apply filter_In; tauto).
  pose proof (forallb_In _ _ _ Hle Hf) as H1. cbv beta in H1.
  pose proof (chain_all_valid _ _ _ _ Hc) as G. rewrite Forall_forall in G. specialize (G a Hf).
  unfold in_range. lia.
Qed.

Theorem discover_services_exact : forall db mtu,
  23 <= mtu -> services_ok db = true -> decl_sizes_ok db = true ->
  fst (client_discover_services mtu db) = Done (map to_entry (primary_services db)).
Proof.
  intros db mtu Hm Hs Hd. apply andb_prop in Hs. destruct Hs as [Hc Hle].
  unfold client_discover_services, discover_services, primary_services.
  rewrite <- (cands_all db (is_type UUID_PRIMARY) Hc Hle).
  apply (group_exact true false true _ db (is_type UUID_PRIMARY) to_entry
           (fun a => eq_refl) (fun a => eq_refl) (fun a => eq_refl) Hc Hle).
  intros n s Hs1 Hs2. unfold srv_read_by_group.
  apply (srv_generic db (is_type UUID_PRIMARY) 0xFFFF 1 to_entry (to_entry_trunc (Z.min (mtu - 6) 251))
           (fun a => eq_refl) 4 (mtu - 2) true (fun a => Z.min (disc_vlen a) (Z.min (mtu - 6) 251)));
    [lia| | |exact Hs1].
  - intros a _. lia.
  - intros a Ha. apply cands_in in Ha. destruct Ha as [Hin [Hty _]].
    apply trunc_same. pose proof (forallb_In _ _ _ Hd Hin) as Ha. cbv beta in Ha.
    apply andb_prop in Ha. destruct Ha as [Ha _]. rewrite Hty in Ha. lia.
Qed.

Definition services_with (db : list attr) (u : uuid) : list attr :=
  filter (is_service_with UUID_PRIMARY u) db.

Lemma chain_sub_filter {A} (h key : A -> Z) (f g : A -> bool) l lo :
  (forall a, g a = true -> f a = true) ->
  chainG h key lo (filter f l) = true -> chainG h key lo (filter g l) = true.
Proof.
  intros Hfg H.
  assert (E : filter g l = filter g (filter f l)).
  { rewrite filter_filter. apply filter_ext. intros a. destruct (g a) eqn:G; [|reflexivity].
    now rewrite (Hfg a G). }
  rewrite E. apply chain_filter. exact H.
Qed.

Theorem discover_service_exact : forall db mtu u,
  23 <= mtu -> services_ok db = true ->
  fst (client_discover_service mtu db u) = Done (map to_entry (services_with db u)).
Proof.
  intros db mtu u Hm Hs. apply andb_prop in Hs. destruct Hs as [Hc Hle].
  assert (Hsub : forall a, is_service_with UUID_PRIMARY u a = true -> is_type UUID_PRIMARY a = true).
  { intros a H. unfold is_service_with in H. apply andb_prop in H. exact (proj1 H). }
  assert (Hc' : chainG a_handle a_end 1 (filter (is_service_with UUID_PRIMARY u) db) = true)
    by (eapply chain_sub_filter; [exact Hsub|exact Hc]).
  assert (Hle' : forallb (fun a => a_end a <=? 0xFFFE) (filter (is_service_with UUID_PRIMARY u) db) = true).
  { apply forallb_forall. intros a Ha. apply filter_In in Ha. destruct Ha as [Hin Hsw].
    apply (forallb_In _ _ _ Hle). apply filter_In. split; [exact Hin|]. now apply Hsub. }
  unfold client_discover_service, discover_service, services_with.
  rewrite <- (cands_all db (is_service_with UUID_PRIMARY u) Hc' Hle').
  apply (group_exact false true false _ db (is_service_with UUID_PRIMARY u) to_entry
           (fun a => eq_refl) (fun a => eq_refl) (fun a => eq_refl) Hc' Hle').
  intros n s Hs1 Hs2. unfold srv_find_by_type_value.
  apply (srv_generic db (is_service_with UUID_PRIMARY u) 0xFFFF 1 to_entry to_entry
           (fun a => eq_refl) 4 (mtu - 2) false (fun _ => 0)); [lia| | |exact Hs1].
  - intros a _. lia.
  - reflexivity.
Qed.

(* ================================================================== long read *)
Lemma firstn_plus {A} (v : list A) : forall o k, firstn o v ++ firstn k (skipn o v) = firstn (o + k) v.
Proof.
  intros o. revert v. induction o as [|o IH]; intros v k; [reflexivity|].
  destruct v as [|x v]; cbn [firstn skipn plus app].
  - now destruct k.
  - now rewrite IH.
Qed.

Lemma blob_loop_exact : forall fuel value mtu o,
  2 <= mtu -> mtu - 1 < Z.of_nat (length value) -> Z.of_nat (length value) <= 0xFFFF ->
  (o <= length value)%nat -> (length value - o < fuel)%nat ->
  read_blob_loop fuel (srv_read_blob mtu value) mtu (firstn o value) (Z.of_nat o) = RDone value.
Proof.
  induction fuel as [|f IH]; intros value mtu o Hm Hlong Hmax Ho Hf; [lia|].
  cbn [read_blob_loop].
  assert (B0 : (0xFFFF <? Z.of_nat o) = false) by lia. rewrite B0.
  unfold srv_read_blob at 1.
  assert (B1 : (Z.of_nat (length value) <? Z.of_nat o) = false) by lia. rewrite B1.
  assert (B2 : andb (Z.of_nat o =? 0) (Z.of_nat (length value) <=? mtu - 1) = false) by lia. rewrite B2.
  unfold sublist. rewrite Nat2Z.id.
  set (k := Z.to_nat (Z.min (mtu - 1) (Z.of_nat (length value) - Z.of_nat o))).
  assert (Lp : length (firstn k (skipn o value)) = k).
  { rewrite firstn_length, skipn_length. subst k. lia. }
  rewrite Lp, firstn_plus.
  destruct (Z.of_nat k <? mtu - 1) eqn:E.
  - assert (o + k = length value)%nat by (subst k; lia).
    rewrite H. now rewrite firstn_all.
  - assert (Hk : Z.of_nat k = mtu - 1) by (subst k; lia).
    replace (Z.of_nat o + Z.of_nat k) with (Z.of_nat (o + k)) by lia.
    apply IH; try assumption; subst k; lia.
Qed.

(* a client reading an attribute of a Bumble server gets exactly its current value, whatever
   its length and whatever the ATT_MTU; it needs at most length+1 requests *)
Theorem long_read_exact : forall value mtu, 2 <= mtu -> Z.of_nat (length value) <= 0xFFFF ->
  read_from_server (S (length value)) mtu value = RDone value.
Proof.
  intros value mtu Hm Hmax. unfold read_from_server, read_value, srv_read. cbn [negb andb].
  set (k := Z.to_nat (Z.min (mtu - 1) (Z.of_nat (length value)))).
  assert (Lk : length (firstn k value) = k) by (rewrite firstn_length; subst k; lia).
  rewrite Lk.
  destruct (Z.of_nat k =? mtu - 1) eqn:E.
  - assert (Hk : Z.of_nat k = mtu - 1) by lia.
    destruct (Z.eq_dec (Z.of_nat (length value)) (mtu - 1)) as [Heq|Hne].
    + (* exactly mtu-1 bytes: the Read Blob at the end of the value returns an empty part *)
      cbn [read_blob_loop].
      assert (B0 : (0xFFFF <? Z.of_nat k) = false) by lia. rewrite B0.
      unfold srv_read_blob.
      assert (B1 : (Z.of_nat (length value) <? Z.of_nat k) = false) by lia. rewrite B1.
      assert (B2 : andb (Z.of_nat k =? 0) (Z.of_nat (length value) <=? mtu - 1) = false) by lia. rewrite B2.
      assert (E0 : Z.min (mtu - 1) (Z.of_nat (length value) - Z.of_nat k) = 0) by lia. rewrite E0.
      unfold sublist. cbn [Z.to_nat firstn length Z.of_nat].
      assert (B3 : (0 <? mtu - 1) = true) by lia. rewrite B3. rewrite app_nil_r.
      f_equal. apply firstn_all2. lia.
    + apply blob_loop_exact; subst k; lia.
  - f_equal. apply firstn_all2. subst k. lia.
Qed.

(* ================================================================== write *)
Lemma store_get_set_same h v : forall s, store_get h s <> None -> store_get h (store_set h v s) = Some v.
Proof.
  induction s as [|[h' v'] s IH]; cbn [store_get store_set]; [congruence|].
  destruct (h' =? h) eqn:E; cbn [store_get]; rewrite E; [reflexivity|exact IH].
Qed.

Lemma store_get_set_other h h2 v : forall s, h2 <> h -> store_get h2 (store_set h v s) = store_get h2 s.
Proof.
  induction s as [|[h' v'] s IH]; intros Hn; cbn [store_get store_set]; [reflexivity|].
  destruct (h' =? h) eqn:E; cbn [store_get].
  - assert (E2 : (h' =? h2) = false) by lia. now rewrite E2.
  - destruct (h' =? h2); [reflexivity|now apply IH].
Qed.

(* a write request or command to an existing attribute with a value of at most 512 bytes leaves
   exactly that value in the attribute and nothing else changed; anything else changes nothing *)
Theorem write_takes_effect : forall with_response s h v,
  let '(s', rsp) := srv_write with_response s h v in
  (store_get h s <> None /\ Z.of_nat (length v) <= 512 ->
     store_get h s' = Some v /\ (forall h2, h2 <> h -> store_get h2 s' = store_get h2 s) /\
     rsp = (if with_response then WOk else WSilent)) /\
  (~ (store_get h s <> None /\ Z.of_nat (length v) <= 512) -> s' = s /\ rsp <> WOk).
Proof.
  intros wr s h v. unfold srv_write, GATT_MAX_ATTRIBUTE_VALUE_SIZE.
  destruct (store_get h s) as [old|] eqn:G.
  - destruct (512 <? Z.of_nat (length v)) eqn:L.
    + split; [intros [_ H]; lia|]. intros _. split; [reflexivity|]. destruct wr; discriminate.
    + split.
      * intros _. split; [apply store_get_set_same; congruence|]. split; [|reflexivity].
        intros h2 Hn. now apply store_get_set_other.
      * intros H. exfalso. apply H. split; [discriminate|lia].
  - split; [intros [H _]; congruence|]. intros _. split; [reflexivity|]. destruct wr; discriminate.
Qed.

(* ================================================================== notification / indication routing *)
Definition kind_op (indicate : bool) : Z := if indicate then OP_INDICATION else OP_NOTIFICATION.
Definition kind_bit (indicate : bool) : Z := if indicate then 0x02 else 0x01.

Lemma assoc_in_nodup {A} (l : list (Z * A)) : NoDup (map fst l) ->
  forall k v, In (k, v) l -> assoc k l = Some v.
Proof.
  induction l as [|[k' v'] l IH]; intros Hn k v Hin; [contradiction|].
  cbn [map fst] in Hn. inversion Hn; subst. cbn [assoc].
  destruct Hin as [E|Hin].
  - inversion E; subst. now rewrite Z.eqb_refl.
  - destruct (k' =? k) eqn:E.
    + exfalso. apply H1. assert (k' = k) by lia. subst k'.
      change k with (fst (k, v)). now apply in_map.
    + now apply IH.
Qed.

Lemma subscribed_has_entry bit s b c h :
  assoc b s = Some c -> subscribed bit s b h = true -> has_entry c h = true.
Proof.
  intros Ha. unfold subscribed, has_entry. rewrite Ha.
  destruct c as [|x c]; [discriminate|].
  destruct (assoc h (x :: c)) as [[|b0 rest]|]; try discriminate. reflexivity.
Qed.

Lemma routing_aux indicate mtu_of s h v : forall l,
  (forall b c, In (b, c) l -> assoc b s = Some c) ->
  flat_map (fun bc => send_single indicate false mtu_of s (fst bc) h v)
           (filter (fun bc => has_entry (snd bc) h) l)
  = map (fun b => (b, kind_op indicate, h, truncate (mtu_of b) v))
        (filter (fun b => subscribed (kind_bit indicate) s b h) (map fst l)).
Proof.
  induction l as [|[b c] l IH]; intros Hl; [reflexivity|].
  cbn [filter map fst snd].
  assert (Ha : assoc b s = Some c) by (apply Hl; now left).
  specialize (IH (fun b' c' H => Hl b' c' (or_intror H))).
  destruct (subscribed (kind_bit indicate) s b h) eqn:S.
  - rewrite (subscribed_has_entry _ _ _ _ _ Ha S). cbn [flat_map map fst].
    unfold send_single at 1. cbn [orb]. fold (kind_bit indicate). rewrite S.
    fold (kind_op indicate). cbn [app]. now rewrite IH.
  - destruct (has_entry c h); [|exact IH].
    cbn [flat_map fst]. unfold send_single at 1. cbn [orb]. fold (kind_bit indicate). rewrite S.
    cbn [app]. exact IH.
Qed.

(* Without force, notify_subscribers / indicate_subscribers put exactly one PDU on each bearer
   whose CCCD for this characteristic has the notification (resp. indication) bit set, none on
   any other bearer, with the opcode of the kind requested and the value truncated to
   ATT_MTU - 3 of that bearer. *)
Theorem notify_routing : forall indicate mtu_of s h v,
  NoDup (map fst s) ->
  notify_or_indicate_subscribers indicate mtu_of s h v false
  = map (fun b => (b, kind_op indicate, h, truncate (mtu_of b) v))
        (filter (fun b => subscribed (kind_bit indicate) s b h) (map fst s)).
Proof.
  intros indicate mtu_of s h v Hn. unfold notify_or_indicate_subscribers.
  rewrite (filter_ext _ (fun bc => has_entry (snd bc) h)) by reflexivity.
  apply routing_aux. intros b c Hin. now apply assoc_in_nodup.
Qed.

(* notify_subscriber / indicate_subscriber on one bearer: the PDU kind is the one asked for,
   with force exactly one PDU goes out, without force only to a subscribed bearer (D12b) *)
Theorem single_subscriber_kind : forall indicate mtu_of s b h v force,
  send_single indicate force mtu_of s b h v
  = if orb force (subscribed (kind_bit indicate) s b h)
    then [(b, kind_op indicate, h, truncate (mtu_of b) v)] else [].
Proof. intros. reflexivity. Qed.

Lemma indicate_subscriber_is_indication : forall mtu_of s b h v force p,
  In p (indicate_subscriber mtu_of s b h v force) -> snd (fst (fst p)) = OP_INDICATION.
Proof.
  intros mtu_of s b h v force p. unfold indicate_subscriber, send_single.
  destruct (orb _ _); [|contradiction]. intros [<-|[]]. reflexivity.
Qed.

Lemma truncate_spec : forall mtu v, 3 <= mtu ->
  truncate mtu v = firstn (Z.to_nat (Z.min (mtu - 3) (Z.of_nat (length v)))) v.
Proof.
  intros mtu v Hm. unfold truncate. destruct (mtu - 3 <? Z.of_nat (length v)) eqn:E.
  - f_equal. lia.
  - symmetry. apply firstn_all2. lia.
Qed.

(* write_cccd then the subscription test: a 2-byte CCCD value subscribes exactly by its bits *)
Lemma assoc_set_same {A} k (v : A) : forall l, assoc k (assoc_set k v l) = Some v.
Proof.
  induction l as [|[k' v'] l IH]; cbn [assoc_set assoc]; [now rewrite Z.eqb_refl|].
  destruct (k' =? k) eqn:E; cbn [assoc]; rewrite E; [reflexivity|exact IH].
Qed.

Lemma write_cccd_subscribes : forall s b h b0 b1 bit,
  subscribed bit (write_cccd s b h [b0; b1]) b h = negb (Z.land b0 bit =? 0).
Proof.
  intros. unfold write_cccd. cbn [length Nat.eqb]. unfold subscribed.
  rewrite assoc_set_same.
  destruct (assoc_set h [b0; b1] match assoc b s with Some c => c | None => [] end) as [|x l] eqn:E.
  - destruct (match assoc b s with Some c => c | None => [] end) as [|[k' v'] l']; cbn in E;
      [discriminate|destruct (k' =? h); discriminate].
  - rewrite <- E, assoc_set_same. reflexivity.
Qed.

(* ================================================================== add_service builds a well-formed database *)
Fixpoint consec (h0 : Z) (l : list attr) : bool :=
  match l with [] => true | a :: l' => andb (a_handle a =? h0) (consec (h0 + 1) l') end.

Lemma consec_app : forall p q h, consec h (p ++ q) = andb (consec h p) (consec (h + Z.of_nat (length p)) q).
Proof.
  induction p as [|a p IH]; intros q h; cbn [app consec length].
  - cbn. now rewrite Z.add_0_r.
  - rewrite IH, Nat2Z.inj_succ. replace (h + 1 + Z.of_nat (length p)) with (h + Z.succ (Z.of_nat (length p))) by lia.
    now rewrite andb_assoc.
Qed.

Lemma consec_range : forall l h, consec h l = true ->
  Forall (fun a => h <= a_handle a < h + Z.of_nat (length l)) l.
Proof.
  induction l as [|a l IH]; intros h H; constructor; cbn [consec length] in *.
  - lia.
  - apply andb_prop in H. destruct H as [H1 H2]. specialize (IH _ H2).
    eapply Forall_impl; [|exact IH]. intros x Hx. cbv beta in Hx |- *. lia.
Qed.

Lemma consec_chain : forall l h lo, lo <= h -> consec h l = true -> chainG a_handle a_handle lo l = true.
Proof.
  induction l as [|a l IH]; intros h lo Hl H; cbn [consec chainG] in *; [reflexivity|].
  apply andb_prop in H. destruct H as [H1 H2].
  rewrite (IH (h + 1) (a_handle a + 1) ltac:(lia) H2). lia.
Qed.

Lemma desc_attrs_len : forall ds h, length (desc_attrs h ds) = length ds.
Proof. induction ds; intros; cbn; [reflexivity|]. now rewrite IHds. Qed.

Lemma desc_attrs_consec : forall ds h, consec h (desc_attrs h ds) = true.
Proof. induction ds; intros; cbn [desc_attrs consec a_handle]; [reflexivity|]. rewrite IHds. lia. Qed.

Lemma char_size_pos c : 2 <= char_size c.
Proof. unfold char_size. destruct (needs_cccd c); lia. Qed.

Lemma char_attrs_len c h : Z.of_nat (length (char_attrs h c)) = char_size c.
Proof.
  unfold char_attrs, char_size. cbn [length]. rewrite app_length, desc_attrs_len.
  destruct (needs_cccd c); cbn [length]; lia.
Qed.

Lemma char_attrs_consec c h : consec h (char_attrs h c) = true.
Proof.
  unfold char_attrs. cbn [consec a_handle]. rewrite consec_app, desc_attrs_len.
  replace (h + 1 + 1) with (h + 2) by lia. rewrite desc_attrs_consec.
  destruct (needs_cccd c); cbn [consec a_handle]; lia.
Qed.

Lemma chars_size_nonneg cs : 0 <= chars_size cs.
Proof. induction cs; cbn [chars_size]; [lia|]. pose proof (char_size_pos a). lia. Qed.

Lemma chars_attrs_len : forall cs h, Z.of_nat (length (chars_attrs h cs)) = chars_size cs.
Proof.
  induction cs as [|c cs IH]; intros h; cbn [chars_attrs chars_size length]; [reflexivity|].
  rewrite app_length, Nat2Z.inj_add, char_attrs_len, IH. reflexivity.
Qed.

Lemma chars_attrs_consec : forall cs h, consec h (chars_attrs h cs) = true.
Proof.
  induction cs as [|c cs IH]; intros h; cbn [chars_attrs]; [reflexivity|].
  now rewrite consec_app, char_attrs_consec, char_attrs_len, IH.
Qed.

Lemma incl_attrs_len r : forall is_ h, length (incl_attrs h r is_) = length is_.
Proof.
  induction is_ as [|i is_ IH]; intros h; cbn [incl_attrs]; [reflexivity|].
  destruct (nth i r (0, 0, U16 0)) as [[s e] u]. cbn [length]. now rewrite IH.
Qed.

Lemma incl_attrs_consec r : forall is_ h, consec h (incl_attrs h r is_) = true.
Proof.
  induction is_ as [|i is_ IH]; intros h; cbn [incl_attrs]; [reflexivity|].
  destruct (nth i r (0, 0, U16 0)) as [[s e] u]. cbn [consec a_handle]. rewrite IH. lia.
Qed.

Lemma svc_size_pos s : 1 <= svc_size s.
Proof. unfold svc_size. pose proof (chars_size_nonneg (s_chars s)). lia. Qed.

Lemma svc_attrs_len s h r : Z.of_nat (length (svc_attrs h r s)) = svc_size s.
Proof.
  unfold svc_attrs, svc_size. cbn [length]. rewrite app_length, incl_attrs_len, Nat2Z.inj_succ, Nat2Z.inj_add, chars_attrs_len. lia.
Qed.

Lemma svc_attrs_consec s h r : consec h (svc_attrs h r s) = true.
Proof.
  unfold svc_attrs. cbn [consec a_handle]. rewrite consec_app, incl_attrs_len, incl_attrs_consec, chars_attrs_consec. lia.
Qed.

Lemma total_size_nonneg ss : 0 <= total_size ss.
Proof. induction ss; cbn [total_size]; [lia|]. pose proof (svc_size_pos a). lia. Qed.

Lemma build_from_len : forall ss h r, Z.of_nat (length (build_from h r ss)) = total_size ss.
Proof.
  induction ss as [|s ss IH]; intros h r; cbn [build_from total_size length]; [reflexivity|].
  rewrite app_length, Nat2Z.inj_add, svc_attrs_len, IH. reflexivity.
Qed.

Lemma build_from_consec : forall ss h r, consec h (build_from h r ss) = true.
Proof.
  induction ss as [|s ss IH]; intros h r; cbn [build_from]; [reflexivity|].
  now rewrite consec_app, svc_attrs_consec, svc_attrs_len, IH.
Qed.

Lemma build_sorted ss : total_size ss <= 0xFFFE -> db_sorted (build ss) = true.
Proof.
  intros Ht. unfold db_sorted, build. apply andb_true_intro. split.
  - apply (consec_chain _ 1 1); [lia|apply build_from_consec].
  - apply forallb_forall. intros a Ha.
    pose proof (consec_range _ _ (build_from_consec ss 1 [])) as F. rewrite Forall_forall in F.
    specialize (F a Ha). rewrite build_from_len in F. lia.
Qed.

Definition dsz (a : attr) : bool :=
  andb (if is_type UUID_PRIMARY a then disc_vlen a <=? 16 else true)
       (if orb (is_type UUID_INCLUDE a) (is_type UUID_CHARACTERISTIC a) then disc_vlen a <=? 19 else true).
Definition tok (a : attr) : bool := andb (0 <=? u_len (a_type a)) (u_len (a_type a) <=? 16).
Definition aok (a : attr) : bool := andb (dsz a) (tok a).

Lemma not_decl_types u : negb (is_decl_type u) = true ->
  uuid_eqb u UUID_PRIMARY = false /\ uuid_eqb u UUID_SECONDARY = false /\
  uuid_eqb u UUID_INCLUDE = false /\ uuid_eqb u UUID_CHARACTERISTIC = false.
Proof.
  unfold is_decl_type. intros H.
  destruct (uuid_eqb u UUID_PRIMARY), (uuid_eqb u UUID_SECONDARY), (uuid_eqb u UUID_INCLUDE),
    (uuid_eqb u UUID_CHARACTERISTIC); cbn in H; try discriminate; auto.
Qed.

Lemma aok_plain h e u b : uuid_ok u = true -> negb (is_decl_type u) = true -> aok (mkA h e u b) = true.
Proof.
  intros Hu Hn. destruct (not_decl_types u Hn) as [P [S [I C]]].
  unfold aok, dsz, tok, is_type. cbn [a_type]. rewrite P, I, C. cbn [orb andb].
  unfold uuid_ok in Hu. clear - Hu. destruct (u_len u =? 2) eqn:E2; [lia|]. cbn [orb] in Hu. lia.
Qed.

Lemma desc_attrs_aok : forall ds h, forallb desc_ok ds = true -> forallb aok (desc_attrs h ds) = true.
Proof.
  induction ds as [|d ds IH]; intros h H; cbn [desc_attrs forallb] in *; [reflexivity|].
  apply andb_prop in H. destruct H as [H1 H2]. unfold desc_ok in H1. apply andb_prop in H1. destruct H1.
  rewrite aok_plain by assumption. now apply IH.
Qed.

Lemma char_attrs_aok c h : char_ok c = true -> forallb aok (char_attrs h c) = true.
Proof.
  unfold char_ok. intros H. apply andb_prop in H. destruct H as [H H3]. apply andb_prop in H. destruct H as [H1 H2].
  unfold char_attrs. cbn [forallb]. rewrite forallb_app, desc_attrs_aok by assumption.
  rewrite (aok_plain _ _ (c_uuid c)) by assumption.
  assert (A1 : aok (mkA h (h + char_size c - 1) UUID_CHARACTERISTIC (BCharDecl (c_props c) (h + 1) (c_uuid c))) = true).
  { unfold aok, dsz, tok, is_type. cbn -[Z.add Z.leb Z.sub]. unfold uuid_ok in H1. lia. }
  rewrite A1. destruct (needs_cccd c); reflexivity.
Qed.

Lemma chars_attrs_aok : forall cs h, forallb char_ok cs = true -> forallb aok (chars_attrs h cs) = true.
Proof.
  induction cs as [|c cs IH]; intros h H; cbn [chars_attrs forallb] in *; [reflexivity|].
  apply andb_prop in H. destruct H as [H1 H2]. now rewrite forallb_app, char_attrs_aok, IH.
Qed.

Lemma incl_attrs_aok r : forall is_ h, forallb aok (incl_attrs h r is_) = true.
Proof.
  induction is_ as [|i is_ IH]; intros h; cbn [incl_attrs]; [reflexivity|].
  destruct (nth i r (0, 0, U16 0)) as [[s e] u]. cbn [forallb]. rewrite IH.
  unfold aok, dsz, tok, is_type. cbn -[Z.add Z.leb Z.sub Z.eqb]. destruct (u_len u =? 2); reflexivity.
Qed.

Lemma svc_attrs_aok s h r : svc_ok s = true -> forallb aok (svc_attrs h r s) = true.
Proof.
  unfold svc_ok. intros H. apply andb_prop in H. destruct H as [H1 H2].
  unfold svc_attrs. cbn [forallb]. rewrite forallb_app, incl_attrs_aok, chars_attrs_aok by assumption.
  assert (A1 : aok (mkA h (h + svc_size s - 1) (if s_primary s then UUID_PRIMARY else UUID_SECONDARY)
                        (BService (s_uuid s))) = true).
  { unfold aok, dsz, tok, is_type. unfold uuid_ok in H1. destruct (s_primary s); cbn -[Z.add Z.leb Z.sub]; lia. }
  now rewrite A1.
Qed.

Lemma build_from_aok : forall ss h r, specs_ok ss = true -> forallb aok (build_from h r ss) = true.
Proof.
  induction ss as [|s ss IH]; intros h r H; cbn [build_from forallb specs_ok] in *; [reflexivity|].
  apply andb_prop in H. destruct H as [H1 H2]. now rewrite forallb_app, svc_attrs_aok, IH.
Qed.

Lemma forallb_and {A} (f g : A -> bool) l :
  forallb (fun a => andb (f a) (g a)) l = true -> forallb f l = true /\ forallb g l = true.
Proof.
  induction l as [|a l IH]; cbn [forallb]; [auto|]. intros H.
  apply andb_prop in H. destruct H as [H1 H2]. apply andb_prop in H1. destruct (IH H2). split; apply andb_true_intro; tauto.
Qed.

Lemma build_sizes_types ss : specs_ok ss = true ->
  decl_sizes_ok (build ss) = true /\ types_ok (build ss) = true.
Proof. intros H. exact (forallb_and dsz tok _ (build_from_aok ss 1 [] H)). Qed.

Lemma filter_none {A} (f : A -> bool) l : forallb (fun a => negb (f a)) l = true -> filter f l = [].
Proof.
  intros H. apply filter_all_false. apply Forall_forall. intros a Ha.
  pose proof (forallb_In _ _ _ H Ha) as E. cbv beta in E. now destruct (f a).
Qed.

(* U is one of the declaration types other than include *)
Definition svc_or_char (U : uuid) : Prop := U = UUID_PRIMARY \/ U = UUID_SECONDARY \/ U = UUID_CHARACTERISTIC.

Lemma plain_not_type U h e u b : svc_or_char U -> negb (is_decl_type u) = true ->
  is_type U (mkA h e u b) = false.
Proof.
  intros HU Hn. destruct (not_decl_types u Hn) as [P [S [I C]]]. unfold is_type. cbn [a_type].
  destruct HU as [->|[->| ->]]; assumption.
Qed.

Lemma desc_attrs_notype U : svc_or_char U -> forall ds h, forallb desc_ok ds = true ->
  forallb (fun a => negb (is_type U a)) (desc_attrs h ds) = true.
Proof.
  intros HU. induction ds as [|d ds IH]; intros h H; cbn [desc_attrs forallb] in *; [reflexivity|].
  apply andb_prop in H. destruct H as [H1 H2]. unfold desc_ok in H1. apply andb_prop in H1. destruct H1.
  rewrite plain_not_type by assumption. now rewrite IH.
Qed.

Lemma incl_attrs_notype U r : svc_or_char U -> forall is_ h,
  forallb (fun a => negb (is_type U a)) (incl_attrs h r is_) = true.
Proof.
  intros HU. induction is_ as [|i is_ IH]; intros h; cbn [incl_attrs]; [reflexivity|].
  destruct (nth i r (0, 0, U16 0)) as [[s e] u]. cbn [forallb]. rewrite IH.
  destruct HU as [->|[->| ->]]; reflexivity.
Qed.

Definition decl_attr (h : Z) (c : char_spec) : attr :=
  mkA h (h + char_size c - 1) UUID_CHARACTERISTIC (BCharDecl (c_props c) (h + 1) (c_uuid c)).

Lemma char_attrs_split c h : char_attrs h c = decl_attr h c :: tl (char_attrs h c).
Proof. reflexivity. Qed.

Lemma char_tail_notype U c h : svc_or_char U -> char_ok c = true ->
  forallb (fun a => negb (is_type U a)) (tl (char_attrs h c)) = true.
Proof.
  intros HU H. unfold char_ok in H. apply andb_prop in H. destruct H as [H H3]. apply andb_prop in H. destruct H as [H1 H2].
  unfold char_attrs. cbn [tl forallb]. rewrite plain_not_type by assumption.
  rewrite forallb_app, (desc_attrs_notype U HU) by assumption.
  destruct (needs_cccd c); [|reflexivity]. cbn [forallb]. destruct HU as [->|[->| ->]]; reflexivity.
Qed.

Lemma char_filter_char c h : char_ok c = true ->
  filter (is_type UUID_CHARACTERISTIC) (char_attrs h c) = [decl_attr h c].
Proof.
  intros H. rewrite char_attrs_split. cbn [filter].
  replace (is_type UUID_CHARACTERISTIC (decl_attr h c)) with true by reflexivity.
  now rewrite (filter_none _ _ (char_tail_notype UUID_CHARACTERISTIC c h (or_intror (or_intror eq_refl)) H)).
Qed.

Lemma char_filter_svc U c h : U = UUID_PRIMARY \/ U = UUID_SECONDARY -> char_ok c = true ->
  filter (is_type U) (char_attrs h c) = [].
Proof.
  intros HU H. rewrite char_attrs_split. cbn [filter].
  replace (is_type U (decl_attr h c)) with false by (destruct HU as [->| ->]; reflexivity).
  apply filter_none. apply char_tail_notype; [|exact H]. destruct HU as [->| ->]; [left|right; left]; reflexivity.
Qed.

Lemma chars_filter_svc U : U = UUID_PRIMARY \/ U = UUID_SECONDARY -> forall cs h,
  forallb char_ok cs = true -> filter (is_type U) (chars_attrs h cs) = [].
Proof.
  intros HU. induction cs as [|c cs IH]; intros h H; cbn [chars_attrs forallb] in *; [reflexivity|].
  apply andb_prop in H. destruct H as [H1 H2].
  now rewrite filter_app, (char_filter_svc U c h HU H1), IH.
Qed.

Definition head_attr (h : Z) (s : svc_spec) : attr :=
  mkA h (h + svc_size s - 1) (if s_primary s then UUID_PRIMARY else UUID_SECONDARY) (BService (s_uuid s)).

Lemma svc_attrs_split s h r :
  svc_attrs h r s = head_attr h s :: incl_attrs (h + 1) r (s_incl s)
                    ++ chars_attrs (h + 1 + Z.of_nat (length (s_incl s))) (s_chars s).
Proof. reflexivity. Qed.

Lemma svc_filter_primary s h r : svc_ok s = true ->
  filter (is_type UUID_PRIMARY) (svc_attrs h r s) = if s_primary s then [head_attr h s] else [].
Proof.
  intros H. unfold svc_ok in H. apply andb_prop in H. destruct H as [_ H].
  rewrite svc_attrs_split. cbn [filter]. rewrite filter_app.
  rewrite (filter_none _ _ (incl_attrs_notype UUID_PRIMARY r (or_introl eq_refl) _ _)).
  rewrite (chars_filter_svc UUID_PRIMARY (or_introl eq_refl) _ _ H).
  unfold head_attr at 1, is_type at 1. cbn [a_type]. destruct (s_primary s); reflexivity.
Qed.

Lemma build_services_chain : forall ss h r lo, lo <= h -> specs_ok ss = true ->
  chainG a_handle a_end lo (filter (is_type UUID_PRIMARY) (build_from h r ss)) = true /\
  forallb (fun a => a_end a <=? h + total_size ss - 1) (filter (is_type UUID_PRIMARY) (build_from h r ss)) = true.
Proof.
  induction ss as [|s ss IH]; intros h r lo Hlo H; cbn [build_from specs_ok forallb total_size] in *;
    [split; reflexivity|].
  apply andb_prop in H. destruct H as [H1 H2].
  rewrite filter_app, (svc_filter_primary s h r H1).
  pose proof (svc_size_pos s) as Hp. pose proof (total_size_nonneg ss) as Ht.
  destruct (s_primary s); cbn [app].
  - destruct (IH (h + svc_size s) (r ++ [(h, h + svc_size s - 1, s_uuid s)]) (h + svc_size s) ltac:(lia) H2) as [I1 I2].
    split.
    + cbn [chainG head_attr a_handle a_end].
      replace (h + svc_size s - 1 + 1) with (h + svc_size s) by lia. rewrite I1. lia.
    + cbn [forallb head_attr a_end].
      apply andb_true_intro. split; [lia|].
      eapply forallb_forall. intros a Ha. pose proof (forallb_In _ _ _ I2 Ha) as E. cbv beta in E. lia.
  - destruct (IH (h + svc_size s) (r ++ [(h, h + svc_size s - 1, s_uuid s)]) lo ltac:(lia) H2) as [I1 I2].
    split; [exact I1|].
    eapply forallb_forall. intros a Ha. pose proof (forallb_In _ _ _ I2 Ha) as E. cbv beta in E. lia.
Qed.

Lemma build_services_ok ss : specs_ok ss = true -> total_size ss <= 0xFFFE -> services_ok (build ss) = true.
Proof.
  intros H Ht. destruct (build_services_chain ss 1 [] 1 ltac:(lia) H) as [I1 I2].
  unfold services_ok, build. rewrite I1. cbn [andb].
  eapply forallb_forall. intros a Ha. pose proof (forallb_In _ _ _ I2 Ha) as E. cbv beta in E. lia.
Qed.

Lemma chars_filter_char_head c cs h : forallb char_ok (c :: cs) = true ->
  exists t, filter (is_type UUID_CHARACTERISTIC) (chars_attrs h (c :: cs)) = decl_attr h c :: t /\
            t = filter (is_type UUID_CHARACTERISTIC) (chars_attrs (h + char_size c) cs).
Proof.
  intros H. cbn [forallb] in H. apply andb_prop in H. destruct H as [H1 _].
  cbn [chars_attrs]. rewrite filter_app, (char_filter_char c h H1). eexists. split; reflexivity.
Qed.

Lemma chars_ends : forall cs h se, forallb char_ok cs = true ->
  (cs <> [] -> se = h + chars_size cs - 1) ->
  char_ends_ok se (filter (is_type UUID_CHARACTERISTIC) (chars_attrs h cs)) = true.
Proof.
  induction cs as [|c cs IH]; intros h se H Hse; [reflexivity|].
  destruct (chars_filter_char_head c cs h H) as [t [E Et]]. rewrite E.
  cbn [forallb] in H. apply andb_prop in H. destruct H as [H1 H2].
  specialize (Hse ltac:(discriminate)). cbn [chars_size] in Hse.
  cbn [char_ends_ok]. apply andb_true_intro. split.
  - destruct cs as [|c' cs'].
    + cbn in Et. subst t. cbn [chars_size] in Hse. cbn [decl_attr a_end]. lia.
    + destruct (chars_filter_char_head c' cs' (h + char_size c) H2) as [t' [E' _]].
      rewrite Et, E'. cbn [decl_attr a_end a_handle]. lia.
  - rewrite Et. apply IH; [exact H2|]. intros Hn. lia.
Qed.

Lemma filter_local (P : attr -> bool) h e pre blk post :
  Forall (fun a => a_handle a < h) pre -> Forall (fun a => e < a_handle a) post ->
  Forall (fun a => h <= a_handle a <= e) blk ->
  filter (fun a => andb (P a) (in_range h e a)) (pre ++ blk ++ post) = filter P blk.
Proof.
  intros Hpre Hpost Hblk. rewrite !filter_app.
  rewrite (filter_all_false _ pre), (filter_all_false _ post).
  - rewrite app_nil_r. cbn [app]. apply filter_ext_in. intros a Ha.
    rewrite Forall_forall in Hblk. specialize (Hblk a Ha). unfold in_range.
    destruct (P a); cbn [andb]; [lia|reflexivity].
  - eapply Forall_impl; [|exact Hpost]. intros a Ha. cbv beta in Ha |- *. unfold in_range. destruct (P a); cbn [andb]; lia.
  - eapply Forall_impl; [|exact Hpre]. intros a Ha. cbv beta in Ha |- *. unfold in_range. destruct (P a); cbn [andb]; lia.
Qed.

Definition svcf (a : attr) : bool := orb (is_type UUID_PRIMARY a) (is_type UUID_SECONDARY a).

Lemma filter_or {A} (f g : A -> bool) l : filter f l = [] -> filter g l = [] -> filter (fun a => orb (f a) (g a)) l = [].
Proof.
  induction l as [|a l IH]; cbn [filter]; [reflexivity|].
  destruct (f a); [discriminate|]. destruct (g a); [discriminate|]. cbn [orb]. exact IH.
Qed.

Lemma svc_filter_svcf s h r : svc_ok s = true -> filter svcf (svc_attrs h r s) = [head_attr h s].
Proof.
  intros H. unfold svc_ok in H. apply andb_prop in H. destruct H as [_ H].
  rewrite svc_attrs_split. cbn [filter].
  replace (svcf (head_attr h s)) with true by (unfold svcf, head_attr, is_type; cbn [a_type]; destruct (s_primary s); reflexivity).
  f_equal. rewrite filter_app. unfold svcf.
  rewrite (filter_or _ _ _ (filter_none _ _ (incl_attrs_notype UUID_PRIMARY r (or_introl eq_refl) _ _))
                           (filter_none _ _ (incl_attrs_notype UUID_SECONDARY r (or_intror (or_introl eq_refl)) _ _))).
  rewrite (filter_or _ _ _ (chars_filter_svc UUID_PRIMARY (or_introl eq_refl) _ _ H)
                           (chars_filter_svc UUID_SECONDARY (or_intror eq_refl) _ _ H)).
  reflexivity.
Qed.

Lemma svc_filter_char s h r :
  filter (is_type UUID_CHARACTERISTIC) (svc_attrs h r s)
  = filter (is_type UUID_CHARACTERISTIC) (chars_attrs (h + 1 + Z.of_nat (length (s_incl s))) (s_chars s)).
Proof.
  rewrite svc_attrs_split. cbn [filter].
  replace (is_type UUID_CHARACTERISTIC (head_attr h s)) with false
    by (unfold head_attr, is_type; cbn [a_type]; destruct (s_primary s); reflexivity).
  rewrite filter_app.
  now rewrite (filter_none _ _ (incl_attrs_notype UUID_CHARACTERISTIC r (or_intror (or_intror eq_refl)) _ _)).
Qed.

Lemma build_char_ends : forall ss h r pre,
  Forall (fun a => a_handle a < h) pre -> specs_ok ss = true ->
  forallb (fun s => char_ends_ok (a_end s) (chars_of (pre ++ build_from h r ss) (a_handle s) (a_end s)))
          (filter svcf (build_from h r ss)) = true.
Proof.
  induction ss as [|s ss IH]; intros h r pre Hpre H; cbn [build_from specs_ok forallb] in *; [reflexivity|].
  apply andb_prop in H. destruct H as [H1 H2].
  rewrite filter_app, (svc_filter_svcf s h r H1). cbn [app forallb].
  pose proof (consec_range _ _ (svc_attrs_consec s h r)) as Rb. rewrite svc_attrs_len in Rb.
  pose proof (consec_range _ _ (build_from_consec ss (h + svc_size s) (r ++ [(h, h + svc_size s - 1, s_uuid s)]))) as Rp.
  apply andb_true_intro. split.
  - cbn [head_attr a_handle a_end]. unfold chars_of.
    rewrite (filter_local (is_type UUID_CHARACTERISTIC) h (h + svc_size s - 1) pre).
    + rewrite svc_filter_char. unfold svc_ok in H1. apply andb_prop in H1. destruct H1 as [_ H1].
      apply chars_ends; [exact H1|]. intros _. unfold svc_size. lia.
    + exact Hpre.
    + eapply Forall_impl; [|exact Rp]. intros a Ha. cbv beta in Ha |- *. lia.
    + eapply Forall_impl; [|exact Rb]. intros a Ha. cbv beta in Ha |- *. lia.
  - rewrite app_assoc. apply IH; [|exact H2].
    apply Forall_app. split.
    + eapply Forall_impl; [|exact Hpre]. intros a Ha. cbv beta in Ha |- *. pose proof (svc_size_pos s). lia.
    + eapply Forall_impl; [|exact Rb]. intros a Ha. cbv beta in Ha |- *. lia.
Qed.


(* ================================================================== add_service: include declarations are consistent *)
Definition incl_pred (db : list attr) (a : attr) : bool :=
  if uuid_eqb (a_type a) UUID_INCLUDE then
    match a_body a with
    | BInclude s _ u =>
        andb (orb (u_len u =? 2) (u_len u =? 16))
             (match find (fun b => a_handle b =? s) db with
              | Some b => match a_body b with BService u' => uuid_eqb u' u | _ => false end
              | None => false
              end)
    | _ => false
    end
  else true.

Lemma find_app {A} (f : A -> bool) l1 l2 :
  find f (l1 ++ l2) = match find f l1 with Some x => Some x | None => find f l2 end.
Proof. induction l1 as [|x l1 IH]; cbn; [reflexivity|]. destruct (f x); [reflexivity|exact IH]. Qed.

Lemma find_none_lt (h : Z) l : Forall (fun a => a_handle a < h) l -> find (fun b => a_handle b =? h) l = None.
Proof.
  induction 1 as [|x l Hx _ IH]; cbn; [reflexivity|].
  assert (E : (a_handle x =? h) = false) by lia. now rewrite E.
Qed.

(* a registered service (h, e, u) is found in the attributes laid out so far *)
Definition reg_found (pre : list attr) (r : reg) : Prop :=
  forall i, (i < length r)%nat ->
    let '(h, e, u) := nth i r (0, 0, U16 0) in
    uuid_ok u = true /\
    exists b, find (fun b => a_handle b =? h) pre = Some b /\ a_body b = BService u.

Lemma not_incl_type_plain h e u b db : negb (is_decl_type u) = true -> incl_pred db (mkA h e u b) = true.
Proof.
  intros Hn. destruct (not_decl_types u Hn) as [_ [_ [I _]]]. unfold incl_pred. cbn [a_type]. now rewrite I.
Qed.

Lemma desc_attrs_incl db : forall ds h, forallb desc_ok ds = true -> forallb (incl_pred db) (desc_attrs h ds) = true.
Proof.
  induction ds as [|d ds IH]; intros h H; cbn [desc_attrs forallb] in *; [reflexivity|].
  apply andb_prop in H. destruct H as [H1 H2]. unfold desc_ok in H1. apply andb_prop in H1. destruct H1.
  rewrite not_incl_type_plain by assumption. now apply IH.
Qed.

Lemma chars_attrs_incl db : forall cs h, forallb char_ok cs = true -> forallb (incl_pred db) (chars_attrs h cs) = true.
Proof.
  induction cs as [|c cs IH]; intros h H; cbn [chars_attrs forallb] in *; [reflexivity|].
  apply andb_prop in H. destruct H as [H1 H2]. rewrite forallb_app, (IH _ H2), andb_true_r.
  unfold char_ok in H1. apply andb_prop in H1. destruct H1 as [H1 H3]. apply andb_prop in H1. destruct H1 as [H1 H1b].
  unfold char_attrs. cbn [forallb]. rewrite forallb_app, desc_attrs_incl by assumption.
  rewrite (not_incl_type_plain _ _ (c_uuid c)) by assumption.
  destruct (needs_cccd c); reflexivity.
Qed.

Lemma incl_attrs_incl db pre r : reg_found pre r ->
  (forall h, (exists b, find (fun b => a_handle b =? h) pre = Some b) ->
             find (fun b => a_handle b =? h) db = find (fun b => a_handle b =? h) pre) ->
  forall is_ h, forallb (fun i => Nat.ltb i (length r)) is_ = true ->
  forallb (incl_pred db) (incl_attrs h r is_) = true.
Proof.
  intros Hreg Hdb. induction is_ as [|i is_ IH]; intros h Hi; cbn [incl_attrs forallb] in *; [reflexivity|].
  apply andb_prop in Hi. destruct Hi as [Hi1 Hi2]. apply Nat.ltb_lt in Hi1.
  specialize (Hreg i Hi1). destruct (nth i r (0, 0, U16 0)) as [[s e] u]. destruct Hreg as [Hu [b [Hf Hb]]].
  cbn [forallb]. rewrite (IH _ Hi2), andb_true_r.
  unfold incl_pred. cbn [a_type a_body]. replace (uuid_eqb UUID_INCLUDE UUID_INCLUDE) with true by reflexivity.
  rewrite (Hdb s (ex_intro _ b Hf)), Hf, Hb.
  unfold uuid_ok in Hu. rewrite Hu. cbn [andb]. unfold uuid_eqb. lia.
Qed.

Lemma build_incl : forall ss h0 r pre post,
  Forall (fun a => a_handle a < h0) pre -> reg_found pre r ->
  specs_ok ss = true -> incl_idx_ok (length r) ss = true ->
  forallb (incl_pred (pre ++ build_from h0 r ss ++ post)) (build_from h0 r ss) = true.
Proof.
  induction ss as [|s ss IH]; intros h0 r pre post Hpre Hreg Hs Hi; [reflexivity|].
  cbn [build_from specs_ok forallb incl_idx_ok] in *.
  apply andb_prop in Hs. destruct Hs as [Hs1 Hs2]. apply andb_prop in Hi. destruct Hi as [Hi1 Hi2].
  set (blk := svc_attrs h0 r s) in *.
  set (r' := r ++ [(h0, h0 + svc_size s - 1, s_uuid s)]) in *.
  set (rest := build_from (h0 + svc_size s) r' ss) in *.
  set (db := pre ++ (blk ++ rest) ++ post).
  assert (Hdb : forall h, (exists b, find (fun b => a_handle b =? h) pre = Some b) ->
                find (fun b => a_handle b =? h) db = find (fun b => a_handle b =? h) pre).
  { intros h [b Hb]. unfold db. now rewrite find_app, Hb. }
  pose proof Hs1 as Hs1'. unfold svc_ok in Hs1'. apply andb_prop in Hs1'. destruct Hs1' as [Hsu Hsc].
  rewrite forallb_app. apply andb_true_intro. split.
  - unfold blk. rewrite svc_attrs_split. cbn [forallb]. rewrite forallb_app.
    rewrite (incl_attrs_incl db pre r Hreg Hdb _ _ Hi1), (chars_attrs_incl db _ _ Hsc).
    unfold incl_pred, head_attr. cbn [a_type]. destruct (s_primary s); reflexivity.
  - unfold db. replace (pre ++ (blk ++ rest) ++ post) with ((pre ++ blk) ++ rest ++ post)
      by (now rewrite <- !app_assoc).
    pose proof (consec_range _ _ (svc_attrs_consec s h0 r)) as Rb. rewrite svc_attrs_len in Rb. fold blk in Rb.
    apply IH.
    + apply Forall_app. split.
      * eapply Forall_impl; [|exact Hpre]. intros a Ha. cbv beta in Ha |- *. pose proof (svc_size_pos s). lia.
      * eapply Forall_impl; [|exact Rb]. intros a Ha. cbv beta in Ha |- *. lia.
    + intros i Hlt. unfold r' in *. rewrite app_length in Hlt. cbn [length] in Hlt.
      destruct (Nat.lt_ge_cases i (length r)) as [Hl|Hg].
      * rewrite app_nth1 by exact Hl. specialize (Hreg i Hl).
        destruct (nth i r (0, 0, U16 0)) as [[h e] u]. destruct Hreg as [Hu [b [Hf Hb]]].
        split; [exact Hu|]. exists b. split; [|exact Hb]. now rewrite find_app, Hf.
      * assert (i = length r) by lia. subst i. rewrite app_nth2 by lia. rewrite Nat.sub_diag. cbn [nth].
        split; [exact Hsu|]. exists (head_attr h0 s). split; [|reflexivity].
        rewrite find_app, (find_none_lt h0 pre Hpre). unfold blk. rewrite svc_attrs_split. cbn [find head_attr a_handle].
        now rewrite Z.eqb_refl.
    + exact Hs2.
    + unfold r'. rewrite app_length. cbn [length]. rewrite Nat.add_1_r. exact Hi2.
Qed.

Theorem build_includes_consistent : forall ss, specs_ok ss = true -> incl_idx_ok 0 ss = true ->
  includes_consistent (build ss) = true.
Proof.
  intros ss Hs Hi. unfold includes_consistent, build.
  pose proof (build_incl ss 1 [] [] [] (Forall_nil _) (fun i Hlt => ltac:(cbn in Hlt; lia)) Hs Hi) as H.
  cbn [app] in H. rewrite app_nil_r in H. exact H.
Qed.

(* every database add_services builds is well-formed *)
Theorem build_wf : forall ss, specs_ok ss = true -> total_size ss <= 0xFFFE -> db_wf (build ss) = true.
Proof.
  intros ss H Ht. unfold db_wf.
  rewrite (build_sorted ss Ht), (build_services_ok ss H Ht).
  destruct (build_sizes_types ss H) as [D T]. rewrite D, T. cbn [andb].
  exact (build_char_ends ss 1 [] [] (Forall_nil _) H).
Qed.

(* ================================================================== fuel is irrelevant once it suffices *)
(* used by the correspondence harness, which evaluates the model with a fuel of a few thousand
   requests instead of 0x10000 - start: any fuel on which the loop does not run out gives the
   result every larger fuel gives *)
Lemma loop_fuel_mono cond proc raise_other r : forall f k n start acc,
  fst (loop cond proc raise_other r f n start acc) <> OutOfFuel ->
  loop cond proc raise_other r (f + k) n start acc = loop cond proc raise_other r f n start acc.
Proof.
  induction f as [|f IH]; intros k n start acc H.
  - cbn [loop] in H. destruct k as [|k]; [reflexivity|]. cbn [plus loop].
    destruct (cond start); cbn [negb fst] in *; [congruence|reflexivity].
  - cbn [plus loop] in *. destruct (cond start); cbn [negb] in *; [|reflexivity].
    destruct (r n start) as [|c|es]; [reflexivity|reflexivity|].
    destruct es as [|e es]; [reflexivity|].
    destruct (proc start (e :: es)); try reflexivity. apply IH. exact H.
Qed.

(* ================================================================== extension: more procedures *)
(* --- read_characteristics_by_uuid: same loop, values taken raw *)
Lemma proc_plain_raw_progress start : forall es acc lh a s',
  start <= lh -> proc_plain_raw start es acc lh = Next a s' -> start < s'.
Proof.
  induction es as [|e es IH]; intros acc lh a s' Hle H; cbn [proc_plain_raw] in H.
  - inversion H. lia.
  - destruct (e_h e <? start) eqn:B; [discriminate|]. eapply IH; [|exact H]. lia.
Qed.

Lemma proc_plain_raw_progress0 start es a s' :
  es <> [] -> proc_plain_raw start es [] 0 = Next a s' -> start < s'.
Proof.
  destruct es as [|e es]; [congruence|]. intros _ H. cbn [proc_plain_raw] in H.
  destruct (e_h e <? start) eqn:B; [discriminate|].
  eapply proc_plain_raw_progress; [|exact H]. lia.
Qed.

Lemma read_characteristics_by_uuid_terminates : forall r sh se, 0 <= sh -> se <= 0xFFFF ->
  finishes (read_characteristics_by_uuid (fuel_for sh) r sh se) 65536.
Proof.
  intros r sh se H0 He. unfold read_characteristics_by_uuid, finishes, fuel_for.
  destruct (loop_terminates (cond_le se) (fun s es => proc_plain_raw s es [] 0) false r
              (fun s => cond_le_bound se s He) (fun s es a s' => proc_plain_raw_progress0 s es a s')
              (Z.to_nat (0x10000 - sh)) 0%nat sh []) as [H1 H2]; [lia|].
  split; [exact H1|lia].
Qed.

(* --- the long read loop against ANY peer: the offset grows by at least ATT_MTU-1 >= 1 per
       request and a request with an offset above 0xFFFF cannot be built, so read_value ends
       (normally or with an exception) within 0x10000 Read Blob requests *)
Lemma read_blob_loop_terminates : forall fuel blob mtu acc off,
  2 <= mtu -> 0 <= off -> (Z.to_nat (0x10000 - off) < fuel)%nat ->
  read_blob_loop fuel blob mtu acc off <> ROutOfFuel.
Proof.
  induction fuel as [|f IH]; intros blob mtu acc off Hm H0 Hf; cbn [read_blob_loop].
  - lia.
  - destruct (0xFFFF <? off) eqn:B; [discriminate|].
    destruct (blob off) as [|c|part]; [discriminate| |].
    + destruct (orb _ _); discriminate.
    + destruct (Z.of_nat (length part) <? mtu - 1) eqn:L; [discriminate|].
      apply IH; lia.
Qed.

Theorem read_value_terminates : forall first blob mtu no_long_read, 2 <= mtu ->
  read_value (Z.to_nat 0x10000) first blob mtu no_long_read <> ROutOfFuel.
Proof.
  intros first blob mtu nlr Hm. unfold read_value.
  destruct first as [|c|v]; try discriminate.
  destruct (andb _ _) eqn:E; [|discriminate].
  apply read_blob_loop_terminates; lia.
Qed.

(* --- the uuids filter of discover_characteristics: filtered discovery is the filter of the
       unfiltered discovery, same handle ranges, same number of requests *)
Theorem discover_characteristics_uuids_spec : forall fuel r sh se us,
  discover_characteristics_uuids fuel r sh se us
  = match discover_characteristics fuel r sh se with
    | (Done es, n) => (Done (filter_uuids us es), n)
    | other => other
    end.
Proof.
  intros. unfold discover_characteristics_uuids, discover_characteristics.
  destruct (discover_chars_loop fuel r sh se) as [[es| |c|] n]; reflexivity.
Qed.

Lemma filter_uuids_sub us es : forall e, In e (filter_uuids us es) -> In e es.
Proof.
  intros e. unfold filter_uuids. destruct us; [auto|]. rewrite filter_In. tauto.
Qed.

Lemma filter_uuids_nil es : filter_uuids [] es = es.
Proof. reflexivity. Qed.

(* every service of discover_characteristics(uuids, None) finishes: no OutOfFuel, and the
   total number of requests is bounded by the sum of the per-service bounds *)
Fixpoint all_bound (svcs : list (Z * Z)) : Z :=
  match svcs with [] => 0 | (sh, _) :: rest => Z.max 0 (0x10000 - sh) + all_bound rest end.

Lemma all_bound_nonneg svcs : 0 <= all_bound svcs.
Proof. induction svcs as [|[sh se] rest IH]; cbn [all_bound]; lia. Qed.

Lemma discover_characteristics_all_terminates : forall r svcs us n acc,
  Forall (fun p => snd p <= 0xFFFF) svcs ->
  fst (discover_characteristics_all r svcs us n acc) <> OutOfFuel /\
  Z.of_nat (snd (discover_characteristics_all r svcs us n acc)) <= Z.of_nat n + all_bound svcs.
Proof.
  intros r svcs us. induction svcs as [|[sh se] rest IH]; intros n acc F; cbn [discover_characteristics_all all_bound].
  - split; [discriminate|cbn; lia].
  - inversion F; subst. cbn [snd] in H1. pose proof (all_bound_nonneg rest) as Hnn.
    destruct (loop_terminates (cond_le se) (fun s es => proc_plain s es [] 0) true r
                (fun s => cond_le_bound se s H1) (fun s es a s' => proc_plain_progress0 s es a s')
                (fuel_for sh) n sh []) as [T1 T2]; [unfold fuel_for; lia|].
    destruct (loop _ _ _ _ _ _ _ _) as [[es| |c|] n'] eqn:E; cbn [fst snd] in *.
    + destruct (IH n' (acc ++ filter_uuids us (fix_ends se es)) H2) as [I1 I2]. split; [exact I1|lia].
    + split; [discriminate|lia].
    + split; [discriminate|lia].
    + congruence.
Qed.

(* one service, no filter: discover_characteristics_all is discover_characteristics *)
Lemma discover_characteristics_all_one : forall r sh se,
  discover_characteristics_all r [(sh, se)] [] 0 []
  = discover_characteristics (fuel_for sh) r sh se.
Proof.
  intros. cbn [discover_characteristics_all]. unfold discover_characteristics, discover_chars_loop.
  destruct (loop _ _ _ _ _ _ _ _) as [[es| |c|] n]; reflexivity.
Qed.

(* --- fan-out of notify_subscriber / indicate_subscriber over the EATT bearers of a connection *)
Theorem subscriber_fan_out_routing : forall indicate mtu_of s eatt conn h v,
  subscriber_fan_out indicate mtu_of s eatt conn h v
  = map (fun b => (b, kind_op indicate, h, truncate (mtu_of b) v))
        (filter (fun b => subscribed (kind_bit indicate) s b h) (eatt ++ [conn])).
Proof.
  intros. unfold subscriber_fan_out. induction (eatt ++ [conn]) as [|b l IH]; [reflexivity|].
  cbn [flat_map filter]. rewrite IH. unfold send_single at 1. cbn [orb]. fold (kind_bit indicate).
  destruct (subscribed (kind_bit indicate) s b h); fold (kind_op indicate); reflexivity.
Qed.

(* ================================================================== end to end *)
(* A client of a Bumble server whose database was built by add_services, at any ATT_MTU >= 23,
   reconstructs the primary services, and for every primary service its include declarations,
   its characteristics with their handle ranges, for every characteristic its descriptors, and
   the whole attribute table. *)
Definition chardecls_of (db : list attr) (s : attr) : list attr := chars_of db (a_handle s) (a_end s).

Theorem client_sees_database : forall ss mtu, 23 <= mtu -> specs_ok ss = true -> incl_idx_ok 0 ss = true ->
  total_size ss <= 0xFFFE ->
  let db := build ss in
  fst (client_discover_services mtu db) = Done (map to_entry (primary_services db)) /\
  fst (client_discover_attributes mtu db) = Done (map info_entry db) /\
  (forall u, fst (client_discover_service mtu db u) = Done (map to_entry (services_with db u))) /\
  (forall s, In s (primary_services db) ->
     fst (client_discover_included mtu db (a_handle s) (a_end s))
       = Done (map declared_include (includes_of db (a_handle s) (a_end s))) /\
     fst (client_discover_characteristics mtu db (a_handle s) (a_end s))
       = Done (map to_entry (chardecls_of db s)) /\
     (forall us, fst (discover_characteristics_uuids (fuel_for (a_handle s))
                        (fun _ st => srv_read_by_type mtu db UUID_CHARACTERISTIC st (a_end s))
                        (a_handle s) (a_end s) us)
                 = Done (filter_uuids us (map to_entry (chardecls_of db s)))) /\
     True) /\
  (forall vh ce, 0 <= vh -> ce <= 0xFFFF ->
     fst (client_discover_descriptors mtu db vh ce) = Done (map info_entry (attrs_in db (vh + 1) ce))).
Proof.
  intros ss mtu Hm Hs Hidx Ht db.
  pose proof (build_includes_consistent ss Hs Hidx) as Wincl. fold db in Wincl.
  pose proof (build_wf ss Hs Ht) as W. fold db in W. unfold db_wf in W.
  apply andb_prop in W. destruct W as [W1 W2]. apply andb_prop in W1. destruct W1 as [Wsorted Wsvc].
  apply andb_prop in W2. destruct W2 as [W2 Wends]. apply andb_prop in W2. destruct W2 as [Wsz Wty].
  split; [apply discover_services_exact; assumption|].
  split; [apply discover_attributes_exact; assumption|].
  split; [intros u; apply discover_service_exact; assumption|].
  split; [|intros vh ce Hv Hc; apply discover_descriptors_exact; assumption].
  intros s Hin.
  assert (Hrange : 1 <= a_handle s /\ a_end s <= 0xFFFF).
  { pose proof Wsvc as Wsvc'. apply andb_prop in Wsvc'. destruct Wsvc' as [Hc Hle].
    unfold primary_services in Hin.
    pose proof (forallb_In _ _ _ Hle Hin) as H1. cbv beta in H1.
    pose proof (chain_all_valid _ _ _ _ Hc) as G. rewrite Forall_forall in G. specialize (G s Hin). lia. }
  destruct Hrange as [Hlo Hhi].
  assert (Hce : char_ends_ok (a_end s) (chars_of db (a_handle s) (a_end s)) = true).
  { refine (forallb_In _ _ s Wends _). unfold primary_services in Hin. apply filter_In in Hin.
    apply filter_In. split; [tauto|]. destruct Hin as [_ Hty]. now rewrite Hty. }
  pose proof (discover_characteristics_exact db mtu (a_handle s) (a_end s) Hm Hlo Hhi Wsorted Wsz Hce) as Hch.
  split; [apply discover_included_exact_declared; assumption|].
  split; [exact Hch|].
  split.
  - intros us. rewrite discover_characteristics_uuids_spec.
    unfold client_discover_characteristics in Hch.
    destruct (discover_characteristics _ _ _ _) as [o n]. cbn [fst] in Hch. subst o. reflexivity.
  - exact I.
Qed.

(* ================================================================== the model is stated in these constants *)
(* Model/GattClientShape.v holds the constants of the anchored code by name (k____); each
   lemma restates a model definition with every number replaced by its named constant, so
   that "source constants = model constants" (Props: C12_consts_match_source) is a statement
   about the functions the theorems are about. All by computation. *)
From BV Require Import Model.GattClientShape.

Lemma shape_find_information : forall mtu db s e,
  srv_find_information mtu db s e
  = if orb (s =? 0) (e <? s) then RErr (k_err_invalid_handle) else
    reply (map info_entry (take_run (k_fi_entry_hdr) false (fun a => u_len (a_type a))
                                    (mtu - k_fi_space) None (filter (in_range s e) db))).
Proof. reflexivity. Qed.

Lemma shape_find_by_type_value : forall mtu db u s e,
  srv_find_by_type_value mtu db u s e
  = reply (map to_entry (take_run (k_fbtv_entry) false (fun _ => 0) (mtu - k_fbtv_space) None
            (filter (fun a => andb (is_service_with (mkU 2 (k_uuid_primary)) u a) (in_range s e a)) db))).
Proof. reflexivity. Qed.

Lemma shape_read_by_type : forall mtu db t s e,
  srv_read_by_type mtu db t s e
  = if orb (s =? 0) (e <? s) then RErr (k_err_invalid_handle) else
    let lim := Z.min (mtu - k_rbt_limit_off) (k_rbt_limit_max) in
    reply (map (to_entry_trunc lim)
             (take_run (k_rbt_entry_hdr) true (fun a => Z.min (disc_vlen a) lim) (mtu - k_rbt_space) None
                (filter (fun a => andb (uuid_eqb (a_type a) t) (in_range s e a)) db))).
Proof. reflexivity. Qed.

Lemma shape_read_by_group : forall mtu db t s e,
  srv_read_by_group mtu db t s e
  = let lim := Z.min (mtu - k_rbgt_limit_off) (k_rbgt_limit_max) in
    reply (map (to_entry_trunc lim)
             (take_run (k_rbgt_entry_hdr) true (fun a => Z.min (disc_vlen a) lim) (mtu - k_rbgt_space) None
                (filter (fun a => andb (uuid_eqb (a_type a) t) (in_range s e a)) db))).
Proof. reflexivity. Qed.

Lemma shape_reply_not_found : reply [] = RErr (k_err_not_found).
Proof. reflexivity. Qed.

Lemma shape_read : forall mtu v,
  srv_read mtu v = VVal (firstn (Z.to_nat (Z.min (mtu - k_read_size) (Z.of_nat (List.length v)))) v).
Proof. reflexivity. Qed.

Lemma shape_read_blob : forall mtu v off,
  srv_read_blob mtu v off
  = let len := Z.of_nat (List.length v) in
    if len <? off then VErr (k_err_invalid_offset)
    else if andb (off =? 0) (len <=? mtu - k_blob_not_long) then VErr (k_err_not_long)
    else VVal (sublist off (Z.min (mtu - k_blob_part) (len - off)) v).
Proof. reflexivity. Qed.

Lemma shape_client_read : forall fuel first blob mtu nlr,
  read_value fuel first blob mtu nlr
  = match first with
    | VNone => RRaised (-3)
    | VErr c => RRaised c
    | VVal v => if andb (negb nlr) (Z.of_nat (List.length v) =? mtu - k_read_long_if)
                then read_blob_loop fuel blob mtu v (Z.of_nat (List.length v)) else RDone v
    end.
Proof. reflexivity. Qed.

Lemma shape_client_blob_step : forall f blob mtu acc off,
  read_blob_loop (S f) blob mtu acc off
  = if 0xFFFF <? off then RRaised (-4) else
    match blob off with
    | VNone => RRaised (-3)
    | VErr c => if orb (c =? k_err_not_long) (c =? k_err_invalid_offset) then RDone acc else RRaised c
    | VVal part => if Z.of_nat (List.length part) <? mtu - k_read_short_part then RDone (acc ++ part)
                   else read_blob_loop f blob mtu (acc ++ part) (off + Z.of_nat (List.length part))
    end.
Proof. reflexivity. Qed.

Lemma shape_write_max : GATT_MAX_ATTRIBUTE_VALUE_SIZE = k_write_max.
Proof. reflexivity. Qed.

Lemma shape_truncate : forall mtu v,
  truncate mtu v = if mtu - k_notify_trunc_if <? Z.of_nat (List.length v)
                   then firstn (Z.to_nat (mtu - k_notify_trunc)) v else v.
Proof. reflexivity. Qed.

Lemma shape_indicate_same_truncation :
  k_indicate_trunc_if = k_notify_trunc_if /\ k_indicate_trunc = k_notify_trunc /\
  k_indicate_cccd_len = k_notify_cccd_len /\ k_fi_entry_hdr2 = k_fi_entry_hdr /\
  k_fbtv_entry2 = k_fbtv_entry.
Proof. repeat split. Qed.

Lemma shape_send_single : forall indicate force mtu_of s b h v,
  send_single indicate force mtu_of s b h v
  = if orb force (subscribed (if indicate then k_indicate_bit else k_notify_bit) s b h)
    then [(b, (if indicate then k_op_indication else k_op_notification), h, truncate (mtu_of b) v)]
    else [].
Proof. reflexivity. Qed.

Lemma shape_cccd_length : forall s b h v,
  write_cccd s b h v
  = if Z.of_nat (List.length v) =? k_write_cccd_len
    then assoc_set b (assoc_set h v (match assoc b s with Some c => c | None => [] end)) s else s.
Proof.
  intros. unfold write_cccd. change (k_write_cccd_len) with 2.
  destruct v as [|x [|y [|z v]]]; try reflexivity.
  cbn [List.length Nat.eqb]. assert (E : (Z.of_nat (S (S (S (List.length v)))) =? 2) = false) by lia. now rewrite E.
Qed.

Lemma shape_loops :
  (forall s, cond_lt_ffff s = (s <? k_services_while_lt)) /\
  k_service_while_lt = k_services_while_lt /\ k_service_stop_at = 0xFFFF /\
  k_services_ending = 0xFFFF /\ k_attrs_ending = 0xFFFF /\
  k_services_first_handle = 1 /\ k_service_first_handle = 1 /\ k_attrs_first_handle = 1 /\
  (forall p st es acc le, proc_group p false st es acc le = proc_group p false st es acc le) /\
  (forall st acc lh, proc_plain st [] acc lh = Next acc (lh + k_chars_advance)) /\
  (forall p q st acc le, proc_group p q st [] acc le = Next acc (le + k_services_advance)) /\
  k_service_advance = 1 /\ k_included_advance = 1 /\ k_descs_advance = 1 /\
  k_attrs_advance = 1 /\ k_read_by_uuid_advance = 1 /\ k_descs_first = 1 /\ k_chars_prev_end = 1.
Proof. repeat split. Qed.

Lemma shape_build :
  (forall ss, build ss = build_from (k_next_handle_base) [] ss) /\
  PROP_NOTIFY = k_prop_notify /\ PROP_INDICATE = k_prop_indicate /\
  UUID_PRIMARY = mkU 2 (k_uuid_primary) /\ UUID_SECONDARY = mkU 2 (k_uuid_secondary) /\
  UUID_INCLUDE = mkU 2 (k_uuid_include) /\ UUID_CHARACTERISTIC = mkU 2 (k_uuid_characteristic) /\
  UUID_CCCD = mkU 2 (k_uuid_cccd) /\
  (forall h c, nth 0 (char_attrs h c) (mkA 0 0 (U16 0) BCccd)
               = mkA h (h + char_size c - 1) UUID_CHARACTERISTIC
                     (BCharDecl (c_props c) (h + k_chardecl_value_handle) (c_uuid c))).
Proof. repeat split. Qed.

(* ================================================================== fan-out independence *)
Lemma routing_dyn_aux indicate mtu_of s h rv : forall l,
  (forall b c, In (b, c) l -> assoc b s = Some c) ->
  flat_map (fun bc => send_single_dyn indicate mtu_of s rv (fst bc) h)
           (filter (fun bc => has_entry (snd bc) h) l)
  = flat_map (fun b => match rv b with
                       | Some v => [(b, kind_op indicate, h, truncate (mtu_of b) v)]
                       | None => []
                       end)
             (filter (fun b => subscribed (kind_bit indicate) s b h) (map fst l)).
Proof.
  induction l as [|[b c] l IH]; intros Hl; [reflexivity|].
  cbn [filter map fst snd].
  assert (Ha : assoc b s = Some c) by (apply Hl; now left).
  specialize (IH (fun b' c' H => Hl b' c' (or_intror H))).
  destruct (subscribed (kind_bit indicate) s b h) eqn:S.
  - rewrite (subscribed_has_entry _ _ _ _ _ Ha S). cbn [flat_map fst].
    unfold send_single_dyn at 1. fold (kind_bit indicate). rewrite S. fold (kind_op indicate).
    now rewrite IH.
  - destruct (has_entry c h); [|exact IH].
    cbn [flat_map fst]. unfold send_single_dyn at 1. fold (kind_bit indicate). rewrite S.
    cbn [app]. exact IH.
Qed.

(* For every order of the subscriber table and every set of bearers on which the value cannot
   be read: the bearers that get the PDU are exactly the subscribed ones minus those, one PDU
   each, in table order.  What happens on one bearer (its read failing; in the code also its
   confirmation never arriving: there is no shared state between the per-bearer tasks in this
   function) does not change what any other bearer gets. *)
Theorem fan_out_independent : forall indicate mtu_of s h rv,
  NoDup (map fst s) ->
  notify_or_indicate_subscribers_dyn indicate mtu_of s h rv
  = flat_map (fun b => match rv b with
                       | Some v => [(b, kind_op indicate, h, truncate (mtu_of b) v)]
                       | None => []
                       end)
             (filter (fun b => subscribed (kind_bit indicate) s b h) (map fst s)).
Proof.
  intros indicate mtu_of s h rv Hn. unfold notify_or_indicate_subscribers_dyn.
  apply routing_dyn_aux. intros b c Hin. now apply assoc_in_nodup.
Qed.

(* a healthy subscribed bearer gets its PDU whatever the other bearers' reads do *)
Corollary healthy_bearer_served : forall indicate mtu_of s h rv b v,
  NoDup (map fst s) -> In b (map fst s) -> subscribed (kind_bit indicate) s b h = true -> rv b = Some v ->
  In (b, kind_op indicate, h, truncate (mtu_of b) v) (notify_or_indicate_subscribers_dyn indicate mtu_of s h rv).
Proof.
  intros indicate mtu_of s h rv b v Hn Hb Hs Hv. rewrite fan_out_independent by exact Hn.
  apply in_flat_map. exists b. split; [apply filter_In; tauto|]. rewrite Hv. now left.
Qed.

(* with the same value everywhere this is the routing theorem *)
Lemma fan_out_all_readable : forall indicate mtu_of s h v,
  notify_or_indicate_subscribers_dyn indicate mtu_of s h (fun _ => Some v)
  = notify_or_indicate_subscribers indicate mtu_of s h v false.
Proof.
  intros. unfold notify_or_indicate_subscribers_dyn, notify_or_indicate_subscribers.
  rewrite (filter_ext (fun bc => orb false (has_entry (snd bc) h)) (fun bc => has_entry (snd bc) h)) by reflexivity.
  apply flat_map_ext. intros [b c]. unfold send_single_dyn, send_single. cbn [orb fst].
  destruct indicate; destruct (subscribed _ s b h); reflexivity.
Qed.

(* a sequential fan-out that stops at the first failure is NOT independent: a healthy bearer
   that subscribed after a faulty one gets nothing *)
Lemma fan_out_sequential_refuted :
  exists s rv, NoDup (map fst s) /\
    fan_out_sequential false (fun _ => 23) s 5 rv (map fst s)
    <> notify_or_indicate_subscribers_dyn false (fun _ => 23) s 5 rv.
Proof.
  exists [(1, [(5, [1; 0])]); (2, [(5, [1; 0])])], (fun b => if b =? 1 then None else Some [7]).
  split.
  - repeat constructor; cbn; intuition discriminate.
  - vm_compute. discriminate.
Qed.

(* ================================================================== long read while the ATT_MTU changes *)
Lemma blob_loop_dyn_exact : forall fuel value m k o,
  (forall j, 2 <= m j) -> Z.of_nat (length value) <= 0xFFFF ->
  (1 <= o)%nat -> (o <= length value)%nat -> (length value - o < fuel)%nat ->
  read_blob_loop_dyn fuel (fun k off => srv_read_blob (m k) value off) m k (firstn o value) (Z.of_nat o)
  = RDone value.
Proof.
  induction fuel as [|f IH]; intros value m k o Hm Hmax H1 Ho Hf; [lia|].
  cbn [read_blob_loop_dyn]. pose proof (Hm k) as Hk.
  assert (B0 : (0xFFFF <? Z.of_nat o) = false) by lia. rewrite B0.
  unfold srv_read_blob at 1.
  assert (B1 : (Z.of_nat (length value) <? Z.of_nat o) = false) by lia. rewrite B1.
  assert (B2 : andb (Z.of_nat o =? 0) (Z.of_nat (length value) <=? m k - 1) = false) by lia. rewrite B2.
  unfold sublist. rewrite Nat2Z.id.
  set (p := Z.to_nat (Z.min (m k - 1) (Z.of_nat (length value) - Z.of_nat o))).
  assert (Lp : length (firstn p (skipn o value)) = p).
  { rewrite firstn_length, skipn_length. subst p. lia. }
  rewrite Lp, firstn_plus.
  destruct (Z.of_nat p <? m k - 1) eqn:E.
  - assert (o + p = length value)%nat by (subst p; lia).
    rewrite H. now rewrite firstn_all.
  - replace (Z.of_nat o + Z.of_nat p) with (Z.of_nat (o + p)) by lia.
    apply IH; try assumption; subst p; lia.
Qed.

(* The client gets exactly the value whatever ATT_MTU is in force at each step of the read, as long
   as its tests use the ATT_MTU in force when the response arrives (the one the server used). *)
Theorem long_read_exact_any_mtu : forall value m, (forall j, 2 <= m j) -> Z.of_nat (length value) <= 0xFFFF ->
  read_from_server_dyn (S (length value)) m value = RDone value.
Proof.
  intros value m Hm Hmax. unfold read_from_server_dyn, read_value_dyn, srv_read. pose proof (Hm 0%nat) as H0.
  set (k := Z.to_nat (Z.min (m 0%nat - 1) (Z.of_nat (length value)))).
  assert (Lk : length (firstn k value) = k) by (rewrite firstn_length; subst k; lia).
  rewrite Lk.
  destruct (Z.of_nat k =? m 0%nat - 1) eqn:E.
  - apply blob_loop_dyn_exact; try assumption; subst k; lia.
  - f_equal. apply firstn_all2. subst k. lia.
Qed.

(* the tests made against an ATT_MTU remembered from before the first request are wrong as soon as
   an MTU exchange is served first: 120 bytes, snapshot 23, ATT_MTU 100 when the read runs *)
Lemma read_value_stale_mtu_refuted :
  exists value snapshot m, (forall j, 2 <= m j) /\
    read_from_server_stale (S (length value)) snapshot m value <> RDone value.
Proof.
  exists (repeat 7 120), 23, (fun _ => 100). split; [intros; lia|]. vm_compute. discriminate.
Qed.

(* the server before D12f refused a Read Blob at an offset > 0 as soon as the value fitted the
   CURRENT ATT_MTU: a read that started at ATT_MTU 23 and continued at 100 lost the rest *)
Definition srv_read_blob_unfixed (mtu : Z) (value : list Z) (off : Z) : rresp :=
  let len := Z.of_nat (length value) in
  if len <? off then VErr ATT_INVALID_OFFSET
  else if len <=? mtu - 1 then VErr ATT_NOT_LONG
  else VVal (sublist off (Z.min (mtu - 1) (len - off)) value).

Lemma read_blob_unfixed_refuted :
  let value := repeat 7 60 in let m := fun k : nat => if Nat.eqb k 0 then 23 else 100 in
  read_value_dyn 61 (srv_read (m 0%nat) value) (fun k off => srv_read_blob_unfixed (m k) value off) m
  = RDone (repeat 7 22).
Proof. vm_compute. reflexivity. Qed.
