(* Proofs about Model/CtrlProc.v: for every sequence of commands and peer actions, each
   followed by the delivery of what it put on the link, the only procedures still open are
   the ones that are open-ended by specification. *)
From Coq Require Import ZArith List Bool Lia.
From BV Require Import Model.CtrlProc.
Import ListNotations.
Open Scope Z_scope.

(* ------------------------------------------------------------------ list helpers *)
Lemma memz_In a l : memz a l = true <-> In a l.
Proof.
  unfold memz. rewrite existsb_exists. split.
  - intros [x [Hx E]]. apply Z.eqb_eq in E. now subst.
  - intros H. exists a. split; [exact H | apply Z.eqb_refl].
Qed.

Lemma memz_app a l1 l2 : memz a (l1 ++ l2) = memz a l1 || memz a l2.
Proof. unfold memz. apply existsb_app. Qed.

Lemma memz_app_r a l : memz a (l ++ [a]) = true.
Proof. rewrite memz_app. cbn. rewrite Z.eqb_refl. now rewrite !orb_true_r. Qed.

Lemma memz_app_l a b l : memz a l = true -> memz a (l ++ [b]) = true.
Proof. intros H. rewrite memz_app, H. reflexivity. Qed.

Lemma memz_remz a b l : memz a l = true -> a <> b -> memz a (remz b l) = true.
Proof.
  rewrite !memz_In. unfold remz. intros H N. apply filter_In. split; [exact H|].
  apply negb_true_iff. apply Z.eqb_neq. congruence.
Qed.

Lemma proc_eqb_eq p q : proc_eqb p q = true <-> p = q.
Proof.
  destruct p, q; cbn; try (split; [discriminate | intros H; discriminate H]);
    rewrite Z.eqb_eq; split; intros H; [now subst | now inversion H | now subst | now inversion H
                                        | now subst | now inversion H | now subst | now inversion H].
Qed.

Lemma proc_eqb_refl p : proc_eqb p p = true.
Proof. now apply proc_eqb_eq. Qed.

Lemma close_In p q l : In q (close p l) -> In q l.
Proof.
  induction l as [|x l IH]; cbn; [tauto|].
  destruct (proc_eqb p x); cbn; intros H; [auto | destruct H; auto].
Qed.

Lemma close_NoDup p l : NoDup l -> NoDup (close p l).
Proof.
  induction l as [|x l IH]; cbn; intros ND; [constructor|].
  inversion ND as [|? ? Hn ND']; subst. destruct (proc_eqb p x); [exact ND'|].
  constructor; [|apply IH; exact ND']. intros H. apply Hn. apply (close_In _ _ _ H).
Qed.

Lemma close_not_In p l : NoDup l -> ~ In p (close p l).
Proof.
  induction l as [|x l IH]; cbn; intros ND; [tauto|].
  inversion ND as [|? ? Hn ND']; subst. destruct (proc_eqb p x) eqn:E.
  - apply proc_eqb_eq in E. subst. exact Hn.
  - cbn. intros [H|H]; [subst; rewrite proc_eqb_refl in E; discriminate | exact (IH ND' H)].
Qed.

Lemma close_app_new p l : ~ In p l -> close p (l ++ [p]) = l.
Proof.
  induction l as [|x l IH]; cbn; intros H.
  - now rewrite proc_eqb_refl.
  - destruct (proc_eqb p x) eqn:E.
    + apply proc_eqb_eq in E. subst. tauto.
    + f_equal. apply IH. tauto.
Qed.

Lemma NoDup_app_one {A} (l : list A) a : NoDup l -> ~ In a l -> NoDup (l ++ [a]).
Proof.
  induction l as [|b l IH]; cbn; intros ND Hn.
  - constructor; [tauto | constructor].
  - inversion ND as [|? ? Hb ND']; subst. constructor.
    + intros Hin. apply in_app_or in Hin. destruct Hin as [Hin|[->|[]]]; tauto.
    + apply IH; tauto.
Qed.

Lemma drop_handle_In h p l : In p (drop_handle h l) -> In p l.
Proof. unfold drop_handle. intros H. apply filter_In in H. tauto. Qed.

Lemma drop_handle_NoDup h l : NoDup l -> NoDup (drop_handle h l).
Proof. apply NoDup_filter. Qed.

(* ------------------------------------------------------------------ connection lookups *)
Lemma find_conn_LE h l k : find_conn h LE l = Some k -> In k l /\ k_handle k = h /\ is_le k = true.
Proof.
  unfold find_conn. intros H. apply find_some in H. destruct H as [Hin H].
  apply andb_true_iff in H. destruct H as [H1 H2]. apply Z.eqb_eq in H1.
  unfold is_le. destruct (k_tr k); [auto | discriminate].
Qed.

Lemma find_any_In h l k : find_any h l = Some k -> In k l /\ k_handle k = h.
Proof.
  unfold find_any. intros H. apply find_some in H. destruct H as [Hin H]. apply Z.eqb_eq in H. auto.
Qed.

Lemma conn_to_LE a l k : conn_to a LE l = Some k -> In k l /\ k_addr k = a /\ is_le k = true.
Proof.
  unfold conn_to. intros H. apply find_some in H. destruct H as [Hin H].
  apply andb_true_iff in H. destruct H as [H1 H2]. apply Z.eqb_eq in H1.
  unfold is_le. destruct (k_tr k); [auto | discriminate].
Qed.

Lemma conn_to_LE_none a l : conn_to a LE l = None -> forall k, In k l -> is_le k = true -> k_addr k <> a.
Proof.
  unfold conn_to. intros H k Hin Hle E.
  pose proof (find_none _ _ H k Hin) as F. cbn in F. unfold is_le in Hle.
  rewrite E, Z.eqb_refl in F. destruct (k_tr k); discriminate.
Qed.

Lemma rem_conn_In h l k : In k (rem_conn h l) -> In k l /\ k_handle k <> h.
Proof.
  unfold rem_conn. intros H. apply filter_In in H. destruct H as [Hin H].
  apply negb_true_iff, Z.eqb_neq in H. auto.
Qed.

(* ------------------------------------------------------------------ the invariant of quiet states *)
Definition open_ok (s : pstate) (p : proc) : Prop :=
  match p with
  | PLe a => p_pend_le s = Some a
  | PClassic a => memz a (p_peer_req s) = true /\ memz a (p_present s) = true
  | PFeat _ | PName _ => False
  end.

Record QInv (s : pstate) : Prop := mkQ {
  q_to : p_to s = [];
  q_from : p_from s = [];
  q_nodup : NoDup (p_open s);
  q_open : forall p, In p (p_open s) -> open_ok s p;
  q_le : forall k, In k (p_conns s) -> is_le k = true ->
                   memz (k_addr k) (p_peer_conn s) = true /\ memz (k_addr k) (p_present s) = true;
  q_uniq : forall k1 k2, In k1 (p_conns s) -> In k2 (p_conns s) -> is_le k1 = true -> is_le k2 = true ->
                         k_addr k1 = k_addr k2 -> k1 = k2
}.

Lemma qinv_init present : QInv (p_init present).
Proof. constructor; cbn; auto; try constructor; tauto. Qed.

Lemma conn_to_unique s k : QInv s -> In k (p_conns s) -> is_le k = true ->
  conn_to (k_addr k) LE (p_conns s) = Some k.
Proof.
  intros Q Hin Hle. destruct (conn_to (k_addr k) LE (p_conns s)) as [k'|] eqn:E.
  - destruct (conn_to_LE _ _ _ E) as [Hin' [Ha Hle']]. f_equal. apply (q_uniq s Q); auto.
  - exfalso. exact (conn_to_LE_none _ _ E k Hin Hle eq_refl).
Qed.

(* no PLe is open when no LE connection is pending; any open PLe is the pending one *)
Lemma no_ple_when_none s : QInv s -> p_pend_le s = None -> forall a, ~ In (PLe a) (p_open s).
Proof. intros Q N a H. pose proof (q_open s Q _ H) as O. cbn in O. congruence. Qed.

Lemma no_pfeat s : QInv s -> forall h, ~ In (PFeat h) (p_open s).
Proof. intros Q h H. exact (q_open s Q _ H). Qed.

Lemma no_pname s : QInv s -> forall a, ~ In (PName a) (p_open s).
Proof. intros Q a H. exact (q_open s Q _ H). Qed.

(* stuttering deliveries on a quiet link *)
Lemma quiet_to_peer s : p_to s = [] -> p_step s ToPeer = (s, []).
Proof. intros H. cbn. now rewrite H. Qed.
Lemma quiet_to_cut s : p_from s = [] -> p_step s ToCut = (s, []).
Proof. intros H. cbn. now rewrite H. Qed.

Definition settle2 (s : pstate) : pstate := fst (p_step (fst (p_step s ToPeer)) ToCut).

Lemma macro_run s x : fst (p_run s (macro x)) = settle2 (fst (p_step s x)).
Proof.
  unfold macro, settle2. cbn [p_run]. destruct (p_step s x) as [s1 o1]. cbn [fst].
  destruct (p_step s1 ToPeer) as [s2 o2]. cbn [fst]. destruct (p_step s2 ToCut) as [s3 o3]. reflexivity.
Qed.

Lemma settle2_quiet s : p_to s = [] -> p_from s = [] -> settle2 s = s.
Proof. intros H1 H2. unfold settle2. rewrite (quiet_to_peer s H1). cbn [fst]. now rewrite (quiet_to_cut s H2). Qed.

(* ------------------------------------------------------------------ one settled step preserves QInv *)
Lemma macro_le_create s e a : QInv s -> QInv (fst (p_run s (macro (Cmd (LeCreate e a))))).
Proof.
  intros Q. rewrite macro_run. cbn [p_step step_cmd].
  destruct (p_pend_le s) eqn:P; cbn [fst].
  - rewrite (settle2_quiet s (q_to s Q) (q_from s Q)). exact Q.
  - rewrite settle2_quiet; [|exact (q_to s Q)|exact (q_from s Q)].
    constructor; cbn.
    + exact (q_to s Q).
    + exact (q_from s Q).
    + apply NoDup_app_one; [exact (q_nodup s Q) | apply (no_ple_when_none s Q P)].
    + intros p Hp. apply in_app_or in Hp. destruct Hp as [Hp|[<-|[]]].
      * pose proof (q_open s Q p Hp) as O. destruct p; cbn in *; auto. congruence.
      * reflexivity.
    + exact (q_le s Q).
    + exact (q_uniq s Q).
Qed.

Lemma macro_le_cancel s : QInv s -> QInv (fst (p_run s (macro (Cmd LeCancel)))).
Proof.
  intros Q. rewrite macro_run. cbn [p_step step_cmd].
  destruct (p_pend_le s) as [a|] eqn:P; cbn [fst].
  - unfold settle2. cbn [p_step p_to]. rewrite (q_to s Q). cbn [fst].
    cbn [p_step p_from p_pend_le p_conns p_open p_to p_present p_peer_conn p_peer_req].
    rewrite (q_from s Q). cbn [app fst].
    constructor; cbn; try reflexivity.
    + apply close_NoDup. exact (q_nodup s Q).
    + intros p Hp. pose proof (q_open s Q p (close_In _ _ _ Hp)) as O.
      destruct p as [a'| | |]; cbn in *; auto.
      exfalso. rewrite P in O. inversion O; subst. exact (close_not_In _ _ (q_nodup s Q) Hp).
    + exact (q_le s Q).
    + exact (q_uniq s Q).
  - rewrite (settle2_quiet s (q_to s Q) (q_from s Q)). exact Q.
Qed.

Lemma macro_read_feat s h : QInv s -> QInv (fst (p_run s (macro (Cmd (ReadFeat h))))).
Proof.
  intros Q. rewrite macro_run. cbn [p_step step_cmd].
  destruct (find_conn h LE (p_conns s)) as [k|] eqn:F; cbn [fst].
  2:{ rewrite (settle2_quiet s (q_to s Q) (q_from s Q)). exact Q. }
  destruct (find_conn_LE _ _ _ F) as [Hin [Hh Hle]].
  destruct (q_le s Q k Hin Hle) as [Hpc Hpr].
  unfold settle2. cbn [p_step p_to upd]. rewrite (q_to s Q). cbn [app p_present p_peer_conn upd]. rewrite Hpr, Hpc. cbn [fst].
  cbn [p_step p_from p_pend_le p_conns p_open p_to p_present p_peer_conn p_peer_req upd].
  rewrite (q_from s Q). cbn [app]. rewrite (conn_to_unique s k Q Hin Hle). cbn [fst].
  rewrite Hh, (close_app_new _ _ (no_pfeat s Q h)).
  constructor; cbn; try apply Q; reflexivity.
Qed.

Lemma macro_remote_name s a : QInv s -> QInv (fst (p_run s (macro (Cmd (RemoteName a))))).
Proof.
  intros Q. rewrite macro_run. cbn [p_step step_cmd].
  destruct (memz a (p_present s)) eqn:Pr; cbn [fst].
  2:{ rewrite (settle2_quiet s (q_to s Q) (q_from s Q)). exact Q. }
  unfold settle2. cbn [p_step p_to upd]. rewrite (q_to s Q). cbn [app p_present upd]. rewrite Pr. cbn [fst].
  cbn [p_step p_from p_pend_le p_conns p_open p_to p_present p_peer_conn p_peer_req upd].
  rewrite (q_from s Q). cbn [app fst]. rewrite (close_app_new _ _ (no_pname s Q a)).
  constructor; cbn; try apply Q; reflexivity.
Qed.

Lemma macro_encrypt s h : QInv s -> QInv (fst (p_run s (macro (Cmd (Encrypt h))))).
Proof.
  intros Q. rewrite macro_run. cbn [p_step step_cmd].
  destruct (find_conn h LE (p_conns s)) as [k|] eqn:F; cbn [fst].
  2:{ rewrite (settle2_quiet s (q_to s Q) (q_from s Q)). exact Q. }
  unfold settle2. cbn [p_step p_to upd]. rewrite (q_to s Q). cbn [app p_present upd].
  destruct (memz (k_addr k) (p_present s)); cbn [fst];
    cbn [p_step p_from p_pend_le p_conns p_open p_to p_present p_peer_conn p_peer_req upd];
    rewrite (q_from s Q); cbn [fst]; constructor; cbn; try apply Q; reflexivity.
Qed.

Lemma macro_disconnect s h : QInv s -> QInv (fst (p_run s (macro (Cmd (Disconnect h))))).
Proof.
  intros Q. rewrite macro_run. cbn [p_step step_cmd].
  destruct (find_any h (p_conns s)) as [k|] eqn:F; cbn [fst].
  2:{ rewrite (settle2_quiet s (q_to s Q) (q_from s Q)). exact Q. }
  destruct (find_any_In _ _ _ F) as [Hin Hh].
  assert (forall k2, In k2 (rem_conn h (p_conns s)) -> is_le k2 = true -> is_le k = true -> k_addr k2 <> k_addr k) as Hne.
  { intros k2 H2 L2 L E. destruct (rem_conn_In _ _ _ H2) as [H2in H2h].
    assert (k2 = k) by (apply (q_uniq s Q); auto). subst. congruence. }
  unfold settle2. cbn [p_step p_to upd]. rewrite (q_to s Q). cbn [app p_present upd].
  destruct (memz (k_addr k) (p_present s)) eqn:Pr; cbn [fst].
  - destruct (k_tr k) eqn:T; cbn [fst];
      cbn [p_step p_from p_pend_le p_conns p_open p_to p_present p_peer_conn p_peer_req upd];
      rewrite (q_from s Q); cbn [fst]; constructor; cbn; try apply Q; try reflexivity.
    + apply drop_handle_NoDup. apply Q.
    + intros p Hp. pose proof (q_open s Q p (drop_handle_In _ _ _ Hp)) as O. destruct p; cbn in *; auto.
    + intros k2 H2 L2. destruct (rem_conn_In _ _ _ H2) as [H2in H2h].
      destruct (q_le s Q k2 H2in L2) as [A B]. split; [|exact B].
      apply memz_remz; [exact A|]. apply Hne; auto. unfold is_le. now rewrite T.
    + intros k1 k2 H1 H2. apply (q_uniq s Q); [apply (rem_conn_In _ _ _ H1) | apply (rem_conn_In _ _ _ H2)].
    + apply drop_handle_NoDup. apply Q.
    + intros p Hp. pose proof (q_open s Q p (drop_handle_In _ _ _ Hp)) as O. destruct p; cbn in *; auto.
    + intros k2 H2 L2. destruct (rem_conn_In _ _ _ H2) as [H2in H2h]. exact (q_le s Q k2 H2in L2).
    + intros k1 k2 H1 H2. apply (q_uniq s Q); [apply (rem_conn_In _ _ _ H1) | apply (rem_conn_In _ _ _ H2)].
  - (* the peer is not on the link: the PDU is lost; k cannot be an LE connection *)
    cbn [p_step p_from p_pend_le p_conns p_open p_to p_present p_peer_conn p_peer_req upd].
    rewrite (q_from s Q). cbn [fst]. constructor; cbn; try apply Q; try reflexivity.
    + apply drop_handle_NoDup. apply Q.
    + intros p Hp. pose proof (q_open s Q p (drop_handle_In _ _ _ Hp)) as O. destruct p; cbn in *; auto.
    + intros k2 H2 L2. destruct (rem_conn_In _ _ _ H2) as [H2in H2h]. exact (q_le s Q k2 H2in L2).
    + intros k1 k2 H1 H2. apply (q_uniq s Q); [apply (rem_conn_In _ _ _ H1) | apply (rem_conn_In _ _ _ H2)].
Qed.

Lemma existsb_proc_false p l : existsb (proc_eqb p) l = false -> ~ In p l.
Proof.
  intros H Hin. assert (existsb (proc_eqb p) l = true); [|congruence].
  apply existsb_exists. exists p. split; [exact Hin | apply proc_eqb_refl].
Qed.

Lemma macro_classic_create s a : QInv s -> QInv (fst (p_run s (macro (Cmd (ClassicCreate a))))).
Proof.
  intros Q. rewrite macro_run. cbn [p_step step_cmd].
  destruct (p_pend_le s) eqn:P; cbn [fst].
  { rewrite (settle2_quiet s (q_to s Q) (q_from s Q)). exact Q. }
  destruct (classic_busy s a) eqn:B; cbn [fst].
  { rewrite (settle2_quiet s (q_to s Q) (q_from s Q)). exact Q. }
  unfold classic_busy in B. apply orb_false_iff in B. destruct B as [E _].
  destruct (memz a (p_present s)) eqn:Pr; cbn [fst].
  2:{ rewrite (settle2_quiet s (q_to s Q) (q_from s Q)). exact Q. }
  unfold settle2. cbn [p_step p_to upd]. rewrite (q_to s Q). cbn [app p_present upd]. rewrite Pr. cbn [fst].
  cbn [p_step p_from p_pend_le p_conns p_open p_to p_present p_peer_conn p_peer_req upd].
  rewrite (q_from s Q). cbn [fst].
  constructor; cbn; try apply Q; try reflexivity.
  - apply NoDup_app_one; [apply Q | apply existsb_proc_false; exact E].
  - intros p Hp. apply in_app_or in Hp. destruct Hp as [Hp|[<-|[]]].
    + pose proof (q_open s Q p Hp) as O. destruct p as [a'| |a'|]; cbn in *; auto.
      * congruence.
      * destruct O as [O1 O2]. split; [apply memz_app_l; exact O1 | exact O2].
    + cbn. split; [apply memz_app_r | exact Pr].
Qed.

Lemma macro_adv s a : QInv s -> QInv (fst (p_run s (macro (Adv a)))).
Proof.
  intros Q. rewrite macro_run. cbn [p_step].
  destruct (memz a (p_present s)) eqn:Pr; cbn [fst].
  2:{ rewrite (settle2_quiet s (q_to s Q) (q_from s Q)). exact Q. }
  destruct (p_pend_le s) as [a'|] eqn:P; cbn [fst].
  2:{ rewrite (settle2_quiet s (q_to s Q) (q_from s Q)). exact Q. }
  destruct (Z.eqb a a') eqn:Ea; cbn [fst].
  2:{ rewrite (settle2_quiet s (q_to s Q) (q_from s Q)). exact Q. }
  apply Z.eqb_eq in Ea. subst a'.
  destruct (conn_to a LE (p_conns s)) as [k0|] eqn:C; cbn [fst].
  { rewrite (settle2_quiet s (q_to s Q) (q_from s Q)). exact Q. }
  unfold settle2. cbn [p_step p_to]. rewrite (q_to s Q). cbn [app p_present]. rewrite Pr. cbn [fst].
  cbn [p_step p_from p_pend_le p_conns p_open p_to p_present p_peer_conn p_peer_req].
  rewrite (q_from s Q). cbn [fst].
  constructor; cbn; try apply Q; try reflexivity.
  - apply close_NoDup. apply Q.
  - intros p Hp. pose proof (q_open s Q p (close_In _ _ _ Hp)) as O.
    destruct p as [a'| |a'|]; cbn in *; auto.
    exfalso. rewrite P in O. inversion O; subst. exact (close_not_In _ _ (q_nodup s Q) Hp).
  - intros k Hk L. apply in_app_or in Hk. destruct Hk as [Hk|[<-|[]]].
    + destruct (q_le s Q k Hk L) as [A B]. split; [apply memz_app_l; exact A | exact B].
    + cbn. split; [apply memz_app_r | exact Pr].
  - intros k1 k2 H1 H2 L1 L2 Ead.
    apply in_app_or in H1. apply in_app_or in H2.
    destruct H1 as [H1|[<-|[]]], H2 as [H2|[<-|[]]]; auto.
    + apply (q_uniq s Q); auto.
    + exfalso. cbn in Ead. exact (conn_to_LE_none _ _ C k1 H1 L1 Ead).
    + exfalso. cbn in Ead. exact (conn_to_LE_none _ _ C k2 H2 L2 (eq_sym Ead)).
Qed.

Lemma macro_peer_accept s a : QInv s -> QInv (fst (p_run s (macro (PeerAccept a)))).
Proof.
  intros Q. rewrite macro_run. cbn [p_step].
  destruct (memz a (p_peer_req s) && memz a (p_present s)) eqn:G; cbn [fst].
  2:{ rewrite (settle2_quiet s (q_to s Q) (q_from s Q)). exact Q. }
  unfold settle2. cbn [p_step p_to]. rewrite (q_to s Q). cbn [fst].
  cbn [p_step p_from p_pend_le p_conns p_open p_to p_present p_peer_conn p_peer_req].
  rewrite (q_from s Q). cbn [app fst].
  constructor; cbn; try apply Q; try reflexivity.
  - apply close_NoDup. apply Q.
  - intros p Hp. pose proof (q_open s Q p (close_In _ _ _ Hp)) as O.
    destruct p as [a'| |a'|]; cbn in *; auto.
    destruct O as [O1 O2]. split; [|exact O2]. apply memz_remz; [exact O1|].
    intros ->. exact (close_not_In _ _ (q_nodup s Q) Hp).
  - intros k Hk L. apply in_app_or in Hk. destruct Hk as [Hk|[<-|[]]]; [exact (q_le s Q k Hk L)|].
    cbn in L. discriminate.
  - intros k1 k2 H1 H2 L1 L2 Ead.
    apply in_app_or in H1. apply in_app_or in H2.
    destruct H1 as [H1|[<-|[]]], H2 as [H2|[<-|[]]]; auto; try (cbn in L1; discriminate); try (cbn in L2; discriminate).
    apply (q_uniq s Q); auto.
Qed.

Lemma macro_peer_disconnect s a : QInv s -> QInv (fst (p_run s (macro (PeerDisconnect a)))).
Proof.
  intros Q. rewrite macro_run. cbn [p_step].
  destruct (memz a (p_peer_conn s) && memz a (p_present s)) eqn:G; cbn [fst].
  2:{ rewrite (settle2_quiet s (q_to s Q) (q_from s Q)). exact Q. }
  unfold settle2. cbn [p_step p_to]. rewrite (q_to s Q). cbn [fst].
  cbn [p_step p_from p_pend_le p_conns p_open p_to p_present p_peer_conn p_peer_req].
  rewrite (q_from s Q). cbn [app].
  destruct (conn_to a LE (p_conns s)) as [k|] eqn:C; cbn [fst].
  - destruct (conn_to_LE _ _ _ C) as [Hin [Ha Hle]].
    constructor; cbn; try apply Q; try reflexivity.
    + apply drop_handle_NoDup. apply Q.
    + intros p Hp. pose proof (q_open s Q p (drop_handle_In _ _ _ Hp)) as O. destruct p; cbn in *; auto.
    + intros k2 H2 L2. destruct (rem_conn_In _ _ _ H2) as [H2in H2h].
      destruct (q_le s Q k2 H2in L2) as [A B]. split; [|exact B].
      apply memz_remz; [exact A|]. intros E. assert (k2 = k) by (apply (q_uniq s Q); auto; congruence).
      subst. congruence.
    + intros k1 k2 H1 H2. apply (q_uniq s Q); [apply (rem_conn_In _ _ _ H1) | apply (rem_conn_In _ _ _ H2)].
  - constructor; cbn; try apply Q; try reflexivity.
    intros k2 H2 L2. destruct (q_le s Q k2 H2 L2) as [A B]. split; [|exact B].
    apply memz_remz; [exact A|]. exact (conn_to_LE_none _ _ C k2 H2 L2).
Qed.

Lemma macro_inv s x : QInv s -> ext_ok s x = true -> QInv (fst (p_run s (macro x))).
Proof.
  intros Q E. destruct x as [c|a| | |a|a|a|a].
  - destruct c as [e a|  |h|h|h|a|a].
    + apply macro_le_create; exact Q.
    + apply macro_le_cancel; exact Q.
    + apply macro_disconnect; exact Q.
    + apply macro_read_feat; exact Q.
    + apply macro_encrypt; exact Q.
    + apply macro_classic_create; exact Q.
    + apply macro_remote_name; exact Q.
  - apply macro_adv; exact Q.
  - rewrite macro_run, (quiet_to_peer s (q_to s Q)). cbn [fst].
    rewrite (settle2_quiet s (q_to s Q) (q_from s Q)). exact Q.
  - rewrite macro_run, (quiet_to_cut s (q_from s Q)). cbn [fst].
    rewrite (settle2_quiet s (q_to s Q) (q_from s Q)). exact Q.
  - apply macro_peer_accept; exact Q.
  - apply macro_peer_disconnect; exact Q.
  - (* PeerAdvOff on a quiet link: no ConnectInd in flight, nothing changes *)
    rewrite macro_run. cbn [p_step]. rewrite (q_to s Q). cbn [map fst].
    assert (mkP (p_pend_le s) (p_conns s) (p_open s) [] (p_from s) (p_present s) (p_peer_conn s) (p_peer_req s) = s) as ->.
    { pose proof (q_to s Q) as E0. destruct s; cbn in *. subst. reflexivity. }
    rewrite (settle2_quiet s (q_to s Q) (q_from s Q)). exact Q.
  - discriminate.
Qed.

Lemma p_run_app a : forall b s, fst (p_run s (a ++ b)) = fst (p_run (fst (p_run s a)) b).
Proof.
  induction a as [|x a IH]; intros b s; cbn [app p_run]; [reflexivity|].
  destruct (p_step s x) as [s1 o1]. specialize (IH b s1).
  destruct (p_run s1 (a ++ b)) as [s2 o2]. destruct (p_run s1 a) as [s3 o3]. cbn [fst] in *.
  destruct (p_run s3 b) as [s4 o4]. cbn [fst] in *. exact IH.
Qed.

Lemma settled_inv xs : forall s, QInv s -> wf_ext s xs = true -> QInv (fst (p_run s (settled xs))).
Proof.
  induction xs as [|x xs IH]; intros s Q W; cbn [settled flat_map]; [exact Q|].
  cbn [wf_ext] in W. apply andb_true_iff in W. destruct W as [W1 W2].
  fold (settled xs). rewrite p_run_app. apply IH; [apply macro_inv; assumption | exact W2].
Qed.

Lemma qinv_open_ended s : QInv s -> p_quiet s = true /\ forallb (open_ended s) (p_open s) = true.
Proof.
  intros Q. split.
  - unfold p_quiet. now rewrite (q_to s Q), (q_from s Q).
  - apply forallb_forall. intros p Hp. pose proof (q_open s Q p Hp) as O.
    destruct p as [a| |a|]; cbn in *; try contradiction.
    + rewrite O. apply Z.eqb_refl.
    + apply O.
Qed.

(* pending_has_cause, in its settled form: after every sequence of commands and peer actions,
   each followed by the delivery of the PDUs it caused, the link is quiet and every procedure
   still open is either an LE connection creation waiting for the peer's advertisement (the
   controller still holds it as pending: it can be cancelled) or a classic connection creation
   waiting for the decision of the peer's host *)
Theorem pending_has_cause present xs :
  wf_ext (p_init present) xs = true ->
  let s := fst (p_run (p_init present) (settled xs)) in
  p_quiet s = true /\ forallb (open_ended s) (p_open s) = true.
Proof. intros W. apply qinv_open_ended. apply settled_inv; [apply qinv_init | exact W]. Qed.

(* the hypotheses are needed *)
(* D03i: the peer leaves the link without terminating the connection; LE Read Remote Features
   is accepted and never concluded *)
Lemma peer_gone_refuted :
  let s := fst (p_run (p_init [2]) (settled [Cmd (LeCreate false 2); Adv 2; Remove 2; Cmd (ReadFeat 1)])) in
  p_quiet s = true /\ p_open s = [PFeat 1] /\ forallb (open_ended s) (p_open s) = false.
Proof. vm_compute. auto. Qed.

(* D03k (repaired): a second Create Connection for a peer whose connection is being created, or
   exists, is refused with Connection Already Exists; the first one is concluded normally *)
Lemma double_classic_create_refused :
  let '(s, o) := p_run (p_init [3]) (settled [Cmd (ClassicCreate 3); Cmd (ClassicCreate 3); PeerAccept 3;
                                              Cmd (ClassicCreate 3)]) in
  map out_code o = [[0; 1029; 0]; [0; 1029; 11]; [6; 0; 1; 3]; [0; 1029; 11]] /\ p_open s = [].
Proof. vm_compute. auto. Qed.

(* D03d, the unrepaired cancel: a model of the old handler (Command Complete only, the pending
   connection stays) leaves the creation open although its cancellation was confirmed *)
Lemma cancel_concludes :
  let '(s, o) := p_run (p_init [2]) (settled [Cmd (LeCreate false 9); Cmd LeCancel; Cmd (LeCreate true 2); Adv 2]) in
  map out_code o = [[0; 8205; 0]; [1; 8206; 0]; [2; 2; 0; 9]; [0; 8259; 0]; [2; 0; 1; 2]] /\ p_open s = [].
Proof. vm_compute. auto. Qed.

(* ------------------------------------------------------------------ arbitrary interleavings, bounded *)
Lemma p_run_cons s x xs : fst (p_run s (x :: xs)) = fst (p_run (fst (p_step s x)) xs).
Proof.
  cbn [p_run]. destruct (p_step s x) as [s1 o1]. cbn [fst]. destruct (p_run s1 xs) as [s2 o2]. reflexivity.
Qed.

(* the complete evaluation [all_ok d s] covers every schedule of at most d steps over the alphabet *)
Lemma all_ok_spec d : forall s, all_ok d s = true ->
  forall xs, (length xs <= d)%nat -> Forall (fun o => In o alphabet) xs ->
  concludes (fst (p_run s xs)) = true.
Proof.
  induction d as [|d IH]; intros s A xs L F.
  - destruct xs; [|cbn in L; lia]. cbn [p_run fst]. cbn [all_ok] in A.
    apply andb_true_iff in A. apply A.
  - cbn [all_ok] in A. apply andb_true_iff in A. destruct A as [A1 A2].
    destruct xs as [|x xs]; [exact A1|].
    rewrite p_run_cons. inversion F as [|? ? Hx F']; subst.
    rewrite forallb_forall in A2. apply IH; [apply A2; exact Hx | cbn in L; lia | exact F'].
Qed.

(* ------------------------------------------------------------------ the pending slot
   pending_le_connection is given up only on a path that emits (or has queued the callback that
   emits) the LE Connection Complete for it: by create_le_connection when the connection is made,
   by LE Create Connection Cancel through its deferred event.  In particular the early return of
   create_le_connection ("Connection for <peer> already exists?") keeps the request pending. *)
Lemma pend_cleared_emits s o s' out a :
  p_step s o = (s', out) -> p_pend_le s = Some a -> p_pend_le s' <> Some a ->
  (exists st h, In (LeConn st h a) out) \/ In (a, DeferredConnFail) (p_from s').
Proof.
  intros E P N. destruct o as [c|b| | |b|b|b|b]; cbn [p_step] in E.
  - destruct c as [e b| |h|h|h|b|b]; cbn [step_cmd] in E; rewrite ?P in E.
    + inversion E; subst. congruence.
    + inversion E; subst. right. cbn. apply in_or_app. right. cbn. auto.
    + destruct (find_any h (p_conns s)); inversion E; subst; cbn in N; congruence.
    + destruct (find_conn h LE (p_conns s)); inversion E; subst; cbn in N; congruence.
    + destruct (find_conn h LE (p_conns s)); inversion E; subst; cbn in N; congruence.
    + inversion E; subst. congruence.
    + destruct (memz b (p_present s)); inversion E; subst; cbn in N; congruence.
  - destruct (memz b (p_present s)); [|inversion E; subst; congruence].
    rewrite P in E. destruct (Z.eqb b a) eqn:Eb; [|inversion E; subst; congruence].
    apply Z.eqb_eq in Eb. subst b.
    destruct (conn_to a LE (p_conns s)); inversion E; subst; [congruence|].
    left. eexists _, _. cbn. eauto.
  - destruct (p_to s) as [|[b r] rest]; [inversion E; subst; congruence|].
    destruct (memz b (p_present s)); [|inversion E; subst; cbn in N; congruence].
    destruct r; try (inversion E; subst; cbn in N; congruence).
    destruct (memz b (p_peer_conn s)); inversion E; subst; cbn in N; congruence.
  - destruct (p_from s) as [|[b r] rest]; [inversion E; subst; congruence|].
    destruct r; try (inversion E; subst; cbn in N; congruence);
      destruct (conn_to b LE (p_conns s)); inversion E; subst; cbn in N; congruence.
  - destruct (memz b (p_peer_req s) && memz b (p_present s)); inversion E; subst; cbn in N; congruence.
  - destruct (memz b (p_peer_conn s) && memz b (p_present s)); inversion E; subst; cbn in N; congruence.
  - inversion E; subst; cbn in N; congruence.
  - inversion E; subst; cbn in N; congruence.
Qed.

(* the witness of seeded change C03-g: a second LE Create Connection towards a peer that is still
   connected stays pending across that peer's advertisement, and is concluded by exactly one LE
   Connection Complete: after the old link is gone and the peer advertises again, or by a cancel *)
Lemma reconnect_while_connected :
  groups_obs [2; 3] [[Cmd (LeCreate false 2)]; [Adv 2]; [Cmd (LeCreate true 2)]; [Adv 2]; [Cmd (Disconnect 1)];
                     [Adv 2]]
  = ([[0; 8205; 0]; [2; 0; 1; 2]; [0; 8259; 0]; [0; 1030; 0]; [3; 1]; [2; 0; 1; 2]], [], true, true) /\
  groups_obs [2; 3] [[Cmd (LeCreate true 2)]; [Adv 2]; [Cmd (LeCreate false 2)]; [Adv 2]; [Cmd LeCancel]; [Cmd LeCancel]]
  = ([[0; 8259; 0]; [2; 0; 1; 2]; [0; 8205; 0]; [1; 8206; 0]; [2; 2; 0; 2]; [1; 8206; 12]], [], true, true).
Proof. vm_compute. split; reflexivity. Qed.
