(* Proofs about Model/HfpSlc.v: the service-level-connection initialisation completes
   for every pair of feature masks, indicator / codec lists and call-hold sets, and
   leaves both ends holding the same negotiated values. *)
From Coq Require Import ZArith List Bool Lia.
From BV Require Import Gen.C20Consts Model.HfpSlc.
Import ListNotations.
Open Scope Z_scope.

(* ---------- value sets: (min-max) / (v,...) rendering and its expansion ---------- *)
Lemma list_min_le d l : list_min d l <= d /\ forall x, In x l -> list_min d l <= x.
Proof.
  revert d. induction l as [|y l IH]; intros d; cbn; [split; [lia|contradiction]|].
  destruct (IH (Z.min d y)) as [H1 H2]. split; [lia|].
  intros x [->|Hx]; [lia|auto].
Qed.

Lemma list_max_ge d l : d <= list_max d l /\ forall x, In x l -> x <= list_max d l.
Proof.
  revert d. induction l as [|y l IH]; intros d; cbn; [split; [lia|contradiction]|].
  destruct (IH (Z.max d y)) as [H1 H2]. split; [lia|].
  intros x [->|Hx]; [lia|auto].
Qed.

Lemma zrange_In lo n v : In v (zrange lo n) <-> lo <= v < lo + Z.of_nat n.
Proof.
  revert lo. induction n as [|n IH]; intros lo; cbn [zrange In].
  - lia.
  - rewrite IH. lia.
Qed.

Lemma zrange_length lo n : length (zrange lo n) = n.
Proof. revert lo. induction n; intros; cbn; auto. Qed.

Lemma expand_singles vs : expand_values (map VSingle vs) = vs.
Proof. induction vs; cbn; [reflexivity|]. now f_equal. Qed.

(* the HF ends up with exactly the AG's value set *)
Lemma render_expand vs :
  NoDup vs -> forall v, In v (expand_values (render_values vs)) <-> In v vs.
Proof.
  intros Hnd v. destruct vs as [|x r]; [reflexivity|]. unfold render_values.
  set (lo := list_min x r). set (hi := list_max x r).
  destruct (Z.of_nat (length (x :: r)) =? hi - lo + 1) eqn:E.
  - apply Z.eqb_eq in E. cbn [expand_values flat_map expand_item]. rewrite app_nil_r.
    assert (Hin : forall y, In y (x :: r) -> lo <= y <= hi).
    { intros y [<-|Hy].
      - pose proof (list_min_le x r) as [A _]. pose proof (list_max_ge x r) as [B _].
        unfold lo, hi. lia.
      - pose proof (list_min_le x r) as [_ A]. pose proof (list_max_ge x r) as [_ B].
        unfold lo, hi. split; auto. }
    split.
    + intros Hv.
      assert (Hincl : incl (zrange lo (Z.to_nat (hi - lo + 1))) (x :: r)).
      { apply NoDup_length_incl; [exact Hnd| |].
        - rewrite zrange_length. lia.
        - intros y Hy. apply zrange_In. specialize (Hin y Hy). lia. }
      apply Hincl. exact Hv.
    + intros Hv. apply zrange_In. specialize (Hin v Hv). lia.
  - rewrite expand_singles. reflexivity.
Qed.

(* ---------- well-formed configurations ---------- *)
Fixpoint nodup_b (l : list Z) : bool :=
  match l with [] => true | x :: r => negb (zmem x r) && nodup_b r end.

Lemma zmem_In x l : zmem x l = true <-> In x l.
Proof.
  unfold zmem. rewrite existsb_exists. split.
  - intros (y & Hy & E). apply Z.eqb_eq in E. now subst.
  - intros H. exists x. split; [exact H|apply Z.eqb_refl].
Qed.

Lemma nodup_b_ok l : nodup_b l = true -> NoDup l.
Proof.
  induction l as [|x r IH]; cbn; intros H; [constructor|].
  apply andb_prop in H as [H1 H2]. constructor; [|auto].
  intros Hi. apply zmem_In in Hi. rewrite Hi in H1. discriminate.
Qed.

(* the AG has at least one indicator; every indicator's value set is a non-empty set *)
Definition wf_ag_ind_b (i : ag_ind) : bool :=
  match ai_values i with [] => false | _ => nodup_b (ai_values i) end.

Definition wf_cfg_b (C : ag_cfg) : bool :=
  match ac_indicators C with [] => false | l => forallb wf_ag_ind_b l end.

(* ---------- AT+CIND=? / AT+CIND? ---------- *)
Fixpoint expected_inds (k : Z) (inds : list ag_ind) : list hf_ag_ind :=
  match inds with
  | [] => []
  | i :: r => mkHfAgInd (ai_name i) (expand_values (render_values (ai_values i))) (ai_status i) k
              :: expected_inds (k + 1) r
  end.

Lemma set_status_index inds : forall k,
  set_status (index_from k (map (fun i => (ai_name i, render_values (ai_values i))) inds))
             (map ai_status inds) = Some (expected_inds k inds).
Proof.
  induction inds as [|i r IH]; intros k; cbn; [reflexivity|]. rewrite IH. reflexivity.
Qed.

(* ---------- AT+BIND? ---------- *)
Definition bind_states (l : list (Z * bool)) : list rsp :=
  map (fun ie : Z * bool => R_BIND_STATE (fst ie) (if snd ie then 1 else 0)) l.

Lemma apply_states_some l : forall ind, exists ind', apply_states (bind_states l) ind = Some ind'.
Proof. induction l as [|[i e] r IH]; intros ind; cbn; [eauto|apply IH]. Qed.

(* one +BIND: i,e line sets the enabled flag of indicator i and nothing else *)
Definition set_enabled (ind : Z) (e : bool) (l : list (Z * bool * bool)) :=
  map (fun x : Z * bool * bool => let '(i, s, en) := x in if i =? ind then (i, s, e) else x) l.

Lemma apply_states_step i e r ind :
  apply_states (bind_states ((i, e) :: r)) ind = apply_states (bind_states r) (set_enabled i e ind).
Proof.
  cbn. f_equal. unfold set_enabled. apply map_ext. intros [[j s] en].
  destruct (j =? i); [|reflexivity]. destruct e; reflexivity.
Qed.

(* after all lines: an indicator listed (with flag f i) is enabled iff f i; one that is
   not listed keeps its flag *)
Lemma apply_states_spec (f : Z -> bool) : forall (L : list Z) ind ind',
  apply_states (bind_states (map (fun i => (i, f i)) L)) ind = Some ind' ->
  map (fun x : Z * bool * bool => fst (fst x)) ind' = map (fun x : Z * bool * bool => fst (fst x)) ind /\
  forall i s e, In (i, s, e) ind' ->
    exists e0, In (i, s, e0) ind /\ e = if zmem i L then f i else e0.
Proof.
  induction L as [|j L IH]; intros ind ind' H.
  - cbn in H. inversion H; subst. split; [reflexivity|]. intros i s e Hi. exists e. auto.
  - cbn [map] in H. rewrite apply_states_step in H. destruct (IH _ _ H) as [Hk Hspec].
    split.
    + rewrite Hk. unfold set_enabled. rewrite map_map. apply map_ext.
      intros [[a b] c]. destruct (a =? j); reflexivity.
    + intros i s e Hi. destruct (Hspec i s e Hi) as (e0 & Hin & He).
      unfold set_enabled in Hin. apply in_map_iff in Hin as ([[a b] c] & Hx & Hin).
      destruct (a =? j) eqn:Ea.
      * inversion Hx; subst i s e0. apply Z.eqb_eq in Ea. subst a.
        exists c. split; [exact Hin|]. unfold zmem in *. cbn [existsb]. rewrite Z.eqb_refl. cbn [orb].
        destruct (existsb (Z.eqb j) L); exact He.
      * inversion Hx; subst a b c. exists e0. split; [exact Hin|].
        unfold zmem in *. cbn [existsb]. rewrite Ea. cbn [orb]. exact He.
Qed.

Lemma mark_supported_spec ag_list l i s e :
  In (i, s, e) (mark_supported ag_list l) ->
  exists s0, In (i, s0, e) l /\ s = s0 || zmem i ag_list.
Proof.
  unfold mark_supported. intros H. apply in_map_iff in H as ([[a b] c] & Hx & Hin).
  inversion Hx; subst. eauto.
Qed.

Lemma parse_render l : parse_list (render_list l) = l.
Proof.
  destruct l as [|x r]; [reflexivity|]. unfold render_list.
  induction (x :: r) as [|y t IH]; cbn; [reflexivity|]. now rewrite IH.
Qed.

(* ---------- the procedure ---------- *)
Arguments has : simpl never.

Definition both_cn (H : hf_cfg) (C : ag_cfg) :=
  has (hc_features H) hf_codec_negotiation && has (ac_features C) ag_codec_negotiation.
Definition both_3w (H : hf_cfg) (C : ag_cfg) :=
  has (hc_features H) hf_three_way_calling && has (ac_features C) ag_three_way_calling.
Definition both_hi (H : hf_cfg) (C : ag_cfg) :=
  has (hc_features H) hf_hf_indicators && has (ac_features C) ag_hf_indicators.

(* what each side holds once the procedure is over *)
Definition expected_hf (H : hf_cfg) (C : ag_cfg) : hf_state :=
  mkHf (ac_features C)
       (expected_inds 0 (ac_indicators C))
       (if both_3w H C then ac_chld C else [])
       (if both_hi H C
        then map (fun i => (i, zmem i (ac_hf_indicators C),
                            zmem i (ac_hf_indicators C) && negb (zmem i (ac_disabled C)))) (hc_indicators H)
        else map (fun i => (i, false, false)) (hc_indicators H)).

Definition expected_ag_ind (H : hf_cfg) (C : ag_cfg) : list (Z * bool) :=
  if both_hi H C
  then map (fun i => (i, negb (zmem i (ac_disabled C))))
           (filter (fun i => zmem i (hc_indicators H)) (ac_hf_indicators C))
  else [].

Definition expected_sent (H : hf_cfg) (C : ag_cfg) : list Z :=
  (if both_cn H C then [0; 1] else [0]) ++ [2; 3; 4] ++ (if both_3w H C then [5] else [])
  ++ (if both_hi H C then [6; 7; 8] else []).

(* the enabled flags of the HF after AT+BIND? *)
Lemma hf_ind_final (H : hf_cfg) (C : ag_cfg) ind2 :
  apply_states
    (bind_states (map (fun i => (i, negb (zmem i (ac_disabled C))))
                      (filter (fun i => zmem i (hc_indicators H)) (ac_hf_indicators C))))
    (mark_supported (ac_hf_indicators C) (map (fun i => (i, false, false)) (hc_indicators H))) = Some ind2 ->
  forall i s e, In (i, s, e) ind2 ->
    In i (hc_indicators H) /\
    s = zmem i (ac_hf_indicators C) /\
    e = zmem i (ac_hf_indicators C) && negb (zmem i (ac_disabled C)).
Proof.
  intros Ha i s e Hi.
  destruct (apply_states_spec (fun i => negb (zmem i (ac_disabled C))) _ _ _ Ha) as [_ Hspec].
  destruct (Hspec i s e Hi) as (e0 & Hin & He).
  apply mark_supported_spec in Hin as (s0 & Hin & Hs).
  apply in_map_iff in Hin as (j & Hj & Hjin). inversion Hj; subst j s0 e0.
  split; [exact Hjin|]. split; [rewrite Hs; reflexivity|].
  assert (Hm : zmem i (filter (fun i0 => zmem i0 (hc_indicators H)) (ac_hf_indicators C))
               = zmem i (ac_hf_indicators C)).
  { destruct (zmem i (ac_hf_indicators C)) eqn:E.
    - apply zmem_In. apply filter_In. split; [apply zmem_In; exact E|apply zmem_In; exact Hjin].
    - destruct (zmem i (filter _ _)) eqn:E2; [|reflexivity].
      apply zmem_In, filter_In in E2 as [E2 _]. apply zmem_In in E2. congruence. }
  rewrite Hm in He. rewrite He. destruct (zmem i (ac_hf_indicators C)); reflexivity.
Qed.

(* slc_completes + the exact final states *)
Theorem slc_result (H : hf_cfg) (C : ag_cfg) :
  wf_cfg_b C = true ->
  exists h a,
    slc H C = Done h a (expected_sent H C) /\
    hf_ag_features h = ac_features C /\
    hf_ag_indicators h = expected_inds 0 (ac_indicators C) /\
    hf_chld h = (if both_3w H C then ac_chld C else []) /\
    map (fun x : Z * bool * bool => fst (fst x)) (hf_ind h) = hc_indicators H /\
    (forall i s e, In (i, s, e) (hf_ind h) ->
       if both_hi H C
       then s = zmem i (ac_hf_indicators C) /\
            e = zmem i (ac_hf_indicators C) && negb (zmem i (ac_disabled C))
       else s = false /\ e = false) /\
    ag_hf_features a = hc_features H /\
    ag_codecs a = (if both_cn H C then hc_codecs H else []) /\
    ag_hf_ind a = expected_ag_ind H C /\
    ag_report a = true /\
    ag_slc_events a = 1.
Proof.
  intros Hwf. unfold wf_cfg_b in Hwf.
  destruct (ac_indicators C) as [|i0 irest] eqn:Einds; [discriminate|].
  unfold slc, execute, both_cn, both_3w, both_hi, expected_sent, expected_ag_ind,
    both_cn, both_3w, both_hi.
  cbn [ag_handle].
  destruct (has (hc_features H) hf_codec_negotiation) eqn:Hcn;
  destruct (has (ac_features C) ag_codec_negotiation) eqn:Acn;
  destruct (has (hc_features H) hf_three_way_calling) eqn:H3w;
  destruct (has (ac_features C) ag_three_way_calling) eqn:A3w;
  destruct (has (hc_features H) hf_hf_indicators) eqn:Hhi;
  destruct (has (ac_features C) ag_hf_indicators) eqn:Ahi;
  cbn [andb orb negb ag_handle ag_init check_remained
       ag_hf_features ag_codecs ag_hf_ind ag_report ag_rem_hf_ind ag_rem_three_way ag_slc_events];
  rewrite ?Hcn, ?Acn, ?H3w, ?A3w, ?Hhi, ?Ahi, ?Einds;
  cbn [andb orb negb ag_handle ag_init check_remained
       ag_hf_features ag_codecs ag_hf_ind ag_report ag_rem_hf_ind ag_rem_three_way ag_slc_events];
  rewrite ?Hcn, ?Acn, ?H3w, ?A3w, ?Hhi, ?Ahi, ?Einds;
  rewrite <- ?Einds;
  try (change (map (fun i => (ai_name i, render_values (ai_values i))) (ac_indicators C))
         with (map (fun i => (ai_name i, render_values (ai_values i))) (ac_indicators C)));
  rewrite ?(set_status_index (ac_indicators C) 0).
  all: cbn [andb orb negb ag_handle check_remained
       ag_hf_features ag_codecs ag_hf_ind ag_report ag_rem_hf_ind ag_rem_three_way ag_slc_events];
    rewrite ?Hcn, ?Acn, ?H3w, ?A3w, ?Hhi, ?Ahi, ?parse_render.
  all: try (
    (* the branches without the HF-indicator exchange *)
    eexists; eexists; split; [reflexivity|];
    cbn [hf_ag_features hf_ag_indicators hf_chld hf_ind ag_hf_features ag_codecs ag_hf_ind ag_report ag_slc_events];
    repeat split; try reflexivity;
    try (rewrite map_map; cbn; apply map_id);
    try (match goal with Hx : In _ (map _ _) |- _ =>
           apply in_map_iff in Hx as (j & Hj & _); inversion Hj; reflexivity end); fail).
  (* the branches with AT+BIND= / AT+BIND=? / AT+BIND? *)
  all: destruct (apply_states_some
           (map (fun i => (i, negb (zmem i (ac_disabled C))))
                (filter (fun i => zmem i (hc_indicators H)) (ac_hf_indicators C)))
           (mark_supported (ac_hf_indicators C) (map (fun i => (i, false, false)) (hc_indicators H))))
         as [ind2 Hind2];
       pose proof Hind2 as Hind2'; unfold bind_states in Hind2'; rewrite Hind2'.
  all: eexists; eexists; split; [reflexivity|];
    cbn [hf_ag_features hf_ag_indicators hf_chld hf_ind ag_hf_features ag_codecs ag_hf_ind ag_report ag_slc_events];
    repeat split; try reflexivity.
  all: try (match goal with Hq : apply_states (bind_states _) _ = Some ?l |- _ =>
              destruct (apply_states_spec (fun i => negb (zmem i (ac_disabled C))) _ _ _ Hq) as [Hk _];
              rewrite Hk; unfold mark_supported; rewrite !map_map; cbn; apply map_id end).
  all: try (match goal with Hx : In (?i, ?s, ?e) ?l, Hq : apply_states (bind_states _) _ = Some ?l |- _ =>
              destruct (hf_ind_final H C l Hq i s e Hx) as (_ & Hs & He); assumption end).
Qed.

(* the AG indicators the HF holds are the AG's own: same names, same status, the same
   value SETS, and the index is the position in the AG's list *)
Definition same_indicator (h : hf_ag_ind) (a : ag_ind) : Prop :=
  hi_name h = ai_name a /\ hi_status h = ai_status a /\
  forall v, In v (hi_values h) <-> In v (ai_values a).

Lemma expected_inds_spec inds : forall k,
  forallb wf_ag_ind_b inds = true ->
  Forall2 same_indicator (expected_inds k inds) inds /\
  map hi_index (expected_inds k inds) = zrange k (length inds).
Proof.
  induction inds as [|i r IH]; intros k Hwf; cbn; [split; [constructor|reflexivity]|].
  cbn in Hwf. apply andb_prop in Hwf as [Hi Hr]. destruct (IH (k + 1) Hr) as [IH1 IH2].
  split; [|now rewrite IH2].
  constructor; [|exact IH1]. unfold same_indicator. cbn. repeat split; try reflexivity.
  - apply render_expand. unfold wf_ag_ind_b in Hi. destruct (ai_values i); [discriminate|].
    apply nodup_b_ok. exact Hi.
  - apply render_expand. unfold wf_ag_ind_b in Hi. destruct (ai_values i); [discriminate|].
    apply nodup_b_ok. exact Hi.
Qed.

Lemma wf_cfg_inds C : wf_cfg_b C = true -> forallb wf_ag_ind_b (ac_indicators C) = true.
Proof. unfold wf_cfg_b. destruct (ac_indicators C); [discriminate|auto]. Qed.

(* ---------- after the SLC ---------- *)
Lemma expected_inds_status inds : forall k, map hi_status (expected_inds k inds) = map ai_status inds.
Proof. induction inds as [|i r IH]; intros k; cbn; [reflexivity|]. now rewrite IH. Qed.

(* whatever the AG reports with +CIEV and whatever codec it proposes with +BCS, in any
   order and number: the HF's copy of the AG indicator values stays equal to the AG's own,
   and both ends hold the same active codec *)
Lemma live_agree (H : hf_cfg) (C : ag_cfg) :
  wf_cfg_b C = true ->
  forall ops, exists s,
    live_run H C ops = Some s /\
    lv_hf_status s = lv_ag_status s /\ lv_hf_codec s = lv_ag_codec s.
Proof.
  intros Hwf ops. unfold live_run, live_init.
  destruct (slc_result H C Hwf) as (h & a & Hs & _ & Hi & _). rewrite Hs.
  eexists. split; [reflexivity|].
  assert (Hinit : lv_hf_status (mkLive (map ai_status (ac_indicators C)) (map hi_status (hf_ag_indicators h)) 1 1 (ag_codecs a))
                  = lv_ag_status (mkLive (map ai_status (ac_indicators C)) (map hi_status (hf_ag_indicators h)) 1 1 (ag_codecs a))
                  /\ lv_hf_codec (mkLive (map ai_status (ac_indicators C)) (map hi_status (hf_ag_indicators h)) 1 1 (ag_codecs a))
                  = lv_ag_codec (mkLive (map ai_status (ac_indicators C)) (map hi_status (hf_ag_indicators h)) 1 1 (ag_codecs a))).
  { cbn. rewrite Hi, expected_inds_status. split; reflexivity. }
  revert Hinit. generalize (mkLive (map ai_status (ac_indicators C)) (map hi_status (hf_ag_indicators h)) 1 1 (ag_codecs a)).
  induction ops as [|o ops IH]; intros s [E1 E2]; cbn [fold_left]; [split; assumption|].
  apply IH. destruct o as [name value|codec]; cbn [live_step].
  - destruct (first_index name (ac_indicators C) 0) as [k|]; [|split; assumption].
    cbn. replace (Z.to_nat (Z.of_nat k + 1 - 1)) with k by lia. rewrite E1. split; [reflexivity|exact E2].
  - destruct (zmem codec (hc_codecs H)); cbn; split; auto.
Qed.
