(* C14 - end-to-end statements for the built-in back end: ah, c1, s1 computed with the
   built-in e equal the Core Vol 3 Part H formulas over FIPS-197 AES-128 (e_spec), for all
   arguments of the Security Manager sizes. *)
From Coq Require Import ZArith List Bool Lia ZifyBool.
From BV Require Import Gen.C14Tables Model.CryptoBytes Model.Aes Model.Cmac Model.SmToolbox Model.CryptoBuiltin.
From BV Require Import Proofs.CryptoBytes Proofs.Aes Proofs.AesSpec Proofs.SmToolbox.
Import ListNotations.
Open Scope Z_scope.

Lemma log2_byte : forall a, 0 <= a < 256 -> Z.log2 a < 8.
Proof.
  intros a Ha. destruct (Z.eq_dec a 0) as [->|Hn]; [reflexivity|].
  apply (proj1 (Z.log2_lt_pow2 a 8 ltac:(lia))). change (2 ^ 8) with 256. lia.
Qed.

Lemma lxor_byte : forall a b, 0 <= a < 256 -> 0 <= b < 256 -> 0 <= Z.lxor a b < 256.
Proof.
  intros a b Ha Hb.
  assert (H0 : 0 <= Z.lxor a b) by (apply Z.lxor_nonneg; lia).
  split; [assumption|].
  destruct (Z.eq_dec (Z.lxor a b) 0) as [E|E]; [lia|].
  change 256 with (2 ^ 8). apply (proj2 (Z.log2_lt_pow2 (Z.lxor a b) 8 ltac:(lia))).
  pose proof (Z.log2_lxor a b ltac:(lia) ltac:(lia)) as H.
  pose proof (log2_byte a Ha). pose proof (log2_byte b Hb). lia.
Qed.

Lemma xor_zip_ok : forall a b, bytes_ok a = true -> bytes_ok b = true -> bytes_ok (xor_zip a b) = true.
Proof.
  induction a as [|x a IH]; intros [|y b] Ha Hb; try reflexivity.
  rewrite bytes_ok_cons in Ha, Hb. apply andb_true_iff in Ha as [Hx Ha]. apply andb_true_iff in Hb as [Hy Hb].
  cbn [xor_zip]. rewrite bytes_ok_cons. apply andb_true_iff. split; [|apply IH; assumption].
  apply byte_ok_iff. apply lxor_byte; apply byte_ok_iff; assumption.
Qed.

(* the built-in e on 16-byte operands: total, 16 bytes, equal to FIPS-197 AES-128 *)
Lemma e_total_spec : forall k d,
  length k = 16%nat -> bytes_ok k = true -> length d = 16%nat -> bytes_ok d = true ->
  e_total k d = e_spec k d /\ length (e_total k d) = 16%nat /\ bytes_ok (e_total k d) = true.
Proof.
  intros k d Hk Hko Hd Hdo.
  assert (He : e_total k d = e_spec k d).
  { unfold e_total. rewrite e_builtin_is_aes128 by assumption. reflexivity. }
  split; [exact He|].
  unfold e_total, e_builtin.
  destruct (aes128_key_schedule_is_fips197 (rev k)) as (ke & Hi & _ & Hlen);
    [rewrite rev_length; assumption|rewrite bytes_ok_rev; assumption|].
  rewrite Hi. cbn [unopt]. unfold ecb_encrypt.
  assert (Hc : chunks16 (rev d) = [rev d]).
  { rewrite <- (app_nil_r (rev d)) at 1. change (rev d ++ []) with (concat [rev d]).
    apply chunks16_concat. repeat constructor. rewrite rev_length. assumption. }
  assert (Hj : ljust16 (rev d) = rev d).
  { unfold ljust16. rewrite rev_length, Hd. change (16 - 16)%nat with 0%nat.
    change (zeros 0) with (@nil Z). apply app_nil_r. }
  rewrite Hc. cbn [map concat]. rewrite app_nil_r, Hj.
  destruct (aes_block_shape ke (rev d)) as [H1 H2]; [lia|rewrite rev_length; assumption|].
  rewrite rev_length, bytes_ok_rev. split; assumption.
Qed.

(* 2.2.2 *)
Theorem builtin_ah_is_core_spec : forall k r,
  length k = 16%nat -> bytes_ok k = true -> length r = 3%nat -> bytes_ok r = true ->
  rev (b_ah k r) = spec_ah e_spec (rev k) (rev r).
Proof.
  intros k r Hk Hko Hr Hro. rewrite <- ah_spec. f_equal. unfold b_ah, ah.
  destruct (e_total_spec k (r ++ zeros 13)) as (He & _); auto.
  - rewrite app_length, length_zeros. lia.
  - rewrite bytes_ok_app, Hro, bytes_ok_zeros. reflexivity.
  - rewrite He. reflexivity.
Qed.

(* 2.2.4 *)
Theorem builtin_s1_is_core_spec : forall k r1 r2,
  length k = 16%nat -> bytes_ok k = true ->
  (8 <= length r1)%nat -> bytes_ok r1 = true -> (8 <= length r2)%nat -> bytes_ok r2 = true ->
  rev (b_s1 k r1 r2) = spec_s1 e_spec (rev k) (rev r1) (rev r2).
Proof.
  intros k r1 r2 Hk Hko H1 H1o H2 H2o. rewrite <- s1_spec. f_equal. unfold b_s1, s1.
  destruct (e_total_spec k (py_slice r2 0 8 ++ py_slice r1 0 8)) as (He & _); auto.
  - rewrite !py_slice_0 by lia. rewrite app_length, !firstn_length. change (Z.to_nat 8) with 8%nat. lia.
  - rewrite !py_slice_0 by lia. rewrite bytes_ok_app, !bytes_ok_firstn by assumption. reflexivity.
Qed.

(* 2.2.3: defined and equal to the formula *)
Theorem builtin_c1_is_core_spec : forall k r preq pres iat rat ia ra,
  length k = 16%nat -> bytes_ok k = true -> length r = 16%nat -> bytes_ok r = true ->
  length preq = 7%nat -> bytes_ok preq = true -> length pres = 7%nat -> bytes_ok pres = true ->
  length ia = 6%nat -> bytes_ok ia = true -> length ra = 6%nat -> bytes_ok ra = true ->
  bytes_ok [iat; rat] = true ->
  exists out, b_c1 k r preq pres iat rat ia ra = Some out /\
    rev out = spec_c1 e_spec (rev k) (rev r) (rev preq) (rev pres) iat rat (rev ia) (rev ra).
Proof.
  intros k r preq pres iat rat ia ra Hk Hko Hr Hro Hq Hqo Hs Hso Hia Hiao Hra Hrao Hb.
  set (p1 := [iat; rat] ++ preq ++ pres). set (p2 := ra ++ ia ++ [0; 0; 0; 0]).
  set (x1 := xor_zip r p1).
  assert (Hp1 : length p1 = 16%nat) by (unfold p1; rewrite !app_length; cbn [length]; lia).
  assert (Hp2 : length p2 = 16%nat) by (unfold p2; rewrite !app_length; cbn [length]; lia).
  assert (Hp1o : bytes_ok p1 = true) by (unfold p1; rewrite !bytes_ok_app, Hb, Hqo, Hso; reflexivity).
  assert (Hp2o : bytes_ok p2 = true) by (unfold p2; rewrite !bytes_ok_app, Hrao, Hiao; reflexivity).
  assert (Hx1 : length x1 = 16%nat) by (apply xor_zip_length_eq; assumption).
  assert (Hx1o : bytes_ok x1 = true) by (apply xor_zip_ok; assumption).
  destruct (e_total_spec k x1) as (He1 & Hl1 & Ho1); auto.
  set (x2 := xor_zip (e_spec k x1) p2).
  assert (Hx2 : length x2 = 16%nat) by (apply xor_zip_length_eq; [rewrite <- He1|]; assumption).
  assert (Hx2o : bytes_ok x2 = true) by (apply xor_zip_ok; [rewrite <- He1|]; assumption).
  destruct (e_total_spec k x2) as (He2 & _); auto.
  assert (Hc : forall e, e k x1 = e_spec k x1 -> e k x2 = e_spec k x2 ->
               c1 e k r preq pres iat rat ia ra = Some (e_spec k x2)).
  { intros e H1 H2. unfold c1, bytes_of, xor_assert. rewrite Hb. fold p1 p2.
    replace (len r =? len p1) with true by (unfold len; lia). fold x1. rewrite H1.
    replace (len (e_spec k x1) =? len p2) with true by (rewrite <- He1; unfold len; lia).
    fold x2. rewrite H2. reflexivity. }
  exists (e_spec k x2). split.
  - apply (Hc e_total); assumption.
  - apply c1_spec. apply Hc; reflexivity.
Qed.
