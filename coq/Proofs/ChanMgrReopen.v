(* C09 reopen_succeeds, end to end: a connected LE channel is closed (disconnect(), the peer
   answers); the awaited call returns, the channel's CIDs are gone from both tables, and the
   next open on the same connection is handed a CID that is not larger than the one just
   freed (the allocator returns the smallest free CID). *)
From Coq Require Import ZArith List Bool Lia.
From BV Require Import Gen.C09Tables Model.ChanMgr Proofs.ChanMgrLib Proofs.ChanMgr.
Import ListNotations.
Open Scope Z_scope.

(* the scan returns the smallest free CID: with a free CID k in range it finds one <= k *)
Lemma In_remove_other x y l : x <> y -> (In x (remove Z.eq_dec y l) <-> In x l).
Proof.
  intros Hn. induction l as [|z l IH]; cbn; [tauto|].
  destruct (Z.eq_dec y z); cbn; [subst; split; [tauto|intros [H|H]; [congruence|tauto]]|]. tauto.
Qed.

Lemma scan_first fuel : forall cid hi used k,
  (count_ge cid used + 1 <= fuel)%nat -> cid <= k <= hi -> ~ In k used ->
  exists x, scan fuel cid hi used 1 = [x] /\ cid <= x <= k /\ ~ In x used.
Proof.
  induction fuel as [|fuel IH]; intros cid hi used k Hf Hk Hn; [lia|]. cbn.
  destruct (Z.ltb_spec hi cid); [lia|].
  destruct (memz cid used) eqn:E.
  - apply memz_In in E. assert (cid <> k) by (intros ->; contradiction).
    pose proof (count_ge_remove cid used E).
    rewrite <- (scan_remove fuel (cid + 1) hi used 1 cid) by lia.
    destruct (IH (cid + 1) hi (remove Z.eq_dec cid used) k) as (x & Hs & Hx & Hnx); [lia|lia| |].
    + rewrite In_remove_other by auto. auto.
    + exists x. split; [auto|]. split; [lia|]. rewrite In_remove_other in Hnx by lia. auto.
  - exists cid. destruct fuel; cbn; (split; [reflexivity|]); (split; [lia|now apply memz_false]).
Qed.

Lemma find_free_le_first used k : le_cid_lo <= k <= le_cid_hi -> ~ In k used ->
  exists x, find_free_le used = Some x /\ le_cid_lo <= x <= k /\ ~ In x used.
Proof.
  intros Hk Hn. unfold find_free_le, find_free_le_n, find_free_n.
  destruct (scan_first (length used + 1) le_cid_lo le_cid_hi used k) as (x & Hs & Hx & Hnx); auto.
  { pose proof (count_ge_length le_cid_lo used). lia. }
  rewrite Hs. cbn. eauto.
Qed.

(* an LE open with a free CID k of the range at hand: the request goes out with a CID <= k *)
Theorem reopen_le_free m h psm credits k : reachable m ->
  le_cid_lo <= k <= le_cid_hi -> tget h k (m_chs m) = None ->
  tget h (nid m h) (m_reqs m) = None ->
  exists scid,
    snd (step m (EOpen h K_LE psm 1 0 credits)) = [FLeReq (nid m h) psm scid credits true] /\
    le_cid_lo <= scid <= k /\ tget h scid (m_chs m) = None.
Proof.
  intros R Hk Hfree Hid.
  assert (Hn : ~ In k (tkeys h (m_chs m))) by (rewrite tkeys_tget; intros H; apply H; exact Hfree).
  destruct (find_free_le_first _ k Hk Hn) as (scid & Hs & Hr & Hns).
  exists scid. cbn [step]. rewrite Z.eqb_refl. unfold open_le. rewrite Hs.
  repeat match goal with |- context [nid (with_chs (hnew m ?c) ?t) h] =>
    change (nid (with_chs (hnew m c) t) h) with (nid m h) end.
  cbn [m_reqs next_id with_ids with_chs hnew with_heap]. rewrite Hid. cbn [fst snd].
  repeat split; auto; try lia.
  destruct (tget h scid (m_chs m)) eqn:T; [|reflexivity]. exfalso. apply Hns. rewrite tkeys_tget. congruence.
Qed.

(* disconnect() of a connected LE channel, answered by the peer *)
Theorem close_reopen_le m u c id psm credits : reachable m ->
  hget m u = Some c -> c_kind c = KLe -> c_st c = SConnected -> c_live c = true ->
  le_cid_lo <= c_scid c <= le_cid_hi ->
  let h := c_conn c in
  let m1 := fst (step m (EClose u)) in
  let m2 := fst (step m1 (ERecv h (FDiscRsp id (c_dcid c) (c_scid c)))) in
  reachable m2 /\
  snd (step m (EClose u)) = [FDiscReq (nid m h) (c_dcid c) (c_scid c)] /\
  wout m1 (wuid m) = O_PENDING /\ wout m2 (wuid m) = O_RESULT /\
  tget h (c_scid c) (m_chs m2) = None /\ tget h (c_dcid c) (m_le m2) = None /\
  (exists c2, hget m2 u = Some c2 /\ c_st c2 = SDisconnected /\ c_dw c2 = None /\ c_drained c2 = true) /\
  (tget h (nid m2 h) (m_reqs m2) = None ->
   exists scid,
     snd (step m2 (EOpen h K_LE psm 1 0 credits)) = [FLeReq (nid m2 h) psm scid credits true] /\
     le_cid_lo <= scid <= c_scid c).
Proof.
  intros R Hu K St Lv Hr h m1 m2.
  pose proof (reachable_Inv m R) as I.
  assert (R1 : reachable m1) by (apply reachable_step; auto).
  assert (R2 : reachable m2) by (apply reachable_step; auto).
  assert (Tc : tget h (c_scid c) (m_chs m) = Some u).
  { apply (ch_reg _ I _ _ Hu). unfold in_use. rewrite Lv, St. reflexivity. }
  assert (Tl : tget h (c_dcid c) (m_le m) = Some u).
  { apply (ch_le _ I _ _ Hu K Lv). rewrite St. reflexivity. }
  assert (E1 : step m (EClose u) =
               (hupd (next_id (wnew m O_PENDING WClose h u) h) u
                  (fun c => match c_kind c with
                            | KLe => flush_output (set_st (set_dw c (Some (wuid m))) SDisconnecting)
                            | KCl => set_st (set_dw c (Some (wuid m))) SWaitDisconnect end),
                [FDiscReq (nid m h) (c_dcid c) (c_scid c)])).
  { cbn [step]. unfold do_close. rewrite Hu, K, St. reflexivity. }
  assert (Hu1 : hget m1 u = Some (flush_output (set_st (set_dw c (Some (wuid m))) SDisconnecting))).
  { unfold m1. rewrite E1. cbn [fst]. autorewrite with acc. rewrite Z.eqb_refl, Hu. cbn [option_map]. now rewrite K. }
  assert (Tc1 : tget h (c_scid c) (m_chs m1) = Some u) by (unfold m1; rewrite E1; cbn [fst]; now autorewrite with acc).
  assert (Tl1 : tget h (c_dcid c) (m_le m1) = Some u) by (unfold m1; rewrite E1; cbn [fst]; now autorewrite with acc).
  set (c1 := flush_output (set_st (set_dw c (Some (wuid m))) SDisconnecting)) in *.
  assert (E2 : m2 = hupd (wres (on_channel_closed (hupd m1 u (fun c => set_st c SDisconnected)) u c1) (wuid m) O_RESULT)
                      u (fun c => set_dw c None)).
  { unfold m2. cbn [step recv fst]. unfold recv_disc_rsp. fold h. rewrite Tc1, Hu1.
    unfold c1 at 1 2 3 4. cbn [c_kind c_st c_dcid c_scid c_dw flush_output set_st set_dw set_out].
    rewrite K, !Z.eqb_refl. cbn [andb negb fst wres_opt]. reflexivity. }
  split; [exact R2|]. split; [now rewrite E1|].
  split.
  { unfold m1. rewrite E1. cbn [fst]. rewrite wout_wget. autorewrite with acc. now rewrite Z.eqb_refl. }
  split.
  { rewrite E2, wout_wget. autorewrite with acc. rewrite Z.eqb_refl. unfold m1. rewrite E1. cbn [fst].
    autorewrite with acc. rewrite Z.eqb_refl. reflexivity. }
  assert (Cc : c_conn c1 = h /\ c_scid c1 = c_scid c /\ c_dcid c1 = c_dcid c) by (unfold c1; cbn; auto).
  destruct Cc as (Cc & Cs & Cd).
  split.
  { rewrite E2. autorewrite with acc. rewrite Cc, Cs, Tc1. cbn [is_uid]. rewrite Z.eqb_refl.
    autorewrite with acc. now rewrite !Z.eqb_refl. }
  split.
  { rewrite E2. autorewrite with acc. rewrite Cc, Cd, Tl1. cbn [is_uid]. rewrite Z.eqb_refl.
    autorewrite with acc. now rewrite !Z.eqb_refl. }
  split.
  { rewrite E2. autorewrite with acc. rewrite !Z.eqb_refl, Hu1. cbn [option_map]. eexists. split; [reflexivity|].
    unfold c1. cbn. auto. }
  intros Hid.
  assert (Free : tget h (c_scid c) (m_chs m2) = None).
  { rewrite E2. autorewrite with acc. rewrite Cc, Cs, Tc1. cbn [is_uid]. rewrite Z.eqb_refl.
    autorewrite with acc. now rewrite !Z.eqb_refl. }
  destruct (reopen_le_free m2 h psm credits (c_scid c) R2 Hr Free Hid) as (scid & Ho & Hs & _).
  eauto.
Qed.

(* (D17g) a successful response whose MTU / MPS are outside the limits is handled exactly as
   the corresponding refusal, for any state *)
Theorem bad_params_is_refusal m h id dcid credits dcids :
  step m (ERecv h (FLeRsp id dcid credits R_OK false)) = step m (ERecv h (FLeRsp id dcid credits R_LE_BAD_PARAMS true)) /\
  step m (ERecv h (FEnhRsp id credits R_OK dcids false)) = step m (ERecv h (FEnhRsp id credits R_ENH_BAD_PARAMS dcids true)).
Proof. split; reflexivity. Qed.
