(* Proofs/CodecsXfields.v — the extended field codec of Model/CodecsXfields.v satisfies the
   value -> bytes -> value halves of SpecCodec's [codec_ok] ([rt_tight], [rt_last]); C01's
   sequence combinator then gives the round trip of every field list. *)
From Coq Require Import ZArith List Bool Lia.
From BV Require Import Base.Bytes Proofs.Bytes Model.SpecCodec Proofs.SpecCodec
  Model.CodecsBase Proofs.CodecsBase Model.CodecsL2cap Proofs.CodecsL2cap
  Model.CodecsSdp Proofs.CodecsSdp Model.CodecsAv Proofs.CodecsAv Gen.C18Tables Model.CodecsXfields Gen.C18XRegistry Gen.C18AvrcpRegistry.
Import ListNotations.
Open Scope Z_scope.

Lemma ints_of_inv : forall vs l, ints_of vs = Some l -> vs = vints l.
Proof.
  induction vs as [|v vs IH]; intros l H.
  - cbn in H. apply some_inv in H. subst. reflexivity.
  - cbn [ints_of] in H. destruct v as [z| | |]; try discriminate.
    destruct (ints_of vs) as [l'|]; [|discriminate]. apply some_inv in H. subst l.
    cbn [vints map]. f_equal. apply IH. reflexivity.
Qed.

Lemma u16_words_encode : forall strict l, forallb (u_range 2) l = true ->
  u16_words strict (flat_map (le_encode 2) l) = Some l.
Proof.
  induction l as [|z l IH]; intro H; [reflexivity|].
  cbn [forallb] in H. apply andb_true_iff in H as [Hz Hl]. apply u_range_iff in Hz.
  cbn [flat_map]. pose proof (le_decode_encode 2 z Hz) as D. cbn [le_encode] in *.
  cbn [app u16_words]. rewrite IH by exact Hl. rewrite D. reflexivity.
Qed.

Lemma flat_map_le2_length : forall l, length (flat_map (le_encode 2) l) = (2 * length l)%nat.
Proof.
  induction l as [|z l IH]; [reflexivity|]. cbn [flat_map]. rewrite app_length, le_encode_length, IH.
  cbn [length]. lia.
Qed.
Lemma flat_map_be4_length : forall l, length (flat_map (be_encode 4) l) = (4 * length l)%nat.
Proof.
  induction l as [|z l IH]; [reflexivity|]. cbn [flat_map]. rewrite app_length, be_encode_length, IH.
  cbn [length]. lia.
Qed.

Lemma be32_words_encode : forall l tail, forallb (u_range 4) l = true ->
  be32_words (length l) (flat_map (be_encode 4) l ++ tail) = Some l.
Proof.
  induction l as [|z l IH]; intros tail H; [reflexivity|].
  cbn [forallb] in H. apply andb_true_iff in H as [Hz Hl]. apply u_range_iff in Hz.
  cbn [flat_map length]. rewrite <- app_assoc.
  destruct (be_encode_4_shape' z) as [a [b [c [d E]]]]. rewrite E. cbn [app be32_words].
  rewrite IH by exact Hl. rewrite <- E. rewrite be_decode_encode by exact Hz. reflexivity.
Qed.

Lemma lv_roundtrip : forall vs, lv_inr vs = true ->
  exists b, lv_ser vs = Some b /\ forall fuel, (length b < fuel)%nat -> lv_parse fuel b = Some vs.
Proof.
  induction vs as [|v vs IH]; intro H.
  - exists []. split; [reflexivity|]. intros [|k] Hk; [lia|reflexivity].
  - cbn [lv_inr] in H. destruct v as [| | |items]; try discriminate.
    destruct items as [|[l| | |] [|[|b| |] [|? ?]]]; try discriminate.
    rewrite !andb_true_iff in H. destruct H as [[Hr Hb] Hrest].
    pose proof Hr as Hr'. apply u_range_iff in Hr'.
    pose proof (le_decode_encode 2 l Hr') as D. cbn [le_encode] in D.
    destruct vs as [|v2 vs2].
    + (* the last tuple: the value may be shorter than its Length *)
      apply Z.leb_le in Hrest.
      exists (le_encode 2 l ++ b ++ []). split; [cbn [lv_ser]; rewrite Hr; reflexivity|].
      intros fuel Hf. destruct fuel as [|k]; [lia|]. rewrite app_nil_r. cbn [le_encode app lv_parse].
      rewrite D.
      assert (Hge : (length b <= Z.to_nat l)%nat) by (unfold lenZ in Hrest; lia).
      rewrite firstn_all2 by exact Hge. rewrite skipn_all2 by exact Hge.
      destruct k as [|k']; [cbn [length app le_encode] in Hf; lia|]. reflexivity.
    + apply andb_true_iff in Hrest as [Hl Hvs]. apply Z.eqb_eq in Hl.
      destruct (IH Hvs) as [rb [Hs Hp]].
      exists (le_encode 2 l ++ b ++ rb). split.
      * cbn [lv_ser]. rewrite Hr. cbn [lv_ser] in Hs. rewrite Hs. reflexivity.
      * intros fuel Hf. destruct fuel as [|k]; [lia|]. cbn [le_encode app lv_parse].
        rewrite D. rewrite Hl. unfold lenZ. rewrite Nat2Z.id. rewrite skipn_app_exact, firstn_app_exact.
        rewrite Hp; [reflexivity|]. cbn [le_encode app length] in Hf. rewrite !app_length in Hf. lia.
Qed.

(* bytes -> tuples -> bytes: whatever the parser accepted is written back exactly, because every
   tuple keeps the Length it was read with *)
Lemma lv_parse_ser : forall fuel b vs, bytes_ok b = true -> lv_parse fuel b = Some vs ->
  lv_ser vs = Some b /\ lv_inr vs = true.
Proof.
  induction fuel as [|k IH]; intros b vs Hok H; [discriminate|].
  destruct b as [|x [|y r]].
  - cbn in H. apply some_inv in H. subst. split; reflexivity.
  - discriminate.
  - cbn [lv_parse] in H.
    destruct (lv_parse k (skipn (Z.to_nat (le_decode [x; y])) r)) as [rest|] eqn:E; [|discriminate].
    apply some_inv in H. subst vs.
    rewrite !bytes_ok_cons in Hok. rewrite !andb_true_iff in Hok. destruct Hok as [Hx [Hy Hr]].
    assert (Hxy : bytes_ok [x; y] = true) by (cbn; rewrite Hx, Hy; reflexivity).
    pose proof (le_decode_range _ Hxy) as R. cbn [length] in R.
    destruct (IH _ rest (bytes_ok_skipn _ _ Hr) E) as [Hs Hi].
    set (l := le_decode [x; y]) in *.
    assert (Hu : u_range 2 l = true) by (apply u_range_iff; exact R).
    split.
    + cbn [lv_ser]. rewrite Hu, Hs. subst l. rewrite (le_encode_decode_n 2 [x; y] eq_refl Hxy).
      cbn [app]. rewrite firstn_skipn. reflexivity.
    + cbn [lv_inr]. rewrite Hu. rewrite (bytes_ok_firstn _ _ Hr). cbn [andb].
      destruct rest as [|v2 rest2] eqn:Er.
      * apply Z.leb_le. unfold lenZ. rewrite firstn_length. lia.
      * rewrite Hi, andb_true_r. apply Z.eqb_eq.
        (* a further tuple was parsed, so the data did not end inside this value *)
        destruct (Nat.le_gt_cases (Z.to_nat l) (length r)) as [Hle|Hgt].
        -- unfold lenZ. rewrite firstn_length_le by exact Hle. lia.
        -- exfalso. rewrite skipn_all2 in E by lia. destruct k; cbn in E; discriminate.
Qed.

Lemma lv_value_roundtrip : forall vs, lv_inr vs = true ->
  exists b, lv_ser vs = Some b /\ lv_parse (S (length b)) b = Some vs.
Proof. intros vs H. destruct (lv_roundtrip vs H) as [b [Hs Hp]]. exists b. split; [exact Hs|apply Hp; lia]. Qed.
Lemma lv_bytes_roundtrip : forall b vs, bytes_ok b = true -> lv_parse (S (length b)) b = Some vs ->
  lv_ser vs = Some b /\ lv_inr vs = true.
Proof. intros b vs. apply lv_parse_ser. Qed.
Lemma lv_derived_refuted : exists vs, lv_inr vs = true /\ lv_ser_derived vs <> lv_ser vs.
Proof. exists [VList [VInt 30; VBytes [1; 2; 3]]]. split; [reflexivity|]. vm_compute. discriminate. Qed.

Lemma epi_list_roundtrip : forall vs, epi_list_inr vs = true ->
  exists b, epi_list_ser vs = Some b /\ epi_list_parse b = vs.
Proof.
  induction vs as [|v vs IH]; intro H; [exists []; split; reflexivity|].
  cbn [epi_list_inr] in H. destruct v as [| | |ps]; try discriminate.
  destruct (ints_of ps) as [p|] eqn:Ep; [|discriminate].
  apply andb_true_iff in H as [Hok Hvs]. destruct (IH Hvs) as [rb [Hs Hp]].
  exists (epi_bytes p ++ rb). split.
  - cbn [epi_list_ser]. rewrite Ep, Hok, Hs. reflexivity.
  - pose proof (epi_value_roundtrip p [] Hok) as R. rewrite app_nil_r in R.
    assert (Hlen : exists a b, epi_bytes p = [a; b]).
    { destruct p as [|s [|i [|m [|t [|? ?]]]]]; try discriminate. cbn [epi_bytes]. eauto. }
    destruct Hlen as [a [b E]]. rewrite E in *. cbn [app epi_list_parse]. rewrite R, Hp.
    rewrite (ints_of_inv ps p Ep). reflexivity.
Qed.

Lemma caps_of_inv : forall vs l, caps_of vs = Some l -> vs = vcaps l.
Proof.
  induction vs as [|v vs IH]; intros l H.
  - cbn in H. apply some_inv in H. subst. reflexivity.
  - cbn [caps_of] in H. destruct v as [| | |items]; try discriminate.
    destruct items as [|[c| | |] [|[|b| |] [|? ?]]]; try discriminate.
    destruct (caps_of vs) as [l'|]; [|discriminate]. apply some_inv in H. subst l.
    cbn [vcaps map fst snd]. f_equal. apply IH. reflexivity.
Qed.

Lemma clampn_len : forall b tail, clampn (lenZ b) (b ++ tail) = length b.
Proof.
  intros. unfold clampn. rewrite lenZ_app.
  replace (lenZ b + lenZ tail <? lenZ b) with false by (symmetry; apply Z.ltb_ge; pose proof (lenZ_nonneg _ tail); lia).
  apply lenZ_to_nat.
Qed.

(* value -> bytes -> value with anything after it, for the self-delimiting specs *)
Theorem X_tight : rt_tight X_codec.
Proof.
  intros s prev v Hw Ht Hi. destruct s; cbn [X_codec wf tight inr ser par] in *; try discriminate.
  - exact (A_tight a prev v Hw Ht Hi).
  - (* PSM *) destruct v as [z| | |]; try discriminate. cbn [inr_x] in Hi.
    pose proof Hi as Hok. unfold psm_ok in Hok. apply andb_true_iff in Hok as [Hz _].
    exists (psm_bytes z). split; [cbn [ser_x]; rewrite Hz; reflexivity|].
    intro tail. cbn [par_x]. rewrite (psm_value_roundtrip z tail Hi). rewrite app_length.
    do 2 f_equal. lia.
  - (* SDP handle list *) destruct v as [| | |vs]; try discriminate. cbn [inr_x] in Hi.
    destruct (ints_of vs) as [l|] eqn:El; [|discriminate]. apply andb_true_iff in Hi as [Hc Hl].
    exists (be_encode 2 (lenZ l) ++ flat_map (be_encode 4) l). split.
    + cbn [ser_x]. rewrite El, Hc, Hl. reflexivity.
    + intro tail. cbn [par_x]. pose proof Hc as Hc'. apply u_range_iff in Hc'.
      destruct (be_encode_2_shape' (lenZ l)) as [c0 [c1 E]]. rewrite E. cbn [app].
      rewrite <- E. rewrite be_decode_encode by exact Hc'. rewrite lenZ_to_nat.
      rewrite ?E. cbn [app]. rewrite be32_words_encode by exact Hl.
      rewrite (ints_of_inv vs l El). cbn [length]. rewrite flat_map_be4_length. reflexivity.
  - (* bytes preceded by a 16-bit length *) destruct v as [|b| |]; try discriminate. cbn [inr_x] in Hi.
    apply andb_true_iff in Hi as [Hc Hb].
    exists (be_encode 2 (lenZ b) ++ b). split; [cbn [ser_x]; rewrite Hc; reflexivity|].
    intro tail. cbn [par_x]. pose proof Hc as Hc'. apply u_range_iff in Hc'.
    destruct (be_encode_2_shape' (lenZ b)) as [c0 [c1 E]]. rewrite E. cbn [app].
    rewrite <- E. rewrite be_decode_encode by exact Hc'. rewrite lenZ_to_nat.
    rewrite ?E. cbn [app]. rewrite firstn_app_exact. cbn [length]. reflexivity.
  - (* 16-bit UUID *) destruct v as [|b| |]; try discriminate. cbn [inr_x] in Hi.
    apply andb_true_iff in Hi as [Hl _]. apply Nat.eqb_eq in Hl.
    exists b. split; [reflexivity|]. intro tail. cbn [par_x].
    assert (Hf : firstn 2 (b ++ tail) = b) by (rewrite <- Hl; apply firstn_app_exact).
    rewrite Hf, Hl. reflexivity.
  - (* SDP data element *) destruct v as [|b| |]; try discriminate. cbn [inr_x] in Hi.
    apply andb_true_iff in Hi as [Hb Hi].
    destruct (from_bytes sdp_max_nesting b) as [e c raw cn| |] eqn:Ef; try discriminate.
    destruct cn; [|discriminate]. apply Z.eqb_eq in Hi. subst c.
    exists b. split; [reflexivity|]. intro tail. cbn [par_x].
    unfold from_bytes, sdp_fuel in Ef.
    destruct (parse_encode _ _ _ _ _ _ Hb Ef) as [He [_ [Hraw [_ [Hbo Hd]]]]].
    rewrite lenZ_to_nat, firstn_all in Hraw. subst raw.
    rewrite (encode_parse e (S (length (b ++ tail))) sdp_max_nesting tail b He Hbo Hd ltac:(lia)).
    rewrite clampn_len. reflexivity.
  - (* SEID *) destruct v as [z| | |]; try discriminate. cbn [inr_x] in Hi.
    unfold seid_ok in Hi. apply zlt_iff in Hi.
    assert (C : forallb (fun z => byte_ok (Z.shiftl z 2) && (Z.shiftr (Z.shiftl z 2) 2 =? z)) (zrange 64) = true)
      by (vm_compute; reflexivity).
    pose proof (forall_range 64 _ C z ltac:(cbn; lia)) as H. cbv beta in H.
    apply andb_true_iff in H as [H1 H2]. apply Z.eqb_eq in H2.
    exists [Z.shiftl z 2]. split; [cbn [ser_x]; rewrite H1; reflexivity|].
    intro tail. cbn [par_x app]. rewrite H2. reflexivity.
  - (* length-prefixed string *) destruct v as [|b| |]; try discriminate. cbn [inr_x] in Hi.
    apply andb_true_iff in Hi as [Hc Hb].
    exists (be_encode n (lenZ b) ++ b). split; [cbn [ser_x]; rewrite Hc; reflexivity|].
    intro tail. cbn [par_x]. pose proof Hc as Hc'. apply u_range_iff in Hc'.
    rewrite <- app_assoc.
    assert (Hf : firstn n (be_encode n (lenZ b) ++ b ++ tail) = be_encode n (lenZ b)).
    { rewrite <- (be_encode_length n (lenZ b)) at 1. apply firstn_app_exact. }
    assert (Hsk : skipn n (be_encode n (lenZ b) ++ b ++ tail) = b ++ tail).
    { rewrite <- (be_encode_length n (lenZ b)) at 1. apply skipn_app_exact. }
    rewrite Hf, Hsk. rewrite be_decode_encode by exact Hc'. rewrite lenZ_to_nat, firstn_app_exact.
    rewrite app_length, be_encode_length. reflexivity.
  - (* 64-bit big endian *) destruct v as [z| | |]; try discriminate. cbn [inr_x] in Hi.
    exists (be_encode 8 z). split; [cbn [ser_x]; rewrite Hi; reflexivity|].
    intro tail. cbn [par_x]. apply u_range_iff in Hi.
    assert (Hf : firstn 8 (be_encode 8 z ++ tail) = be_encode 8 z).
    { rewrite <- (be_encode_length 8 z) at 1. apply firstn_app_exact. }
    rewrite Hf, be_decode_encode by exact Hi. rewrite be_encode_length. reflexivity.
Qed.

Theorem X_last : rt_last X_codec.
Proof.
  intros s prev v Hw Hi.
  destruct (tight X_codec s) eqn:Ht.
  { apply (tight_gives_last X_codec s). exact (X_tight s prev v Hw Ht Hi). }
  destruct s; cbn [X_codec wf tight inr ser par] in *; try discriminate.
  - exact (A_last a prev v Hw Hi).
  - (* handle set, strict *) destruct v as [| | |vs]; try discriminate. cbn [inr_x] in Hi.
    destruct (ints_of vs) as [l|] eqn:El; [|discriminate].
    exists (flat_map (le_encode 2) l), (length (flat_map (le_encode 2) l)). split; [|split; [|lia]].
    + cbn [ser_x]. rewrite El, Hi. reflexivity.
    + cbn [par_x]. rewrite (u16_words_encode true l Hi). rewrite (ints_of_inv vs l El). reflexivity.
  - (* CID list, lenient *) destruct v as [| | |vs]; try discriminate. cbn [inr_x] in Hi.
    destruct (ints_of vs) as [l|] eqn:El; [|discriminate].
    exists (flat_map (le_encode 2) l), (length (flat_map (le_encode 2) l)). split; [|split; [|lia]].
    + cbn [ser_x]. rewrite El, Hi. reflexivity.
    + cbn [par_x]. rewrite (u16_words_encode false l Hi). rewrite (ints_of_inv vs l El). reflexivity.
  - (* length-value tuples *) destruct v as [| | |vs]; try discriminate. cbn [inr_x] in Hi.
    destruct (lv_roundtrip vs Hi) as [b [Hs Hp]]. exists b, (length b). split; [exact Hs|]. split; [|lia].
    cbn [par_x]. rewrite (Hp (S (length b)) ltac:(lia)). reflexivity.
  - (* UUID to the end *) destruct v as [|b| |]; try discriminate. cbn [inr_x] in Hi.
    apply andb_true_iff in Hi as [Hl _]. exists b, (length b). split; [reflexivity|]. split; [|lia].
    cbn [par_x]. cbv zeta in Hl. rewrite Hl. reflexivity.
  - (* SEID list *) destruct v as [| | |vs]; try discriminate. cbn [inr_x] in Hi.
    destruct (ints_of vs) as [l|] eqn:El; [|discriminate].
    assert (C : forallb (fun z => byte_ok (Z.shiftl z 2) && (Z.shiftr (Z.shiftl z 2) 2 =? z)) (zrange 64) = true)
      by (vm_compute; reflexivity).
    assert (G : forallb (fun z => byte_ok (Z.shiftl z 2)) l = true /\ map (fun b => Z.shiftr b 2) (map (fun z => Z.shiftl z 2) l) = l).
    { clear El. induction l as [|z l IH]; [split; reflexivity|].
      cbn [forallb] in Hi. apply andb_true_iff in Hi as [Hz Hl]. unfold seid_ok in Hz. apply zlt_iff in Hz.
      pose proof (forall_range 64 _ C z ltac:(cbn; lia)) as H. cbv beta in H.
      apply andb_true_iff in H as [H1 H2]. apply Z.eqb_eq in H2. destruct (IH Hl) as [I1 I2].
      split; [cbn [forallb]; rewrite H1, I1; reflexivity|]. cbn [map]. rewrite H2, I2. reflexivity. }
    destruct G as [G1 G2].
    exists (map (fun z => Z.shiftl z 2) l), (length (map (fun z => Z.shiftl z 2) l)). split; [|split; [|lia]].
    + cbn [ser_x]. rewrite El, G1. reflexivity.
    + cbn [par_x]. rewrite G2. rewrite (ints_of_inv vs l El). reflexivity.
  - (* endpoints *) destruct v as [| | |vs]; try discriminate. cbn [inr_x] in Hi.
    destruct (epi_list_roundtrip vs Hi) as [b [Hs Hp]]. exists b, (length b). split; [exact Hs|]. split; [|lia].
    cbn [par_x]. rewrite Hp. reflexivity.
  - (* capabilities *) destruct v as [| | |vs]; try discriminate. cbn [inr_x] in Hi.
    destruct (caps_of vs) as [l|] eqn:El; [|discriminate].
    destruct (tlv_ok_encodes l Hi) as [b Hb]. exists b, (length b). split; [|split; [|lia]].
    + cbn [ser_x]. rewrite El. exact Hb.
    + cbn [par_x]. rewrite (tlv_value_roundtrip l true b Hi Hb). rewrite (caps_of_inv vs l El). reflexivity.
Qed.

(* ---- array groups over the extended codec (the proof of Proofs/SpecCodec.v's arr_tight,
   which there sits under the full codec_ok hypothesis, redone from rt_tight alone) *)
Lemma x_rows_tight : forall ss k, tight_seq X_codec ss = true -> tight_seq (seq_codec X_codec) (repeat ss k) = true.
Proof.
  intros ss k H. unfold tight_seq at 1. apply forallb_repeat. cbn.
  rewrite H, (tight_seq_wf_seq X_codec ss H). reflexivity.
Qed.

Lemma seq_X_tight : rt_tight (seq_codec X_codec).
Proof.
  intros ss prev v Hw Ht Hi. destruct v as [| | |vs]; try discriminate.
  destruct (seq_tight X_codec X_tight ss prev vs Ht Hi) as [b [Hs Hp]].
  exists b. split; [exact Hs|]. intro tail. cbn. rewrite Hp. reflexivity.
Qed.

Lemma x_arr_tight : forall ss prev v,
  wf_field X_codec (Arr ss) = true -> inr_field X_codec (Arr ss) prev v = true ->
  exists b, ser_field X_codec (Arr ss) v = Some b /\
            forall tail, par_field X_codec (Arr ss) prev (b ++ tail) = Some (v, length b).
Proof.
  intros ss prev v Hw Hi.
  assert (Ht : tight_seq X_codec ss = true) by (cbn in Hw; destruct ss; [discriminate|exact Hw]).
  destruct v as [| | |rows]; try discriminate.
  cbn [inr_field] in Hi. apply andb_true_iff in Hi as [Hlen Hi].
  destruct (seq_tight (seq_codec X_codec) seq_X_tight (repeat ss (length rows)) (Z.of_nat (length rows)) rows
              (x_rows_tight ss _ Ht) Hi) as [b [Hs Hp]].
  exists (Z.of_nat (length rows) :: b). split.
  - cbn [ser_field]. rewrite Hlen. rewrite Hs. reflexivity.
  - intro tail. cbn [par_field app]. rewrite Nat2Z.id. rewrite Hp. reflexivity.
Qed.

Theorem XF_tight : rt_tight XF_codec.
Proof.
  intros f prev v Hw Ht Hi. destruct f as [s|ss].
  - exact (X_tight s prev v Hw Ht Hi).
  - exact (x_arr_tight ss prev v Hw Hi).
Qed.
Theorem XF_last : rt_last XF_codec.
Proof.
  intros f prev v Hw Hi. destruct f as [s|ss].
  - exact (X_last s prev v Hw Hi).
  - apply (tight_gives_last XF_codec (Arr ss)). exact (x_arr_tight ss prev v Hw Hi).
Qed.

(* field lists with array groups *)
Theorem xffields_roundtrip : forall fs prev0 vs,
  wf XFTop_codec fs = true -> inr XFTop_codec fs prev0 (VList vs) = true ->
  exists b n, ser XFTop_codec fs (VList vs) = Some b /\ par_seq XF_codec fs prev0 b = Some (vs, n) /\ (n <= length b)%nat.
Proof. intros fs prev0 vs Hw Hi. exact (seq_last XF_codec XF_tight XF_last fs prev0 vs Hw Hi). Qed.

(* every field list, every in-range value list: fields -> bytes -> fields *)
Theorem xfields_roundtrip : forall fs prev0 vs,
  xwf fs = true -> xin_range fs prev0 vs = true ->
  exists b n, xserialize fs vs = Some b /\ xparse fs prev0 b = Some (vs, n) /\ (n <= length b)%nat.
Proof.
  intros fs prev0 vs Hw Hi. exact (seq_last X_codec X_tight X_last fs prev0 vs Hw Hi).
Qed.

(* self-delimiting field lists, any trailing bytes *)
Theorem xfields_roundtrip_tight : forall fs prev0 vs,
  tight XTop_codec fs = true -> xin_range fs prev0 vs = true ->
  exists b, xserialize fs vs = Some b /\ forall tail, xparse fs prev0 (b ++ tail) = Some (vs, length b).
Proof.
  intros fs prev0 vs Ht Hi. exact (seq_tight X_codec X_tight fs prev0 vs Ht Hi).
Qed.

Theorem xregistry_fields_roundtrip : forall cs, wf_xregistry cs = true ->
  forall c, In c cs -> forall prev0 vs, xin_range (x_fields c) prev0 vs = true ->
  exists b n, xserialize (x_fields c) vs = Some b /\
              xparse (x_fields c) prev0 b = Some (vs, n) /\ (n <= length b)%nat.
Proof.
  intros cs Hwf c Hin prev0 vs Hr. unfold wf_xregistry in Hwf. rewrite forallb_forall in Hwf.
  specialize (Hwf c Hin). unfold wf_xcls in Hwf. rewrite !andb_true_iff in Hwf. destruct Hwf as [[Hw _] _].
  exact (xfields_roundtrip (x_fields c) prev0 vs Hw Hr).
Qed.

(* ---------------------------------------------------------------- the regenerated registry *)
Lemma xregistry_checked : wf_xregistry C18XRegistry.xclasses = true.
Proof. vm_compute. reflexivity. Qed.
Lemma xregistry_keys_checked : xkeys_unique C18XRegistry.xclasses = true.
Proof. vm_compute. reflexivity. Qed.
Lemma xregistry_counts_checked :
  map (fun pc => xcount C18XRegistry.xclasses (fst pc)) C18XRegistry.xregistered = map snd C18XRegistry.xregistered.
Proof. vm_compute. reflexivity. Qed.

Lemma gen_xfields_roundtrip : forall c, In c C18XRegistry.xclasses ->
  forall prev0 vs, xin_range (x_fields c) prev0 vs = true ->
  exists b n, xserialize (x_fields c) vs = Some b /\
              xparse (x_fields c) prev0 b = Some (vs, n) /\ (n <= length b)%nat.
Proof. exact (xregistry_fields_roundtrip C18XRegistry.xclasses xregistry_checked). Qed.

(* ---------------------------------------------------------------- AVRCP registry *)
Theorem xfregistry_fields_roundtrip : forall cs, wf_xfregistry cs = true ->
  forall c, In c cs -> forall prev0 vs, xfin_range (xf_fields c) prev0 vs = true ->
  exists b n, xfserialize (xf_fields c) vs = Some b /\
              xfparse (xf_fields c) prev0 b = Some (vs, n) /\ (n <= length b)%nat.
Proof.
  intros cs Hwf c Hin prev0 vs Hr. unfold wf_xfregistry in Hwf. rewrite forallb_forall in Hwf.
  specialize (Hwf c Hin). unfold wf_xfcls in Hwf. rewrite !andb_true_iff in Hwf. destruct Hwf as [[Hw _] _].
  exact (xffields_roundtrip (xf_fields c) prev0 vs Hw Hr).
Qed.

Lemma avrcp_registry_checked : wf_xfregistry C18AvrcpRegistry.avrcp_classes = true.
Proof. vm_compute. reflexivity. Qed.
Lemma avrcp_keys_checked : xfkeys_unique C18AvrcpRegistry.avrcp_classes = true.
Proof. vm_compute. reflexivity. Qed.
Lemma avrcp_count_checked :
  (length C18AvrcpRegistry.avrcp_classes + length C18AvrcpRegistry.avrcp_untranslated)%nat = C18AvrcpRegistry.avrcp_registered_total.
Proof. vm_compute. reflexivity. Qed.
Lemma gen_avrcp_roundtrip : forall c, In c C18AvrcpRegistry.avrcp_classes ->
  forall prev0 vs, xfin_range (xf_fields c) prev0 vs = true ->
  exists b n, xfserialize (xf_fields c) vs = Some b /\
              xfparse (xf_fields c) prev0 b = Some (vs, n) /\ (n <= length b)%nat.
Proof. exact (xfregistry_fields_roundtrip C18AvrcpRegistry.avrcp_classes avrcp_registry_checked). Qed.
