(* Routing under changing addresses (property C06).
   [rinv] is what the routing theorems really need: per-controller table invariants, own
   addresses of LE connections unique across controllers, public addresses unique.  It follows
   from the static invariant [ginv] and from the dynamic invariant [dinv], which holds for
   every schedule in which a controller only ever takes addresses nobody else uses
   ([guard_fresh]): the random address may change while connections exist, advertising sets
   may have random addresses of their own. *)
From Coq Require Import ZArith List Bool Lia Arith.
From BV Require Import Model.Link Proofs.Link.
Import ListNotations.
Open Scope Z_scope.

Record rinv (s : state) : Prop := mkRinv {
  r_c : forall i c, nth_error (st_cs s) i = Some c -> cinv c;
  r_self : forall i j ci cj k k', nth_error (st_cs s) i = Some ci -> nth_error (st_cs s) j = Some cj ->
           In k (c_le ci) -> In k' (c_le cj) -> k_self k = k_self k' -> i = j;
  r_pub : forall i j ci cj, nth_error (st_cs s) i = Some ci -> nth_error (st_cs s) j = Some cj ->
          c_public ci = c_public cj -> i = j
}.

Lemma ginv_rinv : forall s, ginv s -> rinv s.
Proof.
  intros s G. constructor.
  - intros i c H. exact (proj1 (g_c s G i c H)).
  - intros i j ci cj k k' Hi Hj Hk Hk' E. eapply (g_uniq s G i j ci cj (k_self k)); eauto.
    + exact (ai_self ci (proj2 (g_c s G _ _ Hi)) k Hk).
    + rewrite E. exact (ai_self cj (proj2 (g_c s G _ _ Hj)) k' Hk').
  - intros i j ci cj Hi Hj E. eapply (g_uniq s G i j ci cj (c_public ci)); eauto; [now left | rewrite E; now left].
Qed.

Lemma find_le_holder_r : forall s j cj k, rinv s -> nth_error (st_cs s) j = Some cj ->
  In k (c_le cj) -> find_le (st_cs s) (k_self k) = Some j.
Proof.
  intros s j cj k R Hj Hk. unfold find_le.
  rewrite (find_index_unique _ _ j cj 0%nat Hj); [reflexivity | apply has_self_in; eauto |].
  intros i ci Hi Hf. apply has_self_in in Hf. destruct Hf as [k0 [Hk0 Hs0]].
  eapply (r_self s R i j ci cj k0 k); eauto.
Qed.

Lemma find_classic_owner_r : forall s j cj, rinv s -> nth_error (st_cs s) j = Some cj ->
  find_classic (st_cs s) (c_public cj) = Some j.
Proof.
  intros s j cj R Hj. unfold find_classic.
  rewrite (find_index_unique _ _ j cj 0%nat Hj); [reflexivity | apply Z.eqb_refl |].
  intros i ci Hi Hf. apply Z.eqb_eq in Hf. eapply (r_pub s R i j ci cj); eauto.
Qed.

(* ------------------------------------------------------------------ routing theorems over rinv *)
Theorem acl_le_send_r : forall s i j ci cj e e' d, rinv s ->
  nth_error (st_cs s) i = Some ci -> In e (c_le ci) ->
  nth_error (st_cs s) j = Some cj -> In e' (c_le cj) -> k_self e' = k_peer e ->
  step s (LAcl i (k_handle e) d) =
    (mkState (st_cs s) (st_net s ++ [(i, j, MAcl (k_self e) true d)]),
     [(i, ECompleted (k_handle e))], [(i, j, MAcl (k_self e) true d)]).
Proof.
  intros s i j ci cj e e' d R Hi He Hj He' Hm.
  pose proof (r_c s R _ _ Hi) as Ci.
  unfold step. simpl label_ctrl. cbv iota. rewrite Hi. simpl local. unfold send_acl, conn_by_handle.
  rewrite (by_handle_of_in ci e Ci He).
  rewrite (tbl_get_of_in _ _ (ci_le_keys ci Ci) He).
  rewrite <- Hm. rewrite (find_le_holder_r s j cj e' R Hj He').
  rewrite (upd_id _ _ _ Hi). reflexivity.
Qed.

Theorem disconnect_le_r : forall s i j ci cj e e' r, rinv s ->
  nth_error (st_cs s) i = Some ci -> In e (c_le ci) ->
  nth_error (st_cs s) j = Some cj -> In e' (c_le cj) -> k_self e' = k_peer e ->
  step s (LDisconnect i (k_handle e) r) =
    (mkState (upd (st_cs s) i (set_le ci (tbl_del (c_le ci) (k_peer e))))
             (st_net s ++ [(i, j, MTerm (k_self e) r)]),
     [(i, EStatus 0); (i, EDisc (k_handle e) r)], [(i, j, MTerm (k_self e) r)]).
Proof.
  intros s i j ci cj e e' r R Hi He Hj He' Hm.
  pose proof (r_c s R _ _ Hi) as Ci.
  unfold step. simpl label_ctrl. cbv iota. rewrite Hi. simpl local. unfold disconnect, conn_by_handle.
  rewrite (le_handle_not_classic ci e _ Ci He eq_refl).
  rewrite (by_handle_of_in ci e Ci He).
  rewrite <- Hm. rewrite (find_le_holder_r s j cj e' R Hj He'). rewrite Hm. reflexivity.
Qed.

Lemma cl_handle_owner : forall c e, cinv c -> In e (c_cl c) -> k_handle e <> 0 ->
  by_handle (c_le c) (k_handle e) = None /\ by_handle (c_cl c) (k_handle e) = Some e.
Proof.
  intros c e Ci He Hnz. pose proof (ci_distinct c Ci _ Hnz) as Hd. unfold handles in Hd. rewrite !count_app in Hd.
  assert (Hs : (1 <= count (k_handle e) (map k_handle (c_cl c)))%nat) by (apply count_pos_in; now apply in_map).
  split.
  - destruct (by_handle (c_le c) (k_handle e)) as [k2|] eqn:B; [|reflexivity]. exfalso.
    apply by_handle_in in B. destruct B as [B1 B2].
    assert (1 <= count (k_handle e) (map k_handle (c_le c)))%nat by (apply count_pos_in; rewrite <- B2; now apply in_map). lia.
  - destruct (by_handle (c_cl c) (k_handle e)) as [k2|] eqn:B; [|exfalso; eapply by_handle_none; eauto].
    apply by_handle_in in B. destruct B as [B1 B2].
    destruct (conn_eq_dec k2 e) as [->|Hne]; [reflexivity|]. exfalso.
    pose proof (count_two _ _ _ B1 He Hne B2) as H2. rewrite B2 in H2. lia.
Qed.

Theorem acl_classic_send_r : forall s i j ci cj e d, rinv s ->
  nth_error (st_cs s) i = Some ci -> In e (c_cl ci) -> k_handle e <> 0 ->
  nth_error (st_cs s) j = Some cj -> c_public cj = k_peer e ->
  step s (LAcl i (k_handle e) d) =
    (mkState (st_cs s) (st_net s ++ [(i, j, MAcl (c_public ci) false d)]),
     [(i, ECompleted (k_handle e))], [(i, j, MAcl (c_public ci) false d)]).
Proof.
  intros s i j ci cj e d R Hi He Hnz Hj Hm.
  pose proof (r_c s R _ _ Hi) as Ci. destruct (cl_handle_owner ci e Ci He Hnz) as [H1 H2].
  unfold step. simpl label_ctrl. cbv iota. rewrite Hi. simpl local. unfold send_acl, conn_by_handle.
  rewrite H1, H2. rewrite <- Hm. rewrite (find_classic_owner_r s j cj R Hj).
  rewrite (upd_id _ _ _ Hi). reflexivity.
Qed.

Theorem disconnect_classic_r : forall s i j ci cj e r, rinv s ->
  nth_error (st_cs s) i = Some ci -> In e (c_cl ci) -> k_handle e <> 0 ->
  nth_error (st_cs s) j = Some cj -> c_public cj = k_peer e ->
  step s (LDisconnect i (k_handle e) r) =
    (mkState (upd (st_cs s) i (set_cl ci (tbl_del (c_cl ci) (k_peer e))))
             (st_net s ++ [(i, j, MLmpDetach (c_public ci) r)]),
     [(i, EStatus 0); (i, EDisc (k_handle e) r)], [(i, j, MLmpDetach (c_public ci) r)]).
Proof.
  intros s i j ci cj e r R Hi He Hnz Hj Hm.
  pose proof (r_c s R _ _ Hi) as Ci. destruct (cl_handle_owner ci e Ci He Hnz) as [H1 H2].
  unfold step. simpl label_ctrl. cbv iota. rewrite Hi. simpl local. unfold disconnect, conn_by_handle.
  rewrite H1, H2. rewrite <- Hm. rewrite (find_classic_owner_r s j cj R Hj). rewrite Hm. reflexivity.
Qed.

Theorem disconnect_sco_r : forall s i j ci cj e r, rinv s ->
  nth_error (st_cs s) i = Some ci -> In e (c_sco ci) -> k_handle e <> 0 ->
  nth_error (st_cs s) j = Some cj -> c_public cj = k_peer e ->
  step s (LDisconnect i (k_handle e) r) =
    (mkState (upd (st_cs s) i (set_sco ci (tbl_del (c_sco ci) (k_peer e))))
             (st_net s ++ [(i, j, MLmpRemoveSco (c_public ci) r)]),
     [(i, EStatus 0); (i, EDisc (k_handle e) r)], [(i, j, MLmpRemoveSco (c_public ci) r)]).
Proof.
  intros s i j ci cj e r R Hi He Hnz Hj Hm.
  pose proof (r_c s R _ _ Hi) as Ci.
  destruct (sco_handle_owner ci e Ci He Hnz) as [H1 [H2 H3]].
  unfold step. simpl label_ctrl. cbv iota. rewrite Hi. simpl local. unfold disconnect, conn_by_handle.
  rewrite H1, H2, H3. rewrite <- Hm. rewrite (find_classic_owner_r s j cj R Hj). rewrite Hm. reflexivity.
Qed.

(* ================================================================== the dynamic invariant *)
Definition disjoint_claims (cs : list ctrl) : Prop :=
  forall i j ci cj a, nth_error cs i = Some ci -> nth_error cs j = Some cj ->
                      In a (claims ci) -> In a (claims cj) -> i = j.

Record dinv (s : state) : Prop := mkDinv {
  d_c : forall i c, nth_error (st_cs s) i = Some c -> cinv c;
  d_claims : disjoint_claims (st_cs s)
}.

Lemma dinv_rinv : forall s, dinv s -> rinv s.
Proof.
  intros s [Dc Dd]. constructor; auto.
  - intros i j ci cj k k' Hi Hj Hk Hk' E. apply (Dd i j ci cj (k_self k) Hi Hj).
    + unfold claims. right. right. apply in_or_app. right. now apply in_map.
    + rewrite E. unfold claims. right. right. apply in_or_app. right. now apply in_map.
  - intros i j ci cj Hi Hj E. apply (Dd i j ci cj (c_public ci) Hi Hj); [now left | rewrite E; now left].
Qed.

(* the address a label newly gives to its controller *)
Definition new_addr (l : label) : option Z :=
  match l with
  | LSetRandom _ a | LExtRandom _ _ a => Some a
  | _ => None
  end.

Lemma in_set_randoms : forall c a, In a (set_randoms c) <-> exists s, In s (c_sets c) /\ a_random s = Some a.
Proof.
  unfold set_randoms. intros c a. rewrite in_flat_map. split.
  - intros [s [Hs Ha]]. exists s. split; [assumption|]. destruct (a_random s); [|contradiction].
    destruct Ha as [->|[]]. reflexivity.
  - intros [s [Hs Ha]]. exists s. split; [assumption|]. rewrite Ha. now left.
Qed.

Lemma in_claims : forall c a, In a (claims c) <->
  a = c_public c \/ a = c_random c \/ (exists s, In s (c_sets c) /\ a_random s = Some a) \/
  (exists k, In k (c_le c) /\ k_self k = a).
Proof.
  intros c a. unfold claims. simpl. rewrite in_app_iff, in_set_randoms, in_map_iff.
  split.
  - intros [H|[H|[H|[k [H1 H2]]]]]; auto. right. right. right. eauto.
  - intros [H|[H|[H|[k [H1 H2]]]]]; auto. right. right. right. eauto.
Qed.

Lemma set_address_claimed : forall c s a, In s (c_sets c) -> set_address c s = Some a -> In a (claims c).
Proof.
  unfold set_address. intros c s a Hs H. apply in_claims. destruct (a_random s) eqn:Er, (a_params s) as [[|]|]; try discriminate.
  - inversion H. now left.
  - inversion H; subst. right. right. left. eauto.
  - inversion H. now left.
Qed.

(* which sets / entries a step can add *)
Lemma enable_sets_rand : forall hs l b s a, In s (enable_sets l b hs) -> a_random s = Some a ->
  exists s0, In s0 l /\ a_random s0 = Some a.
Proof.
  induction hs as [|h hs IH]; simpl; intros l b s a Hs Ha; [eauto|].
  destruct (set_get l h) as [s0|] eqn:G; [|eauto].
  destruct (IH _ _ _ _ Hs Ha) as [s1 [H1 H2]]. apply set_put_in in H1. destruct H1 as [->|H1]; [|eauto].
  apply set_get_in in G. exists s0. split; [tauto|]. destruct b; exact H2.
Qed.

Ltac claim_old := left; apply in_claims.

Lemma claims_message : forall cs n j c m c' e o a, on_message cs n j c m = (c', e, o) ->
  In a (claims c') -> In a (claims c).
Proof.
  intros cs n j c m c' e o a H Ha. apply in_claims in Ha. apply in_claims.
  assert (Hsame : c_public c' = c_public c -> c_random c' = c_random c -> c_sets c' = c_sets c -> c_le c' = c_le c ->
            a = c_public c \/ a = c_random c \/ (exists s, In s (c_sets c) /\ a_random s = Some a) \/
            (exists k, In k (c_le c) /\ k_self k = a)).
  { intros E1 E2 E3 E4. rewrite E1, E2, E3, E4 in Ha. exact Ha. }
  destruct m; simpl in H.
  - (* MAdv *) unfold on_adv, create_le_connection in H.
    destruct (c_pending c) as [[peer own]|]; [|inversion H; subst; auto].
    destruct (peer =? adv); [|inversion H; subst; auto].
    destruct (tbl_get (c_le c) adv); [inversion H; subst; auto|].
    destruct (alloc c) as [h|]; inversion H; subst; [|auto]. simpl in Ha.
    destruct Ha as [Ha|[Ha|[Ha|[k [Hk Hs]]]]]; auto.
    apply tbl_set_in_weak in Hk. destruct Hk as [->|Hk]; [|right; right; right; eauto].
    simpl in Hs. subst a. destruct own; auto.
  - (* MConnInd *) unfold on_connect_ind in H.
    destruct (andb (leg_address c =? adv) (c_leg_enabled c)) eqn:E.
    + destruct (alloc c) as [h|]; inversion H; subst; [|auto]. simpl in Ha.
      destruct Ha as [Ha|[Ha|[Ha|[k [Hk Hs]]]]]; auto.
      apply tbl_set_in_weak in Hk. destruct Hk as [->|Hk]; [|right; right; right; eauto].
      simpl in Hs. subst a. apply andb_true_iff in E. destruct E as [E _]. apply Z.eqb_eq in E. rewrite <- E.
      unfold leg_address. destruct (c_leg_pub c); auto.
    + destruct (find_set c (c_sets c) adv) as [s0|] eqn:F; [|inversion H; subst; auto].
      destruct (alloc c) as [h|]; inversion H; subst; [|auto]. simpl in Ha.
      apply find_set_in in F. destruct F as [F1 [F2 F3]].
      destruct Ha as [Ha|[Ha|[[s [Hs Hr]]|[k [Hk Hs]]]]]; auto.
      * apply set_put_in in Hs. destruct Hs as [->|Hs]; [|right; right; left; eauto].
        simpl in Hr. right. right. left. eauto.
      * apply tbl_set_in_weak in Hk. destruct Hk as [->|Hk]; [|right; right; right; eauto].
        simpl in Hs. subst a. apply in_claims. eapply set_address_claimed; eauto.
  - (* MTerm *) unfold on_terminate in H. destruct (tbl_get (c_le c) sender); inversion H; subst; [|auto].
    simpl in Ha. destruct Ha as [Ha|[Ha|[Ha|[k [Hk Hs]]]]]; auto.
    apply tbl_del_in in Hk. right; right; right; eauto.
  - unfold on_acl in H. destruct (tbl_get (if le then c_le c else c_cl c) src); inversion H; subst; auto.
  - unfold on_lmp_conn_req in H. inversion H; subst. auto.
  - unfold on_lmp_accepted in H. destruct (lmp_get (c_lmp c) sender) as [[|]|]; try (inversion H; subst; auto; fail).
    unfold classic_complete in H. destruct (alloc _); [|inversion H; subst; auto].
    destruct (tbl_get _ sender); inversion H; subst; auto.
  - unfold on_lmp_detach in H. destruct (tbl_get (c_cl c) sender); inversion H; subst; auto.
  - unfold on_lmp_esco_req in H. inversion H; subst. auto.
  - unfold on_lmp_accepted_esco in H. destruct (lmp_get (c_lmp_sco c) sender) as [[|]|]; try (inversion H; subst; auto; fail).
    unfold sco_complete in H. destruct (alloc _); inversion H; subst; auto.
  - unfold on_lmp_remove_sco in H. destruct (tbl_get (c_sco c) sender); inversion H; subst; auto.
Qed.

Lemma add_cis_claims : forall cis c cig c' hs ok, add_cis c cig cis = (c', hs, ok) -> claims c' = claims c.
Proof.
  induction cis as [|x cis IH]; simpl; intros c cig c' hs ok H.
  - now inversion H.
  - destruct (alloc c) as [h|]; [|now inversion H].
    destruct (add_cis (set_cis c (c_cis c ++ [(h, cig, x)])) cig cis) as [[c1 hs1] ok1] eqn:Hr.
    inversion H; subst. apply IH in Hr. exact Hr.
Qed.

Lemma claims_local : forall cs n i c l c' e o a, local cs n i c l = (c', e, o) ->
  In a (claims c') -> In a (claims c) \/ new_addr l = Some a.
Proof.
  intros cs n i c l c' e o a H Ha.
  assert (Hsame : claims c' = claims c -> In a (claims c) \/ new_addr l = Some a).
  { intros E. left. now rewrite <- E. }
  assert (Hput : forall s0 sets, c_public c' = c_public c -> c_random c' = c_random c -> c_le c' = c_le c ->
            c_sets c' = set_put (c_sets c) s0 ->
            (forall x, a_random s0 = Some x -> (exists s1, In s1 (c_sets c) /\ a_random s1 = Some x) \/ new_addr l = Some x) ->
            sets = c_sets c -> In a (claims c) \/ new_addr l = Some a).
  { intros s0 sets E1 E2 E3 E4 Hs0 _. apply in_claims in Ha. rewrite E1, E2, E3, E4 in Ha.
    destruct Ha as [Ha|[Ha|[[s [Hs Hr]]|Ha]]]; try (left; apply in_claims; auto; fail).
    apply set_put_in in Hs. destruct Hs as [->|Hs]; [|left; apply in_claims; right; right; left; eauto].
    destruct (Hs0 _ Hr) as [[s1 [H1 H2]]|Hn]; [left; apply in_claims; right; right; left; eauto | now right]. }
  destruct l; simpl in H.
  - (* LSetRandom *) inversion H; subst. apply in_claims in Ha. simpl in Ha.
    destruct Ha as [Ha|[Ha|Ha]]; [left; apply in_claims; auto | right; simpl; now subst | left; apply in_claims; auto].
  - inversion H; subst. apply Hsame. reflexivity.
  - inversion H; subst. apply Hsame. reflexivity.
  - inversion H; subst. apply Hsame. reflexivity.
  - inversion H; subst. apply Hsame. reflexivity.
  - (* LExtRandom *) inversion H; subst. eapply Hput; try reflexivity. simpl. intros x Hx. inversion Hx; subst. now right.
  - (* LExtParams *) inversion H; subst. eapply Hput; try reflexivity. simpl. intros x Hx. left.
    unfold get_or_new_set in Hx. destruct (set_get (c_sets c) h) as [s1|] eqn:G; [|discriminate].
    apply set_get_in in G. exists s1. tauto.
  - (* LExtData *) destruct (set_get (c_sets c) h) as [s1|] eqn:G; inversion H; subst; [|apply Hsame; reflexivity].
    eapply Hput; try reflexivity. simpl. intros x Hx. left. apply set_get_in in G. exists s1. tauto.
  - (* LExtSrsp *) destruct (set_get (c_sets c) h) as [s1|] eqn:G; inversion H; subst; [|apply Hsame; reflexivity].
    eapply Hput; try reflexivity. simpl. intros x Hx. left. apply set_get_in in G. exists s1. tauto.
  - (* LExtEnable *) left. apply in_claims in Ha. apply in_claims.
    assert (Hen : forall b' hs', c' = set_sets c (enable_sets (c_sets c) b' hs') ->
              a = c_public c \/ a = c_random c \/ (exists s, In s (c_sets c) /\ a_random s = Some a) \/
              (exists k, In k (c_le c) /\ k_self k = a)).
    { intros b' hs' ->. simpl in Ha. destruct Ha as [Ha|[Ha|[[s [Hs Hr]]|Ha]]]; auto.
      right. right. left. eapply enable_sets_rand; eauto. }
    assert (Hc' : c' = set_sets c (map disable_set (c_sets c)) \/
                  exists b' hs', c' = set_sets c (enable_sets (c_sets c) b' hs')).
    { destruct b, hs; inversion H; subst.
      - right. exists true, []. reflexivity.
      - right. exists true, (z :: hs). reflexivity.
      - now left.
      - right. exists false, (z :: hs). reflexivity. }
    destruct Hc' as [->|[b' [hs' Hc']]]; [|eapply Hen; exact Hc'].
    simpl in Ha. destruct Ha as [Ha|[Ha|[[s [Hs Hr]]|Ha]]]; auto.
    apply in_map_iff in Hs. destruct Hs as [s0 [<- Hs0]]. right. right. left. exists s0. auto.
  - (* LExtRemove *) inversion H; subst. left. apply in_claims in Ha. apply in_claims. simpl in Ha.
    destruct Ha as [Ha|[Ha|[[s [Hs Hr]]|Ha]]]; auto. apply set_del_in in Hs. right. right. left. eauto.
  - (* LExtClear *) inversion H; subst. left. apply in_claims in Ha. apply in_claims. simpl in Ha.
    destruct Ha as [Ha|[Ha|[[s [[] Hr]]|Ha]]]; auto.
  - unfold tick in H. destruct (andb (c_leg_enabled c) (c_leg_advind c)); inversion H; subst; apply Hsame; reflexivity.
  - unfold ext_tick in H. destruct (set_get (c_sets c) h) as [s0|]; [|inversion H; subst; apply Hsame; reflexivity].
    destruct (a_enabled s0); [|inversion H; subst; apply Hsame; reflexivity].
    destruct (set_address c s0); inversion H; subst; apply Hsame; reflexivity.
  - destruct (c_scan c); inversion H; subst; apply Hsame; reflexivity.
  - inversion H; subst. apply Hsame. reflexivity.
  - destruct (c_pending c); inversion H; subst; apply Hsame; reflexivity.
  - destruct (c_pending c) as [[pp po]|]; inversion H; subst; apply Hsame; reflexivity.
  - unfold send_acl in H. destruct (conn_by_handle c h) as [[[|] k]|]; [| |inversion H; subst; apply Hsame; reflexivity].
    + destruct (find_le cs (k_peer k)); inversion H; subst; apply Hsame; reflexivity.
    + destruct (find_classic cs (k_peer k)); inversion H; subst; apply Hsame; reflexivity.
  - (* LDisconnect *) left. destruct (disconnect_cases _ _ _ _ _ _ _ _ H) as [->|[[k ->]|[[k ->]|[k ->]]]]; auto.
    apply in_claims in Ha. apply in_claims. simpl in Ha.
    destruct Ha as [Ha|[Ha|[Ha|[k0 [Hk Hs]]]]]; auto. apply tbl_del_in in Hk. right; right; right; eauto.
  - unfold cl_connect in H. destruct (c_pending c); [inversion H; subst; apply Hsame; reflexivity|].
    match type of H with (if ?b then _ else _) = _ => destruct b end; [inversion H; subst; apply Hsame; reflexivity|].
    destruct (find_classic cs peer); inversion H; subst; apply Hsame; reflexivity.
  - unfold cl_accept in H. destruct (tbl_get (c_cl c) peer); [|inversion H; subst; apply Hsame; reflexivity].
    unfold classic_complete in H. destruct (alloc c); [|inversion H; subst; apply Hsame; reflexivity].
    destruct (tbl_get (c_cl c) peer); inversion H; subst; apply Hsame; reflexivity.
  - unfold sco_setup in H. destruct (conn_by_handle c h) as [[b k]|]; inversion H; subst; apply Hsame; reflexivity.
  - unfold sco_accept in H. destruct (tbl_get (c_cl c) peer); [|inversion H; subst; apply Hsame; reflexivity].
    unfold sco_complete in H. destruct (alloc c); inversion H; subst; apply Hsame; reflexivity.
  - unfold set_cig in H.
    destruct (add_cis (set_cis c (filter (not_cig cig) (c_cis c))) cig cis) as [[c1 hs] ok] eqn:Hc.
    inversion H; subst. apply add_cis_claims in Hc. apply Hsame. rewrite Hc. reflexivity.
  - inversion H; subst. apply Hsame. reflexivity.
  - inversion H; subst. apply Hsame. reflexivity.
Qed.

Lemma fresh_for_spec : forall cs n i a, fresh_for cs n i a = true ->
  forall j cj, nth_error cs j = Some cj -> (n + j)%nat <> i -> ~ In a (claims cj).
Proof.
  induction cs as [|c cs IH]; cbn [fresh_for nth_error]; intros n i a H j cj Hj Hne; [destruct j; discriminate|].
  apply andb_true_iff in H. destruct H as [H1 H2]. destruct j as [|j]; cbn [nth_error] in Hj.
  -  inversion Hj; subst. apply orb_true_iff in H1. destruct H1 as [H1|H1].
    + apply Nat.eqb_eq in H1. lia.
    + apply negb_true_iff in H1. intro Hin. apply zmem_in in Hin. congruence.
  - apply (IH (S n) i a H2 j cj Hj). lia.
Qed.

Lemma dinv_update : forall s i c c' net' l,
  dinv s -> nth_error (st_cs s) i = Some c -> cinv c' ->
  (forall a, In a (claims c') -> In a (claims c) \/ new_addr l = Some a) ->
  (forall a, new_addr l = Some a -> forall j cj, nth_error (st_cs s) j = Some cj -> j <> i -> ~ In a (claims cj)) ->
  dinv (mkState (upd (st_cs s) i c') net').
Proof.
  intros s i c c' net' l [Dc Dd] Hi Hci Hcl Hfresh. constructor; simpl.
  - intros j cj Hj. rewrite (nth_upd _ _ _ _ _ Hi) in Hj. destruct (Nat.eqb i j); [inversion Hj; subst; auto | eauto].
  - intros x y cx cy a Hx Hy Hax Hay.
    rewrite (nth_upd _ _ x _ _ Hi) in Hx. rewrite (nth_upd _ _ y _ _ Hi) in Hy.
    destruct (Nat.eqb i x) eqn:Ex; destruct (Nat.eqb i y) eqn:Ey.
    + apply Nat.eqb_eq in Ex, Ey. congruence.
    + apply Nat.eqb_eq in Ex. apply Nat.eqb_neq in Ey. subst x. inversion Hx; subst cx.
      destruct (Hcl _ Hax) as [Hold|Hnew].
      * exact (Dd i y c cy a Hi Hy Hold Hay).
      * exfalso. eapply (Hfresh a Hnew y cy); eauto.
    + apply Nat.eqb_eq in Ey. apply Nat.eqb_neq in Ex. subst y. inversion Hy; subst cy.
      destruct (Hcl _ Hay) as [Hold|Hnew].
      * exact (Dd x i cx c a Hx Hi Hax Hold).
      * exfalso. eapply (Hfresh a Hnew x cx); eauto.
    + exact (Dd x y cx cy a Hx Hy Hax Hay).
Qed.

Lemma dinv_step : forall s l s' evs out, dinv s -> guard_fresh s l = true ->
  step s l = (s', evs, out) -> dinv s'.
Proof.
  intros s l s' evs out D G H. apply step_shape in H. destruct H.
  - now subst.
  - subst s'. eapply dinv_update with (l := l); eauto.
    + eapply cinv_local; eauto. exact (d_c s D _ _ H0).
    + intros a Ha. eapply claims_local; eauto.
    + intros a Hn j cj Hj Hne. unfold guard_fresh in G.
      destruct l; simpl in Hn; try discriminate; inversion Hn; subst; simpl in H; inversion H; subst;
        eapply (fresh_for_spec _ 0%nat _ _ G); eauto.
  - subst s'. eapply dinv_update with (l := LDeliver k); eauto.
    + eapply cinv_message; eauto. exact (d_c s D _ _ H2).
    + intros a Ha. left. eapply claims_message; eauto.
    + intros a Hn. discriminate.
  - subst s'. destruct D as [Dc Dd]. constructor; simpl; auto.
Qed.

Lemma dinv_run : forall ls s, dinv s -> run_ok guard_fresh s ls = true -> dinv (run_state s ls).
Proof.
  induction ls as [|l ls IH]; intros s I H.
  - exact I.
  - rewrite run_state_cons. simpl in H. apply andb_true_iff in H. destruct H as [G H].
    apply IH; [|exact H]. destruct (step s l) as [[s1 e] o] eqn:Hs. simpl. eapply dinv_step; eauto.
Qed.

Lemma dinv_init : forall cfg, cfg_ok cfg = true -> dinv (init cfg).
Proof.
  intros cfg H. pose proof (ginv_init cfg H) as G. constructor.
  - intros i c Hc. exact (proj1 (g_c _ G i c Hc)).
  - intros i j ci cj a Hi Hj Hai Haj.
    assert (Hnew : forall k c, nth_error (st_cs (init cfg)) k = Some c -> forall x, In x (claims c) -> owns c x).
    { unfold init; simpl. intros k c Hc x Hx. rewrite nth_error_map in Hc.
      destruct (nth_error cfg k) as [[[p r] e]|]; [|discriminate]. simpl in Hc. inversion Hc; subst.
      unfold claims in Hx. simpl in Hx. destruct Hx as [<-|[<-|[]]]; [now left | now right]. }
    eapply (g_uniq _ G i j ci cj a); eauto.
Qed.

(* Every state reachable from a configuration with pairwise distinct addresses, by any schedule
   in which controllers only take addresses that nobody else uses (the random address may
   change while connected, advertising sets may have their own), satisfies the dynamic
   invariant, hence the routing invariant. *)
Theorem reachable_dinv : forall cfg ls, cfg_ok cfg = true ->
  run_ok guard_fresh (init cfg) ls = true -> dinv (run_state (init cfg) ls).
Proof. intros. apply dinv_run; [now apply dinv_init | assumption]. Qed.

Theorem reachable_rinv : forall cfg ls, cfg_ok cfg = true ->
  run_ok guard_fresh (init cfg) ls = true -> rinv (run_state (init cfg) ls).
Proof. intros. apply dinv_rinv. now apply reachable_dinv. Qed.

