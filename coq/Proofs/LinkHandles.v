(* Obligations about the regenerated table lists of coq/Gen/C06Handles.v (property C06):
   re-checked on every run against the current bumble/controller.py. *)
From Coq Require Import String List Bool.
From BV Require Import Gen.C06Handles.
Import ListNotations.
Open Scope string_scope.

Definition smem (x : string) (l : list string) : bool := existsb (String.eqb x) l.

(* the tables the model's [handles] ranges over, and the one it leaves out because no
   modelled label ever puts a link into it *)
Definition model_handle_tables : list string :=
  ["le_connections"; "classic_connections"; "sco_links"; "central_cis_links"].
Definition model_always_empty : list string := ["peripheral_cis_links"].

(* Controller.allocate_connection_handle consults every table in which a connection handle
   can be resolved *)
Lemma alloc_consults_every_handle_table :
  forallb (fun t => smem t code_alloc_tables) code_handle_tables = true.
Proof. vm_compute. reflexivity. Qed.

(* ... and the model knows every such table *)
Lemma model_knows_every_handle_table :
  forallb (fun t => smem t (model_handle_tables ++ model_always_empty)) code_handle_tables = true
  /\ forallb (fun t => smem t code_handle_tables) (model_handle_tables ++ model_always_empty) = true.
Proof. vm_compute. split; reflexivity. Qed.
