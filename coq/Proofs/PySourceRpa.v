(* C14 - the resolvable-private-address models equal the denotation of the current source of
   hci.Address.generate_private_address / is_resolvable and helpers.verify_rpa_with_irk.
   (smp.AddressResolver.resolve contains a loop: fingerprint + correspondence.) *)
From Coq Require Import ZArith List Bool String Lia ZifyBool.
From BV Require Import Model.CryptoBytes Model.PyAst Model.SmToolbox Gen.C14Source Proofs.CryptoBytes.
From BV Require Import Proofs.PySourceToolbox.
Import ListNotations.
Open Scope string_scope.
Open Scope list_scope.
Open Scope Z_scope.

Section Rpa.
  Variable e : list Z -> list Z -> list Z.
  Variable tokens : list Z.          (* what secrets.token_bytes(6) returns *)

  Definition prim_rpa (f : string) (args : list val) : val :=
    if any_err args then VErr else
    if String.eqb f "crypto.generate_prand" then VBytes (prand_of tokens) else
    if String.eqb f "crypto.ah" then match args with [VBytes k; VBytes r] => VBytes (ah e k r) | _ => VErr end else
    if String.eqb f "secrets.token_bytes" then match args with [VInt 6] => VBytes tokens | _ => VErr end else
    if String.eqb f "bytes" then
      match args with
      | [VBytes b] => VBytes b                       (* bytes(address) = address.address_bytes *)
      | [VTuple l] => match ints_of l with Some zs => match bytes_of zs with Some b => VBytes b | None => VErr end | None => VErr end
      | _ => VErr
      end else
    if String.eqb f "Address" then match args with [VBytes b; VInt t] => VTuple [VBytes b; VInt t] | _ => VErr end else
    VErr.

  Definition run (init : env) (ps : list string) (body : list stmt) (args : list val) : val :=
    result_of (call prim_rpa no_attr no_op no_meth 30 init ps body args).

  Ltac py :=
    unfold run, call;
    cbv -[Z.eqb Z.ltb Z.leb Z.add Z.sub Z.mul Z.lxor Z.land Z.lor Z.shiftl Z.shiftr Z.to_nat Z.of_nat
          len py_slice py_splice rev app zeros nth ah prand_of bytes_ok list_eqb].

  Definition class_env : env := [("Address.RANDOM_DEVICE_ADDRESS", VInt 1)].

  Theorem generate_private_address_resolvable_matches_source : forall irk,
    (len irk =? 0) = false ->
    run class_env src_generate_private_address_params src_generate_private_address [VStr "cls"; VBytes irk] =
    VTuple [VBytes (rpa_generate e irk tokens); VInt 1].
  Proof. intros irk H. py. rewrite H. reflexivity. Qed.

  Lemma land63_ok : forall b, byte_ok (Z.land b 63) = true.
  Proof.
    intros b. apply byte_ok_iff. change 63 with (Z.ones 6). rewrite Z.land_ones by lia.
    pose proof (Z.mod_pos_bound b (2 ^ 6)). lia.
  Qed.

  Theorem generate_private_address_non_resolvable_matches_source :
    List.length tokens = 6%nat ->
    run class_env src_generate_private_address_params src_generate_private_address [VStr "cls"; VBytes []] =
    VTuple [VBytes (nrpa_generate tokens); VInt 1].
  Proof.
    intros H. py. change (len [] =? 0) with true. change (0 <=? 5) with true. cbv iota.
    replace (5 <? len tokens) with true by (unfold len; lia).
    py. unfold nrpa_generate. cbn [bytes_ok forallb]. rewrite land63_ok. reflexivity.
  Qed.

  Theorem is_resolvable_matches_source : forall t b, List.length b = 6%nat ->
    run [("self.address_type", VInt t); ("self.RANDOM_DEVICE_ADDRESS", VInt 1); ("self.address_bytes", VBytes b)]
        src_is_resolvable_params src_is_resolvable [VStr "address"] =
    VBool ((t =? 1) && is_resolvable_bytes b).
  Proof.
    intros t b H. py. change (0 <=? 5) with true. cbv iota.
    replace (5 <? len b) with true by (unfold len; lia). py.
    unfold is_resolvable_bytes. destruct (t =? 1); reflexivity.
  Qed.

  Theorem verify_rpa_with_irk_matches_source : forall addr irk,
    run [] src_verify_rpa_with_irk_params src_verify_rpa_with_irk [VBytes addr; VBytes irk] =
    VBool (list_eqb (py_slice (ah e irk (py_from addr 3)) 0 3) (py_slice addr 0 3)).
  Proof. intros. py. reflexivity. Qed.

  (* for a 6-byte address this is the model's rpa_matches *)
  Lemma verify_rpa_is_rpa_matches : forall addr irk, List.length addr = 6%nat ->
    list_eqb (py_slice (ah e irk (py_from addr 3)) 0 3) (py_slice addr 0 3) = rpa_matches e irk addr.
  Proof.
    intros addr irk H. unfold rpa_matches, py_from. replace (len addr) with 6 by (unfold len; lia).
    f_equal. unfold ah.
    set (X := e irk (py_slice addr 3 6 ++ zeros 13)).
    change (py_upto (py_upto X 3) 3 = py_upto X 3). rewrite !py_upto_nonneg by lia.
    rewrite firstn_firstn. reflexivity.
  Qed.
End Rpa.
