(* Symmetry of the BR/EDR connection tables (property C06): the pair protocol
   idle -> requesting -> requested -> accepted -> connected -> closing -> idle
   as an inductive invariant over the n-controller system of Model/Link.v. *)
From Coq Require Import ZArith List Bool Lia Arith.
From BV Require Import Model.Link Proofs.Link Proofs.LinkSym.
Import ListNotations.
Open Scope Z_scope.

(* ------------------------------------------------------------------ the pair protocol *)
Definition ent (ci cj : ctrl) : option conn := tbl_get (c_cl ci) (c_public cj).
Definition fut (ci cj : ctrl) : option bool := lmp_get (c_lmp ci) (c_public cj).

Definition settled (f : option bool) : Prop := f <> Some false.

(* i has started something that j (or i) has not finished: the connection set-up it
   initiated, or a disconnection *)
Definition chalf (ei ej : option conn) (fi fj : option bool) (rij rji : list packet)
                 (i j : nat) (pi pj : Z) : Prop :=
  settled fj /\
  ((exists k, ei = Some k /\ k_handle k = 0 /\ k_central k = true /\ fi = Some false /\ ej = None /\
              rij = [(i, j, MLmpConnReq pi)] /\ rji = [])
   \/ (exists k k', ei = Some k /\ k_handle k = 0 /\ k_central k = true /\ fi = Some false /\
              ej = Some k' /\ k_handle k' = 0 /\ k_central k' = false /\ rij = [] /\ rji = [])
   \/ (exists k k', ei = Some k /\ k_handle k = 0 /\ k_central k = true /\ fi = Some false /\
              ej = Some k' /\ k_handle k' <> 0 /\ k_central k' = false /\ rij = [] /\ rji = [(j, i, MLmpAccepted pj)])
   \/ (exists k' r, ei = None /\ settled fi /\ ej = Some k' /\ k_handle k' <> 0 /\
              rij = [(i, j, MLmpDetach pi r)] /\ rji = [])).

Definition cst (ei ej : option conn) (fi fj : option bool) (rij rji : list packet)
               (i j : nat) (pi pj : Z) : Prop :=
  (ei = None /\ ej = None /\ rij = [] /\ rji = [] /\ settled fi /\ settled fj)
  \/ (exists k k', ei = Some k /\ ej = Some k' /\ k_handle k <> 0 /\ k_handle k' <> 0 /\
        k_central k' = negb (k_central k) /\ rij = [] /\ rji = [] /\ settled fi /\ settled fj)
  \/ chalf ei ej fi fj rij rji i j pi pj \/ chalf ej ei fj fi rji rij j i pj pi.

Lemma cst_sym : forall ei ej fi fj rij rji i j pi pj,
  cst ei ej fi fj rij rji i j pi pj -> cst ej ei fj fi rji rij j i pj pi.
Proof.
  unfold cst. intros ei ej fi fj rij rji i j pi pj [H|[H|[H|H]]].
  - left. tauto.
  - right. left. destruct H as [k [k' [H1 [H2 [H3 [H4 [H5 [H6 [H7 [H8 H9]]]]]]]]]]. exists k', k.
    repeat split; auto. rewrite H5. now rewrite negb_involutive.
  - right. right. now right.
  - right. right. now left.
Qed.

Definition cpair_ok (s : state) (i j : nat) (ci cj : ctrl) : Prop :=
  cst (ent ci cj) (ent cj ci) (fut ci cj) (fut cj ci) (crel s i j) (crel s j i) i j (c_public ci) (c_public cj).

Record cinvs (s : state) : Prop := mkCinvs {
  cs_g : ginv s;
  cs_bc : forall src dst m, In (src, dst, m) (st_net s) -> is_cctl m = true -> src <> dst;
  cs_pair : forall i j ci cj, i <> j -> nth_error (st_cs s) i = Some ci ->
            nth_error (st_cs s) j = Some cj -> cpair_ok s i j ci cj
}.

(* ------------------------------------------------------------------ small facts *)
Lemma crel_pkt_true : forall x y s d m, crel_pkt x y (s, d, m) = true -> s = x /\ d = y /\ is_cctl m = true.
Proof.
  intros x y s d m H. unfold crel_pkt in H. apply andb_true_iff in H. destruct H as [H1 H2].
  apply andb_true_iff in H1. destruct H1 as [H0 H1]. apply Nat.eqb_eq in H0, H1. auto.
Qed.

Lemma crel_pkt_self : forall s d m, is_cctl m = true -> crel_pkt s d (s, d, m) = true.
Proof. intros. unfold crel_pkt. now rewrite !Nat.eqb_refl, H. Qed.

Definition no_cctl (o : list packet) : Prop := forall s d m, In (s, d, m) o -> is_cctl m = false.

Lemma no_cctl_crel : forall x y out, no_cctl out -> forall q, In q out -> crel_pkt x y q = false.
Proof.
  intros x y out H [[s d] m] Hin. destruct (crel_pkt x y (s, d, m)) eqn:E; [|reflexivity].
  apply crel_pkt_true in E. destruct E as [_ [_ Hm]]. rewrite (H _ _ _ Hin) in Hm. discriminate.
Qed.

Lemma lmp_get_set_same : forall l p d, lmp_get (lmp_set l p d) p = Some d.
Proof.
  induction l as [|[q d0] l IH]; simpl; intros p d.
  - now rewrite Z.eqb_refl.
  - destruct (q =? p) eqn:E; simpl; [now rewrite E | now rewrite E].
Qed.

Lemma lmp_get_set_other : forall l p q d, q <> p -> lmp_get (lmp_set l p d) q = lmp_get l q.
Proof.
  induction l as [|[r d0] l IH]; simpl; intros p q d Hne.
  - destruct (p =? q) eqn:E; [apply Z.eqb_eq in E; congruence | reflexivity].
  - destruct (r =? p) eqn:E; simpl.
    + apply Z.eqb_eq in E. subst r. destruct (p =? q) eqn:E1; [apply Z.eqb_eq in E1; congruence | reflexivity].
    + destruct (r =? q); [reflexivity | now apply IH].
Qed.

Lemma pub_neq : forall s i j ci cj, ginv s -> nth_error (st_cs s) i = Some ci -> nth_error (st_cs s) j = Some cj ->
  i <> j -> c_public ci <> c_public cj.
Proof.
  intros s i j ci cj G Hi Hj Hne E. apply Hne.
  eapply (g_uniq s G i j ci cj (c_public ci)); eauto; [now left | rewrite E; now left].
Qed.

Lemma find_classic_some : forall s a j, find_classic (st_cs s) a = Some j ->
  exists cj, nth_error (st_cs s) j = Some cj /\ c_public cj = a.
Proof.
  intros s a j H. unfold find_classic in H. apply find_index_some in H. destruct H as [cj [H1 [H2 _]]].
  rewrite Nat.sub_0_r in H1. apply Z.eqb_eq in H2. eauto.
Qed.

(* ------------------------------------------------------------------ generic re-establishment *)
Lemma cinvs_update : forall s i0 c c' net',
  cinvs s -> ginv (mkState (upd (st_cs s) i0 c') net') ->
  nth_error (st_cs s) i0 = Some c -> c_public c' = c_public c ->
  (forall src dst m, In (src, dst, m) net' -> is_cctl m = true -> src <> dst) ->
  (forall y cy, y <> i0 -> nth_error (st_cs s) y = Some cy ->
        cst (ent c' cy) (ent cy c') (fut c' cy) (fut cy c')
            (filter (crel_pkt i0 y) net') (filter (crel_pkt y i0) net') i0 y (c_public c') (c_public cy)) ->
  (forall x y, x <> i0 -> y <> i0 -> filter (crel_pkt x y) net' = filter (crel_pkt x y) (st_net s)) ->
  cinvs (mkState (upd (st_cs s) i0 c') net').
Proof.
  intros s i0 c c' net' S G' Hi Hp Hbc Hp0 Hframe.
  assert (Hnth : forall y cy', nth_error (upd (st_cs s) i0 c') y = Some cy' ->
            (y = i0 /\ cy' = c') \/ (y <> i0 /\ nth_error (st_cs s) y = Some cy')).
  { intros y cy' Hy. rewrite (nth_upd _ _ _ _ _ Hi) in Hy. destruct (Nat.eqb i0 y) eqn:E.
    - apply Nat.eqb_eq in E. inversion Hy; subst. now left.
    - apply Nat.eqb_neq in E. right. split; [congruence | assumption]. }
  constructor; simpl; auto.
  intros i j ci cj Hij Hci Hcj. unfold cpair_ok, crel. simpl.
  destruct (Hnth _ _ Hci) as [[-> ->]|[Hni Hci0]]; destruct (Hnth _ _ Hcj) as [[-> ->]|[Hnj Hcj0]].
  - congruence.
  - apply Hp0; auto.
  - apply cst_sym. apply Hp0; auto.
  - rewrite !Hframe by auto. exact (cs_pair s S _ _ _ _ Hij Hci0 Hcj0).
Qed.

(* a step that leaves the classic table and the futures of i0 alone and sends / takes no
   connection-management LMP message *)
Lemma cinvs_neutral : forall s i0 c c' net' out,
  cinvs s -> ginv (mkState (upd (st_cs s) i0 c') (net' ++ out)) ->
  nth_error (st_cs s) i0 = Some c -> c_public c' = c_public c -> c_cl c' = c_cl c -> c_lmp c' = c_lmp c ->
  no_cctl out ->
  (forall p, In p net' -> In p (st_net s)) ->
  (forall x y, filter (crel_pkt x y) net' = filter (crel_pkt x y) (st_net s)) ->
  cinvs (mkState (upd (st_cs s) i0 c') (net' ++ out)).
Proof.
  intros s i0 c c' net' out S G' Hi Hp Hcl Hlmp Hnc Hsub Hrel.
  assert (Hf : forall x y, filter (crel_pkt x y) (net' ++ out) = filter (crel_pkt x y) (st_net s)).
  { intros x y. rewrite filter_app, (filter_none _ out (no_cctl_crel x y out Hnc)), app_nil_r. apply Hrel. }
  eapply cinvs_update; eauto.
  - intros src dst m Hin Hm. apply in_app_or in Hin. destruct Hin as [Hin|Hin].
    + eapply (cs_bc s S); eauto.
    + rewrite (Hnc _ _ _ Hin) in Hm. discriminate.
  - intros y cy Hy Hcy. rewrite !Hf. unfold ent, fut. rewrite Hcl, Hlmp, Hp.
    exact (cs_pair s S _ _ _ _ (not_eq_sym Hy) Hi Hcy).
Qed.

(* ------------------------------------------------------------------ what a step does to the classic table *)
Ltac solve_no_cctl :=
  let Hin := fresh "Hin" in
  intros ? ? ? Hin;
  first [ contradiction
        | apply broadcast_src in Hin; destruct Hin as [_ ->]; reflexivity
        | simpl in Hin; repeat (destruct Hin as [Hin|Hin]; [inversion Hin; reflexivity|]); contradiction ].

Definition cl_label (l : label) : bool :=
  match l with LClConnect _ _ | LClAccept _ _ | LDisconnect _ _ _ | LSetCig _ _ _ => true | _ => false end.

Lemma local_cl_neutral : forall cs n i c l c' e o, local cs n i c l = (c', e, o) -> cl_label l = false ->
  c_cl c' = c_cl c /\ c_lmp c' = c_lmp c /\ no_cctl o.
Proof.
  intros cs n i c l c' e o H Hl.
  destruct l; try discriminate; simpl in H; unfold_handlers H; break_all; inv_pairs;
    (split; [reflexivity|]; split; [reflexivity | solve_no_cctl]).
Qed.

Lemma setcig_cl_neutral : forall c cig cis c' e o, set_cig c cig cis = (c', e, o) ->
  c_cl c' = c_cl c /\ c_lmp c' = c_lmp c /\ no_cctl o.
Proof.
  unfold set_cig. intros c cig cis c' e o H.
  destruct (add_cis (set_cis c (filter (not_cig cig) (c_cis c))) cig cis) as [[c1 hs] ok] eqn:Ha.
  inversion H; subst.
  assert (Hg : forall cis0 c0 c2 hs0 ok0, add_cis c0 cig cis0 = (c2, hs0, ok0) -> c_cl c2 = c_cl c0 /\ c_lmp c2 = c_lmp c0).
  { induction cis0 as [|x cis0 IH]; simpl; intros c0 c2 hs0 ok0 H0.
    - inversion H0; subst. auto.
    - destruct (alloc c0) as [h|]; [|inversion H0; subst; auto].
      destruct (add_cis (set_cis c0 (c_cis c0 ++ [(h, cig, x)])) cig cis0) as [[c3 hs3] ok3] eqn:Hr.
      inversion H0; subst. apply IH in Hr. exact Hr. }
  destruct (Hg _ _ _ _ _ Ha) as [H1 H2]. split; [exact H1|]. split; [exact H2 | intros ? ? ? []].
Qed.

Lemma disconnect_cl_effect : forall cs i c h r c' e o, disconnect cs i c h r = (c', e, o) ->
  match by_handle (c_cl c) h with
  | Some k => c_cl c' = tbl_del (c_cl c) (k_peer k) /\ c_lmp c' = c_lmp c /\
              o = match find_classic cs (k_peer k) with None => [] | Some j => [(i, j, MLmpDetach (c_public c) r)] end
  | None => c_cl c' = c_cl c /\ c_lmp c' = c_lmp c /\ no_cctl o
  end.
Proof.
  intros cs i c h r c' e o H. unfold disconnect in H.
  destruct (by_handle (c_cl c) h) as [k|] eqn:B.
  - assert (Hc : conn_by_handle c h <> None).
    { unfold conn_by_handle. rewrite B. destruct (by_handle (c_le c) h); discriminate. }
    destruct (conn_by_handle c h); [|congruence]. inversion H; subst. auto.
  - destruct (conn_by_handle c h); destruct (by_handle (c_le c) h); destruct (by_handle (c_sco c) h);
      inversion H; subst; (split; [reflexivity|]; split; [reflexivity|]); try (intros ? ? ? []);
      try (destruct (find_le cs (k_peer _)); solve_no_cctl); try (destruct (find_classic cs (k_peer _)); solve_no_cctl).
Qed.

Lemma message_cl_neutral : forall cs n j c m c' e o, on_message cs n j c m = (c', e, o) -> is_cctl m = false ->
  c_cl c' = c_cl c /\ c_lmp c' = c_lmp c /\ no_cctl o.
Proof.
  intros cs n j c m c' e o H Hm.
  destruct m; try discriminate; simpl in H; unfold_handlers H; break_all; inv_pairs;
    (split; [reflexivity|]; split; [reflexivity | solve_no_cctl]).
Qed.

(* ------------------------------------------------------------------ recognising the state of a pair *)
Lemma cst_with_connreq : forall ei ej fi fj rij rji i j pi pj a,
  cst ei ej fi fj rij rji i j pi pj -> In (i, j, MLmpConnReq a) rij ->
  settled fj /\ exists k, ei = Some k /\ k_handle k = 0 /\ k_central k = true /\ fi = Some false /\ ej = None /\
    rij = [(i, j, MLmpConnReq pi)] /\ rji = [] /\ a = pi.
Proof.
  intros ei ej fi fj rij rji i j pi pj a [H|[H|[H|H]]] Hin.
  - destruct H as [_ [_ [-> _]]]. contradiction.
  - destruct H as [k [k' [_ [_ [_ [_ [_ [-> _]]]]]]]]. contradiction.
  - destruct H as [Hs [H|[H|[H|H]]]].
    + destruct H as [k [H1 [H2 [H3 [H4 [H5 [H6 H7]]]]]]]. rewrite H6 in Hin. destruct Hin as [Hin|[]].
      inversion Hin; subst. split; [assumption|]. exists k. repeat split; auto.
    + destruct H as [k [k' [_ [_ [_ [_ [_ [_ [_ [-> _]]]]]]]]]]. contradiction.
    + destruct H as [k [k' [_ [_ [_ [_ [_ [_ [_ [-> _]]]]]]]]]]. contradiction.
    + destruct H as [k' [r [_ [_ [_ [_ [-> _]]]]]]]. destruct Hin as [Hin|[]]. discriminate.
  - destruct H as [Hs [H|[H|[H|H]]]].
    + destruct H as [k [_ [_ [_ [_ [_ [_ ->]]]]]]]. contradiction.
    + destruct H as [k [k' [_ [_ [_ [_ [_ [_ [_ [_ ->]]]]]]]]]]. contradiction.
    + destruct H as [k [k' [_ [_ [_ [_ [_ [_ [_ [_ ->]]]]]]]]]]. destruct Hin as [Hin|[]]. discriminate.
    + destruct H as [k' [r [_ [_ [_ [_ [_ ->]]]]]]]. contradiction.
Qed.

Lemma cst_with_accepted : forall ei ej fi fj rij rji i j pi pj a,
  cst ei ej fi fj rij rji i j pi pj -> In (j, i, MLmpAccepted a) rji ->
  settled fj /\ exists k k', ei = Some k /\ k_handle k = 0 /\ k_central k = true /\ fi = Some false /\
    ej = Some k' /\ k_handle k' <> 0 /\ k_central k' = false /\ rij = [] /\ rji = [(j, i, MLmpAccepted pj)].
Proof.
  intros ei ej fi fj rij rji i j pi pj a [H|[H|[H|H]]] Hin.
  - destruct H as [_ [_ [_ [-> _]]]]. contradiction.
  - destruct H as [k [k' [_ [_ [_ [_ [_ [_ [-> _]]]]]]]]]. contradiction.
  - destruct H as [Hs [H|[H|[H|H]]]].
    + destruct H as [k [_ [_ [_ [_ [_ [_ ->]]]]]]]. contradiction.
    + destruct H as [k [k' [_ [_ [_ [_ [_ [_ [_ [_ ->]]]]]]]]]]. contradiction.
    + destruct H as [k [k' [H1 [H2 [H3 [H4 [H5 [H6 [H7 [H8 H9]]]]]]]]]].
      split; [assumption|]. exists k, k'. repeat split; auto.
    + destruct H as [k' [r [_ [_ [_ [_ [_ ->]]]]]]]. contradiction.
  - destruct H as [Hs [H|[H|[H|H]]]].
    + destruct H as [k [_ [_ [_ [_ [_ [-> _]]]]]]]. destruct Hin as [Hin|[]]. discriminate.
    + destruct H as [k [k' [_ [_ [_ [_ [_ [_ [_ [-> _]]]]]]]]]]. contradiction.
    + destruct H as [k [k' [_ [_ [_ [_ [_ [_ [_ [-> _]]]]]]]]]]. contradiction.
    + destruct H as [k' [r [_ [_ [_ [_ [-> _]]]]]]]. destruct Hin as [Hin|[]]. discriminate.
Qed.

Lemma cst_with_detach : forall ei ej fi fj rij rji i j pi pj a r,
  cst ei ej fi fj rij rji i j pi pj -> In (i, j, MLmpDetach a r) rij ->
  settled fi /\ settled fj /\ ei = None /\ exists k', ej = Some k' /\ k_handle k' <> 0 /\
    rij = [(i, j, MLmpDetach a r)] /\ rji = [].
Proof.
  intros ei ej fi fj rij rji i j pi pj a r [H|[H|[H|H]]] Hin.
  - destruct H as [_ [_ [-> _]]]. contradiction.
  - destruct H as [k [k' [_ [_ [_ [_ [_ [-> _]]]]]]]]. contradiction.
  - destruct H as [Hs [H|[H|[H|H]]]].
    + destruct H as [k [_ [_ [_ [_ [_ [-> _]]]]]]]. destruct Hin as [Hin|[]]. discriminate.
    + destruct H as [k [k' [_ [_ [_ [_ [_ [_ [_ [-> _]]]]]]]]]]. contradiction.
    + destruct H as [k [k' [_ [_ [_ [_ [_ [_ [_ [-> _]]]]]]]]]]. contradiction.
    + destruct H as [k' [r' [H1 [H2 [H3 [H4 [H5 H6]]]]]]]. rewrite H5 in Hin. destruct Hin as [Hin|[]].
      inversion Hin; subst. repeat split; auto. exists k'. repeat split; auto.
  - destruct H as [Hs [H|[H|[H|H]]]].
    + destruct H as [k [_ [_ [_ [_ [_ [_ ->]]]]]]]. contradiction.
    + destruct H as [k [k' [_ [_ [_ [_ [_ [_ [_ [_ ->]]]]]]]]]]. contradiction.
    + destruct H as [k [k' [_ [_ [_ [_ [_ [_ [_ [_ ->]]]]]]]]]]. destruct Hin as [Hin|[]]. discriminate.
    + destruct H as [k' [r' [_ [_ [_ [_ [_ ->]]]]]]]. contradiction.
Qed.

(* j holds a waiting request (handle 0, peripheral) filed under i's address: the pair is in
   the "requested" state *)
Lemma cst_with_waiting_request : forall ei ej fi fj rij rji i j pi pj k',
  cst ei ej fi fj rij rji i j pi pj -> ej = Some k' -> k_handle k' = 0 -> k_central k' = false ->
  settled fj /\ exists k, ei = Some k /\ k_handle k = 0 /\ k_central k = true /\ fi = Some false /\ rij = [] /\ rji = [].
Proof.
  intros ei ej fi fj rij rji i j pi pj k' [H|[H|[H|H]]] He Hh Hc.
  - destruct H as [_ [H _]]. congruence.
  - destruct H as [k [k2 [_ [H2 [_ [H4 _]]]]]]. rewrite He in H2. inversion H2; subst. contradiction.
  - destruct H as [Hs [H|[H|[H|H]]]].
    + destruct H as [k [_ [_ [_ [_ [H _]]]]]]. congruence.
    + destruct H as [k [k2 [H1 [H2 [H3 [H4 [H5 [H6 [H7 [H8 H9]]]]]]]]]]. split; [assumption|]. exists k. repeat split; auto.
    + destruct H as [k [k2 [_ [_ [_ [_ [H5 [H6 _]]]]]]]]. rewrite He in H5. inversion H5; subst. contradiction.
    + destruct H as [k2 [r [_ [_ [H3 [H4 _]]]]]]. rewrite He in H3. inversion H3; subst. contradiction.
  - destruct H as [Hs [H|[H|[H|H]]]].
    + destruct H as [k [H1 [_ [H3 _]]]]. rewrite He in H1. inversion H1; subst. congruence.
    + destruct H as [k [k2 [H1 [_ [H3 _]]]]]. rewrite He in H1. inversion H1; subst. congruence.
    + destruct H as [k [k2 [H1 [_ [H3 _]]]]]. rewrite He in H1. inversion H1; subst. congruence.
    + destruct H as [k2 [r [H1 _]]]. congruence.
Qed.

(* an established entry (non-zero handle) with nothing in flight: the pair is connected *)
Lemma cst_quiet_established : forall ei ej fi fj i j pi pj k,
  cst ei ej fi fj [] [] i j pi pj -> ei = Some k -> k_handle k <> 0 ->
  exists k', ej = Some k' /\ k_handle k' <> 0 /\ k_central k' = negb (k_central k) /\ settled fi /\ settled fj.
Proof.
  intros ei ej fi fj i j pi pj k [H|[H|[H|H]]] He Hh.
  - destruct H as [H _]. congruence.
  - destruct H as [k1 [k' [H1 [H2 [H3 [H4 [H5 [_ [_ [H8 H9]]]]]]]]]]. rewrite He in H1. inversion H1; subst. eauto 8.
  - destruct H as [Hs [H|[H|[H|H]]]].
    + destruct H as [k1 [_ [_ [_ [_ [_ [H _]]]]]]]. discriminate.
    + destruct H as [k1 [k' [H1 [H2 _]]]]. rewrite He in H1. inversion H1; subst. contradiction.
    + destruct H as [k1 [k' [_ [_ [_ [_ [_ [_ [_ [_ H]]]]]]]]]]. discriminate.
    + destruct H as [k' [r [_ [_ [_ [_ [H _]]]]]]]. discriminate.
  - destruct H as [Hs [H|[H|[H|H]]]].
    + destruct H as [k1 [_ [_ [_ [_ [_ [H _]]]]]]]. discriminate.
    + destruct H as [k1 [k' [_ [_ [_ [_ [H5 [H6 _]]]]]]]]. rewrite He in H5. inversion H5; subst. contradiction.
    + destruct H as [k1 [k' [_ [_ [_ [_ [_ [_ [_ [_ H]]]]]]]]]]. discriminate.
    + destruct H as [k' [r [_ [_ [_ [_ [H _]]]]]]]. discriminate.
Qed.
