(* Proofs/CodecsFieldSrc.v — per-run obligation: the custom field parser / serializer source texts
   extracted from the current source are the recorded ones. *)
From Coq Require Import List String.
From BV Require Import Model.CodecsFieldSrc Gen.C18FieldSrc.
Lemma field_codec_sources_checked : field_codec_sources_src = field_codec_sources.
Proof. reflexivity. Qed.
Lemma parser_entry_facts_checked : parser_entry_facts_src = parser_entry_facts.
Proof. reflexivity. Qed.
Lemma parsers_plain_recorded : parsers_plain parser_entry_facts = true.
Proof. vm_compute. reflexivity. Qed.
Lemma parsers_plain_checked : parsers_plain parser_entry_facts_src = true.
Proof. rewrite parser_entry_facts_checked. exact parsers_plain_recorded. Qed.
