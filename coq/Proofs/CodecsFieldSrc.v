(* Proofs/CodecsFieldSrc.v — per-run obligation: the custom field parser / serializer source texts
   extracted from the current source are the recorded ones. *)
From Coq Require Import List String.
From BV Require Import Model.CodecsFieldSrc Gen.C18FieldSrc.
Lemma field_codec_sources_checked : field_codec_sources_src = field_codec_sources.
Proof. reflexivity. Qed.
