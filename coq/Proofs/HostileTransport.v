(* C17 - the transport boundary: what every transport source does with the bytes of the
   controller is "feed each received chunk to one PacketParser; an InvalidPacketError goes to
   the caller (asyncio logs it / StreamPacketSource and, with D17j, PumpedPacketSource catch
   it) and the next chunk is fed to the same parser".  The parser itself is C02's model
   (Model/Framer.v: [feed] is PacketParser.feed_data, [reset] its initial state, [feeds] the
   per-chunk driver); this file only restates, under C17 names, the two facts C17 needs
   from C02's proofs. *)
From Coq Require Import ZArith List Bool.
From BV Require Import Model.Framer Proofs.Framer.
Import ListNotations.

Definition tp_table := Framer.table.
Definition tp_parser := Framer.parser.
Definition tp_init : tp_parser := Framer.reset.
Definition tp_feed := Framer.feed.
Definition tp_receive_all := Framer.feeds.          (* one receive callback per chunk *)
Definition tp_raised := Framer.Raised.
Definition tp_wf_table := Framer.wf_table.
Definition tp_wf_packet := Framer.wf_packet.
Definition tp_packet := Framer.Packet.

(* a rejected byte leaves the parser in its initial state, whatever state it was in *)
Lemma reject_is_init : forall (t : tp_table) d (s s' : tp_parser) o,
  tp_feed t s d = (s', o, tp_raised) -> s' = tp_init.
Proof. intros t d s s' o H. exact (proj1 (feed_raise_resets t d s s' o H)). Qed.

(* hence everything well-formed that the controller sends afterwards, in any chunking, is
   delivered packet by packet *)
Lemma delivered_after_reject : forall (t : tp_table) (s : tp_parser) d s' o pkts chunks,
  tp_wf_table t = true -> tp_feed t s d = (s', o, tp_raised) ->
  forallb (tp_wf_packet t) pkts = true -> concat chunks = concat pkts ->
  fst (tp_receive_all t s' chunks) = tp_init /\
  concat (snd (tp_receive_all t s' chunks)) = map tp_packet pkts.
Proof. exact recover_after_any_error. Qed.
