(* Proofs about Model/Acl.v (property C05). *)
From Coq Require Import ZArith List Bool Lia ZifyBool.
From BV Require Import Model.Acl.
Import ListNotations.
Open Scope Z_scope.

(* ------------------------------------------------------------------ small facts *)
Lemma blen_app a b : blen (a ++ b) = blen a + blen b.
Proof. unfold blen. rewrite app_length. lia. Qed.

Lemma blen_nonneg a : 0 <= blen a.
Proof. unfold blen. lia. Qed.

Lemma blen_nil_iff a : blen a = 0 <-> a = [].
Proof. unfold blen. destruct a; cbn [length]; split; intros; try reflexivity; try discriminate; lia. Qed.

Lemma rd16_le16 v : match le16 v with [b0; b1] => rd16 b0 b1 = v | _ => False end.
Proof. unfold le16, rd16. pose proof (Z.div_mod v 256). lia. Qed.

Lemma u16_ok_iff v : u16_ok v = true <-> 0 <= v < 65536.
Proof. unfold u16_ok. lia. Qed.

(* ------------------------------------------------------------------ chunks *)
(* every fragment but the last is exactly m bytes; the last is 1..m bytes *)
Fixpoint full_but_last (m : nat) (cs : list bytes) : Prop :=
  match cs with
  | [] => True
  | c :: r =>
      match r with
      | [] => (1 <= length c <= m)%nat
      | _ :: _ => length c = m /\ full_but_last m r
      end
  end.

Lemma chunks_spec m : (1 <= m)%nat -> forall fuel l, (length l <= fuel)%nat ->
  exists cs, chunks fuel m l = Some cs /\ concat cs = l /\
             Forall (fun c => (1 <= length c <= m)%nat) cs /\ full_but_last m cs.
Proof.
  intros Hm. induction fuel as [|f IH]; intros l Hl.
  - destruct l; [|cbn in Hl; lia]. exists []. cbn. repeat split; constructor.
  - destruct l as [|x l'].
    + exists []. cbn. repeat split; constructor.
    + remember (x :: l') as l eqn:El.
      assert (Hne : (1 <= length l)%nat) by (subst l; cbn; lia).
      destruct (IH (skipn m l)) as (cs & Hc & Hcat & Hall & Hfull).
      { rewrite skipn_length. lia. }
      exists (firstn m l :: cs).
      assert (Hf : (1 <= length (firstn m l) <= m)%nat) by (rewrite firstn_length; lia).
      split; [|split; [|split]].
      * subst l. cbn [chunks]. rewrite <- El at 1. rewrite El in Hc. cbn [chunks] in *.
        rewrite Hc. reflexivity.
      * cbn [concat]. rewrite Hcat. apply firstn_skipn.
      * constructor; assumption.
      * cbn [full_but_last]. destruct cs as [|c2 r2]; [exact Hf|].
        split; [|exact Hfull].
        (* a second chunk exists, so skipn m l is not empty, so l is longer than m *)
        rewrite firstn_length. apply Nat.min_l.
        destruct (Nat.le_gt_cases m (length l)) as [H|H]; [exact H|].
        rewrite skipn_all2 in Hcat by lia. cbn [concat] in Hcat.
        inversion Hall as [|? ? Hc2 _]; subst. destruct c2; [cbn in Hc2; lia|discriminate].
Qed.

Lemma chunks_none_m0 fuel l : l <> [] -> chunks fuel 0 l = None.
Proof.
  revert l. induction fuel as [|f IH]; intros l Hl; destruct l as [|x l']; try congruence; cbn [chunks]; [reflexivity|].
  cbn [skipn]. rewrite IH by congruence. reflexivity.
Qed.

(* ------------------------------------------------------------------ fragmenter *)
Definition cont (h : Z) (c : bytes) : acl := mkAcl h 1 0 (blen c) c.
Definition start (h pb : Z) (c : bytes) : acl := mkAcl h pb 0 (blen c) c.

Lemma mark_frags_eq h pb c r : mark_frags h pb (c :: r) = start h pb c :: map (cont h) r.
Proof. reflexivity. Qed.

Lemma mark_frags_data h pb cs : map a_data (mark_frags h pb cs) = cs.
Proof.
  destruct cs as [|c r]; [reflexivity|]. cbn [mark_frags map a_data]. f_equal.
  rewrite map_map. cbn [a_data]. apply map_id.
Qed.

(* the packets produced for one SDU: exists, and are the marked chunks *)
Lemma fragment_chunks h pb m sdu : 1 <= m ->
  exists cs, fragment h pb m sdu = Some (mark_frags h pb cs) /\ concat cs = sdu /\
             Forall (fun c => (1 <= length c <= Z.to_nat m)%nat) cs /\ full_but_last (Z.to_nat m) cs.
Proof.
  intros Hm. unfold fragment.
  destruct (m <=? 0) eqn:E; [lia|].
  destruct (chunks_spec (Z.to_nat m) ltac:(lia) (length sdu) sdu (le_n _)) as (cs & Hc & Hcat & Hall & Hfull).
  exists cs. rewrite Hc. cbn [option_map]. auto.
Qed.

(* what the property says about the fragments of one SDU *)
Definition frag_ok (h m : Z) (p : acl) : Prop :=
  a_handle p = h /\ a_bc p = 0 /\ a_len p = blen (a_data p) /\ 1 <= blen (a_data p) <= m.

Definition flags_ok (pb0 : Z) (ps : list acl) : Prop :=
  match ps with
  | [] => True
  | p :: r => a_pb p = pb0 /\ Forall (fun q => a_pb q = 1) r
  end.

Lemma fragment_spec h pb m sdu : 1 <= m ->
  exists ps, fragment h pb m sdu = Some ps /\
             concat (map a_data ps) = sdu /\
             Forall (frag_ok h m) ps /\ flags_ok pb ps /\
             full_but_last (Z.to_nat m) (map a_data ps) /\
             (ps = [] <-> sdu = []).
Proof.
  intros Hm. destruct (fragment_chunks h pb m sdu Hm) as (cs & Hf & Hcat & Hall & Hfull).
  exists (mark_frags h pb cs). rewrite mark_frags_data. repeat split; auto.
  - destruct cs as [|c r]; [constructor|]. rewrite mark_frags_eq.
    inversion Hall as [|? ? Hc Hr]; subst.
    constructor.
    + unfold frag_ok, start, blen. cbn. repeat split; lia.
    + apply Forall_forall. intros q Hq. apply in_map_iff in Hq. destruct Hq as (c' & <- & Hin).
      rewrite Forall_forall in Hr. specialize (Hr c' Hin).
      unfold frag_ok, cont, blen. cbn. repeat split; lia.
  - destruct cs as [|c r]; [exact I|]. rewrite mark_frags_eq. cbn. split; [reflexivity|].
    apply Forall_forall. intros q Hq. apply in_map_iff in Hq. destruct Hq as (c' & <- & _). reflexivity.
  - intros E. destruct cs; [subst; reflexivity|discriminate].
  - intros E. subst sdu. destruct cs as [|c r]; [reflexivity|].
    inversion Hall as [|? ? Hc _]; subst. cbn [concat] in Hcat.
    destruct c; [cbn in Hc; lia|discriminate].
Qed.

(* range(0, len, 0) raises *)
Lemma fragment_m0 h pb sdu : fragment h pb 0 sdu = None.
Proof. reflexivity. Qed.

(* ------------------------------------------------------------------ assembler *)
Lemma asm_run_app s ps qs :
  asm_run s (ps ++ qs) =
  let '(s1, o1) := asm_run s ps in let '(s2, o2) := asm_run s1 qs in (s2, o1 ++ o2).
Proof.
  revert s. induction ps as [|p ps IH]; intros s; cbn [asm_run app].
  - destruct (asm_run s qs). reflexivity.
  - destruct (feed s p) as [s1 o1]. rewrite IH.
    destruct (asm_run s1 ps) as [s2 o2]. destruct (asm_run s2 qs) as [s3 o3].
    rewrite app_assoc. reflexivity.
Qed.

Lemma deliveries_app a b : deliveries (a ++ b) = deliveries a ++ deliveries b.
Proof.
  induction a as [|e a IH]; [reflexivity|]. destruct e; cbn [deliveries app]; rewrite ?IH; reflexivity.
Qed.

(* the three outcomes of the length comparison *)
Lemma asm_check_eq cur l : blen cur = l + 4 -> asm_check cur l = (asm_init, [Deliver cur]).
Proof. intros H. unfold asm_check. rewrite (proj2 (Z.eqb_eq _ _) H). reflexivity. Qed.

Lemma asm_check_lt cur l : blen cur < l + 4 -> asm_check cur l = ((Some cur, l), []).
Proof.
  intros H. unfold asm_check.
  destruct (blen cur =? l + 4) eqn:E1; [lia|]. destruct (blen cur >? l + 4) eqn:E2; [lia|]. reflexivity.
Qed.

Lemma asm_check_gt cur l : blen cur > l + 4 -> asm_check cur l = (asm_init, [Overflow]).
Proof.
  intros H. unfold asm_check.
  destruct (blen cur =? l + 4) eqn:E1; [lia|]. destruct (blen cur >? l + 4) eqn:E2; [|lia]. reflexivity.
Qed.

(* every way out of feed_packet that delivers or detects an overflow leaves the initial state *)
Lemma asm_check_reset cur l s o : asm_check cur l = (s, o) -> o <> [] -> s = asm_init.
Proof.
  unfold asm_check. destruct (blen cur =? l + 4); [intros H; inversion H; reflexivity|].
  destruct (blen cur >? l + 4); intros H; inversion H; subst; [reflexivity|congruence].
Qed.

Lemma feed_cont_partial h c cur l :
  blen (cur ++ c) < l + 4 -> feed (Some cur, l) (cont h c) = ((Some (cur ++ c), l), []).
Proof. intros H. unfold feed, cont. cbn. apply asm_check_lt. exact H. Qed.

(* continuation fragments on top of a partial PDU: while the data stays below the announced
   length nothing happens; the last fragment decides *)
Lemma conts_run h : forall r cur l, r <> [] ->
  blen (cur ++ concat (removelast r)) < l + 4 ->
  asm_run (Some cur, l) (map (cont h) r) = asm_check (cur ++ concat r) l.
Proof.
  induction r as [|c r IH]; intros cur l Hne Hlt; [congruence|].
  destruct r as [|c' r'].
  - cbn [map asm_run concat]. rewrite app_nil_r.
    unfold feed, cont. cbn [a_pb a_data fst snd]. cbn.
    destruct (asm_check (cur ++ c) l) as [s o]. rewrite app_nil_r. reflexivity.
  - change (removelast (c :: c' :: r')) with (c :: removelast (c' :: r')) in Hlt.
    cbn [concat] in Hlt. rewrite app_assoc in Hlt.
    assert (Hc : blen (cur ++ c) < l + 4).
    { rewrite blen_app in Hlt. pose proof (blen_nonneg (concat (removelast (c' :: r')))). lia. }
    change (map (cont h) (c :: c' :: r')) with (cont h c :: map (cont h) (c' :: r')).
    cbn [asm_run]. rewrite feed_cont_partial by exact Hc.
    rewrite (IH (cur ++ c) l) by (congruence || exact Hlt).
    cbn [concat]. rewrite <- app_assoc.
    destruct (asm_check (cur ++ c ++ concat (c' :: r')) l). reflexivity.
Qed.

(* a start fragment that carries the length field overwrites whatever state there was *)
Lemma feed_start s h pb b0 b1 rest :
  pb = 0 \/ pb = 2 ->
  feed s (start h pb (b0 :: b1 :: rest)) = asm_check (b0 :: b1 :: rest) (rd16 b0 b1).
Proof. intros [-> | ->]; reflexivity. Qed.

(* One fragment sequence: a start fragment announcing l, then continuation fragments.
   If everything before the last fragment is below the announced length, the result is
   decided by the total: equal delivers, more is an overflow, less stays pending. *)
Lemma one_sequence s h pb b0 b1 rest r :
  pb = 0 \/ pb = 2 ->
  let c0 := b0 :: b1 :: rest in
  let l := rd16 b0 b1 in
  (r <> [] -> blen (c0 ++ concat (removelast r)) < l + 4) ->
  asm_run s (start h pb c0 :: map (cont h) r) = asm_check (c0 ++ concat r) l.
Proof.
  intros Hpb c0 l Hlt. cbn [asm_run]. rewrite feed_start by exact Hpb. fold c0. fold l.
  destruct r as [|c r'].
  - cbn [map asm_run concat]. rewrite app_nil_r. destruct (asm_check c0 l). rewrite app_nil_r. reflexivity.
  - specialize (Hlt ltac:(congruence)).
    assert (Hc0 : blen c0 < l + 4).
    { rewrite blen_app in Hlt. pose proof (blen_nonneg (concat (removelast (c :: r')))). lia. }
    rewrite asm_check_lt by exact Hc0.
    rewrite conts_run by (congruence || exact Hlt).
    destruct (asm_check (c0 ++ concat (c :: r')) l). reflexivity.
Qed.

(* a well-formed PDU as the assembler sees it: at least the 4 header bytes, length field
   (first two bytes, little endian) = number of bytes after the header *)
Definition pdu_wf (pdu : bytes) : Prop :=
  match pdu with
  | b0 :: b1 :: _ => blen pdu = rd16 b0 b1 + 4
  | _ => False
  end.

Lemma concat_removelast_lt (cs : list bytes) :
  cs <> [] -> Forall (fun c => (1 <= length c)%nat) cs ->
  blen (concat (removelast cs)) < blen (concat cs).
Proof.
  intros Hne Hall. rewrite (app_removelast_last [] Hne) at 2.
  rewrite concat_app, blen_app. cbn [concat]. rewrite app_nil_r.
  assert (Hin : In (last cs []) cs).
  { rewrite (app_removelast_last [] Hne) at 2. apply in_or_app. right. left. reflexivity. }
  rewrite Forall_forall in Hall. specialize (Hall _ Hin). unfold blen. lia.
Qed.

(* RESYNC, single PDU: from ANY assembler state the fragments of a well-formed PDU, cut by
   any m >= 2 and with either start marker, deliver exactly that PDU and leave the initial state *)
Theorem asm_fragment s h pb m pdu ps :
  2 <= m -> pb = 0 \/ pb = 2 -> pdu_wf pdu ->
  fragment h pb m pdu = Some ps ->
  asm_run s ps = (asm_init, [Deliver pdu]).
Proof.
  intros Hm Hpb Hwf Hf.
  destruct (fragment_chunks h pb m pdu ltac:(lia)) as (cs & Hf' & Hcat & Hall & Hfull).
  rewrite Hf in Hf'. inversion Hf'; subst ps. clear Hf Hf'.
  destruct pdu as [|b0 [|b1 rest]]; try contradiction. cbn [pdu_wf] in Hwf.
  destruct cs as [|c0 r]; [discriminate|].
  (* the first chunk holds the two length bytes because m >= 2 *)
  assert (Hc0 : exists rest0, c0 = b0 :: b1 :: rest0).
  { cbn [full_but_last] in Hfull. cbn [concat] in Hcat.
    destruct r as [|c1 r1].
    - rewrite app_nil_r in Hcat. exists rest. exact Hcat.
    - destruct Hfull as [Hlen _].
      destruct c0 as [|x0 [|x1 rest0]]; cbn [length] in Hlen; try lia.
      cbn [app] in Hcat. inversion Hcat; subst. eexists; reflexivity. }
  destruct Hc0 as (rest0 & ->).
  rewrite mark_frags_eq.
  rewrite one_sequence.
  - cbn [concat] in Hcat. rewrite Hcat. apply asm_check_eq. exact Hwf.
  - exact Hpb.
  - intros Hr. rewrite <- Hwf, <- Hcat. cbn [concat]. rewrite !blen_app.
    inversion Hall as [|? ? _ Hall']; subst.
    assert (blen (concat (removelast r)) < blen (concat r)); [|lia].
    apply concat_removelast_lt; [exact Hr|].
    eapply Forall_impl; [|exact Hall']. cbn. intros; lia.
Qed.

(* without m >= 2 the statement is false: with m = 1 the start fragment cannot carry the
   length field and the real code raises struct.error *)
Lemma asm_fragment_m1_refuted :
  exists pdu ps, pdu_wf pdu /\ fragment 1 0 1 pdu = Some ps /\
                 deliveries (snd (asm_run asm_init ps)) = [].
Proof. exists [1; 0; 4; 0; 9]. eexists. split; [reflexivity|]. split; vm_compute; reflexivity. Qed.

(* RESYNC with arbitrary garbage in front *)
Theorem asm_resync s junk h pb m pdu ps :
  2 <= m -> pb = 0 \/ pb = 2 -> pdu_wf pdu -> fragment h pb m pdu = Some ps ->
  asm_run s (junk ++ ps) = (asm_init, snd (asm_run s junk) ++ [Deliver pdu]).
Proof.
  intros Hm Hpb Hwf Hf. rewrite asm_run_app.
  destruct (asm_run s junk) as [s1 o1]. rewrite (asm_fragment s1 h pb m pdu ps Hm Hpb Hwf Hf).
  reflexivity.
Qed.

(* ------------------------------------------------------------------ streams: junk_i ++ PDU_i *)
(* a stream is a list of (arbitrary packets, then the fragments of one well-formed PDU) *)
Record item := mkItem { it_junk : list acl; it_h : Z; it_pb : Z; it_m : Z; it_pdu : bytes }.

Definition item_wf (i : item) : Prop :=
  2 <= it_m i /\ (it_pb i = 0 \/ it_pb i = 2) /\ pdu_wf (it_pdu i).

Definition item_packets (i : item) : list acl :=
  it_junk i ++ match fragment (it_h i) (it_pb i) (it_m i) (it_pdu i) with Some ps => ps | None => [] end.

(* what a malformed sequence delivers is a function of that sequence alone, evaluated from
   the INITIAL state (for every item but the first): it cannot touch its neighbours *)
Fixpoint stream_spec (s : asm) (items : list item) : list bytes :=
  match items with
  | [] => []
  | i :: r => deliveries (snd (asm_run s (it_junk i))) ++ [it_pdu i] ++ stream_spec asm_init r
  end.

Theorem asm_stream : forall items s, Forall item_wf items ->
  deliveries (snd (asm_run s (flat_map item_packets items))) = stream_spec s items /\
  (items <> [] -> fst (asm_run s (flat_map item_packets items)) = asm_init).
Proof.
  induction items as [|i r IH]; intros s Hwf.
  - cbn. split; [reflexivity|congruence].
  - inversion Hwf as [|? ? (Hm & Hpb & Hp) Hr]; subst.
    cbn [flat_map]. unfold item_packets at 1.
    destruct (fragment_spec (it_h i) (it_pb i) (it_m i) (it_pdu i) ltac:(lia)) as (ps & Hf & _).
    rewrite Hf. rewrite <- app_assoc. rewrite asm_run_app.
    destruct (asm_run s (it_junk i)) as [s1 o1] eqn:Ej.
    rewrite asm_run_app. rewrite (asm_fragment s1 _ _ _ _ ps Hm Hpb Hp Hf).
    destruct (IH asm_init Hr) as [IHd IHs].
    destruct (asm_run asm_init (flat_map item_packets r)) as [s3 o3] eqn:Er.
    cbn [fst snd] in *. split.
    + rewrite !deliveries_app. cbn [deliveries stream_spec snd app]. rewrite IHd. reflexivity.
    + intros _. destruct r as [|i2 r2]; [cbn in Er; inversion Er; reflexivity|].
      apply IHs. congruence.
Qed.

(* sequences of well-formed PDUs compose: each delivered once, in order *)
Definition clean (h pb m : Z) (pdu : bytes) : item := mkItem [] h pb m pdu.

Lemma stream_spec_clean h pb m pdus s :
  stream_spec s (map (clean h pb m) pdus) = pdus.
Proof.
  revert s. induction pdus as [|p r IH]; intros s; [reflexivity|].
  cbn [map stream_spec clean it_junk it_pdu asm_run snd deliveries app]. rewrite IH. reflexivity.
Qed.

Theorem asm_sequence h pb m pdus s :
  2 <= m -> pb = 0 \/ pb = 2 -> Forall pdu_wf pdus ->
  deliveries (snd (asm_run s (flat_map item_packets (map (clean h pb m) pdus)))) = pdus.
Proof.
  intros Hm Hpb Hwf.
  rewrite (proj1 (asm_stream (map (clean h pb m) pdus) s _)).
  - apply stream_spec_clean.
  - apply Forall_forall. intros i Hi. apply in_map_iff in Hi. destruct Hi as (p & <- & Hin).
    rewrite Forall_forall in Hwf. unfold item_wf, clean. cbn. auto.
Qed.

(* ------------------------------------------------------------------ malformed sequences *)
(* continuation without start: ignored, one by one, the state stays empty *)
Theorem conts_without_start : forall ps l, Forall (fun p => a_pb p = 1) ps ->
  asm_run (None, l) ps = ((None, l), map (fun _ => ContNoStart) ps).
Proof.
  induction ps as [|p r IH]; intros l Hall; [reflexivity|].
  inversion Hall as [|? ? Hp Hr]; subst. cbn [asm_run map].
  unfold feed. rewrite Hp. cbn. rewrite (IH l Hr). reflexivity.
Qed.

(* a PDU whose start fragment was lost: every remaining fragment is ignored *)
Theorem lost_start h pb m pdu p ps :
  1 <= m -> fragment h pb m pdu = Some (p :: ps) ->
  asm_run asm_init ps = (asm_init, map (fun _ => ContNoStart) ps).
Proof.
  intros Hm Hf. destruct (fragment_spec h pb m pdu Hm) as (ps' & Hf' & _ & _ & Hfl & _).
  rewrite Hf in Hf'. inversion Hf'; subst ps'. destruct Hfl as [_ Hfl].
  apply conts_without_start. exact Hfl.
Qed.

(* data beyond the announced length: the start fragment of a PDU followed by continuation
   fragments that exceed the announced length with the last one -> Overflow, state reset,
   nothing delivered; whatever continuation fragments follow are ignored *)
Theorem overflow_costs_one_pdu s h pb b0 b1 rest r more :
  pb = 0 \/ pb = 2 ->
  let c0 := b0 :: b1 :: rest in
  (r <> [] -> blen (c0 ++ concat (removelast r)) < rd16 b0 b1 + 4) ->
  blen (c0 ++ concat r) > rd16 b0 b1 + 4 ->
  Forall (fun p => a_pb p = 1) more ->
  asm_run s (start h pb c0 :: map (cont h) r ++ more) =
  (asm_init, Overflow :: map (fun _ => ContNoStart) more).
Proof.
  intros Hpb c0 Hlt Hgt Hmore.
  change (start h pb c0 :: map (cont h) r ++ more) with ((start h pb c0 :: map (cont h) r) ++ more).
  rewrite asm_run_app. rewrite one_sequence by assumption. fold c0.
  rewrite asm_check_gt by exact Hgt.
  unfold asm_init. rewrite conts_without_start by exact Hmore. reflexivity.
Qed.

(* a truncated PDU (fewer bytes than announced) is dropped by the next start fragment *)
Theorem truncated_then_next s h pb b0 b1 rest r h' pb' m pdu ps :
  pb = 0 \/ pb = 2 ->
  let c0 := b0 :: b1 :: rest in
  blen (c0 ++ concat r) < rd16 b0 b1 + 4 ->
  2 <= m -> pb' = 0 \/ pb' = 2 -> pdu_wf pdu -> fragment h' pb' m pdu = Some ps ->
  asm_run s ((start h pb c0 :: map (cont h) r) ++ ps) = (asm_init, [Deliver pdu]).
Proof.
  intros Hpb c0 Hlt Hm Hpb' Hwf Hf. rewrite asm_run_app. rewrite one_sequence; [|exact Hpb|].
  - fold c0. rewrite asm_check_lt by exact Hlt.
    rewrite (asm_fragment _ h' pb' m pdu ps Hm Hpb' Hwf Hf). reflexivity.
  - intros Hr. fold c0.
    assert (blen (concat (removelast r)) <= blen (concat r)).
    { rewrite (app_removelast_last [] Hr) at 2. rewrite concat_app, blen_app.
      pose proof (blen_nonneg (concat [last r []])). lia. }
    rewrite blen_app in *. lia.
Qed.

(* no step ever delivers and keeps data: after a delivery or an overflow the state is initial *)
Theorem feed_resets s p s' o :
  feed s p = (s', o) -> (exists d, In (Deliver d) o) \/ In Overflow o -> s' = asm_init.
Proof.
  unfold feed. intros H Ho.
  assert (Hne : forall cur l, asm_check cur l = (s', o) -> s' = asm_init).
  { intros cur l Hc. apply (asm_check_reset cur l s' o Hc).
    destruct Ho as [(d & Hd)|Hd]; intros ->; inversion Hd. }
  destruct ((a_pb p =? 0) || (a_pb p =? 2)).
  - destruct (a_data p) as [|b0 [|b1 t]].
    + inversion H; subst. destruct Ho as [(d & [Hd|[]])|[Hd|[]]]; discriminate.
    + inversion H; subst. destruct Ho as [(d & [Hd|[]])|[Hd|[]]]; discriminate.
    + eapply Hne; exact H.
  - destruct (a_pb p =? 1).
    + destruct (fst s).
      * eapply Hne; exact H.
      * inversion H; subst. destruct Ho as [(d & [Hd|[]])|[Hd|[]]]; discriminate.
    + destruct (fst s).
      * eapply Hne; exact H.
      * inversion H; subst. destruct Ho as [(d & [Hd|[]])|[Hd|[]]]; discriminate.
Qed.
