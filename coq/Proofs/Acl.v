(* Proofs about Model/Acl.v (property C05). *)
From Coq Require Import ZArith List Bool Lia ZifyBool.
From BV Require Import Model.Acl Model.DataQueue Proofs.DataQueue.
Import ListNotations.
Open Scope Z_scope.

(* ------------------------------------------------------------------ small facts *)
Lemma blen_app a b : blen (a ++ b) = blen a + blen b.
Proof. unfold blen. rewrite app_length. lia. Qed.

Lemma blen_nonneg a : 0 <= blen a.
Proof. unfold blen. lia. Qed.

Lemma blen_nil_iff a : blen a = 0 <-> a = [].
Proof. unfold blen. destruct a; cbn [length]; split; intros; try reflexivity; try discriminate; lia. Qed.

Lemma rd16_le16 v : match le16 v with [b0; b1] => rd16 b0 b1 = v | _ => False end.
Proof. unfold le16, rd16. pose proof (Z.div_mod v 256). lia. Qed.

Lemma u16_ok_iff v : u16_ok v = true <-> 0 <= v < 65536.
Proof. unfold u16_ok. lia. Qed.

(* ------------------------------------------------------------------ chunks *)
(* every fragment but the last is exactly m bytes; the last is 1..m bytes *)
Fixpoint full_but_last (m : nat) (cs : list bytes) : Prop :=
  match cs with
  | [] => True
  | c :: r =>
      match r with
      | [] => (1 <= length c <= m)%nat
      | _ :: _ => length c = m /\ full_but_last m r
      end
  end.

Lemma chunks_spec m : (1 <= m)%nat -> forall fuel l, (length l <= fuel)%nat ->
  exists cs, chunks fuel m l = Some cs /\ concat cs = l /\
             Forall (fun c => (1 <= length c <= m)%nat) cs /\ full_but_last m cs.
Proof.
  intros Hm. induction fuel as [|f IH]; intros l Hl.
  - destruct l; [|cbn in Hl; lia]. exists []. cbn. repeat split; constructor.
  - destruct l as [|x l'].
    + exists []. cbn. repeat split; constructor.
    + assert (Hne : (1 <= length (x :: l'))%nat) by (cbn [length]; lia).
      destruct (IH (skipn m (x :: l'))) as (cs & Hc & Hcat & Hall & Hfull).
      { rewrite skipn_length. lia. }
      assert (Hch : chunks (S f) m (x :: l') = Some (firstn m (x :: l') :: cs)).
      { cbn [chunks]. rewrite Hc. reflexivity. }
      set (l := x :: l') in *. clearbody l.
      exists (firstn m l :: cs).
      assert (Hf : (1 <= length (firstn m l) <= m)%nat) by (rewrite firstn_length; lia).
      split; [|split; [|split]].
      * exact Hch.
      * cbn [concat]. rewrite Hcat. apply firstn_skipn.
      * constructor; assumption.
      * cbn [full_but_last]. destruct cs as [|c2 r2]; [exact Hf|].
        split; [|exact Hfull].
        (* a second chunk exists, so skipn m l is not empty, so l is longer than m *)
        rewrite firstn_length. apply Nat.min_l.
        destruct (Nat.le_gt_cases m (length l)) as [H|H]; [exact H|].
        rewrite skipn_all2 in Hcat by lia. cbn [concat] in Hcat.
        inversion Hall as [|? ? Hc2 _]; subst. destruct c2; [cbn in Hc2; lia|discriminate].
Qed.

Lemma chunks_none_m0 fuel l : l <> [] -> chunks fuel 0 l = None.
Proof.
  revert l. induction fuel as [|f IH]; intros l Hl; destruct l as [|x l']; try congruence; cbn [chunks]; [reflexivity|].
  cbn [skipn]. rewrite IH by congruence. reflexivity.
Qed.

(* ------------------------------------------------------------------ fragmenter *)
Definition cont (h : Z) (c : bytes) : acl := mkAcl h 1 0 (blen c) c.
Definition start (h pb : Z) (c : bytes) : acl := mkAcl h pb 0 (blen c) c.

Lemma mark_frags_eq h pb c r : mark_frags h pb (c :: r) = start h pb c :: map (cont h) r.
Proof. reflexivity. Qed.

Lemma mark_frags_data h pb cs : map a_data (mark_frags h pb cs) = cs.
Proof.
  destruct cs as [|c r]; [reflexivity|]. cbn [mark_frags map a_data]. f_equal.
  rewrite map_map. cbn [a_data]. apply map_id.
Qed.

(* the packets produced for one SDU: exists, and are the marked chunks *)
Lemma fragment_chunks h pb m sdu : 1 <= m ->
  exists cs, fragment h pb m sdu = Some (mark_frags h pb cs) /\ concat cs = sdu /\
             Forall (fun c => (1 <= length c <= Z.to_nat m)%nat) cs /\ full_but_last (Z.to_nat m) cs.
Proof.
  intros Hm. unfold fragment.
  destruct (m <=? 0) eqn:E; [lia|].
  destruct (chunks_spec (Z.to_nat m) ltac:(lia) (length sdu) sdu (le_n _)) as (cs & Hc & Hcat & Hall & Hfull).
  exists cs. rewrite Hc. cbn [option_map]. auto.
Qed.

(* what the property says about the fragments of one SDU *)
Definition frag_ok (h m : Z) (p : acl) : Prop :=
  a_handle p = h /\ a_bc p = 0 /\ a_len p = blen (a_data p) /\ 1 <= blen (a_data p) <= m.

Definition flags_ok (pb0 : Z) (ps : list acl) : Prop :=
  match ps with
  | [] => True
  | p :: r => a_pb p = pb0 /\ Forall (fun q => a_pb q = 1) r
  end.

Lemma fragment_spec h pb m sdu : 1 <= m ->
  exists ps, fragment h pb m sdu = Some ps /\
             concat (map a_data ps) = sdu /\
             Forall (frag_ok h m) ps /\ flags_ok pb ps /\
             full_but_last (Z.to_nat m) (map a_data ps) /\
             (ps = [] <-> sdu = []).
Proof.
  intros Hm. destruct (fragment_chunks h pb m sdu Hm) as (cs & Hf & Hcat & Hall & Hfull).
  exists (mark_frags h pb cs). rewrite mark_frags_data. repeat split; auto.
  - destruct cs as [|c r]; [constructor|]. rewrite mark_frags_eq.
    inversion Hall as [|? ? Hc Hr]; subst.
    constructor.
    + unfold frag_ok, start, blen. cbn. repeat split; lia.
    + apply Forall_forall. intros q Hq. apply in_map_iff in Hq. destruct Hq as (c' & <- & Hin).
      rewrite Forall_forall in Hr. specialize (Hr c' Hin).
      unfold frag_ok, cont, blen. cbn. repeat split; lia.
  - destruct cs as [|c r]; [exact I|]. rewrite mark_frags_eq. cbn. split; [reflexivity|].
    apply Forall_forall. intros q Hq. apply in_map_iff in Hq. destruct Hq as (c' & <- & _). reflexivity.
  - intros E. destruct cs; [subst; reflexivity|discriminate].
  - intros E. destruct cs as [|c r]; [reflexivity|]. exfalso.
    rewrite E in Hcat. cbn [concat] in Hcat. apply app_eq_nil in Hcat. destruct Hcat as [Hc0 _].
    inversion Hall as [|? ? Hc _]. rewrite Hc0 in Hc. cbn [length] in Hc. lia.
Qed.

(* range(0, len, 0) raises *)
Lemma fragment_m0 h pb sdu : fragment h pb 0 sdu = None.
Proof. reflexivity. Qed.

(* ------------------------------------------------------------------ assembler *)
Lemma asm_run_app s ps qs :
  asm_run s (ps ++ qs) =
  let '(s1, o1) := asm_run s ps in let '(s2, o2) := asm_run s1 qs in (s2, o1 ++ o2).
Proof.
  revert s. induction ps as [|p ps IH]; intros s; cbn [asm_run app].
  - destruct (asm_run s qs). reflexivity.
  - destruct (feed s p) as [s1 o1]. rewrite IH.
    destruct (asm_run s1 ps) as [s2 o2]. destruct (asm_run s2 qs) as [s3 o3].
    rewrite app_assoc. reflexivity.
Qed.

Lemma deliveries_app a b : deliveries (a ++ b) = deliveries a ++ deliveries b.
Proof.
  induction a as [|e a IH]; [reflexivity|]. destruct e; cbn [deliveries app]; rewrite ?IH; reflexivity.
Qed.

(* the three outcomes of the length comparison *)
Lemma asm_check_eq cur l : blen cur = l + 4 -> asm_check cur l = (asm_init, [Deliver cur]).
Proof. intros H. unfold asm_check. rewrite (proj2 (Z.eqb_eq _ _) H). reflexivity. Qed.

Lemma asm_check_lt cur l : blen cur < l + 4 -> asm_check cur l = ((Some cur, l), []).
Proof.
  intros H. unfold asm_check.
  destruct (blen cur =? l + 4) eqn:E1; [lia|]. destruct (blen cur >? l + 4) eqn:E2; [lia|]. reflexivity.
Qed.

Lemma asm_check_gt cur l : blen cur > l + 4 -> asm_check cur l = (asm_init, [Overflow]).
Proof.
  intros H. unfold asm_check.
  destruct (blen cur =? l + 4) eqn:E1; [lia|]. destruct (blen cur >? l + 4) eqn:E2; [|lia]. reflexivity.
Qed.

Lemma asm_check_reset cur l s o : asm_check cur l = (s, o) -> o <> [] -> s = asm_init.
Proof.
  unfold asm_check. destruct (blen cur =? l + 4); [intros H; inversion H; reflexivity|].
  destruct (blen cur >? l + 4); intros H; inversion H; subst; [reflexivity|congruence].
Qed.

Lemma asm_tail_reset cur l0 s o : asm_tail cur l0 = (s, o) -> o <> [] -> s = asm_init.
Proof.
  unfold asm_tail. destruct cur as [|b0 [|b1 t]].
  - intros H; inversion H; congruence.
  - intros H; inversion H; congruence.
  - apply asm_check_reset.
Qed.

(* a well-formed PDU as the assembler sees it: at least the 4 header bytes, length field
   (first two bytes, little endian) = number of bytes after the header *)
Definition pdu_wf (pdu : bytes) : Prop :=
  match pdu with
  | b0 :: b1 :: _ => blen pdu = rd16 b0 b1 + 4
  | _ => False
  end.

(* accumulated data that makes feed_packet wait: the length field is not complete yet, or
   fewer bytes than announced *)
Definition pending (cur : bytes) : Prop :=
  match cur with
  | b0 :: b1 :: _ => blen cur < rd16 b0 b1 + 4
  | _ => True
  end.

Lemma asm_tail_pending cur l0 : pending cur -> exists l, asm_tail cur l0 = ((Some cur, l), []).
Proof.
  destruct cur as [|b0 [|b1 t]]; cbn [pending asm_tail]; intros H; try (eexists; reflexivity).
  exists (rd16 b0 b1). apply asm_check_lt. exact H.
Qed.

Lemma asm_tail_wf pdu l0 : pdu_wf pdu -> asm_tail pdu l0 = (asm_init, [Deliver pdu]).
Proof.
  destruct pdu as [|b0 [|b1 t]]; cbn [pdu_wf asm_tail]; try contradiction. apply asm_check_eq.
Qed.

Lemma asm_tail_2 b0 b1 t l0 : asm_tail (b0 :: b1 :: t) l0 = asm_check (b0 :: b1 :: t) (rd16 b0 b1).
Proof. reflexivity. Qed.

(* every proper prefix of a well-formed PDU is pending: this is why ANY cut works, also one
   that leaves fewer than two bytes in the start fragment *)
Lemma strict_prefix_pending pdu p q : pdu_wf pdu -> pdu = p ++ q -> q <> [] -> pending p.
Proof.
  intros Hwf -> Hq. destruct p as [|b0 [|b1 t]]; cbn [pending]; auto.
  cbn [app pdu_wf] in Hwf. rewrite <- Hwf.
  change (b0 :: b1 :: t ++ q) with ((b0 :: b1 :: t) ++ q). rewrite blen_app.
  assert (0 < blen q); [|lia]. destruct q; [congruence|]. unfold blen. cbn [length]. lia.
Qed.

Definition cont_pkt_is (h : Z) (c : bytes) : feed (None, 0) (cont h c) = ((None, 0), [ContNoStart]) := eq_refl.

Lemma feed_start s h pb c : pb = 0 \/ pb = 2 -> feed s (start h pb c) = asm_tail c 0.
Proof. intros [-> | ->]; reflexivity. Qed.

Lemma feed_cont cur l h c : feed (Some cur, l) (cont h c) = asm_tail (cur ++ c) l.
Proof. reflexivity. Qed.

(* continuation fragments on top of stored data: while every intermediate accumulation is
   pending nothing happens; the last fragment decides *)
Lemma conts_run h : forall r cur l0, r <> [] ->
  (forall r1 r2, r = r1 ++ r2 -> r1 <> [] -> r2 <> [] -> pending (cur ++ concat r1)) ->
  exists l, asm_run (Some cur, l0) (map (cont h) r) = asm_tail (cur ++ concat r) l.
Proof.
  induction r as [|c r IH]; intros cur l0 Hne Hp; [congruence|].
  destruct r as [|c' r'].
  - exists l0. cbn [map asm_run concat]. rewrite app_nil_r, feed_cont.
    destruct (asm_tail (cur ++ c) l0). rewrite app_nil_r. reflexivity.
  - assert (Hc : pending (cur ++ c)).
    { specialize (Hp [c] (c' :: r') eq_refl ltac:(congruence) ltac:(congruence)).
      cbn [concat] in Hp. rewrite app_nil_r in Hp. exact Hp. }
    destruct (asm_tail_pending (cur ++ c) l0 Hc) as (l1 & Hl1).
    destruct (IH (cur ++ c) l1 ltac:(congruence)) as (l2 & Hl2).
    { intros r1 r2 E Hr1 Hr2. rewrite <- app_assoc.
      apply (Hp (c :: r1) r2); [rewrite E; reflexivity|congruence|exact Hr2]. }
    exists l2. change (map (cont h) (c :: c' :: r')) with (cont h c :: map (cont h) (c' :: r')).
    cbn [asm_run]. rewrite feed_cont, Hl1. cbv beta iota. unfold bytes in *. rewrite Hl2. clear Hl2. cbn [concat]. rewrite <- app_assoc.
    destruct (asm_tail _ l2). reflexivity.
Qed.

(* One fragment sequence, any cut: a start fragment (of any length, also 0 or 1 bytes), then
   continuation fragments.  If every accumulation before the last fragment is pending, the
   outcome is the length test on the total. *)
Lemma one_sequence_gen s h pb c0 r :
  pb = 0 \/ pb = 2 ->
  (forall r1 r2, r = r1 ++ r2 -> r2 <> [] -> pending (c0 ++ concat r1)) ->
  exists l, asm_run s (start h pb c0 :: map (cont h) r) = asm_tail (c0 ++ concat r) l.
Proof.
  intros Hpb Hp. cbn [asm_run]. rewrite feed_start by exact Hpb.
  destruct r as [|c r'].
  - exists 0. cbn [map asm_run concat]. rewrite app_nil_r. destruct (asm_tail c0 0). rewrite app_nil_r. reflexivity.
  - assert (Hc0 : pending c0).
    { specialize (Hp [] (c :: r') eq_refl ltac:(congruence)). cbn [concat] in Hp. rewrite app_nil_r in Hp. exact Hp. }
    destruct (asm_tail_pending c0 0 Hc0) as (l1 & ->).
    destruct (conts_run h (c :: r') c0 l1 ltac:(congruence)) as (l2 & Hl2).
    { intros r1 r2 E _ Hr2. apply (Hp r1 r2 E Hr2). }
    exists l2. cbv beta iota. unfold bytes in *. rewrite Hl2. clear Hl2. destruct (asm_tail _ l2). reflexivity.
Qed.

(* the same for a start fragment that carries the length field, with the bound stated on
   the data before the last fragment *)
Lemma concat_prefix_le (r r1 r2 : list bytes) :
  r = r1 ++ r2 -> r2 <> [] -> blen (concat r1) <= blen (concat (removelast r)).
Proof.
  intros -> H2. rewrite removelast_app by exact H2. rewrite concat_app, blen_app.
  pose proof (blen_nonneg (concat (removelast r2))). lia.
Qed.

Lemma one_sequence s h pb b0 b1 rest r :
  pb = 0 \/ pb = 2 ->
  let c0 := b0 :: b1 :: rest in
  let l := rd16 b0 b1 in
  (r <> [] -> blen (c0 ++ concat (removelast r)) < l + 4) ->
  asm_run s (start h pb c0 :: map (cont h) r) = asm_check (c0 ++ concat r) l.
Proof.
  intros Hpb c0 l Hlt. subst c0 l.
  destruct (one_sequence_gen s h pb (b0 :: b1 :: rest) r Hpb) as (l' & ->).
  - intros r1 r2 E Hr2. cbn [app pending].
    assert (Hr : r <> []) by (rewrite E; destruct r1; [exact Hr2|discriminate]).
    specialize (Hlt Hr). pose proof (concat_prefix_le r r1 r2 E Hr2).
    change (b0 :: b1 :: rest ++ concat r1) with ((b0 :: b1 :: rest) ++ concat r1).
    rewrite blen_app in *. unfold bytes in *. lia.
  - reflexivity.
Qed.

Lemma concat_removelast_lt (cs : list bytes) :
  cs <> [] -> Forall (fun c => (1 <= length c)%nat) cs ->
  blen (concat (removelast cs)) < blen (concat cs).
Proof.
  intros Hne Hall. destruct (exists_last Hne) as (a & b & ->).
  rewrite removelast_last. rewrite concat_app, blen_app. cbn [concat]. rewrite app_nil_r.
  rewrite Forall_forall in Hall. specialize (Hall b ltac:(apply in_or_app; right; left; reflexivity)).
  unfold blen. lia.
Qed.

Lemma concat_nonempty (r : list bytes) :
  r <> [] -> Forall (fun c => (1 <= length c)%nat) r -> concat r <> [].
Proof.
  intros Hne Hall. destruct r as [|c r']; [congruence|]. inversion Hall as [|? ? Hc _]; subst.
  cbn [concat]. destruct c; [cbn in Hc; lia|discriminate].
Qed.

(* RESYNC, single PDU: from ANY assembler state the fragments of a well-formed PDU, cut by
   ANY m >= 1 and with either start marker, deliver exactly that PDU and leave the initial state *)
Theorem asm_fragment s h pb m pdu ps :
  1 <= m -> pb = 0 \/ pb = 2 -> pdu_wf pdu ->
  fragment h pb m pdu = Some ps ->
  asm_run s ps = (asm_init, [Deliver pdu]).
Proof.
  intros Hm Hpb Hwf Hf.
  destruct (fragment_chunks h pb m pdu Hm) as (cs & Hf' & Hcat & Hall & Hfull).
  rewrite Hf in Hf'. inversion Hf'; subst ps. clear Hf Hf'.
  destruct cs as [|c0 r].
  { cbn [concat] in Hcat. subst pdu. contradiction. }
  rewrite mark_frags_eq. inversion Hall as [|? ? _ Hall']; subst.
  assert (Hall1 : Forall (fun c : bytes => (1 <= length c)%nat) r)
    by (eapply Forall_impl; [|exact Hall']; cbn; intros; lia).
  destruct (one_sequence_gen s h pb c0 r Hpb) as (l & ->).
  - intros r1 r2 E Hr2. apply (strict_prefix_pending (concat (c0 :: r)) _ (concat r2) Hwf).
    + cbn [concat]. rewrite E, concat_app, app_assoc. reflexivity.
    + apply concat_nonempty; [exact Hr2|]. rewrite E in Hall1. apply Forall_app in Hall1. apply Hall1.
  - apply asm_tail_wf. exact Hwf.
Qed.

(* before fix D05b the statement was false for m = 1: the start fragment cannot carry the
   length field and the code raised struct.error *)
Fixpoint asm_run_before_d05b (s : asm) (ps : list acl) : asm * list asm_ev :=
  match ps with
  | [] => (s, [])
  | p :: ps' =>
      let '(s1, o1) := feed_before_d05b s p in
      let '(s2, o2) := asm_run_before_d05b s1 ps' in
      (s2, o1 ++ o2)
  end.

Lemma asm_fragment_m1_before_d05b_refuted :
  exists pdu ps, pdu_wf pdu /\ fragment 1 0 1 pdu = Some ps /\
                 deliveries (snd (asm_run_before_d05b asm_init ps)) = [] /\
                 deliveries (snd (asm_run asm_init ps)) = [pdu].
Proof. exists [1; 0; 4; 0; 9]. eexists. split; [reflexivity|]. repeat split; vm_compute; reflexivity. Qed.

(* RESYNC with arbitrary garbage in front *)
Theorem asm_resync s junk h pb m pdu ps :
  1 <= m -> pb = 0 \/ pb = 2 -> pdu_wf pdu -> fragment h pb m pdu = Some ps ->
  asm_run s (junk ++ ps) = (asm_init, snd (asm_run s junk) ++ [Deliver pdu]).
Proof.
  intros Hm Hpb Hwf Hf. rewrite asm_run_app.
  destruct (asm_run s junk) as [s1 o1]. rewrite (asm_fragment s1 h pb m pdu ps Hm Hpb Hwf Hf).
  reflexivity.
Qed.

(* ------------------------------------------------------------------ streams: junk_i ++ PDU_i *)
(* a stream is a list of (arbitrary packets, then the fragments of one well-formed PDU) *)
Record item := mkItem { it_junk : list acl; it_h : Z; it_pb : Z; it_m : Z; it_pdu : bytes }.

Definition item_wf (i : item) : Prop :=
  1 <= it_m i /\ (it_pb i = 0 \/ it_pb i = 2) /\ pdu_wf (it_pdu i).

Definition item_packets (i : item) : list acl :=
  it_junk i ++ match fragment (it_h i) (it_pb i) (it_m i) (it_pdu i) with Some ps => ps | None => [] end.

(* what a malformed sequence delivers is a function of that sequence alone, evaluated from
   the INITIAL state (for every item but the first): it cannot touch its neighbours *)
Fixpoint stream_spec (s : asm) (items : list item) : list bytes :=
  match items with
  | [] => []
  | i :: r => deliveries (snd (asm_run s (it_junk i))) ++ [it_pdu i] ++ stream_spec asm_init r
  end.

Theorem asm_stream : forall items s, Forall item_wf items ->
  deliveries (snd (asm_run s (flat_map item_packets items))) = stream_spec s items /\
  (items <> [] -> fst (asm_run s (flat_map item_packets items)) = asm_init).
Proof.
  induction items as [|i r IH]; intros s Hwf.
  - cbn. split; [reflexivity|congruence].
  - inversion Hwf as [|? ? (Hm & Hpb & Hp) Hr]; subst.
    destruct (fragment_spec (it_h i) (it_pb i) (it_m i) (it_pdu i) Hm) as (ps & Hf & _).
    destruct (asm_run s (it_junk i)) as [s1 o1] eqn:Ej.
    destruct (IH asm_init Hr) as [IHd IHs].
    destruct (asm_run asm_init (flat_map item_packets r)) as [s3 o3] eqn:Er.
    assert (Hrun : asm_run s (flat_map item_packets (i :: r)) = (s3, o1 ++ [Deliver (it_pdu i)] ++ o3)).
    { cbn [flat_map]. unfold item_packets at 1. rewrite Hf. rewrite <- app_assoc. rewrite asm_run_app, Ej.
      rewrite asm_run_app. rewrite (asm_fragment s1 _ _ _ _ ps Hm Hpb Hp Hf). rewrite Er. reflexivity. }
    rewrite Hrun. cbn [fst snd] in *. split.
    + rewrite !deliveries_app. cbn [deliveries stream_spec snd app]. rewrite Ej. cbn [snd]. rewrite IHd. reflexivity.
    + intros _. destruct r as [|i2 r2]; [cbn in Er; inversion Er; reflexivity|].
      apply IHs. congruence.
Qed.

(* sequences of well-formed PDUs compose: each delivered once, in order *)
Definition clean (h pb m : Z) (pdu : bytes) : item := mkItem [] h pb m pdu.

Lemma stream_spec_clean h pb m pdus s :
  stream_spec s (map (clean h pb m) pdus) = pdus.
Proof.
  revert s. induction pdus as [|p r IH]; intros s; [reflexivity|].
  cbn [map stream_spec clean it_junk it_pdu asm_run snd deliveries app]. rewrite IH. reflexivity.
Qed.

Theorem asm_sequence h pb m pdus s :
  1 <= m -> pb = 0 \/ pb = 2 -> Forall pdu_wf pdus ->
  deliveries (snd (asm_run s (flat_map item_packets (map (clean h pb m) pdus)))) = pdus.
Proof.
  intros Hm Hpb Hwf.
  assert (Hi : Forall item_wf (map (clean h pb m) pdus)).
  2:{ rewrite (proj1 (asm_stream (map (clean h pb m) pdus) s Hi)). apply stream_spec_clean. }
  - apply Forall_forall. intros i Hi. apply in_map_iff in Hi. destruct Hi as (p & <- & Hin).
    rewrite Forall_forall in Hwf. unfold item_wf, clean. cbn. auto.
Qed.

(* ------------------------------------------------------------------ malformed sequences *)
(* continuation without start: ignored, one by one, the state stays empty *)
Theorem conts_without_start : forall ps l, Forall (fun p => a_pb p = 1) ps ->
  asm_run (None, l) ps = ((None, l), map (fun _ => ContNoStart) ps).
Proof.
  induction ps as [|p r IH]; intros l Hall; [reflexivity|].
  inversion Hall as [|? ? Hp Hr]; subst. cbn [asm_run map].
  unfold feed. rewrite Hp. cbn. rewrite (IH l Hr). reflexivity.
Qed.

(* a PDU whose start fragment was lost: every remaining fragment is ignored *)
Theorem lost_start h pb m pdu p ps :
  1 <= m -> fragment h pb m pdu = Some (p :: ps) ->
  asm_run asm_init ps = (asm_init, map (fun _ => ContNoStart) ps).
Proof.
  intros Hm Hf. destruct (fragment_spec h pb m pdu Hm) as (ps' & Hf' & _ & _ & Hfl & _).
  rewrite Hf in Hf'. inversion Hf'; subst ps'. destruct Hfl as [_ Hfl].
  apply conts_without_start. exact Hfl.
Qed.

(* data beyond the announced length: the start fragment of a PDU followed by continuation
   fragments that exceed the announced length with the last one -> Overflow, state reset,
   nothing delivered; whatever continuation fragments follow are ignored *)
Theorem overflow_costs_one_pdu s h pb b0 b1 rest r more :
  pb = 0 \/ pb = 2 ->
  let c0 := b0 :: b1 :: rest in
  (r <> [] -> blen (c0 ++ concat (removelast r)) < rd16 b0 b1 + 4) ->
  blen (c0 ++ concat r) > rd16 b0 b1 + 4 ->
  Forall (fun p => a_pb p = 1) more ->
  asm_run s (start h pb c0 :: map (cont h) r ++ more) =
  (asm_init, Overflow :: map (fun _ => ContNoStart) more).
Proof.
  intros Hpb c0 Hlt Hgt Hmore. subst c0.
  change (start h pb (b0 :: b1 :: rest) :: map (cont h) r ++ more)
    with ((start h pb (b0 :: b1 :: rest) :: map (cont h) r) ++ more).
  rewrite asm_run_app. rewrite one_sequence by assumption.
  rewrite asm_check_gt by exact Hgt.
  unfold asm_init. rewrite conts_without_start by exact Hmore. reflexivity.
Qed.

(* a truncated PDU (fewer bytes than announced) is dropped by the next start fragment *)
Theorem truncated_then_next s h pb b0 b1 rest r h' pb' m pdu ps :
  pb = 0 \/ pb = 2 ->
  let c0 := b0 :: b1 :: rest in
  blen (c0 ++ concat r) < rd16 b0 b1 + 4 ->
  1 <= m -> pb' = 0 \/ pb' = 2 -> pdu_wf pdu -> fragment h' pb' m pdu = Some ps ->
  asm_run s ((start h pb c0 :: map (cont h) r) ++ ps) = (asm_init, [Deliver pdu]).
Proof.
  intros Hpb c0 Hlt Hm Hpb' Hwf Hf. subst c0. rewrite asm_run_app. rewrite one_sequence; [|exact Hpb|].
  - rewrite asm_check_lt by exact Hlt.
    rewrite (asm_fragment _ h' pb' m pdu ps Hm Hpb' Hwf Hf). reflexivity.
  - intros Hr.
    assert (blen (concat (removelast r)) <= blen (concat r)).
    { rewrite (app_removelast_last [] Hr) at 2. rewrite concat_app, blen_app.
      pose proof (blen_nonneg (concat [last r []])). lia. }
    rewrite blen_app in *. lia.
Qed.

(* no step ever delivers and keeps data: after a delivery or an overflow the state is initial *)
Theorem feed_resets s p s' o :
  feed s p = (s', o) -> (exists d, In (Deliver d) o) \/ In Overflow o -> s' = asm_init.
Proof.
  unfold feed. intros H Ho.
  assert (Hne : forall cur l, asm_tail cur l = (s', o) -> s' = asm_init).
  { intros cur l Hc. apply (asm_tail_reset cur l s' o Hc).
    destruct Ho as [(d & Hd)|Hd]; intros ->; inversion Hd. }
  destruct ((a_pb p =? 0) || (a_pb p =? 2)).
  - eapply Hne; exact H.
  - destruct (a_pb p =? 1).
    + destruct (fst s).
      * eapply Hne; exact H.
      * inversion H; subst. destruct Ho as [(d & [Hd|[]])|[Hd|[]]]; discriminate.
    + destruct (fst s).
      * eapply Hne; exact H.
      * inversion H; subst. destruct Ho as [(d & [Hd|[]])|[Hd|[]]]; discriminate.
Qed.

(* SOUNDNESS of deliveries, from ANY state and for ANY packets: whatever the assembler hands
   to L2CAP has a length field that matches its size (it can be parsed, nothing is cut off) *)
Lemma asm_tail_delivers_wf cur l0 s o d : asm_tail cur l0 = (s, o) -> In (Deliver d) o -> pdu_wf d.
Proof.
  unfold asm_tail. destruct cur as [|b0 [|b1 t]].
  - intros H; inversion H; subst. intros [].
  - intros H; inversion H; subst. intros [].
  - unfold asm_check. destruct (blen (b0 :: b1 :: t) =? rd16 b0 b1 + 4) eqn:E.
    + intros H; inversion H; subst. intros [Hd|[]]. inversion Hd; subst. cbn [pdu_wf]. lia.
    + destruct (blen (b0 :: b1 :: t) >? rd16 b0 b1 + 4); intros H; inversion H; subst; cbn [In]; intuition discriminate.
Qed.

Theorem feed_delivers_wf s p s' o d : feed s p = (s', o) -> In (Deliver d) o -> pdu_wf d.
Proof.
  unfold feed. destruct ((a_pb p =? 0) || (a_pb p =? 2)); [apply asm_tail_delivers_wf|].
  destruct (a_pb p =? 1); destruct (fst s); try apply asm_tail_delivers_wf;
    intros H; inversion H; subst; cbn [In]; intuition discriminate.
Qed.

Theorem asm_run_delivers_wf : forall ps s d, In d (deliveries (snd (asm_run s ps))) -> pdu_wf d.
Proof.
  induction ps as [|p r IH]; intros s d; cbn [asm_run]; [intros []|].
  destruct (feed s p) as [s1 o1] eqn:Ef. destruct (asm_run s1 r) as [s2 o2] eqn:Er.
  cbn [snd]. rewrite deliveries_app. intros Hin. apply in_app_or in Hin. destruct Hin as [Hin|Hin].
  - assert (In (Deliver d) o1).
    { clear -Hin. induction o1 as [|e o IHo]; [destruct Hin|]. destruct e; cbn [deliveries] in Hin;
        try (right; apply IHo; exact Hin). destruct Hin as [->|Hin]; [left; reflexivity|right; apply IHo; exact Hin]. }
    eapply feed_delivers_wf; eassumption.
  - apply (IH s1 d). rewrite Er. exact Hin.
Qed.

(* ------------------------------------------------------------------ L2CAP basic header *)
Lemma Z2Nat_blen (p : bytes) : Z.to_nat (blen p) = length p.
Proof. unfold blen. apply Nat2Z.id. Qed.

Theorem l2cap_roundtrip cid payload b :
  l2cap_to_bytes cid payload = Some b ->
  l2cap_from_bytes b = Some (cid, payload) /\ pdu_wf b /\ blen b = blen payload + 4.
Proof.
  unfold l2cap_to_bytes. destruct (u16_ok (blen payload) && u16_ok cid) eqn:E; [|discriminate].
  intros H. inversion H; subst b. clear H.
  pose proof (rd16_le16 (blen payload)) as Hl. pose proof (rd16_le16 cid) as Hc.
  unfold le16 in *. cbn [app]. cbn [l2cap_from_bytes pdu_wf]. rewrite Hl, Hc.
  rewrite Z2Nat_blen, firstn_all. repeat split.
  - unfold blen. cbn [length]. lia.
  - unfold blen. cbn [length]. lia.
Qed.

Lemma l2cap_to_bytes_some cid payload :
  blen payload <= 65535 -> 0 <= cid <= 65535 -> exists b, l2cap_to_bytes cid payload = Some b.
Proof.
  intros Hp Hc. unfold l2cap_to_bytes.
  assert (u16_ok (blen payload) && u16_ok cid = true) as ->.
  { pose proof (blen_nonneg payload). unfold u16_ok. lia. }
  eexists; reflexivity.
Qed.

(* struct.pack('<HH') refuses what does not fit: nothing is sent *)
Lemma l2cap_to_bytes_none cid payload :
  blen payload > 65535 \/ cid < 0 \/ cid > 65535 -> l2cap_to_bytes cid payload = None.
Proof.
  intros H. unfold l2cap_to_bytes.
  assert (u16_ok (blen payload) && u16_ok cid = false) as ->; [|reflexivity].
  unfold u16_ok. lia.
Qed.

(* with FCS: the receiver's from_bytes sees payload ++ FCS (the channel strips it) *)
Theorem l2cap_fcs_roundtrip cid payload b :
  l2cap_to_bytes_fcs cid payload = Some b ->
  exists f0 f1, l2cap_from_bytes b = Some (cid, payload ++ [f0; f1]) /\ pdu_wf b /\
                [f0; f1] = le16 (crc16 (le16 (blen payload + 2) ++ le16 cid ++ payload)).
Proof.
  unfold l2cap_to_bytes_fcs. destruct (u16_ok (blen payload + 2) && u16_ok cid) eqn:E; [|discriminate].
  set (body := le16 (blen payload + 2) ++ le16 cid ++ payload).
  destruct (u16_ok (crc16 body)) eqn:Ec; [|discriminate].
  intros H. inversion H; subst b. clear H.
  pose proof (rd16_le16 (blen payload + 2)) as Hl. pose proof (rd16_le16 cid) as Hc.
  pose proof (rd16_le16 (crc16 body)) as Hf.
  exists (crc16 body mod 256), (crc16 body / 256).
  unfold le16 in Hl, Hc, Hf.
  assert (Hb : body = (blen payload + 2) mod 256 :: (blen payload + 2) / 256 :: cid mod 256 :: cid / 256 :: payload)
    by reflexivity.
  split; [|split].
  - rewrite Hb. unfold le16 at 1. cbn [app l2cap_from_bytes]. rewrite Hl, Hc. f_equal. f_equal.
    replace (Z.to_nat (blen payload + 2)) with (length (payload ++ [crc16 body mod 256; crc16 body / 256])).
    + apply firstn_all.
    + rewrite app_length. cbn [length]. unfold blen. lia.
  - rewrite Hb. unfold le16 at 1. cbn [app pdu_wf]. rewrite Hl. unfold blen. cbn [length].
    rewrite app_length. cbn [length]. lia.
  - reflexivity.
Qed.

(* ------------------------------------------------------------------ HCI ACL header bit fields *)
Definition zrange (n : nat) : list Z := map Z.of_nat (seq 0 n).

Lemma in_zrange n x : 0 <= x < Z.of_nat n -> In x (zrange n).
Proof.
  intros H. unfold zrange. apply in_map_iff. exists (Z.to_nat x). split; [lia|].
  apply in_seq. lia.
Qed.

Definition hdr_case_ok (h pb bc : Z) : bool :=
  let x := acl_hdr h pb bc in
  u16_ok x && (Z.land x 4095 =? h) && (Z.land (Z.shiftr x 12) 3 =? pb) && (Z.land (Z.shiftr x 14) 3 =? bc).

(* complete evaluation: all 4096 x 4 x 4 headers *)
Lemma hdr_all_ok :
  forallb (fun h => forallb (fun pb => forallb (fun bc => hdr_case_ok h pb bc) (zrange 4)) (zrange 4))
          (zrange 4096) = true.
Proof. vm_compute. reflexivity. Qed.

Lemma hdr_ok h pb bc : 0 <= h < 4096 -> 0 <= pb < 4 -> 0 <= bc < 4 -> hdr_case_ok h pb bc = true.
Proof.
  intros Hh Hpb Hbc. pose proof hdr_all_ok as H.
  rewrite forallb_forall in H. specialize (H h (in_zrange 4096 h ltac:(lia))).
  rewrite forallb_forall in H. specialize (H pb (in_zrange 4 pb ltac:(lia))).
  rewrite forallb_forall in H. exact (H bc (in_zrange 4 bc ltac:(lia))).
Qed.

Definition acl_ok (p : acl) : Prop :=
  0 <= a_handle p < 4096 /\ 0 <= a_pb p < 4 /\ 0 <= a_bc p < 4 /\
  a_len p = blen (a_data p) /\ blen (a_data p) <= 65535.

(* a packet with in-range fields survives serialisation and parsing *)
Theorem acl_wire_roundtrip p : acl_ok p ->
  exists b, acl_to_bytes p = Some b /\ acl_from_bytes b = Some p.
Proof.
  intros (Hh & Hpb & Hbc & Hlen & Hmax). destruct p as [h pb bc len data]. cbn [a_handle a_pb a_bc a_len a_data] in *.
  pose proof (hdr_ok h pb bc Hh Hpb Hbc) as Hok. unfold hdr_case_ok in Hok.
  apply andb_prop in Hok. destruct Hok as [Hok Hbcv]. apply andb_prop in Hok. destruct Hok as [Hok Hpbv].
  apply andb_prop in Hok. destruct Hok as [Hu Hhv].
  apply Z.eqb_eq in Hhv, Hpbv, Hbcv.
  unfold acl_to_bytes. cbn [a_handle a_pb a_bc a_len a_data]. rewrite Hu.
  assert (u16_ok len = true) as -> by (pose proof (blen_nonneg data); unfold u16_ok; lia).
  cbn [andb]. eexists. split; [reflexivity|].
  pose proof (rd16_le16 (acl_hdr h pb bc)) as H1. pose proof (rd16_le16 len) as H2.
  unfold le16 in *. cbn [app acl_from_bytes]. rewrite H1, H2.
  rewrite Hlen at 1. rewrite Z.eqb_refl. rewrite Hhv, Hpbv, Hbcv. reflexivity.
Qed.

Lemma wire1_id p : acl_ok p -> wire1 p = [p].
Proof.
  intros H. destruct (acl_wire_roundtrip p H) as (b & Hb & Hf). unfold wire1. rewrite Hb, Hf. reflexivity.
Qed.

Lemma wire_id ps : Forall acl_ok ps -> wire ps = ps.
Proof.
  induction 1 as [|p r Hp Hr IH]; [reflexivity|].
  unfold wire in *. cbn [flat_map]. rewrite wire1_id by exact Hp. rewrite IH. reflexivity.
Qed.

(* data_total_length above 65535 cannot be serialised: the packet is lost (this is D05's failure) *)
Lemma wire1_too_long p : a_len p > 65535 -> wire1 p = [].
Proof.
  intros H. unfold wire1, acl_to_bytes.
  assert (u16_ok (a_len p) = false) as -> by (unfold u16_ok; lia).
  rewrite andb_false_r. reflexivity.
Qed.

(* the packets of the fragmenter are serialisable *)
Lemma fragment_acl_ok h pb m sdu ps :
  0 <= h < 4096 -> 0 <= pb < 4 -> 1 <= m <= 65535 ->
  fragment h pb m sdu = Some ps -> Forall acl_ok ps.
Proof.
  intros Hh Hpb Hm Hf. destruct (fragment_spec h pb m sdu ltac:(lia)) as (ps' & Hf' & _ & Hok & Hfl & _).
  rewrite Hf in Hf'. inversion Hf'; subst ps'. clear Hf'.
  assert (Hpbs : Forall (fun q => 0 <= a_pb q < 4) ps).
  { destruct ps as [|p r]; [constructor|]. destruct Hfl as [Hp Hr]. constructor; [lia|].
    eapply Forall_impl; [|exact Hr]. cbn. intros; lia. }
  rewrite Forall_forall in *. intros q Hq. destruct (Hok q Hq) as (H1 & H2 & H3 & H4).
  specialize (Hpbs q Hq). unfold acl_ok. repeat split; try lia.
Qed.

(* ------------------------------------------------------------------ end to end *)
Lemma concat_opt_some {A} (f : A -> option (list acl)) (g : A -> list acl) xs :
  (forall x, In x xs -> f x = Some (g x)) -> concat_opt (map f xs) = Some (flat_map g xs).
Proof.
  induction xs as [|x r IH]; intros H; [reflexivity|].
  cbn [map concat_opt flat_map]. rewrite (H x (or_introl eq_refl)).
  rewrite IH by (intros y Hy; apply H; right; exact Hy). reflexivity.
Qed.

(* (cid, payload) pairs that L2CAP can carry *)
Definition sendable (cp : Z * bytes) : Prop := 0 <= fst cp <= 65535 /\ blen (snd cp) <= 65535.

Definition l2bytes (cp : Z * bytes) : bytes :=
  match l2cap_to_bytes (fst cp) (snd cp) with Some b => b | None => [] end.

Lemma l2bytes_spec cp : sendable cp ->
  l2cap_to_bytes (fst cp) (snd cp) = Some (l2bytes cp) /\ pdu_wf (l2bytes cp) /\
  host_on_acl_pdu (l2bytes cp) = [cp].
Proof.
  intros [Hc Hp]. destruct (l2cap_to_bytes_some (fst cp) (snd cp) Hp Hc) as (b & Hb).
  unfold l2bytes. rewrite Hb. destruct (l2cap_roundtrip _ _ _ Hb) as (Hf & Hwf & _).
  repeat split; auto. unfold host_on_acl_pdu. rewrite Hf. destruct cp; reflexivity.
Qed.

Definition frags (h pb m : Z) (pdu : bytes) : list acl :=
  match fragment h pb m pdu with Some ps => ps | None => [] end.

Lemma frags_spec h pb m pdu : 1 <= m -> fragment h pb m pdu = Some (frags h pb m pdu).
Proof. intros Hm. unfold frags. destruct (fragment_spec h pb m pdu Hm) as (ps & -> & _). reflexivity. Qed.

Lemma item_packets_clean h pb m pdu : item_packets (clean h pb m pdu) = frags h pb m pdu.
Proof. reflexivity. Qed.

Lemma flat_map_clean h pb m pdus :
  flat_map item_packets (map (clean h pb m) pdus) = flat_map (frags h pb m) pdus.
Proof. induction pdus as [|p r IH]; [reflexivity|]. cbn [map flat_map]. rewrite IH. reflexivity. Qed.

(* what the sending host emits: per PDU the fragments of its L2CAP bytes, in order *)
Lemma host_tx_spec h m pdus : 1 <= m -> Forall sendable pdus ->
  host_tx h m pdus = Some (flat_map (fun cp => frags h 0 m (l2bytes cp)) pdus).
Proof.
  intros Hm Hs. unfold host_tx. apply concat_opt_some. intros cp Hin.
  rewrite Forall_forall in Hs. destruct (l2bytes_spec cp (Hs cp Hin)) as (Hb & _).
  unfold send_l2cap_pdu. rewrite Hb. cbn [send_acl_sdu]. apply frags_spec. exact Hm.
Qed.

Lemma flat_map_frags_ok h pb m pdus :
  0 <= h < 4096 -> 0 <= pb < 4 -> 1 <= m <= 65535 -> Forall acl_ok (flat_map (frags h pb m) pdus).
Proof.
  intros Hh Hpb Hm. induction pdus as [|p r IH]; [constructor|].
  cbn [flat_map]. apply Forall_app. split; [|exact IH].
  eapply fragment_acl_ok; try eassumption. apply frags_spec. lia.
Qed.

(* reassembly of a clean fragment stream, through the wire *)
Lemma rx_clean h pb m pdus :
  0 <= h < 4096 -> pb = 0 \/ pb = 2 -> 1 <= m <= 65535 -> Forall pdu_wf pdus ->
  deliveries (snd (asm_run asm_init (wire (flat_map (frags h pb m) pdus)))) = pdus.
Proof.
  intros Hh Hpb Hm Hwf. rewrite wire_id by (apply flat_map_frags_ok; lia).
  rewrite <- flat_map_clean. apply asm_sequence; [lia|exact Hpb|exact Hwf].
Qed.

Lemma flat_map_map {A B C} (f : A -> B) (g : B -> list C) xs :
  flat_map g (map f xs) = flat_map (fun x => g (f x)) xs.
Proof. induction xs as [|x r IH]; [reflexivity|]. cbn [map flat_map]. rewrite IH. reflexivity. Qed.

(* END TO END: any list of sendable PDUs, any fragment sizes 2..65535 on either side, any
   handles: the receiving host's L2CAP layer sees exactly the PDUs sent, once each, in order *)
Theorem relay_intact hA mA hB mB pdus :
  0 <= hA < 4096 -> 0 <= hB < 4096 -> 1 <= mA <= 65535 -> 1 <= mB <= 65535 ->
  Forall sendable pdus ->
  relay hA mA hB mB pdus = Some pdus.
Proof.
  intros HhA HhB HmA HmB Hs. unfold relay.
  rewrite host_tx_spec by (lia || exact Hs).
  assert (Hwf : Forall pdu_wf (map l2bytes pdus)).
  { apply Forall_forall. intros b Hb. apply in_map_iff in Hb. destruct Hb as (cp & <- & Hin).
    rewrite Forall_forall in Hs. apply (l2bytes_spec cp (Hs cp Hin)). }
  assert (Hrx : ctrl_rx_pdus (flat_map (fun cp => frags hA 0 mA (l2bytes cp)) pdus) = map l2bytes pdus).
  { unfold ctrl_rx_pdus. rewrite <- (flat_map_map l2bytes (frags hA 0 mA)).
    apply rx_clean; auto. }
  rewrite Hrx. unfold ctrl_tx.
  rewrite (concat_opt_some (ctrl_to_host hB mB) (frags hB 2 mB)).
  2:{ intros b _. unfold ctrl_to_host. apply frags_spec. lia. }
  f_equal. unfold host_rx. rewrite rx_clean by auto.
  clear Hrx Hwf. induction pdus as [|cp r IH]; [reflexivity|].
  inversion Hs as [|? ? Hcp Hr]; subst. cbn [map flat_map].
  rewrite (proj2 (proj2 (l2bytes_spec cp Hcp))). rewrite IH by exact Hr. reflexivity.
Qed.

(* every fragment on either HCI link fits the controller's length, is non-empty, and carries
   the right marker (0 then 1 from the host, 2 then 1 from the controller) *)
Theorem relay_fragments_fit h pb m pdu :
  1 <= m -> Forall (frag_ok h m) (frags h pb m pdu) /\ flags_ok pb (frags h pb m pdu) /\
            concat (map a_data (frags h pb m pdu)) = pdu.
Proof.
  intros Hm. destruct (fragment_spec h pb m pdu Hm) as (ps & Hf & Hcat & Hok & Hfl & _).
  unfold frags. rewrite Hf. auto.
Qed.

(* D05 as it was: the unfragmented relay loses every PDU above 65531 payload bytes *)
Lemma relay_unfragmented_refuted :
  relay_unfragmented 1 1021 2 [(62, pattern (Z.to_nat 65532) 7 1); (62, [1; 2; 3])] = Some [(62, [1; 2; 3])].
Proof. vm_compute. reflexivity. Qed.

(* ------------------------------------------------------------------ ISO fragmentation *)
(* shape of the packets of one SDU: markers 10 (single) / 00 01* 11, SDU info on the first
   fragment only, data_total_length = header + fragment *)
Fixpoint iso_shape (first : bool) (seq total : Z) (ps : list iso) : Prop :=
  match ps with
  | [] => True
  | p :: r =>
      i_pb p = (match first, r with
                | true, [] => 2 | true, _ :: _ => 0 | false, [] => 3 | false, _ :: _ => 1 end) /\
      (if first
       then i_seq p = Some seq /\ i_sdu_len p = Some total /\ i_psf p = Some 0 /\ i_len p = 4 + blen (i_frag p)
       else i_seq p = None /\ i_sdu_len p = None /\ i_psf p = None /\ i_len p = blen (i_frag p)) /\
      i_ts p = None /\ iso_shape false seq total r
  end.

Lemma firstn_blen_min n (l : bytes) : 0 <= n -> blen (firstn (Z.to_nat n) l) = Z.min n (blen l).
Proof. intros Hn. unfold blen. rewrite firstn_length. lia. Qed.

Lemma iso_loop_spec h maxp seq total : 4 < maxp ->
  forall fuel rest first, (length rest <= fuel)%nat ->
  exists ps, iso_loop fuel h maxp seq total first rest = Some ps /\
             concat (map i_frag ps) = rest /\
             Forall (fun p => i_handle p = h /\ 1 <= blen (i_frag p) /\ 0 <= i_len p <= maxp) ps /\
             iso_shape first seq total ps.
Proof.
  intros Hmax. induction fuel as [|f IH]; intros rest first Hlen.
  - destruct rest; [|cbn in Hlen; lia]. exists []. cbn. repeat split; constructor.
  - destruct rest as [|x rest'].
    + exists []. cbn. repeat split; constructor.
    + set (l := x :: rest') in *.
      assert (Hl : 1 <= blen l) by (unfold blen, l; cbn [length]; lia).
      set (hl := if first then 4 else 0).
      assert (Hhl : 0 <= hl <= 4) by (unfold hl; destruct first; lia).
      set (n := Z.min (blen l) (maxp - hl)).
      assert (Hn : 1 <= n <= blen l) by (unfold n; lia).
      destruct (IH (skipn (Z.to_nat n) l) false) as (ps & Hps & Hcat & Hall & Hshape).
      { rewrite skipn_length. unfold blen in *. lia. }
      eexists. split; [|split; [|split]].
      * unfold l at 1. cbn [iso_loop]. fold l. fold hl.
        destruct (maxp <=? hl) eqn:E; [lia|]. fold n. rewrite Hps. reflexivity.
      * cbn [map concat]. rewrite Hcat.
        destruct first; cbn [i_frag]; apply firstn_skipn.
      * constructor; [|exact Hall].
        assert (Hfl : blen (firstn (Z.to_nat n) l) = n) by (rewrite firstn_blen_min; lia).
        destruct first; cbn [i_handle i_frag i_len]; rewrite Hfl; unfold hl in *; repeat split; lia.
      * assert (Hfl : blen (firstn (Z.to_nat n) l) = n) by (rewrite firstn_blen_min; lia).
        (* last fragment iff nothing remains *)
        assert (Hlast : (blen l =? n) = true <-> ps = []).
        { split.
          - intros E. apply Z.eqb_eq in E.
            assert (Hs : skipn (Z.to_nat n) l = []) by (apply skipn_all2; unfold blen in *; lia).
            rewrite Hs in Hcat. destruct ps as [|p r]; [reflexivity|]. exfalso.
            inversion Hall as [|? ? (_ & Hp & _) _]; subst. cbn [map concat] in Hcat.
            apply app_eq_nil in Hcat. destruct Hcat as [Hp0 _]. rewrite Hp0 in Hp. unfold blen in Hp. cbn in Hp. lia.
          - intros ->. cbn [map concat] in Hcat. apply Z.eqb_eq.
            assert (Hsl : length (skipn (Z.to_nat n) l) = 0%nat) by (rewrite <- Hcat; reflexivity).
            rewrite skipn_length in Hsl. unfold blen in *. lia. }
        destruct (blen l =? n) eqn:E.
        -- assert (ps = []) as -> by (apply Hlast; reflexivity).
           destruct first; cbn [iso_shape i_pb i_seq i_sdu_len i_psf i_len i_frag i_ts]; rewrite Hfl; unfold hl; repeat split.
        -- destruct ps as [|p r]; [assert (false = true) by (apply Hlast; reflexivity); discriminate|].
           destruct first; cbn [iso_shape i_pb i_seq i_sdu_len i_psf i_len i_frag i_ts]; rewrite Hfl; unfold hl;
             repeat split; exact Hshape || apply Hshape.
Qed.

Lemma land_ffff x : 0 <= x -> Z.land x 65535 = x mod 65536.
Proof. intros _. change 65535 with (Z.ones 16). rewrite Z.land_ones by lia. reflexivity. Qed.

(* one SDU: fragments concatenate to the SDU; sizes; markers; SDU length; sequence number;
   the link's counter advances by one modulo 2^16 *)
Theorem send_iso_sdu_spec h maxp seq sdu : 4 < maxp -> 0 <= seq ->
  exists ps, send_iso_sdu h maxp seq sdu = (Some ps, (seq + 1) mod 65536) /\
             concat (map i_frag ps) = sdu /\
             Forall (fun p => i_handle p = h /\ 1 <= blen (i_frag p) /\ 0 <= i_len p <= maxp) ps /\
             iso_shape true seq (blen sdu) ps.
Proof.
  intros Hmax Hseq. unfold send_iso_sdu.
  destruct (iso_loop_spec h maxp seq (blen sdu) Hmax (length sdu) sdu true (le_n _)) as (ps & -> & H).
  exists ps. rewrite land_ffff by lia. split; [reflexivity|exact H].
Qed.

(* ISO data packet length <= 4 cannot carry the SDU header: refused, nothing sent, counter kept *)
Lemma send_iso_sdu_refused h maxp seq x sdu : maxp <= 4 -> send_iso_sdu h maxp seq (x :: sdu) = (None, seq).
Proof.
  intros H. unfold send_iso_sdu. cbn [iso_loop length].
  destruct (maxp <=? 4) eqn:E; [reflexivity|lia].
Qed.

(* sequences of SDUs: the k-th SDU carries (seq0 + k) mod 2^16 *)
Fixpoint iso_seq_spec (h maxp seq : Z) (sdus : list bytes) (outs : list (option (list iso))) : Prop :=
  match sdus, outs with
  | [], [] => True
  | s :: r, Some ps :: outs' =>
      concat (map i_frag ps) = s /\ iso_shape true seq (blen s) ps /\
      Forall (fun p => i_handle p = h /\ 1 <= blen (i_frag p) /\ 0 <= i_len p <= maxp) ps /\
      iso_seq_spec h maxp ((seq + 1) mod 65536) r outs'
  | _, _ => False
  end.

Theorem send_iso_sdus_spec h maxp : 4 < maxp -> forall sdus seq, 0 <= seq < 65536 ->
  iso_seq_spec h maxp seq sdus (fst (send_iso_sdus h maxp seq sdus)) /\
  snd (send_iso_sdus h maxp seq sdus) = (seq + Z.of_nat (length sdus)) mod 65536.
Proof.
  intros Hmax. induction sdus as [|s r IH]; intros seq Hseq.
  - cbn. split; [exact I|]. rewrite Z.add_0_r, Z.mod_small by lia. reflexivity.
  - cbn [send_iso_sdus].
    destruct (send_iso_sdu_spec h maxp seq s Hmax ltac:(lia)) as (ps & -> & Hcat & Hall & Hshape).
    assert (Hs1 : 0 <= (seq + 1) mod 65536 < 65536) by (apply Z.mod_pos_bound; lia).
    destruct (IH ((seq + 1) mod 65536) Hs1) as [IH1 IH2].
    destruct (send_iso_sdus h maxp ((seq + 1) mod 65536) r) as [os s2]. cbn [fst snd] in *.
    split; [cbn [iso_seq_spec]; auto|].
    rewrite IH2. cbn [length]. rewrite Nat2Z.inj_succ.
    rewrite Zplus_mod_idemp_l. f_equal. lia.
Qed.

(* ISO header / SDU info bit fields: complete evaluation over handle x pb, and over the
   12-bit SDU length *)
Definition iso_hdr_case_ok (h pb : Z) : bool :=
  let x := iso_hdr 0 pb h in
  u16_ok x && (Z.land x 4095 =? h) && (Z.land (Z.shiftr x 12) 3 =? pb) && (Z.land (Z.shiftr x 14) 1 =? 0).
Definition iso_info_case_ok (l : Z) : bool :=
  let w := Z.lor l (Z.shiftl 0 14) in
  u16_ok w && (Z.land w 4095 =? l) && (Z.land (Z.shiftr w 14) 3 =? 0).

Lemma iso_hdr_all_ok :
  forallb (fun h => forallb (fun pb => iso_hdr_case_ok h pb) (zrange 4)) (zrange 4096) = true.
Proof. vm_compute. reflexivity. Qed.
Lemma iso_info_all_ok : forallb iso_info_case_ok (zrange 4096) = true.
Proof. vm_compute. reflexivity. Qed.

Definition iso_first_ok (p : iso) : Prop :=
  0 <= i_handle p < 4096 /\ (i_pb p = 0 \/ i_pb p = 2) /\ 0 <= i_len p <= 65535 /\ i_ts p = None /\
  (exists s l, i_seq p = Some s /\ i_sdu_len p = Some l /\ i_psf p = Some 0 /\ 0 <= s <= 65535 /\ 0 <= l < 4096).
Definition iso_cont_ok (p : iso) : Prop :=
  0 <= i_handle p < 4096 /\ (i_pb p = 1 \/ i_pb p = 3) /\ 0 <= i_len p <= 65535 /\ i_ts p = None /\
  i_seq p = None /\ i_sdu_len p = None /\ i_psf p = None.

(* the packets send_iso_sdu builds survive the wire format (SDU length < 2^12, the width of
   the field that from_bytes keeps) *)
Theorem iso_wire_roundtrip p : iso_first_ok p \/ iso_cont_ok p ->
  exists b, iso_to_bytes p = Some b /\ iso_from_bytes b = Some p.
Proof.
  intros [H|H].
  - destruct H as (Hh & Hpb & Hlen & Hts & s & l & Hs & Hl & Hf & Hsr & Hlr).
    destruct p as [h pb len ts sq sl psf frag]. cbn [i_handle i_pb i_len i_ts i_seq i_sdu_len i_psf] in *. subst.
    pose proof iso_hdr_all_ok as A. rewrite forallb_forall in A. specialize (A h (in_zrange 4096 h ltac:(lia))).
    rewrite forallb_forall in A. specialize (A pb (in_zrange 4 pb ltac:(lia))).
    pose proof iso_info_all_ok as B. rewrite forallb_forall in B. specialize (B l (in_zrange 4096 l ltac:(lia))).
    unfold iso_hdr_case_ok in A. unfold iso_info_case_ok in B.
    apply andb_prop in A. destruct A as [A A4]. apply andb_prop in A. destruct A as [A A3].
    apply andb_prop in A. destruct A as [A1 A2].
    apply andb_prop in B. destruct B as [B B3]. apply andb_prop in B. destruct B as [B1 B2].
    apply Z.eqb_eq in A2, A3, A4, B2, B3.
    unfold iso_to_bytes. cbn [i_handle i_pb i_len i_ts i_seq i_sdu_len i_psf i_frag].
    assert (u16_ok s = true) as -> by (unfold u16_ok; lia). rewrite B1, A1.
    assert (u16_ok len = true) as -> by (unfold u16_ok; lia). cbn [andb].
    eexists. split; [reflexivity|].
    pose proof (rd16_le16 (iso_hdr 0 pb h)) as R1. pose proof (rd16_le16 len) as R2.
    pose proof (rd16_le16 s) as R3. pose proof (rd16_le16 (Z.lor l (Z.shiftl 0 14))) as R4.
    unfold le16 in *. cbn [app iso_from_bytes]. rewrite R1, A2, A3, A4. cbn [Z.eqb].
    assert (Z.land pb 1 =? 0 = true) as -> by (destruct Hpb as [-> | ->]; reflexivity).
    rewrite R2, R3, R4, B2, B3. reflexivity.
  - destruct H as (Hh & Hpb & Hlen & Hts & Hs & Hl & Hf).
    destruct p as [h pb len ts sq sl psf frag]. cbn [i_handle i_pb i_len i_ts i_seq i_sdu_len i_psf] in *. subst.
    pose proof iso_hdr_all_ok as A. rewrite forallb_forall in A. specialize (A h (in_zrange 4096 h ltac:(lia))).
    rewrite forallb_forall in A. specialize (A pb (in_zrange 4 pb ltac:(lia))).
    unfold iso_hdr_case_ok in A.
    apply andb_prop in A. destruct A as [A A4]. apply andb_prop in A. destruct A as [A A3].
    apply andb_prop in A. destruct A as [A1 A2].
    apply Z.eqb_eq in A2, A3, A4.
    unfold iso_to_bytes. cbn [i_handle i_pb i_len i_ts i_seq i_sdu_len i_psf i_frag]. rewrite A1.
    assert (u16_ok len = true) as -> by (unfold u16_ok; lia). cbn [andb].
    eexists. split; [reflexivity|].
    pose proof (rd16_le16 (iso_hdr 0 pb h)) as R1. pose proof (rd16_le16 len) as R2.
    unfold le16 in *. cbn [app iso_from_bytes]. rewrite R1, A2, A3, A4. cbn [Z.eqb].
    assert (Z.land pb 1 =? 0 = false) as -> by (destruct Hpb as [-> | ->]; reflexivity).
    rewrite R2. reflexivity.
Qed.

(* the SDU length field keeps 12 bits only: a 4096-byte SDU reads back as length 0 *)
Lemma iso_sdu_length_4096_refuted :
  exists p b, iso_to_bytes p = Some b /\ i_sdu_len p = Some 4096 /\
              option_map i_sdu_len (iso_from_bytes b) = Some (Some 0).
Proof.
  exists (mkIso 1 2 5 None (Some 0) (Some 4096) (Some 0) [7]). eexists.
  split; [reflexivity|]. split; vm_compute; reflexivity.
Qed.

(* ------------------------------------------------------------------ composition with the DataPacketQueue (C04) *)
Lemma map_nth_seq {A} (l : list A) d : map (fun i => nth i l d) (seq 0 (length l)) = l.
Proof.
  induction l as [|x r IH]; [reflexivity|].
  cbn [length seq map nth]. f_equal. rewrite <- seq_shift, map_map. exact IH.
Qed.

(* The host enqueues the fragments of a connection as packets 0, 1, 2, ... (interleaved with
   ANY other queue activity: other connections, completion reports, flushes of others).
   Once nothing of that connection is waiting any more, what was handed to the controller for
   it is exactly the fragment list: nothing lost, duplicated or reordered (C04 fifo theorem). *)
Theorem queue_hands_over_fragments maxf ops h (pk : list acl) d :
  enqueued h ops = map (fun i => (Z.of_nat i, h)) (seq 0 (length pk)) ->
  flushes h ops = false ->
  filter (is_handle h) (q_wait (fst (q_run (q_init maxf) ops))) = [] ->
  map (fun ph => nth (Z.to_nat (fst ph)) pk d) (filter (is_handle h) (snd (q_run (q_init maxf) ops))) = pk.
Proof.
  intros Henq Hfl Hw. pose proof (fifo_per_handle h ops (q_init maxf) Hfl) as H.
  destruct (q_run (q_init maxf) ops) as [s' sent]. cbn [fst snd] in *.
  rewrite Hw, app_nil_r in H. cbn [q_init q_wait filter app] in H. rewrite H, Henq.
  rewrite map_map. cbn [fst]. rewrite <- (map_nth_seq pk d) at 2.
  apply map_ext. intros i. rewrite Nat2Z.id. reflexivity.
Qed.

(* ------------------------------------------------------------------ receiving side with injected faults *)
(* what the receiving host is fed: before each PDU's fragments an arbitrary packet sequence *)
Definition faulty_stream (hB mB : Z) (xs : list (list acl * (Z * bytes))) : list acl :=
  flat_map (fun x => fst x ++ frags hB 2 mB (l2bytes (snd x))) xs.

Definition silent (junk : list acl) : Prop := deliveries (snd (asm_run asm_init junk)) = [].

(* "a malformed fragment sequence costs only the affected PDU and never corrupts the next one":
   if the injected sequences deliver nothing by themselves (truncated, start lost, too long, ...),
   the L2CAP layer sees exactly the PDUs sent, once, in order - whatever the sequences are *)
Theorem rx_with_faults hB mB xs :
  1 <= mB -> Forall sendable (map snd xs) -> Forall (fun x => silent (fst x)) xs ->
  flat_map host_on_acl_pdu (deliveries (snd (asm_run asm_init (faulty_stream hB mB xs)))) = map snd xs.
Proof.
  intros Hm Hs Hj.
  set (items := map (fun x => mkItem (fst x) hB 2 mB (l2bytes (snd x))) xs).
  assert (Hpk : faulty_stream hB mB xs = flat_map item_packets items).
  { unfold faulty_stream, items. rewrite flat_map_map. apply flat_map_ext. intros x.
    unfold item_packets, frags. cbn [it_junk it_h it_pb it_m it_pdu]. reflexivity. }
  assert (Hwf : Forall item_wf items).
  { unfold items. apply Forall_forall. intros i Hi. apply in_map_iff in Hi. destruct Hi as (x & <- & Hin).
    unfold item_wf. cbn [it_m it_pb it_pdu]. split; [exact Hm|]. split; [right; reflexivity|].
    rewrite Forall_forall in Hs. apply (l2bytes_spec (snd x)). apply Hs. apply in_map. exact Hin. }
  rewrite Hpk. rewrite (proj1 (asm_stream items asm_init Hwf)). unfold items. clear Hpk Hwf items.
  induction xs as [|x r IH]; [reflexivity|].
  inversion Hs as [|? ? Hx Hr]; subst. inversion Hj as [|? ? Hjx Hjr]; subst.
  cbn [map stream_spec it_junk it_pdu]. unfold silent in Hjx. rewrite Hjx. cbn [app flat_map].
  rewrite (proj2 (proj2 (l2bytes_spec (snd x) Hx))). rewrite IH by assumption. reflexivity.
Qed.

(* the sequences the property names are silent *)
Lemma silent_conts ps : Forall (fun p => a_pb p = 1) ps -> silent ps.
Proof.
  intros H. unfold silent, asm_init. rewrite conts_without_start by exact H. cbn [snd].
  induction ps; [reflexivity|]. cbn [map deliveries]. inversion H; subst. auto.
Qed.

Lemma silent_overflow h pb b0 b1 rest r more :
  pb = 0 \/ pb = 2 ->
  (r <> [] -> blen ((b0 :: b1 :: rest) ++ concat (removelast r)) < rd16 b0 b1 + 4) ->
  blen ((b0 :: b1 :: rest) ++ concat r) > rd16 b0 b1 + 4 ->
  Forall (fun p => a_pb p = 1) more ->
  silent (start h pb (b0 :: b1 :: rest) :: map (cont h) r ++ more).
Proof.
  intros Hpb Hlt Hgt Hmore. unfold silent.
  rewrite (overflow_costs_one_pdu asm_init h pb b0 b1 rest r more Hpb Hlt Hgt Hmore). cbn [snd deliveries].
  clear. induction more; [reflexivity|]. cbn [map deliveries]. assumption.
Qed.

Lemma silent_truncated h pb b0 b1 rest r :
  pb = 0 \/ pb = 2 -> blen ((b0 :: b1 :: rest) ++ concat r) < rd16 b0 b1 + 4 ->
  silent (start h pb (b0 :: b1 :: rest) :: map (cont h) r).
Proof.
  intros Hpb Hlt. unfold silent. rewrite one_sequence; [|exact Hpb|].
  - rewrite asm_check_lt by exact Hlt. reflexivity.
  - intros Hr.
    assert (blen (concat (removelast r)) <= blen (concat r)).
    { rewrite (app_removelast_last [] Hr) at 2. rewrite concat_app, blen_app.
      pose proof (blen_nonneg (concat [last r []])). unfold bytes in *. lia. }
    rewrite blen_app in *. unfold bytes in *. lia.
Qed.

(* ------------------------------------------------------------------ ISO: what is sent can be read back *)
Lemma iso_shape_ok h maxp seq total : 0 <= h < 4096 -> maxp <= 65535 -> 0 <= seq <= 65535 -> 0 <= total < 4096 ->
  forall ps first, iso_shape first seq total ps ->
  Forall (fun p => i_handle p = h /\ 1 <= blen (i_frag p) /\ 0 <= i_len p <= maxp) ps ->
  Forall (fun p => iso_first_ok p \/ iso_cont_ok p) ps.
Proof.
  intros Hh Hmax Hseq Htot. induction ps as [|p r IH]; intros first Hshape Hall; [constructor|].
  cbn [iso_shape] in Hshape. destruct Hshape as (Hpb & Hinfo & Hts & Hrest).
  pose proof (Forall_inv Hall) as (Hph & _ & Hlen). pose proof (Forall_inv_tail Hall) as Hall'.
  constructor; [|apply (IH false Hrest Hall')].
  destruct first.
  - left. destruct Hinfo as (Hs & Hl & Hf & _). unfold iso_first_ok. rewrite Hph.
    repeat split; try lia; try exact Hts.
    + destruct r; [right|left]; exact Hpb.
    + exists seq, total. repeat split; auto; lia.
  - right. destruct Hinfo as (Hs & Hl & Hf & _). unfold iso_cont_ok. rewrite Hph.
    repeat split; try lia; auto.
    destruct r; [right|left]; exact Hpb.
Qed.

(* every packet send_iso_sdu emits survives the wire format, byte for byte (SDU < 2^12 bytes):
   the receiving host's HCI_IsoDataPacket.from_bytes sees the same handle, markers, sequence
   number, SDU length and fragment *)
Theorem iso_sdu_wire_intact h maxp seq sdu :
  0 <= h < 4096 -> 4 < maxp <= 65535 -> 0 <= seq <= 65535 -> blen sdu < 4096 ->
  exists ps, fst (send_iso_sdu h maxp seq sdu) = Some ps /\
             concat (map i_frag ps) = sdu /\
             Forall (fun p => exists b, iso_to_bytes p = Some b /\ iso_from_bytes b = Some p) ps.
Proof.
  intros Hh Hmax Hseq Hlen.
  destruct (send_iso_sdu_spec h maxp seq sdu ltac:(lia) ltac:(lia)) as (ps & Hs & Hcat & Hall & Hshape).
  exists ps. rewrite Hs. split; [reflexivity|]. split; [exact Hcat|].
  pose proof (iso_shape_ok h maxp seq (blen sdu) Hh ltac:(lia) Hseq ltac:(pose proof (blen_nonneg sdu); lia)
                ps true Hshape Hall) as Hok.
  eapply Forall_impl; [|exact Hok]. intros p Hp. apply iso_wire_roundtrip. exact Hp.
Qed.

(* a zero-length SDU: no packet, the sequence number still advances (one number per SDU) *)
Lemma send_iso_sdu_empty h maxp seq : 0 <= seq -> send_iso_sdu h maxp seq [] = (Some [], (seq + 1) mod 65536).
Proof. intros H. unfold send_iso_sdu. cbn [iso_loop length]. rewrite land_ffff by lia. reflexivity. Qed.

(* ---- several connections sharing one queue: what happens to OTHER handles cannot disturb h ---- *)
Lemma flushes_false_iff h ops :
  flushes h ops = false <-> Forall (fun o => match o with Flush h' => h' <> h | _ => True end) ops.
Proof.
  induction ops as [|o r IH]; cbn [flushes]; [split; [constructor|reflexivity]|].
  destruct o as [p h'|h'|n h']; rewrite ?IH.
  - split; [intros H; constructor; [exact I|exact H]|intros H; inversion H; assumption].
  - rewrite orb_false_iff, Z.eqb_neq, IH.
    split; [intros [H1 H2]; constructor; assumption|intros H; inversion H; split; assumption].
  - split; [intros H; constructor; [exact I|exact H]|intros H; inversion H; assumption].
Qed.

(* AT EVERY POINT of the drain (not only at the end), for any history in which h itself is not
   flushed - whatever is enqueued, completed or FLUSHED for other handles in between - what
   the controller was handed for h is a prefix of h's fragment list, in order *)
Theorem queue_prefix_in_order maxf ops h (pk : list acl) d :
  enqueued h ops = map (fun i => (Z.of_nat i, h)) (seq 0 (length pk)) ->
  flushes h ops = false ->
  exists k, map (fun ph => nth (Z.to_nat (fst ph)) pk d)
                (filter (is_handle h) (snd (q_run (q_init maxf) ops))) = firstn k pk.
Proof.
  intros Henq Hfl. pose proof (fifo_per_handle h ops (q_init maxf) Hfl) as H.
  destruct (q_run (q_init maxf) ops) as [s' sent]. cbn [fst snd] in *.
  cbn [q_init q_wait filter app] in H. rewrite Henq in H.
  exists (length (filter (is_handle h) sent)).
  assert (Hs : filter (is_handle h) sent =
               firstn (length (filter (is_handle h) sent)) (map (fun i => (Z.of_nat i, h)) (seq 0 (length pk)))).
  { rewrite <- H. rewrite firstn_app, Nat.sub_diag, firstn_all. cbn [firstn]. rewrite app_nil_r. reflexivity. }
  rewrite Hs at 1. rewrite <- firstn_map, map_map. cbn [fst].
  f_equal. rewrite <- (map_nth_seq pk d) at 2. apply map_ext. intros i. rewrite Nat2Z.id. reflexivity.
Qed.

(* the same with the other connections' activity spelled out: a history made of h's enqueues
   and of operations on other handles (including their flushes at any position) *)
Theorem queue_other_connections_harmless maxf ops h (pk : list acl) d :
  enqueued h ops = map (fun i => (Z.of_nat i, h)) (seq 0 (length pk)) ->
  Forall (fun o => match o with Flush h' => h' <> h | _ => True end) ops ->
  (exists k, map (fun ph => nth (Z.to_nat (fst ph)) pk d)
                 (filter (is_handle h) (snd (q_run (q_init maxf) ops))) = firstn k pk) /\
  (filter (is_handle h) (q_wait (fst (q_run (q_init maxf) ops))) = [] ->
   map (fun ph => nth (Z.to_nat (fst ph)) pk d)
       (filter (is_handle h) (snd (q_run (q_init maxf) ops))) = pk).
Proof.
  intros Henq Hall. apply flushes_false_iff in Hall. split.
  - apply queue_prefix_in_order; assumption.
  - intros Hw. apply queue_hands_over_fragments; assumption.
Qed.
